#!/bin/bash
# usage: goal.sh <file.v> <line>  - show the proof state after line <line>
f=$1; n=$2
tmp=/verif/build/goal_$$.v
mkdir -p /verif/build
head -n $n "$f" > $tmp
printf '\nShow.\n' >> $tmp
cd /verif/coq && timeout 120 coqc -Q theories BS -Q gen BSgen -Q props BSprops $tmp 2>&1 | grep -v "^Warning\|deprecated" | head -${3:-60}
rm -f /verif/build/goal_$$.* /verif/build/.goal_$$.aux
