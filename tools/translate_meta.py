#!/usr/bin/env python3
"""Tie 1, part 2: a translator for src/series/data/inline_meta/meta.rs.

`meta::write` and `meta::read` are straight-line byte shuffles, one arm per payload-size class.
This module parses the two functions (a small, checked subset of Rust: `write_all(&..)`,
`copy_from_slice`, slice/index expressions on `t`, `PREAMBLE`, `first_chunk`, `next_chunk`,
`chunks.next()` with its `OutOfLines { consumed_lines: k }` exit, a zero-initialised `line`
buffer) into a tiny IR and emits Gallina:

  gen_write p t            bytes written by meta::write for payload size p, t = the 8 timestamp bytes
  gen_write_lines p        the number of lines the arm reports
  gen_read_bytes p a b got the 8 bytes meta::read assembles from the two marker lines a, b and the
                           continuation lines got (in the order chunks.next() yields them)
  gen_consumed p           the consumed_lines values of the OutOfLines exits, in order

theories/MetaGenFacts.v proves these equal to the hand-written layouts of Layer I (Meta.v), which
MetaFacts proves equal to the documented layouts of Layer F. An edit of a layout in meta.rs therefore
changes the generated file and breaks a kernel-checked obligation. Anything outside the subset raises
NoMatch naming the statement: the check then reports a broken tie rather than guessing.
"""
import re

class NoMatch(Exception):
    pass

def strip_comments(s):
    s = re.sub(r"//[^\n]*", "", s)
    return re.sub(r"/\*.*?\*/", "", s, flags=re.S)

def match_brace(s, i):
    """s[i] == '{' -> index of the matching '}'"""
    assert s[i] == "{"
    d = 0
    for j in range(i, len(s)):
        if s[j] == "{": d += 1
        elif s[j] == "}":
            d -= 1
            if d == 0:
                return j
    raise NoMatch("unbalanced braces in meta.rs")

def fn_body(text, name):
    m = re.search(r"fn\s+%s\b" % name, text)
    if not m:
        raise NoMatch("fn %s in meta.rs" % name)
    # the parameter list may contain parentheses (impl Iterator<Item = &'a [u8]>): the body starts at the first '{'
    # outside them
    depth = 0
    j = m.end()
    while j < len(text):
        c = text[j]
        if c == "(": depth += 1
        elif c == ")": depth -= 1
        elif c == "{" and depth == 0:
            break
        j += 1
    e = match_brace(text, j)
    return text[j + 1:e]

def match_arms(body, scrutinee_re, what):
    m = re.search(r"match\s+%s\s*\{" % scrutinee_re, body)
    if not m:
        raise NoMatch("match on %s in %s" % (scrutinee_re, what))
    i = m.end() - 1
    e = match_brace(body, i)
    inner = body[i + 1:e]
    arms = {}
    pos = 0
    while True:
        m2 = re.compile(r"\s*([0-9|.\s]+?)\s*=>\s*\{").match(inner, pos)
        if not m2:
            if inner[pos:].strip(" \n\t,"):
                raise NoMatch("arm syntax in %s near %r" % (what, inner[pos:pos + 40]))
            break
        b = m2.end() - 1
        be = match_brace(inner, b)
        pat = m2.group(1).strip()
        keys = []
        if pat.endswith(".."):
            keys.append("ge%d" % int(pat[:-2]))
        else:
            keys += [int(x) for x in pat.split("|")]
        for k in keys:
            if k in arms:
                raise NoMatch("duplicate arm %s in %s" % (k, what))
            arms[k] = inner[b + 1:be]
        pos = be + 1
        while pos < len(inner) and inner[pos] in " \n\t,":
            pos += 1
    for k in (0, 1, 2, 3, "ge4"):
        if k not in arms:
            raise NoMatch("arm %s of %s" % (k, what))
    if len(arms) != 5:
        raise NoMatch("unexpected arms %s in %s" % (sorted(map(str, arms)), what))
    return arms, body[:m.start()], body[e + 1:]

def statements(arm):
    """split at ';' outside braces/brackets/parentheses; a trailing expression stays as last element"""
    out, d, cur = [], 0, ""
    for c in arm:
        if c in "{[(": d += 1
        elif c in "}])": d -= 1
        if c == ";" and d == 0:
            out.append(cur.strip()); cur = ""
        else:
            cur += c
    if cur.strip():
        out.append(cur.strip())
    return [re.sub(r"\s+", " ", s) for s in out if s]

# ---------------------------------------------------------------- expressions
# byte expression IR: ("pre", i) | ("t", i) | ("zero",) | ("a", i) | ("b", i) | ("got", k, i)
def elem(e, what):
    e = e.strip()
    m = re.fullmatch(r"PREAMBLE\[(\d+)\]", e)
    if m: return ("pre", int(m.group(1)))
    m = re.fullmatch(r"t\[(\d+)\]", e)
    if m: return ("t", int(m.group(1)))
    if re.fullmatch(r"0(u8)?", e): return ("zero",)
    raise NoMatch("byte expression %r in %s" % (e, what))

def write_src(e, what):
    """-> list of byte IRs, or the string 'line'"""
    e = e.strip()
    if e.startswith("&"): e = e[1:].strip()
    if e == "PREAMBLE": return [("pre", 0), ("pre", 1)]
    if e == "line": return "line"
    m = re.fullmatch(r"t\[(\d+)\.\.(\d+)\]", e)
    if m:
        a, b = int(m.group(1)), int(m.group(2))
        if not (a <= b <= 8): raise NoMatch("range %s in %s" % (e, what))
        return [("t", i) for i in range(a, b)]
    m = re.fullmatch(r"\[(.*)\]", e)
    if m:
        return [elem(x, what) for x in m.group(1).split(",") if x.strip()]
    raise NoMatch("source expression %r in %s" % (e, what))

def parse_write_arm(p, arm):
    what = "meta::write arm %s" % p
    lines_out = []        # list of ("bytes", [ir]) | ("line", {pos: ir})
    line = None
    count = None
    for st in statements(arm):
        m = re.fullmatch(r"file_handle\.write_all\((.*)\)\?", st)
        if m:
            src = write_src(m.group(1), what)
            if src == "line":
                if line is None: raise NoMatch("write of an undeclared buffer in %s" % what)
                lines_out.append(("line", dict(line)))
            else:
                lines_out.append(("bytes", src))
            continue
        if re.fullmatch(r"let mut line = vec!\[0; payload_size\.line_size\(\)\]", st):
            line = {}
            continue
        m = re.fullmatch(r"line\[(\d+)\.\.(\d+)\]\.copy_from_slice\((.*)\)", st)
        if m:
            if line is None: raise NoMatch("copy into an undeclared buffer in %s" % what)
            a, b = int(m.group(1)), int(m.group(2))
            src = write_src(m.group(3), what)
            if src == "line" or len(src) != b - a:
                raise NoMatch("copy_from_slice length mismatch (would panic) in %s: %s" % (what, st))
            if b > 6: raise NoMatch("buffer position beyond the smallest line of the arm in %s" % what)
            for k, x in enumerate(src): line[a + k] = x
            continue
        if re.fullmatch(r"\d+", st):
            count = int(st); continue
        raise NoMatch("statement %r in %s" % (st, what))
    if count is None:
        raise NoMatch("line count of %s" % what)
    return lines_out, count

def parse_read_arm(p, arm):
    """-> (list of 8 byte IRs in result order, list of consumed_lines values)"""
    what = "meta::read arm %s" % p
    L = None if p == "ge4" else p + 2
    res = {}
    consumed = []
    nexts = 0
    chunk_var = None          # index (in got) of the let-bound `chunk`
    NEXT = r"match chunks\.next\(\) \{ None => return Result::OutOfLines \{ consumed_lines: (\d+) \},? Some\(chunk\) => chunk,? \}"
    def slice_of(var, a, b):
        """bytes var[a..b) as IR; var in a|b|got k"""
        if L is not None and b > L: raise NoMatch("slice beyond the line in %s" % what)
        if L is None and b > 6: raise NoMatch("slice beyond the smallest line of the arm in %s" % what)
        return [var + (i,) for i in range(a, b)]
    def src(e, want):
        nonlocal nexts
        e = e.strip()
        m = re.fullmatch(NEXT, e)
        if m:
            consumed.append(int(m.group(1)))
            k = nexts; nexts += 1
            if L is None or L != want: raise NoMatch("copy_from_slice of a whole line of another length (would panic) in %s" % what)
            return slice_of(("got", k), 0, L)
        m = re.fullmatch(r"&(first_chunk|next_chunk|chunk)\[(\d+)\.\.(\d*)\]", e)
        if m:
            var = {"first_chunk": ("a",), "next_chunk": ("b",)}.get(m.group(1))
            if var is None:
                if chunk_var is None: raise NoMatch("`chunk` used before it is bound in %s" % what)
                var = ("got", chunk_var)
            a = int(m.group(2))
            if m.group(3) == "":
                if L is None: raise NoMatch("open-ended slice in the arm for payload sizes >= 4 in %s" % what)
                b = L
            else:
                b = int(m.group(3))
            if b - a != want: raise NoMatch("copy_from_slice length mismatch (would panic) in %s: %s" % (what, e))
            return slice_of(var, a, b)
        raise NoMatch("source expression %r in %s" % (e, what))
    for st in statements(arm):
        m = re.fullmatch(r"result\[(\d+)\.\.(\d+)\]\.copy_from_slice\((.*)\)", st)
        if m:
            a, b = int(m.group(1)), int(m.group(2))
            if not (a <= b <= 8): raise NoMatch("result range in %s: %s" % (what, st))
            for k, x in enumerate(src(m.group(3), b - a)): res[a + k] = x
            continue
        m = re.fullmatch(r"result\[(\d+)\] = (first_chunk|next_chunk)\[(\d+)\]", st)
        if m:
            i, j = int(m.group(1)), int(m.group(3))
            var = ("a",) if m.group(2) == "first_chunk" else ("b",)
            res[i] = slice_of(var, j, j + 1)[0]
            continue
        m = re.fullmatch(r"let chunk = " + NEXT, st)
        if m:
            consumed.append(int(m.group(1)))
            chunk_var = nexts; nexts += 1
            continue
        raise NoMatch("statement %r in %s" % (st, what))
    if sorted(res) != list(range(8)):
        raise NoMatch("result bytes assigned in %s: %s" % (what, sorted(res)))
    return [res[i] for i in range(8)], consumed

# ---------------------------------------------------------------- rendering
def byte_coq(x):
    k = x[0]
    if k == "pre": return "BSgen.Consts.preamble%d" % x[1]
    if k == "zero": return "x00"
    if k == "t": return "nth %d t x00" % x[1]
    if k == "a": return "nth %d a x00" % x[1]
    if k == "b": return "nth %d b x00" % x[1]
    if k == "got": return "nth %d (nth %d got []) x00" % (x[2], x[1])
    raise AssertionError(x)

def list_coq(xs):
    return "[" + "; ".join(byte_coq(x) for x in xs) + "]"

def render(meta_rs):
    text = strip_comments(meta_rs)
    wbody = fn_body(text, "write")
    warms, wpre, wpost = match_arms(wbody, r"payload_size\.raw\(\)", "meta::write")
    if not re.search(r"let\s+t\s*=\s*meta\s*;", wpre):
        raise NoMatch("`let t = meta;` in meta::write")
    if not re.search(r"Ok\(\s*lines\s*\*\s*\(payload_size\.line_size\(\)\)\s*as\s+u64\s*\)", wpost):
        raise NoMatch("return value of meta::write")
    rbody = fn_body(text, "read")
    rarms, rpre, rpost = match_arms(rbody, r"payload_size", "meta::read")
    if not re.search(r"let\s+payload_size\s*=\s*first_chunk\.len\(\)\s*-\s*2\s*;", rpre) or not re.search(r"let\s+mut\s+result\s*=\s*\[0u8;\s*8\]\s*;", rpre):
        raise NoMatch("prologue of meta::read")
    if not re.search(r"Result::Meta\s*\{\s*meta:\s*result\s*\}", rpost):
        raise NoMatch("return value of meta::read")
    W, R = {}, {}
    for k in (0, 1, 2, 3, "ge4"):
        W[k] = parse_write_arm(k, warms[k])
        R[k] = parse_read_arm(k, rarms[k])
    pat = {0: "0", 1: "1", 2: "2", 3: "3", "ge4": "S (S (S (S q)))"}
    s = "(* GENERATED by tools/translate.py (translate_meta) from /repo/src/series/data/inline_meta/meta.rs - do not edit *)\n"
    s += "From Coq Require Import List NArith.\nFrom Coq Require Import Strings.Byte.\nRequire BSgen.Consts.\nImport ListNotations.\n\n"
    s += "(* meta::write: the bytes written, line by line *)\nDefinition gen_write (p:nat) (t:list byte) : list byte :=\n  match p with\n"
    for k in (0, 1, 2, 3, "ge4"):
        parts = []
        for kind, v in W[k][0]:
            if kind == "bytes":
                parts.append(list_coq(v))
            else:
                if k != "ge4": raise NoMatch("a line buffer in a fixed-size arm of meta::write")
                parts.append("(" + list_coq([v.get(i, ("zero",)) for i in range(6)]) + " ++ repeat x00 q)")
        s += "  | %s => %s\n" % (pat[k], " ++ ".join(parts) if parts else "[]")
    s += "  end.\n\n(* the number of lines each arm reports *)\nDefinition gen_write_lines (p:nat) : nat :=\n  match p with\n"
    for k in (0, 1, 2, 3, "ge4"):
        s += "  | %s => %d\n" % (pat[k].replace("q", "_"), W[k][1])
    s += "  end.\n\n(* meta::read: the 8 bytes assembled from the marker lines a, b and the continuation lines got *)\n"
    s += "Definition gen_read_bytes (p:nat) (a b:list byte) (got:list (list byte)) : list byte :=\n  match p with\n"
    for k in (0, 1, 2, 3, "ge4"):
        s += "  | %s => %s\n" % (pat[k].replace("q", "_"), list_coq(R[k][0]))
    s += "  end.\n\n(* consumed_lines of the OutOfLines exits, in the order of the chunks.next() calls *)\nDefinition gen_consumed (p:nat) : list nat :=\n  match p with\n"
    for k in (0, 1, 2, 3, "ge4"):
        s += "  | %s => [%s]\n" % (pat[k].replace("q", "_"), "; ".join(str(x) for x in R[k][1]))
    s += "  end.\n"
    summary = {"write_lines": [W[k][1] for k in (0, 1, 2, 3, "ge4")], "consumed": [R[k][1] for k in (0, 1, 2, 3, "ge4")]}
    return s, summary

if __name__ == "__main__":
    import sys, os
    repo = os.environ.get("BS_REPO", "/repo")
    out, summ = render(open(os.path.join(repo, "src/series/data/inline_meta/meta.rs")).read())
    sys.stdout.write(out)
