#!/usr/bin/env python3
"""Seeded faulty changes (written by sub-agents that saw only the property text).

  seeded.py confirm [ids...]   in scratch worktrees of /repo (under /tmp, removed afterwards): the change
                               applies, the 85 baseline tests pass with it, the demonstration fails with
                               it and passes without it -> seeded/<id>-<v>/confirm.json
  seeded.py detect [ids...]    apply each confirmed change to /repo, run the quick check of the property it
                               breaks (and of the listed related ones), undo -> .../detect.json
  seeded.py promote            move confirmed changes to seeded/<id>-<v>/ with meta.json
"""
import json, os, re, subprocess, sys, shutil, time
from concurrent.futures import ThreadPoolExecutor

ROOT = os.path.dirname(os.path.dirname(os.path.abspath(__file__)))
INC = os.path.join(ROOT, "seeded", "_incoming")
REPO = os.environ.get("BSV_REPO", "/repo")     # a scratch worktree when run under `vp run --with-repo` (BSV_REPO=$VP_RUN_REPO)
ENV = dict(os.environ, CARGO_NET_OFFLINE="true", BSV_REPO=REPO, BSV_EVIDENCE=os.path.join(ROOT, "build", "evidence_seeded"))

def sh(cmd, cwd=None, timeout=3600):
    p = subprocess.run(cmd, cwd=cwd, shell=True, stdout=subprocess.PIPE, stderr=subprocess.STDOUT, text=True, env=ENV, timeout=timeout)
    return p.returncode, p.stdout

SEEDED = os.path.join(ROOT, "seeded")

def mutants(ids):
    """seeded/<Cxx>-<v>/ directories; ids select by property (C05) or by change (C05-a, C05/a)"""
    out = []
    ids = [x.replace('/', '-') for x in ids]
    for name in sorted(os.listdir(SEEDED)):
        m = re.fullmatch(r"(C\d\d)-(\w+)", name)
        d = os.path.join(SEEDED, name)
        if not m or not os.path.exists(os.path.join(d, "patch.diff")):
            continue
        pid, v = m.groups()
        if ids and pid not in ids and name not in ids:
            continue
        out.append((pid, v, d))
    return out

def section(text, title_re):
    m = re.search(r"^##\s*(?:%s)[^\n]*\n(?P<body>.*?)(?=^##\s|\Z)" % title_re, text, re.S | re.M | re.I)
    return re.sub(r"\s+", " ", m.group("body")).strip() if m else ""

def write_meta(pid, v, d):
    """meta.json: the property, what the change needs to manifest, what was run and what came of it"""
    notes = open(os.path.join(d, "notes.md")).read() if os.path.exists(os.path.join(d, "notes.md")) else ""
    title = notes.splitlines()[0].lstrip('# ').strip() if notes else ""
    def load(n):
        p = os.path.join(d, n)
        return json.load(open(p)) if os.path.exists(p) else None
    conf, det = load("confirm.json"), load("detect.json")
    meta = {
        "property": pid, "variant": v, "title": title,
        "origin": "written by a fresh sub-agent that was given only the text of the property and a scratch git worktree of /repo; nothing from /verif",
        "change": section(notes, r"The change|What (?:was )?changed|Change"),
        "needs_to_manifest": section(notes, r"What is needed[^\n]*|Needs[^\n]*|What it needs[^\n]*|Trigger[^\n]*"),
        "demonstration": "demo.rs (an integration test: passes on the unchanged tree, fails with patch.diff applied)",
        "apply": "git -C /repo apply /verif/seeded/%s-%s/patch.diff" % (pid, v), "undo": "git -C /repo checkout -- .",
        "ran": {
            "confirm": "tools/seeded.py confirm %s-%s : scratch worktree, demo without the change, 85 baseline tests with it, demo with it" % (pid, v),
            "detect": "tools/seeded.py detect %s-%s : change applied to /repo, ./bsv check <property> --tier quick, undone" % (pid, v)},
        "confirmed": conf, "detected": det,
    }
    if det:
        viol = [l for c in det.get("checks", {}).values() for l in c.get("lines", []) if l.startswith("VIOLATION")]
        meta["caught_by"] = det.get("detected_by", [])
        meta["caught_with_failing_input"] = any("no-failing-input-found" not in l for l in viol) if viol else False
    json.dump(meta, open(os.path.join(d, "meta.json"), "w"), indent=1)

def promote():
    if not os.path.isdir(INC):
        return
    for pid, v, d in mutants([]):
        if not os.path.exists(os.path.join(d, "meta.json")): write_meta(pid, v, d)
    for pid in sorted(os.listdir(INC)):
        for v in sorted(os.listdir(os.path.join(INC, pid))):
            src = os.path.join(INC, pid, v)
            c = os.path.join(src, "confirm.json")
            if os.path.exists(c) and json.load(open(c)).get("confirmed"):
                dst = os.path.join(SEEDED, "%s-%s" % (pid, v))
                if os.path.exists(dst): shutil.rmtree(dst)
                shutil.move(src, dst)
                write_meta(pid, v, dst)
                print("promoted", pid, v)
    for pid in os.listdir(INC):
        if not os.listdir(os.path.join(INC, pid)): os.rmdir(os.path.join(INC, pid))
    if not os.listdir(INC): os.rmdir(INC)

def test_counts(out):
    passed = sum(int(x) for x in re.findall(r"test result: \w+\. (\d+) passed", out))
    failed = sum(int(x) for x in re.findall(r"test result: \w+\. \d+ passed; (\d+) failed", out))
    return passed, failed

def confirm_lane(lane, items):
    wt = "/tmp/sc_lane%d" % lane
    sh("git -C /repo worktree remove --force %s" % wt)
    rc, out = sh("git -C /repo worktree add --detach %s HEAD" % wt)
    res = []
    for pid, v, d in items:
        r = {"property": pid, "variant": v, "head": sh("git -C /repo rev-parse --short HEAD")[1].strip()}
        sh("git reset -q --hard && git clean -fdq tests src", cwd=wt)
        demo = os.path.join(wt, "tests", "seeded_demo.rs")
        shutil.copy(os.path.join(d, "demo.rs"), demo)
        rc, out = sh("cargo test --offline --test seeded_demo 2>&1 | tail -40", cwd=wt)
        p0, f0 = test_counts(out)
        r["demo_without"] = {"passed": p0, "failed": f0}
        rc, out = sh("git apply %s 2>&1 || git apply --3way %s" % (os.path.join(d, "patch.diff"), os.path.join(d, "patch.diff")), cwd=wt)
        r["applies"] = rc == 0
        if rc == 0:
            os.remove(demo)
            rc, out = sh("cargo test --offline 2>&1 | grep -E 'test result|error' ", cwd=wt)
            p1, f1 = test_counts(out)
            r["suite_with"] = {"passed": p1, "failed": f1, "compiles": "error" not in out or p1 > 0}
            shutil.copy(os.path.join(d, "demo.rs"), demo)
            rc, out = sh("timeout 600 cargo test --offline --test seeded_demo 2>&1 | tail -40", cwd=wt)
            p2, f2 = test_counts(out)
            r["demo_with"] = {"passed": p2, "failed": f2, "timed_out_or_crashed": (p2 + f2 == 0)}
            r["confirmed"] = bool(p0 > 0 and f0 == 0 and p1 == 85 and f1 == 0 and (f2 > 0 or p2 + f2 == 0))
        else:
            r["confirmed"] = False
            r["apply_log"] = out[-500:]
        json.dump(r, open(os.path.join(d, "confirm.json"), "w"), indent=1)
        write_meta(pid, v, d)
        print("confirm", pid, v, r["confirmed"], r.get("demo_without"), r.get("suite_with"), r.get("demo_with"), flush=True)
        res.append(r)
    sh("git -C /repo worktree remove --force %s" % wt)
    return res

def confirm(ids):
    items = mutants(ids)
    lanes = int(os.environ.get('SEEDED_LANES', '4'))
    with ThreadPoolExecutor(lanes) as ex:
        list(ex.map(lambda k: confirm_lane(k, items[k::lanes]), range(lanes)))

RELATED = {"C01": ["C01"], "C02": ["C02"], "C03": ["C03", "C05"], "C04": ["C04"], "C05": ["C05"], "C06": ["C06"],
           "C07": ["C07", "C01"], "C08": ["C08"], "C09": ["C09"], "C10": ["C10"], "C11": ["C11"], "C12": ["C12"],
           "C13": ["C13"], "C14": ["C14"], "C15": ["C15"], "C16": ["C16"], "C17": ["C17"], "C18": ["C18"], "C19": ["C19"]}

def detect(ids, tier="quick", matrix=False):
    """apply each change to REPO, run the quick check of its property (matrix: of every property), undo.
    The evidence of these runs goes to build/evidence_seeded, never to evidence/."""
    bsv = os.path.join(ROOT, "bsv")
    allp = sorted(RELATED)
    for pid, v, d in mutants(ids):
        patch = os.path.join(d, "patch.diff")
        sh("git -C %s reset -q --hard HEAD && git -C %s clean -fdq src tests" % (REPO, REPO))
        rc, out = sh("git -C %s apply %s 2>&1 || git -C %s apply --3way %s" % (REPO, patch, REPO, patch))
        r = {"property": pid, "variant": v, "applies": rc == 0, "checks": {}}
        if rc == 0:
            for c in (allp if matrix else RELATED[pid]):
                t0 = time.time()
                rc2, out2 = sh("%s check %s --tier %s" % (bsv, c, tier))
                lines = [l for l in out2.splitlines() if l.startswith(("VIOLATION", c + " "))]
                r["checks"][c] = {"exit": rc2, "lines": [l[:300] for l in lines], "wall_s": round(time.time() - t0), "tail": out2[-1500:] if not lines else ""}
                viol = [l for l in lines if l.startswith("VIOLATION")]
                if viol and "replay=" in viol[0]:
                    rp = viol[0].split("replay=")[1].split()[0]
                    try:
                        r["checks"][c]["replay_head"] = open(rp).read().splitlines()[:4]
                    except OSError:
                        pass
        sh("git -C %s reset -q --hard HEAD && git -C %s clean -fdq src tests" % (REPO, REPO))
        r["detected_by"] = [c for c, x in r["checks"].items() if x["exit"] == 1]
        if matrix:
            json.dump(r, open(os.path.join(d, "matrix.json"), "w"), indent=1)
            print("matrix", pid, v, "alarms", r["detected_by"], flush=True)
            for c in r["detected_by"]:
                if c not in RELATED[pid]:
                    print("   cross", c, r["checks"][c]["lines"][:1], r["checks"][c].get("replay_head", [])[1:3], flush=True)
            continue
        json.dump(r, open(os.path.join(d, "detect.json"), "w"), indent=1)
        write_meta(pid, v, d)
        print("detect", pid, v, "detected_by", r["detected_by"], {c: x["lines"][:1] for c, x in r["checks"].items()}, flush=True)

def main():
    a = sys.argv[1:]
    if a and a[0] == "confirm":
        confirm(a[1:])
    elif a and a[0] == "detect":
        tier = "quick"
        ids = [x for x in a[1:] if not x.startswith("--")]
        if "--thorough" in a: tier = "thorough"
        detect(ids, tier)
    elif a and a[0] == "matrix":
        detect([x for x in a[1:] if not x.startswith("--")], "quick", matrix=True)
    elif a and a[0] == "promote":
        promote()
    elif a and a[0] == "table":
        for pid, v, d in mutants(a[1:]):
            m = json.load(open(os.path.join(d, "meta.json")))
            print("| %s-%s | %s | %s | %s |" % (pid, v, m["title"][:90], ",".join(m.get("caught_by", [])) or "MISSED", "input" if m.get("caught_with_failing_input") else "proof/correspondence only"))
    else:
        print(__doc__)

if __name__ == "__main__":
    main()
