#!/usr/bin/env python3
"""Tie 1: regenerate coq/gen/Consts.v and coq/gen/HeaderText.v from /repo/src.

Extracts, by patterns anchored on item names (never on line numbers), the
scalar constants, the K table, the marker bytes and the literal texts that the
Coq model (Layer I) uses. Layer S/F have their own documented constants; the
lemma `consts_agree` (theories/ConstsAgree.v) fails to compile when a generated
value differs from the documented one.

Exit 0: files written (only if content changed). Exit 3: an item was not
recognised (message says which); the old generated files stay in place.
"""
import os, re, sys, json
sys.path.insert(0, os.path.dirname(os.path.abspath(__file__)))
import translate_meta
import translate_estimate
import translate_seek

REPO = os.environ.get("BS_REPO", "/repo")
OUT = os.path.join(os.path.dirname(os.path.dirname(os.path.abspath(__file__))), "coq", "gen")

class NoMatch(Exception):
    pass

def src(rel):
    with open(os.path.join(REPO, "src", rel), encoding="utf-8") as f:
        return f.read()

def need(pat, text, what, flags=re.S):
    m = re.search(pat, text, flags)
    if not m:
        raise NoMatch(what)
    return m

def int_lit(s):
    s = s.strip().replace("_", "")
    s = re.sub(r"(u8|u16|u32|u64|usize|i32|i64)$", "", s)
    if s.startswith("0b"):
        return int(s[2:], 2)
    if s.startswith("0x"):
        return int(s[2:], 16)
    return int(s)

def rust_str_unescape(lit):
    """lit = the characters between the quotes of a normal Rust string literal."""
    out = []
    i = 0
    while i < len(lit):
        c = lit[i]
        if c != "\\":
            out.append(c); i += 1; continue
        n = lit[i + 1]
        if n == "n": out.append("\n"); i += 2
        elif n == "t": out.append("\t"); i += 2
        elif n == "\\": out.append("\\"); i += 2
        elif n == '"': out.append('"'); i += 2
        elif n == "'": out.append("'"); i += 2
        elif n == "0": out.append("\0"); i += 2
        elif n == "\n":            # line continuation: skip newline and leading whitespace
            i += 2
            while i < len(lit) and lit[i] in " \t\n\r":
                i += 1
        else:
            raise NoMatch("unknown escape \\%s in string literal" % n)
    return "".join(out)

def string_literal_after(text, anchor, what):
    """first normal string literal after the anchor regex"""
    m = need(anchor, text, what)
    rest = text[m.end():]
    q = rest.find('"')
    if q < 0:
        raise NoMatch(what + " (no literal)")
    i = q + 1
    while True:
        if i >= len(rest):
            raise NoMatch(what + " (unterminated literal)")
        if rest[i] == "\\":
            i += 2; continue
        if rest[i] == '"':
            break
        i += 1
    return rust_str_unescape(rest[q + 1:i])

def coq_bytes(b):
    return "[" + "; ".join('"%03d"' % x for x in b) + "]%byte"

def coq_bytes_def(name, b):
    # long lists are split to keep coqc's parser happy
    if len(b) <= 64:
        return "Definition %s : list byte := %s.\n" % (name, coq_bytes(b))
    parts = [b[i:i + 64] for i in range(0, len(b), 64)]
    s = "Definition %s : list byte :=\n  " % name
    s += "\n  ++ ".join(coq_bytes(x) for x in parts) + ".\n"
    return s

def extract():
    c = {}
    data_rs = src("series/data.rs")
    m = need(r"const\s+MAX_SMALL_TS\s*:\s*u64\s*=\s*\(u16::MAX\s*-\s*(\d+)\)\s*as\s+u64\s*;", data_rs, "MAX_SMALL_TS in series/data.rs")
    c["max_small_ts"] = 65535 - int(m.group(1))

    meta_rs = src("series/data/inline_meta/meta.rs")
    m = need(r"const\s+PREAMBLE\s*:\s*\[u8;\s*2\]\s*=\s*\[\s*([0-9a-fx_b]+)\s*,\s*([0-9a-fx_b]+)\s*\]\s*;", meta_rs, "PREAMBLE in meta.rs")
    c["preamble"] = [int_lit(m.group(1)), int_lit(m.group(2))]
    m = need(r"fn\s+lines_per_metainfo\s*\([^)]*\)\s*->\s*usize\s*\{\s*match\s+payload_size\s*\{(.*?)\}\s*\}", meta_rs, "lines_per_metainfo in meta.rs")
    arms = {}
    for pat, val in re.findall(r"([0-9|.\s]+?)\s*=>\s*(\d+)\s*,", m.group(1)):
        pat = pat.strip()
        if pat.endswith(".."):
            arms["ge%d" % int(pat[:-2])] = int(val)
        else:
            for alt in pat.split("|"):
                arms[int(alt.strip())] = int(val)
    for k in (0, 1, 2, 3):
        if k not in arms:
            raise NoMatch("lines_per_metainfo arm for %d" % k)
    if "ge4" not in arms:
        raise NoMatch("lines_per_metainfo arm 4..")
    c["K"] = [arms[0], arms[1], arms[2], arms[3], arms["ge4"]]

    wp = src("series/data/inline_meta/with_processor.rs")
    m = need(r"let\s+chunk_size\s*=\s*([0-9_]+)usize\.next_multiple_of\(", wp, "chunk_size in with_processor.rs")
    c["read_chunk"] = int_lit(m.group(1))
    m = need(r"let\s+max_needed_overlap\s*=\s*\((\d+)\s*\+\s*(\d+)\)\s*\*", wp, "max_needed_overlap in with_processor.rs")
    c["read_overlap_lines"] = int(m.group(1)) + int(m.group(2))

    cr = src("series/data/index/create.rs")
    m = need(r"fn\s+extract_entries_inner.*?let\s+chunk_size\s*=\s*([0-9_]+)usize\.next_multiple_of\(", cr, "chunk_size in create.rs")
    c["scan_chunk"] = int_lit(m.group(1))
    m = need(r"let\s+window\s*=\s*([0-9_]+)u64\s*\.max\(\s*(\d+)\s*\*\s*overlap\s+as\s+u64\s*\)\s*\.next_multiple_of\(", cr, "window in last_meta_timestamp (create.rs)")
    c["last_meta_window"] = int_lit(m.group(1))
    c["last_meta_overlap_factor"] = int(m.group(2))

    ix = src("series/data/index.rs")
    sizes = set(int(x) for x in re.findall(r"chunks_exact\((\d+)\)", ix))
    sizes |= set(int(x) for x in re.findall(r"len\s*%\s*(\d+)", ix))
    sizes |= set(int(x) for x in re.findall(r"SeekFrom::End\(-(\d+)\)", ix))
    sizes |= set(int(x) for x in re.findall(r"vec!\[0u8;\s*(\d+)\]", ix))
    if len(sizes) != 1:
        raise NoMatch("index entry size literals in index.rs disagree: %s" % sorted(sizes))
    c["index_entry_size"] = sizes.pop()

    f = src("file.rs")
    m = need(r'const\s+LINE_ENDS\s*:\s*&\[u8;\s*2\]\s*=\s*b"((?:\\.|[^"\\])*)"\s*;', f, "LINE_ENDS in file.rs")
    c["line_ends"] = list(rust_str_unescape(m.group(1)).encode())

    fh = src("series/file_header.rs")
    m = need(r"const\s+VERSION\s*:\s*u16\s*=\s*(\d+)\s*;", fh, "VERSION in file_header.rs")
    c["version"] = int(m.group(1))
    text = string_literal_after(fh, r"fn\s+to_text\s*\(self\).*?let\s+text\s*=\s*format!\s*\(", "format literal of SeriesParams::to_text")
    # split at the placeholders
    if text.count("{version}") != 1 or text.count("{payload_size}") != 1 or text.count("NUMB_LINES") != 1:
        raise NoMatch("placeholders of the preamble text")
    if "{{" in text or "}}" in text:
        raise NoMatch("escaped braces in the preamble text")
    toks = re.split(r"(\{version\}|\{payload_size\}|NUMB_LINES)", text)
    order = [t for t in toks if t in ("{version}", "{payload_size}", "NUMB_LINES")]
    if order != ["NUMB_LINES", "{version}", "{payload_size}"]:
        raise NoMatch("order of placeholders in the preamble text: %s" % order)
    c["preamble_parts"] = [list(toks[0].encode()), list(toks[2].encode()), list(toks[4].encode()), list(toks[6].encode())]
    need(r'text\.replace\("NUMB_LINES",\s*&n_lines\.to_string\(\)\)', fh, "NUMB_LINES replacement in to_text")
    need(r"let\s+n_lines\s*=\s*text\.lines\(\)\.count\(\)\s*;", fh, "line count in to_text")
    m = need(r"fn\s+parse_version.*?START_PAT\s*:\s*&str\s*=\s*\"([^\"]*)\".*?END_PAT\s*:\s*&str\s*=\s*\"([^\"]*)\"", fh, "anchors of parse_version")
    c["pat_version"] = [list(m.group(1).encode()), list(m.group(2).encode())]
    m = need(r"fn\s+parse_payload_size.*?START_PAT\s*:\s*&str\s*=\s*\"([^\"]*)\".*?END_PAT\s*:\s*&str\s*=\s*\"([^\"]*)\"", fh, "anchors of parse_payload_size")
    c["pat_payload"] = [list(m.group(1).encode()), list(m.group(2).encode())]

    ds = src("series/downsample.rs")
    suffix = string_literal_after(ds, r"fn\s+file_name_suffix\s*\(&self\)\s*->\s*String\s*\{\s*format!\s*\(", "format literal of Config::file_name_suffix")
    if suffix != "{:?}_{}":
        raise NoMatch("Config::file_name_suffix format is %r, the model knows \"{:?}_{}\"" % suffix)
    need(r"format!\(\s*\"\{:\?\}_\{\}\"\s*,\s*self\.max_gap\s*,\s*self\.bucket_size\s*\)", ds, "arguments of Config::file_name_suffix")
    need(r"pub\s+struct\s+Config\s*\{[^}]*pub\s+max_gap\s*:\s*Option<Timestamp>\s*,[^}]*pub\s+bucket_size\s*:\s*usize\s*,?\s*\}", ds, "fields of downsample::Config (max_gap, bucket_size)")
    need(r"#\[derive\(Debug,\s*Clone\)\]\s*pub\s+struct\s+Config", ds, "derive(Debug) on downsample::Config")
    htext = string_literal_after(ds, r"fn\s+header\s*\(&self,\s*name:\s*&OsStr\)\s*->\s*String\s*\{.*?format!\s*\(", "format literal of Config::header")
    toks = re.split(r"(\{name\}|\{self:\?\})", htext)
    if [t for t in toks if t in ("{name}", "{self:?}")] != ["{name}", "{self:?}"] or len(toks) != 5:
        raise NoMatch("placeholders of Config::header")
    c["cache_header_parts"] = [list(toks[0].encode()), list(toks[2].encode()), list(toks[4].encode())]
    return c

def render(c):
    s = "(* GENERATED by tools/translate.py from /repo/src - do not edit *)\n"
    s += "From Coq Require Import List NArith.\nFrom Coq Require Import Strings.Byte.\nImport ListNotations.\n\n"
    s += "Definition max_small_ts : N := %d%%N.\n" % c["max_small_ts"]
    s += "Definition preamble0 : byte := \"%03d\"%%byte.\nDefinition preamble1 : byte := \"%03d\"%%byte.\n" % tuple(c["preamble"])
    for i, k in enumerate(c["K"]):
        s += "Definition k_p%d : nat := %d.\n" % (i, k)
    for k in ("read_chunk", "read_overlap_lines", "scan_chunk", "last_meta_window", "last_meta_overlap_factor", "index_entry_size", "version"):
        s += "Definition %s : N := %d%%N.\n" % (k, c[k])
    s += coq_bytes_def("line_ends", c["line_ends"])
    t = "(* GENERATED by tools/translate.py from /repo/src - do not edit *)\n"
    t += "From Coq Require Import List.\nFrom Coq Require Import Strings.Byte.\nImport ListNotations.\n\n"
    for i, part in enumerate(c["preamble_parts"]):
        t += coq_bytes_def("preamble_part%d" % i, part)
    t += coq_bytes_def("pat_version_start", c["pat_version"][0])
    t += coq_bytes_def("pat_version_end", c["pat_version"][1])
    t += coq_bytes_def("pat_payload_start", c["pat_payload"][0])
    t += coq_bytes_def("pat_payload_end", c["pat_payload"][1])
    for i, part in enumerate(c["cache_header_parts"]):
        t += coq_bytes_def("cache_header_part%d" % i, part)
    return s, t

def write_if_changed(path, content):
    old = None
    if os.path.exists(path):
        with open(path, encoding="utf-8") as f:
            old = f.read()
    if old != content:
        with open(path, "w", encoding="utf-8") as f:
            f.write(content)
        return True
    return False

def main():
    """Each part is translated on its own: a part that is no longer recognised leaves its generated file as it was and is
    named on the line `translate-broken: <parts>`; bsv counts it for the properties whose theorems depend on that file."""
    os.makedirs(OUT, exist_ok=True)
    broken, changed, summary = [], False, {}
    try:
        c = extract()
        s, t = render(c)
        changed = write_if_changed(os.path.join(OUT, "Consts.v"), s) or changed
        changed = write_if_changed(os.path.join(OUT, "HeaderText.v"), t) or changed
        summary = {k: v for k, v in c.items() if isinstance(v, int) or k in ("K", "preamble", "line_ends")}
    except (NoMatch, FileNotFoundError) as e:
        broken.append(("Consts", str(e)))
    try:
        meta_v, meta_summary = translate_meta.render(src("series/data/inline_meta/meta.rs"))
        changed = write_if_changed(os.path.join(OUT, "MetaLayout.v"), meta_v) or changed
        summary["meta_layouts"] = meta_summary
    except (translate_meta.NoMatch, FileNotFoundError) as e:
        broken.append(("MetaLayout", str(e)))
    try:
        est_v, est_summary = translate_estimate.render(src("seek/estimate.rs"))
        changed = write_if_changed(os.path.join(OUT, "EstimateGen.v"), est_v) or changed
        summary["estimate"] = est_summary
    except (translate_estimate.NoMatch, FileNotFoundError) as e:
        broken.append(("EstimateGen", str(e)))
    try:
        seek_v, seek_summary = translate_seek.render(src("seek.rs"), src("series/data/index.rs"), src("series/data.rs"))
        changed = write_if_changed(os.path.join(OUT, "SeekGen.v"), seek_v) or changed
        summary["seek_bounds"] = seek_summary
    except (translate_seek.NoMatch, FileNotFoundError) as e:
        broken.append(("SeekGen", str(e)))
    if broken:
        for part, msg in broken:
            print("translate: source item no longer recognised (%s): %s" % (part, msg))
        print("translate-broken: " + ",".join(part for part, _ in broken))
        return 3
    print("translate: ok changed=%s %s" % (changed, json.dumps(summary, sort_keys=True)))
    return 0

if __name__ == "__main__":
    sys.exit(main())
