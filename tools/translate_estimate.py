#!/usr/bin/env python3
"""Tie 1, part 3: a translator for RoughPos::estimate_lines (src/seek/estimate.rs).

The function is one match over (start area, end area) - sixteen combinations - whose arms build
`Estimate { max: E, min: E }` from a tiny expression language:

    E ::= sub(E, E) | X.raw_offset() | X.line_start(payload_size).raw_offset() | data_len | <integer>

with `let sub = u64::saturating_sub;`, followed by the division of both numbers by the line size. The
arms are parsed into that IR and emitted as the Gallina function

    gen_estimate_bytes (sa:start_area) (ea:end_area) (p:nat) (data_len:N) : res (N * N)       (max, min)

(`unreachable!()` becomes Panic, `sub` the truncated subtraction of N). theories/EstimateGenFacts.v
proves it equal to the match of the hand-written model (Seek.estimate_lines). A plain `-`, a changed
operand, a missing arm or anything else outside the grammar is reported as NoMatch (a broken tie).
"""
import re

class NoMatch(Exception):
    pass

def strip_comments(s):
    s = re.sub(r"//[^\n]*", "", s)
    return re.sub(r"/\*.*?\*/", "", s, flags=re.S)

def match_close(s, i, open_c, close_c):
    d = 0
    for j in range(i, len(s)):
        if s[j] == open_c: d += 1
        elif s[j] == close_c:
            d -= 1
            if d == 0:
                return j
    raise NoMatch("unbalanced %s%s in estimate.rs" % (open_c, close_c))

START_PATS = [
    (r"Found\((\w+)\)\s*\|\s*Gap\s*\{\s*stops:\s*(\w+)\s*\}", "found_or_gap"),
    (r"Clipped", "clipped"),
    (r"TillEnd\((\w+)\)", "tillend"),
    (r"Window\((\w+),\s*(\w+)\)", "window"),
]
END_PATS = [
    (r"End::Found\((\w+)\)", "found"),
    (r"End::Gap\s*\{\s*start:\s*(\w+)\s*\}", "gap"),
    (r"End::TillEnd\((\w+)\)", "tillend"),
    (r"End::Window\((\w+),\s*(\w+)\)", "window"),
]

def tokens(e):
    toks = re.findall(r"[A-Za-z_][A-Za-z_0-9]*|\d+|[().,]", e)
    if "".join(toks) != re.sub(r"\s+", "", e):
        raise NoMatch("characters outside the expression grammar in %r" % e)
    return toks

class P:
    def __init__(self, toks, env, what):
        self.t, self.i, self.env, self.what = toks, 0, env, what
    def peek(self): return self.t[self.i] if self.i < len(self.t) else None
    def eat(self, x=None):
        if self.i >= len(self.t) or (x is not None and self.t[self.i] != x):
            raise NoMatch("expected %r at token %d of %r in %s" % (x, self.i, " ".join(self.t), self.what))
        self.i += 1
        return self.t[self.i - 1]
    def expr(self):
        t = self.eat()
        if t == "sub":
            self.eat("("); a = self.expr(); self.eat(","); b = self.expr()
            if self.peek() == ",": self.eat(",")
            self.eat(")")
            return ("sub", a, b)
        if t == "data_len":
            return ("data_len",)
        if re.fullmatch(r"\d+", t):
            return ("lit", int(t))
        if t in self.env:
            self.eat("."); m = self.eat()
            if m == "raw_offset":
                self.eat("("); self.eat(")")
                return ("var", t)
            if m == "line_start":
                self.eat("("); self.eat("payload_size"); self.eat(")"); self.eat("."); self.eat("raw_offset"); self.eat("("); self.eat(")")
                return ("line_start", t)
            raise NoMatch("method %s in %s" % (m, self.what))
        raise NoMatch("unknown identifier %r in %s" % (t, self.what))

def parse_expr(e, env, what):
    p = P(tokens(e), env, what)
    r = p.expr()
    if p.i != len(p.t):
        raise NoMatch("trailing tokens in %r (%s)" % (e, what))
    return r

def parse(text):
    text = strip_comments(text)
    m = re.search(r"fn\s+estimate_lines\b", text)
    if not m:
        raise NoMatch("fn estimate_lines in estimate.rs")
    body_start = text.index("{", text.index("->", m.end()))
    body = text[body_start + 1:match_close(text, body_start, "{", "}")]
    if not re.search(r"let\s+sub\s*=\s*u64::saturating_sub\s*;", body):
        raise NoMatch("`let sub = u64::saturating_sub;` in estimate_lines")
    mm = re.search(r"match\s*\(\s*self\.start_search_area\.clone\(\)\s*,\s*self\.end_search_area\.clone\(\)\s*\)\s*\{", body)
    if not mm:
        raise NoMatch("match on (start_search_area, end_search_area) in estimate_lines")
    mb = mm.end() - 1
    me = match_close(body, mb, "{", "}")
    inner = body[mb + 1:me]
    post = body[me + 1:]
    if not re.search(r"max:\s*estimate_in_bytes\.max\s*/\s*payload_size\.line_size\(\)\s*as\s+u64\s*,\s*min:\s*estimate_in_bytes\.min\s*/\s*payload_size\.line_size\(\)\s*as\s+u64", post):
        raise NoMatch("division of max and min by the line size at the end of estimate_lines")
    # arm heads
    heads = []
    for sp, sk in START_PATS:
        for ep, ek in END_PATS:
            for m2 in re.finditer(r"\(\s*%s\s*,\s*%s\s*\)\s*=>" % (sp, ep), inner):
                heads.append((m2.start(), m2.end(), sk, ek, m2.groups()))
    heads.sort()
    if len(heads) != 16 or len({(h[2], h[3]) for h in heads}) != 16:
        raise NoMatch("the sixteen (start area, end area) arms of estimate_lines (found %d)" % len(heads))
    arms = {}
    for n, (s0, e0, sk, ek, groups) in enumerate(heads):
        if inner[(heads[n - 1][1] if n else 0):s0].strip(" \n\t,{}") and n == 0:
            raise NoMatch("text before the first arm of estimate_lines")
        btxt = inner[e0:(heads[n + 1][0] if n + 1 < len(heads) else len(inner))].strip().rstrip(",").strip()
        what = "arm (%s, %s) of estimate_lines" % (sk, ek)
        nstart = {"found_or_gap": 2, "clipped": 0, "tillend": 1, "window": 2}[sk]
        sv, ev = groups[:nstart], groups[nstart:]
        if sk == "found_or_gap":
            if sv[0] != sv[1]:
                raise NoMatch("the two alternatives of %s bind different names" % what)
            sv = sv[:1]
        env = {v for v in list(sv) + list(ev) if v != "_"}
        if btxt.startswith("unreachable!"):
            arms[(sk, ek)] = (sv, ev, None)
            continue
        if btxt.startswith("{"):
            btxt = btxt[1:match_close(btxt, 0, "{", "}")].strip()
        m3 = re.fullmatch(r"Estimate\s*\{\s*max:\s*(.*?),\s*min:\s*(.*?),?\s*\}", btxt, flags=re.S)
        if not m3:
            raise NoMatch("body of %s: %r" % (what, btxt[:80]))
        # split `max: E, min: E` at the top-level comma before `min:`
        full = re.fullmatch(r"Estimate\s*\{(.*)\}", btxt, flags=re.S).group(1)
        k = full.find("min:")
        emax = full[:k].strip()
        if not emax.startswith("max:"):
            raise NoMatch("field order in %s" % what)
        emax = emax[4:].strip().rstrip(",").strip()
        emin = full[k + 4:].strip().rstrip(",").strip()
        arms[(sk, ek)] = (sv, ev, (parse_expr(emax, env, what), parse_expr(emin, env, what)))
    return arms

def coq_expr(e):
    k = e[0]
    if k == "sub": return "(%s - %s)%%N" % (coq_expr(e[1]), coq_expr(e[2]))
    if k == "data_len": return "data_len"
    if k == "lit": return "%d%%N" % e[1]
    if k == "var": return "v_" + e[1]
    if k == "line_start": return "(line_start p v_%s)" % e[1]
    raise AssertionError(e)

def render(estimate_rs):
    arms = parse(estimate_rs)
    def v(x): return "_" if x == "_" else "v_" + x
    s = "(* GENERATED by tools/translate.py (translate_estimate) from /repo/src/seek/estimate.rs - do not edit *)\n"
    s += "From Coq Require Import List NArith.\nRequire Import BS.Common BS.Index.\n\n"
    s += "(* the match of RoughPos::estimate_lines: (max, min) in bytes; sub = u64::saturating_sub = the truncated subtraction of N *)\n"
    s += "Definition gen_estimate_bytes (sa:start_area) (ea:end_area) (p:nat) (data_len:N) : res (N * N) :=\n  match sa, ea with\n"
    spat = {"found_or_gap": None, "clipped": "SClipped", "tillend": "STillEnd %s", "window": "SWindow %s %s"}
    epat = {"found": "EFound %s", "gap": "EGap %s", "tillend": "ETillEnd %s", "window": "EWindow %s %s"}
    for sk in ("found_or_gap", "clipped", "tillend", "window"):
        for ek in ("found", "gap", "tillend", "window"):
            sv, ev, body = arms[(sk, ek)]
            ep = epat[ek] % tuple(v(x) for x in ev)
            rhs = "Panic" if body is None else "Ok (%s, %s)" % (coq_expr(body[0]), coq_expr(body[1]))
            if sk == "found_or_gap":
                for c in ("SFound", "SGap"):
                    s += "  | %s %s, %s => %s\n" % (c, v(sv[0]), ep, rhs)
            else:
                sp = spat[sk] % tuple(v(x) for x in sv) if sv else spat[sk]
                s += "  | %s, %s => %s\n" % (sp, ep, rhs)
    s += "  end.\n"
    return s, {"arms": len(arms), "unreachable": sorted("%s/%s" % k for k, a in arms.items() if a[2] is None)}

if __name__ == "__main__":
    import sys, os
    repo = os.environ.get("BS_REPO", "/repo")
    out, summ = render(open(os.path.join(repo, "src/seek/estimate.rs")).read())
    sys.stdout.write(out)
    sys.stderr.write(str(summ) + "\n")
