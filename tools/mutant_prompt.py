#!/usr/bin/env python3
"""Print the prompt given to a mutant-writing sub-agent for one property (property text only, nothing from /verif's machinery)."""
import json, sys
pid = sys.argv[1]; wt = sys.argv[2]
d = [json.loads(l) for l in open('/verif/properties.jsonl') if json.loads(l)['id'] == pid][0]
print(f"""You are helping to evaluate a verification effort by writing realistic *faulty changes* (mutants) to a Rust library. Work ONLY inside the git worktree {wt} (a checkout of the library `byteseries`, an embedded append-only timeseries file format: fixed-size lines with 16-bit delta timestamps, inline 64-bit full-timestamp "meta" sections, a sidecar index file, truncation repair on open, and downsampled cache files). Never touch /repo or /verif, and do not read anything under /verif. There is no network: always run cargo with `--offline` (e.g. `cd {wt} && cargo test --offline`). The existing test suite (85 tests) passes on the unchanged worktree.

The property under attack:

  Title: {d['title']}
  Statement: {d['statement']}
  Quantified over: {d['quantifier']['text']}

Task: produce TWO different, independent changes to the library source (files under {wt}/src only) that each BREAK this property while (a) still compiling without new warnings being errors, and (b) still passing the whole existing test suite (`cargo test --offline` must report all 85 tests passing with the change applied). Each change should look like a plausible slip a maintainer could make (an off-by-one, a wrong bound, a dropped carry, a stale cached value, a reordered write, a condition that is subtly too weak/strong, a "harmless optimisation"), NOT an obviously malicious special case, and it must NOT be exposed by ordinary use at once: it should need something specific to manifest - e.g. a particular multi-step sequence of operations, an unusual but legal input (timestamp magnitude, payload size, byte pattern, file size relative to an internal buffer), a crash/truncation at a particular point followed by reopen, or two sites that each look fine alone. Read the source first to find where the property is actually enforced.

For each change write a demonstration: a new integration test file under {wt}/tests/ (e.g. tests/mutant_a.rs; you can use the helpers in tests/shared.rs via `mod shared;` and the dev-dependencies already in Cargo.toml such as temp-dir) that uses only the public API (plus direct file manipulation with std::fs where the scenario needs a truncated/modified file), FAILS with the change applied and PASSES without it. Verify both facts yourself by running the test with and without the source change (e.g. `git stash` only the src change, or apply/revert the patch), and verify the full existing suite still passes with the change.

Deliverables, left in the worktree (do not commit):
  {wt}/MUTANT/a/patch.diff   - `git diff -- src` of change A alone, applicable with `git apply` at the worktree's HEAD
  {wt}/MUTANT/a/demo.rs      - the demonstration test for A (a copy of the tests/ file)
  {wt}/MUTANT/a/notes.md     - what the change is, why it breaks the property, exactly what is needed for it to manifest, and the commands you ran with their outcomes
  and the same under {wt}/MUTANT/b/ for change B.
At the end restore the worktree's src/ to the unchanged state (the patches live only in MUTANT/) and remove your demo tests from tests/ (copies stay in MUTANT/). Keep the build directory {wt}/target (do not delete it). In your final answer summarise both changes in a few lines each.""")
