"""History generators for the correspondence check and the judge (DESIGN.md 6.4).

Every random choice comes from one random.Random seeded by the caller, so a run is
replayable from (property, tier, seed). A history is a dict:
  {"id": str, "family": str, "lines": [script lines], "tags": set of str}
"""
import random, re

U64 = 2**64
MAXD = 65534
SMALL_P = [0, 1, 2, 3, 4, 5, 8]

def K(p):
    return {0: 6, 1: 4, 2: 3, 3: 3}.get(p, 2)

def hexb(b):
    return bytes(b).hex() if len(b) else "-"

# ---------- reference layout in Python (only used to *build inputs*: damaged or
# non-canonical files; never to judge) ----------
def enc_section(p, t):
    tb = t.to_bytes(8, "little")
    L = p + 2
    if p == 0:
        return b"\xff\xff\xff\xff" + tb
    if p == 1:
        return b"\xff\xff" + tb[0:1] + b"\xff\xff" + tb[1:2] + tb[2:5] + tb[5:8]
    if p == 2:
        return b"\xff\xff" + tb[0:2] + b"\xff\xff" + tb[2:4] + tb[4:8]
    if p == 3:
        return b"\xff\xff" + tb[0:3] + b"\xff\xff" + tb[3:6] + tb[6:8] + b"\0\0\0"
    return (b"\xff\xff" + tb[0:4] + b"\0" * (p - 4)) + (b"\xff\xff" + tb[4:8] + b"\0" * (p - 4))

def enc_line(d, pay):
    return d.to_bytes(2, "little") + bytes(pay)

def layout(p, lines):
    """canonical slot structure of a list of (ts, payload): list of ('S', ts) / ('L', ts, delta, pay)"""
    out = []
    full = None
    for ts, pay in lines:
        if full is None or ts - full > MAXD:
            out.append(("S", ts)); full = ts
        out.append(("L", ts, ts - full, pay))
    return out

def encode(p, lines):
    b = b""
    for it in layout(p, lines):
        b += enc_section(p, it[1]) if it[0] == "S" else enc_line(it[2], it[3])
    return b

def nslots(p, lines):
    n = 0
    for it in layout(p, lines):
        n += K(p) if it[0] == "S" else 1
    return n

# ---------- building blocks ----------
BASES = [0, 1, 65534, 65535, 65536, 2**16 + 1, 2**32 - 1, 2**32, 2**32 + 1, 2**48 - 1, 2**48 + 1, 2**63 - 1, 2**63, 2**63 + 1]

def marker_word_ts(rng):
    """timestamps whose little-endian 16-bit words contain 0xFFFF"""
    words = [rng.choice([0xFFFF, 0xFFFF, rng.randrange(0, 0x10000)]) for _ in range(4)]
    words[rng.randrange(4)] = 0xFFFF
    t = sum(w << (16 * i) for i, w in enumerate(words))
    return min(t, U64 - 70000 * 40)

def payload(rng, p, i=0):
    r = rng.random()
    if r < 0.15:
        return bytes([0xFF] * p)
    if r < 0.25 and p >= 2:
        return bytes([0xFF, 0xFF] + [rng.randrange(256) for _ in range(p - 2)])
    return bytes(rng.randrange(256) for _ in range(p))

def ts_sequence(rng, n, shape=None, base=None, avoid_marker=True):
    """strictly increasing timestamps"""
    if shape is None:
        shape = rng.choice(["dense", "jitter", "edge", "sparse", "mixed", "mixed"])
    if base is None:
        r = rng.random()
        if r < 0.5:
            base = rng.choice(BASES)
        elif r < 0.8:
            base = int(2 ** rng.uniform(0, 63.9))
        else:
            base = U64 - 1 - rng.randrange(1, 10**6) - n * 70000
    out = []
    t = base
    for i in range(n):
        if i > 0:
            if shape == "dense":
                step = 1
            elif shape == "jitter":
                step = rng.randrange(1, 50)
            elif shape == "edge":
                step = rng.choice([65533, 65534, 65535, 65536, 1, 2])
            elif shape == "sparse":
                step = rng.randrange(65535, 200000)
            else:
                step = rng.choice([1, 1, rng.randrange(1, 50), 65534, 65535, 65536, rng.randrange(65535, 10**6), rng.randrange(1, 2000)])
            t = t + step
        if t >= U64:
            break
        out.append(t)
    return out

def avoids_marker_tail(p, tss):
    """heuristic used by generators that want to stay *outside* the known marker-word class:
    no 16-bit aligned 0xFFFF word in the bytes of any full timestamp"""
    if p >= 4:
        return True
    full = None
    for t in tss:
        if full is None or t - full > MAXD:
            full = t
            b = t.to_bytes(8, "little")
            for i in range(0, 7):
                if b[i] == 0xFF and b[i + 1] == 0xFF:
                    return False
    return True

def bounds_critical(rng, tss, count):
    """(lo, hi) pairs from the critical values of C02's quantifier"""
    vals = {0, U64 - 1}
    full = None
    for t in tss:
        vals.update({max(t - 1, 0), t, min(t + 1, U64 - 1)})
        if full is None or t - full > MAXD:
            full = t
            vals.update({min(full + d, U64 - 1) for d in (65534, 65535, 65536)})
    if tss:
        vals.add(max(tss[0] - 1, 0)); vals.add(min(tss[-1] + 1, U64 - 1))
    vals = sorted(vals)
    out = []
    for _ in range(count):
        def b():
            k = rng.choice("iiieeu")
            return "u" if k == "u" else k + str(rng.choice(vals))
        out.append((b(), b()))
    return out

def new_line(name, p, hdr=b"", caches=(), cb="none", ext=None):
    return "new %s p=%d hdr=%s caches=%s cb=%s" % (name, p, hexb(hdr), ",".join(map(str, caches)) or "-", cb) + ("" if ext is None else " ext=%d" % ext)

def open_line(name, p="any", hdr="any", caches=(), cb="none", ext=0):
    h = hdr if hdr == "any" else hexb(hdr)
    return "open %s p=%s hdr=%s caches=%s cb=%s ext=%d" % (name, p, h, ",".join(map(str, caches)) or "-", cb, ext)

def push_lines(lines):
    return ["push %d %s" % (t, hexb(pay)) for t, pay in lines]

def pick_p(rng, tier):
    r = rng.random()
    if r < 0.75:
        return rng.choice(SMALL_P)
    if r < 0.9 or tier == "quick":
        return rng.randrange(0, 40)
    return rng.choice([204, 300, rng.randrange(0, 300)])

def mk_lines(rng, p, n, shape=None, base=None, no_marker=False):
    for _ in range(50):
        tss = ts_sequence(rng, n, shape, base)
        if not no_marker or avoids_marker_tail(p, tss):
            break
        base = None
    return [(t, payload(rng, p)) for t in tss]

ACCESSORS = ["len", "is_empty", "range", "last_line", "payload_size"]

# ---------- families ----------
def fam_roundtrip(rng, tier, i):
    """new, pushes, full read, accessors, reopen, full read (C01 C04 C06 C07 C12 C15 C16)"""
    p = pick_p(rng, tier)
    n = rng.choice([0, 1, 2, 3, 5, 8, 13, 30])
    lines = mk_lines(rng, p, n, no_marker=True)
    hdr = bytes(rng.randrange(256) for _ in range(rng.choice([0, 0, 1, 12])))
    s = [new_line("s", p, hdr)]
    cut = rng.randrange(0, len(lines) + 1)
    overlong = i % 5 == 2 and len(lines) >= 2       # directed: a buffer too long by exactly one well-formed line, between two appends
    if overlong:
        cut = max(cut, 2)
    for k, (t, pay) in enumerate(lines[:cut]):
        s.append("push %d %s" % (t, hexb(pay)))
        if k >= 1 and rng.random() < 0.35:
            a = lines[rng.randrange(0, k + 1)][0]; b = lines[rng.randrange(0, k + 1)][0]
            s.append(rng.choice(["n_lines i%d i%d", "read_all i%d i%d", "n_lines e%d e%d", "read_first_n 1 i%d i%d"]) % (min(a, b), max(a, b)))
    r_w = rng.random()
    if lines[:cut] and (r_w < 0.3 or overlong):
        # a buffer of the wrong length (too long: the library must not write it, in part or in full; too short) between
        # two appends or after the last one: refused, and nothing the accessors report may move
        pushes = [k for k, l in enumerate(s) if l.startswith("push ")]
        at = rng.choice(pushes)                      # right after this append
        if overlong:
            at = pushes[0]                           # followed by at least one ordinary append
        t_prev = int(s[at].split()[1])
        t_next = int(s[pushes[pushes.index(at) + 1]].split()[1]) if at != pushes[-1] else None
        t_bad = t_prev + 1 if (t_next is None or t_next - t_prev >= 2) else None
        if t_next is None and rng.random() < 0.5:
            t_bad = t_prev + 70000
        extra = rng.choice([1, 2, p + 2, 2 * (p + 2)])
        bad = bytes(rng.randrange(256) for _ in range(p + extra if (p == 0 or rng.random() < 0.7) else p - 1))
        r_v = rng.random()
        if t_bad is not None and t_bad < U64 and (r_v < 0.5 or overlong):
            # too long by exactly one line, and the surplus bytes look like the next line of the same section: were they
            # written, a later read would show a line nobody appended while length and range know nothing of it
            full = None
            for t in [int(l.split()[1]) for l in s[:at + 1] if l.startswith("push ")] + [t_bad]:
                if full is None or t - full > MAXD:
                    full = t
            d = t_bad - full + rng.randrange(1, 5)
            if d <= MAXD and (t_next is None or full + d < t_next):
                bad = payload(rng, p) + d.to_bytes(2, "little") + payload(rng, p)
        if t_bad is not None and t_bad < U64:
            s.insert(at + 1, "push %d %s" % (t_bad, hexb(bad)))
    s += ["read_all u u"] + ACCESSORS
    s += ["close", open_line("s", rng.choice(["any", p]), rng.choice(["any", hdr]), ext=rng.randrange(2))]
    s += ["read_all u u"] + ACCESSORS + push_lines(lines[cut:]) + ["read_all u u"] + ACCESSORS
    if i % 4 == 1:
        # the usual "create, else open" start-up of an application: the create of a series that exists is refused and must leave
        # every line where it is
        s += ["close", new_line("s", p, hdr), open_line("s"), "read_all u u", "len"]
    if i % 4 == 3:
        # another series in the same directory whose name is this one's cache-level name: a create that asks for that level is
        # refused and must not touch the other series
        B = rng.choice([2, 10])
        other = "z_None_%d" % B
        l3 = mk_lines(rng, p, 3, shape="jitter", base=rng.choice([7, 2**40]), no_marker=True)
        s += ["close", new_line(other, p, b"")] + push_lines(l3) + ["close", new_line("z", p, hdr, (B,)), "dump",
              open_line(other), "read_all u u", "len", "push %d %s" % (l3[-1][0] + 9, hexb(payload(rng, p))), "close"]
    s += ["dump"]
    return {"family": "roundtrip", "lines": s, "tags": {"p%d" % p}}

def sparse_boundary_series(rng, p, target_offset_slots, nsec_extra=3):
    """pushseq-based series: dense run then sparse lines, arranged so that a section starts
    `target_offset_slots` slots before/after byte 16384-chunk boundary k (k = 1, 2)"""
    L = p + 2
    chunk = ((16384 + L - 1) // L) * L
    chunk_slots = chunk // L
    # first section occupies K slots at slot 0; dense lines follow; next section at slot index
    # K + n_dense. We want K + n_dense = chunk_slots + target_offset_slots
    n_dense = chunk_slots + target_offset_slots - K(p)
    return n_dense

def fam_boundary(rng, tier, i):
    """files larger than the 16 KiB buffers with a section starting at every slot offset around the
    first buffer boundary (enumerated by i, not drawn) and a second one around the next boundary,
    so that two consecutive boundaries can both split a section (C01 C06 C12)"""
    combos = [(p, off) for p in (0, 1, 2, 3, 4, 14) for off in range(-K(p) - 1, 2)]
    p, off1 = combos[i % len(combos)]
    L = p + 2
    Kp = K(p)
    chunk = ((16384 + L - 1) // L) * L
    cs = chunk // L                     # slots per chunk
    off2 = rng.randrange(-Kp - 1, 2)
    base = rng.choice([1000, 2**32 + 5, 2**48 + 7, 2**63 + 11])
    # timestamps with 0xFFFF words would fall into the known marker class on reopen
    s = [new_line("b", p)]
    nA = cs + off1 - Kp
    s.append("pushseq %d 1 %d %d" % (base, nA, rng.randrange(256)))
    tB = base + nA + 70000
    # the reader starts at the first line (after section A): its buffers end at slot Kp + k*cs; the index
    # rebuild starts at slot 0. off1/off2 are relative to the rebuild's boundaries; add Kp for the reader's
    shift = rng.choice([0, Kp])
    nB = (2 * cs + off2 + shift) - (cs + off1) - Kp
    s.append("pushseq %d 1 %d %d" % (tB, nB, rng.randrange(256)))
    tC = tB + nB + 70000
    nC = rng.randrange(1, 40)
    lastC = tC + 3 * (nC - 1)
    s.append("pushseq %d 3 %d %d" % (tC, nC, rng.randrange(256)))
    s += ["len", "range", "last_line", "n_lines u u", "read_all u u"]
    s += ["read_all i%d i%d" % (tB - 5, tC + 2), "read_first_n 3 i%d u" % (tB - 1), "read_n 7 u u"]
    s += ["close", "fs_rm index:b", open_line("b"), "len", "range", "read_all u u",
          "read_all i%d u" % (tC - 1),
          # through the rebuilt index: reads, counts, resampling reads and pages anchored at the sections behind the buffer ends
          "read_all i%d i%d" % (tB, tB + 3), "read_n 4 i%d u" % tB, "read_n 3 i%d u" % tC, "n_lines i%d i%d" % (tB, tB + 3), "n_lines i%d u" % tC,
          "read_first_n 2 i%d u" % tB, "read_first_n 2 e%d u" % (tB + 1), "read_first_n 3 e%d u" % (tB - 1), "read_first_n 2 e%d u" % tC,
          "read_first_n 2 e%d u" % (tC - 1), "read_all e%d i%d" % (tC, tC + 6),
          # an append right after the last line: section or not depends on the last full timestamp the rebuilt index reports
          "push %d %s" % (lastC + 1, hexb(payload(rng, p))), "push %d %s" % (lastC + 65000, hexb(payload(rng, p))),
          "push %d %s" % (tC + 10**6, hexb(payload(rng, p))), "read_all i%d u" % tC, "close",
          "fs_cut index:b 16", open_line("b"), "len", "push %d %s" % (tC + 2 * 10**6, hexb(payload(rng, p))), "read_all i%d u" % tC, "close", "dump"]
    return {"family": "boundary", "lines": s, "tags": {"p%d" % p, "big"}}

def fam_boundary2(rng, tier, i):
    """two consecutive 16 KiB boundaries of the index rebuild scan BOTH split a section header (every pair of split
    points, enumerated), then the index is removed: rebuild, and appends whose encoding depends on the last full
    timestamp the rebuilt index reports (C06 C15 C05 C12)"""
    combos = [(p, o1, o2) for p in (0, 1, 2, 3, 4) for o1 in range(-K(p) + 1, 0) for o2 in range(-K(p) + 1, 0)]
    p, off1, off2 = combos[(i * 7 + rng.randrange(len(combos))) % len(combos)]
    L = p + 2
    Kp = K(p)
    cs = (((16384 + L - 1) // L) * L) // L
    base = rng.choice([1000, 2**32 + 5, 2**48 + 7])
    s = [new_line("b", p)]
    nA = cs + off1 - Kp
    s.append("pushseq %d 1 %d %d" % (base, nA, rng.randrange(256)))
    tB = base + nA + 70000
    nB = (2 * cs + off2) - (cs + off1) - Kp
    s.append("pushseq %d 1 %d %d" % (tB, nB, rng.randrange(256)))
    tC = tB + nB + 70000
    nC = rng.randrange(1, 20)
    lastC = tC + 3 * (nC - 1)
    s.append("pushseq %d 3 %d %d" % (tC, nC, rng.randrange(256)))
    s += ["close", "fs_rm index:b", open_line("b"), "len", "range", "last_line",
          "push %d %s" % (lastC + 1, hexb(payload(rng, p))), "push %d %s" % (lastC + 65000, hexb(payload(rng, p))),
          "read_all i%d u" % (tC - 1), "close", open_line("b"), "read_all i%d u" % (tB - 1), "len", "close", "dump"]
    return {"family": "boundary2", "lines": s, "tags": {"p%d" % p, "big"}}

def fam_lastmeta_intact(rng, tier, i):
    return fam_lastmeta(rng, tier, i, intact=True)

def fam_lastmeta(rng, tier, i, intact=False):
    """the backwards search for the last full timestamp on open (windows of 10 000 bytes rounded up to whole lines,
    counted from the END of the data, overlapping by one section header): the header of the last section straddles the
    start of a window at every split point; the index is one entry short, two short, absent or intact; optionally the
    data is torn inside its last line. Then the queries whose answers depend on the full timestamp the search found,
    and appends encoded against it (C05 C06 C12 C15 C04)"""
    # the header of the last section starts d lines before the start of a window: 1 <= d <= K-1 straddles it. Those
    # combinations come first, once each with the index exactly one entry short and the data intact; then everything.
    strad = [(p, d) for p in (0, 1, 2, 3, 4) for d in range(1, K(p))]
    combos = [(p, d) for p in (0, 1, 2, 3, 4) for d in range(-1, K(p) + 2)]
    fixed = i < 2 * len(strad) or intact
    if fixed:
        p, d = strad[i % len(strad)]
    else:
        p, d = combos[(i * 5 + rng.randrange(len(combos))) % len(combos)]
    L = p + 2
    Kp = K(p)
    W = ((max(10000, 2 * Kp * L) + L - 1) // L * L) // L            # window, in lines
    which_window = (1 if (i // len(strad)) % 2 == 0 else 2) if fixed else rng.choice([1, 1, 2])
    step_w = W - Kp                                                # a later window starts (W - overlap) further back
    n = (W if which_window == 1 else W + step_w) - Kp + d          # lines of the last section
    base = rng.choice([1000, 2**33 + 17, 2**50 + 3])
    # a long first section keeps the earlier windows from reaching the start of the file (where they would be clipped
    # and cover the header after all)
    nA = (which_window * W + 40) if fixed else rng.choice([7, W + 40, 2 * W + 40])
    s = [new_line("m", p), "pushseq %d 1 %d %d" % (base, nA, rng.randrange(256))]
    tB = base + nA + 70000 + rng.randrange(0, 500)
    if intact and i % 3 != 2:
        # a clean reopen with the index in place; the full timestamp of the straddling section has FF FF words at every line start
        tB = [0x0000FFFF12345678, 0xFFFF00001234ABCD, 0x1234FFFFFFFF5678][i % 3 if i % 3 < 2 else 0] if p <= 3 else tB
        tB = max(tB, base + nA + 70000)
    torn = (not fixed) and rng.random() < 0.35
    s.append("pushseq %d 1 %d %d" % (tB, n + (1 if torn else 0), rng.randrange(256)))
    last = tB + n - 1
    s.append("close")
    if torn:
        s.append("fs_cut data:m %d" % rng.randrange(1, L))
    st = (1.0 if intact else 0.0) if fixed else rng.random()
    if st < 0.5:
        s.append("fs_cut index:m 16")
    elif st < 0.6:
        s.append("fs_cut index:m 32")
    elif st < 0.75:
        s.append("fs_rm index:m")
    elif st < 0.85:
        s.append("fs_cut index:m %d" % rng.randrange(1, 16))
    s += [open_line("m"), "len", "range", "last_line", "read_all i%d u" % (tB - 1), "n_lines i%d u" % (last - 3),
          "read_first_n 2 i%d u" % (tB + 1),
          "push %d %s" % (last, hexb(payload(rng, p))), "push %d %s" % (last - 1, hexb(payload(rng, p))),
          "push %d %s" % (last + 1, hexb(payload(rng, p))), "push %d %s" % (last + 65000, hexb(payload(rng, p))),
          "read_all i%d u" % (last - 2), "close", open_line("m"), "len", "range", "read_all i%d u" % (last - 2), "close", "dump"]
    return {"family": "lastmeta_intact" if intact else "lastmeta", "lines": s, "tags": {"p%d" % p, "big"}}

def fam_interleave(rng, tier, i):
    """reads of every kind, which leave the file cursor at different places, each followed by an append - with a small
    delta, and with a delta that opens a new full-timestamp section - in the creating session and after a reopen: the
    files may only grow at the end, and everything reads back (C16 C01 C15)"""
    p = rng.choice(SMALL_P)
    reopen_at = rng.choice([None, 0, 1, 2])
    caches = () if reopen_at is not None else rng.choice([(), (), (2,), (1, 3)])
    lines = mk_lines(rng, p, rng.choice([4, 6, 9]), shape=rng.choice(["mixed", "jitter", "sparse"]), no_marker=True)
    if not lines:
        lines = mk_lines(rng, p, 4, shape="jitter", base=5, no_marker=True)
    tss = [t for t, _ in lines]
    s = [new_line("a", p, caches=caches)] + push_lines(lines)
    last = tss[-1]
    for r in range(rng.choice([3, 5, 7])):
        if reopen_at == r:
            s += ["close", open_line("a", caches=caches)]
        lo, hi = bounds_critical(rng, tss, 1)[0]
        k = rng.random()
        if k < 0.3:
            s.append("read_all %s %s" % (lo, hi))
        elif k < 0.55:
            s.append("read_first_n %d %s %s" % (rng.choice([1, 2, 3]), lo, hi))
        elif k < 0.75:
            s.append("n_lines %s %s" % (lo, hi))
        elif k < 0.9:
            s.append("read_n %d %s %s" % (rng.choice([1, 2, 5]), lo, hi))
        else:
            s.append(rng.choice(["last_line", "len", "range"]))
        last += rng.choice([1, 7, 65534, 65535, 70000, 10**6])
        if last >= U64:
            break
        s.append("push %d %s" % (last, hexb(payload(rng, p))))
        tss.append(last)
    s += ["read_all u u", "close", "dump"]
    return {"family": "interleave", "lines": s, "tags": {"p%d" % p}}

def fam_boundary_reader_c(rng, tier, i):
    return fam_boundary_reader(rng, tier, i, caches=(rng.choice([100, 1000]),))

def fam_boundary_reader(rng, tier, i, caches=()):
    """the reader's own boundaries: its first buffer starts after the first section, so a section
    starting `off` slots around slot K + k*chunk_slots is split by the k-th buffer end (C01)"""
    combos = [(p, off) for p in (0, 1, 2, 3, 4, 9) for off in range(-K(p) - 1, 2)]
    p, off1 = combos[i % len(combos)]
    L = p + 2
    Kp = K(p)
    cs = (((16384 + L - 1) // L) * L) // L
    base = rng.choice([7, 2**40 + 1, 2**56 + 3])
    nA = cs + off1          # lines after section A until section B starts: slot index Kp + nA = Kp + cs + off1
    s = [new_line("v", p, b"", caches), "pushseq %d 1 %d %d" % (base, nA, rng.randrange(256))]
    tB = base + nA + 65535 + rng.randrange(0, 1000)
    off2 = rng.randrange(-Kp - 1, 2)
    nB = (cs + off2) - off1 - Kp
    s.append("pushseq %d 1 %d %d" % (tB, nB, rng.randrange(256)))
    tC = tB + nB + 65535 + rng.randrange(0, 1000)
    s.append("pushseq %d 2 %d %d" % (tC, rng.randrange(1, 10), rng.randrange(256)))
    rn = ["read_n %d u u" % rng.choice([700, 2000, 6000]), "read_n 5 u u", "read_all i%d u" % (base + 1), "read_all i%d i%d" % (base + 2, tC)]
    # (a call that panics costs the handle: with cache levels the resampling reads go first, without them the full read)
    s += (rn + ["read_all u u", "n_lines u u", "len"] if caches else ["read_all u u", "n_lines u u", "len"] + rn) + ["read_first_n %d u u" % (nA + 2), "close",
          open_line("v", "any", "any", caches), "read_all u u", "last_line", "close"]
    return {"family": "boundary_reader_c" if caches else "boundary_reader", "lines": s, "tags": {"p%d" % p, "big"} | ({"caches"} if caches else set())}

def fam_sparse_boundary(rng, tier, i):
    """sparse series (every line its own section) crossing two buffer boundaries: every
    alignment of a section relative to a boundary occurs as the line count varies"""
    p = rng.choice([0, 1, 2, 3, 4, 9])
    L = p + 2
    per = (K(p) + 1) * L
    n = (2 * 16384) // per + rng.randrange(2, 40)
    base = rng.choice([5, 2**40, U64 - 1 - n * 70001 - 5])
    step = rng.choice([65535, 70000, 65536])
    cq = (2,) if i % 2 else ()
    s = [new_line("q", p, b"", cq), "pushseq %d %d %d %d" % (base, step, n, rng.randrange(256)),
         "len", "read_all u u", "read_n %d u u" % rng.choice([50, 400, n]), "read_n %d u u" % (n // 4), "close", "fs_rm index:q", open_line("q", "any", "any", cq), "len", "read_all u u",
         "read_n %d i%d u" % (rng.choice([3, 40]), base + step * (n // 2)), "read_first_n 3 e%d u" % (base + step * (n // 2)), "last_line", "close"]
    return {"family": "sparse_boundary", "lines": s, "tags": {"p%d" % p, "big"} | ({"caches"} if cq else set())}

def fam_ranges(rng, tier, i):
    """range reads, first-n, counts, paging over critical bounds (C02 C13 C14)"""
    p = rng.choice(SMALL_P)
    n = rng.choice([1, 2, 3, 5, 8, 12])
    lines = mk_lines(rng, p, n, shape=rng.choice(["edge", "mixed", "sparse", "jitter"]))
    if not lines:
        lines = mk_lines(rng, p, n, shape="jitter", base=5)
    edge = rng.random() < 0.2
    if edge:
        # a line stored at exactly full timestamp + 65534 (the last delta that fits), one just before it, and a later section:
        # bounds at that edge must still find the line
        t0 = rng.choice([0, 7, 2**32 + 1, 2**48 + 3, int(2 ** rng.uniform(1, 62))])
        mid = sorted(set(t0 + d for d in rng.sample(range(1, 65533), rng.choice([0, 1, 3]))))
        tail = t0 + 65534 + rng.choice([1, 2, 65534, 65535, 140000])
        tss0 = [t0] + mid + [t0 + 65533, t0 + 65534, tail, tail + 1]
        lines = [(t, payload(rng, p)) for t in tss0]
    at_max = (not edge) and rng.random() < 0.2
    if at_max:
        # the last line sits exactly at 2^64-1: bounds at the top of the range meet a stored line
        d = U64 - 1 - lines[-1][0]
        lines = [(t + d, pay) for t, pay in lines]
    if (not edge) and (not at_max) and i % 8 == 5 and lines[0][0] > 0:
        lines = [(0, payload(rng, p))] + lines              # the first line at time 0: the smallest bound meets a stored line
    tss = [t for t, _ in lines]
    n = len(tss)
    s = [new_line("r", p)] + push_lines(lines)
    if tss[0] == 0:
        s += ["read_all i0 i0", "n_lines i0 i0", "read_all u i%d" % tss[min(1, n - 1)], "n_lines u i%d" % tss[min(1, n - 1)], "read_first_n 1 u u", "read_all u e0", "n_lines u e0"]
    if at_max:
        m = U64 - 1
        s += ["read_all e%d u" % m, "read_all e%d i%d" % (m, m), "read_first_n 1 e%d u" % m, "n_lines e%d u" % m,
              "read_all i%d u" % m, "read_all e%d u" % (m - 1), "read_all u e%d" % m, "n_lines i%d i%d" % (m, m)]
    if edge:
        e = t0 + 65534
        s += ["read_all i%d u" % e, "read_all e%d u" % (e - 1), "read_first_n 1 i%d u" % e, "n_lines i%d i%d" % (e, e), "read_all i%d i%d" % (e, e),
              "read_all u i%d" % e, "read_all u e%d" % (e + 1), "read_first_n 2 e%d u" % (e - 1), "n_lines e%d u" % (e - 1), "read_all i%d i%d" % (e - 1, e + 1)]
    for lo, hi in bounds_critical(rng, tss, 14 if tier == "quick" else 40):
        k = rng.random()
        if k < 0.45:
            s.append("read_all %s %s" % (lo, hi))
        elif k < 0.7:
            s.append("read_first_n %d %s %s" % (rng.choice([1, 1, 2, 3, n, n + 1]), lo, hi))
        else:
            s.append("n_lines %s %s" % (lo, hi))
        if k >= 0.45 and (len(s) % 2 == 0):
            s.append("read_all %s %s" % (lo, hi))       # what a full read of the same range returns (C13 and C14 are stated against it)
    if n >= 2 and tss[-1] + 2 < U64 and rng.random() < 0.25:
        # the handle of a reopened series, a read that stops before the end of the data, an append, range reads again:
        # the appended line lands behind the others whatever the reads did before
        t_new = tss[-1] + rng.choice([1, 2, 65534, 65535, 70000])
        if t_new < U64 and avoids_marker_tail(p, tss + [t_new]):      # a reopen inside the marker-word class is known finding D6, not this family's subject
            mid = tss[rng.randrange(0, n - 1)]
            s += ["close", open_line("r"), rng.choice(["read_all u i%d" % mid, "read_first_n 1 u u", "n_lines u i%d" % mid]),
                  "push %d %s" % (t_new, hexb(payload(rng, p))), "read_all i%d u" % mid, "read_all u e%d" % t_new,
                  "read_all e%d u" % tss[-1], "read_first_n 2 i%d u" % tss[-1], "n_lines i%d i%d" % (mid, t_new)]
            tss = tss + [t_new]; n += 1
    # paging with Incl(last+1) and Excl(last): every page, then one page past the end
    page = rng.choice([1, 2, 3, n, n + 2])
    for form in ("i", "e"):
        s.append("read_first_n %d u u" % page)
        pos = page
        while True:
            last = tss[min(pos, n) - 1]
            if form == "i":
                if last + 1 >= U64:
                    break
                s.append("read_first_n %d i%d u" % (page, last + 1))
            else:
                s.append("read_first_n %d e%d u" % (page, last))
            if pos >= n:
                break
            pos += page
    return {"family": "ranges", "lines": s, "tags": {"p%d" % p}}

def fam_bigsection(rng, tier, i):
    """one section larger than 64 KiB; bounds that resolve beyond the first 64 KiB of it (C02 C13 C14)"""
    p = rng.choice([1022, 2046])
    n = (65536 // (p + 2)) + rng.randrange(3, 12)
    base = rng.choice([10, 2**35])
    step = rng.choice([1, 3])
    s = [new_line("u", p), "pushseq %d %d %d %d" % (base, step, n, rng.randrange(256)), "push %d %s" % (base + step * n + 70000, hexb(payload(rng, p)))]
    for _ in range(6):
        a = base + step * rng.randrange(n - 8, n)
        b = base + step * rng.randrange(n - 8, n + 2)
        lo, hi = min(a, b), max(a, b)
        s.append(rng.choice(["read_all i%d i%d" % (lo, hi), "read_all e%d u" % lo, "n_lines i%d i%d" % (lo, hi), "read_first_n 2 i%d u" % lo, "read_all u i%d" % hi]))
    s += ["read_all i%d u" % (base + step * (n - 2)), "len"]
    return {"family": "bigsection", "lines": s, "tags": {"bigp"}}

def fam_refuse(rng, tier, i):
    """valid / equal / older / wrong-length appends interleaved with reopen and torn tails (C03 C16)"""
    p = rng.choice(SMALL_P)
    n = rng.choice([1, 2, 4, 7])
    lines = mk_lines(rng, p, n, no_marker=True)
    s = [new_line("f", p)]
    cur = []
    for t, pay in lines:
        s.append("push %d %s" % (t, hexb(pay))); cur.append(t)
        r = rng.random()
        if r < 0.3:
            s.append("push %d %s" % (t, hexb(payload(rng, p))))                 # equal
        elif r < 0.5:
            s.append("push %d %s" % (rng.randrange(0, t + 1), hexb(payload(rng, p))))   # older or equal
        elif r < 0.7:
            s.append("push %d %s" % (t + 5, hexb(bytes(rng.randrange(256) for _ in range(p + rng.choice([1, 2]) if rng.random() < 0.6 or p == 0 else p - 1)))))
        elif r < 0.85:
            s += ["close", open_line("f"), "push %d %s" % (t, hexb(payload(rng, p)))]
        s += rng.sample(["len", "range", "read_all u u", "last_line"], 2)
    s += ["read_all u u", "len", "range"]
    if i % 3 == 0 and len(cur) >= 2 and cur[-1] + 2 < U64:
        # a reopened handle serves a read that ends before the last line, then an append: it lands behind the last line, and
        # after the next reopen its timestamp is refused like any other that is not newer
        t1 = cur[-1] + rng.choice([1, 70000])
        if t1 < U64:
            s += ["close", open_line("f"), "read_all u i%d" % cur[0], "push %d %s" % (t1, hexb(payload(rng, p))), "range", "close", open_line("f"),
                  "push %d %s" % (t1, hexb(payload(rng, p))), "push %d %s" % (cur[-1], hexb(payload(rng, p))), "range", "len", "read_all u u"]
    return {"family": "refuse", "lines": s, "tags": {"p%d" % p}}

def fam_reopen(rng, tier, i, marker=False):
    """appends interleaved with clean close/reopen at every position (C04 C12 C15)"""
    p = rng.choice([0, 1, 2, 3, 4, 8]) if not marker else rng.choice([0, 1, 2, 3])
    n = rng.choice([1, 2, 3, 5, 9])
    directed = marker and i < 56
    torn_variant = directed and i >= 28       # the same shapes reached by a kill inside the line that was being appended
    if directed:
        # every position of an FF FF pair in the 8 bytes of the full timestamp (payload sizes 0 and 1 first), five dense lines
        # and a clean reopen after every one of them: every number of lines behind the section header meets every position
        p, o = [(pp, oo) for pp in (0, 1, 2, 3) for oo in range(7)][i % 28]
        b = [rng.randrange(1, 200) for _ in range(8)]
        b[o] = b[o + 1] = 255
        if o + 1 < 7: b[7] = rng.choice([0, 0, b[7] % 128])       # keep a few of them small enough for five more lines
        base = min(int.from_bytes(bytes(b), "little"), U64 - 10)
        n = 5
        lines = [(base + k, payload(rng, p)) for k in range(n)]
    elif marker:
        base = marker_word_ts(rng)
        lines = [(t, payload(rng, p)) for t in ts_sequence(rng, n, rng.choice(["dense", "jitter", "mixed"]), base)]
    else:
        lines = mk_lines(rng, p, n, no_marker=True)
    hdr = bytes(rng.randrange(256) for _ in range(rng.choice([0, 3])))
    s = [new_line("o", p, hdr)]
    done = []
    for t, pay in lines:
        s.append("push %d %s" % (t, hexb(pay)))
        done.append(t)
        r = 0.0 if directed else rng.random()
        if torn_variant:
            # the next line is being appended when the process is killed: a part of it reaches the file
            s += ["push %d %s" % (t + 1, hexb(payload(rng, p))) if t + 1 < U64 else "len", "close", "fs_cut data:o %d" % rng.randrange(1, p + 2),
                  open_line("o", rng.choice(["any", p]), rng.choice(["any", hdr])), "read_all u u", "len"]
        elif directed:
            s += ["close", open_line("o", rng.choice(["any", p]), rng.choice(["any", hdr])), "read_all u u", "len"]
        elif r < 0.5:
            # now and then a refused append (wrong length, timestamp newer than the last line) right before the close, and the
            # same read-only calls on both sides of the clean reopen: what the handle reported before must be what it reports after
            pre = []
            if rng.random() < 0.4:
                wl = p - 1 if (p > 0 and rng.random() < 0.5) else p + rng.choice([1, 2])
                pre.append("push %d %s" % (min(t + rng.choice([1, 70000]), U64 - 1), hexb(bytes(rng.randrange(256) for _ in range(wl)))))
            chk = rng.sample(["range", "last_line", "len", "read_all u u"], 2) if (pre or rng.random() < 0.3) else []
            s += pre + chk + ["close", open_line("o", rng.choice(["any", p]), rng.choice(["any", hdr]))] + chk
            # a read or a count that ends before the last line, then the next push must still append
            a = rng.choice(done); b = rng.choice(done)
            s.append(rng.choice(["read_all i%d i%d" % (min(a, b), max(a, b)), "n_lines i%d i%d" % (min(a, b), max(a, b)),
                                 "read_first_n 1 u u", "read_all u u", "read_n 2 u i%d" % max(a, b)]))
            s += rng.sample(ACCESSORS, 2)
        elif r < 0.7 and len(done) > 1:
            s.append(rng.choice(["read_all u i%d" % done[len(done) // 2], "n_lines u e%d" % done[-1], "read_first_n 1 u u"]))
    s += ["read_all u u", "close", open_line("o"), "read_all u u"] + ACCESSORS
    return {"family": "reopen_marker" if marker else "reopen", "lines": s, "tags": {"p%d" % p} | ({"marker"} if marker else set())}

def fam_reopen_marker(rng, tier, i):
    return fam_reopen(rng, tier, i, marker=True)

def fam_bigline(rng, tier, i):
    """line sizes around the thresholds of the internal buffers: 5000 / 10000 (backwards search window),
    8192..16384 (two lines per 16 KiB buffer) and above 16384 (one line per buffer) (C04 C19 C01)"""
    sizes = [4998, 5000, 8190, 9000, 9998, 10002, 16381, 16382, 16384, 20000] if tier == "thorough" else [4998, 5000, 9000, 10002, 16382, 16384]
    p = sizes[i % len(sizes)]
    k = rng.choice([1, 2, 3])
    s = [new_line("g", p), "pushseq %d %d %d %d" % (rng.choice([5, 2**33]), rng.choice([1, 70000]), k, rng.randrange(256)),
         "pushseq %d 70000 %d %d" % (2**34, rng.choice([1, 2]), rng.randrange(256)),
         "len", "read_all u u", "close", open_line("g"), "len", "range", "last_line", "n_lines u u", "read_all u u", "read_n 2 u u", "close",
         "fs_rm index:g", open_line("g"), "len", "range", "last_line", "close"]
    return {"family": "bigline", "lines": s, "tags": {"bigp"}}

def header_len_guess(p, hdr):
    return None

def fam_torn(rng, tier, i, no_marker=True):
    """cut the data file at a byte length, put the index into some crash state, open (C05 C03 C12 C15)"""
    p = rng.choice([0, 1, 2, 3, 4, 5, 8])
    n = rng.choice([1, 2, 3, 4, 6])
    multi = rng.random() < 0.35      # several whole sections lost while the index still lists them; the lost lines are appended again
    stale = i % 7 == 4               # directed: several sections lost, index intact, then one line close behind a full time the index may still list
    multi = multi or stale
    if multi:
        n = rng.choice([3, 4, 6])
    if stale:
        n = 6
    lines = mk_lines(rng, p, n, shape="sparse" if multi else rng.choice(["mixed", "sparse", "edge", "jitter"]), no_marker=no_marker)
    if stale and lines[-1][0] + 65536 >= U64:
        lines = mk_lines(rng, p, n, shape="sparse", base=rng.choice([3, 1000, 2**33]), no_marker=no_marker)
    region = len(encode(p, lines))
    s = [new_line("t", p)] + push_lines(lines) + ["close"]
    cycles = 1 if tier == "quick" else rng.choice([1, 2, 3])
    for c in range(cycles):
        r0 = rng.random()
        if multi and c == 0:
            cut_back = min(region, rng.randrange(2, 5 if stale else max(3, len(lines))) * (K(p) + 1) * (p + 2) + rng.randrange(0, (K(p) + 1) * (p + 2)))
        elif r0 < 0.6:
            cut_back = rng.randrange(0, min(region, (K(p) + 3) * (p + 2)) + 1)
        elif r0 < 0.8:
            cut_back = min(region, rng.randrange(2, 4) * (K(p) + 1) * (p + 2) + rng.randrange(0, 2 * (p + 2)))   # two or three sparse sections
        else:
            cut_back = rng.randrange(0, region + 1)
        # fs_patch cannot truncate; use the absolute length through a size probe: the generator does not
        # know the header length, so cuts are expressed relative to the end with fs_cut
        s.append("fs_cut data:t %d" % cut_back)
        st = rng.random() * (0.5 if multi and c == 0 else 1.0)
        if stale and c == 0: st = 0.0
        if st < 0.35:
            pass                                   # index intact (ahead of the data, possibly by several entries)
        elif st < 0.5:
            s.append("fs_rm index:t")
        elif st < 0.7:
            s.append("fs_cut index:t %d" % rng.randrange(0, 40))
        elif st < 0.8:
            s.append("fs_append index:t %s" % hexb((10**9 + c).to_bytes(8, "little") + (10**6).to_bytes(8, "little")))
        elif st < 0.9:
            s.append("fs_write part:t 00000a0a")
        else:
            s += ["fs_cut index:t %d" % (16 * rng.randrange(0, 3)), "fs_write part:t 00000a0aaabb"]
        s.append(open_line("t"))
        repush = c == 0 and (multi or rng.random() < 0.5)
        first = repush and rng.random() < 0.5
        if stale and c == 0: first = True
        if first:
            # append again what the crash may have taken, right after the open (before any accessor could trip over a wrong
            # index): the lines that survived are refused (not newer than the last one), the lost ones are accepted -
            # whatever the index file claimed before the repair (C03 across tail repairs)
            if stale and len(lines) >= 2 and lines[-2][0] + 65534 < U64:
                # not the lost lines but one newer line whose time lies within a 16 bit distance behind a full timestamp the
                # index may still list although its section is gone: it must start a section of its own
                s += ["push %d %s" % (lines[-2][0] + rng.choice([0, 1, 100, 65534]), hexb(payload(rng, p)))]
            else:
                s += push_lines(lines)
        s += ["read_all u u", "len", "range", "last_line"]
        if repush and not first and multi and len(lines) >= 2 and rng.random() < 0.5:
            # not the lost lines but one newer line whose time lies within a 16 bit distance behind a full timestamp the
            # index may still list although its section is gone: it must start a section of its own
            t_st = lines[-2][0] + rng.choice([0, 1, 100, 65534])
            if t_st < U64:
                s += ["push %d %s" % (t_st, hexb(payload(rng, p))), "read_all u u", "range"]
        elif repush and not first:
            s += push_lines(lines) + ["range", "len"]
        t_new = (lines[-1][0] if lines else 0) + rng.choice([1, 65534, 65535, 10**6]) + c * 10**7
        if t_new < U64:
            s += ["push %d %s" % (t_new, hexb(payload(rng, p))), "read_all u u"]
        s += ["close", open_line("t"), "read_all u u", "len", "close"]
        region = (p + 2) * 2
    return {"family": "torn", "lines": s, "tags": {"p%d" % p}}

def fam_index_states(rng, tier, i):
    """every prior state of the index file must lead to the same entries (C06)"""
    p = rng.choice(SMALL_P)
    n = rng.choice([2, 4, 6, 9])
    lines = mk_lines(rng, p, n, shape=rng.choice(["sparse", "mixed", "edge"]), no_marker=True)
    s = [new_line("x", p)] + push_lines(lines) + ["close"]
    st = rng.random()
    if i % 5 == 2:
        # the process was killed inside the write of the index entry of a new section (the entry goes out first, in two writes
        # of 8 bytes): the index ends in the first r bytes of that entry, the data file holds nothing of the section. The
        # application then appends the sample it lost, with the same timestamp, closes and opens again.
        t_lost = lines[-1][0] + rng.choice([65535, 70000, 10**6])
        if t_lost < U64:
            r = rng.choice([8, 8, 8, rng.randrange(1, 16)])
            entry = t_lost.to_bytes(8, "little") + (len(encode(p, lines))).to_bytes(8, "little")
            s += ["fs_append index:x %s" % hexb(entry[:r]), open_line("x"), "range", "read_all u u",
                  "push %d %s" % (t_lost, hexb(payload(rng, p))), "range", "close", "dump", open_line("x"), "range", "len", "read_all u u",
                  "read_all i%d u" % t_lost, "push %d %s" % (t_lost - 1, hexb(payload(rng, p))), "close", "dump"]
            return {"family": "index_states", "lines": s, "tags": {"p%d" % p, "torn_entry"}}
    if st < 0.25:
        s.append("fs_rm index:x")
    elif st < 0.55:
        s.append("fs_cut index:x %d" % rng.randrange(1, 50))
    elif st < 0.7:
        s.append("fs_write index:x 00000a0a")
    elif st < 0.85:
        s.append("fs_append index:x %s" % hexb(bytes(rng.randrange(256) for _ in range(rng.choice([16, 7, 32])))))
    else:
        s.append("fs_write part:x 00000a0a0102")
    tss = [t for t, _ in lines]
    s += [open_line("x"), "len", "range", "read_all u u"]
    for lo, hi in bounds_critical(rng, tss, 4):
        s.append("read_all %s %s" % (lo, hi))
    t_new = tss[-1] + rng.choice([1, 65535, 70000])
    if t_new < U64:
        s += ["push %d %s" % (t_new, hexb(payload(rng, p))), "read_all u u"]
    s += ["close", "dump"]
    if rng.random() < 0.2:
        # the data file is gone, its index (with entries) stays behind; the name is created anew: either refused (C17: nothing
        # new appears) or - should a create ever tolerate the leftover - the index of the new series must list its sections only
        q = rng.choice([p, p, (p + 1) % 5])
        t1 = rng.choice([5, 500, 2**33])
        s += ["fs_rm data:x", new_line("x", q), "push %d %s" % (t1, hexb(payload(rng, q))), "push %d %s" % (t1 + 70000, hexb(payload(rng, q))),
              "close", "dump", open_line("x"), "range", "read_all u u", "close", "dump"]
    return {"family": "index_states", "lines": s, "tags": {"p%d" % p}}

def fam_format(rng, tier, i):
    """C07 backward: non-canonical but legal layouts appended behind a library-written header"""
    p = rng.choice([0, 1, 2, 3, 4, 7])
    n = rng.choice([1, 3, 6])
    lines = mk_lines(rng, p, n, no_marker=True)
    # non-canonical: extra sections although the delta would fit
    b = b""
    full = None
    early = rng.random() < 0.4      # a full timestamp may also lie before its first line (any value the deltas can reach from)
    prev = -1
    for t, pay in lines:
        if full is None or t - full > MAXD or rng.random() < 0.4:
            full = t
            if early:
                full = max(prev + 1, t - rng.choice([0, 1, 1000, MAXD]), 0)
            b += enc_section(p, full)
        b += enc_line(t - full, pay)
        prev = t
    s = [new_line("w", p, bytes(rng.randrange(256) for _ in range(rng.choice([0, 5])))), "close",
         "fs_append data:w %s" % hexb(b)]
    if rng.random() < 0.5:
        s.append("fs_rm index:w")
    s += [open_line("w"), "read_all u u", "len", "range", "last_line"]
    for lo, hi in bounds_critical(rng, [t for t, _ in lines], 6):
        s.append(rng.choice(["read_all %s %s", "read_all %s %s", "read_first_n 2 %s %s", "n_lines %s %s"]) % (lo, hi))
    t_new = lines[-1][0] + rng.choice([1, 70000])
    if t_new < U64:
        s += ["push %d %s" % (t_new, hexb(payload(rng, p))), "read_all u u"]
    s += ["close", open_line("w"), "read_all u u", "close"]
    return {"family": "format", "lines": s, "tags": {"p%d" % p}}

def fam_assets(rng, tier, i):
    a = [("reported_crash2", "sps30", ()), ("reported_crash1", "mhz14", ())][i % 2]
    s = ["fs_asset %s %s" % (a[0], a[1]), open_line(a[1], "any", "any"), "len", "range", "last_line",
         "read_first_n 5 u u", "n_lines u u", "close"]
    if tier == "thorough" or i % 2 == 0:
        s.insert(3, "read_all u u")
    return {"family": "assets", "lines": s, "tags": {"asset"}}

def fam_caches(rng, tier, i, reopen=False, faults=False):
    """downsample caches in one session / attached later (C08), across reopen and damage (C09),
    and resampling reads through them (C11)"""
    p = rng.choice([0, 1, 2, 3, 4, 6])
    Bs = sorted(rng.sample([1, 2, 3, 4, 7, 10], rng.choice([1, 1, 2, 3])))
    if rng.random() < 0.3:
        Bs = sorted(set(Bs) | {1})           # a level with bucket size 1 is level with its source after every append
    n = rng.choice([3, 7, 12, 20, 31])
    big = rng.random() < 0.25
    base = (2**63 + rng.randrange(0, 2**62)) if big else None
    lines = mk_lines(rng, p, n, shape=rng.choice(["dense", "jitter", "mixed", "sparse"]), base=base, no_marker=True)
    if rng.random() < 0.2:
        cand = sorted(set([rng.randrange(1, 1000), 2**40 + rng.randrange(1000), 2**62 + 17, 2**63 + rng.randrange(1000),
                           2**63 + 2**62 + 5, U64 - 1 - rng.randrange(3000, 4000), U64 - 1 - rng.randrange(1000, 2000)]))
        cand = [t for t in cand if avoids_marker_tail(p, [t])]
        if len(cand) >= 3:
            lines = [(t, payload(rng, p)) for t in cand]
            n = len(lines)
            big = True
    tss = [t for t, _ in lines]
    later = rng.random() < 0.35
    s = [new_line("c", p, b"", () if later else Bs)]
    cut = rng.randrange(0, n + 1)
    by_file_name = reopen and i % 5 == 2 and n >= 7      # directed: opened by file name, payload size from the file, whole buckets appended after it
    if by_file_name:
        cut = rng.randrange(0, n - 2 * min(Bs) - 1) if n - 2 * min(Bs) - 1 > 0 else 0
    s += push_lines(lines[:cut])
    if later or reopen:
        # by file name (with the extension) or by series name; the payload size given or read from the file: two builder paths
        s += ["close", open_line("c", "any" if (i % 3 or by_file_name) else p, "any", Bs, ext=1 if by_file_name else (i // 2) % 2)]
    if not reopen and rng.random() < 0.4:
        # resampling reads served from a cache (few samples over a bounded range, so that a level is read and the read stops
        # before the end of that level's file) between the appends: the bucket that completes next is still appended
        for k2, (t, pay) in enumerate(lines[cut:]):
            s.append("push %d %s" % (t, hexb(pay)))
            done = cut + k2 + 1
            if done >= 4 and rng.random() < 0.5:
                a, b = sorted(rng.sample(range(done), 2))
                s.append("read_n %d i%d i%d" % (rng.choice([1, 1, 2]), tss[a], tss[b]))
    else:
        s += push_lines(lines[cut:])
    if reopen:
        k = rng.randrange(0, 3)
        if by_file_name:
            k = 0
            s += ["len", "last_line", "range", "read_all u u"]       # in the session that was opened by file name, before anything else happens to the handle (a panic costs it)
        for k3 in range(k):
            s += ["close", open_line("c", "any", "any", Bs, ext=(i + k3) % 2)]
    if faults:
        s.append("close")
        B = rng.choice(Bs)
        f = rng.random()
        if i % 6 == 1:
            s.append("fs_cut data:c %d" % len(encode(p, lines)))          # the source emptied: its header stays, every line is gone
        elif f < 0.3:
            s += ["fs_rm cdata:c:%d" % B, "fs_rm cindex:c:%d" % B]
        elif f < 0.6:
            s.append("fs_cut cdata:c:%d %d" % (B, rng.randrange(1, 3 * (p + 2) + 2)))
        elif f < 0.8:
            s.append("fs_cut cindex:c:%d %d" % (B, rng.randrange(1, 20)))
        else:
            s.append("fs_cut data:c %d" % rng.randrange(1, 4 * (p + 2)))
        s.append(open_line("c", "any", "any", Bs))
        if f >= 0.8 and i % 2 == 0:
            # the application appends again what the crash took from the source (the levels may still hold means of those lines)
            s += push_lines(lines[-6:]) + ["len", "range"]
    s += ["read_all u u", "len"]
    for lo, hi in bounds_critical(rng, tss, 5):
        s.append("read_n %d %s %s" % (rng.choice([1, 2, 3, 5, max(1, n // 2), n, 2 * n]), lo, hi))
    s.append("read_n %d u u" % rng.choice([1, 2, 3, n]))
    s += ["close", "dump"]
    fam = "caches_faults" if faults else ("caches_reopen" if reopen else "caches")
    if i % 3 == 1:
        # a resampler whose encoder hands back more bytes than the payload size (the library takes the prefix): `caches=..!`
        s = [re.sub(r"( caches=[0-9,]+) cb=", r"\1! cb=", l) for l in s]
    return {"family": fam, "lines": s, "tags": {"p%d" % p, "caches"} | ({"bigts"} if big else set())}

_CACHE_HDR_PARTS = None
def cache_header_len(name, B):
    """length of the outer header of a cache's data file (4 + text), from the texts tools/translate.py reads in the source"""
    global _CACHE_HDR_PARTS
    if _CACHE_HDR_PARTS is None:
        import translate
        _CACHE_HDR_PARTS = [bytes(x) for x in translate.extract()["cache_header_parts"]]
    a, b, c = _CACHE_HDR_PARTS
    return 4 + len(a + name.encode() + b + (b"Config { max_gap: None, bucket_size: %d }" % B) + c)

def fam_caches_rebuild(rng, tier, i):
    """cache faults from which the library recovers exactly (C08 C09): a level whose files are missing on open while the
    source holds fewer / more lines than a bucket (create over pre-existing data primes the open bucket), or a level torn
    back to nothing (inside the first full timestamp or first line that follow its header) at a line count that is a
    multiple of the bucket size (the repair resamples the whole source); then appends that complete further buckets, a
    reopen at an aligned count, and a dump. Series starting at timestamp 0 included."""
    p = rng.choice([0, 1, 2, 3, 4, 6])
    L = p + 2
    B = rng.choice([2, 3, 4, 5])
    if i % 5 == 4:
        # the series is gone (data and index file removed), the files of its levels stayed behind; it is created again with the
        # same levels: refused, or - should a create ever adopt what it finds - every level must hold the new series only
        Bs = (B,) if rng.random() < 0.5 else (B, 2 * B)
        l1 = mk_lines(rng, p, 3 * B + 1, shape="dense", base=rng.choice([500, 2**33]), no_marker=True)
        l2 = mk_lines(rng, p, 2 * B, shape="dense", base=rng.choice([7, 2**34]), no_marker=True)
        s = [new_line("c", p, b"", Bs)] + push_lines(l1) + ["close", "fs_rm data:c", "fs_rm index:c", new_line("c", p, b"", Bs)] + push_lines(l2) + \
            ["read_n 2 u u", "close", "dump"]
        return {"family": "caches_rebuild", "lines": s, "tags": {"p%d" % p, "caches", "stale_levels"}}
    if i % 5 == 2:
        # a level with bucket size 1 that is one session behind its source; the first line it lacks lies exactly 65534 behind a
        # full timestamp and another section follows: the repair on open has to find that line
        t0 = rng.choice([1000, 2**33 + 5, 2**50])
        pre = [(t0 + d, payload(rng, p)) for d in sorted({0, rng.randrange(1, 60000), 65533})]
        post = [(t0 + 65534, payload(rng, p)), (t0 + 65534 + rng.choice([1, 70000, 200000]), payload(rng, p)), (t0 + 400000, payload(rng, p))]
        Bs = (1,) if rng.random() < 0.6 else (1, 3)
        s = [new_line("c", p, b"", Bs)] + push_lines(pre) + ["close", open_line("c", "any", "any", ())] + push_lines(post) + ["close",
             open_line("c", "any", "any", Bs), "read_all u u", "read_n 6 u u", "read_n 2 i%d u" % (t0 + 65534), "close", "dump"]
        return {"family": "caches_rebuild", "lines": s, "tags": {"p%d" % p, "caches", "level_behind"}}
    kind = rng.choice(["missing_short", "missing_long", "emptied", "emptied"])
    if kind == "missing_short":
        n = rng.randrange(1, B)
    elif kind == "missing_long":
        n = rng.randrange(B, 3 * B + 3)
    else:
        n = B * rng.randrange(1, 5)
    other = rng.random() < 0.3
    if other:
        # a second, coarser level that stays intact: keep it aligned at the open (else the open is in the D10 class)
        n = 2 * B * rng.randrange(1, 3)
    top = 2 * B if other else B
    extra = (top - n % top) % top + top * rng.randrange(0, 3)
    if extra == 0:
        extra = top
    for _ in range(50):
        lines = mk_lines(rng, p, n + extra, shape=rng.choice(["dense", "jitter", "mixed", "sparse"]),
                         base=rng.choice([0, 0, 1, 7, 2**33, None]), no_marker=True)
        if len(lines) == n + extra:
            break
    Bs = (B, 2 * B) if other else (B,)
    s = [new_line("c", p, b"", Bs)] + push_lines(lines[:n]) + ["close"]
    if kind.startswith("missing"):
        s += ["fs_rm cdata:c:%d" % B, "fs_rm cindex:c:%d" % B]
    else:
        s.append("fs_trunc cdata:c:%d %d" % (B, cache_header_len("c", B) + rng.randrange(0, (K(p) + 1) * L)))
        r = rng.random()
        if r < 0.3:
            s.append("fs_rm cindex:c:%d" % B)
        elif r < 0.5:
            s.append("fs_cut cindex:c:%d %d" % (B, rng.randrange(1, 20)))
    s.append(open_line("c", "any", "any", Bs))
    s += push_lines(lines[n:]) + ["read_all u u", "read_n %d u u" % rng.choice([1, 2, 3]), "close"]
    if (n + extra) % (2 * B if other else B) == 0:
        s += [open_line("c", "any", "any", Bs), "len", "close"]
    s.append("dump")
    return {"family": "caches_rebuild", "lines": s, "tags": {"p%d" % p, "caches"}}

def fam_caches_reopen(rng, tier, i):
    return fam_caches(rng, tier, i, reopen=True)

def fam_caches_faults(rng, tier, i):
    if i % 6 == 3:
        # a cache that ran ahead of a torn source whose last surviving line carries exactly the time of the last line in the
        # cache (the floored mean of the last cached bucket): evenly spaced lines, the tear takes the lines behind the middle
        # one of the last full bucket (and may end inside the line that follows the survivor)
        p = rng.choice([0, 1, 2, 4])
        B = rng.choice([2, 3, 3, 4, 5, 7])
        step = 1 if B % 2 == 0 else rng.choice([1, 7, 100])
        m = rng.choice([2, 3, 5])
        base = rng.choice([10, 1000, 2**40])
        L = p + 2
        lost = (B - 1) - (B - 1) // 2                       # lines behind the one whose time is the floored mean
        cut_back = lost * L - rng.choice([0, 0, 1, L - 1]) if lost else 0
        Bs = (B,) if rng.random() < 0.6 else tuple(sorted({B, rng.choice([1, 2, 10])}))
        s = [new_line("c", p, b"", Bs), "pushseq %d %d %d %d" % (base, step, B * m, rng.randrange(256)), "close",
             "fs_cut data:c %d" % max(cut_back, 1), open_line("c", "any", "any", Bs), "len", "read_all u u", "read_n 2 u u",
             "pushseq %d %d %d %d" % (base + step * B * m + 5, step, 2 * B, rng.randrange(256)), "read_n 3 u u", "close",
             open_line("c", "any", "any", Bs), "len", "close", "dump"]
        return {"family": "caches_faults", "lines": s, "tags": {"p%d" % p, "caches", "level_with_torn_source"}}
    if i % 6 == 5:
        p = rng.choice([0, 1, 2, 4])
        B = rng.choice([2, 3, 4])
        L = p + 2
        n = B * rng.choice([3, 4, 6])
        base = rng.choice([10, 1000, 2**40])
        lines = [(base + 3 * k2, payload(rng, p)) for k2 in range(n)]
        lost = B + rng.randrange(0, B)
        Bs = (B,) if rng.random() < 0.6 else tuple(sorted({B, rng.choice([1, 2, 10])}))
        s = [new_line("c", p, b"", Bs)] + push_lines(lines) + ["close", "fs_cut data:c %d" % (lost * L - rng.choice([0, 0, 1])),
             open_line("c", "any", "any", Bs), "len"] + push_lines(lines[-lost - 1:]) + ["len", "range", "read_all u u", "read_n 2 u u",
             "push %d %s" % (lines[-1][0] + 5, hexb(payload(rng, p))), "close", open_line("c", "any", "any", Bs), "len", "close", "dump"]
        return {"family": "caches_faults", "lines": s, "tags": {"p%d" % p, "caches", "level_ahead_repush"}}
    return fam_caches(rng, tier, i, reopen=True, faults=True)

def fam_cache_sections(rng, tier, i):
    """read_n ranges whose two bounds fall into the same section / gap of a cache (C11); several levels whose
    means are spaced around the 65534 limit, so that a coarser level has more sections than a finer one (D17)"""
    if rng.random() < 0.5:
        p = rng.choice([0, 0, 1, 2, 3, 4])
        Bs = rng.choice([(2, 3), (2, 3), (2, 3, 4), (3, 4), (2, 5), (1, 2, 3)])
        n = rng.choice([12, 24, 40])
        step = rng.randrange(65534 // max(Bs) - 2000, 65534 // min(Bs) + 3000)
        s = [new_line("e", p, b"", Bs), "pushseq %d %d %d %d" % (rng.choice([10, 1000, 2**40]), step, n, rng.randrange(256))]
        s += ["read_n %d u u" % rng.choice([1, 2, 3, 5, 50]), "read_n 2 i%d u" % (10 + 3 * step), "read_all u u", "close",
              open_line("e", "any", "any", Bs), "read_n %d u u" % rng.choice([1, 2, 4]), "close"]
        return {"family": "cache_sections", "lines": s, "tags": {"caches", "spacing"}}
    p = rng.choice([1, 2, 4])
    B = rng.choice([2, 3])
    n = rng.choice([200, 400])
    step = rng.choice([700, 1000, 40000])
    s = [new_line("e", p, b"", (B,)), "pushseq 10 %d %d %d" % (step, n, rng.randrange(256))]
    for _ in range(8):
        a = 10 + rng.randrange(0, n * step)
        b = a + rng.randrange(0, 30 * step)
        s.append("read_n %d i%d i%d" % (rng.choice([1, 2, 3, 5]), a, b))
    s += ["read_n 3 i5000 i20000", "read_n 1 e%d e%d" % (10 + step, 10 + 2 * step), "close"]
    return {"family": "cache_sections", "lines": s, "tags": {"caches"}}

def fam_resample(rng, tier, i):
    """read_n without caches over ranges and timestamp magnitudes (C10)"""
    p = rng.choice([0, 1, 2, 4])
    n = rng.choice([1, 3, 6, 10, 17])
    big = rng.random() < 0.4
    base = (U64 - 1 - rng.randrange(0, 1000) - n * 70000) if big else None
    lines = mk_lines(rng, p, n, base=base)
    if rng.random() < 0.25:
        # spread: a few lines spanning most of the u64 range, so that one bucket's sum of timestamps
        # (or of distances) exceeds 64 bits
        cand = sorted(set([rng.randrange(0, 1000), 2**40 + rng.randrange(1000), 2**63 + rng.randrange(1000), U64 - 1 - rng.randrange(1, 2000), U64 - 1 - rng.randrange(2001, 4000), 2**62]))
        lines = [(t, payload(rng, p)) for t in cand][:max(3, n)]
        big = True
    tss = [t for t, _ in lines]
    n = len(tss)
    s = [new_line("n", p)] + push_lines(lines)
    for k2, (lo, hi) in enumerate(bounds_critical(rng, tss, 8)):
        if k2 % 2 == 0:
            s.append("read_all %s %s" % (lo, hi))       # the full read of the same range: C10 is stated against it
        s.append("read_n %d %s %s" % (rng.choice([1, 2, 3, n, n + 1, 2 * n, 10**6]), lo, hi))
    s += ["read_all u u", "read_n 1 u u", "read_n 2 u u", "read_n %d u u" % max(1, n // 2)]
    return {"family": "resample", "lines": s, "tags": {"p%d" % p} | ({"bigts"} if big else set())}

_PREAMBLE_PARTS = None
def data_header_overhead(p):
    """bytes of the data file's header that are not the user header: u32 text length + preamble text for payload size p
    (texts as tools/translate.py reads them in the source; the line count replaces NUMB_LINES)"""
    global _PREAMBLE_PARTS
    if _PREAMBLE_PARTS is None:
        import translate
        c = translate.extract()
        _PREAMBLE_PARTS = ([bytes(x) for x in c["preamble_parts"]], c["version"])
    (a, b, c_, d), ver = _PREAMBLE_PARTS
    raw = a + b"NUMB_LINES" + b + str(ver).encode() + c_ + str(p).encode() + d
    nl = raw.count(b"\n") + (0 if raw.endswith(b"\n") else 1)
    text = a + str(nl).encode() + b + str(ver).encode() + c_ + str(p).encode() + d
    return 4 + len(text)

def fam_contract(rng, tier, i):
    """create/open contract (C17)"""
    p = rng.choice(SMALL_P + [17])
    q = rng.choice([x for x in SMALL_P if x != p])
    hdr = bytes(rng.randrange(256) for _ in range(rng.choice([0, 1, 12, 300])))
    hdr2 = bytes(rng.randrange(256) for _ in range(rng.choice([1, 12])))
    s = [open_line("m", "any", "any"), new_line("m", p, hdr), "push 5 %s" % hexb(payload(rng, p)), "close",
         new_line("m", p, hdr), new_line("m", q, hdr2),
         open_line("m", p, hdr, ext=1), "len", "close", open_line("m", "any", "any", ext=0), "payload_size", "close",
         open_line("m", q, "any"), open_line("m", p, hdr2), open_line("m", "any", hdr + b"\x01"), open_line("m", "any", b""), open_line("m", p, hdr[:-1] if hdr else b"\x00"),
         open_line("zz", "any", "any", ext=1), "dump"]
    # both header setters called on one builder, in either order: the last call decides what is demanded
    pq = ["any", p][i % 2]
    s += ["open m p=%s hdr=any>%s caches=- cb=none ext=0" % (pq, hexb(hdr2)), "open m p=%s hdr=any>%s caches=- cb=none ext=%d" % (pq, hexb(hdr), i % 2), "len", "close",
          "open m p=%s hdr=%s>any caches=- cb=none ext=0" % (pq, hexb(hdr2)), "len", "close", "dump",
          # a builder first set up to create, then told to take the payload size from the file: it can only open
          "open m p=any! hdr=any caches=- cb=none ext=%d" % ((i // 2) % 2), "len", "close", "open zz p=any! hdr=any caches=- cb=none ext=0", "dump"]
    r = rng.random()
    if i % 8 == 3:
        r = 0.65                    # directed: a user header at the very top of what the length field admits
    if r < 0.3:
        # header just below / at / above the maximum the 16 bit length admits
        plen = len(str(p))
        big = rng.choice([60000, 64000, 64500, 65000, 65535, 65536, 70000])
        s += ["new h p=%d hdr=%s caches=- cb=none" % (p, "ab" * big), "dump", "new h p=%d hdr=- caches=- cb=none" % p, "close"]
    elif r < 0.5:
        s += ["fs_write index:k 00000a0a", new_line("k", p, hdr), "dump", "fs_rm index:k", new_line("k", p, hdr), "close"]
    elif r < 0.6:
        s += ["fs_write cdata:k:2 00000a0a", new_line("k", p, hdr, (2,)), "dump"]
    elif r < 0.72:
        # user headers at the very top of what the 16 bit length field admits: the largest ones are stored, returned on
        # reopen and enforced like any other; one byte more is refused and leaves nothing
        top = 65535 - data_header_overhead(p)
        d = rng.choice([0, 0, 1, 2, 3, 4, 5])
        if i % 8 == 3:
            d = (i // 8) % 4
        big = bytes((rng.randrange(256) for _ in range(8))) * ((top - d) // 8) + bytes(rng.randrange(256) for _ in range((top - d) % 8))
        l2 = mk_lines(rng, p, 3, shape="jitter", base=rng.choice([7, 2**40]), no_marker=True)
        s += [new_line("h", p, big + b"\x00" * (d + 1)), "dump", new_line("h", p, big)] + push_lines(l2[:2]) + ["read_all u u", "close",
              open_line("h", rng.choice(["any", p]), "any"), "read_all u u", "range"] + push_lines(l2[2:]) + ["len", "close",
              open_line("h", "any", big), "len", "close", open_line("h", "any", big[:-1] + bytes([big[-1] ^ 1])), "close"]
    elif r < 0.85:
        # the path is given with the extension on create, with cache levels; then opened without / with it
        cs = rng.choice([(2,), (3,), (2, 5)])
        l2 = mk_lines(rng, p, rng.choice([1, 4, 6]), shape="jitter", base=rng.choice([7, 2**40]), no_marker=True)
        s += [new_line("e", p, hdr, cs, ext=1)] + push_lines(l2[:2]) + ["close", open_line("e", rng.choice(["any", p]), "any", cs, ext=rng.randrange(2))] + push_lines(l2[2:]) + ["read_all u u", "close",
              open_line("e", "any", hdr, cs, ext=1), "len", "dump", "close", new_line("e", p, hdr, cs, ext=1), new_line("e", p, hdr, (), ext=0), "dump"]
    return {"family": "contract", "lines": s, "tags": {"p%d" % p}}

def fam_corrupt(rng, tier, i):
    """single-line damages that produce the lone-marker pattern (second marker line of a section, or the delta
    of a data line), at enumerated positions, with each callback mode; whole and bounded reads (C18).
    Modes: small series; a long first section so that the damage lies around the first read-buffer boundary
    (bigbefore); a long *damaged* section so that the skipped stretch crosses one or more buffer boundaries
    (bigdamaged). Kind 3 (payload >= 4): the damaged data line directly precedes a section."""
    p = rng.choice([0, 0, 1, 2, 3, 4, 6, 9])
    L = p + 2
    chunk = ((16384 + L - 1) // L) * L
    r = rng.random()
    mode = "small" if r < (0.76 if tier == "quick" else 0.5) else ("bigbefore" if r < (0.88 if tier == "quick" else 0.75) else "bigdamaged")
    n = rng.choice([5, 7, 10, 14])
    for _ in range(100):
        lines = mk_lines(rng, p, n, shape=rng.choice(["mixed", "sparse", "edge", "mixed"]), no_marker=True)
        if len([1 for it in layout(p, lines) if it[0] == "S"]) >= 3:
            break
    s = [new_line("d", p)]
    # the series as segments: explicit lines and one optional run of consecutive timestamps (pushseq)
    seq, pre, post = [], [], lines
    if mode == "bigbefore":
        want = chunk // L + rng.randrange(-6, 3) - K(p)
        base = lines[0][0]
        if base < want + 10:
            return fam_corrupt(rng, tier, i)
        seq = [(base - want - 5 + k, b"") for k in range(want)]
    elif mode == "bigdamaged":
        cut = rng.randrange(1, len(lines) - 1)
        pre, post = lines[:cut], lines[cut:]
        want = (chunk // L) * rng.choice([1, 1, 2]) + rng.randrange(-3, 60)
        ts0 = pre[-1][0] + 70000 + rng.randrange(1000)
        shift = ts0 + want + 70000 - post[0][0]
        if shift > 0:
            post = [(t + shift, pay) for t, pay in post]
        if post[-1][0] >= U64 or not avoids_marker_tail(p, [ts0] + [t for t, _ in post]):
            return fam_corrupt(rng, tier, i)
        seq = [(ts0 + k, b"") for k in range(want)]
    s += push_lines(pre)
    if seq:
        s.append("pushseq %d 1 %d %d" % (seq[0][0], len(seq), rng.randrange(256)))
    s += push_lines(post) + ["close"]
    allv = pre + seq + post
    lay = layout(p, allv)
    secpos = [j for j, it in enumerate(lay) if it[0] == "S"]
    idx = []
    k = 0
    for it in lay:
        idx.append(k); k += K(p) if it[0] == "S" else 1
    total = k
    last_sec = secpos[-1]
    seq_ts = {t for t, _ in seq}
    kind = rng.choice([1, 1, 2, 3] if p >= 4 else [1, 1, 2])
    if mode == "small" and rng.random() < 0.2:
        kind = 4
    cb = rng.choice(["none", "deny", "allow", "allow", "allow"])
    word = rng.choice(["0100", "0000", "feff", "fffe", "%02x%02x" % (rng.randrange(255), rng.randrange(256))])
    if kind == 4:
        # the second marker line of the LAST section (which holds several lines): after the reopen the index no longer lists
        # that section, its lines lie behind a lone marker inside the reach of the section before it. Reads that start there
        # must not hand out those lines under the wrong full timestamp (the judge does not determine this state; the literal
        # "no line nobody appended" reading does)
        j = last_sec
        prev_full = max(it[1] for it in lay[:j] if it[0] == "S")
        prev_last = max(it[1] for it in lay[:j] if it[0] == "L")
        s.append("fs_patch data:d %d %s" % ((total - (idx[j] + 1)) * L, word))
        s.append(open_line("d", "any", "any", (), cb))
        for _ in range(6):
            x = rng.randrange(prev_last + 1, max(prev_last + 2, prev_full + 65535))
            s.append(rng.choice(["read_all i%d u", "read_first_n 3 i%d u", "read_all e%d u", "read_first_n 1 i%d u"]) % x)
        s += ["read_all i%d u" % (prev_last + 1), "read_all u u", "close"]
        return {"family": "corrupt", "lines": s, "tags": {"p%d" % p, "cb_" + cb, "kind4", mode}}
    if kind == 1:
        # second marker line of a section that is neither the first nor the last -> a non-marker line
        cands = [j for j in secpos if j != last_sec and j > 0]
        if mode == "bigdamaged":
            cands = [j for j in cands if lay[j][1] == seq[0][0]]
        elif mode == "bigbefore":
            cands = [j for j in cands if lay[j][1] not in seq_ts]
        if not cands:
            return fam_corrupt(rng, tier, i)
        j = rng.choice(cands)
        s.append("fs_patch data:d %d %s" % ((total - (idx[j] + 1)) * L, word))
    elif kind == 2:
        # a data line's delta -> FF FF; the line is followed by a data line, and a complete section follows later
        cand = [j for j, it in enumerate(lay) if it[0] == "L" and j + 1 < len(lay) and lay[j + 1][0] == "L" and j < last_sec and j > 1]
        if mode == "bigdamaged":
            near = [j for j in cand if lay[j][1] in seq_ts and lay[j][1] - seq[0][0] < 12]
            cand = near or cand
        elif mode == "bigbefore":
            cand = [j for j in cand if lay[j][1] not in seq_ts or seq[-1][0] - lay[j][1] < 8]
        if not cand:
            return fam_corrupt(rng, tier, i)
        j = rng.choice(cand)
        s.append("fs_patch data:d %d ffff" % ((total - idx[j]) * L))
    else:
        # payload >= 4: a data line directly before a section; two more sections must follow
        cand = [j for j, it in enumerate(lay) if it[0] == "L" and j + 1 < len(lay) and lay[j + 1][0] == "S"
                and len([q for q in secpos if q > j]) >= 2 and j > 1]
        if not cand:
            return fam_corrupt(rng, tier, i)
        j = rng.choice(cand)
        s.append("fs_patch data:d %d ffff" % ((total - idx[j]) * L))
    tss = [t for t, _ in lines] + ([seq[0][0], seq[len(seq) // 2][0], seq[-1][0]] if seq else [])
    s.append(open_line("d", "any", "any", (), cb))
    reads = ["read_first_n %d u u" % rng.choice([1, 2, 3, 1000]), "read_first_n 1000000 u u"]
    for lo, hi in bounds_critical(rng, sorted(tss), 3):
        reads.append("read_all %s %s" % (lo, hi))
    reads.append("read_first_n %d i%d u" % (rng.choice([1, 2, 50]), rng.choice(tss)))
    rng.shuffle(reads)
    pre_reads = []
    if rng.random() < 0.5:
        # calls that end early - a resampling read behind the data, inside a time gap, or of zero samples - must not use up the
        # callback: the reads over the damage that follow in the same session still get the user's consent
        tmax = max(tss)
        gaps = [(a, b) for a, b in zip(sorted(tss), sorted(tss)[1:]) if b - a > 70000]
        pre_reads = ["read_n 10 i%d u" % min(tmax + 1000, U64 - 1)]
        if gaps:
            a, b = rng.choice(gaps)
            pre_reads.append("read_n 10 i%d i%d" % (a + 66000, b - 1000) if b - 1000 > a + 66000 else "read_n 0 u u")
        pre_reads.append("read_n 0 u u")
        rng.shuffle(pre_reads)
    s += pre_reads + ["read_all u u"] + reads + ["n_lines u u", "len", "last_line", "read_n 3 u u", "read_all u u", "close"]
    return {"family": "corrupt", "lines": s, "tags": {"p%d" % p, "cb_" + cb, "kind%d" % kind, mode} | ({"big"} if seq else set())}

def fam_totality(rng, tier, i):
    """extreme values for every argument of every public call (C19)"""
    p = rng.choice([0, 1, 2, 4, 8])
    n = rng.choice([0, 1, 2, 5])
    base = rng.choice([0, 1, U64 - 1 - n * 3, 2**63])
    lines = [(base + 3 * j, payload(rng, p)) for j in range(n) if base + 3 * j < U64]
    caches = rng.choice([(), (), (1,), (2,), (2, 4)])
    s = [new_line("z", p, b"", caches)] + push_lines(lines)
    ext = ["u", "i0", "e0", "i%d" % (U64 - 1), "e%d" % (U64 - 1), "i1", "e1"] + (["i%d" % lines[0][0], "e%d" % lines[-1][0]] if lines else [])
    for _ in range(10 if tier == "quick" else 25):
        lo, hi = rng.choice(ext), rng.choice(ext)
        k = rng.random()
        if k < 0.3:
            s.append("read_all %s %s" % (lo, hi))
        elif k < 0.5:
            s.append("read_first_n %d %s %s" % (rng.choice([0, 1, 2, 10**9]), lo, hi))
        elif k < 0.8:
            s.append("read_n %d %s %s" % (rng.choice([0, 1, 2, 10**9]), lo, hi))
        else:
            s.append("n_lines %s %s" % (lo, hi))
    s += ["last_line", "len", "range", "push 0 %s" % hexb(payload(rng, p)), "push %d %s" % (U64 - 1, hexb(payload(rng, p))),
          "push %d %s" % (U64 - 1, hexb(payload(rng, p))), "read_all u u", "last_line", "read_n 1 u u", "read_n 0 u u", "read_first_n 0 u u", "close",
          open_line("z", "any", "any", caches), "len", "read_all u u", "close"]
    return {"family": "totality", "lines": s, "tags": {"p%d" % p}}

FAMILIES = {f.__name__[4:]: f for f in [
    fam_roundtrip, fam_boundary, fam_boundary2, fam_lastmeta, fam_lastmeta_intact, fam_interleave, fam_boundary_reader, fam_boundary_reader_c, fam_bigsection, fam_sparse_boundary, fam_ranges, fam_refuse, fam_reopen, fam_reopen_marker,
    fam_bigline, fam_torn, fam_index_states, fam_format, fam_assets, fam_caches, fam_caches_reopen,
    fam_caches_faults, fam_caches_rebuild, fam_cache_sections, fam_resample, fam_contract, fam_corrupt, fam_totality]}

GEN_ERRORS = []

def generate(plan, tier, seed):
    """plan: list of (family, count). Returns the histories."""
    rng = random.Random(seed)
    out = []
    for fam, count in plan:
        f = FAMILIES[fam]
        for i in range(count):
            try:
                h = f(rng, tier, i)
            except (ValueError, IndexError, KeyError, ZeroDivisionError, RecursionError, OverflowError) as e:
                # a generator that trips over its own arithmetic must not take the check down: the history is left out
                # and counted (GEN_ERRORS ends up in the evidence)
                GEN_ERRORS.append("%s[%d] seed %d: %s: %s" % (fam, i, seed, type(e).__name__, e))
                continue
            h["id"] = "%s-%d-%d" % (h["family"], seed, len(out))
            out.append(h)
    return out
