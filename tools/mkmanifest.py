#!/usr/bin/env python3
"""Writes /verif/MANIFEST.json from the table below (kept in one place so that level notes stay current)."""
import json
NOTE = ("Trusted base: Coq 8.16.1 kernel (+vm_compute), no axioms (Print Assumptions checked on every run), ExtrOcamlBasic extraction, "
        "tools/translate.py, extract/driver.ml, harness/bsdrive, bsv/gen.py/plans.py. The theorems are about the Coq model of the Rust (Layer I) and the documented "
        "format (Layer F); the model is tied to /repo by running it (extracted) against the real library on generated histories and comparing every result and file hash; "
        "the extracted Layer S/F specification judges the library's behaviour and provides the failing input. See DESIGN.md sections 3-8.")
LEVEL = {
 "C01": "Proved for the model, all payload sizes, all u64 timestamps, all lengths: codec round trip; chunked reader with carry = one pass for every chunk size; create + any accepted appends + full read returns exactly the list (C01_roundtrip); across close/reopen for payload sizes >= 4 (C01_across_reopen). Payload sizes 0..3 across reopen: under the marker-word conditions of C04. Judged + correspondence on histories incl. sections at every offset around two consecutive 16 KiB boundaries.",
 "C02": "Proved in full for the model: every pair of bounds (incl/excl/unbounded, in gaps, at the 65534 edge), every series: read_all returns exactly the selected lines or nothing (C02_range_read, C02_seek: binary search, area classification, delta scans, reader).",
 "C03": "Proved in full for the model: accepted iff the accept rule holds; accepted appends extend the represented list, refused ones change no file and no state (C03_append_refines_spec).",
 "C04": "Proved for the model: close/reopen is the identity on the abstract state and on every file, any list/length/header, unconditional for payload sizes >= 4 (C04_reopen_p4: header parser, tail checks, backwards search of the last full timestamp, index validation, last-line read); every payload size under the single condition that no continuation slot of a section header looks like a marker line (C04_reopen_any_payload), whose failure is the known finding D6 (witness lemma C04_open_intact_refuted). Series with cache levels: C09.",
 "C05": "Proved for the model: data file cut at ANY byte length, index absent or cut at ANY byte length independently, leftover .part: open succeeds and represents exactly the maximal prefix of completely written lines (C05_open_after_crash for payload sizes >= 4, C05_open_after_crash_any_payload for every payload size under the marker-word condition of C04); and the inductive closure over whole histories: ANY sequence of appends (accepted or refused), reads, close-and-reopen steps and crashes followed by an open - repeated crash-repair-append cycles of any length - keeps the series in its invariant for exactly the lines the specification expects, every open succeeds, every read returns exactly the selected lines (C05_every_history, C05_every_history_from_create, C05_complete_lines). Outside the theorems: payload sizes 0..3 with 0xFFFF continuation words (known finding D6).",
 "C06": "Proved for the model: index = function of the data; appends keep it; the chunked rebuild (with carry over any number of 16 KiB boundaries) finds exactly the sections of any well-formed series; validation on open accepts a prefix-of-history index only when it is the index of the data, otherwise rebuilds (C06_rebuild, C05_index_validation, C05_index_rebuild).",
 "C07": "Proved: reference decoder inverts reference encoder for the documented layouts; the model's five write/read layouts are the documented ones; constants regenerated from the source agree with the documented values. Open of hand-encoded non-canonical files and of the two assets: judged + correspondence.",
 "C08": "Proved in full for the model, one session: any number of cache levels, any bucket sizes >= 1, any list: after every accepted append every cache data file is its header + the reference encoding of the bucket means, its index the index of that (C08_session, C08_append, C08_files). After reopen: C09.",
 "C09": "Proved for the model, the aligned case: reopen with the same levels when the line count is a multiple of every bucket size leaves every file untouched and re-establishes the invariant (C09_reopen_aligned for payload sizes >= 4; C09_reopen_aligned_any_payload for every payload size under the marker-word condition of C04 on the source and the levels); closed over whole histories of appends, resampling reads and aligned reopens: every cache file stays the cache of one uninterrupted session (C09_every_aligned_history, _from_create). Unaligned reopen and damaged caches deviate in the library: known finding D10 (reported as KNOWN-FINDING); all other states judged.",
 "C10": "Proved in full for the model (no caches): every range, every n >= 1: the uniform bucket means of exactly the selected lines, at most 2n samples, unbounded sums (C10_resampling_read).",
 "C11": "Proved for the model: for every cache configuration with ascending bucket sizes, every n >= 1 and every pair of bounds read_n returns the uniform bucket means (at most 2n) of the lines of one of the configured levels inside the range, or a range error when that level has no line there (C11_read_n_total); the estimate loop is total: RoughPos::new never yields the pair of search areas that estimate_lines marks unreachable!() (C11_unreachable_arm_is_unreachable, C11_level_loop_total); the order assertion passes (after the D17 fix). Which admissible level is picked is not pinned by the specification (the judge accepts every admissible level). State after reopen: C09.",
 "C12": "Proved for the model under the representation invariant (hence after create, appends, reopen and crash recovery where C04/C05 are proved): len, range, payload_size, last_line.",
 "C13": "Proved in full: first n = prefix of the full read for every range (model); paging by Excluded(last) visits every line exactly once for every page size (spec level).",
 "C14": "Proved in full for the model: zero/range error exactly when nothing is selected; otherwise count = lines + K * sections opened inside the selection (C14_count), which is at least the lines a read returns and exceeds them by at most K slots per full-timestamp section at or inside the range - the specification's bound sections_touched, for whatever full timestamp the seek settles on (C14_within_bound, C14_any_start: a greedy-interleaving argument).",
 "C15": "Proved in full for the model: the 65534 rule as a characterisation of the encoder; an accepted append writes exactly the reference bytes; the data file is a function of header and lines.",
 "C16": "Proved for the model, with any number of cache levels: an accepted append leaves every file of the series with its old content as a byte prefix and touches no other file; reads and accessors return the file system unchanged (the fs in `= (fs, ..)` of the read theorems).",
 "C17": "Proved for the model: create over an existing series / too large header / stale index: error and no residue; open of a missing series creates nothing; header parser returns stored payload size and header for every payload size; other payload size or other header demanded: error, nothing touched. Known finding D13 (stale cache file residue).",
 "C18": "Proved for the model: on arbitrary bytes the reader hands the processor exactly the lines certified by the specification's skipping decoder - all with consent, those before the first lone marker then the corruption error without (C18_consent, C18_no_consent); on a data region with one damaged line (a section's second marker line lost, or a data line's delta turned into the marker pattern) the certified lines are a sublist of the appended lines: only genuine lines with their original timestamps (C18_second_marker_lost, C18_delta_lost). Not proved: the seek that precedes a bounded read of a damaged file (judged).",
 "C19": "Proved for the model under the invariant, all arguments: read_all, read_first_n, n_lines, read_n, last_line, push, len return a value or an error (no panic, no exhausted loop bound); read_n also with any cache levels (C19_read_n_with_caches: the unreachable!() arm of the estimate is never reached); every open of every history of C05 / C09 succeeds. Builder calls on arbitrary files: judged (incl. extreme arguments).",
}
DEFAULT = "Machine-checked theorems about the Coq model/spec for the parts listed in props/%s.v (see DESIGN.md section 9 for which statements are proved in full and which are _partial); the remaining obligations of the property are at present covered by the extracted specification judging the real library and by model/implementation correspondence on generated histories - that part is testing, not proof."
props = [json.loads(l) for l in open('/verif/properties.jsonl')]
checks = []
for d in props:
    pid = d["id"]
    checks.append({
        "property_id": pid,
        "quick_cmd": "./bsv check %s --tier quick" % pid,
        "thorough_cmd": "./bsv check %s --tier thorough" % pid,
        "evidence_file": "/verif/evidence/%s.json" % pid,
        "replay_cmd_template": "./bsv replay {path}",
        "engine": "bsv",
        "level_claimed": {"category": "proof", "text": LEVEL.get(pid, DEFAULT % pid), "design_ref": "DESIGN.md section 9, " + pid},
        "level_note": NOTE,
        "technique": "Coq 8.16 proof over a hand-written functional model + extracted-model/implementation correspondence + extracted spec as judge",
    })
m = {"version": 1,
     "setup_cmd": "./bsv setup",
     "hooks": {"guard": "byteseries_verif", "enable": "no hooks: every observation goes through the public API and the files on disk",
               "baseline_off_cmd": "cd /repo && cargo test --workspace --no-fail-fast --offline", "source_commits": [], "add_only": True},
     "engines": [{"name": "bsv", "path": "/verif/bsv", "serves_properties": [d["id"] for d in props],
                  "kind_free_text": "Coq development (coq/), extraction + OCaml driver (extract/), Rust harness (harness/), Python orchestrator"}],
     "checks": checks,
     "notes": "fix: commits in /repo are listed in known_findings.json (fixed) and DESIGN.md section 10",
     "not_applicable": []}
json.dump(m, open('/verif/MANIFEST.json', 'w'), indent=1)
print("wrote MANIFEST.json with", len(checks), "checks")
