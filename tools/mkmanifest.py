#!/usr/bin/env python3
"""Writes /verif/MANIFEST.json from the table below (kept in one place so that level notes stay current)."""
import json
NOTE = ("Trusted base: Coq 8.16.1 kernel (+vm_compute), no axioms (Print Assumptions checked on every run), ExtrOcamlBasic extraction, "
        "tools/translate.py, extract/driver.ml, harness/bsdrive, bsv/gen.py/plans.py. The theorems are about the Coq model of the Rust (Layer I) and the documented "
        "format (Layer F); the model is tied to /repo by running it (extracted) against the real library on generated histories and comparing every result and file hash; "
        "the extracted Layer S/F specification judges the library's behaviour and provides the failing input. See DESIGN.md sections 3-8.")
LEVEL = {
 "C01": "Proved (all p, all u64 timestamps, all payload bytes, all lengths, no bound): reference decoder inverts reference encoder; model of push appends exactly the encoder's bytes; model of the chunked reader with carry-over equals the streaming decoder for every chunk size. Tie: differential runs incl. sections at every offset around two consecutive 16 KiB boundaries.",
}
DEFAULT = "Machine-checked theorems about the Coq model/spec for the parts listed in props/%s.v (see DESIGN.md section 9 for which statements are proved in full and which are _partial); the remaining obligations of the property are at present covered by the extracted specification judging the real library and by model/implementation correspondence on generated histories - that part is testing, not proof."
props = [json.loads(l) for l in open('/verif/properties.jsonl')]
checks = []
for d in props:
    pid = d["id"]
    checks.append({
        "property_id": pid,
        "quick_cmd": "./bsv check %s --tier quick" % pid,
        "thorough_cmd": "./bsv check %s --tier thorough" % pid,
        "evidence_file": "/verif/evidence/%s.json" % pid,
        "replay_cmd_template": "./bsv replay {path}",
        "engine": "bsv",
        "level_claimed": {"category": "proof", "text": LEVEL.get(pid, DEFAULT % pid), "design_ref": "DESIGN.md section 9, " + pid},
        "level_note": NOTE,
        "technique": "Coq 8.16 proof over a hand-written functional model + extracted-model/implementation correspondence + extracted spec as judge",
    })
m = {"version": 1,
     "setup_cmd": "./bsv setup",
     "hooks": {"guard": "byteseries_verif", "enable": "no hooks: every observation goes through the public API and the files on disk",
               "baseline_off_cmd": "cd /repo && cargo test --workspace --no-fail-fast --offline", "source_commits": [], "add_only": True},
     "engines": [{"name": "bsv", "path": "/verif/bsv", "serves_properties": [d["id"] for d in props],
                  "kind_free_text": "Coq development (coq/), extraction + OCaml driver (extract/), Rust harness (harness/), Python orchestrator"}],
     "checks": checks,
     "notes": "fix: commits in /repo are listed in known_findings.json (fixed) and DESIGN.md section 10",
     "not_applicable": []}
json.dump(m, open('/verif/MANIFEST.json', 'w'), indent=1)
print("wrote MANIFEST.json with", len(checks), "checks")
