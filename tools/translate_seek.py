#!/usr/bin/env python3
"""Tie 1, part 4: a translator for the two functions of src/seek.rs that turn the bounds of a range into the first and the
last timestamp to look for: `checked_start_time` and `checked_end_time`.

Accepted shape of each function (comments stripped):

    fn NAME(data: &Data, B: Bound<u64>) -> Result<Timestamp, Error> {
        let range = data.range().ok_or(Error::EmptyFile)?;
        let V = match B {
            Bound::Included(ts) => E,
            Bound::Excluded(ts) => E,
            Bound::Unbounded => E,
        };
        let V = V.max(A);            (or .min(A))
        if V CMP A { return Err(..); }
        Ok(V)
    }

    E ::= ts | A
        | match ts.checked_add(1) { Some(ts) => ts, None => { return Err(..) } }       (or checked_sub)
        | ts.checked_add(1).ok_or(..)?                                                (or checked_sub)
        | ts.saturating_add(1) | ts.saturating_sub(1) | ts.wrapping_add(1) | ts.wrapping_sub(1) | ts + 1 | ts - 1
    A ::= *range.start() | *range.end()
    CMP ::= > | >= | < | <=

Every `Err(..)` is a range error in the model (the harness maps all of them to one class). The functions are emitted as

    gen_checked_start (first last:N) (b:bound) : res N        gen_checked_end (first last:N) (b:bound) : res N

over unbounded N with the 64 bit behaviour written out (checked: an error at the edge; saturating: clamped; wrapping: mod 2^64;
`+`/`-`: Panic at the edge - the checked build). theories/SeekGenFacts.v proves them equal to what the hand-written model
(Seek.checked_start_time / checked_end_time) computes from a non-empty range. A text outside this shape is NoMatch (a broken
tie); a text inside it that computes something else breaks the proof in SeekGenFacts.v - both are reported by bsv.
"""
import re

class NoMatch(Exception):
    pass

def strip_comments(s):
    s = re.sub(r"//[^\n]*", "", s)
    return re.sub(r"/\*.*?\*/", "", s, flags=re.S)

def match_close(s, i, open_c="{", close_c="}"):
    d = 0
    for j in range(i, len(s)):
        if s[j] == open_c: d += 1
        elif s[j] == close_c:
            d -= 1
            if d == 0:
                return j
    raise NoMatch("unbalanced braces in seek.rs")

def fn_body(text, name):
    m = re.search(r"fn\s+%s\s*\(\s*data\s*:\s*&Data\s*,\s*(\w+)\s*:\s*Bound<u64>\s*\)\s*->\s*Result<Timestamp,\s*Error>\s*\{" % name, text)
    if not m:
        raise NoMatch("signature of fn %s in seek.rs" % name)
    b = m.end() - 1
    return m.group(1), text[b + 1:match_close(text, b)]

def atom(e, what):
    e = e.strip()
    if re.fullmatch(r"\*\s*range\.start\(\)", e): return ("first",)
    if re.fullmatch(r"\*\s*range\.end\(\)", e): return ("last",)
    raise NoMatch("operand %r in %s" % (e, what))

ERR = r"Err\s*\((?:[^()]|\((?:[^()]|\([^()]*\))*\))*\)"     # Err( ... ) with up to two levels of nested parentheses
ERRB = r"\{\s*return\s+Err\s*\(.*?\)\s*;?\s*\}"             # { return Err(StructLike { .. }) }

def arm_expr(e, what):
    e = e.strip().rstrip(",").strip()
    if e == "ts":
        return ("ts",)
    m = re.fullmatch(r"match\s+ts\.checked_(add|sub)\(1\)\s*\{\s*Some\(ts\)\s*=>\s*ts\s*,\s*None\s*=>\s*(?:%s|return\s+%s)\s*,?\s*\}" % (ERRB, ERR), e, flags=re.S)
    if m:
        return ("checked", m.group(1))
    m = re.fullmatch(r"ts\.checked_(add|sub)\(1\)\.ok_or\((?:[^()]|\([^()]*\))*\)\?", e, flags=re.S)
    if m:
        return ("checked", m.group(1))
    m = re.fullmatch(r"ts\.(saturating|wrapping)_(add|sub)\(1\)", e)
    if m:
        return (m.group(1), m.group(2))
    m = re.fullmatch(r"ts\s*([+-])\s*1", e)
    if m:
        return ("plain", "add" if m.group(1) == "+" else "sub")
    try:
        return atom(e, what)
    except NoMatch:
        raise NoMatch("arm expression %r in %s" % (e[:80], what))

def split_arms(inner, what):
    """the three arms of `match B { .. }` (an arm body may itself hold a match with braces)"""
    arms = {}
    pos = 0
    pats = [("incl", r"Bound::Included\(ts\)\s*=>"), ("excl", r"Bound::Excluded\(ts\)\s*=>"), ("unb", r"Bound::Unbounded\s*=>")]
    heads = []
    for k, pat in pats:
        ms = list(re.finditer(pat, inner))
        if len(ms) != 1:
            raise NoMatch("arm %s of the match on the bound in %s (found %d)" % (k, what, len(ms)))
        heads.append((ms[0].start(), ms[0].end(), k))
    heads.sort()
    if inner[:heads[0][0]].strip():
        raise NoMatch("text before the first arm in %s" % what)
    for n, (s0, e0, k) in enumerate(heads):
        body = inner[e0:(heads[n + 1][0] if n + 1 < len(heads) else len(inner))]
        arms[k] = arm_expr(body, what + " arm " + k)
    return arms

def parse_fn(text, name):
    bound_var, body = fn_body(text, name)
    what = "fn " + name
    rest = body.strip()
    m = re.match(r"let\s+range\s*=\s*data\.range\(\)\.ok_or\(Error::EmptyFile\)\?\s*;", rest)
    if not m:
        raise NoMatch("`let range = data.range().ok_or(Error::EmptyFile)?;` in %s" % what)
    rest = rest[m.end():].strip()
    m = re.match(r"let\s+(\w+)\s*=\s*match\s+%s\s*\{" % bound_var, rest)
    if not m:
        raise NoMatch("`let V = match %s {` in %s" % (bound_var, what))
    v = m.group(1)
    b = m.end() - 1
    e = match_close(rest, b)
    arms = split_arms(rest[b + 1:e], what)
    rest = rest[e + 1:].strip()
    if not rest.startswith(";"):
        raise NoMatch("`;` after the match in %s" % what)
    rest = rest[1:].strip()
    m = re.match(r"let\s+%s\s*=\s*%s\.(max|min)\(([^;]*)\)\s*;" % (v, v), rest)
    if not m:
        raise NoMatch("`let %s = %s.max(..)/.min(..);` in %s" % (v, v, what))
    clamp = (m.group(1), atom(m.group(2), what))
    rest = rest[m.end():].strip()
    m = re.match(r"if\s+%s\s*(>=|<=|>|<)\s*([^{]*)\{" % v, rest)
    if not m:
        raise NoMatch("`if %s CMP .. {` in %s" % (v, what))
    cmp_ = (m.group(1), atom(m.group(2), what))
    b = m.end() - 1
    e = match_close(rest, b)
    if not re.fullmatch(r"\s*return\s+Err\s*\(.*\)\s*;?\s*", rest[b + 1:e], flags=re.S):
        raise NoMatch("body of the `if` in %s" % what)
    rest = rest[e + 1:].strip()
    if not re.fullmatch(r"Ok\(\s*%s\s*\)" % v, rest):
        raise NoMatch("`Ok(%s)` at the end of %s (found %r)" % (v, what, rest[:60]))
    return {"arms": arms, "clamp": clamp, "cmp": cmp_}

def coq_atom(a):
    return {"first": "first", "last": "last"}[a[0]]

def coq_arm(a):
    k = a[0]
    if k == "ts": return "Ok ts"
    if k in ("first", "last"): return "Ok " + coq_atom(a)
    if k == "checked":
        return "(if (ts + 1 <? U64)%N then Ok (ts + 1)%N else Err ERange)" if a[1] == "add" else "(if (ts =? 0)%N then Err ERange else Ok (ts - 1)%N)"
    if k == "saturating":
        return "Ok (N.min (ts + 1) (U64 - 1))%N" if a[1] == "add" else "Ok (ts - 1)%N"
    if k == "wrapping":
        return "Ok ((ts + 1) mod U64)%N" if a[1] == "add" else "Ok ((ts + U64 - 1) mod U64)%N"
    if k == "plain":
        return "(if (ts + 1 <? U64)%N then Ok (ts + 1)%N else Panic)" if a[1] == "add" else "(if (ts =? 0)%N then Panic else Ok (ts - 1)%N)"
    raise AssertionError(a)

def coq_fn(name, f):
    cmpf = {">": "(%s <? v)%%N", ">=": "(%s <=? v)%%N", "<": "(v <? %s)%%N", "<=": "(v <=? %s)%%N"}[f["cmp"][0]] % coq_atom(f["cmp"][1])
    s = "Definition %s (first last:N) (b:bound) : res N :=\n" % name
    s += "  do v <- match b with\n"
    s += "          | Incl ts => %s\n          | Excl ts => %s\n          | Unb => %s\n          end;\n" % (
        coq_arm(f["arms"]["incl"]), coq_arm(f["arms"]["excl"]), coq_arm(f["arms"]["unb"]).replace("ts", "ts"))
    s += "  let v := N.%s v %s in\n" % (f["clamp"][0], coq_atom(f["clamp"][1]))
    s += "  if %s then Err ERange else Ok v.\n" % cmpf
    return s

CMPS = {">": "(%(b)s <? %(a)s)%%N", ">=": "(%(b)s <=? %(a)s)%%N", "<": "(%(a)s <? %(b)s)%%N", "<=": "(%(a)s <=? %(b)s)%%N"}

def parse_in_gap(index_rs):
    """fn in_gap(val, gap_start) -> bool { let reach = MAX_SMALL_TS; val CMP gap_start + reach }"""
    t = strip_comments(index_rs)
    m = re.search(r"fn\s+in_gap\s*\(\s*val\s*:\s*Timestamp\s*,\s*gap_start\s*:\s*Timestamp\s*\)\s*->\s*bool\s*\{\s*let\s+reach\s*=\s*MAX_SMALL_TS\s*;\s*val\s*(>=|<=|>|<)\s*gap_start\s*\+\s*reach\s*\}", t)
    if not m:
        raise NoMatch("fn in_gap in series/data/index.rs (`let reach = MAX_SMALL_TS; val CMP gap_start + reach`)")
    return m.group(1)

def parse_section_rule(data_rs):
    """the decision of Data::push_data between a 16 bit delta and a new full timestamp: `if diff CMP MAX_SMALL_TS { None } else { Some(..) }`"""
    t = strip_comments(data_rs)
    m = re.search(r"\.and_then\(\s*\|\s*diff\s*\|\s*\{\s*if\s+diff\s*(>=|<=|>|<)\s*MAX_SMALL_TS\s*\{\s*None\s*\}\s*else\s*\{\s*Some\(", t)
    if not m:
        raise NoMatch("`if diff CMP MAX_SMALL_TS { None } else { Some(..) }` in Data::push_data (series/data.rs)")
    return m.group(1)

def render(seek_rs, index_rs=None, data_rs=None):
    text = strip_comments(seek_rs)
    fs = parse_fn(text, "checked_start_time")
    fe = parse_fn(text, "checked_end_time")
    s = "(* GENERATED by tools/translate.py (translate_seek) from /repo/src/seek.rs - do not edit *)\n"
    s += "From Coq Require Import List NArith.\nRequire Import BS.Common BS.Api.\n\n"
    s += "(* seek.rs checked_start_time / checked_end_time on a non-empty series whose first and last timestamps are `first` and `last` *)\n"
    s += coq_fn("gen_checked_start", fs) + "\n" + coq_fn("gen_checked_end", fe)
    summ = {"start": {k: list(v) for k, v in fs["arms"].items()}, "end": {k: list(v) for k, v in fe["arms"].items()}}
    if index_rs is not None and data_rs is not None:
        g = parse_in_gap(index_rs)
        r = parse_section_rule(data_rs)
        s = s.replace("Require Import BS.Common BS.Api.", "Require Import BS.Common BS.Api.\nRequire BSgen.Consts.")
        s += "\n(* index.rs in_gap: is `val` further behind the full timestamp `gap_start` than a 16 bit delta reaches (u64 addition: Panic on overflow in the checked build) *)\n"
        s += "Definition gen_in_gap (val gap_start:N) : res bool :=\n  do r <- u64_add gap_start BSgen.Consts.max_small_ts; Ok %s.\n" % (CMPS[g] % {"a": "val", "b": "r"})
        s += "\n(* data.rs push_data: does a line `diff` behind the last full timestamp start a new section *)\n"
        s += "Definition gen_starts_section (diff:N) : bool := %s.\n" % (CMPS[r] % {"a": "diff", "b": "BSgen.Consts.max_small_ts"})
        summ["in_gap"] = g; summ["section_rule"] = r
    return s, summ

if __name__ == "__main__":
    import sys, os
    repo = os.environ.get("BS_REPO", "/repo")
    out, summ = render(open(os.path.join(repo, "src/seek.rs")).read(), open(os.path.join(repo, "src/series/data/index.rs")).read(),
                       open(os.path.join(repo, "src/series/data.rs")).read())
    sys.stdout.write(out)
    sys.stderr.write(str(summ) + "\n")
