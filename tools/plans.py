"""Per-property plans: which history families a check runs, which judge failures and
correspondence disagreements count for which property, known-finding matching, corpus."""
import os, re, json

def P(quick, thorough, **kw):
    d = {"quick": quick, "thorough": thorough}
    d.update(kw)
    return d

PLANS = {
 "C01": P([("roundtrip", 60), ("boundary_reader", 38), ("boundary", 12), ("sparse_boundary", 3), ("reopen", 10), ("bigline", 2), ("interleave", 20), ("reopen_marker", 20), ("caches_reopen", 10), ("torn", 14)],
          [("roundtrip", 1500), ("boundary_reader", 380), ("boundary", 190), ("sparse_boundary", 24), ("reopen", 200), ("assets", 2), ("bigline", 10), ("caches_reopen", 100), ("torn", 200)]),
 "C02": P([("ranges", 70), ("boundary", 2), ("bigsection", 4), ("lastmeta", 12), ("boundary_reader", 16)],
          [("ranges", 2500), ("boundary", 40), ("index_states", 200), ("bigsection", 60), ("boundary_reader", 60)]),
 "C03": P([("refuse", 60), ("torn", 40), ("boundary", 6), ("lastmeta", 12), ("caches_faults", 12)],
          [("refuse", 1500), ("torn", 600), ("boundary", 60), ("caches_faults", 200)]),
 "C04": P([("reopen", 50), ("reopen_marker", 20), ("roundtrip", 20), ("bigline", 6), ("lastmeta", 6), ("caches_reopen", 12), ("lastmeta_intact", 13)],
          [("reopen", 1200), ("reopen_marker", 500), ("roundtrip", 400), ("bigline", 20), ("lastmeta", 60), ("caches_reopen", 120), ("lastmeta_intact", 78)], op_timeout_ms=20000),
 "C05": P([("torn", 90), ("index_states", 10), ("boundary", 19), ("boundary2", 6), ("lastmeta", 16), ("reopen_marker", 56)],
          [("torn", 3000), ("index_states", 300), ("boundary", 190), ("boundary2", 90), ("lastmeta", 160), ("reopen_marker", 300)]),
 "C06": P([("index_states", 50), ("roundtrip", 15), ("boundary", 38), ("boundary2", 10), ("sparse_boundary", 3), ("torn", 20), ("lastmeta", 16), ("caches_reopen", 10)],
          [("index_states", 1500), ("roundtrip", 300), ("boundary", 120), ("boundary2", 90), ("sparse_boundary", 30), ("lastmeta", 160), ("caches_reopen", 100)]),
 "C07": P([("format", 40), ("roundtrip", 25), ("assets", 2), ("reopen", 20), ("boundary_reader", 12), ("contract", 25), ("torn", 15)],
          [("format", 1200), ("roundtrip", 600), ("assets", 2), ("reopen", 300), ("boundary_reader", 100), ("torn", 300)]),
 "C08": P([("caches", 60), ("caches_rebuild", 20)], [("caches", 2000), ("caches_rebuild", 400)]),
 "C09": P([("caches_reopen", 40), ("caches_faults", 30), ("caches_rebuild", 40)], [("caches_reopen", 1200), ("caches_faults", 1200), ("caches_rebuild", 1200)]),
 "C10": P([("resample", 60), ("boundary", 12), ("boundary_reader", 12), ("sparse_boundary", 3)],
          [("resample", 2000), ("boundary", 10), ("boundary", 60), ("boundary_reader", 60), ("sparse_boundary", 12)]),
 "C11": P([("caches", 30), ("cache_sections", 12), ("caches_reopen", 10), ("boundary_reader_c", 38), ("sparse_boundary", 4)],
          [("caches", 800), ("cache_sections", 150), ("caches_reopen", 300), ("boundary_reader_c", 60), ("sparse_boundary", 12)]),
 "C12": P([("roundtrip", 40), ("reopen", 15), ("torn", 30), ("index_states", 15), ("boundary", 12), ("boundary2", 6), ("lastmeta", 16), ("refuse", 15), ("lastmeta_intact", 13), ("caches_reopen", 10)],
          [("roundtrip", 800), ("reopen", 400), ("torn", 600), ("index_states", 400), ("boundary", 60), ("boundary2", 60), ("lastmeta", 160), ("refuse", 300), ("lastmeta_intact", 39), ("caches_reopen", 100)]),
 "C13": P([("ranges", 70), ("bigsection", 3), ("boundary", 12), ("boundary_reader", 12)],
          [("ranges", 2500), ("bigsection", 40), ("boundary", 110), ("boundary_reader", 80)]),
 "C14": P([("ranges", 70), ("bigsection", 3), ("boundary", 12), ("boundary_reader", 12)],
          [("ranges", 2500), ("bigsection", 40), ("boundary", 110), ("boundary_reader", 80)]),
 "C15": P([("roundtrip", 40), ("reopen", 20), ("torn", 30), ("refuse", 10), ("boundary", 12), ("boundary2", 10), ("lastmeta", 8), ("interleave", 20), ("caches_reopen", 10)],
          [("roundtrip", 1000), ("reopen", 500), ("torn", 1000), ("refuse", 300), ("boundary", 60), ("boundary2", 90), ("lastmeta", 80), ("interleave", 300), ("caches_reopen", 100)]),
 "C16": P([("roundtrip", 30), ("refuse", 20), ("caches", 20), ("ranges", 10), ("reopen", 40), ("interleave", 60), ("caches_reopen", 15)], [("roundtrip", 600), ("refuse", 500), ("caches", 600), ("ranges", 300), ("interleave", 1500), ("reopen", 400), ("caches_reopen", 400)]),
 "C17": P([("contract", 60), ("roundtrip", 10)], [("contract", 1500), ("roundtrip", 200)]),
 "C18": P([("corrupt", 80)], [("corrupt", 2500)]),
 "C19": P([("totality", 60), ("bigline", 6), ("cache_sections", 8), ("resample", 30), ("boundary_reader", 9), ("contract", 25), ("index_states", 10), ("torn", 10)],
          [("totality", 1500), ("bigline", 11), ("cache_sections", 60), ("resample", 300), ("contract", 200), ("boundary_reader", 76), ("boundary", 38), ("index_states", 200), ("torn", 200)], totality=True, op_timeout_ms=20000),
}

def opkind(op):
    return op.split()[0]

def context(rec, j):
    """what happened in the history up to and including op j"""
    ops = [l for l in rec["h"]["lines"] if l and not l.startswith("#")]
    c = {"torn": False, "index_fault": False, "cache_fault": False, "reopened": False, "caches": False,
         "format": False, "asset": False, "corrupt": False, "pushed": False}
    for op in ops[:j + 1]:
        k = opkind(op)
        if k in ("fs_cut", "fs_trunc", "fs_write", "fs_append", "fs_patch", "fs_rm"):
            f = op.split()[1]
            if f.startswith("data:"):
                if k == "fs_append": c["format"] = True
                elif k == "fs_patch": c["corrupt"] = True
                else: c["torn"] = True
            elif f.startswith(("index:", "part:")): c["index_fault"] = True
            else: c["cache_fault"] = True
        elif k == "fs_asset": c["asset"] = True
        elif k in ("push", "pushseq"): c["pushed"] = True
        elif k == "open":
            if c["pushed"] or c["asset"] or c["format"]: c["reopened"] = True
            c["caches"] = "caches=-" not in op
        elif k == "new":
            c["caches"] = "caches=-" not in op
    return c

def properties_of_failure(rec, jf):
    if jf.get("props"):
        return set(jf["props"])          # a literal check (tools/literal.py) names its property itself
    j, op, what = jf["op_index"], jf["op"], jf["what"]
    k = opkind(op)
    c = context(rec, j)
    ps = set()
    bad_end = what.endswith(("got panic", "got hang")) or " panic" in what.split("::")[-1] or " hang" in what.split("::")[-1]
    if bad_end:
        ps.add("C19")
    if what.startswith("result"):
        if k == "new":
            ps.add("C17")
            if "caches=-" not in op and " got ok" in what:
                ps.add("C08")      # a create with cache levels went through where it had to be refused: the levels hold what it found there
        elif k == "open":
            ps.add("C17")
            if c["torn"] or c["index_fault"]: ps.add("C05")
            if not (c["torn"] or c["index_fault"] or c["cache_fault"] or c["corrupt"]):
                ps.add("C04")
                if c["pushed"] or c["format"] or c["asset"]: ps.add("C07")   # an intact file laid out as documented is not read back at all
            if c["caches"]: ps.add("C09")
            if c["format"] or c["asset"]: ps.add("C07")
            if c["index_fault"]: ps.add("C06")
        elif k in ("push", "pushseq"):
            ps.add("C03")
            if c["caches"]: ps.update({"C08"})
            if c["torn"]: ps.add("C05")
        elif k == "read_all":
            ps.add("C01" if op.split()[1:] == ["u", "u"] else "C02")
            if not (c["torn"] or c["index_fault"] or c["cache_fault"] or c["corrupt"]):
                ps.add("C07")     # a file laid out as documented (here: written by the library) is not read back with the same content
            if c["reopened"] and not c["torn"]: ps.add("C04")
            if c["torn"]: ps.add("C05")
            if c["corrupt"]: ps.add("C18")
            if c["index_fault"]: ps.add("C06")
        elif k == "read_first_n":
            ps.add("C13")
            if op.split()[1] == "0": ps.add("C19")
            if c["corrupt"]: ps.add("C18")
        elif k == "read_n":
            ps.add("C11" if c["caches"] else "C10")
            if op.split()[1] == "0": ps.add("C19")
        elif k == "n_lines":
            ps.add("C14")
        elif k in ("last_line", "len", "is_empty", "range", "payload_size"):
            ps.add("C12")
            if c["reopened"] and not c["torn"]: ps.add("C04")
            if c["torn"]: ps.add("C05")
            if c["index_fault"]: ps.add("C06")
    elif what.startswith("file"):
        fn = what.split()[1]
        is_cache = "_None_" in fn
        is_index = fn.endswith("_index")
        absent = "expected=absent" in what or "got=absent" in what
        if is_cache:
            ps.add("C09" if (c["reopened"] and k == "open" and "caches=-" not in op and c["pushed"]) or c["cache_fault"] or c["torn"] else "C08")
            if c["reopened"]: ps.add("C09")
            if k in ("new", "open") and absent: ps.add("C17")
        elif is_index:
            ps.add("C06")
            if c["torn"] or c["index_fault"]: ps.add("C05")
            if k == "new" and absent: ps.add("C17")
        else:
            ps.add("C15")
            ps.add("C07")     # the data file is no longer the documented encoding of what was appended
            if k == "open":
                ps.add("C05" if (c["torn"] or c["index_fault"]) else "C04")
                if c["format"] or c["asset"]: ps.add("C07")
            if k in ("new",) or (k == "open" and absent): ps.add("C17")
            if k in ("push", "pushseq") and c["reopened"]: ps.add("C04" if not c["torn"] else "C05")
        if k in ("push", "pushseq", "read_all", "read_first_n", "read_n", "n_lines", "last_line", "len", "is_empty", "range", "payload_size"):
            ps.add("C16")
        if k == "open" and not (c["torn"] or c["index_fault"] or c["cache_fault"] or c["corrupt"] or c["format"] or c["asset"]) and not absent:
            ps.add("C16")     # only the repair of a damaged tail may change a file at open: this series was intact
        if k in ("push", "pushseq") and not is_cache and not is_index:
            ps.add("C03")
        if k == "new" and "expected=absent" not in what:
            # a create (refused: the file was there before) changed or removed a file that earlier appends had written
            ps.add("C16")
            if not is_cache and not is_index and c["pushed"]: ps.add("C01")
    return ps

def relevant(pid, rec, jf):
    return pid in properties_of_failure(rec, jf)

PURE_OPS = ("read_all", "read_first_n", "read_n", "n_lines", "last_line", "len", "is_empty", "range", "payload_size")

def disagreement_what(op, impl_line, model_line):
    """a model/implementation disagreement in the vocabulary of the judge's failures: the result differs, or a file does"""
    ra, _, sa = impl_line[2:].partition(" | ")
    rb, _, sb = model_line[2:].partition(" | ")
    if ra != rb:
        return "result %s :: model %s :: got %s" % (op, rb[:200], ra[:200])
    fa = dict(x.split("=", 1) for x in sa.split() if "=" in x)
    fb = dict(x.split("=", 1) for x in sb.split() if "=" in x)
    for fn in sorted(set(fa) | set(fb)):
        if fa.get(fn) != fb.get(fn):
            return "file %s expected=%s got=%s" % (fn, fb.get(fn, "absent"), fa.get(fn, "absent"))
    return "result %s :: differs" % op

def relevant_disagreement(pid, rec, d):
    """A disagreement between the model and the implementation counts for the properties whose theorems are about
    the model function behind the disagreeing observation - the same attribution as for the judge's failures."""
    return pid in properties_of_failure(rec, d)

CLASS_CODES = {"marker_tail": 1, "cache_realign": 2, "create_residue": 3, "early_full": 4}

def governing_class(rec, j):
    """class code the judge computed for the most recent new/open at or before op j. The cache_realign class is
    sticky per series: an open in that class leaves misaligned buckets in the cache FILES, so every later open of the
    same series (until it is created anew) is governed by it as well, whatever the abstract state says then."""
    ops = [l for l in rec["h"]["lines"] if l and not l.startswith("#")]
    classes = rec.get("classes", {})
    name = None
    for i in range(min(j, len(ops) - 1), -1, -1):
        k = opkind(ops[i])
        if k not in ("new", "open"):
            continue
        nm = (ops[i].split() + [""])[1]
        if name is None:
            name = nm
            c = classes.get(i, 0)
            if c != 0 or k == "new":
                return c
        elif nm == name:
            if k == "new":
                return 0
            if classes.get(i, 0) == CLASS_CODES["cache_realign"]:
                return CLASS_CODES["cache_realign"]
    return 0

def known_match(k, rec, jf):
    m = k.get("match", {})
    c = context(rec, jf["op_index"])
    if "class" in k and governing_class(rec, jf["op_index"]) != CLASS_CODES[k["class"]]: return False
    if "op" in m and not re.search(m["op"], jf["op"]): return False
    if "what" in m and not re.search(m["what"], jf["what"]): return False
    if "family" in m and rec["h"]["family"] not in m["family"]: return False
    for flag, val in m.get("context", {}).items():
        if c.get(flag) != val: return False
    if "tags" in m and not set(m["tags"]) <= set(rec["h"]["tags"]): return False
    return True

def corpus_histories(pid, root):
    """minimised failures / regressions kept under corpus/<pid>/*.bs, run first on every check"""
    d = os.path.join(root, "corpus", pid)
    out = []
    if os.path.isdir(d):
        for fn in sorted(os.listdir(d)):
            if fn.endswith(".bs"):
                lines = [l.rstrip("\n") for l in open(os.path.join(d, fn)) if l.strip() and not l.startswith(("#", "history "))]
                out.append({"id": "corpus-" + fn[:-3], "family": "corpus", "lines": lines, "tags": {"corpus"}})
    return out

TRUSTED_BASE = [
 "Coq 8.16.1 kernel incl. vm_compute (no native_compute); coqchk re-check in the thorough tier",
 "axioms: none (Print Assumptions under every property theorem must say: Closed under the global context)",
 "extraction with ExtrOcamlBasic only (bool, option, unit, list, prod, sumbool, sumor; andb/orb inlined); OCaml 4.13.1",
 "tools/translate.py + translate_meta.py + translate_estimate.py + translate_seek.py (constants, header texts, the section layouts of meta.rs, the line estimate of estimate.rs and the bound arithmetic of seek.rs regenerated / translated from /repo/src each run; the accepted subset of Rust is listed in DESIGN.md section 5)",
 "extract/driver.ml (script parsing, printing, byte table self-tested against Byte.to_N, FNV hashing, file comparison)",
 "harness/src/main.rs (bsdrive: script interpreter over the public API, error-class mapping, snapshots, watchdog)",
 "bsv + tools/gen.py + tools/plans.py (generation, sharding, diff, attribution of failures to properties)",
 "modelled, not verified: all of /repo/src; Rust std (Vec, slices, chunks_exact, binary_search_by_key as a lower bound on sorted keys, integer conversions, 64-bit usize); POSIX file semantics (append-mode writes are whole and land at the end, set_len, create_new, rename); no I/O errors",
]
ASSUMPTIONS = [
 "the theorems are about the Coq model (Layer I); it is tied to /repo by differential runs on generated histories, not by proof",
 "the judge (Layer S/F specification, extracted) is the oracle for the implementation's observable behaviour",
 "file contents are compared by length and FNV-1a-64 hash",
 "the user resampler is the byte-wise integer mean (BytesResampler) on both sides; float resamplers are not compared",
]
