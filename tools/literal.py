"""Literal readings of C06 and C15 on the files the implementation left behind (the `D` lines of a `dump`), independent of the
model and of the judge's state - an independent reader in Python that knows only the documented layout:

  C06  the index file lists exactly one entry per full-timestamp section of the data file (timestamp, byte offset), in order;
  C15  the data region is the canonical encoding of the lines it decodes to (a full timestamp only for the first line and
       when the distance to the last full timestamp exceeds 65534).

A file that does not parse as documented (torn, lone marker lines, ...) is skipped: these checks never say anything about
damaged files. bsv decides when they apply (a series closed normally and not touched by fault operations)."""
import re

MAXD = 65534

def K(p):
    return {0: 6, 1: 4, 2: 3, 3: 3}.get(p, 2)

def split_outer(b):
    if len(b) < 4 or b[2:4] != b"\n\n":
        return None
    hl = int.from_bytes(b[0:2], "little")
    if len(b) < 4 + hl:
        return None
    return b[4:4 + hl], b[4 + hl:]

def payload_size(header):
    if len(header) < 4:
        return None
    tl = int.from_bytes(header[0:4], "little")
    m = re.search(rb"For this file that is: (\d+) bytes", header[4:4 + tl])
    return int(m.group(1)) if m else None

def read_ts(p, sl):
    a, b = sl[0], sl[1]
    if p == 0: t = sl[2] + sl[3] + sl[4] + sl[5]
    elif p == 1: t = a[2:3] + b[2:3] + sl[2] + sl[3]
    elif p == 2: t = a[2:4] + b[2:4] + sl[2]
    elif p == 3: t = a[2:5] + b[2:5] + sl[2][0:2]
    else: t = a[2:6] + b[2:6]
    return int.from_bytes(t, "little")

def scan(p, region):
    """-> (sections [(ts, byte offset)], lines [(ts, payload)]) or None when the region is not laid out as documented"""
    L = p + 2
    if len(region) % L:
        return None
    slots = [region[i:i + L] for i in range(0, len(region), L)]
    secs, lines, full, i = [], [], None, 0
    while i < len(slots):
        s = slots[i]
        if s[:2] == b"\xff\xff":
            if i + 1 >= len(slots) or slots[i + 1][:2] != b"\xff\xff" or i + K(p) > len(slots):
                return None
            full = read_ts(p, slots[i:i + K(p)])
            secs.append((full, i * L))
            i += K(p)
        else:
            if full is None:
                return None
            lines.append((full + int.from_bytes(s[:2], "little"), s[2:]))
            i += 1
    return secs, lines

def enc_section(p, t):
    tb = t.to_bytes(8, "little")
    if p == 0: return b"\xff\xff\xff\xff" + tb
    if p == 1: return b"\xff\xff" + tb[0:1] + b"\xff\xff" + tb[1:2] + tb[2:5] + tb[5:8]
    if p == 2: return b"\xff\xff" + tb[0:2] + b"\xff\xff" + tb[2:4] + tb[4:8]
    if p == 3: return b"\xff\xff" + tb[0:3] + b"\xff\xff" + tb[3:6] + tb[6:8] + b"\0\0\0"
    return (b"\xff\xff" + tb[0:4] + b"\0" * (p - 4)) + (b"\xff\xff" + tb[4:8] + b"\0" * (p - 4))

def canonical(p, lines):
    out, full = b"", None
    for ts, pay in lines:
        if full is None or ts - full > MAXD:
            out += enc_section(p, ts); full = ts
        out += (ts - full).to_bytes(2, "little") + pay
    return out

def check_series(name, files, want_c15):
    """files: {filename: bytes}. -> list of (property, text)"""
    out = []
    d = files.get(name + ".byteseries")
    if d is None:
        return out
    so = split_outer(d)
    if so is None:
        return out
    p = payload_size(so[0])
    if p is None:
        return out
    sc = scan(p, so[1])
    if sc is None:
        return out
    secs, lines = sc
    if any(lines[k][0] >= lines[k + 1][0] for k in range(len(lines) - 1)) or any(t >= 2**64 for t, _ in lines):
        return out
    ix = files.get(name + ".byteseries_index")
    if ix is not None:
        si = split_outer(ix)
        if si is None or len(si[1]) % 16:
            out.append(("C06", "file %s.byteseries_index literal :: not a whole number of 16 byte entries behind its header" % name))
        else:
            ents = [(int.from_bytes(si[1][k:k + 8], "little"), int.from_bytes(si[1][k + 8:k + 16], "little")) for k in range(0, len(si[1]), 16)]
            if ents != secs:
                out.append(("C06", "file %s.byteseries_index literal :: lists %d entries %s.. but the data file has %d full-timestamp sections %s.." %
                            (name, len(ents), ents[:3], len(secs), secs[:3])))
    else:
        out.append(("C06", "file %s.byteseries_index literal :: missing beside a closed series" % name))
    if want_c15 and canonical(p, lines) != so[1]:
        out.append(("C15", "file %s.byteseries literal :: %d bytes, the canonical encoding of the %d lines it decodes to has %d (a full timestamp where a delta fits, or stray bytes)" %
                    (name, len(so[1]), len(lines), len(canonical(p, lines)))))
    return out
