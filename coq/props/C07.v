(* C07 - Files conform to the documented v1 format, in both directions
   Property theorems only: statements, `exact <lemma>`, Print Assumptions, Check pins.
   Layers: F = documented format (Format.v), S = abstract spec (Spec/SpecStep), I = model of the Rust (World.step'). *)
From Coq Require Import List NArith Bool Arith Sorted.
From Coq Require Import Strings.Byte.
Require Import BS.Bytes BS.Common BS.Api BS.Layout BS.Format BS.FormatFacts BS.Spec BS.SpecStep.
Require Import BS.FS BS.FSFacts BS.Meta BS.MetaFacts BS.Header BS.Reader BS.ReaderFacts BS.Index BS.Data BS.DataFacts BS.Seek BS.Series BS.SeriesFacts.
Import ListNotations.

Theorem C07_forward_codec : forall (p:nat) (l:list line), wf_series p l -> decode p (encode p l) = Some l.
Proof. exact decode_encode. Qed.
Print Assumptions C07_forward_codec.
(* the five section layouts as coded are the documented ones, in both directions *)
Theorem C07_write_layouts : forall p t, meta_write p (le_enc 8 t) = enc_section p t.
Proof. exact meta_write_is_section. Qed.
Print Assumptions C07_write_layouts.
Theorem C07_read_layouts : forall p a b got,
  length a = p + 2 -> length b = p + 2 -> Forall (fun s => length s = p + 2) got -> length got = Meta.ncont p ->
  meta_read_ts p a b got = Layout.read_ts p a b got.
Proof. exact meta_read_is_read_ts. Qed.
Print Assumptions C07_read_layouts.
(* Tie 1: the constants regenerated from the source equal the documented ones *)
Theorem C07_constants : BSgen.Consts.max_small_ts = MAXD /\ BSgen.Consts.preamble0 = xff /\ BSgen.Consts.preamble1 = xff.
Proof. split; [|split]; reflexivity. Qed.
(* partial: header parse/print round trip and the backward direction through open are not proved yet. *)
