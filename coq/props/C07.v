(* C07 - Files conform to the documented v1 format, in both directions
   Property theorems only: statements, `exact <lemma>`, Print Assumptions, Check pins.
   Layers: F = documented format (Format.v), S = abstract spec (Spec/SpecStep), I = model of the Rust (World.step'). *)
From Coq Require Import List NArith Bool Arith Sorted.
From Coq Require Import Strings.Byte.
Require Import BS.Bytes BS.Common BS.Api BS.Layout BS.Format BS.FormatFacts.
Import ListNotations.

Theorem C07_forward_codec : forall (p:nat) (l:list line), wf_series p l -> decode p (encode p l) = Some l.
Proof. exact decode_encode. Qed.
Print Assumptions C07_forward_codec.
