(* C07 - Files conform to the documented v1 format, in both directions
   Property theorems only: statements, `exact <lemma>`, Print Assumptions, Check pins.
   Layers: F = documented format (Format.v), S = abstract spec (Spec/SpecStep), I = model of the Rust (World.step'). *)
From Coq Require Import List NArith Bool Arith Sorted.
From Coq Require Import Strings.Byte.
Require Import BS.Bytes BS.Common BS.Api BS.Layout BS.Format BS.FormatFacts BS.Spec BS.SpecStep.
Require Import BS.FS BS.FSFacts BS.Meta BS.MetaFacts BS.Header BS.Reader BS.ReaderFacts BS.Index BS.Data BS.DataFacts BS.Seek BS.Series BS.SeriesFacts BS.Sections BS.ExtractFacts BS.HeaderFacts BS.OpenFacts BS.TornFacts BS.TornGenFacts BS.ConformFacts BS.MetaGenFacts BS.World BS.ParseFileFacts.
Require BSgen.MetaLayout.
Import ListNotations.

Theorem C07_forward_codec : forall (p:nat) (l:list line), wf_series p l -> decode p (encode p l) = Some l.
Proof. exact decode_encode. Qed.
Print Assumptions C07_forward_codec.
(* the five section layouts as coded are the documented ones, in both directions *)
Theorem C07_write_layouts : forall p t, meta_write p (le_enc 8 t) = enc_section p t.
Proof. exact meta_write_is_section. Qed.
Print Assumptions C07_write_layouts.
Theorem C07_read_layouts : forall p a b got,
  length a = p + 2 -> length b = p + 2 -> Forall (fun s => length s = p + 2) got -> length got = Meta.ncont p ->
  meta_read_ts p a b got = Layout.read_ts p a b got.
Proof. exact meta_read_is_read_ts. Qed.
Print Assumptions C07_read_layouts.
(* Tie 1: the constants regenerated from the source equal the documented ones *)
Theorem C07_constants : BSgen.Consts.max_small_ts = MAXD /\ BSgen.Consts.preamble0 = xff /\ BSgen.Consts.preamble1 = xff.
Proof. split; [|split]; reflexivity. Qed.

(* Tie 1 for the layouts themselves: gen/MetaLayout.v is TRANSLATED on every run from the text of meta::write / meta::read in
   /repo/src (tools/translate_meta.py). What the source writes for a timestamp is the documented section; what it reads back
   from lines of the right size is the documented timestamp; its OutOfLines exits report 0, 1, .. consumed continuation lines
   (the carry the chunked reader and the index scan rely on); each arm reports K lines. These are re-checked against the
   current source on every run: an edited byte index, slice bound or count breaks them. *)
Theorem C07_source_write_layouts : forall p t, BSgen.MetaLayout.gen_write p (le_enc 8 t) = enc_section p t.
Proof. exact source_write_is_documented. Qed.
Print Assumptions C07_source_write_layouts.
Theorem C07_source_read_layouts : forall p a b got,
  length a = p + 2 -> length b = p + 2 -> Forall (fun s => length s = p + 2) got -> length got = Meta.ncont p ->
  le_dec (BSgen.MetaLayout.gen_read_bytes p a b got) = Layout.read_ts p a b got.
Proof. exact source_read_is_documented. Qed.
Print Assumptions C07_source_read_layouts.
Theorem C07_source_consumed_lines : forall p, BSgen.MetaLayout.gen_consumed p = seq 0 (Meta.ncont p).
Proof. exact gen_consumed_is_model. Qed.
Print Assumptions C07_source_consumed_lines.
Theorem C07_source_lines_per_section : forall p, BSgen.MetaLayout.gen_write_lines p = Layout.K p.
Proof. exact gen_write_lines_is_K. Qed.
Print Assumptions C07_source_lines_per_section.

(* (I refines F) the header: check_and_split on the preamble text the library writes (regenerated from the source) returns the
   stored payload size and exactly the stored user header, for every payload size and every user header *)
Theorem C07_header_roundtrip : forall (p:N) (uhdr:list byte) popt, (p < 2^64)%N -> (popt = None \/ popt = Some p) ->
  check_and_split (params_to_text BSgen.Consts.version p ++ uhdr) popt = Ok (p, uhdr).
Proof. exact header_roundtrip. Qed.
Print Assumptions C07_header_roundtrip.

(* (F) the independent reader's view of the header: Layer F's parse_file - the reader the judge and tools/literal.py model,
   which knows only the documented layout and the two anchor phrases of the preamble - applied to the header the library
   writes returns the stored payload size, exactly the stored user header and exactly the bytes behind the header, for every
   payload size below 2^64, every user header and every content *)
Theorem C07_independent_reader_on_written_header : forall (p:N) (uhdr region:list byte), (p < 2^64)%N ->
  let header := params_to_text BSgen.Consts.version p ++ uhdr in
  (len header <= 65535)%N ->
  parse_file (outer header ++ region)
  = Some {| pf_p := N.to_nat p; pf_user := uhdr; pf_region := region; pf_header_len := (4 + len header)%N |}.
Proof. exact parse_file_ok. Qed.
Print Assumptions C07_independent_reader_on_written_header.

(* (I refines F) THE BACKWARD DIRECTION for reference-encoded files: a data file laid out as documented - outer header, the
   preamble text, any user header, then the reference encoding (Layer F) of ANY well-formed list of lines - with no index file
   at all (an independent writer knows nothing of the sidecar) or any prefix of the right one, is opened by the library and
   read back with exactly that content, and the data file is not touched. Every payload size (0..3 under the marker-word
   condition nm_sec of C04 = known finding D6), every length, every header. *)
Theorem C07_reference_file_read_back : forall p fs name uhdr popt hdropt cb l,
  let header := params_to_text BSgen.Consts.version (N.of_nat p) ++ uhdr in
  wf_series p l -> Forall (nm_sec p) (secs_of l) ->
  (len header <= 65535)%N -> (len (encode p l) < 2^64)%N -> (N.of_nat p < 2^64)%N ->
  fs_get fs (name ++ ext_data) = Some (outer header ++ encode p l) ->
  index_state fs name (sections p (encode p l)) ->
  (popt = None \/ popt = Some (N.of_nat p)) ->
  match hdropt with HdrIs e => e = uhdr | HdrAny => True end ->
  exists fs' s, builder_open name popt hdropt [] cb fs = (fs', Ok (s, uhdr))
    /\ RepH fs' s p (outer header) (outer []) l
    /\ fs_get fs' (name ++ ext_data) = fs_get fs (name ++ ext_data)
    /\ (read_all s Unb Unb fs' = (fs', Ok l) \/ (l = [] /\ read_all s Unb Unb fs' = (fs', Err ERange))).
Proof. exact reference_file_read_back. Qed.
Print Assumptions C07_reference_file_read_back.

(* REFUTED beyond the reference encoding (known finding D18-early-full-time): the documented layout lets a writer store a full
   timestamp EARLIER than the line that follows it (the 16 bit time counts from the last full time). The witness file below
   is decoded by the reference decoder into four lines; the model of the library - bug for bug, the same script is replayed on
   the implementation on every run (corpus/C07/d18_early_full_time.bs) - reads all four back in a full read, but reports the
   first full timestamp (10) as the start of the range although the first line is at 15, returns the lines at 100007 and
   100009 for the end bound ..=100003, and counts 8 lines there. *)
Theorem C07_early_full_time_refuted :
  decode 1 d18_region = Some [(15%N, [xaa]); (16%N, [xbb]); (100007%N, [xcc]); (100009%N, [xdd])]
  /\ skipn 3 (snd (World.run World.init_world d18_ops))
     = [ROpened 1 []; RLines [(15%N, [xaa]); (16%N, [xbb]); (100007%N, [xcc]); (100009%N, [xdd])];
        RRange (Some (10%N, 100009%N));
        RLines [(15%N, [xaa]); (16%N, [xbb]); (100007%N, [xcc]); (100009%N, [xdd])];
        RNum 8].
Proof. exact d18_refuted. Qed.
Print Assumptions C07_early_full_time_refuted.
(* partial: files that follow the documented layout but are NOT the reference encoding (a full timestamp where a delta would
   have fitted, index files of earlier releases that carry a copy of the header) are judged on generated variants and on the two
   release-written files under assets/, not proved. *)
