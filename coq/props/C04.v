(* C04 - Close / reopen is the identity
   Property theorems only: statements, `exact <lemma>`, Print Assumptions, Check pins.
   Layers: F = documented format (Format.v), S = abstract spec (Spec/SpecStep), I = model of the Rust (World.step'). *)
From Coq Require Import List NArith Bool Arith Sorted.
From Coq Require Import Strings.Byte.
Require Import BS.Bytes BS.Common BS.Api BS.Layout BS.Format BS.FormatFacts BS.Spec BS.SpecStep.
Require Import BS.FS BS.FSFacts BS.Meta BS.MetaFacts BS.Header BS.Reader BS.ReaderFacts BS.Index BS.Data BS.DataFacts BS.Seek BS.Series BS.SeriesFacts BS.ReadAllFacts BS.TotalFacts BS.ExtractFacts BS.HeaderFacts BS.LastMetaFacts BS.OpenFacts BS.TornFacts BS.TornGenFacts BS.Sections.
Require Import BS.World BS.Judge BS.JudgeFacts.
Import ListNotations.



(* (I) Reopening a series whose handle satisfied the representation invariant (RepH: established by create, kept
   by every accepted append - C17_create, C03) gives a handle that satisfies the invariant for the SAME list of
   lines, returns the stored user header, and leaves the file system exactly as it is (the result state is `fs`
   itself: no file is rewritten, truncated, created or removed). By the theorems of C01, C02, C10, C12, C13, C14
   - all stated for any handle under RepH - every read and accessor then answers as before the close.
   Holds for any list of lines and any payload size, under three conditions whose status is:
     (a) the header parser recognises the header in the file: proved for the library's own preamble, every payload size and
         every user header (C04_reopen_own below, C17_header_parse);
     (b) tail_clean: the tail check of FileWithInlineMeta::new sees no pair of marker slots in the last K slots. Proved
         for payload sizes >= 4 (C04_tail_clean_p4). For payload sizes 0..3 it fails exactly for the known finding D6
         (0xFFFF words in the continuation slots of the last section), see C04_open_intact_refuted;
     (c) the backwards search for the last full timestamp succeeds: proved for every length (C04_last_meta) when no
         continuation slot of a section header looks like a marker line (nm_sec; vacuous for payload sizes >= 4), and
         without that condition for data regions within the search window (C04_last_meta_short).
   For payload sizes >= 4 nothing is left: C04_reopen_p4. *)
Theorem C04_reopen : forall p fs s header uhdr name popt hdropt cb l,
  RepH fs s p (outer header) (outer []) l ->
  of_name (d_file (s_data s)) = name ++ ext_data -> of_name (ix_file (d_index (s_data s))) = name ++ ext_index ->
  (len header <= 65535)%N -> (len (encode p l) < 2^64)%N ->
  check_and_split header popt = Ok (N.of_nat p, uhdr) ->
  (l = [] \/ tail_clean p (encode p l)) ->
  last_meta_timestamp p (encode p l) = Ok (full_after p None l) ->
  match hdropt with HdrIs e => e = uhdr | HdrAny => True end ->
  exists s', builder_open name popt hdropt [] cb fs = (fs, Ok (s', uhdr))
    /\ RepH fs s' p (outer header) (outer []) l /\ s_cb s' = cb
    /\ of_name (d_file (s_data s')) = name ++ ext_data /\ of_name (ix_file (d_index (s_data s'))) = name ++ ext_index.
Proof. exact reopen_ok. Qed.
Print Assumptions C04_reopen.

Theorem C04_tail_clean_p4 : forall p l, 4 <= p -> wf_series p l -> l <> [] -> tail_clean p (encode p l).
Proof. exact tail_clean_p4. Qed.
Print Assumptions C04_tail_clean_p4.

Theorem C04_last_meta_short : forall p l, wf_series p l -> (len (encode p l) <= meta_window p)%N ->
  last_meta_timestamp p (encode p l) = Ok (full_after p None l).
Proof. exact last_meta_short. Qed.
Print Assumptions C04_last_meta_short.

(* the same with the header the library itself wrote: condition (a) is gone *)
Theorem C04_reopen_own : forall p fs s uhdr name popt hdropt cb l,
  let header := params_to_text BSgen.Consts.version (N.of_nat p) ++ uhdr in
  RepH fs s p (outer header) (outer []) l ->
  of_name (d_file (s_data s)) = name ++ ext_data -> of_name (ix_file (d_index (s_data s))) = name ++ ext_index ->
  (len header <= 65535)%N -> (len (encode p l) < 2^64)%N -> (N.of_nat p < 2^64)%N ->
  (popt = None \/ popt = Some (N.of_nat p)) ->
  (l = [] \/ tail_clean p (encode p l)) ->
  last_meta_timestamp p (encode p l) = Ok (full_after p None l) ->
  match hdropt with HdrIs e => e = uhdr | HdrAny => True end ->
  exists s', builder_open name popt hdropt [] cb fs = (fs, Ok (s', uhdr))
    /\ RepH fs s' p (outer header) (outer []) l /\ s_cb s' = cb
    /\ of_name (d_file (s_data s')) = name ++ ext_data /\ of_name (ix_file (d_index (s_data s'))) = name ++ ext_index.
Proof. exact reopen_own. Qed.
Print Assumptions C04_reopen_own.

(* FULL STATEMENT for payload sizes of 4 bytes and more: any list of lines, any length, any timestamps, any user header:
   close / reopen is the identity on the abstract state and on every file *)
Theorem C04_reopen_p4 : forall p fs s uhdr name popt hdropt cb l, 4 <= p ->
  let header := params_to_text BSgen.Consts.version (N.of_nat p) ++ uhdr in
  RepH fs s p (outer header) (outer []) l ->
  of_name (d_file (s_data s)) = name ++ ext_data -> of_name (ix_file (d_index (s_data s))) = name ++ ext_index ->
  (len header <= 65535)%N -> (len (encode p l) < 2^64)%N -> (N.of_nat p < 2^64)%N ->
  (popt = None \/ popt = Some (N.of_nat p)) ->
  match hdropt with HdrIs e => e = uhdr | HdrAny => True end ->
  exists s', builder_open name popt hdropt [] cb fs = (fs, Ok (s', uhdr))
    /\ RepH fs s' p (outer header) (outer []) l /\ s_cb s' = cb
    /\ of_name (d_file (s_data s')) = name ++ ext_data /\ of_name (ix_file (d_index (s_data s'))) = name ++ ext_index.
Proof. exact reopen_p4. Qed.
Print Assumptions C04_reopen_p4.

(* payload sizes 0..3: the same under the two conditions on 0xFFFF words in section headers *)
Theorem C04_reopen_small_payload : forall p fs s uhdr name popt hdropt cb l,
  let header := params_to_text BSgen.Consts.version (N.of_nat p) ++ uhdr in
  RepH fs s p (outer header) (outer []) l ->
  of_name (d_file (s_data s)) = name ++ ext_data -> of_name (ix_file (d_index (s_data s))) = name ++ ext_index ->
  (len header <= 65535)%N -> (len (encode p l) < 2^64)%N -> (N.of_nat p < 2^64)%N ->
  (popt = None \/ popt = Some (N.of_nat p)) ->
  (l = [] \/ tail_clean p (encode p l)) ->
  Forall (nm_sec p) (secs_of l) ->
  match hdropt with HdrIs e => e = uhdr | HdrAny => True end ->
  exists s', builder_open name popt hdropt [] cb fs = (fs, Ok (s', uhdr))
    /\ RepH fs s' p (outer header) (outer []) l /\ s_cb s' = cb
    /\ of_name (d_file (s_data s')) = name ++ ext_data /\ of_name (ix_file (d_index (s_data s'))) = name ++ ext_index.
Proof. exact reopen_nm. Qed.
Print Assumptions C04_reopen_small_payload.

(* every payload size under the single condition nm_sec (the tail condition follows from it: C04_tail_clean_nm) *)
Theorem C04_reopen_any_payload : forall p fs s uhdr name popt hdropt cb l,
  let header := params_to_text BSgen.Consts.version (N.of_nat p) ++ uhdr in
  RepH fs s p (outer header) (outer []) l ->
  of_name (d_file (s_data s)) = name ++ ext_data -> of_name (ix_file (d_index (s_data s))) = name ++ ext_index ->
  (len header <= 65535)%N -> (len (encode p l) < 2^64)%N -> (N.of_nat p < 2^64)%N ->
  (popt = None \/ popt = Some (N.of_nat p)) ->
  Forall (nm_sec p) (secs_of l) ->
  match hdropt with HdrIs e => e = uhdr | HdrAny => True end ->
  exists s', builder_open name popt hdropt [] cb fs = (fs, Ok (s', uhdr))
    /\ RepH fs s' p (outer header) (outer []) l /\ s_cb s' = cb
    /\ of_name (d_file (s_data s')) = name ++ ext_data /\ of_name (ix_file (d_index (s_data s'))) = name ++ ext_index.
Proof. exact reopen_all_payloads. Qed.
Print Assumptions C04_reopen_any_payload.

Theorem C04_tail_clean_nm : forall p l, wf_series p l -> l <> [] -> Forall (nm_sec p) (secs_of l) -> tail_clean p (encode p l).
Proof. exact tail_clean_nm. Qed.
Print Assumptions C04_tail_clean_nm.

(* the backwards window search finds the last full timestamp, whatever the length of the file *)
Theorem C04_last_meta : forall p l, wf_series p l -> Forall (nm_sec p) (secs_of l) ->
  last_meta_timestamp p (encode p l) = Ok (full_after p None l).
Proof. exact last_meta_ok. Qed.
Print Assumptions C04_last_meta.

(* the data-file half alone: Data::open_existing on a cleanly written pair of files *)
Theorem C04_data_open : forall p fs name header cb l,
  wf_series p l -> (len header <= 65535)%N -> (len (encode p l) < 2^64)%N ->
  fs_get fs (name ++ ext_data) = Some (outer header ++ encode p l) ->
  fs_get fs (name ++ ext_index) = Some (outer [] ++ enc_index (sections p (encode p l))) ->
  (l = [] \/ tail_clean p (encode p l)) ->
  last_meta_timestamp p (encode p l) = Ok (full_after p None l) ->
  exists d, data_open name {| of_name := name ++ ext_data; of_off := len (outer header) |} p cb fs = (fs, Ok d)
    /\ RepD fs d p (outer header) (outer []) (encode p l) (full_after p None l) (option_map fst (last_opt l))
    /\ of_name (d_file d) = name ++ ext_data /\ of_name (ix_file (d_index d)) = name ++ ext_index.
Proof. exact data_open_ok. Qed.
Print Assumptions C04_data_open.

(* the statement without condition (b) is false of the model and of the library: the known finding D6.
   Witness (replayed on the library by corpus/C04/d6_marker_tail.bs): payload size 0, one line at 65535. *)
Theorem C04_open_intact_refuted :
  wf_series 0 [(65535%N, [])] /\ ~ tail_clean 0 (encode 0 [(65535%N, [])])
  /\ snd (World.run World.init_world d6_ops) = [ROpened 0 []; RUnit; RUnit; ROPanic].
Proof. exact d6_refuted. Qed.
Print Assumptions C04_open_intact_refuted.

(* (I refines S, at the level of the public API, across reopenings) every history - create a series in an empty directory, then
   any sequence of session operations (appends accepted or refused, full / bounded / first-n / resampling reads, counts,
   accessors, with any arguments), clean close-and-reopen steps (with or without the payload size and the header demanded) and
   crashes followed by an open (props/C05.v),
   the reopens falling where C04 is proved: any lines for payload sizes >= 4, the marker-word condition nm_sec for 0..3 - run
   on the model of the library is ACCEPTED BY THE JUDGE at every step: every answer is in the allowed set, the files of the
   model are byte for byte the files the judge expects (so no open alters a file), and the judge stays determined *)
Theorem C04_history_accepted_by_judge : forall (name:list byte) (p:nat) (hdr:list byte),
  (len (params_to_text BSgen.Consts.version (N.of_nat p) ++ hdr) <= 65535)%N -> (N.of_nat p < 2^64)%N ->
  forall cb hs, JudgeFacts.hvalid name p hdr [] hs ->
  accepted World.init_world judge_init (ONew name (N.of_nat p) hdr [] cb :: JudgeFacts.flatten name hs).
Proof. exact history_accepted. Qed.
Print Assumptions C04_history_accepted_by_judge.
