(* C09 - Caches across reopen and damage
   Property theorems only: statements, `exact <lemma>`, Print Assumptions, Check pins.
   Layers: F = documented format (Format.v), S = abstract spec (Spec/SpecStep), I = model of the Rust (World.step'). *)
From Coq Require Import List NArith Bool Arith Sorted.
From Coq Require Import Strings.Byte.
Require Import BS.Bytes BS.Common BS.Api BS.Layout BS.Format BS.FormatFacts BS.Spec BS.SpecStep BS.Sections BS.ExtractFacts.
Require Import BS.FS BS.FSFacts BS.Meta BS.MetaFacts BS.Header BS.Reader BS.ReaderFacts BS.Index BS.Data BS.DataFacts BS.Seek BS.Series BS.SeriesFacts BS.ReadAllFacts BS.TotalFacts BS.OpenFacts BS.CacheFacts BS.CacheOpenFacts BS.TornGenFacts BS.CacheCreateFacts BS.HistoryFacts.
Require Import BS.World BS.Known BS.Judge BS.JudgeFacts BS.JudgeCacheFacts.
Require Import BS.Common BS.Api BS.Index BS.Data BS.Seek BS.SeekGenFacts.
Require BSgen.SeekGen.
Import ListNotations.



(* (I) The aligned case, payload sizes >= 4: a series with any cache levels whose handle satisfied the invariant RepS (props/C08.v)
   and whose number of lines is a multiple of every bucket size is reopened with the same configuration: the open succeeds,
   the new handle satisfies RepS for the SAME lines and levels, and the file system is left exactly as it is (the result state
   is `fs` itself): intact caches stay byte-identical, nothing is re-appended. Further appends then keep every level equal to
   the cache of one uninterrupted session (C08_append). *)
Theorem C09_reopen_aligned : forall p, 4 <= p -> forall fs s uhdr name popt hdropt cb l (Bs:list N),
  let header := params_to_text BSgen.Consts.version (N.of_nat p) ++ uhdr in
  RepS fs s p (outer header) (outer []) l (map (open_spec name) Bs) ->
  of_name (d_file (s_data s)) = name ++ ext_data -> of_name (ix_file (d_index (s_data s))) = name ++ ext_index ->
  map cache_files (s_down s) = map (cache_names name) Bs ->
  (len header <= 65535)%N -> (len (encode p l) < 2^64)%N -> (N.of_nat p < 2^64)%N ->
  (popt = None \/ popt = Some (N.of_nat p)) ->
  match hdropt with HdrIs e => e = uhdr | HdrAny => True end ->
  Forall (fun B => (1 <= B)%N /\ (exists k, length l = k * N.to_nat B)
                   /\ (len (config_header name B) <= 65535)%N /\ (len (encode p (cache_of p (N.to_nat B) l)) < 2^64)%N) Bs ->
  exists s', builder_open name popt hdropt Bs cb fs = (fs, Ok (s', uhdr))
    /\ RepS fs s' p (outer header) (outer []) l (map (open_spec name) Bs) /\ s_cb s' = cb.
Proof. exact reopen_caches_aligned. Qed.
Print Assumptions C09_reopen_aligned.

(* every payload size, under the single marker-word condition of C04 (nm_sec: no continuation slot of a section header of the
   source or of a cache level looks like a marker line - vacuous for payload sizes >= 4, and the condition under which the
   library itself can tell an intact tail from a torn one, known finding D6 otherwise) *)
Theorem C09_reopen_aligned_any_payload : forall p fs s uhdr name popt hdropt cb l (Bs:list N),
  let header := params_to_text BSgen.Consts.version (N.of_nat p) ++ uhdr in
  RepS fs s p (outer header) (outer []) l (map (open_spec name) Bs) ->
  of_name (d_file (s_data s)) = name ++ ext_data -> of_name (ix_file (d_index (s_data s))) = name ++ ext_index ->
  map cache_files (s_down s) = map (cache_names name) Bs ->
  Forall (nm_sec p) (secs_of l) ->
  (len header <= 65535)%N -> (len (encode p l) < 2^64)%N -> (N.of_nat p < 2^64)%N ->
  (popt = None \/ popt = Some (N.of_nat p)) ->
  match hdropt with HdrIs e => e = uhdr | HdrAny => True end ->
  Forall (fun B => (1 <= B)%N /\ (exists k, length l = k * N.to_nat B) /\ Forall (nm_sec p) (secs_of (cache_of p (N.to_nat B) l))
                   /\ (len (config_header name B) <= 65535)%N /\ (len (encode p (cache_of p (N.to_nat B) l)) < 2^64)%N) Bs ->
  exists s', builder_open name popt hdropt Bs cb fs = (fs, Ok (s', uhdr))
    /\ RepS fs s' p (outer header) (outer []) l (map (open_spec name) Bs) /\ s_cb s' = cb
    /\ of_name (d_file (s_data s')) = name ++ ext_data /\ of_name (ix_file (d_index (s_data s'))) = name ++ ext_index
    /\ map cache_files (s_down s') = map (cache_names name) Bs.
Proof. exact reopen_caches_aligned_nm. Qed.
Print Assumptions C09_reopen_aligned_any_payload.

(* EVERY HISTORY of a series with cache levels made of appends (accepted or refused), resampling reads and close-and-reopen
   steps with the same levels at aligned line counts (HistoryFacts.cop / cexec / cspec / cvalid): every step succeeds in the
   model and the series stays in the invariant RepS for exactly the lines Layer S expects - every cache file is, at every
   moment, the cache of one uninterrupted session over those lines (C08_files) *)
Theorem C09_every_aligned_history : forall p name uhdr Bs,
  (len (params_to_text BSgen.Consts.version (N.of_nat p) ++ uhdr) <= 65535)%N -> (N.of_nat p < 2^64)%N ->
  StronglySorted le (map fst (map (open_spec name) Bs)) ->
  forall ops st l, cinv p name uhdr Bs st l -> cvalid_all p name uhdr Bs l ops ->
  exists st', crun name Bs st ops = Some st' /\ cinv p name uhdr Bs st' (fold_left (cspec p) ops l).
Proof. exact history_caches_ok. Qed.
Print Assumptions C09_every_aligned_history.

Theorem C09_every_aligned_history_from_create : forall p name uhdr Bs,
  (len (params_to_text BSgen.Consts.version (N.of_nat p) ++ uhdr) <= 65535)%N -> (N.of_nat p < 2^64)%N ->
  StronglySorted le (map fst (map (open_spec name) Bs)) ->
  forall fs cb0 ops,
  fs_mem fs (name ++ ext_data) = false -> fs_mem fs (name ++ ext_index) = false ->
  Forall (fun B => (1 <= B)%N /\ (len (config_header name B) <= 65535)%N
                   /\ fs_mem fs (cache_name name B ++ ext_data) = false /\ fs_mem fs (cache_name name B ++ ext_index) = false) Bs ->
  NoDup ([name ++ ext_data; name ++ ext_index] ++ flat_map (cache_names name) Bs) ->
  cvalid_all p name uhdr Bs [] ops ->
  exists fs0 s0 st', series_new name (N.of_nat p) uhdr Bs cb0 fs = (fs0, Ok s0)
    /\ crun name Bs (fs0, s0) ops = Some st' /\ cinv p name uhdr Bs st' (fold_left (cspec p) ops []).
Proof. exact history_caches_from_create. Qed.
Print Assumptions C09_every_aligned_history_from_create.

(* the repair pass of one level (repair::add_missing_data) adds nothing when the level holds whole buckets of all lines:
   what lies after the mean of the last bucket is less than a bucket *)
Theorem C09_repair_adds_nothing : forall p B, B > 0 -> forall fs (src down:data) cb hdr ihdr (l:list (N * list byte)) k,
  wf_series p l -> length l = k * B ->
  RepD fs src p hdr ihdr (encode p l) (full_after p None l) (option_map fst (last_opt l)) ->
  d_last down = option_map fst (last_opt (cache_of p B l)) ->
  add_missing_data src down (N.of_nat B) cb fs = (fs, Ok down).
Proof. exact add_missing_aligned. Qed.
Print Assumptions C09_repair_adds_nothing.

(* (I refines S) "a cache that is missing is brought back to exactly that state on open; intact caches stay byte-identical":
   open of an intact series with cache levels that are, in ANY mix, present and aligned (level_on_disk: the files hold the bucket
   means of the source, whole buckets only) or missing (level_missing: neither file exists): afterwards the invariant RepS
   holds for the same lines with every level - a missing level was re-created by one pass over the source and is exactly the
   cache an uninterrupted session would hold (means of all complete buckets on disk, the open bucket in the accumulator); every
   file that existed before is untouched, byte for byte; only the missing levels' files appear. Every payload size under nm_sec. *)
Theorem C09_missing_levels_recreated : forall p fs name uhdr popt hdropt cb l (Bs:list N),
  let header := params_to_text BSgen.Consts.version (N.of_nat p) ++ uhdr in
  wf_series p l -> Forall (nm_sec p) (secs_of l) ->
  (len header <= 65535)%N -> (len (encode p l) < 2^64)%N -> (N.of_nat p < 2^64)%N ->
  fs_get fs (name ++ ext_data) = Some (outer header ++ encode p l) ->
  fs_get fs (name ++ ext_index) = Some (outer [] ++ enc_index (sections p (encode p l))) ->
  (popt = None \/ popt = Some (N.of_nat p)) ->
  match hdropt with HdrIs e => e = uhdr | HdrAny => True end ->
  Forall (fun B => level_on_disk p fs name l B \/ level_missing fs name B) Bs ->
  NoDup ([name ++ ext_data; name ++ ext_index] ++ flat_map (cache_names name) Bs) ->
  exists fs' s, builder_open name popt hdropt Bs cb fs = (fs', Ok (s, uhdr))
    /\ RepS fs' s p (outer header) (outer []) l (map (open_spec name) Bs) /\ s_cb s = cb
    /\ of_name (d_file (s_data s)) = name ++ ext_data /\ of_name (ix_file (d_index (s_data s))) = name ++ ext_index
    /\ map cache_files (s_down s) = map (cache_names name) Bs
    /\ (forall g, fs_mem fs g = true \/ ~ In g (flat_map (cache_names name) Bs) -> fs_get fs' g = fs_get fs g)
    /\ Forall2 (fun ds B =>
         fs_get fs' (cache_name name B ++ ext_data) = Some (outer (config_header name B) ++ encode p (cache_of p (N.to_nat B) l))
         /\ fs_get fs' (cache_name name B ++ ext_index)
            = Some (outer [] ++ enc_index (sections p (encode p (cache_of p (N.to_nat B) l))))) (s_down s) Bs.
Proof. exact builder_open_mixed. Qed.
Print Assumptions C09_missing_levels_recreated.
(* (I refines S, at the level of the public API, across reopen) EVERY HISTORY of a series created with any cache levels -
   appends accepted or refused, all reads, resampling reads through the levels, counts, accessors, and clean close-and-reopen
   steps with the same levels at line counts that are multiples of every bucket size (reopen_valid_caches; the marker-word
   condition on the series and on every level for payload sizes 0..3), and reopen steps before which BOTH FILES OF ANY OF THE
   LEVELS WERE REMOVED (CHLost / reopen_valid_lost: the lost levels are re-created from the source at ANY line count - complete
   buckets on disk, the open bucket carried in memory; only the levels that stayed must be aligned) - run on the model of the
   library is ACCEPTED BY THE JUDGE
   at every step, and after every step (the closed states in between included) the files of the model - the data and index file
   of the series and of EVERY level - are byte for byte the files the judge expects: "intact caches stay byte-identical" across
   any number of reopen cycles, and every level stays the bucket means of the lines of the source *)
Theorem C09_history_with_caches_accepted_by_judge : forall (name:list byte) (p:nat) (hdr:list byte) (Bs:list N),
  (len (params_to_text BSgen.Consts.version (N.of_nat p) ++ hdr) <= 65535)%N -> (N.of_nat p < 2^64)%N ->
  Forall (fun B => (1 <= B)%N /\ (len (config_header name B) <= 65535)%N) Bs ->
  NoDup ([name ++ ext_data; name ++ ext_index] ++ flat_map (cache_names name) Bs) ->
  StronglySorted le (map fst (map (open_spec name) Bs)) ->
  forall cb hs, chvalid p hdr Bs [] hs ->
  accepted World.init_world judge_init (ONew name (N.of_nat p) hdr Bs cb :: cflatten name Bs hs).
Proof. exact history_accepted_caches. Qed.
Print Assumptions C09_history_with_caches_accepted_by_judge.
Check history_caches_example.

(* partial: reopen at a line count that is not a multiple of a bucket size, and every damaged state of the caches, are outside
   these theorems: there the library deviates (known finding D10: the repair resumes after the MEAN timestamp of the last bucket
   and the open bucket is reset) and the judge reports it as KNOWN-FINDING. Payload sizes 0..3 with 0xFFFF continuation words: D6. *)

(* the bound arithmetic and the 65534 comparison of the seek, as the current source text makes them (translated on every run by
   tools/translate_seek.py into gen/SeekGen.v), are the model's: the reads and the repair this property speaks of go through them *)
Theorem C09_source_start_bound_is_model : forall d b first last, data_range d = Ok (Some (first, last)) ->
  checked_start_time d b = BSgen.SeekGen.gen_checked_start first last b.
Proof. exact gen_checked_start_is_model. Qed.
Print Assumptions C09_source_start_bound_is_model.
Theorem C09_source_end_bound_is_model : forall d b first last, data_range d = Ok (Some (first, last)) ->
  checked_end_time d b = BSgen.SeekGen.gen_checked_end first last b.
Proof. exact gen_checked_end_is_model. Qed.
Print Assumptions C09_source_end_bound_is_model.
Theorem C09_source_in_gap_is_model : forall val gs, in_gap val gs = BSgen.SeekGen.gen_in_gap val gs.
Proof. exact gen_in_gap_is_model. Qed.
Print Assumptions C09_source_in_gap_is_model.
