(* C12 - Length, emptiness, time range and last line agree with the contents
   Property theorems only: statements, `exact <lemma>`, Print Assumptions, Check pins.
   Layers: F = documented format (Format.v), S = abstract spec (Spec/SpecStep), I = model of the Rust (World.step'). *)
From Coq Require Import List NArith Bool Arith Sorted.
From Coq Require Import Strings.Byte.
Require Import BS.Bytes BS.Common BS.Api BS.Layout BS.Format BS.FormatFacts BS.Spec BS.SpecStep.
Require Import BS.FS BS.FSFacts BS.Meta BS.MetaFacts BS.Header BS.Reader BS.ReaderFacts BS.Index BS.Data BS.DataFacts BS.Seek BS.Series BS.SeriesFacts BS.TotalFacts BS.OpenFacts BS.HistoryFacts.
Require Import BS.World BS.Judge BS.JudgeFacts.
Require Import BS.CacheFacts BS.JudgeCacheFacts.
Import ListNotations.

(* (I) under the representation invariant the accessors report the contents *)
Theorem C12_len : forall fs s p hdr ihdr l, RepH fs s p hdr ihdr l -> data_len_lines (s_data s) = Ok (len l).
Proof. exact len_ok. Qed.
Print Assumptions C12_len.
Theorem C12_range : forall fs s p hdr ihdr l, RepH fs s p hdr ihdr l -> s_range s = first_last l.
Proof. exact range_ok. Qed.
Print Assumptions C12_range.
Theorem C12_payload_size : forall fs s p hdr ihdr l, RepH fs s p hdr ihdr l -> d_p (s_data s) = p.
Proof. exact payload_size_ok. Qed.
Print Assumptions C12_payload_size.
(* the invariant is preserved by appends (props/C03.v). partial: last_line, and re-establishing the
   invariant on open / repair / rebuild (C04-C06), are not proved yet. *)

(* (I refines S) last_line is the last appended line; NoData for an empty series *)
Theorem C12_last_line : forall fs sr p hdr ihdr l, RepH fs sr p hdr ihdr l ->
  series_last_line sr fs = (fs, match last_opt l with Some x => Ok x | None => Err ENoData end).
Proof. exact BS.TotalFacts.last_line_ok. Qed.
Print Assumptions C12_last_line.

(* (I refines S) over EVERY history (appends, reads, reopens, crashes + recovery: props/C05.v) the accessors report exactly
   the lines Layer S expects *)
Theorem C12_every_history : forall p name uhdr,
  (len (params_to_text BSgen.Consts.version (N.of_nat p) ++ uhdr) <= 65535)%N -> (N.of_nat p < 2^64)%N ->
  forall fs cb0 ops,
  fs_mem fs (name ++ ext_data) = false -> fs_mem fs (name ++ ext_index) = false -> hvalid_all p name uhdr [] ops ->
  exists fs0 s0 st', series_new name (N.of_nat p) uhdr [] cb0 fs = (fs0, Ok s0)
    /\ hrun name (fs0, s0) ops = Some st'
    /\ let l := fold_left (hspec p) ops [] in
       data_len_lines (s_data (snd st')) = Ok (len l)
       /\ s_range (snd st') = first_last l
       /\ d_p (s_data (snd st')) = p
       /\ series_last_line (snd st') (fst st') = (fst st', match last_opt l with Some x => Ok x | None => Err ENoData end).
Proof. exact history_accessors. Qed.
Print Assumptions C12_every_history.

(* (I refines S, at the level of the public API) every session - create a series in an empty directory, then ANY sequence of
   appends (accepted or refused), full and bounded reads, first-n reads, line counts and accessor calls, with any arguments
   the types allow - run on the model of the library is ACCEPTED BY THE JUDGE, the extracted specification that decides
   whether an observed behaviour satisfies the properties: every answer of the model is in the set the judge allows, after
   every step the files of the model are byte for byte the files the judge expects, and the judge stays determined. On this
   fragment a judge failure on the implementation is therefore a deviation of the code from its model. *)
Theorem C12_session_accepted_by_judge : forall (name:list byte) (p:nat) (hdr:list byte),
  (len (params_to_text BSgen.Consts.version (N.of_nat p) ++ hdr) <= 65535)%N ->
  forall cb ops, Forall sess_op ops ->
  accepted World.init_world judge_init (ONew name (N.of_nat p) hdr [] cb :: ops).
Proof. exact session_accepted. Qed.
Print Assumptions C12_session_accepted_by_judge.

(* the same for a series WITH cache levels (invariant RepS, props/C08.v): these calls never look at the levels, so what holds
   for the series without them holds with them *)
Theorem C12_accessors_with_caches : forall fs s p hdr ihdr l cs, RepS fs s p hdr ihdr l cs ->
  data_len_lines (s_data s) = Ok (len l) /\ s_range s = first_last l /\ d_p (s_data s) = p
  /\ series_last_line s fs = (fs, match last_opt l with Some x => Ok x | None => Err ENoData end).
Proof.
  intros fs s p hdr ihdr l cs R. split; [exact (len_caches _ _ _ _ _ _ _ R)|]. split; [exact (range_caches _ _ _ _ _ _ _ R)|].
  split; [exact (payload_size_caches _ _ _ _ _ _ _ R)|exact (last_line_caches _ _ _ _ _ _ _ R)].
Qed.
Print Assumptions C12_accessors_with_caches.
