(* C15 - Canonical compact encoding: a full timestamp only when the delta cannot fit
   Property theorems only: statements, `exact <lemma>`, Print Assumptions, Check pins.
   Layers: F = documented format (Format.v), S = abstract spec (Spec/SpecStep), I = model of the Rust (World.step'). *)
From Coq Require Import List NArith Bool Arith Sorted.
From Coq Require Import Strings.Byte.
Require Import BS.Bytes BS.Common BS.Api BS.Layout BS.Format BS.FormatFacts.
Import ListNotations.

(* a section is emitted exactly for the first line and when the distance to the last full
   timestamp exceeds 65534; every other line costs p+2 bytes *)
Theorem C15_encode_rule : forall (p:nat) (full:option N) (x:line), length (snd x) = p ->
  match full with
  | Some f => if (fst x - f <=? 65534)%N
              then length (fst (tail_bytes p full x)) = p + 2
              else length (fst (tail_bytes p full x)) = (Layout.K p + 1) * (p + 2)
  | None => length (fst (tail_bytes p full x)) = (Layout.K p + 1) * (p + 2)
  end.
Proof. exact tail_bytes_rule. Qed.
Print Assumptions C15_encode_rule.

(* the data region is a function of the accepted lines, built one append at a time *)
Theorem C15_append : forall (p:nat) (l:list line) (x:line),
  encode p (l ++ [x]) = encode p l ++ fst (tail_bytes p (full_after p None l) x).
Proof. exact encode_snoc. Qed.
Print Assumptions C15_append.
