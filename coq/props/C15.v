(* C15 - Canonical compact encoding: a full timestamp only when the delta cannot fit
   Property theorems only: statements, `exact <lemma>`, Print Assumptions, Check pins.
   Layers: F = documented format (Format.v), S = abstract spec (Spec/SpecStep), I = model of the Rust (World.step'). *)
From Coq Require Import List NArith Bool Arith Sorted.
From Coq Require Import Strings.Byte.
Require Import BS.Bytes BS.Common BS.Api BS.Layout BS.Format BS.FormatFacts BS.Spec BS.SpecStep.
Require Import BS.FS BS.FSFacts BS.Meta BS.MetaFacts BS.Header BS.Reader BS.ReaderFacts BS.Index BS.Data BS.DataFacts BS.Seek BS.Series BS.SeriesFacts BS.OpenFacts BS.HistoryFacts.
Require Import BS.MetaGenFacts.
Require BSgen.MetaLayout.
Require Import BS.World BS.Judge BS.JudgeFacts.
Require Import BS.Common BS.Api BS.Index BS.Data BS.Seek BS.SeekGenFacts.
Require BSgen.SeekGen BSgen.Consts.
Import ListNotations.

(* (F) a section is emitted exactly for the first line and when the distance to the last full
   timestamp exceeds 65534; every other line costs p+2 bytes *)
Theorem C15_encode_rule : forall (p:nat) (full:option N) (x:line), length (snd x) = p ->
  match full with
  | Some f => if (fst x - f <=? 65534)%N
              then length (fst (tail_bytes p full x)) = p + 2
              else length (fst (tail_bytes p full x)) = (Layout.K p + 1) * (p + 2)
  | None => length (fst (tail_bytes p full x)) = (Layout.K p + 1) * (p + 2)
  end.
Proof. exact tail_bytes_rule. Qed.
Print Assumptions C15_encode_rule.

(* (F) the data region is a function of the accepted lines, built one append at a time *)
Theorem C15_append : forall (p:nat) (l:list line) (x:line),
  encode p (l ++ [x]) = encode p l ++ fst (tail_bytes p (full_after p None l) x).
Proof. exact encode_snoc. Qed.
Print Assumptions C15_append.

(* (I) Data::push_data appends exactly those bytes (meta::write = the documented section for every
   payload size), keeps the index equal to the sections of the data, touches nothing else *)
Theorem C15_push_data_writes_reference_bytes : forall fs d p hdr ihdr region full last ts pay,
  RepD fs d p hdr ihdr region full last -> line_ok p full (ts, pay) ->
  let tb := tail_bytes p full (ts, pay) in
  exists fs' d',
    push_data d ts pay fs = (fs', Ok d')
    /\ RepD fs' d' p hdr ihdr (region ++ fst tb) (snd tb) (Some ts)
    /\ (forall g, g <> of_name (d_file d) -> g <> of_name (ix_file (d_index d)) -> fs_get fs' g = fs_get fs g)
    /\ of_name (d_file d') = of_name (d_file d) /\ of_name (ix_file (d_index d')) = of_name (ix_file (d_index d)).
Proof. exact push_data_ok. Qed.
Print Assumptions C15_push_data_writes_reference_bytes.

Theorem C15_meta_write_is_documented_section : forall p t, meta_write p (le_enc 8 t) = enc_section p t.
Proof. exact meta_write_is_section. Qed.
Print Assumptions C15_meta_write_is_documented_section.
(* (I refines S) independence from interleaved reopens and repairs: over EVERY history (props/C05.v) the data file is the
   preamble followed by the reference encoding of the lines Layer S expects - every append, also one that follows a reopen or
   the recovery from a crash, was encoded against the right full timestamp under the 65534 rule *)
Theorem C15_every_history : forall p name uhdr,
  (len (params_to_text BSgen.Consts.version (N.of_nat p) ++ uhdr) <= 65535)%N -> (N.of_nat p < 2^64)%N ->
  forall fs cb0 ops,
  fs_mem fs (name ++ ext_data) = false -> fs_mem fs (name ++ ext_index) = false -> hvalid_all p name uhdr [] ops ->
  exists fs0 s0 st', series_new name (N.of_nat p) uhdr [] cb0 fs = (fs0, Ok s0)
    /\ hrun name (fs0, s0) ops = Some st'
    /\ let l := fold_left (hspec p) ops [] in
       fs_get (fst st') (name ++ ext_data) = Some (outer (params_to_text BSgen.Consts.version (N.of_nat p) ++ uhdr) ++ encode p l)
       /\ fs_get (fst st') (name ++ ext_index) = Some (outer [] ++ enc_index (sections p (encode p l))).
Proof. exact history_files. Qed.
Print Assumptions C15_every_history.

(* Tie 1 for the layouts: gen/MetaLayout.v is translated on every run from meta::write / meta::read in /repo/src
   (tools/translate_meta.py); what the source writes for a full timestamp is the documented section, and what it reads back
   from lines of the right size is the documented timestamp - re-checked against the current source text on every run *)
Theorem C15_source_section_is_documented : forall p t,
  BSgen.MetaLayout.gen_write p (le_enc 8 t) = enc_section p t
  /\ (forall a b got, length a = p + 2 -> length b = p + 2 -> Forall (fun s => length s = p + 2) got -> length got = Meta.ncont p ->
       le_dec (BSgen.MetaLayout.gen_read_bytes p a b got) = Layout.read_ts p a b got)
  /\ BSgen.MetaLayout.gen_consumed p = seq 0 (Meta.ncont p) /\ BSgen.MetaLayout.gen_write_lines p = Layout.K p.
Proof.
  intros p t. split; [exact (source_write_is_documented p t)|]. split; [exact (source_read_is_documented p)|].
  split; [exact (gen_consumed_is_model p)|exact (gen_write_lines_is_K p)].
Qed.
Print Assumptions C15_source_section_is_documented.

(* (I refines S, at the level of the public API) every session - create a series in an empty directory, then ANY sequence of
   appends (accepted or refused), full and bounded reads, first-n reads, line counts and accessor calls, with any arguments
   the types allow - run on the model of the library is ACCEPTED BY THE JUDGE, the extracted specification that decides
   whether an observed behaviour satisfies the properties: every answer of the model is in the set the judge allows, after
   every step the files of the model are byte for byte the files the judge expects, and the judge stays determined. On this
   fragment a judge failure on the implementation is therefore a deviation of the code from its model. *)
Theorem C15_session_accepted_by_judge : forall (name:list byte) (p:nat) (hdr:list byte),
  (len (params_to_text BSgen.Consts.version (N.of_nat p) ++ hdr) <= 65535)%N ->
  forall cb ops, Forall sess_op ops ->
  accepted World.init_world judge_init (ONew name (N.of_nat p) hdr [] cb :: ops).
Proof. exact session_accepted. Qed.
Print Assumptions C15_session_accepted_by_judge.

(* (source = model = documented rule, re-checked against the current text of src/series/data.rs on every run) the test by
   which Data::push_data decides between a 16 bit delta and a new full timestamp, as tools/translate_seek.py translated it this
   time (gen/SeekGen.v gen_starts_section), is the model's test and IS THE 65534 RULE: a new section exactly when the line lies
   more than 65534 behind the last full timestamp *)
Theorem C15_source_section_rule_is_model : forall diff, BSgen.SeekGen.gen_starts_section diff = (BSgen.Consts.max_small_ts <? diff)%N.
Proof. exact gen_starts_section_is_model. Qed.
Print Assumptions C15_source_section_rule_is_model.
Theorem C15_source_section_rule : forall diff, BSgen.SeekGen.gen_starts_section diff = true <-> (65534 < diff)%N.
Proof. exact gen_starts_section_spec. Qed.
Print Assumptions C15_source_section_rule.
