(* C19 - Every public call returns a value or an error for every admissible argument
   Property theorems only: statements, `exact <lemma>`, Print Assumptions, Check pins.
   Layers: F = documented format (Format.v), S = abstract spec (Spec/SpecStep), I = model of the Rust (World.step'). *)
From Coq Require Import List NArith Bool Arith Sorted.
From Coq Require Import Strings.Byte.
Require Import BS.Bytes BS.Common BS.Api BS.Layout BS.Format BS.FormatFacts BS.Spec BS.SpecStep.
Require Import BS.FS BS.FSFacts BS.Meta BS.MetaFacts BS.Header BS.Reader BS.ReaderFacts BS.Index BS.Data BS.DataFacts BS.Seek BS.Series BS.SeriesFacts BS.ReadAllFacts BS.TotalFacts BS.CacheFacts BS.LevelFacts.
Require Import BS.EstimateGenFacts.
Require BSgen.EstimateGen.
Import ListNotations.


(* (I) `returns r`: the call came back with a value or an error: the model's Panic (a Rust panic: failed
   assertion, arithmetic overflow in debug or release, slice index out of range, unwrap of None/Err, division by
   zero) and OutOfFuel (a loop that does not end within its bound) are excluded.
   For a series that satisfies the representation invariant (established by create, kept by appends: C17_create,
   C03), holding ANY well-formed list of lines, with ANY payload size, and for ALL arguments: *)
Theorem C19_read_all : forall fs sr p hdr ihdr l, RepH fs sr p hdr ihdr l -> forall lo hi, returns (read_all sr lo hi fs).
Proof. exact read_all_returns. Qed.
Print Assumptions C19_read_all.
Theorem C19_read_first_n : forall fs sr p hdr ihdr l, RepH fs sr p hdr ihdr l -> forall n lo hi, returns (read_first_n sr n lo hi fs).
Proof. exact read_first_n_returns. Qed.
Print Assumptions C19_read_first_n.
Theorem C19_n_lines : forall fs sr p hdr ihdr l, RepH fs sr p hdr ihdr l -> forall lo hi, returns (n_lines_between sr lo hi fs).
Proof. exact n_lines_returns. Qed.
Print Assumptions C19_n_lines.
(* includes n = 0 (after the fix: no division by zero) and huge n *)
Theorem C19_read_n : forall fs sr p hdr ihdr l, RepH fs sr p hdr ihdr l -> forall n lo hi, returns (read_n sr n lo hi fs).
Proof. exact read_n_returns. Qed.
Print Assumptions C19_read_n.
Theorem C19_last_line : forall fs sr p hdr ihdr l, RepH fs sr p hdr ihdr l -> returns (series_last_line sr fs).
Proof. exact last_line_returns. Qed.
Print Assumptions C19_last_line.
(* every u64 timestamp, every payload (a wrong payload length is refused with an error) *)
Theorem C19_push : forall fs sr p hdr ihdr l, RepH fs sr p hdr ihdr l -> forall ts pay, (ts < 2^64)%N -> returns (push_line sr ts pay fs).
Proof. exact push_returns. Qed.
Print Assumptions C19_push.
Theorem C19_len : forall fs sr p hdr ihdr l, RepH fs sr p hdr ihdr l -> exists k, data_len_lines (s_data sr) = Ok k.
Proof. exact len_returns. Qed.
Print Assumptions C19_len.
(* series WITH cache levels (invariant RepS, props/C08.v; bucket sizes configured in ascending order): read_n for every n
   (0 included) and every pair of bounds - the level loop's unreachable!() arm is never reached (props/C11.v) *)
Theorem C19_read_n_with_caches : forall p fs s hdr ihdr l cs n lo hi,
  RepS fs s p hdr ihdr l cs -> StronglySorted le (map fst cs) -> returns (read_n s n lo hi fs).
Proof. exact read_n_returns_levels. Qed.
Print Assumptions C19_read_n_with_caches.
(* partial: with caches only read_n and the accepted push (props/C08.v) are covered; builder calls other than create
   (open, reopen: props/C04.v, C05.v, C09.v for the states they cover), and the state after a failed call are not
   covered by these theorems; there the judge and the correspondence decide. *)

(* Tie 1 for the line estimate: gen/EstimateGen.v is translated on every run from RoughPos::estimate_lines in
   /repo/src/seek/estimate.rs (tools/translate_estimate.py). The translated sixteen-arm match IS the match of the model
   about which the totality of the level loop is proved, and its only panicking arm is the one the source marks
   unreachable!() - re-checked against the current source text on every run *)
Theorem C19_source_estimate_is_model : forall r p dl,
  estimate_lines r p dl
  = match BSgen.EstimateGen.gen_estimate_bytes (start_area_ r) (end_area_ r) p dl with
    | Ok mm => Ok ((fst mm / line_size p)%N, (snd mm / line_size p)%N)
    | Err e => Err e
    | Panic => Panic
    | OutOfFuel => OutOfFuel
    end.
Proof. exact gen_estimate_is_model. Qed.
Print Assumptions C19_source_estimate_is_model.
Theorem C19_source_estimate_total : forall sa ea p dl,
  (match sa, ea with STillEnd _, EWindow _ _ => False | _, _ => True end) ->
  exists mx mn, BSgen.EstimateGen.gen_estimate_bytes sa ea p dl = Ok (mx, mn).
Proof. exact gen_estimate_total. Qed.
Print Assumptions C19_source_estimate_total.
