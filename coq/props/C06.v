(* C06 - The sidecar index always matches the data file
   Property theorems only: statements, `exact <lemma>`, Print Assumptions, Check pins.
   Layers: F = documented format (Format.v), S = abstract spec (Spec/SpecStep), I = model of the Rust (World.step'). *)
From Coq Require Import List NArith Bool Arith Sorted.
From Coq Require Import Strings.Byte.
Require Import BS.Bytes BS.Common BS.Api BS.Layout BS.Format BS.FormatFacts BS.Spec BS.SpecStep.
Require Import BS.FS BS.FSFacts BS.Meta BS.MetaFacts BS.Header BS.Reader BS.ReaderFacts BS.Index BS.Data BS.DataFacts BS.Seek BS.Series BS.SeriesFacts.
Import ListNotations.

(* (F) the sections of an encoding are exactly the sections the writer opened, at their offsets *)
Theorem C06_sections_of_encoding : forall (p:nat) (l:list line), wf_series p l ->
  sections p (encode p l) = secs_from p None 0 l.
Proof. exact sections_encode. Qed.
Print Assumptions C06_sections_of_encoding.

(* (I) appends keep index file and in-memory entries equal to the sections of the data region
   (RepD fields rd_ix, rd_entries are preserved by push_data) *)
Theorem C06_update_keeps_index : forall fs d p hdr ihdr region full last ts pay,
  RepD fs d p hdr ihdr region full last -> line_ok p full (ts, pay) ->
  let tb := tail_bytes p full (ts, pay) in
  exists fs' d',
    push_data d ts pay fs = (fs', Ok d')
    /\ RepD fs' d' p hdr ihdr (region ++ fst tb) (snd tb) (Some ts)
    /\ (forall g, g <> of_name (d_file d) -> g <> of_name (ix_file (d_index d)) -> fs_get fs' g = fs_get fs g)
    /\ of_name (d_file d') = of_name (d_file d) /\ of_name (ix_file (d_index d')) = of_name (ix_file (d_index d)).
Proof. exact push_data_ok. Qed.
Print Assumptions C06_update_keeps_index.
(* partial: rebuilt index = sections (extract_entries, the chunk-carry argument of C01 applied to
   Index.extract_loop) and the validate-or-rebuild decision on open are not proved yet. *)
