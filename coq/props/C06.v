(* C06 - The sidecar index always matches the data file
   Property theorems only: statements, `exact <lemma>`, Print Assumptions, Check pins.
   Layers: F = documented format (Format.v), S = abstract spec (Spec/SpecStep), I = model of the Rust (World.step'). *)
From Coq Require Import List NArith Bool Arith Sorted.
From Coq Require Import Strings.Byte.
Require Import BS.Bytes BS.Common BS.Api BS.Layout BS.Format BS.FormatFacts.
Import ListNotations.

(* the sections of an encoding are exactly the sections the writer opened, at their offsets *)
Theorem C06_sections_of_encoding : forall (p:nat) (l:list line), wf_series p l ->
  sections p (encode p l) = secs_from p None 0 l.
Proof. exact sections_encode. Qed.
Print Assumptions C06_sections_of_encoding.
