(* C06 - The sidecar index always matches the data file
   Property theorems only: statements, `exact <lemma>`, Print Assumptions, Check pins.
   Layers: F = documented format (Format.v), S = abstract spec (Spec/SpecStep), I = model of the Rust (World.step'). *)
From Coq Require Import List NArith Bool Arith Sorted.
From Coq Require Import Strings.Byte.
Require Import BS.Bytes BS.Common BS.Api BS.Layout BS.Format BS.FormatFacts BS.Spec BS.SpecStep.
Require Import BS.FS BS.FSFacts BS.Meta BS.MetaFacts BS.Header BS.Reader BS.ReaderFacts BS.Index BS.Data BS.DataFacts BS.Seek BS.Series BS.SeriesFacts BS.ExtractFacts BS.OpenFacts BS.HistoryFacts.
Import ListNotations.

(* (F) the sections of an encoding are exactly the sections the writer opened, at their offsets *)
Theorem C06_sections_of_encoding : forall (p:nat) (l:list line), wf_series p l ->
  sections p (encode p l) = secs_from p None 0 l.
Proof. exact sections_encode. Qed.
Print Assumptions C06_sections_of_encoding.

(* (I) appends keep index file and in-memory entries equal to the sections of the data region
   (RepD fields rd_ix, rd_entries are preserved by push_data) *)
Theorem C06_update_keeps_index : forall fs d p hdr ihdr region full last ts pay,
  RepD fs d p hdr ihdr region full last -> line_ok p full (ts, pay) ->
  let tb := tail_bytes p full (ts, pay) in
  exists fs' d',
    push_data d ts pay fs = (fs', Ok d')
    /\ RepD fs' d' p hdr ihdr (region ++ fst tb) (snd tb) (Some ts)
    /\ (forall g, g <> of_name (d_file d) -> g <> of_name (ix_file (d_index d)) -> fs_get fs' g = fs_get fs g)
    /\ of_name (d_file d') = of_name (d_file d) /\ of_name (ix_file (d_index d')) = of_name (ix_file (d_index d)).
Proof. exact push_data_ok. Qed.
Print Assumptions C06_update_keeps_index.
(* partial: rebuilt index = sections (extract_entries, the chunk-carry argument of C01 applied to
   Index.extract_loop) and the validate-or-rebuild decision on open are not proved yet. *)

(* (I refines F) the index rebuild (extract_entries: the chunked scan with its carry of an unfinished section,
   after the fix) finds exactly the sections of the data region, for every well-formed series of any length -
   sections that straddle one or several 16 KiB scan boundaries included *)
Theorem C06_rebuild : forall p l, wf_series p l ->
  extract_entries_inner p (encode p l) 0 (len (encode p l)) = Ok (sections p (encode p l)).
Proof. exact extract_entries_encode. Qed.
Print Assumptions C06_rebuild.
(* the chunked loop is one pass of meta() over the slots, for any bytes and any chunk size that is a multiple of the line size *)
Theorem C06_chunked_scan_is_one_pass : forall p (n chunkn:nat) (region:list byte) (pos to_read g:nat) st acc,
  chunkn > 0 -> chunkn mod (p + 2) = 0 -> to_read mod (p + 2) = 0 -> pos + to_read <= length region ->
  to_read <= n * chunkn ->
  wf_mst p g st -> Forall (fun s => length s = p + 2) (mheld_slots st) ->
  extract_loop n p (N.of_nat chunkn) region (N.of_nat pos) (N.of_nat to_read) (N.of_nat (g * (p + 2)))
               (concat (mheld_slots st)) acc
  = Ok (acc ++ map (to_entry p) (fst (meta_scan p g st [] (chunks (p + 2) (firstn to_read (skipn pos region)))))).
Proof. exact extract_loop_is_scan. Qed.
Print Assumptions C06_chunked_scan_is_one_pass.

(* (I refines S) over EVERY history (appends accepted or refused, reads, close-and-reopen steps, crashes that cut the data file
   at any byte and leave the index absent or cut at any byte, each followed by an open; props/C05.v): after the history the
   index file lists exactly one entry per full-timestamp section of the data file, whatever the index file went through *)
Theorem C06_every_history : forall p name uhdr,
  (len (params_to_text BSgen.Consts.version (N.of_nat p) ++ uhdr) <= 65535)%N -> (N.of_nat p < 2^64)%N ->
  forall fs cb0 ops,
  fs_mem fs (name ++ ext_data) = false -> fs_mem fs (name ++ ext_index) = false -> hvalid_all p name uhdr [] ops ->
  exists fs0 s0 st', series_new name (N.of_nat p) uhdr [] cb0 fs = (fs0, Ok s0)
    /\ hrun name (fs0, s0) ops = Some st'
    /\ let l := fold_left (hspec p) ops [] in
       fs_get (fst st') (name ++ ext_data) = Some (outer (params_to_text BSgen.Consts.version (N.of_nat p) ++ uhdr) ++ encode p l)
       /\ fs_get (fst st') (name ++ ext_index) = Some (outer [] ++ enc_index (sections p (encode p l))).
Proof. exact history_files. Qed.
Print Assumptions C06_every_history.
