(* C14 - Reported line count of a range is consistent with reading it
   Property theorems only: statements, `exact <lemma>`, Print Assumptions, Check pins.
   Layers: F = documented format (Format.v), S = abstract spec (Spec/SpecStep), I = model of the Rust (World.step'). *)
From Coq Require Import List NArith Bool Arith Sorted.
From Coq Require Import Strings.Byte.
Require Import BS.Bytes BS.Common BS.Api BS.Layout BS.Format BS.FormatFacts BS.Spec BS.SpecStep BS.Sections.
Require Import BS.FS BS.FSFacts BS.Meta BS.MetaFacts BS.Header BS.Reader BS.ReaderFacts BS.Index BS.Data BS.DataFacts BS.Seek BS.SeekFacts BS.Series BS.SeriesFacts BS.ReadAllFacts BS.CountFacts.
Require Import BS.World BS.Judge BS.JudgeFacts.
Require Import BS.CacheFacts BS.JudgeCacheFacts.
Require Import BS.Common BS.Api BS.Index BS.Data BS.Seek BS.SeekGenFacts.
Require BSgen.SeekGen.
Import ListNotations.

(* (I) the reported count of a range is 0 / a range error exactly when nothing is selected; otherwise it is
   the number of selected lines plus K slots for every full-timestamp section that starts inside the byte
   range (secs_from: the sections the selected lines open after the governing full timestamp pf) *)
Theorem C14_count : forall fs sr p hdr ihdr l, RepH fs sr p hdr ihdr l -> forall lo hi,
  (exists k, n_lines_between sr lo hi fs = (fs, Ok k)
             /\ match select lo hi l with
                | [] => k = 0%N
                | _ => exists pf, (len (select lo hi l) <= k)%N
                                  /\ k = (len (select lo hi l) + N.of_nat (Layout.K p * length (secs_from p (Some pf) 0 (select lo hi l))))%N
                end)
  \/ (select lo hi l = [] /\ n_lines_between sr lo hi fs = (fs, Err ERange))
  \/ (select lo hi l = [] /\ l = [] /\ n_lines_between sr lo hi fs = (fs, Ok 0%N)).
Proof. exact n_lines_ok. Qed.
Print Assumptions C14_count.
(* (I refines S) the property as stated: whenever the range selects a line, the reported count is at least the number of
   lines a full read returns and exceeds it by at most K slots for every full-timestamp section at or inside the range -
   Layer S's sections_touched (SpecStep.v), the very bound the judge applies to the implementation's answers *)
Theorem C14_within_bound : forall fs sr p hdr ihdr l, RepH fs sr p hdr ihdr l -> forall lo hi k,
  n_lines_between sr lo hi fs = (fs, Ok k) -> select lo hi l <> [] ->
  (len (select lo hi l) <= k)%N
  /\ (k <= len (select lo hi l) + N.of_nat (Layout.K p) * sections_touched p (encode p l) (select lo hi l))%N.
Proof. exact n_lines_within_bound. Qed.
Print Assumptions C14_within_bound.
(* the counting argument behind it holds for ANY full timestamp the seek might settle on: a greedy sectioning of the
   selected lines started from pf <= first line opens at most the sections the real encoding opens there, plus the
   governing one when the first selected line continues a section *)
Theorem C14_any_start : forall p x t pf g, StronglySorted N.lt (map fst (x :: t)) -> (pf <= fst x)%N ->
  (match g with Some g' => (g' <= fst x)%N | None => True end) ->
  cnt p (Some pf) (x :: t) <= cnt p g (x :: t) + (if opens g x then 0 else 1).
Proof. exact cnt_bound. Qed.
Print Assumptions C14_any_start.
(* not proved: series with cache levels answer n_lines_between from the source alone (the model does so by definition);
   damaged files (C18). *)

(* (I refines S, at the level of the public API) every session - create a series in an empty directory, then ANY sequence of
   appends (accepted or refused), full and bounded reads, first-n reads, line counts and accessor calls, with any arguments
   the types allow - run on the model of the library is ACCEPTED BY THE JUDGE, the extracted specification that decides
   whether an observed behaviour satisfies the properties: every answer of the model is in the set the judge allows, after
   every step the files of the model are byte for byte the files the judge expects, and the judge stays determined. On this
   fragment a judge failure on the implementation is therefore a deviation of the code from its model. *)
Theorem C14_session_accepted_by_judge : forall (name:list byte) (p:nat) (hdr:list byte),
  (len (params_to_text BSgen.Consts.version (N.of_nat p) ++ hdr) <= 65535)%N ->
  forall cb ops, Forall sess_op ops ->
  accepted World.init_world judge_init (ONew name (N.of_nat p) hdr [] cb :: ops).
Proof. exact session_accepted. Qed.
Print Assumptions C14_session_accepted_by_judge.

(* the same for a series WITH cache levels (invariant RepS, props/C08.v): these calls never look at the levels, so what holds
   for the series without them holds with them *)
Theorem C14_within_bound_with_caches : forall fs s p hdr ihdr l cs, RepS fs s p hdr ihdr l cs -> forall lo hi k,
  n_lines_between s lo hi fs = (fs, Ok k) -> select lo hi l <> [] ->
  (len (select lo hi l) <= k)%N
  /\ (k <= len (select lo hi l) + N.of_nat (Layout.K p) * sections_touched p (encode p l) (select lo hi l))%N.
Proof. exact n_lines_within_bound_caches. Qed.
Print Assumptions C14_within_bound_with_caches.

(* (source = model, re-checked against the current text of src/seek.rs on every run) the two functions that turn the bounds
   of a range into the first and the last timestamp looked for, as tools/translate_seek.py translated them this time
   (gen/SeekGen.v), are the model's - on which the theorems above rest - and compute: the smallest timestamp the start bound
   allows raised to the first line, the largest the end bound allows lowered to the last line, the edges of u64 refused for
   excluded bounds, an error when nothing is left *)
Theorem C14_source_start_bound_is_model : forall d b first last, data_range d = Ok (Some (first, last)) ->
  checked_start_time d b = BSgen.SeekGen.gen_checked_start first last b.
Proof. exact gen_checked_start_is_model. Qed.
Print Assumptions C14_source_start_bound_is_model.
Theorem C14_source_end_bound_is_model : forall d b first last, data_range d = Ok (Some (first, last)) ->
  checked_end_time d b = BSgen.SeekGen.gen_checked_end first last b.
Proof. exact gen_checked_end_is_model. Qed.
Print Assumptions C14_source_end_bound_is_model.
Theorem C14_source_start_bound : forall first last b v, (first <= last)%N -> (last < U64)%N ->
  BSgen.SeekGen.gen_checked_start first last b = Ok v ->
  (first <= v <= last)%N /\ match b with Incl t => v = N.max t first | Excl t => v = N.max (t + 1) first | Unb => v = first end.
Proof. exact gen_checked_start_spec. Qed.
Print Assumptions C14_source_start_bound.
Theorem C14_source_end_bound : forall first last b v, (first <= last)%N ->
  BSgen.SeekGen.gen_checked_end first last b = Ok v ->
  (first <= v <= last)%N /\ match b with Incl t => v = N.min t last | Excl t => (1 <= t)%N /\ v = N.min (t - 1) last | Unb => v = last end.
Proof. exact gen_checked_end_spec. Qed.
Print Assumptions C14_source_end_bound.
