(* C14 - Reported line count of a range is consistent with reading it
   Property theorems only: statements, `exact <lemma>`, Print Assumptions, Check pins.
   Layers: F = documented format (Format.v), S = abstract spec (Spec/SpecStep), I = model of the Rust (World.step'). *)
From Coq Require Import List NArith Bool Arith Sorted.
From Coq Require Import Strings.Byte.
Require Import BS.Bytes BS.Common BS.Api BS.Layout BS.Format BS.FormatFacts BS.Spec BS.SpecStep BS.Sections.
Require Import BS.FS BS.FSFacts BS.Meta BS.MetaFacts BS.Header BS.Reader BS.ReaderFacts BS.Index BS.Data BS.DataFacts BS.Seek BS.SeekFacts BS.Series BS.SeriesFacts BS.ReadAllFacts.
Import ListNotations.

(* (I) the reported count of a range is 0 / a range error exactly when nothing is selected; otherwise it is
   the number of selected lines plus K slots for every full-timestamp section that starts inside the byte
   range (secs_from: the sections the selected lines open after the governing full timestamp pf) *)
Theorem C14_count : forall fs sr p hdr ihdr l, RepH fs sr p hdr ihdr l -> forall lo hi,
  (exists k, n_lines_between sr lo hi fs = (fs, Ok k)
             /\ match select lo hi l with
                | [] => k = 0%N
                | _ => exists pf, (len (select lo hi l) <= k)%N
                                  /\ k = (len (select lo hi l) + N.of_nat (Layout.K p * length (secs_from p (Some pf) 0 (select lo hi l))))%N
                end)
  \/ (select lo hi l = [] /\ n_lines_between sr lo hi fs = (fs, Err ERange))
  \/ (select lo hi l = [] /\ l = [] /\ n_lines_between sr lo hi fs = (fs, Ok 0%N)).
Proof. exact n_lines_ok. Qed.
Print Assumptions C14_count.
(* partial: |secs_from (Some pf) 0 sel| <= Spec.sections_touched (the number of sections "at or inside the
   range" as the judge counts them) is not proved; the judge checks that bound on the implementation. *)
