(* C02 - Range reads return exactly the lines inside the requested bounds
   Property theorems only: statements, `exact <lemma>`, Print Assumptions, Check pins.
   Layers: F = documented format (Format.v), S = abstract spec (Spec/SpecStep), I = model of the Rust (World.step'). *)
From Coq Require Import List NArith Bool Arith Sorted.
From Coq Require Import Strings.Byte.
Require Import BS.Bytes BS.Common BS.Api BS.Layout BS.Format BS.FormatFacts BS.Spec BS.SpecStep BS.Sections.
Require Import BS.FS BS.FSFacts BS.Meta BS.MetaFacts BS.Header BS.Reader BS.ReaderFacts BS.Index BS.Data BS.DataFacts BS.Seek BS.SeekFacts BS.Series BS.SeriesFacts BS.ReadAllFacts.
Require Import BS.World BS.Judge BS.JudgeFacts.
Require Import BS.CacheFacts BS.JudgeCacheFacts.
Require Import BS.Common BS.Api BS.Index BS.Data BS.Seek BS.SeekGenFacts.
Require BSgen.SeekGen.
Import ListNotations.

(* (I refines S) FULL STATEMENT, proved: for an open series holding any well-formed list l (any payload size,
   any timestamps), and ANY pair of bounds (inclusive, exclusive, unbounded; before, inside, after the data;
   inside gaps; at the 65534 edge), read_all returns exactly the stored lines that satisfy both bounds
   (Spec.select), in order - or, when there is none, nothing (an empty result or a range error). It never
   errors or comes back empty when such lines exist, and never panics. Covers the binary search over the
   index, the gap / window / till-end classification, the 16 bit delta scans and the chunked reader. *)
Theorem C02_range_read : forall fs sr p hdr ihdr l, RepH fs sr p hdr ihdr l -> forall lo hi,
  read_all sr lo hi fs = (fs, Ok (select lo hi l))
  \/ (select lo hi l = [] /\ read_all sr lo hi fs = (fs, Err ERange)).
Proof. exact read_all_ok. Qed.
Print Assumptions C02_range_read.
Check C02_range_read : forall fs sr p hdr ihdr l, RepH fs sr p hdr ihdr l -> forall lo hi,
  read_all sr lo hi fs = (fs, Ok (select lo hi l))
  \/ (select lo hi l = [] /\ read_all sr lo hi fs = (fs, Err ERange)).

(* the seek alone: any processor, any chunking, sees exactly the selected lines *)
Theorem C02_seek : forall fs sr p hdr ihdr l, RepH fs sr p hdr ihdr l -> forall cb0 lo hi,
  (exists ps, seek_pos (s_data sr) lo hi fs = (fs, Ok ps) /\ seek_good p l cb0 ps (select lo hi l))
  \/ (select lo hi l = [] /\ seek_pos (s_data sr) lo hi fs = (fs, Err ERange)).
Proof. exact seek_ok. Qed.
Print Assumptions C02_seek.
(* the invariant RepH is established by create and kept by appends (props/C03.v, props/C01.v);
   partial: re-establishing it on reopen is C04 (not proved). *)

(* (I refines S, at the level of the public API) every session - create a series in an empty directory, then ANY sequence of
   appends (accepted or refused), full and bounded reads, first-n reads, line counts and accessor calls, with any arguments
   the types allow - run on the model of the library is ACCEPTED BY THE JUDGE, the extracted specification that decides
   whether an observed behaviour satisfies the properties: every answer of the model is in the set the judge allows, after
   every step the files of the model are byte for byte the files the judge expects, and the judge stays determined. On this
   fragment a judge failure on the implementation is therefore a deviation of the code from its model. *)
Theorem C02_session_accepted_by_judge : forall (name:list byte) (p:nat) (hdr:list byte),
  (len (params_to_text BSgen.Consts.version (N.of_nat p) ++ hdr) <= 65535)%N ->
  forall cb ops, Forall sess_op ops ->
  accepted World.init_world judge_init (ONew name (N.of_nat p) hdr [] cb :: ops).
Proof. exact session_accepted. Qed.
Print Assumptions C02_session_accepted_by_judge.

(* the same for a series WITH cache levels (invariant RepS, props/C08.v): these calls never look at the levels, so what holds
   for the series without them holds with them *)
Theorem C02_range_read_with_caches : forall fs s p hdr ihdr l cs, RepS fs s p hdr ihdr l cs -> forall lo hi,
  read_all s lo hi fs = (fs, Ok (select lo hi l)) \/ (select lo hi l = [] /\ read_all s lo hi fs = (fs, Err ERange)).
Proof. exact read_all_caches. Qed.
Print Assumptions C02_range_read_with_caches.

(* (source = model, re-checked against the current text of src/seek.rs on every run) the two functions that turn the bounds
   of a range into the first and the last timestamp looked for, as tools/translate_seek.py translated them this time
   (gen/SeekGen.v), are the model's - on which the theorems above rest - and compute: the smallest timestamp the start bound
   allows raised to the first line, the largest the end bound allows lowered to the last line, the edges of u64 refused for
   excluded bounds, an error when nothing is left *)
Theorem C02_source_start_bound_is_model : forall d b first last, data_range d = Ok (Some (first, last)) ->
  checked_start_time d b = BSgen.SeekGen.gen_checked_start first last b.
Proof. exact gen_checked_start_is_model. Qed.
Print Assumptions C02_source_start_bound_is_model.
Theorem C02_source_end_bound_is_model : forall d b first last, data_range d = Ok (Some (first, last)) ->
  checked_end_time d b = BSgen.SeekGen.gen_checked_end first last b.
Proof. exact gen_checked_end_is_model. Qed.
Print Assumptions C02_source_end_bound_is_model.
Theorem C02_source_start_bound : forall first last b v, (first <= last)%N -> (last < U64)%N ->
  BSgen.SeekGen.gen_checked_start first last b = Ok v ->
  (first <= v <= last)%N /\ match b with Incl t => v = N.max t first | Excl t => v = N.max (t + 1) first | Unb => v = first end.
Proof. exact gen_checked_start_spec. Qed.
Print Assumptions C02_source_start_bound.
Theorem C02_source_end_bound : forall first last b v, (first <= last)%N ->
  BSgen.SeekGen.gen_checked_end first last b = Ok v ->
  (first <= v <= last)%N /\ match b with Incl t => v = N.min t last | Excl t => (1 <= t)%N /\ v = N.min (t - 1) last | Unb => v = last end.
Proof. exact gen_checked_end_spec. Qed.
Print Assumptions C02_source_end_bound.

(* index.rs in_gap as the current source text makes the comparison (translated on every run): the model's, and true exactly
   when the timestamp lies beyond the reach of a 16 bit delta behind the full timestamp *)
Theorem C02_source_in_gap_is_model : forall val gs, in_gap val gs = BSgen.SeekGen.gen_in_gap val gs.
Proof. exact gen_in_gap_is_model. Qed.
Print Assumptions C02_source_in_gap_is_model.
Theorem C02_source_in_gap : forall val gs b, BSgen.SeekGen.gen_in_gap val gs = Ok b -> (b = true <-> (gs + 65534 < val)%N).
Proof. exact gen_in_gap_spec. Qed.
Print Assumptions C02_source_in_gap.
