(* C02 - Range reads return exactly the lines inside the requested bounds
   Property theorems only: statements, `exact <lemma>`, Print Assumptions, Check pins.
   Layers: F = documented format (Format.v), S = abstract spec (Spec/SpecStep), I = model of the Rust (World.step'). *)
From Coq Require Import List NArith Bool Arith Sorted.
From Coq Require Import Strings.Byte.
Require Import BS.Bytes BS.Common BS.Api BS.Layout BS.Format BS.FormatFacts BS.Spec BS.SpecStep.
Require Import BS.FS BS.FSFacts BS.Meta BS.MetaFacts BS.Header BS.Reader BS.ReaderFacts BS.Index BS.Data BS.DataFacts BS.Seek BS.Series BS.SeriesFacts.
Import ListNotations.

(* partial: RoughPos::refine returns the byte range of the selected lines - not proved yet. The reader
   half (any byte range, any chunking) is props/C01.v. *)
