(* C01 - Round-trip fidelity: a full read returns exactly what was appended
   Property theorems only: statements, `exact <lemma>`, Print Assumptions, Check pins.
   Layers: F = documented format (Format.v), S = abstract spec (Spec/SpecStep), I = model of the Rust (World.step'). *)
From Coq Require Import List NArith Bool Arith Sorted.
From Coq Require Import Strings.Byte.
Require Import BS.Bytes BS.Common BS.Api BS.Layout BS.Format BS.FormatFacts.
Import ListNotations.

(* codec core, every payload size, every u64 timestamp, every payload byte pattern, every length:
   the reference decoder returns exactly the appended lines *)
Theorem C01_codec : forall (p:nat) (l:list line), wf_series p l -> decode p (encode p l) = Some l.
Proof. exact decode_encode. Qed.
Print Assumptions C01_codec.
Check C01_codec : forall (p:nat) (l:list line), wf_series p l -> decode p (encode p l) = Some l.

(* non-vacuity: a series with a marker-like payload and a delta over the 16 bit limit is well formed *)
Example C01_nonvacuous : wf_series 2 [(5%N, [xff; xff]); (70000%N, ["001"; "002"]%byte)].
Proof. split; repeat constructor; cbn; try reflexivity. Qed.
