(* C01 - Round-trip fidelity: a full read returns exactly what was appended
   Property theorems only: statements, `exact <lemma>`, Print Assumptions, Check pins.
   Layers: F = documented format (Format.v), S = abstract spec (Spec/SpecStep), I = model of the Rust (World.step'). *)
From Coq Require Import List NArith Bool Arith Sorted.
From Coq Require Import Strings.Byte.
Require Import BS.Bytes BS.Common BS.Api BS.Layout BS.Format BS.FormatFacts BS.Spec BS.SpecStep.
Require Import BS.FS BS.FSFacts BS.Meta BS.MetaFacts BS.Header BS.Reader BS.ReaderFacts BS.Index BS.Data BS.DataFacts BS.Seek BS.Series BS.SeriesFacts BS.HeaderFacts BS.OpenFacts BS.World BS.WorldFacts BS.HistoryFacts.
Require Import BS.MetaGenFacts.
Require BSgen.MetaLayout.
Require Import BS.World BS.Judge BS.JudgeFacts.
Import ListNotations.

(* (F) codec core, every payload size, every u64 timestamp, every payload byte pattern, every length *)
Theorem C01_codec : forall (p:nat) (l:list line), wf_series p l -> decode p (encode p l) = Some l.
Proof. exact decode_encode. Qed.
Print Assumptions C01_codec.
Check C01_codec : forall (p:nat) (l:list line), wf_series p l -> decode p (encode p l) = Some l.

(* (I) the chunked reader with carry-over equals one uninterrupted pass of the line automaton over
   the requested byte range, for every chunk size that is a multiple of the line size, any number
   of chunks, any processor: a section may be split by any number of consecutive buffer boundaries *)
Theorem C01_chunked_reader_is_one_pass :
  forall (St:Type) (proc:St -> N -> list byte -> pres St) (p:nat) (cb:cbmode)
         (n chunkn:nat) (region:list byte) (pos to_read:nat) (full:N) (st:rst) (acc:St),
  chunkn > 0 -> chunkn mod (p + 2) = 0 -> to_read mod (p + 2) = 0 -> pos + to_read <= length region ->
  to_read <= n * chunkn -> (5 <= BSgen.Consts.read_overlap_lines)%N ->
  wf_rst p st -> Forall (fun s => length s = p + 2) (held_slots st) ->
  chunk_loop St proc p cb n (N.of_nat chunkn) region (N.of_nat pos) (N.of_nat to_read) full (base st) (concat (held_slots st)) acc
  = result_of St (scan_lines St proc p cb full st acc (chunks (p + 2) (firstn to_read (skipn pos region)))).
Proof. exact chunk_loop_is_scan. Qed.
Print Assumptions C01_chunked_reader_is_one_pass.

(* (I vs F) the reader's line automaton (the five layouts as coded) hands the processor exactly the
   lines the reference decoder yields, in order, as long as the decoder meets no lone marker *)
Theorem C01_reader_automaton_is_reference_decoder :
  forall (St:Type) (proc:St -> N -> list byte -> pres St) (p:nat) (cb:cbmode)
         (ls:list slot) (f:N) (st:rst) (fs0:fstate) (acc:St) (i:nat) (lines:list line) (secs:list (N*N)) (g ss:nat),
  match_st p f st fs0 -> Forall (fun s => length s = p + 2) ls ->
  let s' := fold_left (fstep p) ls (mk fs0 i lines secs g ss) in
  f_st s' <> FBad ->
  exists newl f' st', f_lines s' = rev newl ++ lines /\ match_st p f' st' (f_st s')
    /\ scan_lines St proc p cb f st acc ls
       = match feed St proc acc newl with PCont a => LCont f' st' a | PStop a => LStop a | PPanic => LPanic end.
Proof. exact sim_lines. Qed.
Print Assumptions C01_reader_automaton_is_reference_decoder.

(* (I) END TO END on the model: create a series (any name, payload size, user header, callback), append
   any well-formed list of lines, read everything back: the result is exactly that list. For every
   payload size, every series of u64 timestamps, every payload byte pattern, every file length
   (the chunked reader is covered by the theorem above for any number of buffers). *)
Theorem C01_roundtrip : forall fs name p hdr cb0 l,
  fs_mem fs (name ++ ext_data) = false -> fs_mem fs (name ++ ext_index) = false ->
  (len (params_to_text BSgen.Consts.version (N.of_nat p) ++ hdr) <= 65535)%N ->
  wf_series p l -> l <> [] ->
  exists w', run {| w_fs := fs; w_h := None |}
                 (ONew name (N.of_nat p) hdr [] cb0 :: push_ops l ++ [OReadAll Unb Unb])
             = (w', ROpened (N.of_nat p) hdr :: map (fun _ => RUnit) l ++ [RLines l]).
Proof. exact session_roundtrip. Qed.
Print Assumptions C01_roundtrip.

(* a full read of an open series holding l returns l (the invariant RepH is established by create and
   kept by appends: props/C03.v) *)
Theorem C01_read_all_under_invariant : forall fs s p hdr ihdr l,
  RepH fs s p hdr ihdr l -> l <> [] -> read_all s Unb Unb fs = (fs, Ok l).
Proof. exact read_all_full_ok. Qed.
Print Assumptions C01_read_all_under_invariant.
(* partial: the same after reopen needs the open theorem (C04). *)

(* non-vacuity *)
Example C01_nonvacuous : wf_series 2 [(5%N, [xff; xff]); (70000%N, ["001"; "002"]%byte)].
Proof. split; repeat constructor; cbn; try reflexivity. Qed.
(* the premises of C01_roundtrip are satisfiable: empty file system, name "s", payload size 2 *)
Example C01_roundtrip_premises :
  fs_mem [] (["s"]%byte ++ ext_data) = false /\ fs_mem [] (["s"]%byte ++ ext_index) = false
  /\ (len (params_to_text BSgen.Consts.version 2 ++ []) <= 65535)%N.
Proof. repeat split. vm_compute. discriminate. Qed.

(* (I refines S) across a close and reopen, payload sizes >= 4 (for 0..3 see props/C04.v): every read of every range
   returns exactly the selected lines of the list the first session appended *)
Theorem C01_across_reopen : forall p fs s uhdr name popt hdropt cb l, 4 <= p ->
  let header := params_to_text BSgen.Consts.version (N.of_nat p) ++ uhdr in
  RepH fs s p (outer header) (outer []) l ->
  of_name (d_file (s_data s)) = name ++ ext_data -> of_name (ix_file (d_index (s_data s))) = name ++ ext_index ->
  (len header <= 65535)%N -> (len (encode p l) < 2^64)%N -> (N.of_nat p < 2^64)%N ->
  (popt = None \/ popt = Some (N.of_nat p)) ->
  match hdropt with HdrIs e => e = uhdr | HdrAny => True end ->
  exists s', builder_open name popt hdropt [] cb fs = (fs, Ok (s', uhdr))
    /\ forall lo hi, read_all s' lo hi fs = (fs, Ok (select lo hi l))
                     \/ (select lo hi l = [] /\ read_all s' lo hi fs = (fs, Err ERange)).
Proof. exact reopen_then_read. Qed.
Print Assumptions C01_across_reopen.

(* (I refines S) over EVERY history (HistoryFacts: appends accepted or refused, reads, close-and-reopen steps, crashes that cut
   the data file at any byte and the index at any byte, each followed by an open - see props/C05.v for hop / hexec / hspec /
   hvalid): after the history a full read returns exactly the lines Layer S expects - the appended lines minus what the
   crashes cut off *)
Theorem C01_every_history : forall p name uhdr,
  (len (params_to_text BSgen.Consts.version (N.of_nat p) ++ uhdr) <= 65535)%N -> (N.of_nat p < 2^64)%N ->
  forall fs cb0 ops,
  fs_mem fs (name ++ ext_data) = false -> fs_mem fs (name ++ ext_index) = false -> hvalid_all p name uhdr [] ops ->
  exists fs0 s0 st', series_new name (N.of_nat p) uhdr [] cb0 fs = (fs0, Ok s0)
    /\ hrun name (fs0, s0) ops = Some st'
    /\ let l := fold_left (hspec p) ops [] in
       read_all (snd st') Unb Unb (fst st') = (fst st', Ok l) \/ (l = [] /\ read_all (snd st') Unb Unb (fst st') = (fst st', Err ERange)).
Proof. exact history_full_read. Qed.
Print Assumptions C01_every_history.

(* Tie 1 for the layouts: gen/MetaLayout.v is translated on every run from meta::write / meta::read in /repo/src
   (tools/translate_meta.py); what the source writes for a full timestamp is the documented section, and what it reads back
   from lines of the right size is the documented timestamp - re-checked against the current source text on every run *)
Theorem C01_source_layouts_are_documented : forall p t,
  BSgen.MetaLayout.gen_write p (le_enc 8 t) = enc_section p t
  /\ (forall a b got, length a = p + 2 -> length b = p + 2 -> Forall (fun s => length s = p + 2) got -> length got = Meta.ncont p ->
       le_dec (BSgen.MetaLayout.gen_read_bytes p a b got) = Layout.read_ts p a b got)
  /\ BSgen.MetaLayout.gen_consumed p = seq 0 (Meta.ncont p) /\ BSgen.MetaLayout.gen_write_lines p = Layout.K p.
Proof.
  intros p t. split; [exact (source_write_is_documented p t)|]. split; [exact (source_read_is_documented p)|].
  split; [exact (gen_consumed_is_model p)|exact (gen_write_lines_is_K p)].
Qed.
Print Assumptions C01_source_layouts_are_documented.

(* (I refines S, at the level of the public API) every session - create a series in an empty directory, then ANY sequence of
   appends (accepted or refused), full and bounded reads, first-n reads, line counts and accessor calls, with any arguments
   the types allow - run on the model of the library is ACCEPTED BY THE JUDGE, the extracted specification that decides
   whether an observed behaviour satisfies the properties: every answer of the model is in the set the judge allows, after
   every step the files of the model are byte for byte the files the judge expects, and the judge stays determined. On this
   fragment a judge failure on the implementation is therefore a deviation of the code from its model. *)
Theorem C01_session_accepted_by_judge : forall (name:list byte) (p:nat) (hdr:list byte),
  (len (params_to_text BSgen.Consts.version (N.of_nat p) ++ hdr) <= 65535)%N ->
  forall cb ops, Forall sess_op ops ->
  accepted World.init_world judge_init (ONew name (N.of_nat p) hdr [] cb :: ops).
Proof. exact session_accepted. Qed.
Print Assumptions C01_session_accepted_by_judge.
