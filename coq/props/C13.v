(* C13 - First-n reads are prefixes of full reads; paging visits every line once
   Property theorems only: statements, `exact <lemma>`, Print Assumptions, Check pins.
   Layers: F = documented format (Format.v), S = abstract spec (Spec/SpecStep), I = model of the Rust (World.step'). *)
From Coq Require Import List NArith Bool Arith Sorted.
From Coq Require Import Strings.Byte.
Require Import BS.Bytes BS.Common BS.Api BS.Layout BS.Format BS.FormatFacts BS.Spec BS.SpecStep BS.Sections.
Require Import BS.FS BS.FSFacts BS.Meta BS.MetaFacts BS.Header BS.Reader BS.ReaderFacts BS.Index BS.Data BS.DataFacts BS.Seek BS.SeekFacts BS.Series BS.SeriesFacts BS.ReadAllFacts BS.PagingFacts BS.PagingModelFacts.
Require Import BS.World BS.Judge BS.JudgeFacts.
Require Import BS.CacheFacts BS.JudgeCacheFacts.
Require Import BS.Common BS.Api BS.Index BS.Data BS.Seek BS.SeekGenFacts.
Require BSgen.SeekGen.
Import ListNotations.

(* (I refines S) the first n >= 1 lines of a range are exactly the first min(n, k) of the k lines a full read
   of that range returns, for every pair of bounds *)
Theorem C13_first_n_is_prefix : forall fs sr p hdr ihdr l, RepH fs sr p hdr ihdr l -> forall n lo hi, (1 <= n)%N ->
  read_first_n sr n lo hi fs = (fs, Ok (firstn (N.to_nat (N.min n (len (select lo hi l)))) (select lo hi l)))
  \/ (select lo hi l = [] /\ read_first_n sr n lo hi fs = (fs, Err ERange)).
Proof. exact read_first_n_ok. Qed.
Print Assumptions C13_first_n_is_prefix.
(* (S) paging: ask for the first n lines, then again and again for the first n lines after the last timestamp seen
   (Excluded(last) .. unbounded), until a page comes back empty: the pages, in order, are exactly the stored lines,
   each once - for every page size n >= 1, from 1 to beyond the length of the series. Each page is what read_first_n
   answers by the theorem above (firstn (min n k) sel = firstn n sel). *)
Theorem C13_paging : forall n (l:list (N * list byte)), n >= 1 -> StronglySorted N.lt (map fst l) ->
  concat (pages (S (length l)) n l Unb) = l.
Proof. exact paging_visits_all. Qed.
Print Assumptions C13_paging.

(* (I refines S) the same on the model: the client loop mpages calls ByteSeries::read_first_n(n, lo..) starting unbounded and
   continuing with Excluded(last timestamp seen) until a page comes back empty (or a range error says nothing is left): for
   every series in its invariant and every page size n >= 1 the pages are those of Layer S, and their concatenation is the
   whole series - every line exactly once, no call panics *)
Theorem C13_paging_on_the_model : forall fs sr p hdr ihdr l n, RepH fs sr p hdr ihdr l -> (1 <= n)%N ->
  exists pgs, mpages (S (length l)) n sr fs Unb = Some pgs /\ concat pgs = l.
Proof. exact model_paging. Qed.
Print Assumptions C13_paging_on_the_model.
Theorem C13_model_pages_are_spec_pages : forall fs sr p hdr ihdr l n, RepH fs sr p hdr ihdr l -> (1 <= n)%N ->
  forall fuel lo, mpages fuel n sr fs lo = Some (pages fuel (N.to_nat n) l lo).
Proof. exact mpages_are_pages. Qed.
Print Assumptions C13_model_pages_are_spec_pages.

(* (I refines S, at the level of the public API) every session - create a series in an empty directory, then ANY sequence of
   appends (accepted or refused), full and bounded reads, first-n reads, line counts and accessor calls, with any arguments
   the types allow - run on the model of the library is ACCEPTED BY THE JUDGE, the extracted specification that decides
   whether an observed behaviour satisfies the properties: every answer of the model is in the set the judge allows, after
   every step the files of the model are byte for byte the files the judge expects, and the judge stays determined. On this
   fragment a judge failure on the implementation is therefore a deviation of the code from its model. *)
Theorem C13_session_accepted_by_judge : forall (name:list byte) (p:nat) (hdr:list byte),
  (len (params_to_text BSgen.Consts.version (N.of_nat p) ++ hdr) <= 65535)%N ->
  forall cb ops, Forall sess_op ops ->
  accepted World.init_world judge_init (ONew name (N.of_nat p) hdr [] cb :: ops).
Proof. exact session_accepted. Qed.
Print Assumptions C13_session_accepted_by_judge.

(* the same for a series WITH cache levels (invariant RepS, props/C08.v): these calls never look at the levels, so what holds
   for the series without them holds with them *)
Theorem C13_first_n_with_caches : forall fs s p hdr ihdr l cs, RepS fs s p hdr ihdr l cs -> forall n lo hi, (1 <= n)%N ->
  read_first_n s n lo hi fs = (fs, Ok (firstn (N.to_nat (N.min n (len (select lo hi l)))) (select lo hi l)))
  \/ (select lo hi l = [] /\ read_first_n s n lo hi fs = (fs, Err ERange)).
Proof. exact read_first_n_caches. Qed.
Print Assumptions C13_first_n_with_caches.

(* (source = model, re-checked against the current text of src/seek.rs on every run) the two functions that turn the bounds
   of a range into the first and the last timestamp looked for, as tools/translate_seek.py translated them this time
   (gen/SeekGen.v), are the model's - on which the theorems above rest - and compute: the smallest timestamp the start bound
   allows raised to the first line, the largest the end bound allows lowered to the last line, the edges of u64 refused for
   excluded bounds, an error when nothing is left *)
Theorem C13_source_start_bound_is_model : forall d b first last, data_range d = Ok (Some (first, last)) ->
  checked_start_time d b = BSgen.SeekGen.gen_checked_start first last b.
Proof. exact gen_checked_start_is_model. Qed.
Print Assumptions C13_source_start_bound_is_model.
Theorem C13_source_end_bound_is_model : forall d b first last, data_range d = Ok (Some (first, last)) ->
  checked_end_time d b = BSgen.SeekGen.gen_checked_end first last b.
Proof. exact gen_checked_end_is_model. Qed.
Print Assumptions C13_source_end_bound_is_model.
Theorem C13_source_start_bound : forall first last b v, (first <= last)%N -> (last < U64)%N ->
  BSgen.SeekGen.gen_checked_start first last b = Ok v ->
  (first <= v <= last)%N /\ match b with Incl t => v = N.max t first | Excl t => v = N.max (t + 1) first | Unb => v = first end.
Proof. exact gen_checked_start_spec. Qed.
Print Assumptions C13_source_start_bound.
Theorem C13_source_end_bound : forall first last b v, (first <= last)%N ->
  BSgen.SeekGen.gen_checked_end first last b = Ok v ->
  (first <= v <= last)%N /\ match b with Incl t => v = N.min t last | Excl t => (1 <= t)%N /\ v = N.min (t - 1) last | Unb => v = last end.
Proof. exact gen_checked_end_spec. Qed.
Print Assumptions C13_source_end_bound.
