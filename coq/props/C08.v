(* C08 - Cache contents = bucket means of the source
   Property theorems only: statements, `exact <lemma>`, Print Assumptions, Check pins.
   Layers: F = documented format (Format.v), S = abstract spec (Spec/SpecStep), I = model of the Rust (World.step'). *)
From Coq Require Import List NArith Bool Arith Sorted.
From Coq Require Import Strings.Byte.
Require Import BS.Bytes BS.Common BS.Api BS.Layout BS.Format BS.FormatFacts BS.Spec BS.SpecStep.
Require Import BS.FS BS.FSFacts BS.Meta BS.MetaFacts BS.Header BS.Reader BS.ReaderFacts BS.Index BS.Data BS.DataFacts BS.Seek BS.Series BS.SeriesFacts BS.ReadAllFacts BS.TotalFacts BS.CacheFacts BS.Sections BS.ExtractFacts BS.OpenFacts BS.TornGenFacts BS.CacheOpenFacts BS.CacheCreateFacts.
Require Import BS.OverflowFacts.
Require Import BS.World BS.Judge BS.JudgeFacts BS.CacheOpenFacts BS.JudgeCacheFacts.
Import ListNotations.



(* RepS fs s p hdr ihdr l cs: the handle s of a series with cache levels cs = [(B, header of the cache file, header of
   its index)] represents the list l: the source files are the encoding of l (as RepH), every cache level is itself an
   intact series (RepD) whose lines are the means of the complete buckets of B source lines (Spec.cache_of), the bucket in
   progress sits in the accumulator, and all file names differ. *)

(* (I refines S) FULL STATEMENT for one session: create with any cache levels (bucket sizes >= 1, pairwise different file
   names, nothing of that name on disk), append ANY well-formed list of lines: afterwards the data file of every level is
   its header followed by the reference encoding of the bucket means of the whole list, and its index file is the index of
   that encoding. Any payload size, any timestamps (sums are unbounded in the model, u128 in the Rust after the fix). *)
Theorem C08_session : forall p fs name hdr (Bs:list N) cb xs,
  let header := params_to_text BSgen.Consts.version (N.of_nat p) ++ hdr in
  fs_mem fs (name ++ ext_data) = false -> fs_mem fs (name ++ ext_index) = false -> (len header <= 65535)%N ->
  Forall (fun B => (1 <= B)%N /\ (len (config_header name B) <= 65535)%N
                   /\ fs_mem fs (cache_name name B ++ ext_data) = false /\ fs_mem fs (cache_name name B ++ ext_index) = false) Bs ->
  NoDup ([name ++ ext_data; name ++ ext_index] ++ flat_map (cache_names name) Bs) ->
  wf_series p xs ->
  exists fs1 s1 fs2 s2,
    series_new name (N.of_nat p) hdr Bs cb fs = (fs1, Ok s1) /\ push_lines s1 xs fs1 = (fs2, Ok s2)
    /\ RepS fs2 s2 p (le_enc 2 (len header) ++ BSgen.Consts.line_ends ++ header) (le_enc 2 0 ++ BSgen.Consts.line_ends) xs (map (new_spec name) Bs)
    /\ Forall2 (fun ds B =>
         fs_get fs2 (cache_name name B ++ ext_data)
           = Some ((le_enc 2 (len (config_header name B)) ++ BSgen.Consts.line_ends ++ config_header name B)
                   ++ encode p (cache_of p (N.to_nat B) xs))
         /\ fs_get fs2 (cache_name name B ++ ext_index)
           = Some ((le_enc 2 0 ++ BSgen.Consts.line_ends) ++ enc_index (sections p (encode p (cache_of p (N.to_nat B) xs)))))
       (s_down s2) Bs.
Proof. exact session_caches. Qed.
Print Assumptions C08_session.

(* the invariant is kept by every accepted append, from any state that satisfies it; files outside the series are untouched *)
Theorem C08_append : forall fs s p hdr ihdr l cs ts pay,
  RepS fs s p hdr ihdr l cs -> accepts p l ts pay = true ->
  exists fs' s', push_line s ts pay fs = (fs', Ok s')
    /\ RepS fs' s' p hdr ihdr (l ++ [(ts, pay)]) cs
    /\ (forall g, ~ In g (all_files s) -> fs_get fs' g = fs_get fs g)
    /\ all_files s' = all_files s /\ s_cb s' = s_cb s
    /\ of_name (d_file (s_data s')) = of_name (d_file (s_data s))
    /\ of_name (ix_file (d_index (s_data s'))) = of_name (ix_file (d_index (s_data s)))
    /\ map cache_files (s_down s') = map cache_files (s_down s).
Proof. exact push_line_caches. Qed.
Print Assumptions C08_append.

(* under the invariant the files of every level are the encoded bucket means *)
Theorem C08_files : forall fs s p hdr ihdr l cs, RepS fs s p hdr ihdr l cs ->
  Forall2 (fun ds c =>
    file_is fs (d_file (ds_data ds)) (fst (snd c)) (encode p (cache_of p (fst c) l))
    /\ file_is fs (ix_file (d_index (ds_data ds))) (snd (snd c)) (enc_index (sections p (encode p (cache_of p (fst c) l)))))
    (s_down s) cs.
Proof. exact RepS_cache_files. Qed.
Print Assumptions C08_files.

(* (I refines S) "created on first open over pre-existing data": a series that already holds ANY well-formed list of lines
   (invariant RepH, no caches so far) is opened with cache levels whose files do not exist: DownSampledData::open_or_create falls
   through to create, which resamples the whole source in one pass of the chunked reader. Afterwards the invariant RepS holds
   for the same lines - every level's data file is its header followed by the reference encoding of the bucket means of all
   complete buckets, its index the index of that, the open bucket sits in the accumulator (so later appends continue the same
   buckets: C08_append) - and no file outside the new levels is touched. Every payload size (0..3 under the marker-word
   condition nm_sec of C04 on the source, needed for the open of the source itself), any bucket sizes, any timestamps. *)
Theorem C08_created_on_open : forall p fs s0 name uhdr popt hdropt cb l (Bs:list N),
  let header := params_to_text BSgen.Consts.version (N.of_nat p) ++ uhdr in
  RepH fs s0 p (outer header) (outer []) l ->
  of_name (d_file (s_data s0)) = name ++ ext_data -> of_name (ix_file (d_index (s_data s0))) = name ++ ext_index ->
  Forall (nm_sec p) (secs_of l) ->
  (len header <= 65535)%N -> (len (encode p l) < 2^64)%N -> (N.of_nat p < 2^64)%N ->
  (popt = None \/ popt = Some (N.of_nat p)) ->
  match hdropt with HdrIs e => e = uhdr | HdrAny => True end ->
  Forall (level_missing fs name) Bs ->
  NoDup ([name ++ ext_data; name ++ ext_index] ++ flat_map (cache_names name) Bs) ->
  exists fs' s, builder_open name popt hdropt Bs cb fs = (fs', Ok (s, uhdr))
    /\ RepS fs' s p (outer header) (outer []) l (map (open_spec name) Bs) /\ s_cb s = cb
    /\ (forall g, ~ In g (flat_map (cache_names name) Bs) -> fs_get fs' g = fs_get fs g)
    /\ Forall2 (fun ds B =>
         fs_get fs' (cache_name name B ++ ext_data) = Some (outer (config_header name B) ++ encode p (cache_of p (N.to_nat B) l))
         /\ fs_get fs' (cache_name name B ++ ext_index)
            = Some (outer [] ++ enc_index (sections p (encode p (cache_of p (N.to_nat B) l))))) (s_down s) Bs.
Proof. exact open_creates_caches. Qed.
Print Assumptions C08_created_on_open.

(* one level: DownSampledData::create over a source in its invariant, any list of lines (the fold of ds_process over the
   chunked reader = Spec.cache_of plus the open bucket) *)
Theorem C08_create_level : forall p fs name (B:N) src cb hdr ihdr l,
  wf_series p l -> (1 <= B)%N ->
  RepD fs src p hdr ihdr (encode p l) (full_after p None l) (option_map fst (last_opt l)) ->
  fs_mem fs (cache_name name B ++ ext_data) = false -> fs_mem fs (cache_name name B ++ ext_index) = false ->
  (len (config_header name B) <= 65535)%N ->
  ~ In (of_name (d_file src)) (cache_names name B) -> ~ In (of_name (ix_file (d_index src))) (cache_names name B) ->
  exists fs' ds, ds_create name B p src cb fs = (fs', Ok ds)
    /\ cache_ok p fs' l ds (new_spec name B)
    /\ cache_files ds = cache_names name B
    /\ (forall g, ~ In g (cache_names name B) -> fs_get fs' g = fs_get fs g).
Proof. exact ds_create_ok. Qed.
Print Assumptions C08_create_level.
(* partial: the state after a reopen with EXISTING caches that are not aligned (DownSampledData::open, repair) is C09: known finding D10. *)

(* "no intermediate sum overflows for any timestamp magnitude": the model sums in unbounded N, the Rust in u128 (after the
   repair of D9) and converts the mean back to u64. For a bucket of at most 2^64 lines (a usize count) with u64 timestamps
   every intermediate value of the accumulator is below 2^128 and the mean is a u64 again, so the unbounded model and the
   bounded code compute the same number; the mean lies between the smallest and the largest timestamp of the bucket *)
Theorem C08_sums_fit_u128 : forall (xs:list N) k, Forall (fun x => (x < 2^64)%N) xs -> (N.of_nat (length xs) <= 2^64)%N ->
  (sum_N (firstn k xs) < 2^128)%N.
Proof. exact partial_sums_fit_u128. Qed.
Print Assumptions C08_sums_fit_u128.
Theorem C08_mean_fits_u64 : forall (xs:list N), xs <> [] -> Forall (fun x => (x < 2^64)%N) xs ->
  (sum_N xs / N.of_nat (length xs) < 2^64)%N.
Proof. exact mean_fits_u64. Qed.
Print Assumptions C08_mean_fits_u64.
Theorem C08_mean_between : forall (xs:list N) lo hi, xs <> [] -> Forall (fun x => (lo <= x <= hi)%N) xs ->
  (lo <= sum_N xs / N.of_nat (length xs) <= hi)%N.
Proof. exact mean_between. Qed.
Print Assumptions C08_mean_between.

(* (I refines S, at the level of the public API, with cache levels) every session on a series created with ANY cache levels
   (bucket sizes >= 1 in ascending order, pairwise different file names) - appends accepted or refused (every level follows),
   full / bounded / first-n reads, RESAMPLING READS THROUGH THE LEVELS, counts, accessors, with any arguments - run on the model
   of the library is ACCEPTED BY THE JUDGE at every step: the answer of a resampling read is the uniform bucket means of one of
   the levels the judge allows, and after every step the files of the model - the data and index file of the series and of
   EVERY level - are byte for byte the files the judge expects (each level: the bucket means of the source) *)
Theorem C08_session_with_caches_accepted_by_judge : forall (name:list byte) (p:nat) (hdr:list byte) (Bs:list N),
  (len (params_to_text BSgen.Consts.version (N.of_nat p) ++ hdr) <= 65535)%N ->
  Forall (fun B => (1 <= B)%N /\ (len (config_header name B) <= 65535)%N) Bs ->
  NoDup ([name ++ ext_data; name ++ ext_index] ++ flat_map (cache_names name) Bs) ->
  StronglySorted le (map fst (map (open_spec name) Bs)) ->
  forall cb ops, Forall sess_op ops ->
  accepted World.init_world judge_init (ONew name (N.of_nat p) hdr Bs cb :: ops).
Proof. exact session_accepted_caches. Qed.
Print Assumptions C08_session_with_caches_accepted_by_judge.
