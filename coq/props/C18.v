(* C18 - Corruption callback: error without consent, only genuine lines with consent
   Property theorems only: statements, `exact <lemma>`, Print Assumptions, Check pins.
   Layers: F = documented format (Format.v), S = abstract spec (Spec/SpecStep), I = model of the Rust (World.step'). *)
From Coq Require Import List NArith Bool Arith Sorted.
From Coq Require Import Strings.Byte.
Require Import BS.Bytes BS.Common BS.Api BS.Layout BS.Format BS.FormatFacts BS.Spec BS.SpecStep.
Require Import BS.FS BS.FSFacts BS.Meta BS.MetaFacts BS.Header BS.Reader BS.ReaderFacts BS.Index BS.Data BS.DataFacts BS.Seek BS.Series BS.SeriesFacts BS.ReadAllFacts BS.CorruptFacts BS.ExtractFacts BS.RangeFacts BS.Sections BS.LenientFacts.
Import ListNotations.



(* Layer S's skipping decoder (Spec.lstep / Spec.lenient): data lines are decoded against the last full
   timestamp; a marker line whose successor is not one is a lone marker: from there everything is dropped
   until two marker lines in a row start a complete section. `certified p f bytes` is its run over `bytes`
   starting after a section with full timestamp f; l_sure its lines (newest first), l_first how many lines it
   had produced when it met the first lone marker. The judge uses the same decoder on the damaged file and
   checks, per history, that the certified lines are a subsequence of the lines that were appended. *)

(* (I refines S) with a consenting callback, for ANY bytes (any number of damaged lines, any position, any
   payload size, any chunking of the read), the reader hands the processor exactly the certified lines: no line
   between a lone marker and the next complete section, no line decoded against a stale full timestamp; it
   panics only if the processor does or a timestamp leaves u64 *)
Theorem C18_consent : forall (St:Type) (proc:St -> N -> list byte -> pres St) (p:nat)
    (region:list byte) (start stop:nat) (f:N) (acc:St),
  start <= stop -> stop <= length region -> (stop - start) mod (p + 2) = 0 ->
  read_with_processor St proc p CbAllow region (N.of_nat start) (N.of_nat stop) f acc
  = match feed St proc acc (rev (l_sure (certified p f (firstn (stop - start) (skipn start region))))) with
    | PCont a => RDone a | PStop a => RStopped a | PPanic => RPanic
    end.
Proof. exact read_consent. Qed.
Print Assumptions C18_consent.

(* (I refines S) without consent (no callback, or one that answers false): exactly the certified lines before
   the first lone marker, then Error::CorruptMetaSection; when there is no lone marker, all lines and no error *)
Theorem C18_no_consent : forall (St:Type) (proc:St -> N -> list byte -> pres St) (p:nat) (cb:cbmode)
    (region:list byte) (start stop:nat) (f:N) (acc:St), cb <> CbAllow ->
  start <= stop -> stop <= length region -> (stop - start) mod (p + 2) = 0 ->
  let c := certified p f (firstn (stop - start) (skipn start region)) in
  read_with_processor St proc p cb region (N.of_nat start) (N.of_nat stop) f acc
  = match l_first c with
    | None => match feed St proc acc (rev (l_sure c)) with PCont a => RDone a | PStop a => RStopped a | PPanic => RPanic end
    | Some k => match feed St proc acc (firstn k (rev (l_sure c))) with PCont a => RCorrupt a | PStop a => RStopped a | PPanic => RPanic end
    end.
Proof. exact read_no_consent. Qed.
Print Assumptions C18_no_consent.
(* (F/S) the certified lines are genuine. The slots of the encoding of a well-formed series are those of its sections
   (ExtractFacts.encode_slots); one of them is damaged:
   kind 1 - the second marker line of a section becomes a non-marker (no continuation slot of that section looks like a
   marker): the decoder certifies exactly the lines of all OTHER sections;
   kind 2 - the delta of a data line that is followed by another line of its section becomes the marker pattern: the decoder
   certifies the lines of the other sections and those of the damaged section before the damaged line.
   In both cases: a sublist of the appended lines (each with its original timestamp and payload), nothing made up, one lone
   marker, and the decoder is back in step from the next section on. With C18_consent the reader returns exactly these. *)
Theorem C18_second_marker_lost : forall p (pre post:list (N * list (N * list byte))) s x',
  good_secs p (pre ++ s :: post) -> nm_sec p s -> Layout.is_marker x' = false ->
  let sc := fold_left (lstep p) (concat (map (sslots p) pre) ++ damaged1 p s x' ++ concat (map (sslots p) post)) lscan0 in
  rev (l_sure sc) = bodies pre ++ bodies post /\ l_bad sc = false /\ l_lone sc = 1
  /\ sublist (rev (l_sure sc)) (bodies (pre ++ s :: post))
  /\ (post <> [] -> exists f, l_st sc = LN (Some f) false).
Proof. exact certified_second_marker_lost. Qed.
Print Assumptions C18_second_marker_lost.

Theorem C18_delta_lost : forall p (pre post:list (N * list (N * list byte))) f (a:list (N * list byte)) y z b m,
  good_secs p (pre ++ (f, a ++ y :: z :: b) :: post) -> Layout.is_marker m = true ->
  let sc := fold_left (lstep p) (concat (map (sslots p) pre) ++ damaged2 p f a y z b m ++ concat (map (sslots p) post)) lscan0 in
  rev (l_sure sc) = bodies pre ++ a ++ bodies post /\ l_bad sc = false /\ l_lone sc = 1
  /\ sublist (rev (l_sure sc)) (bodies (pre ++ (f, a ++ y :: z :: b) :: post))
  /\ (post <> [] -> exists f', l_st sc = LN (Some f') false).
Proof. exact certified_delta_lost. Qed.
Print Assumptions C18_delta_lost.
(* partial: the theorems above are about the reader and the decoder; the seek that precedes a read between bounds decodes damaged
   lines too and is judged only for "genuine lines or an error". A damaged data line directly in front of a section header
   (three marker lines in a row) is not the lone-marker pattern of the property and is outside these statements. *)
