(* C11 - Resampling reads through caches are transparent, bounded and total
   Property theorems only: statements, `exact <lemma>`, Print Assumptions, Check pins.
   Layers: F = documented format (Format.v), S = abstract spec (Spec/SpecStep), I = model of the Rust (World.step'). *)
From Coq Require Import List NArith Bool Arith Sorted.
From Coq Require Import Strings.Byte.
Require Import BS.Bytes BS.Common BS.Api BS.Layout BS.Format BS.FormatFacts BS.Spec BS.SpecStep.
Require Import BS.FS BS.FSFacts BS.Meta BS.MetaFacts BS.Header BS.Reader BS.ReaderFacts BS.Index BS.Data BS.DataFacts BS.Seek BS.Series BS.SeriesFacts.
Import ListNotations.

(* theorems for this property are added as the development grows; until then the property is
   decided by the judge (Layer S/F, extracted) on the implementation and by the correspondence check *)
