(* C11 - Resampling reads through caches are transparent, bounded and total
   Property theorems only: statements, `exact <lemma>`, Print Assumptions, Check pins.
   Layers: F = documented format (Format.v), S = abstract spec (Spec/SpecStep), I = model of the Rust (World.step'). *)
From Coq Require Import List NArith Bool Arith Sorted.
From Coq Require Import Strings.Byte.
Require Import BS.Bytes BS.Common BS.Api BS.Layout BS.Format BS.FormatFacts BS.Spec BS.SpecStep BS.Sections.
Require Import BS.FS BS.FSFacts BS.Meta BS.MetaFacts BS.Header BS.Reader BS.ReaderFacts BS.Index BS.Data BS.DataFacts BS.Seek BS.SeekFacts BS.Series BS.SeriesFacts BS.ReadAllFacts BS.CacheFacts BS.LevelFacts.
Require Import BS.EstimateGenFacts.
Require BSgen.EstimateGen.
Require Import BS.World BS.Judge BS.JudgeFacts BS.CacheOpenFacts BS.JudgeCacheFacts.
Require Import BS.Common BS.Api BS.Index BS.Data BS.Seek BS.SeekGenFacts.
Require BSgen.SeekGen.
Import ListNotations.

(* (I) the line estimate of a cache level never panics (saturating subtraction after the fix), except in the
   combination the Rust marks unreachable!() *)
Theorem C11_estimate_total : forall r p dl,
  (match start_area_ r, end_area_ r with STillEnd _, EWindow _ _ => False | _, _ => True end) ->
  exists mx mn, estimate_lines r p dl = Ok (mx, mn).
Proof. exact estimate_lines_total. Qed.
Print Assumptions C11_estimate_total.
(* (I refines S) under the invariant of a series with cache levels (RepS, props/C08.v), for every range and every n >= 1:
   whichever level the estimate loop settles on, read_n returns the uniform bucket means (bucket size b >= 1, at most 2n
   samples) of the lines of THAT level inside the range - the source lines, or the bucket means a cache holds - or nothing
   when that level has no line in the range. This is Layer S's read_n_allowed. *)
Theorem C11_read_through_levels : forall p fs s hdr ihdr l cs n lo hi d,
  RepS fs s p hdr ihdr l cs -> (1 <= n)%N ->
  sorted_lens (s_down s) = Ok true -> pick_level (s_data s) (s_down s) n lo hi = Ok d ->
  exists lev, In lev (levels p l cs)
    /\ ((exists b, b >= 1 /\ read_n s n lo hi fs = (fs, Ok (resample p b (select lo hi lev)))
                   /\ (len (resample p b (select lo hi lev)) <= 2 * n)%N)
        \/ (select lo hi lev = [] /\ read_n s n lo hi fs = (fs, Err ERange))).
Proof. exact read_n_levels. Qed.
Print Assumptions C11_read_through_levels.

(* the order check at the start of read_n (after the fix D17: line counts, not byte lengths) passes whenever the bucket
   sizes were configured in ascending order *)
Theorem C11_order_check : forall p fs l down cs, Forall2 (cache_ok p fs l) down cs -> StronglySorted le (map fst cs) ->
  sorted_lens down = Ok true.
Proof. exact sorted_lens_ok. Qed.
Print Assumptions C11_order_check.

(* the loop only ever settles on the source or one of the configured levels *)
Theorem C11_level_is_configured : forall (t:list dsample) cur n lo hi d,
  pick_level cur t n lo hi = Ok d -> d = cur \/ In d (map ds_data t).
Proof. exact pick_level_mem. Qed.
Print Assumptions C11_level_is_configured.
(* (I) RoughPos::new never produces the pair of search areas that estimate_lines marks unreachable!(): on a series in
   its invariant it answers Ok with an admissible pair, or a range error - never a panic *)
Theorem C11_unreachable_arm_is_unreachable : forall fs sr p hdr ihdr l, RepH fs sr p hdr ihdr l -> forall lo hi,
  match rough_new (s_data sr) lo hi with
  | Ok r => match start_area_ r, end_area_ r with STillEnd _, EWindow _ _ => False | _, _ => True end
  | Err _ => True | Panic => False | OutOfFuel => False end.
Proof. exact rough_new_areas. Qed.
Print Assumptions C11_unreachable_arm_is_unreachable.

(* hence the estimate loop returns a level for every cache configuration, every n and every pair of bounds *)
Theorem C11_level_loop_total : forall p fs l n lo hi down cs, Forall2 (cache_ok p fs l) down cs ->
  forall cur, exists d, pick_level cur down n lo hi = Ok d.
Proof. exact pick_level_total. Qed.
Print Assumptions C11_level_loop_total.

(* C11 in one statement: under the invariant of a series with cache levels whose bucket sizes were configured in ascending
   order, for every n >= 1 and every pair of bounds read_n answers with the uniform bucket means (at most 2n of them) of
   the lines of one of the levels inside the range, or with a range error when that level has no line there *)
Theorem C11_read_n_total : forall p fs s hdr ihdr l cs n lo hi,
  RepS fs s p hdr ihdr l cs -> StronglySorted le (map fst cs) -> (1 <= n)%N ->
  exists lev, In lev (levels p l cs)
    /\ ((exists b, b >= 1 /\ read_n s n lo hi fs = (fs, Ok (resample p b (select lo hi lev)))
                   /\ (len (resample p b (select lo hi lev)) <= 2 * n)%N)
        \/ (select lo hi lev = [] /\ read_n s n lo hi fs = (fs, Err ERange))).
Proof. exact read_n_levels_total. Qed.
Print Assumptions C11_read_n_total.
(* not proved: WHICH level the loop settles on is the one Layer S's read_n_allowed prefers (the judge checks the answer
   against every admissible level); the state after reopen is C09. *)

(* Tie 1 for the line estimate: gen/EstimateGen.v is translated on every run from RoughPos::estimate_lines in
   /repo/src/seek/estimate.rs (tools/translate_estimate.py). The translated sixteen-arm match IS the match of the model
   about which the totality of the level loop is proved, and its only panicking arm is the one the source marks
   unreachable!() - re-checked against the current source text on every run *)
Theorem C11_source_estimate_is_model : forall r p dl,
  estimate_lines r p dl
  = match BSgen.EstimateGen.gen_estimate_bytes (start_area_ r) (end_area_ r) p dl with
    | Ok mm => Ok ((fst mm / line_size p)%N, (snd mm / line_size p)%N)
    | Err e => Err e
    | Panic => Panic
    | OutOfFuel => OutOfFuel
    end.
Proof. exact gen_estimate_is_model. Qed.
Print Assumptions C11_source_estimate_is_model.
Theorem C11_source_estimate_total : forall sa ea p dl,
  (match sa, ea with STillEnd _, EWindow _ _ => False | _, _ => True end) ->
  exists mx mn, BSgen.EstimateGen.gen_estimate_bytes sa ea p dl = Ok (mx, mn).
Proof. exact gen_estimate_total. Qed.
Print Assumptions C11_source_estimate_total.

(* (I refines S, at the level of the public API, with cache levels) every session on a series created with ANY cache levels
   (bucket sizes >= 1 in ascending order, pairwise different file names) - appends accepted or refused (every level follows),
   full / bounded / first-n reads, RESAMPLING READS THROUGH THE LEVELS, counts, accessors, with any arguments - run on the model
   of the library is ACCEPTED BY THE JUDGE at every step: the answer of a resampling read is the uniform bucket means of one of
   the levels the judge allows, and after every step the files of the model - the data and index file of the series and of
   EVERY level - are byte for byte the files the judge expects (each level: the bucket means of the source) *)
Theorem C11_session_with_caches_accepted_by_judge : forall (name:list byte) (p:nat) (hdr:list byte) (Bs:list N),
  (len (params_to_text BSgen.Consts.version (N.of_nat p) ++ hdr) <= 65535)%N ->
  Forall (fun B => (1 <= B)%N /\ (len (config_header name B) <= 65535)%N) Bs ->
  NoDup ([name ++ ext_data; name ++ ext_index] ++ flat_map (cache_names name) Bs) ->
  StronglySorted le (map fst (map (open_spec name) Bs)) ->
  forall cb ops, Forall sess_op ops ->
  accepted World.init_world judge_init (ONew name (N.of_nat p) hdr Bs cb :: ops).
Proof. exact session_accepted_caches. Qed.
Print Assumptions C11_session_with_caches_accepted_by_judge.

(* the bound arithmetic and the 65534 comparison of the seek, as the current source text makes them (translated on every run by
   tools/translate_seek.py into gen/SeekGen.v), are the model's: the reads and the repair this property speaks of go through them *)
Theorem C11_source_start_bound_is_model : forall d b first last, data_range d = Ok (Some (first, last)) ->
  checked_start_time d b = BSgen.SeekGen.gen_checked_start first last b.
Proof. exact gen_checked_start_is_model. Qed.
Print Assumptions C11_source_start_bound_is_model.
Theorem C11_source_end_bound_is_model : forall d b first last, data_range d = Ok (Some (first, last)) ->
  checked_end_time d b = BSgen.SeekGen.gen_checked_end first last b.
Proof. exact gen_checked_end_is_model. Qed.
Print Assumptions C11_source_end_bound_is_model.
Theorem C11_source_in_gap_is_model : forall val gs, in_gap val gs = BSgen.SeekGen.gen_in_gap val gs.
Proof. exact gen_in_gap_is_model. Qed.
Print Assumptions C11_source_in_gap_is_model.
