(* C11 - Resampling reads through caches are transparent, bounded and total
   Property theorems only: statements, `exact <lemma>`, Print Assumptions, Check pins.
   Layers: F = documented format (Format.v), S = abstract spec (Spec/SpecStep), I = model of the Rust (World.step'). *)
From Coq Require Import List NArith Bool Arith Sorted.
From Coq Require Import Strings.Byte.
Require Import BS.Bytes BS.Common BS.Api BS.Layout BS.Format BS.FormatFacts BS.Spec BS.SpecStep BS.Sections.
Require Import BS.FS BS.FSFacts BS.Meta BS.MetaFacts BS.Header BS.Reader BS.ReaderFacts BS.Index BS.Data BS.DataFacts BS.Seek BS.SeekFacts BS.Series BS.SeriesFacts BS.ReadAllFacts.
Import ListNotations.

(* (I) the line estimate of a cache level never panics (saturating subtraction after the fix), except in the
   combination the Rust marks unreachable!() *)
Theorem C11_estimate_total : forall r p dl,
  (match start_area_ r, end_area_ r with STillEnd _, EWindow _ _ => False | _, _ => True end) ->
  exists mx mn, estimate_lines r p dl = Ok (mx, mn).
Proof. exact estimate_lines_total. Qed.
Print Assumptions C11_estimate_total.
(* whichever level the loop picks, the read on that level is props/C10.v applied to that level's series;
   partial: the caches' own invariant (RepC) and the level loop are not proved yet. *)
