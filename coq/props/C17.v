(* C17 - Create/open contract: header and payload size are stored and enforced
   Property theorems only: statements, `exact <lemma>`, Print Assumptions, Check pins.
   Layers: F = documented format (Format.v), S = abstract spec (Spec/SpecStep), I = model of the Rust (World.step'). *)
From Coq Require Import List NArith Bool Arith Sorted.
From Coq Require Import Strings.Byte.
Require Import BS.Bytes BS.Common BS.Api BS.Layout BS.Format BS.FormatFacts BS.Spec BS.SpecStep BS.Sections.
Require Import BS.World BS.Known BS.Judge BS.JudgeFacts.
Require Import BS.FS BS.FSFacts BS.Meta BS.MetaFacts BS.Header BS.Reader BS.ReaderFacts BS.Index BS.Data BS.DataFacts BS.Seek BS.SeekFacts BS.Series BS.SeriesFacts BS.ReadAllFacts BS.HeaderFacts BS.OpenFacts BS.CacheFacts BS.CreateFailFacts.
Import ListNotations.

(* (I) creating over an existing series fails and leaves every file untouched *)
Theorem C17_exists_untouched : forall fs name p hdr caches cb0,
  fs_mem fs (name ++ ext_data) = true -> (len (params_to_text BSgen.Consts.version p ++ hdr) <= 65535)%N ->
  series_new name p hdr caches cb0 fs = (fs, Err EExists).
Proof. exact new_over_existing. Qed.
Print Assumptions C17_exists_untouched.
(* a header that does not fit the 16 bit length: error, nothing created (after the fix) *)
Theorem C17_header_too_large_no_residue : forall fs name p hdr caches cb0,
  (65535 < len (params_to_text BSgen.Consts.version p ++ hdr))%N ->
  series_new name p hdr caches cb0 fs = (fs, Err EHeaderTooLarge).
Proof. exact new_header_too_large. Qed.
Print Assumptions C17_header_too_large_no_residue.
(* a stale index file: error, and the data file that had been created is removed again (after the fix) *)
Theorem C17_stale_index_no_residue : forall fs name p hdr cb0,
  fs_mem fs (name ++ ext_data) = false -> fs_mem fs (name ++ ext_index) = true ->
  (len (params_to_text BSgen.Consts.version p ++ hdr) <= 65535)%N ->
  exists fs', series_new name p hdr [] cb0 fs = (fs', Err EExists) /\ forall g, fs_get fs' g = fs_get fs g.
Proof. exact new_stale_index. Qed.
Print Assumptions C17_stale_index_no_residue.
(* opening a missing series fails and creates nothing *)
Theorem C17_missing_creates_nothing : forall fs name popt hdr caches cb0,
  fs_mem fs (name ++ ext_data) = false -> builder_open name popt hdr caches cb0 fs = (fs, Err ENotFound).
Proof. exact builder_open_missing. Qed.
Print Assumptions C17_missing_creates_nothing.
(* a successful create stores header and payload size: the invariant RepH holds for the empty series with the
   data file = outer header ++ (text preamble ++ user header) *)
Theorem C17_create : forall fs name p hdr cb0,
  fs_mem fs (name ++ ext_data) = false -> fs_mem fs (name ++ ext_index) = false ->
  (len (params_to_text BSgen.Consts.version (N.of_nat p) ++ hdr) <= 65535)%N ->
  let header := params_to_text BSgen.Consts.version (N.of_nat p) ++ hdr in
  exists fs' s,
    series_new name (N.of_nat p) hdr [] cb0 fs = (fs', Ok s)
    /\ RepH fs' s p (le_enc 2 (len header) ++ BSgen.Consts.line_ends ++ header) (le_enc 2 0 ++ BSgen.Consts.line_ends) []
    /\ s_cb s = cb0
    /\ of_name (d_file (s_data s)) = name ++ ext_data /\ of_name (ix_file (d_index (s_data s))) = name ++ ext_index
    /\ (forall g, g <> name ++ ext_data -> g <> name ++ ext_index -> fs_get fs' g = fs_get fs g).
Proof. exact series_new_ok. Qed.
Print Assumptions C17_create.
(* the header parser on the preamble the library writes, for EVERY payload size (u64) and every user header: it returns
   the stored payload size and exactly the stored user header; when another payload size is demanded: Mismatch *)
Theorem C17_header_parse : forall p uhdr popt, (p < 2^64)%N ->
  check_and_split (params_to_text BSgen.Consts.version p ++ uhdr) popt
  = match popt with
    | Some q => if (p =? q)%N then Ok (p, uhdr) else Err EMismatch
    | None => Ok (p, uhdr)
    end.
Proof. exact header_parse. Qed.
Print Assumptions C17_header_parse.

(* opening with another payload size than the stored one: an error, no file is touched (any content after the header) *)
Theorem C17_other_payload_size : forall p fs name uhdr region q caches cb,
  let header := params_to_text BSgen.Consts.version (N.of_nat p) ++ uhdr in
  (len header <= 65535)%N -> (N.of_nat p < 2^64)%N -> q <> N.of_nat p ->
  fs_get fs (name ++ ext_data) = Some (outer header ++ region) ->
  series_open name (Some q) caches cb fs = (fs, Err EMismatch).
Proof. exact open_other_payload. Qed.
Print Assumptions C17_other_payload_size.

(* opening with another user header than the stored one: an error, no file is touched; with the stored one, or any:
   the handle, and the stored header is returned (props/C04.v C04_reopen_own). Conditions (b), (c) as in C04. *)
Theorem C17_other_header : forall p fs s uhdr name popt e cb l,
  let header := params_to_text BSgen.Consts.version (N.of_nat p) ++ uhdr in
  RepH fs s p (outer header) (outer []) l ->
  of_name (d_file (s_data s)) = name ++ ext_data -> of_name (ix_file (d_index (s_data s))) = name ++ ext_index ->
  (len header <= 65535)%N -> (len (encode p l) < 2^64)%N -> (N.of_nat p < 2^64)%N ->
  (popt = None \/ popt = Some (N.of_nat p)) ->
  (l = [] \/ tail_clean p (encode p l)) ->
  last_meta_timestamp p (encode p l) = Ok (full_after p None l) ->
  e <> uhdr ->
  builder_open name popt (HdrIs e) [] cb fs = (fs, Err EMismatch).
Proof. exact open_other_header. Qed.
Print Assumptions C17_other_header.

(* (I) create with cache levels when the files of a requested level already exist (a stale cache data file, or only a stale
   cache index file) while the series itself and the levels requested before it do not: the create fails, and everything it
   had made so far - the series' data and index file, both files of every earlier level - is removed again: the directory
   afterwards holds, file for file, what it held before (after the repair 4032ba6 of D13b) *)
Theorem C17_stale_cache_no_residue : forall p fs name hdr cb (Bs1 Bs2:list N) (B:N),
  let header := params_to_text BSgen.Consts.version (N.of_nat p) ++ hdr in
  fs_mem fs (name ++ ext_data) = false -> fs_mem fs (name ++ ext_index) = false -> (len header <= 65535)%N ->
  Forall (level_free fs name) Bs1 -> level_stale fs name B ->
  NoDup ([name ++ ext_data; name ++ ext_index] ++ flat_map (cache_names name) (Bs1 ++ [B])) ->
  exists fs', series_new name (N.of_nat p) hdr (Bs1 ++ B :: Bs2) cb fs = (fs', Err EExists) /\ forall g, fs_get fs' g = fs_get fs g.
Proof. exact new_stale_cache. Qed.
Print Assumptions C17_stale_cache_no_residue.

(* (I refines S, at the level of the public API) REFUSED CALLS INSIDE ANY HISTORY: between a close and the next open of a series
   that exists, any number of creates of the same name - with ANY payload size and ANY header (the "create, else open" start-up
   of an application; headers too large for the length field included) - and of opens that demand another payload size than
   the stored one, and of opens of OTHER series that do not exist (JudgeFacts.HRefused / rtry / try_valid), at any point of a history of appends, reads, clean reopens and
   crashes: the model answers each with an error, the judge accepts it, every file of the model stays byte for byte what the
   judge expects (nothing is created, removed or altered), and the open that follows continues the same series *)
Theorem C17_refused_calls_accepted_by_judge : forall (name:list byte) (p:nat) (hdr:list byte),
  (len (params_to_text BSgen.Consts.version (N.of_nat p) ++ hdr) <= 65535)%N -> (N.of_nat p < 2^64)%N ->
  forall cb hs, JudgeFacts.hvalid name p hdr [] hs ->
  accepted World.init_world judge_init (ONew name (N.of_nat p) hdr [] cb :: JudgeFacts.flatten name hs).
Proof. exact history_accepted. Qed.
Print Assumptions C17_refused_calls_accepted_by_judge.
Check (fun name p hdr => @new_refused_accepted name p hdr).
Check (fun name p hdr => @open_other_p_accepted name p hdr).
Check history_accepted_example.

(* "open of a missing series is an error and creates nothing", at the level of the judge: before anything exists, an open with
   any arguments is answered with an error the judge accepts, no file appears, and whatever follows is judged as if the open had
   not happened - so every accepted session may be preceded by any number of such opens *)
Theorem C17_open_missing_accepted_by_judge : forall name popt hdropt (caches:list N) cb rest,
  existsb (fun B => (B =? 0)%N) caches = false ->
  accepted World.init_world judge_init rest -> accepted World.init_world judge_init (OOpen name popt hdropt caches cb :: rest).
Proof. exact open_missing_accepted. Qed.
Print Assumptions C17_open_missing_accepted_by_judge.
