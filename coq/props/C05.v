(* C05 - Torn-tail recovery yields exactly the fully written prefix
   Property theorems only: statements, `exact <lemma>`, Print Assumptions, Check pins.
   Layers: F = documented format (Format.v), S = abstract spec (Spec/SpecStep), I = model of the Rust (World.step'). *)
From Coq Require Import List NArith Bool Arith Sorted.
From Coq Require Import Strings.Byte.
Require Import BS.Bytes BS.Common BS.Api BS.Layout BS.Format BS.FormatFacts.
Import ListNotations.

(* an intact region recovers to all its lines and its whole length *)
Theorem C05_recover_intact : forall (p:nat) (l:list line), wf_series p l ->
  recover p (encode p l) = Some (l, N.of_nat (length (encode p l))).
Proof. exact recover_encode. Qed.
Print Assumptions C05_recover_intact.
