(* C05 - Torn-tail recovery
   Property theorems only: statements, `exact <lemma>`, Print Assumptions, Check pins.
   Layers: F = documented format (Format.v), S = abstract spec (Spec/SpecStep), I = model of the Rust (World.step'). *)
From Coq Require Import List NArith Bool Arith Sorted.
From Coq Require Import Strings.Byte.
Require Import BS.Bytes BS.Common BS.Api BS.Layout BS.Format BS.FormatFacts BS.Spec BS.SpecStep.
Require Import BS.FS BS.FSFacts BS.Meta BS.MetaFacts BS.Header BS.Reader BS.ReaderFacts BS.Index BS.Data BS.DataFacts BS.Seek BS.Series BS.SeriesFacts BS.ReadAllFacts BS.TotalFacts BS.ExtractFacts BS.OpenFacts BS.TornFacts BS.TornGenFacts BS.Sections BS.HistoryFacts.
Require Import BS.RecoverFacts.
Require Import BS.World BS.Judge BS.JudgeFacts.
Import ListNotations.



(* (F) an intact region recovers to all its lines and its whole length *)
Theorem C05_recover_intact : forall (p:nat) (l:list line), wf_series p l ->
  recover p (encode p l) = Some (l, N.of_nat (length (encode p l))).
Proof. exact recover_encode. Qed.
Print Assumptions C05_recover_intact.

(* (I refines S) FULL STATEMENT for payload sizes of 4 bytes and more, power-loss model and process-kill model alike.
   Let l be ANY well-formed history that was being written, let the data file be cut at ANY byte length c (header intact),
   and let the index file be absent or cut at ANY byte length ci - ahead of the data, behind it, inside an entry, inside its
   header - independently of the data file; a leftover .part file may exist. Then opening succeeds, the handle represents
   exactly firstn k l where k is the number of lines that were completely written before the cut (the encoding of k lines
   fits into c bytes, that of k+1 lines does not): no partial, phantom, re-timed or reordered line; the data file is the
   encoding of those k lines, the index file is rewritten or rebuilt to the index of that encoding; no other file changes. *)
Theorem C05_open_after_crash : forall p, 4 <= p -> forall fs name uhdr popt hdropt cb l c,
  let header := params_to_text BSgen.Consts.version (N.of_nat p) ++ uhdr in
  wf_series p l -> c <= length (encode p l) -> (len header <= 65535)%N -> (len (encode p l) < 2^64)%N -> (N.of_nat p < 2^64)%N ->
  fs_get fs (name ++ ext_data) = Some (outer header ++ firstn c (encode p l)) ->
  index_state fs name (sections p (encode p l)) ->
  (popt = None \/ popt = Some (N.of_nat p)) ->
  match hdropt with HdrIs e => e = uhdr | HdrAny => True end ->
  exists fs' s k, builder_open name popt hdropt [] cb fs = (fs', Ok (s, uhdr))
    /\ k <= length l /\ length (encode p (firstn k l)) <= c /\ (k < length l -> c < length (encode p (firstn (S k) l)))
    /\ RepH fs' s p (outer header) (outer []) (firstn k l) /\ s_cb s = cb
    /\ (forall g, g <> name ++ ext_data -> g <> name ++ ext_index -> g <> name ++ ext_part -> fs_get fs' g = fs_get fs g).
Proof. exact torn_open. Qed.
Print Assumptions C05_open_after_crash.

(* the same for EVERY payload size, under the one condition that no continuation slot of a full-timestamp section looks like
   a marker line (nm_sec: vacuous for payload sizes >= 4 - there are no such slots; for 0..3 its failure is the class of the
   known finding D6) *)
Theorem C05_open_after_crash_any_payload : forall p fs name uhdr popt hdropt cb l c,
  let header := params_to_text BSgen.Consts.version (N.of_nat p) ++ uhdr in
  wf_series p l -> Forall (nm_sec p) (secs_of l) -> c <= length (encode p l) ->
  (len header <= 65535)%N -> (len (encode p l) < 2^64)%N -> (N.of_nat p < 2^64)%N ->
  fs_get fs (name ++ ext_data) = Some (outer header ++ firstn c (encode p l)) ->
  index_state fs name (sections p (encode p l)) ->
  (popt = None \/ popt = Some (N.of_nat p)) ->
  match hdropt with HdrIs e => e = uhdr | HdrAny => True end ->
  exists fs' s k, builder_open name popt hdropt [] cb fs = (fs', Ok (s, uhdr))
    /\ k <= length l /\ length (encode p (firstn k l)) <= c /\ (k < length l -> c < length (encode p (firstn (S k) l)))
    /\ RepH fs' s p (outer header) (outer []) (firstn k l) /\ s_cb s = cb
    /\ (forall g, g <> name ++ ext_data -> g <> name ++ ext_index -> g <> name ++ ext_part -> fs_get fs' g = fs_get fs g).
Proof. exact torn_open_gen. Qed.
Print Assumptions C05_open_after_crash_any_payload.

(* the repaired series accepts further appends and round-trips them *)
Theorem C05_repair_then_append : forall p, 4 <= p -> forall fs name uhdr popt hdropt cb l c ts pay,
  let header := params_to_text BSgen.Consts.version (N.of_nat p) ++ uhdr in
  wf_series p l -> c <= length (encode p l) -> (len header <= 65535)%N -> (len (encode p l) < 2^64)%N -> (N.of_nat p < 2^64)%N ->
  fs_get fs (name ++ ext_data) = Some (outer header ++ firstn c (encode p l)) ->
  index_state fs name (sections p (encode p l)) ->
  (popt = None \/ popt = Some (N.of_nat p)) ->
  match hdropt with HdrIs e => e = uhdr | HdrAny => True end ->
  exists fs' s k, builder_open name popt hdropt [] cb fs = (fs', Ok (s, uhdr)) /\ k <= length l
    /\ (accepts p (firstn k l) ts pay = true -> (ts < 2^64)%N ->
        exists fs'' s', push_line s ts pay fs' = (fs'', Ok s')
          /\ forall lo hi, read_all s' lo hi fs'' = (fs'', Ok (select lo hi (firstn k l ++ [(ts, pay)])))
                           \/ (select lo hi (firstn k l ++ [(ts, pay)]) = [] /\ read_all s' lo hi fs'' = (fs'', Err ERange))).
Proof. exact torn_open_then_append. Qed.
Print Assumptions C05_repair_then_append.

(* the tail repair of the data file alone (FileWithInlineMeta::new) *)
Theorem C05_tail_repair : forall p, 4 <= p -> forall fs o hdr l c, wf_series p l -> c <= length (encode p l) ->
  file_is fs o hdr (firstn c (encode p l)) ->
  exists fs' k, fwim_new o p fs = (fs', Ok tt) /\ k <= length l
    /\ file_is fs' o hdr (encode p (firstn k l))
    /\ length (encode p (firstn k l)) <= c
    /\ (k < length l -> c < length (encode p (firstn (S k) l)))
    /\ (forall g, g <> of_name o -> fs_get fs' g = fs_get fs g).
Proof. exact fwim_new_torn. Qed.
Print Assumptions C05_tail_repair.

(* the index: whatever prefix of a longer history's index is found, it is accepted only when it is the index of the data *)
Theorem C05_index_validation : forall fs name (esL:list entry) (j:nat) ci v t,
  Forall entry_ok esL -> 1 <= j -> j <= length esL ->
  (forall i e, nth_error esL i = Some e -> i < j -> (snd e <= v)%N /\ (fst e = t -> i = j - 1)) ->
  (forall i e, nth_error esL i = Some e -> j <= i -> (v < snd e)%N /\ fst e <> t) ->
  (forall e, nth_error esL (j - 1) = Some e -> fst e = t) ->
  fs_get fs (name ++ ext_index) = Some (firstn ci (outer [] ++ enc_index esL)) ->
  exists fs1 r, index_open name (Some v) (Some t) fs = (fs1, r)
    /\ (forall g, g <> name ++ ext_index -> fs_get fs1 g = fs_get fs g)
    /\ match r with
       | Ok ix => ix = {| ix_file := {| of_name := name ++ ext_index; of_off := len (outer []) |};
                          ix_entries := firstn j esL; ix_last := Some t |}
                  /\ fs_get fs1 (name ++ ext_index) = Some (outer [] ++ enc_index (firstn j esL))
       | Err _ => True
       | _ => False
       end.
Proof. exact index_open_prefix. Qed.
Print Assumptions C05_index_validation.

(* ... and when it is not accepted, the rebuild writes the index of the data and removes the .part file *)
Theorem C05_index_rebuild : forall p fs data hdr name l, wf_series p l ->
  file_is fs data hdr (encode p l) ->
  of_name data <> name ++ ext_part -> of_name data <> name ++ ext_index ->
  exists fs' ix, create_from_byteseries data p name fs = (fs', Ok ix)
    /\ fs_get fs' (name ++ ext_index) = Some (outer [] ++ enc_index (sections p (encode p l)))
    /\ ix_file ix = {| of_name := name ++ ext_index; of_off := len (outer []) |}
    /\ ix_entries ix = sections p (encode p l)
    /\ ix_last ix = option_map fst (last_opt (sections p (encode p l)))
    /\ fs_get fs' (name ++ ext_part) = None
    /\ (forall g, g <> name ++ ext_part -> g <> name ++ ext_index -> fs_get fs' g = fs_get fs g).
Proof. exact create_from_byteseries_ok. Qed.
Print Assumptions C05_index_rebuild.
(* (I refines S) EVERY HISTORY: repeated crash-repair-append cycles of any length. A history is any list of steps
   (HistoryFacts.hop): an append (accepted or refused), a read, a close-and-reopen, or a crash - the disk image after the
   crash holds the data file cut at ANY byte and the index absent or cut at ANY byte - followed by an open. hexec runs the
   model (push_line, read_all, builder_open); hspec is Layer S: an accepted append adds its line, a crash keeps exactly the
   completely written lines (complete c l of them), everything else keeps the lines. hvalid asks of each step only what
   the property quantifies over (u64 timestamps, an open with matching parameters, less than 2^64 bytes, and for payload
   sizes 0..3 the marker-word condition of C04). Then every step of the history succeeds in the model and leaves the series
   in its invariant for exactly the lines Layer S expects. *)
Theorem C05_every_history : forall p name uhdr,
  (len (params_to_text BSgen.Consts.version (N.of_nat p) ++ uhdr) <= 65535)%N -> (N.of_nat p < 2^64)%N ->
  forall ops st l, hinv p name uhdr st l -> hvalid_all p name uhdr l ops ->
  exists st', hrun name st ops = Some st' /\ hinv p name uhdr st' (fold_left (hspec p) ops l).
Proof. exact history_ok. Qed.
Print Assumptions C05_every_history.

(* from creation, and every read after the history returns exactly the selected lines of what Layer S expects *)
Theorem C05_every_history_from_create : forall p name uhdr,
  (len (params_to_text BSgen.Consts.version (N.of_nat p) ++ uhdr) <= 65535)%N -> (N.of_nat p < 2^64)%N ->
  forall fs cb0 ops,
  fs_mem fs (name ++ ext_data) = false -> fs_mem fs (name ++ ext_index) = false -> hvalid_all p name uhdr [] ops ->
  exists fs0 s0 st', series_new name (N.of_nat p) uhdr [] cb0 fs = (fs0, Ok s0)
    /\ hrun name (fs0, s0) ops = Some st' /\ hinv p name uhdr st' (fold_left (hspec p) ops [])
    /\ forall lo hi, let l := fold_left (hspec p) ops [] in
          read_all (snd st') lo hi (fst st') = (fst st', Ok (select lo hi l))
          \/ (select lo hi l = [] /\ read_all (snd st') lo hi (fst st') = (fst st', Err ERange)).
Proof. exact history_from_create. Qed.
Print Assumptions C05_every_history_from_create.

(* the number of completely written lines is determined by the cut *)
Theorem C05_complete_lines : forall p c l k, k <= length l -> elen p l k <= c -> (k < length l -> c < elen p l (S k)) ->
  complete p c l = k.
Proof. exact complete_unique. Qed.
Print Assumptions C05_complete_lines.

(* the premises are satisfiable: two appends, a crash cutting the second line in half and losing the index, an append, a
   reopen: Layer S expects the lines 10 and 30 *)
Check history_example.
(* partial: payload sizes 0..3 with 0xFFFF words in a continuation slot (known finding D6) are outside the theorems;
   series with cache levels: C09. *)

(* (F) the specification's side of C05: Layer F's recovery (Format.recover - the reader with which the judge decides which
   lines a torn data file still holds) applied to the reference encoding of any well-formed list cut at ANY byte length
   returns exactly the lines completely written before the cut - the maximal k with |encode (firstn k l)| <= c, the same k
   the theorems about the model's open after a crash speak of - and the length of their encoding as the intact prefix *)
Theorem C05_recovery_of_a_cut_encoding : forall p (l:list (N * list byte)) c, wf_series p l -> c <= length (encode p l) ->
  exists k, k <= length l /\ length (encode p (firstn k l)) <= c /\ (k < length l -> c < length (encode p (firstn (S k) l)))
    /\ recover p (firstn c (encode p l)) = Some (firstn k l, N.of_nat (length (encode p (firstn k l)))).
Proof. exact recover_cut. Qed.
Print Assumptions C05_recovery_of_a_cut_encoding.

(* (I refines S, at the level of the public API, across crashes) every history - create a series in an empty directory, then
   any sequence of session operations (appends accepted or refused, every kind of read, counts, accessors, with any
   arguments), clean close-and-reopen steps and CRASHES (close; the data file loses its last kd bytes, any kd up to its whole
   data region; the index file is left alone, removed, or cut by any number of bytes; open) - run on the model of the library
   is ACCEPTED BY THE JUDGE at every step: the open after a crash succeeds, every later answer is the one Layer S expects for
   exactly the completely written lines, and after every step the files of the model are byte for byte the files the judge
   expects (the data file cut back to the intact prefix, the index rebuilt or accepted as the index of that prefix). Payload
   sizes 0..3 under the marker-word condition nm_sec on the lines before the crash (known finding D6 outside it). *)
Theorem C05_history_accepted_by_judge : forall (name:list byte) (p:nat) (hdr:list byte),
  (len (params_to_text BSgen.Consts.version (N.of_nat p) ++ hdr) <= 65535)%N -> (N.of_nat p < 2^64)%N ->
  forall cb hs, JudgeFacts.hvalid name p hdr [] hs ->
  accepted World.init_world judge_init (ONew name (N.of_nat p) hdr [] cb :: JudgeFacts.flatten name hs).
Proof. exact history_accepted. Qed.
Print Assumptions C05_history_accepted_by_judge.
