(* C05 - Torn-tail recovery yields exactly the fully written prefix
   Property theorems only: statements, `exact <lemma>`, Print Assumptions, Check pins.
   Layers: F = documented format (Format.v), S = abstract spec (Spec/SpecStep), I = model of the Rust (World.step'). *)
From Coq Require Import List NArith Bool Arith Sorted.
From Coq Require Import Strings.Byte.
Require Import BS.Bytes BS.Common BS.Api BS.Layout BS.Format BS.FormatFacts BS.Spec BS.SpecStep.
Require Import BS.FS BS.FSFacts BS.Meta BS.MetaFacts BS.Header BS.Reader BS.ReaderFacts BS.Index BS.Data BS.DataFacts BS.Seek BS.Series BS.SeriesFacts.
Import ListNotations.

(* (F) an intact region recovers to all its lines and its whole length *)
Theorem C05_recover_intact : forall (p:nat) (l:list line), wf_series p l ->
  recover p (encode p l) = Some (l, N.of_nat (length (encode p l))).
Proof. exact recover_encode. Qed.
Print Assumptions C05_recover_intact.
(* partial: recover on every cut prefix and the repair pipeline of the model are not proved yet. *)
