(* C03 - Only strictly newer timestamps are accepted; refused appends change nothing
   Property theorems only: statements, `exact <lemma>`, Print Assumptions, Check pins.
   Layers: F = documented format (Format.v), S = abstract spec (Spec/SpecStep), I = model of the Rust (World.step'). *)
From Coq Require Import List NArith Bool Arith Sorted.
From Coq Require Import Strings.Byte.
Require Import BS.Bytes BS.Common BS.Api BS.Layout BS.Format BS.FormatFacts BS.Spec BS.SpecStep.
Require Import BS.FS BS.FSFacts BS.Meta BS.MetaFacts BS.Header BS.Reader BS.ReaderFacts BS.Index BS.Data BS.DataFacts BS.Seek BS.Series BS.SeriesFacts BS.CacheFacts.
Require Import BS.World BS.Judge BS.JudgeFacts.
Import ListNotations.

(* (I refines S) an append is accepted iff `accepts` (Layer S: right length, strictly after the last
   accepted timestamp); accepted: the handle represents l ++ [x] and only the data and index file
   change; refused: an error, the file system is returned unchanged (World.with_handle keeps the
   old handle on Err). For all payload sizes, all series, all timestamps below 2^64. *)
Theorem C03_append_refines_spec : forall fs s p hdr ihdr l ts pay,
  RepH fs s p hdr ihdr l -> (ts < 2^64)%N ->
  if accepts p l ts pay
  then exists fs' s', push_line s ts pay fs = (fs', Ok s')
         /\ RepH fs' s' p hdr ihdr (l ++ [(ts, pay)])
         /\ (forall g, g <> of_name (d_file (s_data s)) -> g <> of_name (ix_file (d_index (s_data s))) -> fs_get fs' g = fs_get fs g)
         /\ of_name (d_file (s_data s')) = of_name (d_file (s_data s))
         /\ of_name (ix_file (d_index (s_data s'))) = of_name (ix_file (d_index (s_data s)))
  else exists e, push_line s ts pay fs = (fs, Err e).
Proof. exact push_line_ok. Qed.
Print Assumptions C03_append_refines_spec.
(* partial: stability of the rule across reopen and tail repair needs the open theorem (C04/C05), which
   is not proved yet; that part is covered by the judge + correspondence runs. *)

(* (I refines S) the same with any number of cache levels (invariant RepS, props/C08.v): an accepted append extends the source
   and every level; a refused one returns an error and writes nothing - the checks precede every write *)
Theorem C03_accepted_with_caches : forall fs s p hdr ihdr l cs ts pay,
  RepS fs s p hdr ihdr l cs -> accepts p l ts pay = true ->
  exists fs' s', push_line s ts pay fs = (fs', Ok s')
    /\ RepS fs' s' p hdr ihdr (l ++ [(ts, pay)]) cs
    /\ (forall g, ~ In g (all_files s) -> fs_get fs' g = fs_get fs g)
    /\ all_files s' = all_files s /\ s_cb s' = s_cb s
    /\ of_name (d_file (s_data s')) = of_name (d_file (s_data s))
    /\ of_name (ix_file (d_index (s_data s'))) = of_name (ix_file (d_index (s_data s)))
    /\ map cache_files (s_down s') = map cache_files (s_down s).
Proof. exact push_line_caches. Qed.
Print Assumptions C03_accepted_with_caches.
Theorem C03_refused_with_caches : forall fs s p hdr ihdr l cs ts pay,
  RepS fs s p hdr ihdr l cs -> (ts < 2^64)%N -> accepts p l ts pay = false ->
  exists e, push_line s ts pay fs = (fs, Err e).
Proof. exact push_refused_caches. Qed.
Print Assumptions C03_refused_with_caches.

(* (I refines S, at the level of the public API) every session - create a series in an empty directory, then ANY sequence of
   appends (accepted or refused), full and bounded reads, first-n reads, line counts and accessor calls, with any arguments
   the types allow - run on the model of the library is ACCEPTED BY THE JUDGE, the extracted specification that decides
   whether an observed behaviour satisfies the properties: every answer of the model is in the set the judge allows, after
   every step the files of the model are byte for byte the files the judge expects, and the judge stays determined. On this
   fragment a judge failure on the implementation is therefore a deviation of the code from its model. *)
Theorem C03_session_accepted_by_judge : forall (name:list byte) (p:nat) (hdr:list byte),
  (len (params_to_text BSgen.Consts.version (N.of_nat p) ++ hdr) <= 65535)%N ->
  forall cb ops, Forall sess_op ops ->
  accepted World.init_world judge_init (ONew name (N.of_nat p) hdr [] cb :: ops).
Proof. exact session_accepted. Qed.
Print Assumptions C03_session_accepted_by_judge.
