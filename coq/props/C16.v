(* C16 - Append-only on disk: appends only add bytes, reads never write
   Property theorems only: statements, `exact <lemma>`, Print Assumptions, Check pins.
   Layers: F = documented format (Format.v), S = abstract spec (Spec/SpecStep), I = model of the Rust (World.step'). *)
From Coq Require Import List NArith Bool Arith Sorted.
From Coq Require Import Strings.Byte.
Require Import BS.Bytes BS.Common BS.Api BS.Layout BS.Format BS.FormatFacts BS.Spec BS.SpecStep.
Require Import BS.FS BS.FSFacts BS.Meta BS.MetaFacts BS.Header BS.Reader BS.ReaderFacts BS.Index BS.Data BS.DataFacts BS.Seek BS.Series BS.SeriesFacts BS.CacheFacts BS.AppendOnlyFacts.
Require Import BS.World BS.Judge BS.JudgeFacts.
Import ListNotations.

(* (I) an accepted append only adds bytes at the end of the data and the index file and touches no
   other file; (props/C03.v) a refused one returns the file system unchanged *)
Theorem C16_append_only_adds_bytes : forall fs s p hdr ihdr l ts pay fs' s',
  RepH fs s p hdr ihdr l -> (ts < 2^64)%N -> push_line s ts pay fs = (fs', Ok s') ->
  exists dtail itail,
    fs_get fs' (of_name (d_file (s_data s))) = option_map (fun c => c ++ dtail) (fs_get fs (of_name (d_file (s_data s))))
    /\ fs_get fs' (of_name (ix_file (d_index (s_data s)))) = option_map (fun c => c ++ itail) (fs_get fs (of_name (ix_file (d_index (s_data s)))))
    /\ (forall g, g <> of_name (d_file (s_data s)) -> g <> of_name (ix_file (d_index (s_data s))) -> fs_get fs' g = fs_get fs g).
Proof. exact push_line_appends. Qed.
Print Assumptions C16_append_only_adds_bytes.
(* partial: series with caches (ds_process) and "reads never write" for the reading operations are
   not proved yet (in the model reads thread the file system through read-only primitives; the
   statement needs one lemma per reading operation). Covered by the judge: every file is compared
   with its expected content after every operation. *)

(* (I) with any number of cache levels: an accepted append leaves every file of the series - data and index of the source
   and of every level - with its previous content as a byte prefix (`grows`), and touches no file outside the series *)
Theorem C16_append_only_with_caches : forall p fs s hdr ihdr l cs ts pay,
  RepS fs s p hdr ihdr l cs -> accepts p l ts pay = true ->
  exists fs' s', push_line s ts pay fs = (fs', Ok s')
    /\ Forall (grows fs fs') (all_files s)
    /\ (forall g, ~ In g (all_files s) -> fs_get fs' g = fs_get fs g).
Proof. exact push_line_append_only. Qed.
Print Assumptions C16_append_only_with_caches.
(* reads, counts and accessors return the file system they were given (the `fs` in `= (fs, ...)` of C02, C10, C12, C13, C14):
   they modify no file. *)

(* (I refines S, at the level of the public API) every session - create a series in an empty directory, then ANY sequence of
   appends (accepted or refused), full and bounded reads, first-n reads, line counts and accessor calls, with any arguments
   the types allow - run on the model of the library is ACCEPTED BY THE JUDGE, the extracted specification that decides
   whether an observed behaviour satisfies the properties: every answer of the model is in the set the judge allows, after
   every step the files of the model are byte for byte the files the judge expects, and the judge stays determined. On this
   fragment a judge failure on the implementation is therefore a deviation of the code from its model. *)
Theorem C16_session_accepted_by_judge : forall (name:list byte) (p:nat) (hdr:list byte),
  (len (params_to_text BSgen.Consts.version (N.of_nat p) ++ hdr) <= 65535)%N ->
  forall cb ops, Forall sess_op ops ->
  accepted World.init_world judge_init (ONew name (N.of_nat p) hdr [] cb :: ops).
Proof. exact session_accepted. Qed.
Print Assumptions C16_session_accepted_by_judge.
