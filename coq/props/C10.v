(* C10 - Resampling reads return exact, uniform bucket means of the range
   Property theorems only: statements, `exact <lemma>`, Print Assumptions, Check pins.
   Layers: F = documented format (Format.v), S = abstract spec (Spec/SpecStep), I = model of the Rust (World.step'). *)
From Coq Require Import List NArith Bool Arith Sorted.
From Coq Require Import Strings.Byte.
Require Import BS.Bytes BS.Common BS.Api BS.Layout BS.Format BS.FormatFacts BS.Spec BS.SpecStep BS.Sections.
Require Import BS.FS BS.FSFacts BS.Meta BS.MetaFacts BS.Header BS.Reader BS.ReaderFacts BS.Index BS.Data BS.DataFacts BS.Seek BS.SeekFacts BS.Series BS.SeriesFacts BS.ReadAllFacts.
Require Import BS.OverflowFacts.
Require Import BS.Common BS.Api BS.Index BS.Data BS.Seek BS.SeekGenFacts.
Require BSgen.SeekGen.
Import ListNotations.

(* (I refines S) FULL STATEMENT for series without caches: for every pair of bounds and every n >= 1,
   read_n returns the uniform bucket means (Spec.resample, bucket size b >= 1) of exactly the lines a full
   read of that range returns; at most 2n samples; sums are unbounded in the model (u128 in the Rust after
   the fix), so no timestamp magnitude overflows *)
Theorem C10_resampling_read : forall fs sr p hdr ihdr l, RepH fs sr p hdr ihdr l -> forall n lo hi, s_down sr = [] -> (1 <= n)%N ->
  (exists b, b >= 1 /\ read_n sr n lo hi fs = (fs, Ok (resample p b (select lo hi l)))
             /\ (len (resample p b (select lo hi l)) <= 2 * n)%N)
  \/ (select lo hi l = [] /\ read_n sr n lo hi fs = (fs, Err ERange)).
Proof. exact read_n_ok. Qed.
Print Assumptions C10_resampling_read.

(* the sampler computes Spec.resample of whatever lines it is fed *)
Theorem C10_sampler : forall p b, b > 0 -> forall l, Forall (fun x : N * list byte => (fst x < U64)%N) l ->
  exists s', feed _ (proc_sample p (N.of_nat b)) {| sm_sum := 0; sm_n := 0; sm_state := rs_zero p; sm_out := [] |} l = PCont s'
             /\ rev (sm_out s') = resample p b l.
Proof. exact BS.SampleFacts.feed_sample_resample. Qed.
Print Assumptions C10_sampler.
Theorem C10_at_most_2n : forall k m n : N, (k <= m)%N -> (1 <= n)%N -> (k / N.max 1 (m / n) <= 2 * n)%N.
Proof. exact BS.SampleFacts.at_most_2n. Qed.
Print Assumptions C10_at_most_2n.

(* "no intermediate sum overflows for any timestamp magnitude": the model sums in unbounded N, the Rust in u128 (after the
   repair of D9) and converts the mean back to u64. For a bucket of at most 2^64 lines (a usize count) with u64 timestamps
   every intermediate value of the accumulator is below 2^128 and the mean is a u64 again, so the unbounded model and the
   bounded code compute the same number; the mean lies between the smallest and the largest timestamp of the bucket *)
Theorem C10_sums_fit_u128 : forall (xs:list N) k, Forall (fun x => (x < 2^64)%N) xs -> (N.of_nat (length xs) <= 2^64)%N ->
  (sum_N (firstn k xs) < 2^128)%N.
Proof. exact partial_sums_fit_u128. Qed.
Print Assumptions C10_sums_fit_u128.
Theorem C10_mean_fits_u64 : forall (xs:list N), xs <> [] -> Forall (fun x => (x < 2^64)%N) xs ->
  (sum_N xs / N.of_nat (length xs) < 2^64)%N.
Proof. exact mean_fits_u64. Qed.
Print Assumptions C10_mean_fits_u64.
Theorem C10_mean_between : forall (xs:list N) lo hi, xs <> [] -> Forall (fun x => (lo <= x <= hi)%N) xs ->
  (lo <= sum_N xs / N.of_nat (length xs) <= hi)%N.
Proof. exact mean_between. Qed.
Print Assumptions C10_mean_between.

(* the bound arithmetic and the 65534 comparison of the seek, as the current source text makes them (translated on every run by
   tools/translate_seek.py into gen/SeekGen.v), are the model's: the reads and the repair this property speaks of go through them *)
Theorem C10_source_start_bound_is_model : forall d b first last, data_range d = Ok (Some (first, last)) ->
  checked_start_time d b = BSgen.SeekGen.gen_checked_start first last b.
Proof. exact gen_checked_start_is_model. Qed.
Print Assumptions C10_source_start_bound_is_model.
Theorem C10_source_end_bound_is_model : forall d b first last, data_range d = Ok (Some (first, last)) ->
  checked_end_time d b = BSgen.SeekGen.gen_checked_end first last b.
Proof. exact gen_checked_end_is_model. Qed.
Print Assumptions C10_source_end_bound_is_model.
Theorem C10_source_in_gap_is_model : forall val gs, in_gap val gs = BSgen.SeekGen.gen_in_gap val gs.
Proof. exact gen_in_gap_is_model. Qed.
Print Assumptions C10_source_in_gap_is_model.
