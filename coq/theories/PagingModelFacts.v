(* C13 on the model: paging with ByteSeries::read_first_n - ask for the first n lines, then again and again for the first n
   lines after the last timestamp seen (Excluded(last) .. unbounded) until nothing comes back - returns, page by page,
   exactly the pages of Layer S (PagingFacts.pages), whose concatenation is the whole series, each line once. *)
From Coq Require Import List NArith ZArith Lia Bool Arith ZifyBool ZifyN ZifyNat Sorted.
From Coq Require Import Strings.Byte.
Require Import BS.Bytes BS.Common BS.CommonFacts BS.Api BS.Layout BS.Format BS.FormatFacts BS.Spec BS.SpecStep BS.Sections.
Require Import BS.FS BS.FSFacts BS.Meta BS.MetaFacts BS.Header BS.Reader BS.Index BS.Data BS.DataFacts BS.Seek BS.Series.
Require Import BS.SeriesFacts BS.ReadAllFacts BS.PagingFacts.
Import ListNotations.
Close Scope N_scope. Open Scope nat_scope.

(* the client loop; None = a call panicked or ran out of fuel *)
Fixpoint mpages (fuel:nat) (n:N) (s:series) (fs:fsys) (lo:bound) : option (list (list line)) :=
  match fuel with
  | O => Some []
  | S f =>
      match read_first_n s n lo Unb fs with
      | (_, Ok pg) => match last_opt pg with
                      | None => Some []
                      | Some y => option_map (cons pg) (mpages f n s fs (Excl (fst y)))
                      end
      | (_, Err _) => Some []
      | _ => None
      end
  end.

Lemma firstn_min {A} (n:N) (l:list A) : firstn (N.to_nat (N.min n (len l))) l = firstn (N.to_nat n) l.
Proof.
  unfold len. destruct (N.le_ge_cases n (N.of_nat (length l))) as [H|H].
  - rewrite N.min_l by exact H. reflexivity.
  - rewrite N.min_r by exact H. rewrite Nat2N.id, firstn_all. symmetry. apply firstn_all2. lia.
Qed.

Theorem mpages_are_pages fs sr p hdr ihdr l n : RepH fs sr p hdr ihdr l -> (1 <= n)%N ->
  forall fuel lo, mpages fuel n sr fs lo = Some (pages fuel (N.to_nat n) l lo).
Proof.
  intros R Hn. induction fuel as [|f IH]; intros lo; cbn [mpages pages]; [reflexivity|].
  destruct (read_first_n_ok fs sr p hdr ihdr l R n lo Unb Hn) as [E|[SE E]]; rewrite E.
  - rewrite firstn_min. destruct (last_opt (firstn (N.to_nat n) (select lo Unb l))) as [y|]; [|reflexivity].
    rewrite IH. reflexivity.
  - rewrite SE. rewrite firstn_nil. reflexivity.
Qed.

Theorem model_paging fs sr p hdr ihdr l n : RepH fs sr p hdr ihdr l -> (1 <= n)%N ->
  exists pgs, mpages (S (length l)) n sr fs Unb = Some pgs /\ concat pgs = l.
Proof.
  intros R Hn. eexists. split; [apply (mpages_are_pages fs sr p hdr ihdr l n R Hn)|].
  apply paging_visits_all; [lia|exact (proj1 (rh_wf _ _ _ _ _ _ R))].
Qed.
