(* Layer I: src/series/data/inline_meta/meta.rs - the five full-timestamp layouts as coded,
   plus marker test and K (lines_per_metainfo). Constants come from the generated Consts. *)
From Coq Require Import List NArith Bool Arith.
From Coq Require Import Strings.Byte.
Require Import BS.Bytes BS.Common.
Require BSgen.Consts.
Import ListNotations.
Close Scope N_scope. Open Scope nat_scope.

Notation slot := (list byte) (only parsing).

(* PREAMBLE *)
Definition pre0 : byte := BSgen.Consts.preamble0.
Definition pre1 : byte := BSgen.Consts.preamble1.

(* line[..2] == PREAMBLE *)
Definition is_marker (s:slot) : bool :=
  match s with b0 :: b1 :: _ => Byte.eqb b0 pre0 && Byte.eqb b1 pre1 | _ => false end.

(* lines_per_metainfo: the match arms as generated from the source *)
Definition lines_per_metainfo (p:nat) : nat :=
  match p with
  | 0 => BSgen.Consts.k_p0 | 1 => BSgen.Consts.k_p1 | 2 => BSgen.Consts.k_p2
  | 3 => BSgen.Consts.k_p3 | _ => BSgen.Consts.k_p4 end.

(* continuation lines consumed by meta::read after the two marker lines *)
Definition ncont (p:nat) : nat := match p with 0 => 4 | 1 => 2 | 2 => 1 | 3 => 1 | _ => 0 end.

Definition nthb (l:list byte) (i:nat) : byte := nth i l x00.

(* meta::write: t = the 8 little-endian bytes of the timestamp; returns the bytes written *)
Definition meta_write (p:nat) (t:list byte) : list byte :=
  match p with
  | 0 => [pre0; pre1] ++ [pre0; pre1] ++ firstn 2 t ++ firstn 2 (skipn 2 t) ++ firstn 2 (skipn 4 t) ++ firstn 2 (skipn 6 t)
  | 1 => [pre0; pre1; nthb t 0] ++ [pre0; pre1; nthb t 1] ++ firstn 3 (skipn 2 t) ++ firstn 3 (skipn 5 t)
  | 2 => [pre0; pre1; nthb t 0; nthb t 1] ++ [pre0; pre1; nthb t 2; nthb t 3] ++ firstn 4 (skipn 4 t)
  | 3 => [pre0; pre1; nthb t 0; nthb t 1; nthb t 2] ++ [pre0; pre1; nthb t 3; nthb t 4; nthb t 5]
         ++ [nthb t 6; nthb t 7; x00; x00; x00]
  | _ => ([pre0; pre1] ++ firstn 4 t ++ repeat x00 (p - 4))
         ++ ([pre0; pre1] ++ firstn 4 (skipn 4 t) ++ repeat x00 (p - 4))
  end.

(* meta::read once all continuation lines are there: a, b the two marker lines, got the ncont p
   lines that follow; returns the 8 bytes *)
Definition meta_read_bytes (p:nat) (a b:slot) (got:list slot) : list byte :=
  match p with
  | 0 => concat (firstn 4 got)
  | 1 => [nthb a 2; nthb b 2] ++ concat (firstn 2 got)
  | 2 => skipn 2 a ++ skipn 2 b ++ concat (firstn 1 got)
  | 3 => skipn 2 a ++ skipn 2 b ++ firstn 2 (concat (firstn 1 got))
  | _ => firstn 4 (skipn 2 a) ++ firstn 4 (skipn 2 b)
  end.
Definition meta_read_ts (p:nat) (a b:slot) (got:list slot) : N := le_dec (meta_read_bytes p a b got).
