(* History theorems over World.run: what whole sessions of the modelled library do. *)
From Coq Require Import List NArith ZArith Lia Bool Arith ZifyBool ZifyN ZifyNat Sorted.
From Coq Require Import Strings.Byte.
Require Import BS.Bytes BS.Common BS.CommonFacts BS.Api BS.Layout BS.Format BS.FormatFacts.
Require Import BS.FS BS.FSFacts BS.Meta BS.Header BS.Reader BS.Index BS.Data BS.DataFacts BS.Seek BS.Series BS.SeriesFacts BS.World.
Require Import BS.Spec BS.SpecStep.
Require BSgen.Consts.
Import ListNotations.
Close Scope N_scope. Open Scope nat_scope.
Arguments N.add : simpl never. Arguments N.mul : simpl never. Arguments N.sub : simpl never.
Arguments N.ltb : simpl never. Arguments N.leb : simpl never. Arguments N.eqb : simpl never.

Definition push_ops (l:list line) : list op := map (fun x => OPush (fst x) (snd x)) l.

Lemma wf_series_app_inv p l1 l2 : wf_series p (l1 ++ l2) -> wf_series p l1.
Proof.
  intros [S F]. split.
  - rewrite map_app in S. clear F. induction l1 as [|a t IH]; cbn [map app] in *; [constructor|].
    inversion S as [|? ? St Hall]; subst. constructor; [apply IH; exact St|].
    apply Forall_app in Hall. apply Hall.
  - apply Forall_app in F. apply F.
Qed.

Lemma wf_accepts p l1 x l2 : wf_series p (l1 ++ x :: l2) -> accepts p l1 (fst x) (snd x) = true /\ (fst x < 2^64)%N.
Proof.
  intros W. assert (W1 : wf_series p ((l1 ++ [x]) ++ l2)) by (rewrite <- app_assoc; exact W).
  apply wf_series_app_inv in W1. destruct W1 as [S F].
  apply Forall_app in F. destruct F as [_ F]. apply Forall_inv in F. destruct F as [Hx Hp].
  split; [|exact Hx]. unfold accepts.
  rewrite Hp, Nat.eqb_refl. replace (fst x <? U64)%N with true by (symmetry; apply N.ltb_lt; exact Hx).
  cbn [andb]. destruct (last_opt l1) as [y|] eqn:LO; [|reflexivity].
  apply N.ltb_lt. rewrite map_app in S. cbn [map] in S.
  clear -S LO. revert y LO S. induction l1 as [|a t IH]; intros y LO S; [discriminate|].
  cbn [map app] in S. inversion S as [|? ? St Hall]; subst.
  destruct t as [|b t'].
  - cbn [last_opt last] in LO. inversion LO; subst. cbn [map app] in Hall. inversion Hall; subst. assumption.
  - cbn [last_opt] in LO. rewrite Layout.last_cons in LO. apply IH; [exact LO|exact St].
Qed.

(* appending the lines l2 to an open series holding l1 *)
Lemma run_pushes : forall l2 l1 fs s p hdr ihdr,
  RepH fs s p hdr ihdr l1 -> wf_series p (l1 ++ l2) ->
  exists fs' s', run {| w_fs := fs; w_h := Some s |} (push_ops l2)
                 = ({| w_fs := fs'; w_h := Some s' |}, map (fun _ => RUnit) l2)
    /\ RepH fs' s' p hdr ihdr (l1 ++ l2) /\ s_cb s' = s_cb s
    /\ (forall g, g <> of_name (d_file (s_data s)) -> g <> of_name (ix_file (d_index (s_data s))) -> fs_get fs' g = fs_get fs g).
Proof.
  induction l2 as [|x t IH]; intros l1 fs s p hdr ihdr R W.
  - exists fs, s. rewrite app_nil_r. cbn [push_ops map run]. split; [reflexivity|]. split; [exact R|]. split; [reflexivity|]. intros; reflexivity.
  - destruct (wf_accepts p l1 x t W) as [ACC Hx].
    pose proof (push_line_ok fs s p hdr ihdr l1 (fst x) (snd x) R Hx) as PL. rewrite ACC in PL.
    destruct PL as (fs1 & s1 & E1 & R1 & O1 & N1 & N2).
    assert (W' : wf_series p ((l1 ++ [(fst x, snd x)]) ++ t)).
    { rewrite <- app_assoc. cbn [app]. destruct x; exact W. }
    destruct (IH _ fs1 s1 p hdr ihdr R1 W') as (fs2 & s2 & E2 & R2 & CB & O2).
    exists fs2, s2. split; [|split; [|split]].
    + cbn [push_ops map run]. unfold step', step, with_handle. cbn [w_h w_fs].
      unfold mbind. rewrite E1. unfold ret. fold (push_ops t). rewrite E2. reflexivity.
    + rewrite <- app_assoc in R2. cbn [app] in R2. destruct x; exact R2.
    + rewrite CB. unfold push_line in E1.
      destruct (negb (len (snd x) =? N.of_nat (d_p (s_data s)))%N); [discriminate|].
      destruct (s_range s) as [[a b]|]; [destruct (fst x <=? b)%N; [discriminate|]|];
        unfold mbind in E1;
        destruct (mcatch (push_data (s_data s) (fst x) (snd x)) (fun _ => fail EOther) fs) as [fsx [dx|e| |]]; try discriminate;
        destruct (process_all (s_down s) (fst x) (snd x) fsx) as [fsy [dy|e| |]]; try discriminate;
        unfold ret in E1; inversion E1; reflexivity.
    + intros g G1 G2. rewrite O2; [apply O1; assumption| |]; [rewrite N1; exact G1|rewrite N2; exact G2].
Qed.

(* C01 for the model, end to end: create, append any well-formed series, read everything back *)
Theorem session_roundtrip fs name p hdr cb0 l :
  fs_mem fs (name ++ ext_data) = false -> fs_mem fs (name ++ ext_index) = false ->
  (len (params_to_text BSgen.Consts.version (N.of_nat p) ++ hdr) <= 65535)%N ->
  wf_series p l -> l <> [] ->
  exists w', run {| w_fs := fs; w_h := None |}
                 (ONew name (N.of_nat p) hdr [] cb0 :: push_ops l ++ [OReadAll Unb Unb])
             = (w', ROpened (N.of_nat p) hdr :: map (fun _ => RUnit) l ++ [RLines l]).
Proof.
  intros M1 M2 Hl W Hne.
  destruct (series_new_ok fs name p hdr cb0 M1 M2 Hl) as (fs1 & s1 & E1 & R1 & CB1 & N1 & N2 & O1).
  destruct (run_pushes l [] fs1 s1 p _ _ R1 W) as (fs2 & s2 & E2 & R2 & CB2 & O2).
  cbn [app] in R2.
  pose proof (read_all_full_ok fs2 s2 p _ _ l R2 Hne) as RA.
  eexists. cbn [run]. unfold step' at 1. cbn [w_fs w_h]. unfold step at 1. cbn [w_fs]. rewrite E1.
  rewrite (payload_size_ok _ _ _ _ _ _ R1).
  (* run over the pushes, then the read *)
  assert (RUN : forall ops1 ops2 w, run w (ops1 ++ ops2)
                = let '(w1, r1) := run w ops1 in let '(w2, r2) := run w1 ops2 in (w2, r1 ++ r2)).
  { induction ops1 as [|o t IH]; intros ops2 w; cbn [app run].
    - destruct (run w ops2). reflexivity.
    - destruct (step' w o) as [wa ra]. rewrite IH. destruct (run wa t) as [wb rb]. destruct (run wb ops2). reflexivity. }
  rewrite RUN, E2. cbn [run]. unfold step', step, with_handle, reading. cbn [w_h w_fs].
  unfold mbind. rewrite RA. unfold ret. reflexivity.
Qed.
