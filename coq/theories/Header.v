(* Layer I: src/file.rs (FileWithHeader, OffsetFile) and src/series/file_header.rs
   (SeriesParams::to_text / from_text, check_and_split_off_user_header),
   downsample::Config::{header, file_name_suffix}. Texts come from the generated HeaderText. *)
From Coq Require Import List NArith Bool Arith.
From Coq Require Import Strings.Byte.
Require Import BS.Bytes BS.Common BS.Api BS.FS.
Require BSgen.Consts BSgen.HeaderText.
Import ListNotations.
Close Scope N_scope. Open Scope nat_scope.

(* a file opened through FileWithHeader and split: the name and the offset where data starts *)
Record ofile := { of_name : fname; of_off : N }.

Definition ascii (s:list byte) := s.
Definition ext_data : list byte := [".";"b";"y";"t";"e";"s";"e";"r";"i";"e";"s"]%byte.
Definition ext_index : list byte := ext_data ++ ["_";"i";"n";"d";"e";"x"]%byte.
Definition ext_part : list byte := ext_index ++ [".";"p";"a";"r";"t"]%byte.

(* USER_HEADER_STARTS = LINE_ENDS.len() + size_of::<u16>() *)
Definition user_header_starts : N := (len BSgen.Consts.line_ends + 2)%N.

(* FileWithHeader::new (after the fix: the length check precedes create_new) *)
Definition fwh_new (path:fname) (user_header:list byte) : M ofile :=
  if (65535 <? len user_header)%N then fail EHeaderTooLarge else
  exec create_new path in
  exec append path (le_enc 2 (len user_header) ++ BSgen.Consts.line_ends ++ user_header) in
  ret {| of_name := path; of_off := (user_header_starts + len user_header)%N |}.

(* FileWithHeader::open_existing; returns the split file and the header bytes *)
Definition fwh_open (path:fname) : M (ofile * list byte) :=
  let* ex := exists_file path in
  if negb ex then fail ENotFound else
  let* hl := read_at path 0 2 in
  let header_len := le_dec hl in
  let* header := read_at path user_header_starts header_len in
  let* total := file_len path in
  if (total <? header_len + user_header_starts)%N then fail EOther else     (* the fix: torn inside the header *)
  ret ({| of_name := path; of_off := (header_len + user_header_starts)%N |}, header).

(* OffsetFile: data_len_bytes / set_len / reads relative to the offset *)
Definition of_len (f:ofile) : M N :=
  let* l := file_len (of_name f) in lift (u64_sub l (of_off f)).
Definition of_set_len (f:ofile) (n:N) : M unit := set_file_len (of_name f) (n + of_off f)%N.
Definition of_read_at (f:ofile) (pos n:N) : M (list byte) := read_at (of_name f) (pos + of_off f)%N n.
Definition of_read_from (f:ofile) (pos:N) : M (list byte) := read_from (of_name f) (pos + of_off f)%N.
Definition of_append (f:ofile) (b:list byte) : M unit := append (of_name f) b.

(* ---- SeriesParams::to_text ---- *)
(* str::lines().count() of an ASCII text *)
Definition lines_count (t:list byte) : N :=
  match t with
  | [] => 0%N
  | _ => (count_byte "010"%byte t + (if Byte.eqb (last t x00) "010"%byte then 0 else 1))%N
  end.
Definition preamble_text (version p:N) : list byte :=
  let numb := ["N";"U";"M";"B";"_";"L";"I";"N";"E";"S"]%byte in
  let raw := BSgen.HeaderText.preamble_part0 ++ numb ++ BSgen.HeaderText.preamble_part1 ++ dec version
             ++ BSgen.HeaderText.preamble_part2 ++ dec p ++ BSgen.HeaderText.preamble_part3 in
  let n_lines := lines_count raw in
  BSgen.HeaderText.preamble_part0 ++ dec n_lines ++ BSgen.HeaderText.preamble_part1 ++ dec version
  ++ BSgen.HeaderText.preamble_part2 ++ dec p ++ BSgen.HeaderText.preamble_part3.
Definition params_to_text (version p:N) : list byte :=
  let t := preamble_text version p in le_enc 4 (len t) ++ t.

(* ---- SeriesParams::from_text ---- *)
(* text[start_pat_end .. find(end_pat)] parsed as an unsigned integer below `bound`.
   Panic: slice with start > end. Err: anchors missing or not a number. *)
Definition parse_field (start_pat end_pat:list byte) (bound:N) (text:list byte) : res N :=
  match find_sub start_pat text with
  | None => Err EOther
  | Some s0 =>
      let s := (s0 + len start_pat)%N in
      match find_sub end_pat text with
      | None => Err EOther
      | Some e => if (e <? s)%N then Panic
                  else match parse_dec bound (slice s e text) with Some v => Ok v | None => Err EOther end
      end
  end.

Definition all_ascii (t:list byte) : bool := forallb (fun b => (Byte.to_N b <? 128)%N) t.

(* check_and_split_off_user_header: payload size option None = Ignore *)
Definition check_and_split (header:list byte) (popt:option N) : res (N * list byte) :=
  if (len header <? 4)%N then Panic else                      (* header[0..4] *)
  let text_len := le_dec (firstn 4 header) in
  if (len header <? text_len)%N then Panic else               (* assert!(text_len <= header.len()) *)
  if (text_len <? 4)%N then Panic else                        (* &header[4..text_len] *)
  let text := slice 4 text_len header in
  if negb (all_ascii text) then Err EOther else               (* from_utf8: only ASCII texts are modelled *)
  do version <- parse_field BSgen.HeaderText.pat_version_start BSgen.HeaderText.pat_version_end 65536 text;
  do psize <- parse_field BSgen.HeaderText.pat_payload_start BSgen.HeaderText.pat_payload_end U64 text;
  if negb (version =? BSgen.Consts.version)%N then Err EOther else
  match popt with
  | Some configured => if negb (psize =? configured)%N then Err EMismatch
                       else if (len header <? text_len + 4)%N then Panic else Ok (psize, drop (text_len + 4) header)
  | None => if (len header <? text_len + 4)%N then Panic else Ok (psize, drop (text_len + 4) header)
  end.

(* ---- downsample::Config ---- *)
Definition config_suffix (B:N) : list byte := ["N";"o";"n";"e";"_"]%byte ++ dec B.
Definition config_debug (B:N) : list byte :=
  ["C";"o";"n";"f";"i";"g";" ";"{";" ";"m";"a";"x";"_";"g";"a";"p";":";" ";"N";"o";"n";"e";",";" ";
   "b";"u";"c";"k";"e";"t";"_";"s";"i";"z";"e";":";" "]%byte ++ dec B ++ [" ";"}"]%byte.
Definition config_header (name:list byte) (B:N) : list byte :=
  BSgen.HeaderText.cache_header_part0 ++ name ++ BSgen.HeaderText.cache_header_part1 ++ config_debug B
  ++ BSgen.HeaderText.cache_header_part2.
Definition cache_name (name:list byte) (B:N) : list byte := name ++ ["_"]%byte ++ config_suffix B.
