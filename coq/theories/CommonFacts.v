(* Facts about the list helpers of Common.v *)
From Coq Require Import List NArith ZArith Lia Bool Arith ZifyBool ZifyN ZifyNat.
From Coq Require Import Strings.Byte.
Require Import BS.Bytes BS.Common.
Import ListNotations.
Close Scope N_scope. Open Scope nat_scope.
Ltac Zify.zify_post_hook ::= Z.div_mod_to_equations.

Lemma frev_rev {A} (l:list A) : frev l = rev l.
Proof. unfold frev. rewrite rev_append_rev, app_nil_r. reflexivity. Qed.

Lemma len_length {A} (l:list A) : len l = N.of_nat (length l).
Proof. reflexivity. Qed.
Lemma len_app {A} (a b:list A) : len (a ++ b) = (len a + len b)%N.
Proof. unfold len. rewrite app_length. lia. Qed.

Lemma take_firstn {A} (n:N) (l:list A) : take n l = firstn (N.to_nat n) l.
Proof.
  unfold take, len. destruct (N.le_gt_cases n (N.of_nat (length l))) as [H|H].
  - rewrite N.min_l by exact H. reflexivity.
  - rewrite N.min_r by lia. rewrite Nat2N.id. rewrite !firstn_all2 by lia. reflexivity.
Qed.
Lemma drop_skipn {A} (n:N) (l:list A) : drop n l = skipn (N.to_nat n) l.
Proof.
  unfold drop, len. destruct (N.le_gt_cases n (N.of_nat (length l))) as [H|H].
  - rewrite N.min_l by exact H. reflexivity.
  - rewrite N.min_r by lia. rewrite Nat2N.id. rewrite !skipn_all2 by lia. reflexivity.
Qed.
Lemma take_app_exact {A} (a b:list A) : take (len a) (a ++ b) = a.
Proof. rewrite take_firstn. unfold len. rewrite Nat2N.id, firstn_app, Nat.sub_diag, firstn_all. cbn. apply app_nil_r. Qed.
Lemma drop_app_exact {A} (a b:list A) : drop (len a) (a ++ b) = b.
Proof. rewrite drop_skipn. unfold len. rewrite Nat2N.id, skipn_app, Nat.sub_diag, skipn_all. reflexivity. Qed.
Lemma take_all {A} (l:list A) : take (len l) l = l.
Proof. rewrite take_firstn. unfold len. rewrite Nat2N.id. apply firstn_all. Qed.
Lemma drop_0 {A} (l:list A) : drop 0 l = l.
Proof. rewrite drop_skipn. reflexivity. Qed.

(* ---- chunks ---- *)
Lemma chunks_fuel_app {A} (k:nat) : k > 0 -> forall (fuel:nat) (a b:list A),
  length a = k -> length b <= fuel ->
  chunks_fuel (S fuel) k (a ++ b) = a :: chunks_fuel fuel k b.
Proof.
  intros Hk fuel a b Ha Hb. cbn [chunks_fuel].
  rewrite firstn_app, Ha, Nat.sub_diag, <- Ha, firstn_all. cbn [firstn]. rewrite app_nil_r.
  assert (E : (length a <? length a) = false) by (apply Nat.ltb_ge; lia). rewrite E.
  rewrite skipn_app, Nat.sub_diag, skipn_all. reflexivity.
Qed.

Lemma chunks_fuel_enough {A} (k:nat) : k > 0 -> forall (f1 f2:nat) (l:list A),
  length l <= f1 -> length l <= f2 -> chunks_fuel f1 k l = chunks_fuel f2 k l.
Proof.
  intros Hk. induction f1 as [|f1 IH]; intros f2 l H1 H2.
  - destruct l; [|cbn in H1; lia]. destruct f2; [reflexivity|]. cbn [chunks_fuel]. rewrite firstn_nil. cbn [length].
    destruct k; [lia|]. reflexivity.
  - destruct f2 as [|f2].
    + destruct l; [|cbn in H2; lia]. cbn [chunks_fuel]. rewrite firstn_nil. cbn [length]. destruct k; [lia|]. reflexivity.
    + cbn [chunks_fuel]. destruct (length (firstn k l) <? k) eqn:E; [reflexivity|]. f_equal.
      apply Nat.ltb_ge in E. rewrite firstn_length in E.
      apply IH; rewrite skipn_length; lia.
Qed.

Lemma chunks_cons {A} (k:nat) (a b:list A) : k > 0 -> length a = k -> chunks k (a ++ b) = a :: chunks k b.
Proof.
  intros Hk Ha. unfold chunks. destruct k as [|k']; [lia|].
  rewrite app_length, Ha. cbn [Nat.add]. rewrite (chunks_fuel_app (S k')) by lia.
  f_equal. apply chunks_fuel_enough; lia.
Qed.

Lemma chunks_nil {A} (k:nat) : chunks k (@nil A) = [].
Proof. destruct k; reflexivity. Qed.

Lemma chunks_concat {A} (k:nat) (ls:list (list A)) : k > 0 -> Forall (fun s => length s = k) ls ->
  chunks k (concat ls) = ls.
Proof.
  intros Hk H. induction H as [|s ls Hs _ IH]; cbn [concat]; [apply chunks_nil|].
  rewrite chunks_cons by assumption. rewrite IH. reflexivity.
Qed.

Lemma chunks_app {A} (k:nat) (ls:list (list A)) (b:list A) : k > 0 -> Forall (fun s => length s = k) ls ->
  chunks k (concat ls ++ b) = ls ++ chunks k b.
Proof.
  intros Hk H. induction H as [|s ls Hs _ IH]; cbn [concat app]; [reflexivity|].
  rewrite <- app_assoc, chunks_cons by assumption. rewrite IH. reflexivity.
Qed.

Lemma chunks_short {A} (k:nat) (l:list A) : length l < k -> chunks k l = [].
Proof.
  intros H. unfold chunks. destruct k; [lia|]. destruct (length l) eqn:E.
  - reflexivity.
  - cbn [chunks_fuel]. assert (X : (length (firstn (S k) l) <? S k) = true).
    { apply Nat.ltb_lt. rewrite firstn_length. lia. } rewrite X. reflexivity.
Qed.

Lemma concat_length_uniform {A} (k:nat) (ls:list (list A)) : Forall (fun s => length s = k) ls ->
  length (concat ls) = length ls * k.
Proof. intros H. induction H as [|s ls Hs _ IH]; cbn [concat length]; [reflexivity|]. rewrite app_length, IH, Hs. lia. Qed.

Lemma last_snoc {A} (l:list A) (x d:A) : last (l ++ [x]) d = x.
Proof. apply last_last. Qed.
Lemma last_opt_snoc {A} (l:list A) (x:A) : last_opt (l ++ [x]) = Some x.
Proof. destruct l as [|a l]; [reflexivity|]. cbn [app last_opt]. f_equal. apply last_snoc. Qed.

Lemma aligned_split {A} (k:nat) : forall (n:nat) (a:list A), length a = n * k ->
  exists ls, a = concat ls /\ Forall (fun s => length s = k) ls /\ length ls = n.
Proof.
  induction n as [|n IH]; intros a H.
  - destruct a; [|discriminate]. exists []. repeat split. constructor.
  - destruct (IH (skipn k a)) as (ls & E & F & N). { rewrite skipn_length. lia. }
    exists (firstn k a :: ls). split; [|split].
    + cbn [concat]. rewrite <- E. symmetry. apply firstn_skipn.
    + constructor; [rewrite firstn_length; lia|exact F].
    + cbn [length]. lia.
Qed.

Lemma chunks_app_aligned {A} (k:nat) (a b:list A) : k > 0 -> length a mod k = 0 ->
  chunks k (a ++ b) = chunks k a ++ chunks k b.
Proof.
  intros Hk Hm. destruct (aligned_split k (length a / k) a) as (ls & E & F & N).
  { pose proof (Nat.div_mod (length a) k ltac:(lia)). lia. }
  rewrite E at 1 2. rewrite chunks_app by assumption. rewrite chunks_concat by assumption. reflexivity.
Qed.

Lemma chunks_length_aligned {A} (k:nat) (a:list A) : k > 0 -> length a mod k = 0 -> length (chunks k a) = length a / k.
Proof.
  intros Hk Hm. destruct (aligned_split k (length a / k) a) as (ls & E & F & N).
  { pose proof (Nat.div_mod (length a) k ltac:(lia)). lia. }
  rewrite E at 1. rewrite chunks_concat by assumption. exact N.
Qed.

Lemma firstn_plus {A} (a b:nat) (x:list A) : firstn (a + b) x = firstn a x ++ firstn b (skipn a x).
Proof.
  revert x; induction a as [|a IH]; intros x; cbn [Nat.add firstn skipn app]; [reflexivity|].
  destruct x as [|y x]; [rewrite firstn_nil; reflexivity|]. cbn [firstn skipn app]. rewrite IH. reflexivity.
Qed.

Lemma skipn_plus {A} (a b:nat) (x:list A) : skipn b (skipn a x) = skipn (a + b) x.
Proof.
  revert x; induction a as [|a IH]; intros x; cbn [Nat.add skipn]; [reflexivity|].
  destruct x as [|y x]; [rewrite skipn_nil; reflexivity|]. apply IH.
Qed.

Lemma Forall_firstn {A} (P:A -> Prop) n (l:list A) : Forall P l -> Forall P (firstn n l).
Proof. revert l. induction n as [|n IH]; intros l F; cbn [firstn]; [constructor|]. destruct l; [constructor|]. inversion F; subst. constructor; auto. Qed.
Lemma Forall_skipn {A} (P:A -> Prop) n (l:list A) : Forall P l -> Forall P (skipn n l).
Proof. revert l. induction n as [|n IH]; intros l F; cbn [skipn]; [exact F|]. destruct l; [constructor|]. inversion F; subst. auto. Qed.

Lemma next_multiple_of_spec' a m : (0 < m)%N ->
  let r := next_multiple_of a m in (r mod m = 0)%N /\ (a <= r)%N /\ (r < a + m)%N.
Proof.
  intros Hm. unfold next_multiple_of. destruct (a mod m =? 0)%N eqn:E.
  - apply N.eqb_eq in E. cbn zeta. repeat split; try lia; try exact E.
  - apply N.eqb_neq in E. cbn zeta. pose proof (N.mod_lt a m ltac:(lia)).
    pose proof (N.div_mod a m ltac:(lia)).
    repeat split; try lia.
    replace (a + (m - a mod m))%N with ((a / m + 1) * m)%N by nia. apply N.mod_mul. lia.
Qed.

Lemma last_app_cons {A} (a:list A) y r d : last (a ++ y :: r) d = last (y :: r) d.
Proof.
  induction a as [|z a IH]; [reflexivity|]. cbn [app]. destruct (a ++ y :: r) eqn:E; [destruct a; discriminate|].
  change (last (z :: a0 :: l) d) with (last (a0 :: l) d). exact IH.
Qed.
Lemma last_in_cons {A} (y:A) r d : In (last (y :: r) d) (y :: r).
Proof.
  revert y. induction r as [|z r IH]; intros y; [left; reflexivity|].
  change (last (y :: z :: r) d) with (last (z :: r) d). right. apply IH.
Qed.
