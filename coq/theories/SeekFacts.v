(* Layer I seek (RoughPos::new, refine, find_read_start/end) against the section structure of the
   canonical encoding (C02, C13, C14). *)
From Coq Require Import List NArith ZArith Lia Bool Arith ZifyBool ZifyN ZifyNat Sorted.
From Coq Require Import Strings.Byte.
Require Import BS.Bytes BS.Common BS.CommonFacts BS.Api BS.Layout BS.Format BS.FormatFacts BS.Sections.
Require Import BS.FS BS.FSFacts BS.Meta BS.MetaFacts BS.Header BS.Reader BS.ReaderFacts BS.Index BS.Data BS.DataFacts BS.Seek.
Require BSgen.Consts.
Import ListNotations.
Close Scope N_scope. Open Scope nat_scope.
Arguments N.add : simpl never. Arguments N.mul : simpl never. Arguments N.sub : simpl never.
Arguments N.div : simpl never. Arguments N.modulo : simpl never.
Arguments N.ltb : simpl never. Arguments N.leb : simpl never. Arguments N.eqb : simpl never.
Ltac Zify.zify_post_hook ::= Z.div_mod_to_equations.

Section Locate.
Variable p : nat.
Notation L := (p + 2).

Lemma lower_bound_app k : forall a b j,
  Forall (fun e => (fst e < k)%N) a -> lower_bound k (a ++ b) j = lower_bound k b (j + length a).
Proof.
  induction a as [|e a IH]; intros b j F; cbn [app length]; [f_equal; lia|].
  inversion F as [|? ? He Fa]; subst. cbn [lower_bound].
  replace (fst e <? k)%N with true by (symmetry; apply N.ltb_lt; exact He).
  rewrite IH by exact Fa. f_equal. lia.
Qed.
Lemma lower_bound_stop k e b j : (k <= fst e)%N -> lower_bound k (e :: b) j = j.
Proof. intros H. cbn [lower_bound]. replace (fst e <? k)%N with false by (symmetry; apply N.ltb_ge; exact H). reflexivity. Qed.

Lemma ents_keys_lt i ss k : Forall (fun s' => (fst s' < k)%N) ss -> Forall (fun e => (fst e < k)%N) (ents p i ss).
Proof.
  revert i. induction ss as [|[f ls] t IH]; intros i F; cbn [ents]; [constructor|].
  inversion F; subst. constructor; [assumption|apply IH; assumption].
Qed.

(* the section a timestamp belongs to: ss = pre ++ (f, ls) :: post with f <= k and k before the next section *)
Definition located (ss pre:list sect) (f:N) (ls:list line) (post:list sect) (k:N) : Prop :=
  ss = pre ++ (f, ls) :: post /\ (f <= k)%N /\ match post with (f2, _) :: _ => (k < f2)%N | [] => True end.

Lemma bsearch_located ss pre f ls post k i : good_secs p ss -> located ss pre f ls post k ->
  bsearch k (ents p i ss) = (if (f =? k)%N then (length pre, true) else (S (length pre), false)).
Proof.
  intros G (E & Hf & Hn). subst ss.
  pose proof (good_before p _ _ _ G) as GB. pose proof (good_after p _ _ _ G) as GA.
  unfold bsearch. rewrite ents_app. cbn [ents].
  assert (FB : Forall (fun e => (fst e < k)%N) (ents p i pre)).
  { apply ents_keys_lt. eapply Forall_impl; [|exact GB]. intros a Ha. cbn [fst] in Ha. lia. }
  rewrite lower_bound_app by exact FB. rewrite ents_length. cbn [Nat.add].
  destruct (f =? k)%N eqn:EQ.
  - apply N.eqb_eq in EQ. subst k. rewrite lower_bound_stop by (cbn [fst]; lia).
    f_equal. rewrite app_length, ents_length. cbn [length].
    replace (length pre <? length pre + S (length (ents p (i + slots_of p pre + Layout.K p + length ls) post))) with true
      by (symmetry; apply Nat.ltb_lt; lia).
    unfold nth_entry. rewrite app_nth2 by (rewrite ents_length; lia). rewrite ents_length, Nat.sub_diag. cbn [nth fst].
    rewrite N.eqb_refl. reflexivity.
  - apply N.eqb_neq in EQ. cbn [lower_bound fst].
    replace (f <? k)%N with true by (symmetry; apply N.ltb_lt; lia).
    assert (LB : lower_bound k (ents p (i + slots_of p pre + Layout.K p + length ls) post) (S (length pre)) = S (length pre)).
    { destruct post as [|[f2 l2] post']; [reflexivity|]. cbn [ents]. apply lower_bound_stop. cbn [fst]. lia. }
    rewrite LB. f_equal.
    destruct post as [|[f2 l2] post'].
    + rewrite app_length, ents_length. cbn [length ents].
      replace (S (length pre) <? length pre + 1) with false by (symmetry; apply Nat.ltb_ge; lia). reflexivity.
    + unfold nth_entry. rewrite app_nth2 by (rewrite ents_length; lia). rewrite ents_length.
      replace (S (length pre) - length pre) with 1 by lia. cbn [ents nth fst].
      replace (f2 =? k)%N with false by (symmetry; apply N.eqb_neq; lia). apply andb_false_r.
Qed.
End Locate.

(* ---- the bytes of one section inside the region ---- *)
Section Window.
Variable p : nat.
Notation L := (p + 2).

Definition pay_ok (ss:list sect) : Prop := Forall (fun s => Forall (fun y => length (snd y) = p) (snd s)) ss.

Lemma good_pay_ok ss : good_secs p ss -> pay_ok ss.
Proof.
  induction ss as [|[f ls] t IH]; intros G; [constructor|].
  cbn [good_secs] in G. destruct G as ((_ & F & _) & _ & G). constructor; [|apply IH; exact G].
  cbn [snd]. eapply Forall_impl; [|exact F]. intros y (_ & _ & H & _). exact H.
Qed.

Lemma region_length ss : pay_ok ss -> length (concat (map (sec_bytes p) ss)) = slots_of p ss * L.
Proof.
  induction ss as [|s t IH]; intros F; [reflexivity|]. inversion F as [|? ? Fs Ft]; subst.
  cbn [map concat slots_of]. rewrite app_length, IH by exact Ft. rewrite (sec_bytes_length p) by exact Fs. lia.
Qed.

(* slicing the body of the section at index |pre| out of the region *)
Lemma slice_body pre f ls post a b : pay_ok (pre ++ (f, ls) :: post) -> a <= b -> b <= length ls ->
  slice (N.of_nat ((slots_of p pre + Layout.K p + a) * L)) (N.of_nat ((slots_of p pre + Layout.K p + b) * L))
        (concat (map (sec_bytes p) (pre ++ (f, ls) :: post)))
  = enc_body f (firstn (b - a) (skipn a ls)).
Proof.
  intros PO Hab Hb. apply Forall_app in PO. destruct PO as [POpre PO2]. inversion PO2 as [|? ? POls POpost]; subst.
  cbn [snd] in POls.
  rewrite map_app, concat_app. cbn [map concat]. unfold sec_bytes at 2. cbn [fst snd].
  unfold slice. rewrite drop_skipn, take_firstn.
  replace (N.to_nat (N.of_nat ((slots_of p pre + Layout.K p + b) * L) - N.of_nat ((slots_of p pre + Layout.K p + a) * L)))
    with ((b - a) * L) by nia.
  rewrite Nat2N.id.
  (* skip the sections before and the header *)
  replace ((slots_of p pre + Layout.K p + a) * L) with (slots_of p pre * L + (Layout.K p * L + a * L)) by lia.
  rewrite <- (region_length pre POpre). rewrite <- skipn_plus, skipn_app, Nat.sub_diag, skipn_all. cbn [skipn app].
  rewrite <- app_assoc. rewrite <- (enc_section_length p f) at 1.
  rewrite <- skipn_plus, skipn_app, Nat.sub_diag, skipn_all. cbn [skipn app].
  (* inside the body *)
  rewrite <- (firstn_skipn a ls) at 1. unfold enc_body. rewrite map_app, concat_app.
  assert (La : length (concat (map (fun y : N * list byte => enc_line (fst y - f) (snd y)) (firstn a ls))) = a * L).
  { fold (enc_body f (firstn a ls)). rewrite (enc_body_length p).
    - rewrite firstn_length, Nat.min_l by lia. reflexivity.
    - apply Forall_firstn. exact POls. }
  rewrite <- app_assoc, <- La, skipn_app, Nat.sub_diag, skipn_all. cbn [skipn app].
  rewrite <- (firstn_skipn (b - a) (skipn a ls)) at 1. rewrite map_app, concat_app, <- app_assoc.
  assert (Lb : length (concat (map (fun y : N * list byte => enc_line (fst y - f) (snd y)) (firstn (b - a) (skipn a ls)))) = (b - a) * L).
  { fold (enc_body f (firstn (b - a) (skipn a ls))). rewrite (enc_body_length p).
    - rewrite firstn_length, skipn_length, Nat.min_l by lia. reflexivity.
    - apply Forall_firstn. apply Forall_skipn. exact POls. }
  rewrite <- Lb, firstn_app, Nat.sub_diag, firstn_all. cbn [firstn]. rewrite app_nil_r. reflexivity.
Qed.
End Window.

(* ---- the delta scans of find_read_start / find_read_end on one section body ---- *)
Section Scan16.
Variable p : nat.
Notation L := (p + 2).

Lemma chunks_enc_body f ls : Forall (fun y => length (snd y) = p) ls ->
  chunks L (enc_body f ls) = map (fun y => enc_line (fst y - f) (snd y)) ls.
Proof.
  intros F. unfold enc_body. apply chunks_concat; [lia|].
  rewrite Forall_map. eapply Forall_impl; [|exact F]. intros y Hy. apply enc_line_length. exact Hy.
Qed.

Lemma delta_of_enc_line d pay : (d < 65536)%N -> le_dec (firstn 2 (enc_line d pay)) = d.
Proof.
  intros H. unfold enc_line. cbn [le_enc app firstn].
  change [byte_of_N d; byte_of_N (d / 256)] with (le_enc 2 d). apply le_dec_enc. cbn. lia.
Qed.

Lemma position_map {A B} (g:A -> B) (h:B -> bool) : forall l, position h (map g l) = position (fun x => h (g x)) l.
Proof. induction l as [|x t IH]; cbn [map position]; [reflexivity|]. destruct (h (g x)); [reflexivity|]. rewrite IH. reflexivity. Qed.
Lemma position_ext {A} (h1 h2:A -> bool) : forall l, Forall (fun x => h1 x = h2 x) l -> position h1 l = position h2 l.
Proof. induction l as [|x t IH]; intros F; cbn [position]; [reflexivity|]. inversion F as [|? ? Hx Ft]; subst. rewrite Hx, IH by exact Ft. reflexivity. Qed.
Lemma rposition_from_map {A B} (g:A -> B) (h:B -> bool) : forall l i best,
  rposition_from h i (map g l) best = rposition_from (fun x => h (g x)) i l best.
Proof. induction l as [|x t IH]; intros i best; cbn [map rposition_from]; [reflexivity|]. apply IH. Qed.
Lemma rposition_from_ext {A} (h1 h2:A -> bool) : forall l i best, Forall (fun x => h1 x = h2 x) l ->
  rposition_from h1 i l best = rposition_from h2 i l best.
Proof. induction l as [|x t IH]; intros i best F; cbn [rposition_from]; [reflexivity|]. inversion F as [|? ? Hx Ft]; subst. rewrite Hx. apply IH. exact Ft. Qed.

(* number of leading lines before timestamp k (the lines are sorted) *)
Fixpoint count_lt (k:N) (ls:list line) : nat :=
  match ls with [] => 0 | y :: t => if (fst y <? k)%N then S (count_lt k t) else 0 end.
Fixpoint count_le (k:N) (ls:list line) : nat :=
  match ls with [] => 0 | y :: t => if (fst y <=? k)%N then S (count_le k t) else 0 end.
Lemma count_lt_le k ls : count_lt k ls <= length ls.
Proof. induction ls as [|y t IH]; cbn [count_lt length]; [lia|]. destruct (fst y <? k)%N; lia. Qed.
Lemma count_le_le k ls : count_le k ls <= length ls.
Proof. induction ls as [|y t IH]; cbn [count_le length]; [lia|]. destruct (fst y <=? k)%N; lia. Qed.

Lemma position_count_lt k : forall ls,
  position (fun y => (k <=? fst y)%N) ls = if count_lt k ls <? length ls then Some (N.of_nat (count_lt k ls)) else None.
Proof.
  induction ls as [|y t IH]; cbn [position count_lt length]; [reflexivity|].
  destruct (k <=? fst y)%N eqn:C.
  - replace (fst y <? k)%N with false by (symmetry; apply N.ltb_ge; apply N.leb_le; exact C). reflexivity.
  - replace (fst y <? k)%N with true by (symmetry; apply N.ltb_lt; apply N.leb_gt; exact C).
    rewrite IH. change (S (count_lt k t) <? S (length t)) with (count_lt k t <? length t).
    destruct (count_lt k t <? length t); cbn [option_map]; [f_equal; lia|reflexivity].
Qed.

(* for sorted lines the last line with ts <= k is right before the first one with ts > k *)
Lemma rposition_count_le k : forall ls i best, StronglySorted N.lt (map fst ls) ->
  rposition_from (fun y => (fst y <=? k)%N) i ls best
  = match count_le k ls with 0 => best | S c => Some (i + N.of_nat c)%N end.
Proof.
  induction ls as [|y t IH]; intros i best S; cbn [rposition_from count_le]; [reflexivity|].
  cbn [map] in S. inversion S as [|? ? St Hall]; subst.
  destruct (fst y <=? k)%N eqn:C.
  - rewrite IH by exact St. destruct (count_le k t) eqn:CT; [f_equal; lia|f_equal; lia].
  - (* nothing later can be <= k either *)
    assert (Z : count_le k t = 0).
    { destruct t as [|z t']; [reflexivity|]. cbn [count_le]. cbn [map] in Hall. inversion Hall; subst.
      apply N.leb_gt in C. replace (fst z <=? k)%N with false by (symmetry; apply N.leb_gt; lia). reflexivity. }
    rewrite IH by exact St. rewrite Z. reflexivity.
Qed.
End Scan16.

(* ---- find_read_start / find_read_end on the section that contains the bound ---- *)
Section Find.
Variables (fs:fsys) (d:data) (p:nat) (hdr:list byte).
Variables (pre:list sect) (f:N) (ls:list line) (post:list sect).
Notation L := (p + 2).
Let ss := pre ++ (f, ls) :: post.
Let region := concat (map (sec_bytes p) ss).
Hypothesis Hp : d_p d = p.
Hypothesis Hfile : file_is fs (d_file d) hdr region.
Hypothesis G : good_secs p ss.

Let body_start := slots_of p pre + Layout.K p.

Lemma sec_facts : (exists pay r, ls = (f, pay) :: r)
  /\ Forall (fun y => (f <= fst y)%N /\ (fst y - f <= MAXD)%N /\ length (snd y) = p /\ (fst y < 2^64)%N) ls
  /\ StronglySorted N.lt (map fst ls) /\ pay_ok p ss
  /\ (body_start + length ls) * L <= length region.
Proof.
  pose proof (good_pay_ok p ss G) as PO.
  unfold ss in G. apply good_app_inv in G. destruct G as [_ G2]. cbn [good_secs] in G2. destruct G2 as ((A & B & C) & _ & _).
  repeat split; try assumption.
  unfold region. rewrite region_length by exact PO. unfold ss. 
  assert (E : slots_of p (pre ++ (f, ls) :: post) = slots_of p pre + (Layout.K p + length ls + slots_of p post)).
  { clear. induction pre as [|s0 t IH]; cbn [app slots_of snd]; [reflexivity|]. rewrite IH. lia. }
  rewrite E. unfold body_start. nia.
Qed.

Lemma body_slice : pay_ok p ss ->
  slice (N.of_nat (body_start * L)) (N.of_nat ((body_start + length ls) * L)) region = enc_body f ls.
Proof.
  intros PO. pose proof (slice_body p pre f ls post 0 (length ls) PO ltac:(lia) ltac:(lia)) as SB.
  replace (slots_of p pre + Layout.K p + 0) with (slots_of p pre + Layout.K p) in SB by lia.
  rewrite Nat.sub_0_r in SB. cbn [skipn] in SB. rewrite firstn_all in SB. exact SB.
Qed.

Lemma find_read_start_spec s : (f < s)%N -> (s - f <= MAXD)%N ->
  find_read_start d (s - f) (N.of_nat (body_start * L)) (N.of_nat ((body_start + length ls) * L)) fs
  = (fs, Ok (N.of_nat ((body_start + count_lt s ls) * L))).
Proof.
  intros Hs Hd. destruct sec_facts as ((pay & r & Els) & F & S & PO & LEN).
  unfold find_read_start. rewrite Hp. unfold line_size.
  destruct (N.of_nat ((body_start + length ls) * L) <=? N.of_nat (body_start * L) + N.of_nat L)%N eqn:C.
  - (* at most one line: it is the section's first line, which lies before s *)
    apply N.leb_le in C. assert (L1 : length ls = 1) by (subst ls; cbn [length] in *; nia).
    subst ls. destruct r; [|discriminate]. cbn [count_lt fst length].
    replace (f <? s)%N with true by (symmetry; apply N.ltb_lt; exact Hs). reflexivity.
  - apply N.leb_gt in C.
    erewrite mbind_ok.
    2:{ apply (of_read_at_ok fs (d_file d) hdr region); [exact Hfile|]. unfold len. lia. }
    replace (N.of_nat (body_start * L) + (N.of_nat ((body_start + length ls) * L) - N.of_nat (body_start * L)))%N
      with (N.of_nat ((body_start + length ls) * L)) by lia.
    rewrite body_slice by exact PO.
    rewrite (chunks_enc_body p f ls) by (eapply Forall_impl; [|exact F]; intros y (_ & _ & H & _); exact H).
    rewrite position_map.
    rewrite (position_ext _ (fun y => (s <=? fst y)%N)).
    2:{ eapply Forall_impl; [|exact F]. intros y (H1 & H2 & _ & _). cbn beta.
        rewrite delta_of_enc_line by (unfold MAXD in H2; lia).
        apply eq_true_iff_eq. rewrite !N.leb_le. lia. }
    rewrite position_count_lt.
    destruct (count_lt s ls <? length ls) eqn:CL.
    + unfold ret. f_equal. f_equal. fold body_start. lia.
    + apply Nat.ltb_ge in CL. pose proof (count_lt_le s ls). replace (count_lt s ls) with (length ls) by lia. reflexivity.
Qed.

Lemma find_read_end_spec e : (f <= e)%N -> (e - f <= MAXD)%N ->
  find_read_end d (e - f) (N.of_nat (body_start * L)) (N.of_nat ((body_start + length ls) * L)) fs
  = (fs, Ok (N.of_nat ((body_start + count_le e ls) * L))).
Proof.
  intros He Hd. destruct sec_facts as ((pay & r & Els) & F & S & PO & LEN).
  unfold find_read_end. rewrite Hp. unfold line_size.
  replace (N.of_nat ((body_start + length ls) * L) <? N.of_nat (body_start * L))%N with false by (symmetry; apply N.ltb_ge; lia).
  erewrite mbind_ok.
  2:{ apply (of_read_at_ok fs (d_file d) hdr region); [exact Hfile|]. unfold len. lia. }
  replace (N.of_nat (body_start * L) + (N.of_nat ((body_start + length ls) * L) - N.of_nat (body_start * L)))%N
    with (N.of_nat ((body_start + length ls) * L)) by lia.
  rewrite body_slice by exact PO.
  rewrite (chunks_enc_body p f ls) by (eapply Forall_impl; [|exact F]; intros y (_ & _ & H & _); exact H).
  unfold rposition. rewrite rposition_from_map.
  rewrite (rposition_from_ext _ (fun y => (fst y <=? e)%N)).
  2:{ eapply Forall_impl; [|exact F]. intros y (H1 & H2 & _ & _). cbn beta.
      rewrite delta_of_enc_line by (unfold MAXD in H2; lia).
      apply eq_true_iff_eq. rewrite !N.leb_le. lia. }
  rewrite (rposition_count_le e ls 0 None S).
  assert (C1 : count_le e ls >= 1).
  { subst ls. cbn [count_le fst]. replace (f <=? e)%N with true by (symmetry; apply N.leb_le; exact He). lia. }
  destruct (count_le e ls) as [|c] eqn:CE; [lia|].
  unfold ret. f_equal. f_equal. fold body_start. lia.
Qed.
End Find.

(* ---- start_search_bounds / end_search_bounds on the entries of good sections ---- *)
Section Areas.
Variable p : nat.
Notation L := (p + 2).
Variables (pre:list sect) (f:N) (ls:list line) (post:list sect).
Let ss := pre ++ (f, ls) :: post.
Hypothesis G : good_secs p ss.
Let bs := slots_of p pre + Layout.K p.

Lemma nth_entry_here : nth_entry (ents p 0 ss) (length pre) = (f, N.of_nat (slots_of p pre * L)).
Proof.
  unfold nth_entry, ss. rewrite ents_app, app_nth2 by (rewrite ents_length; lia).
  rewrite ents_length, Nat.sub_diag. reflexivity.
Qed.
Lemma nth_entry_next f2 l2 post' : post = (f2, l2) :: post' ->
  nth_entry (ents p 0 ss) (S (length pre)) = (f2, N.of_nat ((bs + length ls) * L)).
Proof.
  intros E. unfold nth_entry, ss. rewrite ents_app, app_nth2 by (rewrite ents_length; lia).
  rewrite ents_length. replace (S (length pre) - length pre) with 1 by lia. rewrite E. cbn [ents nth].
  unfold bs. repeat f_equal; lia.
Qed.
Lemma ents_len : length (ents p 0 ss) = length pre + 1 + length post.
Proof. rewrite ents_length. unfold ss. rewrite app_length. cbn [length]. lia. Qed.
Lemma line_start_here : line_start p (N.of_nat (slots_of p pre * L)) = N.of_nat (bs * L).
Proof. unfold line_start, metainfo_size, line_size, bs. rewrite K_eq. lia. Qed.

Lemma next_bound f2 l2 post' : post = (f2, l2) :: post' -> (f + MAXD < f2)%N.
Proof.
  intros E. pose proof (good_after p pre (f, ls) post) as GA. fold ss in GA. specialize (GA G).
  rewrite E in GA. inversion GA; subst. assumption.
Qed.

Theorem start_area_spec s : (f <= s)%N -> (match post with (f2, _) :: _ => (s < f2)%N | [] => True end) ->
  (forall f2 l2 post', post = (f2, l2) :: post' -> (f2 < 2^64)%N) ->
  start_search_bounds (ents p 0 ss) p s
  = Ok (if (f =? s)%N then (SFound (N.of_nat (bs * L)), s)
        else match post with
             | [] => (STillEnd (N.of_nat (bs * L)), f)
             | (f2, _) :: _ => if (f + MAXD <? s)%N then (SGap (N.of_nat ((bs + length ls + Layout.K p) * L)), f2)
                               else (SWindow (N.of_nat (bs * L)) (N.of_nat ((bs + length ls) * L)), f)
             end).
Proof.
  intros Hf Hn Hb. unfold start_search_bounds.
  rewrite (bsearch_located p ss pre f ls post s 0 G) by (split; [reflexivity|split; assumption]).
  pose proof nth_entry_here as NH. pose proof nth_entry_next as NN. pose proof ents_len as EL.
  pose proof line_start_here as LS. pose proof next_bound as NB.
  destruct (f =? s)%N eqn:EQ.
  - apply N.eqb_eq in EQ. subst s. rewrite NH. cbn [snd]. rewrite LS. reflexivity.
  - remember (ents p 0 ss) as es eqn:EE. destruct es as [|e0 es'].
    { cbn [length] in EL. lia. }
    change (S (length pre) =? 0) with false. cbn iota. rewrite EL.
    destruct post as [|[f2 l2] post'].
    + replace (S (length pre) =? length pre + 1 + length (@nil sect)) with true by (symmetry; apply Nat.eqb_eq; cbn [length]; lia).
      replace (length pre + 1 + length (@nil sect) - 1) with (length pre) by (cbn [length]; lia).
      rewrite NH. cbn [fst snd]. rewrite LS. reflexivity.
    + replace (S (length pre) =? length pre + 1 + length ((f2, l2) :: post')) with false by (symmetry; apply Nat.eqb_neq; cbn [length]; lia).
      replace (S (length pre) - 1) with (length pre) by lia.
      rewrite NH, (NN f2 l2 post' eq_refl). cbn [fst snd].
      specialize (NB f2 l2 post' eq_refl). pose proof (Hb f2 l2 post' eq_refl) as HB.
      unfold in_gap, u64_add. rewrite max_small_ts_eq.
      replace (f + MAXD <? U64)%N with true by (symmetry; apply N.ltb_lt; unfold U64; cbn in HB |- *; lia).
      cbn [bind].
      destruct (f + MAXD <? s)%N eqn:GP.
      * unfold line_start, metainfo_size, line_size. rewrite K_eq. repeat f_equal; lia.
      * replace (f2 <=? s)%N with false by (symmetry; apply N.leb_gt; exact Hn).
        rewrite LS. reflexivity.
Qed.

Theorem end_area_spec e : (f <= e)%N -> (match post with (f2, _) :: _ => (e < f2)%N | [] => True end) ->
  (forall f2 l2 post', post = (f2, l2) :: post' -> (f2 < 2^64)%N) ->
  end_search_bounds (ents p 0 ss) p e
  = Ok (if (f =? e)%N then (EFound (N.of_nat (bs * L)), f)
        else match post with
             | [] => (ETillEnd (N.of_nat (bs * L)), f)
             | (f2, _) :: _ => if (f + MAXD <? e)%N then (EGap (N.of_nat ((bs + length ls) * L)), f)
                               else (EWindow (N.of_nat (bs * L)) (N.of_nat ((bs + length ls) * L)), f)
             end).
Proof.
  intros Hf Hn Hb. unfold end_search_bounds.
  rewrite (bsearch_located p ss pre f ls post e 0 G) by (split; [reflexivity|split; assumption]).
  pose proof nth_entry_here as NH. pose proof nth_entry_next as NN. pose proof ents_len as EL.
  pose proof line_start_here as LS. pose proof next_bound as NB.
  destruct (f =? e)%N eqn:EQ.
  - rewrite NH. cbn [fst snd]. rewrite LS. reflexivity.
  - change (S (length pre) =? 0) with false. cbn iota. rewrite EL.
    destruct post as [|[f2 l2] post'].
    + replace (S (length pre) =? length pre + 1 + length (@nil sect)) with true by (symmetry; apply Nat.eqb_eq; cbn [length]; lia).
      replace (length pre + 1 + length (@nil sect) - 1) with (length pre) by (cbn [length]; lia).
      rewrite NH. cbn [fst snd]. rewrite LS. reflexivity.
    + replace (S (length pre) =? length pre + 1 + length ((f2, l2) :: post')) with false by (symmetry; apply Nat.eqb_neq; cbn [length]; lia).
      replace (S (length pre) - 1) with (length pre) by lia.
      rewrite NH, (NN f2 l2 post' eq_refl). cbn [fst snd].
      specialize (NB f2 l2 post' eq_refl). pose proof (Hb f2 l2 post' eq_refl) as HB.
      unfold in_gap, u64_add. rewrite max_small_ts_eq.
      replace (f + MAXD <? U64)%N with true by (symmetry; apply N.ltb_lt; unfold U64; cbn in HB |- *; lia).
      cbn [bind].
      destruct (f + MAXD <? e)%N eqn:GP; [reflexivity|].
      rewrite LS. reflexivity.
Qed.
End Areas.

(* ---- RoughPos::refine computes the byte range of the lines between the bounds ---- *)
Section Refine.
Variables (fs:fsys) (d:data) (p:nat) (hdr:list byte) (ss:list sect).
Notation L := (p + 2).
Let region := concat (map (sec_bytes p) ss).
Hypothesis Hp : d_p d = p.
Hypothesis Hfile : file_is fs (d_file d) hdr region.
Hypothesis Hlen : d_len d = len region.
Hypothesis G : good_secs p ss.

Variables (pre_s:list sect) (f_s:N) (ls_s:list line) (post_s:list sect) (s:N).
Variables (pre_e:list sect) (f_e:N) (ls_e:list line) (post_e:list sect) (e:N).
Hypothesis Ls : located ss pre_s f_s ls_s post_s s.
Hypothesis Le : located ss pre_e f_e ls_e post_e e.
Hypothesis Hs_reach : post_s = [] -> (s - f_s <= MAXD)%N.
Hypothesis He_reach : post_e = [] -> (e - f_e <= MAXD)%N.
Hypothesis Hbound : Forall (fun sc => (fst sc < 2^64)%N) ss.

Let bs_s := slots_of p pre_s + Layout.K p.
Let bs_e := slots_of p pre_e + Layout.K p.

Definition start_pos : nat :=
  if (f_s =? s)%N then bs_s * L
  else match post_s with
       | [] => (bs_s + count_lt s ls_s) * L
       | _ :: _ => if (f_s + MAXD <? s)%N then (bs_s + length ls_s + Layout.K p) * L else (bs_s + count_lt s ls_s) * L
       end.
Definition start_full_of : N :=
  if (f_s =? s)%N then s
  else match post_s with
       | [] => f_s
       | (f2, _) :: _ => if (f_s + MAXD <? s)%N then f2 else f_s
       end.
Definition end_pos : nat := (bs_e + count_le e ls_e) * L.

Lemma slots_of_app a b : slots_of p (a ++ b) = slots_of p a + slots_of p b.
Proof. induction a as [|x a IH]; cbn [app slots_of]; [reflexivity|]. rewrite IH. lia. Qed.

Lemma post_bound (pre:list sect) f ls post : ss = pre ++ (f, ls) :: post ->
  forall f2 l2 post', post = (f2, l2) :: post' -> (f2 < 2^64)%N.
Proof.
  intros E f2 l2 post' EP. rewrite E, EP in Hbound. apply Forall_app in Hbound. destruct Hbound as [_ H].
  inversion H as [|? ? _ H2]; subst. inversion H2; subst. assumption.
Qed.

Lemma count_le_first (ls:list line) f k : (exists pay r, ls = (f, pay) :: r) -> StronglySorted N.lt (map fst ls) -> f = k -> count_le k ls = 1.
Proof.
  intros (pay & r & ->) S ->. cbn [count_le fst]. rewrite N.leb_refl. f_equal.
  destruct r as [|y r']; [reflexivity|]. cbn [map fst] in S. inversion S as [|? ? _ Hall]; subst. inversion Hall; subst.
  cbn [count_le]. replace (fst y <=? k)%N with false by (symmetry; apply N.leb_gt; assumption). reflexivity.
Qed.
Lemma count_le_all (ls:list line) k : Forall (fun y => (fst y <= k)%N) ls -> count_le k ls = length ls.
Proof.
  induction ls as [|y t IH]; intros F; [reflexivity|]. inversion F; subst. cbn [count_le length].
  replace (fst y <=? k)%N with true by (symmetry; apply N.leb_le; assumption). rewrite IH by assumption. reflexivity.
Qed.

Definition start_area_of : start_area * N :=
  if (f_s =? s)%N then (SFound (N.of_nat (bs_s * L)), s)
  else match post_s with
       | [] => (STillEnd (N.of_nat (bs_s * L)), f_s)
       | (f2, _) :: _ => if (f_s + MAXD <? s)%N then (SGap (N.of_nat ((bs_s + length ls_s + Layout.K p) * L)), f2)
                         else (SWindow (N.of_nat (bs_s * L)) (N.of_nat ((bs_s + length ls_s) * L)), f_s)
       end.
Definition end_area_of : end_area * N :=
  if (f_e =? e)%N then (EFound (N.of_nat (bs_e * L)), f_e)
  else match post_e with
       | [] => (ETillEnd (N.of_nat (bs_e * L)), f_e)
       | (f2, _) :: _ => if (f_e + MAXD <? e)%N then (EGap (N.of_nat ((bs_e + length ls_e) * L)), f_e)
                         else (EWindow (N.of_nat (bs_e * L)) (N.of_nat ((bs_e + length ls_e) * L)), f_e)
       end.

(* the two halves of refine, for any rough position *)
Definition start_comp (r:rough) : M N :=
  match start_area_ r with
  | SFound x | SGap x => ret x
  | SClipped => ret (line_start p 0)
  | STillEnd s0 => let* st := lift (small_ts_of (start_ts r) (start_full r)) in find_read_start d st s0 (d_len d)
  | SWindow s0 stop => let* st := lift (small_ts_of (start_ts r) (start_full r)) in find_read_start d st s0 stop
  end.
Definition end_comp (r:rough) : M N :=
  match end_area_ r with
  | EFound x => ret (x + line_size p)%N
  | EGap x => ret x
  | ETillEnd s0 => let* et := lift (small_ts_of (end_ts r) (end_full r)) in find_read_end d et s0 (d_len d)
  | EWindow s0 stop => let* et := lift (small_ts_of (end_ts r) (end_full r)) in find_read_end d et s0 stop
  end.
Lemma refine_parts (r:rough) (sb eb:nat) :
  start_comp r fs = (fs, Ok (N.of_nat sb)) -> end_comp r fs = (fs, Ok (N.of_nat eb)) ->
  refine r d fs = (fs, Ok (if eb <=? sb then None
                           else Some {| p_start := N.of_nat sb; p_end := N.of_nat eb; p_full := start_full r |})).
Proof.
  intros HS HE. unfold refine. rewrite Hp. unfold start_comp in HS. unfold end_comp in HE.
  erewrite mbind_ok by exact HS. erewrite mbind_ok by exact HE.
  replace (N.of_nat eb <=? N.of_nat sb)%N with (eb <=? sb).
  2:{ destruct (eb <=? sb) eqn:C; symmetry; [apply N.leb_le; apply Nat.leb_le in C; lia|apply N.leb_gt; apply Nat.leb_gt in C; lia]. }
  destruct (eb <=? sb); reflexivity.
Qed.

Lemma region_facts :
  (post_s = [] -> d_len d = N.of_nat ((bs_s + length ls_s) * L))
  /\ (post_e = [] -> d_len d = N.of_nat ((bs_e + length ls_e) * L)).
Proof.
  destruct Ls as (Es & _). destruct Le as (Ee & _). split; intros EP; rewrite Hlen; unfold region, len;
    rewrite region_length by (apply good_pay_ok; exact G).
  - rewrite Es, EP, slots_of_app. cbn [slots_of snd]. unfold bs_s. f_equal. lia.
  - rewrite Ee, EP, slots_of_app. cbn [slots_of snd]. unfold bs_e. f_equal. lia.
Qed.

Lemma start_byte_spec (r:rough) : start_ts r = s -> start_area_ r = fst start_area_of -> start_full r = start_full_of ->
  start_comp r fs = (fs, Ok (N.of_nat start_pos)).
Proof.
  intros E1 E2 E3. unfold start_comp. rewrite E1, E2, E3. unfold start_area_of.
  destruct Ls as (Es & Hfs & Hns). destruct region_facts as [DLs _].
  assert (Gs : good_secs p (pre_s ++ (f_s, ls_s) :: post_s)) by (rewrite <- Es; exact G).
  assert (Fs : file_is fs (d_file d) hdr (concat (map (sec_bytes p) (pre_s ++ (f_s, ls_s) :: post_s)))) by (rewrite <- Es; exact Hfile).
  unfold start_pos, start_full_of. destruct (f_s =? s)%N eqn:EQ; [reflexivity|]. apply N.eqb_neq in EQ.
    destruct post_s as [|[f2 l2] post'] eqn:EP; cbn [fst].
    - specialize (Hs_reach eq_refl). unfold small_ts_of.
      replace (s <? f_s)%N with false by (symmetry; apply N.ltb_ge; exact Hfs).
      rewrite max_small_ts_eq. replace (MAXD <? s - f_s)%N with false by (symmetry; apply N.ltb_ge; exact Hs_reach).
      erewrite mbind_ok by reflexivity. rewrite (DLs eq_refl).
      apply (find_read_start_spec fs d p hdr pre_s f_s ls_s [] Hp Fs Gs s); [lia|exact Hs_reach].
    - destruct (f_s + MAXD <? s)%N eqn:GP; cbn [fst]; [reflexivity|].
      apply N.ltb_ge in GP. unfold small_ts_of.
      replace (s <? f_s)%N with false by (symmetry; apply N.ltb_ge; exact Hfs).
      rewrite max_small_ts_eq. replace (MAXD <? s - f_s)%N with false by (symmetry; apply N.ltb_ge; lia).
      erewrite mbind_ok by reflexivity.
      apply (find_read_start_spec fs d p hdr pre_s f_s ls_s ((f2, l2) :: post') Hp Fs Gs s); lia.
Qed.

Lemma end_byte_spec (r:rough) : end_ts r = e -> end_area_ r = fst end_area_of -> end_full r = f_e ->
  end_comp r fs = (fs, Ok (N.of_nat end_pos)).
Proof.
  intros E1 E2 E3. unfold end_comp. rewrite E1, E2, E3. unfold end_area_of.
  destruct Le as (Ee & Hfe & Hne). destruct region_facts as [_ DLe].
  assert (Ge : good_secs p (pre_e ++ (f_e, ls_e) :: post_e)) by (rewrite <- Ee; exact G).
  assert (Fe : file_is fs (d_file d) hdr (concat (map (sec_bytes p) (pre_e ++ (f_e, ls_e) :: post_e)))) by (rewrite <- Ee; exact Hfile).
  destruct (sec_facts d p pre_e f_e ls_e post_e Hp Ge) as (First_e & F_e & S_e & _ & _).
  unfold end_pos. destruct (f_e =? e)%N eqn:EQ.
    - apply N.eqb_eq in EQ. cbn [fst]. rewrite (count_le_first ls_e f_e e First_e S_e EQ).
      unfold ret, line_size. f_equal. f_equal. lia.
    - apply N.eqb_neq in EQ. destruct post_e as [|[f2 l2] post'] eqn:EP; cbn [fst].
      + specialize (He_reach eq_refl). unfold small_ts_of.
        replace (e <? f_e)%N with false by (symmetry; apply N.ltb_ge; exact Hfe).
        rewrite max_small_ts_eq. replace (MAXD <? e - f_e)%N with false by (symmetry; apply N.ltb_ge; exact He_reach).
        erewrite mbind_ok by reflexivity. rewrite (DLe eq_refl).
        apply (find_read_end_spec fs d p hdr pre_e f_e ls_e [] Hp Fe Ge e); [exact Hfe|exact He_reach].
      + destruct (f_e + MAXD <? e)%N eqn:GP; cbn [fst].
        * apply N.ltb_lt in GP. rewrite count_le_all; [reflexivity|].
          eapply Forall_impl; [|exact F_e]. intros y (H1 & H2 & _). cbn beta. lia.
        * apply N.ltb_ge in GP. unfold small_ts_of.
          replace (e <? f_e)%N with false by (symmetry; apply N.ltb_ge; exact Hfe).
          rewrite max_small_ts_eq. replace (MAXD <? e - f_e)%N with false by (symmetry; apply N.ltb_ge; lia).
          erewrite mbind_ok by reflexivity.
          apply (find_read_end_spec fs d p hdr pre_e f_e ls_e ((f2, l2) :: post') Hp Fe Ge e); [exact Hfe|lia].
Qed.

Theorem refine_spec :
  let r := {| start_ts := s; start_area_ := fst start_area_of; start_full := start_full_of;
              end_ts := e; end_area_ := fst end_area_of; end_full := f_e |} in
  refine r d fs = (fs, Ok (if end_pos <=? start_pos then None
                           else Some {| p_start := N.of_nat start_pos; p_end := N.of_nat end_pos; p_full := start_full_of |})).
Proof.
  cbn zeta.
  set (r := {| start_ts := s; start_area_ := fst start_area_of; start_full := start_full_of;
               end_ts := e; end_area_ := fst end_area_of; end_full := f_e |}).
  exact (refine_parts r start_pos end_pos (start_byte_spec r eq_refl eq_refl eq_refl) (end_byte_spec r eq_refl eq_refl eq_refl)).
Qed.
End Refine.

(* ---- reading a byte range that holds the encoding of some lines after full timestamp pf ---- *)
Section Range.
Variable p : nat.
Notation L := (p + 2).

Lemma st_of_not_bad full : st_of full <> FBad.
Proof. destruct full; discriminate. Qed.

Theorem rwp_range (St:Type) (proc:St -> N -> list byte -> pres St) cb0 (region:list byte) (start stop:nat) (pf:N) (mid:list line) (acc:St) :
  start <= stop -> stop <= length region ->
  firstn (stop - start) (skipn start region) = encode_from p (Some pf) mid ->
  ok_from p (Some pf) mid ->
  read_with_processor St proc p cb0 region (N.of_nat start) (N.of_nat stop) pf acc
  = match feed St proc acc mid with PCont a => RDone a | PStop a => RStopped a | PPanic => RPanic end.
Proof.
  intros Hss Hsr HW OK.
  assert (WP : Forall (fun x => length (snd x) = p) mid).
  { clear -OK. revert OK. generalize (Some pf). induction mid as [|y t IH]; intros o H; constructor.
    - apply H. - cbn [ok_from] in H. eapply IH. apply H. }
  destruct (encode_from_slots p mid (Some pf) WP) as (ls & E & F & NL).
  assert (WL : stop - start = length ls * L).
  { apply (f_equal (@length byte)) in HW. rewrite firstn_length, skipn_length, E in HW.
    rewrite (concat_length_uniform L) in HW by exact F. lia. }
  unfold read_with_processor.
  replace (N.of_nat stop <? N.of_nat start)%N with false by (symmetry; apply N.ltb_ge; lia).
  set (chunkN := next_multiple_of BSgen.Consts.read_chunk (N.of_nat L)).
  destruct (next_multiple_of_spec' BSgen.Consts.read_chunk (N.of_nat L) ltac:(lia)) as (CM & CGE & _).
  fold chunkN in CM, CGE.
  assert (CPOS : (0 < chunkN)%N) by (assert (0 < BSgen.Consts.read_chunk)%N by reflexivity; lia).
  set (to_read := (N.of_nat stop - N.of_nat start)%N).
  assert (TR : to_read = N.of_nat (stop - start)) by (unfold to_read; lia).
  pose proof (chunk_loop_is_scan St proc p cb0
               (S (N.to_nat (N.min (to_read / chunkN) (len region / chunkN + 1)))) (N.to_nat chunkN)
               region start (stop - start) pf RN acc) as CL.
  cbn [held_slots concat base] in CL. rewrite N2Nat.id, <- TR in CL.
  rewrite CL; clear CL.
  2:{ lia. }
  2:{ replace L with (N.to_nat (N.of_nat L)) by lia. rewrite <- N2Nat.inj_mod by lia. rewrite CM. reflexivity. }
  2:{ rewrite WL. apply Nat.mod_mul. lia. }
  2:{ lia. }
  2:{ assert (Hd : (to_read / chunkN <= len region / chunkN)%N) by (apply N.div_le_mono; unfold to_read, len; lia).
      rewrite N.min_l by lia.
      pose proof (N.div_mod to_read chunkN ltac:(lia)). pose proof (N.mod_lt to_read chunkN ltac:(lia)).
      assert (N.of_nat (stop - start) <= N.of_nat (S (N.to_nat (to_read / chunkN)) * N.to_nat chunkN))%N; [|lia].
      rewrite <- TR. rewrite Nat2N.inj_mul, Nat2N.inj_succ, !N2Nat.id. nia. }
  2:{ reflexivity. }
  2:{ exact I. }
  2:{ constructor. }
  rewrite HW.
  pose proof (scan_encode_from p mid (Some pf) 0 [] [] 0 0 OK) as SC. cbn [st_of] in SC.
  assert (FL : Forall (fun s0 => length s0 = L) (chunks L (encode_from p (Some pf) mid))).
  { rewrite E, chunks_concat by (try lia; exact F). exact F. }
  destruct (sim_lines St proc p cb0 _ pf RN (FNormal pf) acc 0 [] [] 0 0 (MS_N p pf) FL) as (newl & f3 & st3 & A & B & C).
  { rewrite SC. cbn [f_st mk]. apply st_of_not_bad. }
  rewrite SC in A. cbn [f_lines mk] in A. rewrite !app_nil_r in A.
  apply (f_equal (@rev line)) in A. rewrite !rev_involutive in A. subst newl.
  rewrite C. destruct (feed St proc acc mid); reflexivity.
Qed.
End Range.
