(* C18, the other half: the lines certified by Layer S's skipping decoder on a data region in which ONE line was
   damaged - the second marker line of a section turned into a non-marker, or the delta of a data line turned into
   the marker pattern - are genuine: a subsequence of the appended lines, containing every line of every
   undamaged section. Together with CorruptFacts (the reader returns exactly the certified lines) this is
   "only genuine lines, each with its original timestamp, resuming no later than the next intact section". *)
From Coq Require Import List NArith ZArith Lia Bool Arith ZifyBool ZifyN ZifyNat Sorted.
From Coq Require Import Strings.Byte.
Require Import BS.Bytes BS.Common BS.CommonFacts BS.Api BS.Layout BS.Format BS.FormatFacts BS.Spec BS.Sections.
Require Import BS.Meta BS.MetaFacts BS.Header BS.Reader BS.Index BS.ExtractFacts BS.RangeFacts.
Import ListNotations.
Close Scope N_scope. Open Scope nat_scope.
Arguments N.add : simpl never. Arguments N.mul : simpl never. Arguments N.sub : simpl never.
Arguments N.ltb : simpl never. Arguments N.leb : simpl never. Arguments N.eqb : simpl never.

Section Lenient.
Variable p : nat.
Notation L := (p + 2).

Definition set_st (s:lscan) (st:lstate) : lscan :=
  {| l_st := st; l_sure := l_sure s; l_lone := l_lone s; l_bad := l_bad s; l_first := l_first s |}.
Definition add_lines (s:lscan) (st:lstate) (ls:list line) : lscan :=
  {| l_st := st; l_sure := rev ls ++ l_sure s; l_lone := l_lone s; l_bad := l_bad s; l_first := l_first s |}.

Lemma lstep_LN_marker s fu sk x : l_st s = LN fu sk -> Layout.is_marker x = true -> lstep p s x = set_st s (L1 fu x).
Proof. intros E M. unfold lstep. rewrite E, M. reflexivity. Qed.
Lemma lstep_L1_marker s fu a x : l_st s = L1 fu a -> Layout.is_marker x = true ->
  lstep p s x = if Layout.ncont p =? 0 then set_st s (LN (Some (Layout.read_ts p a x [])) false) else set_st s (L2 fu a x []).
Proof. intros E M. unfold lstep. rewrite E, M. destruct (Layout.ncont p =? 0); reflexivity. Qed.
Lemma lstep_L2 s fu a b got x : l_st s = L2 fu a b got ->
  lstep p s x = if length (got ++ [x]) =? Layout.ncont p then set_st s (LN (Some (Layout.read_ts p a b (got ++ [x]))) false)
                else set_st s (L2 fu a b (got ++ [x])).
Proof. intros E. unfold lstep. rewrite E. destruct (length (got ++ [x]) =? Layout.ncont p); reflexivity. Qed.

(* the header of a section: whatever the state at a line boundary, afterwards the full timestamp is known *)
Lemma lenient_header (s:lscan) fu sk f : l_st s = LN fu sk -> (f < 2^64)%N ->
  fold_left (lstep p) (Layout.sec_slots p f) s = set_st s (LN (Some f) false).
Proof.
  intros E Hf. destruct (Layout.sec_slots_shape p f) as (Ma & Mb & Lg).
  pose proof (Layout.read_ts_sec p f Hf) as RT. unfold Layout.sec_slots.
  set (a := Layout.sec_a p f) in *. set (b := Layout.sec_b p f) in *. set (got := Layout.sec_got p f) in *. clearbody a b got.
  cbn [fold_left]. rewrite (lstep_LN_marker s fu sk a E Ma).
  rewrite (lstep_L1_marker (set_st s (L1 fu a)) fu a b eq_refl Mb).
  destruct got as [|g0 gt].
  - cbn [length] in Lg. replace (Layout.ncont p =? 0) with true by (symmetry; apply Nat.eqb_eq; lia). cbn [fold_left]. rewrite RT. reflexivity.
  - replace (Layout.ncont p =? 0) with false by (symmetry; apply Nat.eqb_neq; cbn [length] in Lg; lia).
    assert (COLL : forall rest done (s0:lscan), l_st s0 = L2 fu a b done -> length (done ++ rest) = Layout.ncont p -> rest <> [] ->
              fold_left (lstep p) rest s0 = set_st s0 (LN (Some (Layout.read_ts p a b (done ++ rest))) false)).
    { induction rest as [|x t IH]; intros done s0 E0 Hl Hne; [contradiction|]. cbn [fold_left].
      rewrite (lstep_L2 s0 fu a b done x E0).
      destruct t as [|y t'].
      - replace (length (done ++ [x]) =? Layout.ncont p) with true by (symmetry; apply Nat.eqb_eq; exact Hl). reflexivity.
      - replace (length (done ++ [x]) =? Layout.ncont p) with false
          by (symmetry; apply Nat.eqb_neq; rewrite !app_length in *; cbn [length] in *; lia).
        rewrite (IH (done ++ [x]) (set_st s0 (L2 fu a b (done ++ [x]))) eq_refl); [|rewrite <- app_assoc; exact Hl|discriminate].
        rewrite <- app_assoc. reflexivity. }
    rewrite (COLL (g0 :: gt) [] (set_st (set_st s (L1 fu a)) (L2 fu a b [])) eq_refl Lg ltac:(discriminate)). cbn [app]. rewrite RT. reflexivity.
Qed.

(* data lines after a full timestamp f *)
Lemma lenient_lines f : forall (ls:list line) (s:lscan), l_st s = LN (Some f) false ->
  Forall (fun y => (f <= fst y)%N /\ (fst y - f <= MAXD)%N) ls ->
  fold_left (lstep p) (map (fun y => enc_line (fst y - f) (snd y)) ls) s = add_lines s (LN (Some f) false) ls.
Proof.
  induction ls as [|y t IH]; intros s E F; cbn [map fold_left].
  - unfold add_lines. cbn [rev app]. destruct s; cbn in *; subst; reflexivity.
  - inversion F as [|? ? [H1 H2] Ft]; subst.
    assert (ST : lstep p s (enc_line (fst y - f) (snd y)) = add_lines s (LN (Some f) false) [y]).
    { unfold lstep. rewrite E. change (enc_line (fst y - f) (snd y)) with (Layout.line_slot (fst y - f) (snd y)).
      rewrite Layout.line_slot_not_marker by exact H2.
      pose proof (Layout.mk_line_slot f (fst y - f) (snd y) ltac:(unfold MAXD in H2; lia)) as M. unfold Layout.mk in M.
      pose proof (f_equal fst M) as M1. pose proof (f_equal snd M) as M2. cbn [fst snd] in M1, M2. rewrite M1, M2. replace (f + (fst y - f))%N with (fst y) by lia. unfold add_lines. cbn [rev app]. destruct y; reflexivity. }
    rewrite ST. rewrite (IH (add_lines s (LN (Some f) false) [y]) eq_refl Ft). unfold add_lines. cbn [l_sure l_lone l_bad l_first rev app]. rewrite <- app_assoc. reflexivity.
Qed.
(* ... and while skipping: nothing *)
Lemma lenient_skip : forall (xs:list slot) (s:lscan) fu, l_st s = LN fu true -> Forall nonmarker xs ->
  fold_left (lstep p) xs s = s.
Proof.
  induction xs as [|x t IH]; intros s fu E F; [reflexivity|]. inversion F as [|? ? Hx Ft]; subst. cbn [fold_left].
  assert (ST : lstep p s x = s). { unfold lstep. rewrite E. unfold nonmarker in Hx. rewrite <- is_marker_eq, Hx. reflexivity. }
  rewrite ST. apply (IH s fu E Ft).
Qed.

(* an intact section *)
Lemma lenient_section (s:sect) (sc:lscan) fu sk : sec_ok p s -> l_st sc = LN fu sk ->
  fold_left (lstep p) (sslots p s) sc = add_lines sc (LN (Some (fst s)) false) (snd s).
Proof.
  destruct s as [f ls]. intros ((pay & r & Els) & F & _) E. cbn [fst snd]. unfold sslots. cbn [fst snd].
  assert (Hf : (f < 2^64)%N) by (subst ls; inversion F as [|? ? Hx _]; subst; cbn [fst] in Hx; lia).
  rewrite fold_left_app, (lenient_header sc fu sk f E Hf).
  rewrite (lenient_lines f ls (set_st sc (LN (Some f) false)) eq_refl); [reflexivity|].
  eapply Forall_impl; [|exact F]. intros y (A & B & _). split; assumption.
Qed.

Lemma lenient_sections : forall (ss:list sect) (sc:lscan) fu sk, good_secs p ss -> l_st sc = LN fu sk -> ss <> [] ->
  exists f, fold_left (lstep p) (concat (map (sslots p) ss)) sc = add_lines sc (LN (Some f) false) (bodies ss).
Proof.
  induction ss as [|s t IH]; intros sc fu sk G E NE; [contradiction|].
  cbn [good_secs] in G. destruct G as (Ok0 & _ & Gt). cbn [map concat]. rewrite fold_left_app, (lenient_section s sc fu sk Ok0 E).
  destruct t as [|s2 t'].
  - exists (fst s). cbn [map concat fold_left]. unfold bodies. cbn [map concat]. rewrite app_nil_r. reflexivity.
  - destruct (IH (add_lines sc (LN (Some (fst s)) false) (snd s)) (Some (fst s)) false Gt eq_refl ltac:(discriminate)) as [f2 E2].
    exists f2. rewrite E2. change (bodies (s :: s2 :: t')) with (snd s ++ bodies (s2 :: t')).
    unfold add_lines. cbn [l_sure l_lone l_bad l_first]. rewrite rev_app_distr, <- app_assoc. reflexivity.
Qed.

(* ---- one damaged line ---- *)
(* kind 1: the second marker line of section s is overwritten by a slot x' that is no marker line *)
Definition damaged1 (s:sect) (x':slot) : list slot :=
  Layout.sec_a p (fst s) :: x' :: Layout.sec_got p (fst s) ++ map (fun y => enc_line (fst y - fst s) (snd y)) (snd s).
(* kind 2: the delta of the line y of section s (lines a before it, z and b after it) is overwritten by the marker pattern *)
Definition damaged2 (f:N) (a:list line) (y z:line) (b:list line) (m:slot) : list slot :=
  Layout.sec_slots p f ++ map (fun v => enc_line (fst v - f) (snd v)) a ++ [m]
  ++ map (fun v => enc_line (fst v - f) (snd v)) (z :: b).

Lemma lenient_damaged1 (s:sect) x' (sc:lscan) fu sk : sec_ok p s -> nm_sec p s -> l_st sc = LN fu sk ->
  Layout.is_marker x' = false ->
  fold_left (lstep p) (damaged1 s x') sc
  = {| l_st := LN fu true; l_sure := l_sure sc; l_lone := S (l_lone sc); l_bad := l_bad sc;
       l_first := match l_first sc with None => Some (length (l_sure sc)) | o => o end |}.
Proof.
  destruct s as [f ls]. intros ((pay & r & Els) & F & _) NM E Mx. cbn [fst snd] in *. unfold damaged1. cbn [fst snd fold_left].
  destruct (Layout.sec_slots_shape p f) as (Ma & _ & _).
  rewrite (lstep_LN_marker sc fu sk _ E Ma).
  assert (ST : lstep p (set_st sc (L1 fu (Layout.sec_a p f))) x'
               = {| l_st := LN fu true; l_sure := l_sure sc; l_lone := S (l_lone sc); l_bad := l_bad sc;
                    l_first := match l_first sc with None => Some (length (l_sure sc)) | o => o end |}).
  { unfold lstep. cbn [set_st l_st l_sure l_lone l_bad l_first]. rewrite Mx. reflexivity. }
  rewrite ST. eapply (lenient_skip _ _ fu); [reflexivity|].
  apply Forall_app. split; [exact NM|]. apply body_nonmarkers. eapply Forall_impl; [|exact F]. intros y (_ & H & _). exact H.
Qed.

Lemma lenient_damaged2 f (a:list line) (y z:line) (b:list line) (m:slot) (sc:lscan) fu sk :
  (f < 2^64)%N -> l_st sc = LN fu sk -> Layout.is_marker m = true ->
  Forall (fun v => (f <= fst v)%N /\ (fst v - f <= MAXD)%N) (a ++ z :: b) ->
  fold_left (lstep p) (damaged2 f a y z b m) sc
  = {| l_st := LN (Some f) true; l_sure := rev a ++ l_sure sc; l_lone := S (l_lone sc); l_bad := l_bad sc;
       l_first := match l_first sc with None => Some (length (rev a ++ l_sure sc)) | o => o end |}.
Proof.
  intros Hf E Mm F. apply Forall_app in F. destruct F as [Fa Fzb]. unfold damaged2.
  rewrite fold_left_app, (lenient_header sc fu sk f E Hf).
  rewrite fold_left_app, (lenient_lines f a (set_st sc (LN (Some f) false)) eq_refl Fa).
  cbn [app fold_left map].
  rewrite (lstep_LN_marker (add_lines (set_st sc (LN (Some f) false)) (LN (Some f) false) a) (Some f) false m eq_refl Mm).
  inversion Fzb as [|? ? [Hz1 Hz2] Fb]; subst.
  assert (ST : lstep p (set_st (add_lines (set_st sc (LN (Some f) false)) (LN (Some f) false) a) (L1 (Some f) m)) (enc_line (fst z - f) (snd z))
               = {| l_st := LN (Some f) true; l_sure := rev a ++ l_sure sc; l_lone := S (l_lone sc); l_bad := l_bad sc;
                    l_first := match l_first sc with None => Some (length (rev a ++ l_sure sc)) | o => o end |}).
  { unfold lstep. cbn [set_st add_lines l_st l_sure l_lone l_bad l_first].
    change (enc_line (fst z - f) (snd z)) with (Layout.line_slot (fst z - f) (snd z)).
    rewrite Layout.line_slot_not_marker by exact Hz2. reflexivity. }
  rewrite ST. eapply (lenient_skip _ _ (Some f)); [reflexivity|].
  apply body_nonmarkers. eapply Forall_impl; [|exact Fb]. intros v [_ H]. exact H.
Qed.

(* ---- the certified lines of a once-damaged encoding ---- *)
Inductive sublist {A} : list A -> list A -> Prop :=
| sub_nil : sublist [] []
| sub_keep x a b : sublist a b -> sublist (x :: a) (x :: b)
| sub_drop x a b : sublist a b -> sublist a (x :: b).
Lemma sublist_refl {A} (l:list A) : sublist l l.
Proof. induction l; constructor; assumption. Qed.
Lemma sublist_nil_l {A} (l:list A) : sublist [] l.
Proof. induction l; constructor; assumption. Qed.
Lemma sublist_app {A} (a a' b b':list A) : sublist a a' -> sublist b b' -> sublist (a ++ b) (a' ++ b').
Proof. intros H1 H2. induction H1; cbn [app]; [exact H2|constructor; assumption|constructor; assumption]. Qed.

Lemma bodies_app' a b : bodies (a ++ b) = bodies a ++ bodies b.
Proof. unfold bodies. rewrite map_app, concat_app. reflexivity. Qed.

Definition lscan_start : lscan := lscan0.

Lemma lenient_prefix (pre:list sect) : good_secs p pre ->
  exists fu, fold_left (lstep p) (concat (map (sslots p) pre)) lscan0 = add_lines lscan0 (LN fu false) (bodies pre).
Proof.
  intros G. destruct pre as [|s t].
  - exists None. reflexivity.
  - destruct (lenient_sections (s :: t) lscan0 None false G eq_refl ltac:(discriminate)) as [f E]. exists (Some f). exact E.
Qed.

Lemma lenient_suffix (post:list sect) (sc:lscan) fu sk : good_secs p post -> l_st sc = LN fu sk ->
  exists st, fold_left (lstep p) (concat (map (sslots p) post)) sc = add_lines sc st (bodies post)
             /\ (post <> [] -> exists f, st = LN (Some f) false).
Proof.
  intros G E. destruct post as [|s t].
  - exists (LN fu sk). split; [|intros Q; contradiction]. cbn [map concat fold_left]. unfold add_lines, bodies. cbn [map concat rev app].
    destruct sc; cbn in *; subst; reflexivity.
  - destruct (lenient_sections (s :: t) sc fu sk G E ltac:(discriminate)) as [f E2]. exists (LN (Some f) false). split; [exact E2|eauto].
Qed.

(* kind 1: the second marker line of a section is lost: the lines of that section are not returned, all others are *)
Theorem certified_second_marker_lost (pre post:list sect) (s:sect) x' :
  good_secs p (pre ++ s :: post) -> nm_sec p s -> Layout.is_marker x' = false ->
  let sc := fold_left (lstep p) (concat (map (sslots p) pre) ++ damaged1 s x' ++ concat (map (sslots p) post)) lscan0 in
  rev (l_sure sc) = bodies pre ++ bodies post /\ l_bad sc = false /\ l_lone sc = 1
  /\ sublist (rev (l_sure sc)) (bodies (pre ++ s :: post))
  /\ (post <> [] -> exists f, l_st sc = LN (Some f) false).
Proof.
  intros G NM Mx sc. pose proof (good_app_inv p pre (s :: post) G) as [Gpre Gsp].
  cbn [good_secs] in Gsp. destruct Gsp as (Oks & _ & Gpost).
  destruct (lenient_prefix pre Gpre) as [fu EP].
  unfold sc. rewrite fold_left_app, EP, fold_left_app.
  rewrite (lenient_damaged1 s x' (add_lines lscan0 (LN fu false) (bodies pre)) fu false Oks NM eq_refl Mx).
  cbn [add_lines l_sure l_lone l_bad l_first lscan0].
  match goal with |- context [fold_left (lstep p) (concat (map (sslots p) post)) ?X] => set (mid := X) end.
  destruct (lenient_suffix post mid fu true Gpost eq_refl) as (st & ES & STP). rewrite ES.
  unfold add_lines, mid. cbn [l_sure l_lone l_bad l_first l_st]. rewrite !app_nil_r.
  rewrite rev_app_distr, !rev_involutive.
  split; [reflexivity|]. split; [reflexivity|]. split; [reflexivity|]. split; [|exact STP].
  rewrite bodies_app'. apply sublist_app; [apply sublist_refl|].
  change (bodies (s :: post)) with (snd s ++ bodies post). rewrite <- (app_nil_l (bodies post)) at 1.
  apply sublist_app; [apply sublist_nil_l|apply sublist_refl].
Qed.

(* kind 2: the delta of a data line (followed by another data line of the same section) becomes the marker pattern:
   the lines of that section before it are returned, the rest of the section is not, all other sections are *)
Theorem certified_delta_lost (pre post:list sect) f (a:list line) (y z:line) (b:list line) (m:slot) :
  good_secs p (pre ++ (f, a ++ y :: z :: b) :: post) -> Layout.is_marker m = true ->
  let sc := fold_left (lstep p) (concat (map (sslots p) pre) ++ damaged2 f a y z b m ++ concat (map (sslots p) post)) lscan0 in
  rev (l_sure sc) = bodies pre ++ a ++ bodies post /\ l_bad sc = false /\ l_lone sc = 1
  /\ sublist (rev (l_sure sc)) (bodies (pre ++ (f, a ++ y :: z :: b) :: post))
  /\ (post <> [] -> exists f', l_st sc = LN (Some f') false).
Proof.
  intros G Mm sc. pose proof (good_app_inv p pre ((f, a ++ y :: z :: b) :: post) G) as [Gpre Gsp].
  cbn [good_secs] in Gsp. destruct Gsp as (Oks & _ & Gpost).
  destruct Oks as ((pay & r & Els) & F & _). cbn [fst snd] in *.
  assert (Hf : (f < 2^64)%N).
  { rewrite Forall_forall in F. destruct (F (f, pay)) as (_ & _ & _ & H); [rewrite Els; left; reflexivity|exact H]. }
  assert (Faz : Forall (fun v => (f <= fst v)%N /\ (fst v - f <= MAXD)%N) (a ++ z :: b)).
  { apply Forall_forall. intros v Hv. rewrite Forall_forall in F. destruct (F v) as (A1 & A2 & _); [|split; assumption].
    apply in_app_or in Hv. apply in_or_app. destruct Hv as [Hv|Hv]; [left; exact Hv|right; right; exact Hv]. }
  destruct (lenient_prefix pre Gpre) as [fu EP].
  unfold sc. rewrite fold_left_app, EP, fold_left_app.
  rewrite (lenient_damaged2 f a y z b m (add_lines lscan0 (LN fu false) (bodies pre)) fu false Hf eq_refl Mm Faz).
  cbn [add_lines l_sure l_lone l_bad l_first lscan0].
  match goal with |- context [fold_left (lstep p) (concat (map (sslots p) post)) ?X] => set (mid := X) end.
  destruct (lenient_suffix post mid (Some f) true Gpost eq_refl) as (st & ES & STP). rewrite ES.
  unfold add_lines, mid. cbn [l_sure l_lone l_bad l_first l_st]. rewrite !app_nil_r.
  rewrite !rev_app_distr, !rev_involutive.
  split; [rewrite app_assoc; reflexivity|]. split; [reflexivity|]. split; [reflexivity|]. split; [|exact STP].
  rewrite bodies_app', <- app_assoc. apply sublist_app; [apply sublist_refl|].
  change (bodies ((f, a ++ y :: z :: b) :: post)) with ((a ++ y :: z :: b) ++ bodies post).
  apply sublist_app; [|apply sublist_refl].
  rewrite <- (app_nil_r a) at 1. apply sublist_app; [apply sublist_refl|apply sublist_nil_l].
Qed.

(* the decoder of the judge on the bytes of a list of whole slots *)
Lemma lenient_concat (slots:list slot) : Forall (fun x => length x = L) slots ->
  lenient p (concat slots) = fold_left (lstep p) slots lscan0.
Proof. intros F. unfold lenient. rewrite chunks_concat by (try lia; exact F). reflexivity. Qed.
End Lenient.
