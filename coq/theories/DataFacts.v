(* Layer I refines Layer F for appends: Data::push_data appends exactly the bytes the reference
   encoder prescribes, keeps the index (file and memory) equal to the sections of the data, and
   touches no other file (C03, C06, C15, C16 for the model). *)
From Coq Require Import List NArith ZArith Lia Bool Arith ZifyBool ZifyN ZifyNat.
From Coq Require Import Strings.Byte.
Require Import BS.Bytes BS.Common BS.CommonFacts BS.Api BS.Layout BS.Format BS.FormatFacts.
Require Import BS.FS BS.FSFacts BS.Meta BS.MetaFacts BS.Header BS.Reader BS.Index BS.Data.
Require BSgen.Consts.
Import ListNotations.
Close Scope N_scope. Open Scope nat_scope.
Arguments N.add : simpl never. Arguments N.mul : simpl never. Arguments N.sub : simpl never.
Arguments N.div : simpl never. Arguments N.modulo : simpl never.
Arguments N.ltb : simpl never. Arguments N.leb : simpl never. Arguments N.eqb : simpl never.
Ltac Zify.zify_post_hook ::= Z.div_mod_to_equations.

(* the representation invariant of an open Data handle (DESIGN.md 4.4) *)
Record RepD (fs:fsys) (d:data) (p:nat) (hdr ihdr region:list byte) (full last:option N) : Prop := {
  rd_p : d_p d = p;
  rd_file : file_is fs (d_file d) hdr region;
  rd_len : d_len d = len region;
  rd_ix : file_is fs (ix_file (d_index d)) ihdr (enc_index (sections p region));
  rd_entries : ix_entries (d_index d) = sections p region;
  rd_ix_last : ix_last (d_index d) = full;
  rd_legal : legal p region full;
  rd_last : d_last d = last;
  rd_names : of_name (d_file d) <> of_name (ix_file (d_index d))
}.

Lemma enc_index_app a b : enc_index (a ++ b) = enc_index a ++ enc_index b.
Proof. unfold enc_index. rewrite map_app, concat_app. reflexivity. Qed.

Lemma max_small_ts_eq : BSgen.Consts.max_small_ts = MAXD. Proof. reflexivity. Qed.

Lemma file_is_other fs fs' o hdr region :
  file_is fs o hdr region -> fs_get fs' (of_name o) = fs_get fs (of_name o) -> file_is fs' o hdr region.
Proof. intros [G O] E. split; [rewrite E; exact G|exact O]. Qed.

Theorem push_data_ok fs d p hdr ihdr region full last ts pay :
  RepD fs d p hdr ihdr region full last -> line_ok p full (ts, pay) ->
  let tb := tail_bytes p full (ts, pay) in
  exists fs' d',
    push_data d ts pay fs = (fs', Ok d')
    /\ RepD fs' d' p hdr ihdr (region ++ fst tb) (snd tb) (Some ts)
    /\ (forall g, g <> of_name (d_file d) -> g <> of_name (ix_file (d_index d)) -> fs_get fs' g = fs_get fs g)
    /\ of_name (d_file d') = of_name (d_file d) /\ of_name (ix_file (d_index d')) = of_name (ix_file (d_index d)).
Proof.
  intros R OKL. cbn zeta. destruct R as [Rp Rf Rl Rix Re Rlast Rlegal Rdl Rn].
  pose proof OKL as (Hp & Ht & Hf). cbn [fst snd] in Hp, Ht, Hf.
  pose proof (legal_push p region full (ts, pay) Rlegal OKL) as Lg'.
  pose proof (sections_push p region full (ts, pay) Rlegal OKL) as Sec'.
  destruct Rlegal as (Al & St & Gd).
  assert (Off : N.of_nat (length region / (p + 2) * (p + 2)) = len region).
  { unfold len. f_equal. pose proof (Nat.div_mod (length region) (p + 2) ltac:(lia)). lia. }
  unfold push_data. rewrite Rp, Rlast.
  unfold tail_bytes in *. cbn [fst snd] in *.
  replace (len pay <? N.of_nat p)%N with false by (symmetry; apply N.ltb_ge; unfold len; lia).
  assert (SECTION : forall (C : match full with Some f => (ts - f <=? MAXD)%N = false | None => True end),
    exists fs' d',
      (let* (d1, small_ts) :=
         (let* ix := index_update (d_index d) ts (d_len d) in
          let written := meta_write p (le_enc 8 ts) in
          exec of_append (d_file d) written in
          ret ({| d_file := d_file d; d_p := p; d_index := ix; d_len := (d_len d + len written)%N; d_last := d_last d |}, 0%N)) in
       exec of_append (d_file d1) (le_enc 2 small_ts ++ firstn p pay) in
       ret {| d_file := d_file d1; d_p := p; d_index := d_index d1; d_len := (d_len d1 + line_size p)%N; d_last := Some ts |}) fs
      = (fs', Ok d')
      /\ RepD fs' d' p hdr ihdr (region ++ enc_section p ts ++ enc_line 0 pay) (Some ts) (Some ts)
      /\ (forall g, g <> of_name (d_file d) -> g <> of_name (ix_file (d_index d)) -> fs_get fs' g = fs_get fs g)
      /\ of_name (d_file d') = of_name (d_file d) /\ of_name (ix_file (d_index d')) = of_name (ix_file (d_index d))).
  { intros C.
    destruct (of_append_ok fs (ix_file (d_index d)) ihdr _ (enc_entry (ts, d_len d)) Rix) as (fs1 & E1 & F1 & O1).
    assert (Rf1 : file_is fs1 (d_file d) hdr region).
    { eapply file_is_other; [exact Rf|]. apply O1. exact Rn. }
    destruct (of_append_ok fs1 (d_file d) hdr region (enc_section p ts) Rf1) as (fs2 & E2 & F2 & O2).
    destruct (of_append_ok fs2 (d_file d) hdr _ (le_enc 2 0 ++ firstn p pay) F2) as (fs3 & E3 & F3 & O3).
    do 2 eexists. split.
    { erewrite mbind_ok.
      2:{ erewrite mbind_ok. 2:{ unfold index_update. erewrite mbind_ok by exact E1. reflexivity. }
          cbn zeta. rewrite meta_write_is_section. erewrite mbind_ok by exact E2. reflexivity. }
      cbn [d_file]. erewrite mbind_ok by exact E3. reflexivity. }
    rewrite firstn_all2 in F3 by lia. rewrite <- app_assoc in F3.
    assert (Sec2 : sections p (region ++ enc_section p ts ++ enc_line 0 pay) = sections p region ++ [(ts, len region)]).
    { destruct full as [f|]; [rewrite C in Sec'|]; cbn [fst] in Sec'; rewrite Sec'; cbn [secs_from fst]; rewrite ?C, Off; reflexivity. }
    split; [|split; [|split; reflexivity]].
    - constructor; cbn [d_p d_file d_len d_index d_last ix_file ix_entries ix_last].
      + reflexivity.
      + exact F3.
      + rewrite Rl, !len_app. unfold line_size, enc_line, len. rewrite !app_length, le_enc_length. lia.
      + rewrite Sec2, enc_index_app. unfold enc_index at 2. cbn [map concat fst snd]. rewrite app_nil_r.
        rewrite <- Rl. eapply file_is_other; [exact F1|].
        rewrite (O3 _ (not_eq_sym Rn)). apply O2. exact (not_eq_sym Rn).
      + rewrite Sec2, Re, Rl. reflexivity.
      + reflexivity.
      + destruct full as [f|]; [rewrite C in Lg'|]; cbn [fst snd] in Lg'; exact Lg'.
      + reflexivity.
      + exact Rn.
    - intros g N1 N2. rewrite (O3 _ N1), (O2 _ N1). apply O1. exact N2. }
  destruct full as [f|].
  - (* there is a full timestamp *)
    replace (ts <? f)%N with false by (symmetry; apply N.ltb_ge; exact Hf).
    rewrite max_small_ts_eq.
    destruct (ts - f <=? MAXD)%N eqn:C.
    + (* plain line *)
      replace (MAXD <? ts - f)%N with false by (symmetry; apply N.ltb_ge; apply N.leb_le; exact C).
      erewrite mbind_ok by reflexivity. erewrite mbind_ok by reflexivity.
      destruct (of_append_ok fs (d_file d) hdr region (le_enc 2 (ts - f) ++ firstn p pay) Rf) as (fs1 & E1 & F1 & O1).
      erewrite mbind_ok by exact E1. do 2 eexists. split; [reflexivity|]. cbn [fst snd].
      rewrite firstn_all2 in F1 by lia. cbn [secs_from fst] in Sec'. rewrite C in Sec'. rewrite app_nil_r in Sec'.
      split; [|split; [|split; reflexivity]].
      * constructor; cbn [d_p d_file d_len d_index d_last].
        -- reflexivity.
        -- exact F1.
        -- rewrite Rl, len_app. unfold line_size, enc_line, len. rewrite app_length, le_enc_length. lia.
        -- rewrite Sec'. eapply file_is_other; [exact Rix|]. apply O1. exact (not_eq_sym Rn).
        -- rewrite Sec'. exact Re.
        -- exact Rlast.
        -- cbn [fst snd] in Lg'. exact Lg'.
        -- reflexivity.
        -- exact Rn.
      * intros g N1 N2. apply O1. exact N1.
    + (* a new section *)
      replace (MAXD <? ts - f)%N with true by (symmetry; apply N.ltb_lt; apply N.leb_gt in C; unfold MAXD in *; lia).
      erewrite mbind_ok by reflexivity. cbn [fst snd]. exact (SECTION eq_refl).
  - (* first line of the series *)
    erewrite mbind_ok by reflexivity. cbn [fst snd]. exact (SECTION I).
Qed.
