(* Layer S: what the 19 properties say, as an executable abstract specification.
   A series is a strictly increasing list of (timestamp, payload); the library's observable
   behaviour (results and the bytes of every file) is a function of that list, computed with
   Layer F (Format.v) only. `spec_step` is the abstract transition system the implementation
   is judged against (extracted to OCaml: the judge) and that Layer I is proved to refine. *)
From Coq Require Import List NArith Bool Arith.
From Coq Require Import Strings.Byte.
Require Import BS.Bytes BS.Common BS.Api BS.Layout BS.Format.
Import ListNotations.
Close Scope N_scope. Open Scope nat_scope.

(* ---- series and ranges ---- *)
Definition sat_lo (b:bound) (t:N) : bool := match b with Incl s => (s <=? t)%N | Excl s => (s <? t)%N | Unb => true end.
Definition sat_hi (b:bound) (t:N) : bool := match b with Incl e => (t <=? e)%N | Excl e => (t <? e)%N | Unb => true end.
Definition select (lo hi:bound) (l:list line) : list line :=
  filter (fun x => sat_lo lo (fst x) && sat_hi hi (fst x)) l.

(* C03: the accept rule *)
Definition accepts (p:nat) (l:list line) (ts:N) (pay:list byte) : bool :=
  (length pay =? p) && (ts <? U64)%N &&
  match last_opt l with None => true | Some x => (fst x <? ts)%N end.
(* the same on the newest-first representation *)
Definition accepts_r (p:nat) (rl:list line) (ts:N) (pay:list byte) : bool :=
  (length pay =? p) && (ts <? U64)%N &&
  match rl with [] => true | x :: _ => (fst x <? ts)%N end.

(* ---- buckets and means (C08, C10) ---- *)
Fixpoint buckets_fuel (fuel B:nat) (l:list line) : list (list line) :=
  match fuel with
  | O => []
  | S f => let g := firstn B l in
           if length g <? B then [] else g :: buckets_fuel f B (skipn B l)
  end.
Definition buckets (B:nat) (l:list line) : list (list line) :=
  match B with O => [] | _ => buckets_fuel (length l) B l end.
Definition sum_N (l:list N) : N := fold_right N.add 0%N l.
Definition col_sums (p:nat) (g:list (list byte)) : list N :=
  fold_left (fun acc pay => map (fun x => (fst x + rs_dec (snd x))%N) (combine acc pay)) g (repeat 0%N p).
(* the mean of a bucket under the byte-wise integer resampler used by harness and model *)
Definition bucket_mean (p:nat) (g:list line) : line :=
  let n := N.of_nat (length g) in
  ((sum_N (map fst g) / n)%N, map (fun s => byte_of_N (s / n)) (col_sums p (map snd g))).
Definition cache_of (p B:nat) (l:list line) : list line := map (bucket_mean p) (buckets B l).
Definition resample (p b:nat) (l:list line) : list line := cache_of p b l.

Fixpoint strictly_inc (l:list line) : bool :=
  match l with
  | a :: ((b :: _) as t) => (fst a <? fst b)%N && strictly_inc t
  | _ => true
  end.
Definition lines_eqb (a b:list line) : bool :=
  (length a =? length b) &&
  forallb (fun xy => (fst (fst xy) =? fst (snd xy))%N && bytes_eqb (snd (fst xy)) (snd (snd xy))) (combine a b).

(* ---- C18: a data region with lone marker lines ---- *)
Definition line_eqb (x y:line) : bool := (fst x =? fst y)%N && bytes_eqb (snd x) (snd y).
(* a is a subsequence of b *)
Fixpoint is_subseq (a b:list line) : bool :=
  match b with
  | [] => match a with [] => true | _ => false end
  | y :: b' => match a with
               | [] => true
               | x :: a' => if line_eqb x y then is_subseq a' b' else is_subseq a b'
               end
  end.
Fixpoint is_prefix (a b:list line) : bool :=
  match a, b with
  | [], _ => true
  | x :: a', y :: b' => line_eqb x y && is_prefix a' b'
  | _, [] => false
  end.

(* the decoder that drops everything between a lone marker line (a marker line whose successor is not one)
   and the next complete section *)
Inductive lstate :=
| LN (full:option N) (skip:bool)
| L1 (full:option N) (a:slot)
| L2 (full:option N) (a b:slot) (got:list slot).
Record lscan := { l_st : lstate; l_sure : list line (* reversed *); l_lone : nat; l_bad : bool;
                  l_first : option nat   (* number of lines in l_sure when the first lone marker was met *) }.
Definition lscan0 : lscan := {| l_st := LN None false; l_sure := []; l_lone := 0; l_bad := false; l_first := None |}.
Definition lstep (p:nat) (s:lscan) (x:slot) : lscan :=
  let set st := {| l_st := st; l_sure := l_sure s; l_lone := l_lone s; l_bad := l_bad s; l_first := l_first s |} in
  match l_st s with
  | LN full skip =>
      if Layout.is_marker x then set (L1 full x)
      else if skip then s
      else match full with
           | Some f => {| l_st := LN full false; l_sure := ((f + le_dec (firstn 2 x))%N, skipn 2 x) :: l_sure s;
                          l_lone := l_lone s; l_bad := l_bad s; l_first := l_first s |}
           | None => {| l_st := LN full false; l_sure := l_sure s; l_lone := l_lone s; l_bad := true; l_first := l_first s |}
           end
  | L1 full a =>
      if Layout.is_marker x
      then (if Layout.ncont p =? 0 then set (LN (Some (Layout.read_ts p a x [])) false) else set (L2 full a x []))
      else {| l_st := LN full true; l_sure := l_sure s; l_lone := S (l_lone s); l_bad := l_bad s;
              l_first := match l_first s with None => Some (length (l_sure s)) | o => o end |}
  | L2 full a b got =>
      let got' := got ++ [x] in
      if length got' =? Layout.ncont p then set (LN (Some (Layout.read_ts p a b got')) false) else set (L2 full a b got')
  end.
Definition lenient (p:nat) (region:list byte) : lscan := fold_left (lstep p) (chunks (p + 2) region) lscan0.

(* does `out` equal resample b sel for some b >= 1 (at most 2n samples)? candidates for b follow from
   the number of samples: |sel| / b = |out| *)
Definition uniform_means (p:nat) (n:N) (sel out:list line) : bool :=
  (len out <=? 2 * n)%N &&
  match out with
  | [] => true       (* every bucket size larger than |sel| gives no sample; also sel = [] *)
  | _ => let k := length out in
         let lo := length sel / (S k) in
         let hi := length sel / k in
         existsb (fun b => (1 <=? b) && lines_eqb (resample p b sel) out) (seq lo (S (hi - lo)))
  end.

(* ---- abstract state ---- *)
Record shandle := {
  sh_name : list byte; sh_p : nat; sh_hdr : list byte; sh_caches : list N; sh_cb : cbmode;
  sh_rlines : list line;       (* the accepted lines, newest first (appends are the common operation) *)
  sh_rregion : list byte;      (* the data region (file content after the header), last byte first *)
  sh_full : option N;          (* last full timestamp in the region *)
  sh_dmg : option (list line)  (* C18: Some sure = the data file has a lone marker line; sh_rlines are then the
                                  lines that were appended before the damage was done, `sure` those of them a
                                  reader that skips from a lone marker to the next intact section still sees *)
}.
Definition sh_lines (h:shandle) : list line := frev (sh_rlines h).
Definition sh_region (h:shandle) : list byte := frev (sh_rregion h).
Definition sfs := list (list byte * list byte).     (* expected content of every file *)
Record sstate := { ss_fs : sfs; ss_h : option shandle;
                   ss_orig : sfs;     (* C18: content of a file before single lines of it were overwritten (fs_patch) *)
                   ss_det : bool }.   (* false: the properties no longer determine the state (damage other than a torn tail) *)

Fixpoint sfs_get (fs:sfs) (f:list byte) : option (list byte) :=
  match fs with [] => None | (g, c) :: t => if bytes_eqb g f then Some c else sfs_get t f end.
Fixpoint sfs_del (fs:sfs) (f:list byte) : sfs :=
  match fs with [] => [] | (g, c) :: t => if bytes_eqb g f then sfs_del t f else (g, c) :: sfs_del t f end.
Fixpoint sfs_put (fs:sfs) (f:list byte) (c:list byte) : sfs :=
  match fs with [] => [(f, c)] | (g, d) :: t => if bytes_eqb g f then (g, c) :: t else (g, d) :: sfs_put t f c end.
Definition sfs_mem (fs:sfs) (f:list byte) : bool := match sfs_get fs f with Some _ => true | None => false end.

Definition sfs_same (a b:sfs) : bool :=
  (length a =? length b) &&
  forallb (fun kv => match sfs_get a (fst kv) with Some c => bytes_eqb c (snd kv) | None => false end) b.
