(* C05 on the side of the specification: Layer F's recovery (Format.recover - what the judge uses to say which lines a torn
   data file still holds) applied to the reference encoding of any well-formed list cut at ANY byte length returns exactly
   the lines that were completely written before the cut, and the length of their encoding as the good prefix: the maximal k
   with |encode (firstn k l)| <= c - the same k the theorems about the model's open after a crash (TornGenFacts) speak of. *)
From Coq Require Import List NArith ZArith Lia Bool Arith ZifyBool ZifyN ZifyNat Sorted.
From Coq Require Import Strings.Byte.
Require Import BS.Bytes BS.Common BS.CommonFacts BS.Api BS.Layout BS.Format BS.FormatFacts BS.Sections BS.ExtractFacts BS.TornFacts BS.TornGenFacts.
Import ListNotations.
Close Scope N_scope. Open Scope nat_scope.

Section Recover.
Variable p : nat.
Notation L := (p + 2).

(* a state reached without finishing a line and without going bad *)
Definition quiet (s s':fscan) : Prop := f_lines s' = f_lines s /\ f_good s' = f_good s /\ f_st s' <> FBad.

Lemma quiet_refl s : f_st s <> FBad -> quiet s s.
Proof. intros H. repeat split. exact H. Qed.

Lemma fold_sec_quiet : forall (xs got:list slot) full a b i ls secs g ss,
  length got + length xs <= Layout.ncont p ->
  let s' := fold_left (fstep p) xs (mk (FSec full a b got) i ls secs g ss) in
  f_lines s' = ls /\ f_good s' = g /\ f_st s' <> FBad.
Proof.
  induction xs as [|x xs IH]; intros got full a b i ls secs g ss Hl; cbn [fold_left].
  - cbn [f_lines f_good f_st mk]. repeat split. discriminate.
  - rewrite fstep_FSec. destruct (length (got ++ [x]) =? Layout.ncont p) eqn:E.
    + apply Nat.eqb_eq in E. rewrite app_length in E. cbn [length] in *. destruct xs as [|y ys]; [|cbn [length] in Hl; lia].
      cbn [fold_left f_lines f_good f_st mk]. repeat split. discriminate.
    + apply IH. rewrite app_length. cbn [length] in *. lia.
Qed.

(* the first j slots of a section header (0 <= j <= K) from a clean state: no line finished, not bad *)
Lemma fold_partial_section st i ls secs g ss t j : clean st -> j <= Layout.K p ->
  let s' := fold_left (fstep p) (firstn j (Layout.sec_slots p t)) (mk st i ls secs g ss) in
  f_lines s' = ls /\ f_good s' = g /\ f_st s' <> FBad.
Proof.
  intros Hc Hj. destruct (Layout.sec_slots_shape p t) as (Ma & Mb & Lg).
  unfold Layout.sec_slots. set (a := Layout.sec_a p t) in *. set (b := Layout.sec_b p t) in *.
  set (got := Layout.sec_got p t) in *. clearbody a b got.
  destruct j as [|[|j']].
  - cbn [firstn fold_left f_lines f_good f_st mk]. repeat split. destruct st; try contradiction; discriminate.
  - cbn [firstn fold_left]. destruct (fstep_clean p st i ls secs g ss a Hc Ma) as [full S1]. rewrite S1.
    cbn [f_lines f_good f_st mk]. repeat split. discriminate.
  - cbn [firstn fold_left]. destruct (fstep_clean p st i ls secs g ss a Hc Ma) as [full S1]. rewrite S1.
    rewrite fstep_FOne by exact Mb.
    destruct (Layout.ncont p =? 0) eqn:C0.
    + apply Nat.eqb_eq in C0. rewrite C0 in Lg. destruct got; [|discriminate]. rewrite firstn_nil. cbn [fold_left f_lines f_good f_st mk].
      repeat split. discriminate.
    + apply fold_sec_quiet. cbn [length]. rewrite firstn_length. unfold Layout.K in Hj. lia.
Qed.

Lemma chunks_drop_rest (a r:list byte) : length a mod L = 0 -> length r < L -> chunks L (a ++ r) = chunks L a.
Proof. intros Ha Hr. rewrite chunks_app_aligned by (try lia; exact Ha). rewrite (chunks_short L r Hr), app_nil_r. reflexivity. Qed.

Lemma scan_cut (x:list byte) c : scan p (firstn c x) = scan p (firstn (c / L * L) x).
Proof.
  unfold scan. f_equal.
  assert (E : firstn c x = firstn (c / L * L) x ++ firstn (c mod L) (skipn (c / L * L) x)).
  { rewrite <- Layout.firstn_add. f_equal. pose proof (Nat.div_mod c L ltac:(lia)). lia. }
  rewrite E. destruct (Nat.le_gt_cases (c / L * L) (length x)) as [Le|Gt].
  - apply chunks_drop_rest.
    + rewrite firstn_length, Nat.min_l by exact Le. apply Nat.mod_mul. lia.
    + rewrite firstn_length. pose proof (Nat.mod_upper_bound c L ltac:(lia)). lia.
  - rewrite skipn_all2 by lia. rewrite firstn_nil, app_nil_r. reflexivity.
Qed.

Theorem recover_cut (l:list line) c : wf_series p l -> c <= length (encode p l) ->
  exists k, k <= length l /\ length (encode p (firstn k l)) <= c /\ (k < length l -> c < length (encode p (firstn (S k) l)))
    /\ recover p (firstn c (encode p l)) = Some (firstn k l, N.of_nat (length (encode p (firstn k l)))).
Proof.
  intros W Hc.
  destruct (cut_position_gen p l W c Hc) as (k & X & Hk & EX & FE & MX).
  exists k. split; [exact Hk|].
  assert (Wk : wf_series p (firstn k l)).
  { destruct W as [S F]. split.
    - rewrite <- (firstn_skipn k l) in S. rewrite map_app in S. apply sorted_app_inv in S. apply S.
    - rewrite <- (firstn_skipn k l) in F. apply Forall_app in F. apply F. }
  assert (LEc : length (encode p (firstn k l)) <= c).
  { apply (f_equal (@length byte)) in FE. rewrite firstn_length, app_length in FE.
    pose proof (Nat.div_mod c L ltac:(lia)). pose proof (Nat.mod_upper_bound c L ltac:(lia)). lia. }
  split; [exact LEc|]. split; [exact MX|].
  unfold recover. rewrite scan_cut, FE.
  pose proof (encode_length p (firstn k l) (wf_payloads p _ Wk)) as EL.
  rewrite scan_app_aligned by (rewrite EL; apply Nat.mod_mul; lia).
  rewrite (scan_encode p (firstn k l) Wk).
  set (s0 := mk (st_of (full_after p None (firstn k l))) (slots_from p None (firstn k l)) (rev (firstn k l))
                (rev (secs_from p None 0 (firstn k l)))
                (match firstn k l with [] => 0 | _ => slots_from p None (firstn k l) end)
                (match rev (secs_from p None 0 (firstn k l)) with [] => 0 | s :: _ => N.to_nat (snd s) / L end)).
  assert (CL : clean (st_of (full_after p None (firstn k l)))) by (destruct (full_after p None (firstn k l)); exact I).
  assert (Q : let s' := fold_left (fstep p) (chunks L X) s0 in f_lines s' = rev (firstn k l) /\ f_good s' = f_good s0 /\ f_st s' <> FBad).
  { destruct EX as [->|(f & j & J1 & J2 & ->)].
    - rewrite chunks_nil. cbn [fold_left]. unfold s0. cbn [f_lines f_good f_st mk]. repeat split. destruct (full_after p None (firstn k l)); discriminate.
    - assert (FL : Forall (fun sl : list byte => length sl = L) (firstn j (Layout.sec_slots p f))).
      { pose proof (sec_slots_lengths p f) as F. rewrite <- (firstn_skipn j (Layout.sec_slots p f)) in F. apply Forall_app in F. apply F. }
      rewrite chunks_concat by (try lia; exact FL).
      unfold s0. apply fold_partial_section; [exact CL|exact J2]. }
  cbv zeta in Q. destruct Q as (QL & QG & QB).
  destruct (f_st (fold_left (fstep p) (chunks L X) s0)) eqn:ST; try contradiction;
    rewrite QL, QG, frev_rev, rev_involutive; unfold s0; cbn [f_good mk];
    (f_equal; f_equal; rewrite EL; destruct (firstn k l); [reflexivity|reflexivity]).
Qed.
End Recover.
