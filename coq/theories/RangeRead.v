(* C02 assembly, part 2: the byte range computed by refine holds exactly the lines between the
   bounds, and reading it returns them. *)
From Coq Require Import List NArith ZArith Lia Bool Arith ZifyBool ZifyN ZifyNat Sorted.
From Coq Require Import Strings.Byte.
Require Import BS.Bytes BS.Common BS.CommonFacts BS.Api BS.Layout BS.Format BS.FormatFacts BS.Sections.
Require Import BS.FS BS.FSFacts BS.Meta BS.MetaFacts BS.Header BS.Reader BS.ReaderFacts BS.Index BS.Data BS.DataFacts BS.Seek BS.SeekFacts BS.RangeFacts.
Import ListNotations.
Close Scope N_scope. Open Scope nat_scope.
Arguments N.add : simpl never. Arguments N.mul : simpl never. Arguments N.sub : simpl never.
Arguments N.ltb : simpl never. Arguments N.leb : simpl never. Arguments N.eqb : simpl never.

Section Lines.
Variable p : nat.
Notation L := (p + 2).

Lemma good_all_ok ss : good_secs p ss -> Forall (sec_ok p) ss.
Proof. induction ss as [|s t IH]; intros G; [constructor|]. cbn [good_secs] in G. destruct G as (A & _ & B). constructor; auto. Qed.

Lemma bodies_before_lt pre f ls post : good_secs p (pre ++ (f, ls) :: post) -> Forall (fun y => (fst y < f)%N) (bodies pre).
Proof.
  intros G. pose proof (good_before p pre (f, ls) post G) as GB. cbn [fst] in GB.
  apply good_app_inv in G. destruct G as [Gp _]. pose proof (good_all_ok pre Gp) as OKs.
  unfold bodies. induction pre as [|[f0 l0] pre IH]; [constructor|].
  inversion GB as [|? ? H0 GB']; subst. inversion OKs as [|? ? O0 OKs']; subst. cbn [map concat snd fst] in *.
  apply Forall_app. split.
  - destruct O0 as (_ & F & _). eapply Forall_impl; [|exact F]. intros y (_ & H & _). cbn beta. unfold MAXD in *. lia.
  - apply IH; try assumption. cbn [good_secs] in Gp. apply Gp.
Qed.

Lemma bodies_after_head post f2 l2 post' : post = (f2, l2) :: post' -> sec_ok p (f2, l2) ->
  exists pay rest, bodies post = (f2, pay) :: rest.
Proof. intros -> ((pay & r & ->) & _). unfold bodies. cbn [map concat snd app]. eauto. Qed.

(* how many lines of the whole series lie below s / up to e, in terms of the located section *)
Lemma count_lt_located pre f ls post s : good_secs p (pre ++ (f, ls) :: post) -> (f <= s)%N ->
  (match post with (f2, _) :: _ => (s < f2)%N | [] => True end) ->
  count_lt s (bodies (pre ++ (f, ls) :: post)) = length (bodies pre) + count_lt s ls.
Proof.
  intros G Hf Hn. pose proof (bodies_before_lt pre f ls post G) as BL.
  rewrite bodies_app. unfold bodies at 2. cbn [map concat snd]. fold (bodies post).
  rewrite count_lt_app by (eapply Forall_impl; [|exact BL]; intros y Hy; cbn beta in *; lia).
  f_equal. destruct (Nat.lt_ge_cases (count_lt s ls) (length ls)) as [H|H].
  - apply count_lt_stop. exact H.
  - pose proof (count_lt_le s ls). assert (E : count_lt s ls = length ls) by lia.
    assert (ALL : Forall (fun y => (fst y < s)%N) ls).
    { clear -E. induction ls as [|y t IH]; [constructor|]. cbn [count_lt length] in E.
      destruct (fst y <? s)%N eqn:C; [|discriminate]. apply N.ltb_lt in C. constructor; [exact C|apply IH; lia]. }
    rewrite count_lt_app by exact ALL. rewrite E.
    destruct post as [|[f2 l2] post']; [unfold bodies; cbn; lia|].
    apply good_app_inv in G. destruct G as [_ G]. cbn [good_secs] in G. destruct G as (_ & _ & (O2 & _)).
    destruct (bodies_after_head _ f2 l2 post' eq_refl O2) as (pay & rest & EB). rewrite EB.
    rewrite (count_lt_zero s ((f2, pay) :: rest)) by (cbn [fst]; lia). lia.
Qed.
Lemma count_le_located pre f ls post e : good_secs p (pre ++ (f, ls) :: post) -> (f <= e)%N ->
  (match post with (f2, _) :: _ => (e < f2)%N | [] => True end) ->
  count_le e (bodies (pre ++ (f, ls) :: post)) = length (bodies pre) + count_le e ls.
Proof.
  intros G Hf Hn. pose proof (bodies_before_lt pre f ls post G) as BL.
  rewrite bodies_app. unfold bodies at 2. cbn [map concat snd]. fold (bodies post).
  rewrite count_le_app by (eapply Forall_impl; [|exact BL]; intros y Hy; cbn beta in *; lia).
  f_equal. destruct (Nat.lt_ge_cases (count_le e ls) (length ls)) as [H|H].
  - apply count_le_stop. exact H.
  - pose proof (count_le_le e ls). assert (E : count_le e ls = length ls) by lia.
    assert (ALL : Forall (fun y => (fst y <= e)%N) ls).
    { clear -E. induction ls as [|y t IH]; [constructor|]. cbn [count_le length] in E.
      destruct (fst y <=? e)%N eqn:C; [|discriminate]. apply N.leb_le in C. constructor; [exact C|apply IH; lia]. }
    rewrite count_le_app by exact ALL. rewrite E.
    destruct post as [|[f2 l2] post']; [unfold bodies; cbn; lia|].
    apply good_app_inv in G. destruct G as [_ G]. cbn [good_secs] in G. destruct G as (_ & _ & (O2 & _)).
    destruct (bodies_after_head _ f2 l2 post' eq_refl O2) as (pay & rest & EB). rewrite EB.
    rewrite (count_le_zero e ((f2, pay) :: rest)) by (cbn [fst]; lia). lia.
Qed.

(* firstn over the sectioned list *)
Lemma firstn_located pre f ls post c : c <= length ls ->
  firstn (length (bodies pre) + c) (bodies (pre ++ (f, ls) :: post)) = bodies pre ++ firstn c ls.
Proof.
  intros Hc. rewrite bodies_app. unfold bodies at 3. cbn [map concat snd]. fold (bodies post).
  rewrite firstn_app. replace (length (bodies pre) + c - length (bodies pre)) with c by lia.
  rewrite firstn_all2 by lia. f_equal. rewrite firstn_app. replace (c - length ls) with 0 by lia. cbn [firstn]. apply app_nil_r.
Qed.
Lemma skipn_located pre f ls post c : c <= length ls ->
  skipn (length (bodies pre) + c) (bodies (pre ++ (f, ls) :: post)) = skipn c ls ++ bodies post.
Proof.
  intros Hc. rewrite bodies_app. unfold bodies at 3. cbn [map concat snd]. fold (bodies post).
  rewrite skipn_app, skipn_all2 by lia. replace (length (bodies pre) + c - length (bodies pre)) with c by lia.
  cbn [app]. rewrite skipn_app. replace (c - length ls) with 0 by lia. reflexivity.
Qed.
End Lines.

(* ---- slices of an encoding between two line counts ---- *)
Section Slices.
Variable p : nat.
Notation L := (p + 2).

Lemma encode_split (l:list line) k :
  encode p l = encode p (firstn k l) ++ encode_from p (full_after p None (firstn k l)) (skipn k l).
Proof. unfold encode. rewrite <- encode_from_app, firstn_skipn. reflexivity. Qed.

Lemma firstn_firstn_skipn {A} (l:list A) a b : a <= b -> firstn b l = firstn a l ++ firstn (b - a) (skipn a l).
Proof. intros H. replace b with (a + (b - a)) at 1 by lia. apply firstn_plus. Qed.

(* the bytes between the encodings of the first a and the first b lines *)
Lemma mid_bytes (l:list line) a b : a <= b ->
  encode p (firstn b l)
  = encode p (firstn a l) ++ encode_from p (full_after p None (firstn a l)) (firstn (b - a) (skipn a l)).
Proof. intros H. unfold encode. rewrite (firstn_firstn_skipn l a b H), encode_from_app. reflexivity. Qed.

Lemma slice_mid (region x y z:list byte) : region = x ++ y ++ z ->
  firstn (length (x ++ y) - length x) (skipn (length x) region) = y.
Proof.
  intros ->. rewrite skipn_app, Nat.sub_diag, skipn_all. cbn [skipn app].
  rewrite app_length. replace (length x + length y - length x) with (length y) by lia.
  rewrite firstn_app, Nat.sub_diag, firstn_all. cbn [firstn]. apply app_nil_r.
Qed.

(* reading from the start of the first selected line (no header skipped) *)
Lemma slice_noskip (l:list line) a b pf : a <= b -> full_after p None (firstn a l) = Some pf ->
  firstn (length (encode p (firstn b l)) - length (encode p (firstn a l))) (skipn (length (encode p (firstn a l))) (encode p l))
  = encode_from p (Some pf) (firstn (b - a) (skipn a l)).
Proof.
  intros H FA.
  set (X := encode p (firstn a l)). set (Y := encode_from p (Some pf) (firstn (b - a) (skipn a l))).
  set (Z := encode_from p (full_after p None (firstn b l)) (skipn b l)).
  assert (EB : encode p (firstn b l) = X ++ Y) by (unfold X, Y; rewrite <- FA; apply mid_bytes; exact H).
  assert (ER : encode p l = X ++ Y ++ Z) by (rewrite (encode_split l b), EB, <- app_assoc; reflexivity).
  rewrite EB. apply (slice_mid _ X Y Z). exact ER.
Qed.

Lemma full_after_app : forall (l1 l2:list line) full, full_after p full (l1 ++ l2) = full_after p (full_after p full l1) l2.
Proof. induction l1 as [|y l1 IH]; intros l2 full; cbn [app full_after]; [reflexivity|apply IH]. Qed.

(* reading from behind the section header that the first selected line opens *)
Lemma slice_skip (l:list line) a b x t : a <= b -> firstn (b - a) (skipn a l) = x :: t ->
  tail_bytes p (full_after p None (firstn a l)) x = (enc_section p (fst x) ++ enc_line 0 (snd x), Some (fst x)) ->
  firstn (length (encode p (firstn b l)) - (length (encode p (firstn a l)) + Layout.K p * L))
         (skipn (length (encode p (firstn a l)) + Layout.K p * L) (encode p l))
  = encode_from p (Some (fst x)) (x :: t).
Proof.
  intros H EM OPEN.
  set (X := encode p (firstn a l)). set (S := enc_section p (fst x)).
  set (Y := encode_from p (Some (fst x)) (x :: t)).
  set (Z := encode_from p (full_after p None (firstn b l)) (skipn b l)).
  assert (LS : length S = Layout.K p * L) by apply enc_section_length.
  assert (EY : Y = enc_line 0 (snd x) ++ encode_from p (Some (fst x)) t).
  { unfold Y. cbn [encode_from tail_bytes]. rewrite N.sub_diag. reflexivity. }
  assert (EB : encode p (firstn b l) = (X ++ S) ++ Y).
  { rewrite (mid_bytes l a b H), EM. cbn [encode_from]. rewrite OPEN. rewrite EY. unfold X, S. rewrite <- !app_assoc. reflexivity. }
  assert (ER : encode p l = (X ++ S) ++ Y ++ Z) by (rewrite (encode_split l b), EB, <- !app_assoc; reflexivity).
  rewrite EB. replace (length X + Layout.K p * L) with (length (X ++ S)) by (rewrite app_length; lia).
  apply (slice_mid _ (X ++ S) Y Z). exact ER.
Qed.
End Slices.

(* ---- sorted lists: lines from the count on are not below the bound ---- *)
Lemma skipn_count_lt_ge s : forall (l:list line), StronglySorted N.lt (map fst l) ->
  Forall (fun y => (s <= fst y)%N) (skipn (count_lt s l) l).
Proof.
  induction l as [|y t IH]; intros S; [constructor|]. cbn [map] in S. inversion S as [|? ? St Hall]; subst.
  cbn [count_lt]. destruct (fst y <? s)%N eqn:C; cbn [skipn]; [apply IH; exact St|].
  apply N.ltb_ge in C. constructor; [exact C|]. rewrite Forall_map in Hall.
  eapply Forall_impl; [|exact Hall]. intros z Hz. cbn beta in Hz. lia.
Qed.
Lemma count_lt_le_count_le s e (l:list line) : (s <= e)%N -> count_lt s l <= count_le e l.
Proof.
  intros H. induction l as [|y t IH]; [reflexivity|]. cbn [count_lt count_le].
  destruct (fst y <? s)%N eqn:C; [|lia]. apply N.ltb_lt in C.
  replace (fst y <=? e)%N with true by (symmetry; apply N.leb_le; lia). lia.
Qed.
Lemma wf_series_sub p (l:list line) a n : wf_series p l -> wf_series p (firstn n (skipn a l)).
Proof.
  intros [S F]. split.
  - rewrite <- firstn_map, <- skipn_map. clear F.
    assert (SK : forall k (l0:list N), StronglySorted N.lt l0 -> StronglySorted N.lt (skipn k l0)).
    { induction k as [|k IH]; intros l0 S0; [exact S0|]. destruct l0; [constructor|]. inversion S0; subst. apply IH. assumption. }
    assert (FI : forall k (l0:list N), StronglySorted N.lt l0 -> StronglySorted N.lt (firstn k l0)).
    { induction k as [|k IH]; intros l0 S0; [constructor|]. destruct l0; [constructor|]. inversion S0; subst.
      cbn [firstn]. constructor; [apply IH; assumption|]. apply Forall_firstn. assumption. }
    apply FI, SK, S.
  - apply Forall_firstn, Forall_skipn, F.
Qed.

(* ---- the main theorem: seek + read of [s, e] returns exactly the lines in [s, e] ---- *)
Section Main.
Variables (fs:fsys) (d:data) (p:nat) (hdr ihdr:list byte) (l:list line) (f' lastts:N) (cb0:cbmode).
Notation L := (p + 2).
Hypothesis RD : RepD fs d p hdr ihdr (encode p l) (Some f') (Some lastts).
Hypothesis W : wf_series p l.
Let ss := secs_of l.
Variables (pre_s:list sect) (f_s:N) (ls_s:list line) (post_s:list sect) (s:N).
Variables (pre_e:list sect) (f_e:N) (ls_e:list line) (post_e:list sect) (e:N).
Hypothesis Ls : located ss pre_s f_s ls_s post_s s.
Hypothesis Le : located ss pre_e f_e ls_e post_e e.
Hypothesis Hse : (s <= e)%N.
Hypothesis Hs_reach : post_s = [] -> (s - f_s <= MAXD)%N.
Hypothesis He_reach : post_e = [] -> (e - f_e <= MAXD)%N.

Let a := count_lt s l.
Let b := count_le e l.
Let mid := firstn (b - a) (skipn a l).

Lemma main_facts : good_secs p ss /\ bodies ss = l /\ encode p l = concat (map (sec_bytes p) ss)
  /\ Forall (fun sc => (fst sc < 2^64)%N) ss.
Proof.
  pose proof (secs_good p l W) as G. fold ss in G.
  split; [exact G|]. split; [apply secs_concat|]. split; [apply encode_sections|].
  pose proof (good_all_ok p ss G) as OKs. eapply Forall_impl; [|exact OKs].
  intros [f ls] ((pay & r & ->) & F & _). inversion F as [|? ? (_ & _ & _ & H) _]; subst. exact H.
Qed.

Theorem range_read_core (r:rough) :
  refine r d fs = (fs, Ok (if end_pos p pre_e ls_e e <=? start_pos p pre_s f_s ls_s post_s s then None
                           else Some {| p_start := N.of_nat (start_pos p pre_s f_s ls_s post_s s);
                                        p_end := N.of_nat (end_pos p pre_e ls_e e);
                                        p_full := start_full_of f_s post_s s |})) ->
  exists ps,
    refine r d fs = (fs, Ok ps)
    /\ match ps with
       | None => mid = []
       | Some q => (exists sp ep, p_start q = N.of_nat sp /\ p_end q = N.of_nat ep /\ sp < ep
                                   /\ ep - sp = slots_from p (Some (p_full q)) mid * L /\ ok_from p (Some (p_full q)) mid)
                   /\ forall (St:Type) (proc:St -> N -> list byte -> pres St) (acc:St),
                        read_with_processor St proc p cb0 (encode p l) (p_start q) (p_end q) (p_full q) acc
                        = match feed St proc acc mid with PCont a0 => RDone a0 | PStop a0 => RStopped a0 | PPanic => RPanic end
       end.
Proof.
  intros RS. destruct main_facts as (G & EB & ER & HB).
  destruct RD as [Rp Rf Rl Rix Re Rlast Rlegal Rdl Rn].
  rewrite ER in Rf, Rl.
  set (sp := start_pos p pre_s f_s ls_s post_s s) in *. set (ep := end_pos p pre_e ls_e e) in *.
  destruct Ls as (Es & Hfs & Hns). destruct Le as (Ee & Hfe & Hne).
  assert (Gs : good_secs p (pre_s ++ (f_s, ls_s) :: post_s)) by (rewrite <- Es; exact G).
  assert (Ge : good_secs p (pre_e ++ (f_e, ls_e) :: post_e)) by (rewrite <- Ee; exact G).
  destruct (sec_facts d p pre_s f_s ls_s post_s Rp Gs) as ((pay_s & r_s & Els_s) & F_s & S_s & _ & _).
  destruct (sec_facts d p pre_e f_e ls_e post_e Rp Ge) as ((pay_e & r_e & Els_e) & F_e & S_e & _ & _).
  (* the two counts *)
  assert (Ea : a = length (bodies pre_s) + count_lt s ls_s).
  { unfold a. rewrite <- EB, Es. apply (count_lt_located p); assumption. }
  assert (Eb : b = length (bodies pre_e) + count_le e ls_e).
  { unfold b. rewrite <- EB, Ee. apply (count_le_located p); assumption. }
  set (c_s := count_lt s ls_s) in *. set (c_e := count_le e ls_e) in *.
  pose proof (count_lt_le s ls_s) as Cs. pose proof (count_le_le e ls_e) as Ce. fold c_s in Cs. fold c_e in Ce.
  assert (Ce1 : 1 <= c_e).
  { unfold c_e. rewrite Els_e. cbn [count_le fst]. replace (f_e <=? e)%N with true by (symmetry; apply N.leb_le; exact Hfe). lia. }
  assert (Fa : firstn a l = bodies pre_s ++ firstn c_s ls_s).
  { rewrite Ea, <- EB, Es. apply firstn_located. exact Cs. }
  assert (Fb : firstn b l = bodies pre_e ++ firstn c_e ls_e).
  { rewrite Eb, <- EB, Ee. apply firstn_located. exact Ce. }
  destruct (prefix_encode p pre_s f_s ls_s post_s c_s Gs Cs) as [PEs FAs].
  destruct (prefix_encode p pre_e f_e ls_e post_e c_e Ge Ce) as [PEe _].
  rewrite <- Fa in PEs, FAs. rewrite <- Fb in PEe.
  replace (c_e =? 0) with false in PEe by (symmetry; apply Nat.eqb_neq; lia).
  assert (POs : pay_ok p (pre_s ++ (f_s, ls_s) :: post_s)) by (apply good_pay_ok; exact Gs).
  assert (POe : pay_ok p (pre_e ++ (f_e, ls_e) :: post_e)) by (apply good_pay_ok; exact Ge).
  assert (LenB : length (encode p (firstn b l)) = ep).
  { rewrite PEe, app_length. apply Forall_app in POe. destruct POe as [POpre POe2]. pose proof (Forall_inv POe2) as POls. cbn [snd] in POls.
    rewrite (region_length p pre_e POpre). rewrite sec_bytes_length by (cbn [snd]; apply Forall_firstn; exact POls).
    cbn [snd]. rewrite firstn_length, Nat.min_l by exact Ce. unfold ep, end_pos. fold c_e. lia. }
  assert (LenA : length (encode p (firstn a l)) = (slots_of p pre_s + (if c_s =? 0 then 0 else Layout.K p + c_s)) * L).
  { rewrite PEs, app_length. apply Forall_app in POs. destruct POs as [POpre POs2]. pose proof (Forall_inv POs2) as POls. cbn [snd] in POls.
    rewrite (region_length p pre_s POpre). destruct (c_s =? 0) eqn:Z; [cbn [length]; lia|].
    rewrite sec_bytes_length by (cbn [snd]; apply Forall_firstn; exact POls).
    cbn [snd]. rewrite firstn_length, Nat.min_l by exact Cs. lia. }
  assert (Hab : a <= b) by (apply count_lt_le_count_le; exact Hse).
  assert (Wmid : wf_series p mid) by (apply wf_series_sub; exact W).
  assert (GEmid : Forall (fun y => (s <= fst y)%N) mid).
  { unfold mid. apply Forall_firstn. apply skipn_count_lt_ge. exact (proj1 W). }
  (* empty selection: the end lies before the start *)
  destruct mid as [|x t] eqn:EM.
  { exists None. split; [|reflexivity]. rewrite RS.
    assert (Hba : b <= a).
    { destruct (Nat.le_gt_cases b a) as [H|H]; [exact H|exfalso].
      assert (a < length l \/ length l <= a) as [H2|H2] by lia.
      - unfold mid in EM. apply (f_equal (@length (N * list byte))) in EM. rewrite firstn_length, skipn_length in EM. cbn [length] in EM. lia.
      - pose proof (count_le_le e l) as CL. fold b in CL. lia. }
    assert (Eab : a = b) by lia.
    assert (EPSP : ep <= sp); [|replace (ep <=? sp) with true by (symmetry; apply Nat.leb_le; exact EPSP); reflexivity].
    rewrite <- LenB. rewrite <- Eab. rewrite LenA. unfold sp, start_pos. fold c_s.
    destruct (f_s =? s)%N eqn:EQ.
    - apply N.eqb_eq in EQ. assert (C0 : c_s = 0). { unfold c_s. rewrite Els_s. apply count_lt_zero. cbn [fst]. lia. }
      rewrite C0. cbn [Nat.eqb]. apply Nat.mul_le_mono_r; lia.
    - apply N.eqb_neq in EQ. assert (C1 : c_s >= 1).
      { unfold c_s. rewrite Els_s. cbn [count_lt fst]. replace (f_s <? s)%N with true by (symmetry; apply N.ltb_lt; lia). lia. }
      replace (c_s =? 0) with false by (symmetry; apply Nat.eqb_neq; lia).
      destruct post_s as [|[f2 l2] post']; [apply Nat.mul_le_mono_r; lia|]. destruct (f_s + MAXD <? s)%N; apply Nat.mul_le_mono_r; lia. }
  (* non-empty selection *)
  assert (Hlt : a < b).
  { destruct (Nat.eq_dec a b) as [E|E]; [|lia]. unfold mid in EM. rewrite E, Nat.sub_diag in EM. discriminate. }
  assert (Hx : (s <= fst x)%N) by (inversion GEmid; assumption).
  (* the bytes of the range *)
  assert (HW : exists pf, start_full_of f_s post_s s = pf
                          /\ firstn (ep - sp) (skipn sp (encode p l)) = encode_from p (Some pf) (x :: t)
                          /\ (pf <= fst x)%N).
  { unfold sp, start_pos, start_full_of. fold c_s.
    destruct (f_s =? s)%N eqn:EQ.
    - (* the bound is a full timestamp: read from behind its header *)
      apply N.eqb_eq in EQ. assert (C0 : c_s = 0). { unfold c_s. rewrite Els_s. apply count_lt_zero. cbn [fst]. lia. }
      rewrite C0 in *. cbn [Nat.eqb] in *. rewrite app_nil_r in PEs.
      assert (X0 : x = (f_s, pay_s)).
      { unfold mid in EM. assert (SK : skipn a l = ls_s ++ bodies post_s).
        { rewrite <- EB, Es, Ea. rewrite (skipn_located pre_s f_s ls_s post_s 0) by lia. reflexivity. }
        rewrite SK, Els_s in EM. destruct (b - a) eqn:BA; [lia|]. cbn [firstn app] in EM. inversion EM. reflexivity. }
      exists s. split; [reflexivity|]. split; [|lia].
      pose proof (slice_skip p l a b x t Hab EM) as SS.
      rewrite LenB, LenA in SS. cbn [Nat.eqb] in SS. rewrite X0 in SS |- *. cbn [fst snd] in SS |- *. rewrite <- EQ.
      replace ((slots_of p pre_s + Layout.K p) * L) with ((slots_of p pre_s + 0) * L + Layout.K p * L) by lia.
      apply SS. rewrite FAs. unfold tail_bytes. cbn [fst snd].
      destruct pre_s as [|s0 pre'] eqn:EP; [reflexivity|].
      pose proof (good_before p _ _ _ Gs) as GBf. rewrite Forall_forall in GBf.
      assert (IN : In (last (s0 :: pre') (0%N, [])) (s0 :: pre')) by (apply (@exists_last _ (s0 :: pre')) in I as _ || idtac; clear; generalize s0; induction pre' as [|z u IHu]; intros s1; [left; reflexivity|]; right; rewrite Layout.last_cons; destruct u; [left; reflexivity|]; rewrite <- Layout.last_cons with (d := (0%N, [])); apply IHu).
      specialize (GBf _ IN). cbn [fst] in GBf.
      replace (f_s - fst (last (s0 :: pre') (0%N, [])) <=? MAXD)%N with false by (symmetry; apply N.leb_gt; lia). reflexivity.
    - apply N.eqb_neq in EQ. assert (C1 : c_s >= 1).
      { unfold c_s. rewrite Els_s. cbn [count_lt fst]. replace (f_s <? s)%N with true by (symmetry; apply N.ltb_lt; lia). lia. }
      replace (c_s =? 0) with false in * by (symmetry; apply Nat.eqb_neq; lia).
      assert (NOSKIP : firstn (ep - (slots_of p pre_s + Layout.K p + c_s) * L) (skipn ((slots_of p pre_s + Layout.K p + c_s) * L) (encode p l))
                       = encode_from p (Some f_s) (x :: t)).
      { pose proof (slice_noskip p l a b f_s Hab FAs) as SN. rewrite LenB, LenA in SN.
        replace ((slots_of p pre_s + (Layout.K p + c_s)) * L) with ((slots_of p pre_s + Layout.K p + c_s) * L) in SN by lia.
        fold mid in SN. rewrite EM in SN. exact SN. }
      destruct post_s as [|[f2 l2] post'] eqn:EP.
      + exists f_s. split; [reflexivity|]. split; [exact NOSKIP|lia].
      + destruct (f_s + MAXD <? s)%N eqn:GP.
        * (* the bound lies in the gap after this section: read from behind the next header *)
          apply N.ltb_lt in GP.
          assert (CA : c_s = length ls_s).
          { unfold c_s. apply count_lt_all. eapply Forall_impl; [|exact F_s]. intros y (_ & H & _). cbn beta. unfold MAXD in *. lia. }
          assert (O2 : sec_ok p (f2, l2)).
          { apply good_app_inv in Gs. destruct Gs as [_ G2]. cbn [good_secs] in G2. apply G2. }
          destruct (bodies_after_head p _ f2 l2 post' eq_refl O2) as (pay2 & rest2 & EB2).
          assert (X0 : x = (f2, pay2)).
          { unfold mid in EM. assert (SK : skipn a l = bodies ((f2, l2) :: post')).
            { rewrite <- EB, Es, Ea, CA. rewrite (skipn_located pre_s f_s ls_s ((f2, l2) :: post') (length ls_s)) by lia.
              rewrite skipn_all. reflexivity. }
            rewrite SK, EB2 in EM. destruct (b - a) eqn:BA; [lia|]. cbn [firstn] in EM. inversion EM. reflexivity. }
          exists f2. split; [reflexivity|]. split; [|rewrite X0; cbn [fst]; lia].
          pose proof (slice_skip p l a b x t Hab EM) as SS.
          rewrite LenB, LenA in SS. rewrite X0 in SS |- *. cbn [fst snd] in SS |- *.
          replace ((slots_of p pre_s + Layout.K p + length ls_s + Layout.K p) * L)
            with ((slots_of p pre_s + (Layout.K p + c_s)) * L + Layout.K p * L) by (rewrite CA; lia).
          apply SS. rewrite FAs. unfold tail_bytes. cbn [fst snd].
          pose proof (next_bound p pre_s f_s ls_s _ Gs f2 l2 post' eq_refl) as NB.
          replace (f2 - f_s <=? MAXD)%N with false by (symmetry; apply N.leb_gt; lia). reflexivity.
        * exists f_s. split; [reflexivity|]. split; [exact NOSKIP|lia]. }
  destruct HW as (pf & EPF & HWb & Hpf).
  (* the range is not empty, so refine returns it *)
  assert (SPEP : sp < ep).
  { destruct (Nat.lt_ge_cases sp ep) as [H|H]; [exact H|exfalso].
    replace (ep - sp) with 0 in HWb by lia. cbn [firstn] in HWb.
    assert (NE : length (encode_from p (Some pf) (x :: t)) >= 1).
    { cbn [encode_from]. destruct (tail_bytes p (Some pf) x) as [tb f2] eqn:TB. rewrite app_length.
      unfold tail_bytes in TB. destruct (fst x - pf <=? MAXD)%N; injection TB as <- <-;
        unfold enc_line; rewrite ?app_length, ?le_enc_length; cbn [length]; lia. }
    rewrite <- HWb in NE. cbn [length] in NE. lia. }
  exists (Some {| p_start := N.of_nat sp; p_end := N.of_nat ep; p_full := start_full_of f_s post_s s |}).
  split.
  - rewrite RS. replace (ep <=? sp) with false by (symmetry; apply Nat.leb_gt; exact SPEP). reflexivity.
  - cbn [p_start p_end p_full]. rewrite EPF.
    assert (OKM : ok_from p (Some pf) (x :: t)) by (apply wf_ok_from; [exact Wmid|exact Hpf]).
    assert (LEP : ep <= length (encode p l)).
    { rewrite <- LenB. pose proof (f_equal (@length byte) (encode_split p l b)) as EL. rewrite app_length in EL. lia. }
    split.
    + exists sp, ep. split; [reflexivity|]. split; [reflexivity|]. split; [exact SPEP|]. split; [|exact OKM].
      apply (f_equal (@length byte)) in HWb. rewrite firstn_length, skipn_length in HWb.
      destruct (encode_from_slots p (x :: t) (Some pf) (wf_payloads p _ Wmid)) as (lsl & E & F & NL).
      rewrite E, (concat_length_uniform L) in HWb by exact F. rewrite NL in HWb. lia.
    + intros St proc acc. apply (rwp_range p St proc cb0 (encode p l) sp ep pf (x :: t) acc); try assumption; lia.
Qed.

(* with the areas computed by start_search_bounds / end_search_bounds *)
Theorem range_read_ok :
  exists ps,
    refine {| start_ts := s;
              start_area_ := fst (if (f_s =? s)%N then (SFound (N.of_nat ((slots_of p pre_s + Layout.K p) * L)), s)
                                  else match post_s with
                                       | [] => (STillEnd (N.of_nat ((slots_of p pre_s + Layout.K p) * L)), f_s)
                                       | (f2, _) :: _ => if (f_s + MAXD <? s)%N then (SGap (N.of_nat ((slots_of p pre_s + Layout.K p + length ls_s + Layout.K p) * L)), f2)
                                                         else (SWindow (N.of_nat ((slots_of p pre_s + Layout.K p) * L)) (N.of_nat ((slots_of p pre_s + Layout.K p + length ls_s) * L)), f_s)
                                       end);
              start_full := start_full_of f_s post_s s;
              end_ts := e;
              end_area_ := fst (if (f_e =? e)%N then (EFound (N.of_nat ((slots_of p pre_e + Layout.K p) * L)), f_e)
                                else match post_e with
                                     | [] => (ETillEnd (N.of_nat ((slots_of p pre_e + Layout.K p) * L)), f_e)
                                     | (f2, _) :: _ => if (f_e + MAXD <? e)%N then (EGap (N.of_nat ((slots_of p pre_e + Layout.K p + length ls_e) * L)), f_e)
                                                       else (EWindow (N.of_nat ((slots_of p pre_e + Layout.K p) * L)) (N.of_nat ((slots_of p pre_e + Layout.K p + length ls_e) * L)), f_e)
                                     end);
              end_full := f_e |} d fs = (fs, Ok ps)
    /\ match ps with
       | None => mid = []
       | Some q => (exists sp ep, p_start q = N.of_nat sp /\ p_end q = N.of_nat ep /\ sp < ep
                                   /\ ep - sp = slots_from p (Some (p_full q)) mid * L /\ ok_from p (Some (p_full q)) mid)
                   /\ forall (St:Type) (proc:St -> N -> list byte -> pres St) (acc:St),
                        read_with_processor St proc p cb0 (encode p l) (p_start q) (p_end q) (p_full q) acc
                        = match feed St proc acc mid with PCont a0 => RDone a0 | PStop a0 => RStopped a0 | PPanic => RPanic end
       end.
Proof.
  apply range_read_core.
  destruct main_facts as (G & EB & ER & HB).
  destruct RD as [Rp Rf Rl Rix Re Rlast Rlegal Rdl Rn]. rewrite ER in Rf, Rl.
  exact (refine_spec fs d p hdr ss Rp Rf Rl G pre_s f_s ls_s post_s s pre_e f_e ls_e post_e e Ls Le Hs_reach He_reach).
Qed.
End Main.
