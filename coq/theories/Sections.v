(* The section structure of a canonical encoding: a well-formed series splits into sections
   (full timestamp f, lines with f <= ts <= f + 65534), the encoding is the concatenation of the
   encoded sections, the index entries are their timestamps and offsets. Used by the seek proofs. *)
From Coq Require Import List NArith ZArith Lia Bool Arith ZifyBool ZifyN ZifyNat Sorted.
From Coq Require Import Strings.Byte.
Require Import BS.Bytes BS.Common BS.CommonFacts BS.Api BS.Layout BS.Format BS.FormatFacts.
Import ListNotations.
Close Scope N_scope. Open Scope nat_scope.
Arguments N.add : simpl never. Arguments N.mul : simpl never. Arguments N.sub : simpl never.
Arguments N.ltb : simpl never. Arguments N.leb : simpl never. Arguments N.eqb : simpl never.

Notation sect := (N * list (N * list byte))%type (only parsing).

(* the lines after a section start that still fit its 16 bit deltas *)
Fixpoint take_run (f:N) (t:list line) : list line * list line :=
  match t with
  | [] => ([], [])
  | y :: t' => if (fst y - f <=? MAXD)%N
               then let '(r, rest) := take_run f t' in (y :: r, rest)
               else ([], t)
  end.
Fixpoint secs_fuel (n:nat) (l:list line) : list sect :=
  match n, l with
  | S n', x :: t => let '(r, rest) := take_run (fst x) t in (fst x, x :: r) :: secs_fuel n' rest
  | _, _ => []
  end.
Definition secs_of (l:list line) : list sect := secs_fuel (length l) l.

Lemma take_run_app f t : fst (take_run f t) ++ snd (take_run f t) = t.
Proof.
  induction t as [|y t IH]; cbn [take_run]; [reflexivity|].
  destruct (fst y - f <=? MAXD)%N; [|reflexivity].
  destruct (take_run f t) as [r rest]. cbn [fst snd app] in *. rewrite IH. reflexivity.
Qed.
Lemma take_run_rest_length f t : length (snd (take_run f t)) <= length t.
Proof. rewrite <- (take_run_app f t) at 2. rewrite app_length. lia. Qed.
Lemma take_run_run f t : Forall (fun y => (fst y - f <= MAXD)%N) (fst (take_run f t)).
Proof.
  induction t as [|y t IH]; cbn [take_run]; [constructor|].
  destruct (fst y - f <=? MAXD)%N eqn:C; [|constructor].
  destruct (take_run f t) as [r rest]. cbn [fst] in *. constructor; [apply N.leb_le; exact C|exact IH].
Qed.
Lemma take_run_rest_head f t : match snd (take_run f t) with y :: _ => (fst y - f <=? MAXD)%N = false | [] => True end.
Proof.
  induction t as [|y t IH]; cbn [take_run]; [exact I|].
  destruct (fst y - f <=? MAXD)%N eqn:C; [|cbn [snd]; exact C].
  destruct (take_run f t) as [r rest]. cbn [snd] in *. exact IH.
Qed.

Lemma secs_fuel_enough : forall n m l, length l <= n -> length l <= m -> secs_fuel n l = secs_fuel m l.
Proof.
  induction n as [|n IH]; intros m l Hn Hm.
  - destruct l; [|cbn in Hn; lia]. destruct m; reflexivity.
  - destruct l as [|x t]; [destruct m; reflexivity|]. destruct m as [|m]; [cbn in Hm; lia|].
    cbn [secs_fuel]. pose proof (take_run_rest_length (fst x) t) as RL.
    destruct (take_run (fst x) t) as [r rest]. cbn [snd] in RL. f_equal. apply IH; cbn [length] in *; lia.
Qed.
Lemma secs_of_cons x t : secs_of (x :: t) = (fst x, x :: fst (take_run (fst x) t)) :: secs_of (snd (take_run (fst x) t)).
Proof.
  unfold secs_of. cbn [length secs_fuel]. pose proof (take_run_rest_length (fst x) t) as RL.
  destruct (take_run (fst x) t) as [r rest]. cbn [fst snd] in *. f_equal. apply secs_fuel_enough; lia.
Qed.

(* induction principle following the section structure *)
Lemma secs_ind (P:list line -> Prop) :
  P [] -> (forall x t, P (snd (take_run (fst x) t)) -> P (x :: t)) -> forall l, P l.
Proof.
  intros H0 HS l. remember (length l) as n eqn:E. revert l E.
  induction n as [n IH] using lt_wf_ind. intros l E. destruct l as [|x t]; [exact H0|].
  apply HS. apply (IH (length (snd (take_run (fst x) t)))); [|reflexivity].
  pose proof (take_run_rest_length (fst x) t). subst n. cbn [length]. lia.
Qed.

Lemma secs_concat l : concat (map snd (secs_of l)) = l.
Proof.
  induction l as [|x t IH] using secs_ind; [reflexivity|].
  rewrite secs_of_cons. cbn [map concat snd]. rewrite IH. cbn [app]. f_equal. apply take_run_app.
Qed.

Section Enc.
Variable p : nat.
Notation L := (p + 2).

Definition enc_body (f:N) (ls:list line) : list byte := concat (map (fun y => enc_line (fst y - f) (snd y)) ls).
Definition sec_bytes (s:sect) : list byte := enc_section p (fst s) ++ enc_body (fst s) (snd s).

Lemma encode_from_run f : forall t, Forall (fun y => (fst y - f <= MAXD)%N) t ->
  forall rest, encode_from p (Some f) (t ++ rest) = enc_body f t ++ encode_from p (Some f) rest.
Proof.
  induction t as [|y t IH]; intros F rest; [reflexivity|].
  inversion F as [|? ? Hy Ft]; subst. cbn [app encode_from tail_bytes].
  replace (fst y - f <=? MAXD)%N with true by (symmetry; apply N.leb_le; exact Hy).
  rewrite IH by exact Ft. unfold enc_body. cbn [map concat]. rewrite app_assoc. reflexivity.
Qed.
Lemma encode_from_restart f rest : match rest with y :: _ => (fst y - f <=? MAXD)%N = false | [] => True end ->
  encode_from p (Some f) rest = encode_from p None rest.
Proof. destruct rest as [|y t]; intros H; [reflexivity|]. cbn [encode_from tail_bytes]. rewrite H. reflexivity. Qed.

Lemma sec_bytes_first x r : sec_bytes (fst x, x :: r) = enc_section p (fst x) ++ enc_line 0 (snd x) ++ enc_body (fst x) r.
Proof. unfold sec_bytes, enc_body. cbn [fst snd map concat]. rewrite N.sub_diag. reflexivity. Qed.

Theorem encode_sections l : encode p l = concat (map sec_bytes (secs_of l)).
Proof.
  unfold encode. induction l as [|x t IH] using secs_ind; [reflexivity|].
  rewrite secs_of_cons. cbn [map concat]. cbn [encode_from tail_bytes].
  rewrite <- (take_run_app (fst x) t) at 1.
  change (enc_line 0 (snd x) ++ encode_from p (Some (fst x)) (fst (take_run (fst x) t) ++ snd (take_run (fst x) t)))
    with (enc_line 0 (snd x) ++ encode_from p (Some (fst x)) (fst (take_run (fst x) t) ++ snd (take_run (fst x) t))).
  rewrite (encode_from_run (fst x) _ (take_run_run (fst x) t)).
  rewrite (encode_from_restart (fst x) _ (take_run_rest_head (fst x) t)), IH.
  rewrite sec_bytes_first. rewrite <- !app_assoc. reflexivity.
Qed.
End Enc.

(* ---- properties of the sections of a well-formed series ---- *)
Section Good.
Variable p : nat.
Notation L := (p + 2).

Definition sec_ok (s:sect) : Prop :=
  let '(f, ls) := s in
  (exists pay r, ls = (f, pay) :: r)
  /\ Forall (fun y => (f <= fst y)%N /\ (fst y - f <= MAXD)%N /\ length (snd y) = p /\ (fst y < 2^64)%N) ls
  /\ StronglySorted N.lt (map fst ls).
Fixpoint good_secs (ss:list sect) : Prop :=
  match ss with
  | [] => True
  | s :: t => sec_ok s
              /\ match t with
                 | (f2, _) :: _ => (fst s + MAXD < f2)%N /\ Forall (fun y => (fst y < f2)%N) (snd s)
                 | [] => True
                 end
              /\ good_secs t
  end.

Lemma sorted_app_inv (a b:list N) : StronglySorted N.lt (a ++ b) ->
  StronglySorted N.lt a /\ StronglySorted N.lt b /\ Forall (fun x => Forall (fun y => (x < y)%N) b) a.
Proof.
  induction a as [|x a IH]; cbn [app]; intros S; [repeat split; [constructor|exact S|constructor]|].
  inversion S as [|? ? St Hall]; subst. destruct (IH St) as (Sa & Sb & F).
  apply Forall_app in Hall. destruct Hall as [Ha Hb].
  repeat split; [constructor; assumption|exact Sb|constructor; assumption].
Qed.

Lemma wf_tail (x:line) t : wf_series p (x :: t) -> wf_series p t.
Proof. intros [S F]. cbn [map] in S. inversion S; subst. inversion F; subst. split; assumption. Qed.
Lemma wf_app_r (a b:list line) : wf_series p (a ++ b) -> wf_series p b.
Proof.
  intros [S F]. rewrite map_app in S. apply sorted_app_inv in S. destruct S as (_ & Sb & _).
  apply Forall_app in F. split; [exact Sb|apply F].
Qed.

Theorem secs_good l : wf_series p l -> good_secs (secs_of l).
Proof.
  induction l as [|x t IH] using secs_ind; intros W; [exact I|].
  rewrite secs_of_cons. cbn [good_secs fst snd].
  pose proof (take_run_app (fst x) t) as TA. pose proof (take_run_run (fst x) t) as TR.
  pose proof (take_run_rest_head (fst x) t) as TH.
  destruct (take_run (fst x) t) as [r rest] eqn:ETR. cbn [fst snd] in *.
  assert (Wx : wf_series p (x :: r ++ rest)) by (rewrite TA; exact W).
  destruct Wx as [S F].
  assert (Wrest : wf_series p rest). { apply (wf_app_r (x :: r) rest). cbn [app]. rewrite TA. exact W. }
  split; [|split; [|apply IH; exact Wrest]].
  - (* the section itself *)
    split; [exists (snd x), r; destruct x; reflexivity|]. split.
    + change (x :: r ++ rest) with ((x :: r) ++ rest) in F. apply Forall_app in F. destruct F as [F1 _].
      cbn [map app] in S. inversion S as [|? ? St Hall]; subst.
      inversion F1 as [|? ? [Hx Hp] Fr]; subst.
      constructor; [repeat split; try assumption; lia|].
      rewrite map_app in Hall. apply Forall_app in Hall. destruct Hall as [Hr _].
      clear -Hr Fr TR. induction r as [|y r IHr]; [constructor|].
      inversion Hr; subst. inversion Fr as [|? ? [Hy Hpy] Fr']; subst. inversion TR; subst.
      constructor; [repeat split; try assumption; lia|apply IHr; assumption].
    + change (x :: r ++ rest) with ((x :: r) ++ rest) in S. rewrite map_app in S.
      apply sorted_app_inv in S. apply S.
  - (* the next section starts beyond the reach of this one and after all its lines *)
    destruct rest as [|y rest'] eqn:ER; [exact I|].
    rewrite secs_of_cons. cbn [fst snd].
    apply N.leb_gt in TH. split; [unfold MAXD in *; lia|].
    change (x :: r ++ y :: rest') with ((x :: r) ++ y :: rest') in S. rewrite map_app in S.
    apply sorted_app_inv in S. destruct S as (_ & _ & FA).
    rewrite Forall_map in FA. eapply Forall_impl; [|exact FA]. intros a Ha. cbn [map] in Ha. inversion Ha; assumption.
Qed.
End Good.

(* ---- index entries and offsets in terms of sections ---- *)
Section Ents.
Variable p : nat.
Notation L := (p + 2).

Fixpoint ents (i:nat) (ss:list sect) : list (N * N) :=
  match ss with
  | [] => []
  | (f, ls) :: t => (f, N.of_nat (i * L)) :: ents (i + Layout.K p + length ls) t
  end.

Lemma secs_from_run f : forall t i rest, Forall (fun y => (fst y - f <= MAXD)%N) t ->
  secs_from p (Some f) i (t ++ rest) = secs_from p (Some f) (i + length t) rest.
Proof.
  induction t as [|y t IH]; intros i rest F; cbn [app length]; [replace (i + 0) with i by lia; reflexivity|].
  inversion F as [|? ? Hy Ft]; subst. cbn [secs_from].
  replace (fst y - f <=? MAXD)%N with true by (symmetry; apply N.leb_le; exact Hy).
  rewrite IH by exact Ft. replace (S i + length t) with (i + S (length t)) by lia. reflexivity.
Qed.
Lemma secs_from_restart f i rest : match rest with y :: _ => (fst y - f <=? MAXD)%N = false | [] => True end ->
  secs_from p (Some f) i rest = secs_from p None i rest.
Proof. destruct rest as [|y t]; intros H; [reflexivity|]. cbn [secs_from]. rewrite H. reflexivity. Qed.

Theorem secs_from_sections : forall l i, secs_from p None i l = ents i (secs_of l).
Proof.
  induction l as [|x t IH] using secs_ind; intros i; [reflexivity|].
  rewrite secs_of_cons. cbn [ents secs_from]. f_equal.
  rewrite <- (take_run_app (fst x) t) at 1.
  rewrite (secs_from_run (fst x) _ _ _ (take_run_run (fst x) t)).
  rewrite (secs_from_restart (fst x) _ _ (take_run_rest_head (fst x) t)), IH.
  apply f_equal2; [cbn [length]; lia|reflexivity].
Qed.

(* byte length of encoded sections *)
Lemma enc_body_length f ls : Forall (fun y => length (snd y) = p) ls -> length (enc_body f ls) = length ls * L.
Proof.
  intros F. unfold enc_body. rewrite (concat_length_uniform L).
  - rewrite map_length. reflexivity.
  - rewrite Forall_map. eapply Forall_impl; [|exact F]. intros y Hy. apply enc_line_length. exact Hy.
Qed.
Lemma sec_bytes_length s : Forall (fun y => length (snd y) = p) (snd s) ->
  length (sec_bytes p s) = (Layout.K p + length (snd s)) * L.
Proof. intros F. unfold sec_bytes. rewrite app_length, enc_section_length, enc_body_length by exact F. lia. Qed.
End Ents.

(* ---- locating a timestamp among the sections ---- *)
Section Locate.
Variable p : nat.
Notation L := (p + 2).

Fixpoint slots_of (ss:list sect) : nat :=
  match ss with [] => 0 | s :: t => Layout.K p + length (snd s) + slots_of t end.

Lemma slots_of_app' a b : slots_of (a ++ b) = slots_of a + slots_of b.
Proof. induction a as [|x a IH]; cbn [app slots_of]; [reflexivity|]. rewrite IH. lia. Qed.

Lemma ents_app i a b : ents p i (a ++ b) = ents p i a ++ ents p (i + slots_of a) b.
Proof.
  revert i. induction a as [|[f ls] a IH]; intros i; cbn [app ents slots_of snd].
  - replace (i + 0) with i by lia. reflexivity.
  - rewrite IH. f_equal. f_equal. f_equal. lia.
Qed.
Lemma ents_length i ss : length (ents p i ss) = length ss.
Proof. revert i. induction ss as [|[f ls] t IH]; intros i; cbn [ents length]; [reflexivity|]. rewrite IH. reflexivity. Qed.

Lemma good_app_inv a b : good_secs p (a ++ b) -> good_secs p a /\ good_secs p b.
Proof.
  induction a as [|s a IH]; cbn [app]; intros G; [split; [exact I|exact G]|].
  cbn [good_secs] in G. destruct G as (Ok & Nx & G). destruct (IH G) as [Ga Gb]. split; [|exact Gb].
  cbn [good_secs]. split; [exact Ok|]. split; [|exact Ga].
  destruct a as [|[f2 l2] a']; [exact I|]. exact Nx.
Qed.

(* every section before a later one starts (more than 65534) earlier *)
Lemma good_before pre s post : good_secs p (pre ++ s :: post) -> Forall (fun s' => (fst s' + MAXD < fst s)%N) pre.
Proof.
  induction pre as [|[f0 l0] pre IH]; cbn [app]; intros G; [constructor|].
  cbn [good_secs] in G. destruct G as (_ & Nx & G). specialize (IH G).
  constructor; [|exact IH].
  destruct pre as [|[f1 l1] pre']; cbn [app fst] in *.
  - destruct s as [f2 l2]. apply Nx.
  - destruct Nx as [Nx _]. inversion IH; subst. cbn [fst] in *. unfold MAXD in *. lia.
Qed.
Lemma good_after pre s post : good_secs p (pre ++ s :: post) -> Forall (fun s' => (fst s + MAXD < fst s')%N) post.
Proof.
  intros G. apply good_app_inv in G. destruct G as [_ G]. clear pre.
  revert s G. induction post as [|[f1 l1] post IH]; intros s G; [constructor|].
  cbn [good_secs] in G. destruct G as (_ & [Nx _] & G).
  constructor; [exact Nx|].
  specialize (IH (f1, l1) G). eapply Forall_impl; [|exact IH]. intros a Ha. cbn [fst] in *. unfold MAXD in *. lia.
Qed.

End Locate.
