(* Little-endian byte strings over Init.Byte.byte (256 constructors: no "< 256" side conditions). *)
From Coq Require Import List NArith ZArith Lia Bool ZifyBool ZifyN ZifyNat.
From Coq Require Import Strings.Byte.
Import ListNotations.
Open Scope N_scope.
Arguments N.add : simpl never. Arguments N.mul : simpl never.
Arguments N.div : simpl never. Arguments N.modulo : simpl never.
Ltac Zify.zify_post_hook ::= Z.div_mod_to_equations.

Definition byte_of_N (n:N) : byte :=
  match Byte.of_N (n mod 256) with Some b => b | None => x00 end.

(* the Decoder of the resampler the harness instantiates the library with (BytesResampler of SCRIPT.md): one u64 per payload
   byte; bytes below 128 as they are, bytes from 128 on with their lowest bit cleared - so that decode followed by encode is
   NOT the identity on every payload (a cache line of a bucket of one line need not equal that line) *)
Definition rs_dec (b:byte) : N := let n := Byte.to_N b in if (n <? 128)%N then n else (n / 2 * 2)%N.

Lemma to_N_byte_of_N n : Byte.to_N (byte_of_N n) = n mod 256.
Proof.
  unfold byte_of_N. destruct (Byte.of_N (n mod 256)) eqn:E.
  - apply Byte.to_of_N in E. exact E.
  - apply Byte.of_N_None_iff in E. assert (n mod 256 < 256) by (apply N.mod_lt; lia). lia.
Qed.

Lemma byte_of_N_to_N b : byte_of_N (Byte.to_N b) = b.
Proof.
  unfold byte_of_N. pose proof (Byte.to_N_bounded b).
  rewrite N.mod_small by lia. rewrite Byte.of_to_N. reflexivity.
Qed.

Fixpoint le_enc (k:nat) (n:N) : list byte :=
  match k with O => [] | S k' => byte_of_N n :: le_enc k' (n / 256) end.
Fixpoint le_dec (l:list byte) : N :=
  match l with [] => 0 | b :: t => Byte.to_N b + 256 * le_dec t end.

Lemma le_enc_length k n : length (le_enc k n) = k.
Proof. revert n; induction k; intros; simpl; auto. Qed.

Lemma le_dec_enc k : forall n, n < 256 ^ N.of_nat k -> le_dec (le_enc k n) = n.
Proof.
  induction k as [|k IH]; intros n Hn.
  - simpl in *. lia.
  - cbn [le_enc le_dec]. rewrite to_N_byte_of_N.
    rewrite IH.
    + pose proof (N.div_mod n 256). lia.
    + rewrite Nat2N.inj_succ, N.pow_succ_r' in Hn.
      apply N.div_lt_upper_bound; lia.
Qed.

Lemma le_dec_bound l : le_dec l < 256 ^ N.of_nat (length l).
Proof.
  induction l as [|b t IH]; cbn [le_dec length].
  - simpl. lia.
  - rewrite Nat2N.inj_succ, N.pow_succ_r'. pose proof (Byte.to_N_bounded b). lia.
Qed.

Lemma le_enc_dec l : le_enc (length l) (le_dec l) = l.
Proof.
  induction l as [|b t IH]; cbn [le_dec length le_enc]; auto.
  pose proof (Byte.to_N_bounded b) as Hb.
  assert (Hm : (Byte.to_N b + 256 * le_dec t) mod 256 = Byte.to_N b) by lia.
  assert (Hd : (Byte.to_N b + 256 * le_dec t) / 256 = le_dec t) by lia.
  rewrite Hd, IH. f_equal.
  unfold byte_of_N. rewrite Hm, Byte.of_to_N. reflexivity.
Qed.

Lemma marker_iff b0 b1 : le_dec [b0;b1] = 65535 <-> b0 = xff /\ b1 = xff.
Proof.
  cbn [le_dec]. pose proof (Byte.to_N_bounded b0). pose proof (Byte.to_N_bounded b1).
  split.
  - intro E. assert (Byte.to_N b0 = 255 /\ Byte.to_N b1 = 255) as [E0 E1] by lia.
    split; [rewrite <- (byte_of_N_to_N b0), E0 | rewrite <- (byte_of_N_to_N b1), E1]; reflexivity.
  - intros [-> ->]. reflexivity.
Qed.
