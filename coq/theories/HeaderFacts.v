(* C17 / C04: the header parser (SeriesParams::from_text, check_and_split_off_user_header) recognises the
   preamble the library writes (SeriesParams::to_text), for every payload size: it returns that payload
   size and exactly the user header that follows. The texts are the ones regenerated from the source. *)
From Coq Require Import List NArith ZArith Lia Bool Arith ZifyBool ZifyN ZifyNat.
From Coq Require Import Strings.Byte.
Require Import BS.Bytes BS.Common BS.CommonFacts BS.Api BS.FS BS.Header.
Require BSgen.Consts BSgen.HeaderText.
Import ListNotations.
Close Scope N_scope. Open Scope nat_scope.
Arguments N.add : simpl never. Arguments N.mul : simpl never. Arguments N.sub : simpl never.
Arguments N.ltb : simpl never. Arguments N.leb : simpl never. Arguments N.eqb : simpl never.
Arguments N.div : simpl never. Arguments N.modulo : simpl never.

(* ---- decimal text ---- *)
Definition is_digit (b:byte) : bool := match digit_val b with Some _ => true | None => false end.

Lemma digit_val_digit d : (d < 10)%N -> digit_val (digit d) = Some d.
Proof.
  intros H. assert (C : forallb (fun k => match digit_val (digit (N.of_nat k)) with Some v => (v =? N.of_nat k)%N | None => false end) (seq 0 10) = true) by (vm_compute; reflexivity).
  rewrite forallb_forall in C. specialize (C (N.to_nat d) ltac:(apply in_seq; lia)). rewrite N2Nat.id in C.
  destruct (digit_val (digit d)) as [v|]; [|discriminate]. apply N.eqb_eq in C. subst. reflexivity.
Qed.

Lemma is_digit_digit d : (d < 10)%N -> is_digit (digit d) = true.
Proof. intros H. unfold is_digit. rewrite (digit_val_digit d H). reflexivity. Qed.

Lemma dec_fuel_spec : forall f n acc, (n < 2 ^ N.of_nat (S f))%N ->
  exists ds, dec_fuel (S f) n acc = ds ++ acc /\ ds <> [] /\ forallb is_digit ds = true /\ length ds <= S f
             /\ forall a rest, parse_dec_acc (ds ++ rest) a = parse_dec_acc rest (a * 10 ^ N.of_nat (length ds) + n)%N.
Proof.
  assert (ONE : forall n acc, (n < 10)%N ->
            exists ds, digit (n mod 10) :: acc = ds ++ acc /\ ds <> [] /\ forallb is_digit ds = true /\ length ds <= 1
              /\ forall a rest, parse_dec_acc (ds ++ rest) a = parse_dec_acc rest (a * 10 ^ N.of_nat (length ds) + n)%N).
  { intros n acc Hn. exists [digit (n mod 10)]. rewrite N.mod_small by exact Hn. split; [reflexivity|]. split; [discriminate|].
    split; [cbn [forallb]; rewrite (is_digit_digit n Hn); reflexivity|]. split; [cbn [length]; lia|].
    intros a rest. cbn [app parse_dec_acc length]. rewrite (digit_val_digit n Hn). f_equal; try (change (N.of_nat 1) with 1%N; lia). }
  induction f as [|f IH]; intros n acc H; cbn [dec_fuel].
  - change (2 ^ N.of_nat 1)%N with 2%N in H. replace (n / 10 =? 0)%N with true by (symmetry; apply N.eqb_eq; apply N.div_small; lia).
    destruct (ONE n acc ltac:(lia)) as (ds & A1 & A2 & A3 & A4 & A5). exists ds. repeat split; try assumption.
  - destruct (n / 10 =? 0)%N eqn:Z.
    + apply N.eqb_eq in Z. assert (n < 10)%N as Hn10; [|destruct (ONE n acc Hn10) as (ds & A1 & A2 & A3 & A4 & A5); exists ds; repeat split; try assumption; lia]. destruct (N.lt_ge_cases n 10) as [L|G]; [exact L|].
      exfalso. pose proof (N.div_le_mono 10 n 10 ltac:(lia) G) as Q. rewrite N.div_same in Q by lia. lia.
    + assert (H2 : (n / 10 < 2 ^ N.of_nat (S f))%N).
      { assert (n / 10 <= n / 2)%N by (apply N.div_le_compat_l; lia).
        assert (n / 2 < 2 ^ N.of_nat (S f))%N; [|lia].
        apply N.div_lt_upper_bound; [lia|]. rewrite <- N.pow_succ_r'. rewrite <- Nat2N.inj_succ. exact H. }
      destruct (IH (n / 10)%N (digit (n mod 10) :: acc) H2) as (ds' & E & NE & FD & LN & P).
      exists (ds' ++ [digit (n mod 10)]). split; [rewrite <- app_assoc; exact E|]. split; [destruct ds'; discriminate|].
      split; [|split].
      * rewrite forallb_app, FD. cbn [forallb]. rewrite is_digit_digit by (apply N.mod_lt; lia). reflexivity.
      * rewrite app_length. cbn [length]. lia.
      * intros a rest. rewrite <- app_assoc. cbn [app]. rewrite P. cbn [parse_dec_acc].
        rewrite digit_val_digit by (apply N.mod_lt; lia). f_equal.
        rewrite app_length. cbn [length]. rewrite Nat.add_1_r, Nat2N.inj_succ, N.pow_succ_r'.
        pose proof (N.div_mod n 10 ltac:(lia)). nia.
Qed.

Lemma dec_spec n : exists ds, dec n = ds /\ ds <> [] /\ forallb is_digit ds = true /\ parse_dec_acc ds 0 = Some n
  /\ length ds <= S (N.to_nat (N.log2 n)).
Proof.
  unfold dec. destruct (dec_fuel_spec (N.to_nat (N.log2 n)) n []) as (ds & E & NE & FD & LN & P).
  { rewrite Nat2N.inj_succ, N2Nat.id. destruct n as [|q]; [cbn; lia|]. apply N.log2_spec. lia. }
  exists ds. rewrite app_nil_r in E. split; [exact E|]. split; [exact NE|]. split; [exact FD|]. split; [|exact LN].
  specialize (P 0%N []). rewrite app_nil_r in P. rewrite P. cbn [parse_dec_acc]. f_equal; lia.
Qed.

(* ---- str::find on a text with a run of digits in the middle ---- *)
Fixpoint clash (pat s:list byte) : bool :=     (* a definite mismatch within the bytes of s *)
  match pat, s with
  | a :: p', b :: s' => negb (Byte.eqb a b) || clash p' s'
  | _, _ => false
  end.
(* s is used up without mismatch, and what the pattern wants next is not a digit *)
Fixpoint stuck (pat s:list byte) : bool :=
  match pat, s with
  | c :: _, [] => negb (is_digit c)
  | a :: p', b :: s' => stuck p' s'
  | [], _ => false
  end.
Definition pos_false (pat s:list byte) : bool := clash pat s || stuck pat s.

Lemma clash_no_prefix : forall pat s r, clash pat s = true -> is_prefix pat (s ++ r) = false.
Proof.
  induction pat as [|a p' IH]; intros s r H; [destruct s; discriminate|].
  destruct s as [|b s']; [discriminate|]. cbn [clash is_prefix app] in *.
  destruct (Byte.eqb a b); cbn [negb orb andb] in *; [apply IH; exact H|reflexivity].
Qed.
Lemma byte_eqb_digit c d : is_digit c = false -> is_digit d = true -> Byte.eqb c d = false.
Proof.
  intros Hc Hd. destruct (Byte.eqb c d) eqn:E; [|reflexivity]. apply Byte.byte_dec_bl in E. subst. congruence.
Qed.
Lemma stuck_no_prefix : forall pat s d r, stuck pat s = true -> is_digit d = true -> is_prefix pat (s ++ d :: r) = false.
Proof.
  induction pat as [|a p' IH]; intros s d r H Hd; [destruct s; discriminate|].
  destruct s as [|b s']; cbn [stuck is_prefix app] in *.
  - rewrite byte_eqb_digit; [reflexivity| |exact Hd]. destruct (is_digit a); [discriminate|reflexivity].
  - rewrite (IH s' d r H Hd). apply andb_false_r.
Qed.
Lemma pos_false_ok pat s d r : pos_false pat s = true -> is_digit d = true -> is_prefix pat (s ++ d :: r) = false.
Proof.
  unfold pos_false. intros H Hd. apply orb_true_iff in H. destruct H as [H|H];
    [apply clash_no_prefix; exact H|apply stuck_no_prefix; assumption].
Qed.
Lemma is_prefix_app : forall pat s r, is_prefix pat s = true -> is_prefix pat (s ++ r) = true.
Proof.
  induction pat as [|a p' IH]; intros s r H; [reflexivity|]. destruct s as [|b s']; [discriminate|].
  cbn [is_prefix app] in *. apply andb_true_iff in H. destruct H as [H1 H2]. rewrite H1, (IH _ _ H2). reflexivity.
Qed.

(* skip k positions at which the pattern does not match *)
Lemma find_sub_skip : forall k pat l, k <= length l -> (forall j, j < k -> is_prefix pat (skipn j l) = false) ->
  find_sub pat l = option_map (N.add (N.of_nat k)) (find_sub pat (skipn k l)).
Proof.
  induction k as [|k IH]; intros pat l Hk H.
  - cbn [skipn]. destruct (find_sub pat l); reflexivity.
  - destruct l as [|x t]; [cbn [length] in Hk; lia|].
    pose proof (H 0 ltac:(lia)) as H0. cbn [skipn] in H0.
    replace (find_sub pat (x :: t)) with (option_map N.succ (find_sub pat t)) by (cbn [find_sub]; rewrite H0; reflexivity).
    cbn [skipn]. rewrite (IH pat t); [|cbn [length] in Hk; lia|intros j Hj; apply (H (S j)); lia].
    destruct (find_sub pat (skipn k t)); cbn [option_map]; [f_equal; lia|reflexivity].
Qed.
Lemma find_sub_here pat l : is_prefix pat l = true -> find_sub pat l = Some 0%N.
Proof. intros H. destruct l; cbn [find_sub]; rewrite H; reflexivity. Qed.

(* the pattern is found inside the fixed part A, before the digits *)
Lemma find_in_fixed pat A k d rest : k <= length A ->
  forallb (fun j => pos_false pat (skipn j A)) (seq 0 k) = true -> is_prefix pat (skipn k A) = true ->
  is_digit d = true -> find_sub pat (A ++ d :: rest) = Some (N.of_nat k).
Proof.
  intros Hk F P Hd. rewrite (find_sub_skip k).
  - rewrite skipn_app. replace (k - length A) with 0 by lia. cbn [skipn].
    rewrite find_sub_here by (apply is_prefix_app; exact P). cbn [option_map]. f_equal. lia.
  - rewrite app_length. lia.
  - intros j Hj. rewrite skipn_app. replace (j - length A) with 0 by lia. cbn [skipn].
    apply pos_false_ok; [|exact Hd]. rewrite forallb_forall in F. apply F. apply in_seq. lia.
Qed.

(* a pattern that starts with a non-digit and first matches right after the digits *)
Lemma find_after_digits pat A ds B c pat' : pat = c :: pat' -> is_digit c = false ->
  forallb (fun j => pos_false pat (skipn j A)) (seq 0 (length A)) = true ->
  ds <> [] -> forallb is_digit ds = true -> is_prefix pat B = true ->
  find_sub pat (A ++ ds ++ B) = Some (N.of_nat (length A + length ds)).
Proof.
  intros Ep Hc F NE FD PB. destruct ds as [|d ds']; [contradiction|]. cbn [forallb] in FD. apply andb_true_iff in FD. destruct FD as [Hd FD'].
  rewrite (find_sub_skip (length A + length (d :: ds'))).
  - rewrite app_assoc, skipn_app, app_length, Nat.sub_diag. cbn [skipn].
    rewrite skipn_all2 by (rewrite app_length; lia). cbn [app].
    rewrite find_sub_here by exact PB. cbn [option_map]. f_equal. lia.
  - rewrite !app_length. lia.
  - intros j Hj. destruct (Nat.lt_ge_cases j (length A)) as [Lt|Ge].
    + rewrite skipn_app. replace (j - length A) with 0 by lia. cbn [skipn app].
      apply pos_false_ok; [|exact Hd]. rewrite forallb_forall in F. apply F. apply in_seq. lia.
    + (* inside the digits: the first byte is a digit, the pattern starts with a non-digit *)
      rewrite skipn_app, skipn_all2 by lia. rewrite app_nil_l, skipn_app.
      assert (Hi : j - length A < length (d :: ds')) by lia.
      destruct (skipn (j - length A) (d :: ds')) as [|e es] eqn:SK.
      { apply (f_equal (@length byte)) in SK. rewrite skipn_length in SK. cbn [length] in *. lia. }
      assert (He : is_digit e = true).
      { assert (IN : In e (d :: ds')).
        { rewrite <- (firstn_skipn (j - length A) (d :: ds')). rewrite SK. apply in_or_app. right. left. reflexivity. }
        assert (FA : forallb is_digit (d :: ds') = true) by (cbn [forallb]; rewrite Hd, FD'; reflexivity).
        rewrite forallb_forall in FA. apply FA. exact IN. }
      subst pat. cbn [app is_prefix]. rewrite (byte_eqb_digit c e Hc He). reflexivity.
Qed.

(* ---- the preamble ---- *)
Definition numb : list byte := ["N";"U";"M";"B";"_";"L";"I";"N";"E";"S"]%byte.
Definition rawA : list byte :=
  BSgen.HeaderText.preamble_part0 ++ numb ++ BSgen.HeaderText.preamble_part1 ++ dec BSgen.Consts.version ++ BSgen.HeaderText.preamble_part2.
Definition part3 : list byte := BSgen.HeaderText.preamble_part3.
Definition NLC : N := Eval vm_compute in lines_count (rawA ++ part3).
Definition fixedA : list byte :=
  Eval vm_compute in BSgen.HeaderText.preamble_part0 ++ dec NLC ++ BSgen.HeaderText.preamble_part1 ++ dec BSgen.Consts.version ++ BSgen.HeaderText.preamble_part2.
Definition fixedB : list byte := Eval vm_compute in firstn (length part3 - 4) part3.

Lemma count_byte_app b x y : count_byte b (x ++ y) = (count_byte b x + count_byte b y)%N.
Proof. induction x as [|a x IH]; cbn [app count_byte]; [lia|]. rewrite IH. lia. Qed.
Lemma digits_no_newline ds : forallb is_digit ds = true -> count_byte "010"%byte ds = 0%N.
Proof.
  induction ds as [|d t IH]; intros H; [reflexivity|]. cbn [forallb] in H. apply andb_true_iff in H. destruct H as [Hd Ht].
  cbn [count_byte]. rewrite (IH Ht).
  replace (Byte.eqb d "010"%byte) with false; [reflexivity|]. symmetry.
  destruct (Byte.eqb d "010"%byte) eqn:E; [|reflexivity]. apply Byte.byte_dec_bl in E. subst d. discriminate.
Qed.
Lemma last_app_ne {A} (x y:list A) d : y <> [] -> last (x ++ y) d = last y d.
Proof.
  intros NE. induction x as [|a x IH]; [reflexivity|]. cbn [app]. rewrite <- IH.
  destruct (x ++ y) eqn:E; [destruct x; [contradiction|discriminate]|reflexivity].
Qed.

Lemma lines_count_raw ds : forallb is_digit ds = true -> lines_count (rawA ++ ds ++ part3) = NLC.
Proof.
  intros FD. unfold lines_count.
  destruct (rawA ++ ds ++ part3) eqn:E; [exfalso; revert E; unfold rawA; vm_compute; discriminate|]. rewrite <- E.
  rewrite !count_byte_app, (digits_no_newline ds FD).
  rewrite app_assoc, (last_app_ne (rawA ++ ds) part3) by (vm_compute; discriminate).
  vm_compute. reflexivity.
Qed.

Lemma preamble_text_shape p : exists ds, dec p = ds /\ ds <> [] /\ forallb is_digit ds = true /\ parse_dec_acc ds 0 = Some p
  /\ length ds <= S (N.to_nat (N.log2 p))
  /\ preamble_text BSgen.Consts.version p = fixedA ++ ds ++ part3.
Proof.
  destruct (dec_spec p) as (ds & E & NE & FD & P & LN). exists ds. repeat split; try assumption.
  unfold preamble_text. rewrite E.
  change (BSgen.HeaderText.preamble_part0 ++ ["N";"U";"M";"B";"_";"L";"I";"N";"E";"S"]%byte ++ BSgen.HeaderText.preamble_part1
          ++ dec BSgen.Consts.version ++ BSgen.HeaderText.preamble_part2 ++ ds ++ BSgen.HeaderText.preamble_part3)
    with (BSgen.HeaderText.preamble_part0 ++ numb ++ BSgen.HeaderText.preamble_part1 ++ dec BSgen.Consts.version ++ BSgen.HeaderText.preamble_part2 ++ ds ++ part3).
  replace (BSgen.HeaderText.preamble_part0 ++ numb ++ BSgen.HeaderText.preamble_part1 ++ dec BSgen.Consts.version ++ BSgen.HeaderText.preamble_part2 ++ ds ++ part3)
    with (rawA ++ ds ++ part3) by (unfold rawA; rewrite <- !app_assoc; reflexivity).
  rewrite (lines_count_raw ds FD).
  change fixedA with (BSgen.HeaderText.preamble_part0 ++ dec NLC ++ BSgen.HeaderText.preamble_part1 ++ dec BSgen.Consts.version ++ BSgen.HeaderText.preamble_part2).
  rewrite <- !app_assoc. reflexivity.
Qed.

Lemma firstn_app_exact' {A} (a b:list A) : firstn (length a) (a ++ b) = a.
Proof. rewrite firstn_app, Nat.sub_diag, firstn_all. cbn [firstn]. apply app_nil_r. Qed.

(* ---- slices of a text with a fixed left part ---- *)
Lemma slice_nat {A} (a b:nat) (l:list A) : a <= b -> b <= length l ->
  slice (N.of_nat a) (N.of_nat b) l = firstn (b - a) (skipn a l).
Proof.
  intros H1 H2. unfold slice. rewrite take_firstn, drop_skipn. f_equal; [lia|]. f_equal. lia.
Qed.
Lemma slice_in_left {A} (a b:nat) (x r:list A) : a <= b -> b <= length x -> slice (N.of_nat a) (N.of_nat b) (x ++ r) = slice (N.of_nat a) (N.of_nat b) x.
Proof.
  intros H1 H2. rewrite !slice_nat by (try rewrite app_length; lia).
  rewrite skipn_app, firstn_app. replace (a - length x) with 0 by lia. cbn [skipn].
  rewrite skipn_length. replace (b - a - (length x - a)) with 0 by lia. cbn [firstn]. apply app_nil_r.
Qed.
Lemma slice_mid {A} (x y z:list A) : slice (N.of_nat (length x)) (N.of_nat (length x + length y)) (x ++ y ++ z) = y.
Proof.
  rewrite slice_nat by (try rewrite !app_length; lia).
  rewrite skipn_app, skipn_all, Nat.sub_diag. cbn [skipn app].
  replace (length x + length y - length x) with (length y) by lia. apply firstn_app_exact'.
Qed.

(* ---- the parser on the written preamble ---- *)
Definition pat_vs := BSgen.HeaderText.pat_version_start.
Definition pat_ve := BSgen.HeaderText.pat_version_end.
Definition pat_ps := BSgen.HeaderText.pat_payload_start.
Definition pat_pe := BSgen.HeaderText.pat_payload_end.
Definition pos_of (pat:list byte) : nat := Eval vm_compute in (match find_sub pat fixedA with Some k => N.to_nat k | None => 0 end).
Definition k_vs : nat := Eval vm_compute in pos_of pat_vs.
Definition k_ve : nat := Eval vm_compute in pos_of pat_ve.
Definition k_ps : nat := Eval vm_compute in pos_of pat_ps.

Definition fixed_ok (pat:list byte) (k:nat) : bool :=
  (k <=? length fixedA) && forallb (fun j => pos_false pat (skipn j fixedA)) (seq 0 k) && is_prefix pat (skipn k fixedA).

Lemma fixed_checks :
  fixed_ok pat_vs k_vs = true /\ fixed_ok pat_ve k_ve = true /\ fixed_ok pat_ps k_ps = true
  /\ forallb (fun j => pos_false pat_pe (skipn j fixedA)) (seq 0 (length fixedA)) = true
  /\ is_prefix pat_pe fixedB = true
  /\ (match pat_pe with c :: _ => negb (is_digit c) | [] => false end) = true
  /\ k_ps + length pat_ps = length fixedA
  /\ k_vs + length pat_vs <= k_ve /\ k_ve <= length fixedA
  /\ parse_dec 65536 (slice (N.of_nat (k_vs + length pat_vs)) (N.of_nat k_ve) fixedA) = Some BSgen.Consts.version
  /\ all_ascii fixedA = true /\ all_ascii fixedB = true
  /\ part3 = fixedB ++ skipn (length part3 - 4) part3 /\ 4 <= length part3 /\ 4 <= length fixedA.
Proof. vm_compute. repeat split; (reflexivity || lia). Qed.

Lemma find_fixed pat k d rest : fixed_ok pat k = true -> is_digit d = true -> find_sub pat (fixedA ++ d :: rest) = Some (N.of_nat k).
Proof.
  unfold fixed_ok. intros H Hd. apply andb_true_iff in H. destruct H as [H P]. apply andb_true_iff in H. destruct H as [Hk F].
  apply Nat.leb_le in Hk. apply find_in_fixed; assumption.
Qed.

Lemma digits_ascii ds : forallb is_digit ds = true -> all_ascii ds = true.
Proof.
  unfold all_ascii. intros H. rewrite forallb_forall in *. intros b Hb. specialize (H b Hb).
  unfold is_digit, digit_val in H. destruct ((48 <=? Byte.to_N b) && (Byte.to_N b <=? 57))%N eqn:E; [|discriminate].
  apply andb_true_iff in E. destruct E as [_ E]. apply N.leb_le in E. apply N.ltb_lt. lia.
Qed.

Lemma parse_field_eval sp ep bound T ks ke v :
  find_sub sp T = Some ks -> find_sub ep T = Some ke -> (ke <? ks + len sp)%N = false ->
  parse_dec bound (slice (ks + len sp) ke T) = Some v -> parse_field sp ep bound T = Ok v.
Proof. intros H1 H2 H3 H4. unfold parse_field. rewrite H1, H2, H3, H4. reflexivity. Qed.

Theorem header_parse p uhdr popt : (p < 2^64)%N ->
  check_and_split (params_to_text BSgen.Consts.version p ++ uhdr) popt
  = match popt with
    | Some q => if (p =? q)%N then Ok (p, uhdr) else Err EMismatch     (* another payload size is demanded *)
    | None => Ok (p, uhdr)
    end.
Proof.
  intros Hp.
  destruct fixed_checks as (OKvs & OKve & OKps & Fpe & Ppe & Cpe & Eps & Ord1 & Ord2 & PV & AA & AB & P3 & L3 & LA).
  destruct (preamble_text_shape p) as (ds & Eds & NE & FD & PD & LN & TX).
  unfold params_to_text. rewrite TX.
  set (text := fixedA ++ ds ++ part3).
  assert (LDS : length ds <= 65).
  { assert (N.log2 p < 64)%N; [|lia]. destruct p as [|q]; [cbn; lia|]. apply N.log2_lt_pow2; lia. }
  assert (LT : (len text < 256 ^ N.of_nat 4)%N).
  { unfold text, len. rewrite !app_length. assert (N.of_nat (length fixedA + length part3) < 100000)%N by (vm_compute; reflexivity).
    change (256 ^ N.of_nat 4)%N with 4294967296%N. lia. }
  assert (LT4 : 4 <= length text) by (unfold text; rewrite app_length; lia).
  set (header := (le_enc 4 (len text) ++ text) ++ uhdr).
  assert (LH : length header = 4 + length text + length uhdr).
  { unfold header. rewrite !app_length, le_enc_length. lia. }
  unfold check_and_split.
  replace (len header <? 4)%N with false by (symmetry; apply N.ltb_ge; unfold len; lia).
  assert (F4 : firstn 4 header = le_enc 4 (len text)).
  { unfold header. rewrite <- app_assoc. rewrite <- (le_enc_length 4 (len text)) at 1. apply firstn_app_exact'. }
  rewrite F4, (le_dec_enc 4 _ LT).
  replace (len header <? len text)%N with false by (symmetry; apply N.ltb_ge; unfold len; lia).
  replace (len text <? 4)%N with false by (symmetry; apply N.ltb_ge; unfold len; lia).
  (* the text the parser looks at: all but the last four bytes *)
  assert (SL : slice 4 (len text) header = fixedA ++ ds ++ fixedB).
  { change 4%N with (N.of_nat 4). unfold len. rewrite slice_nat by lia.
    unfold header. rewrite <- app_assoc. rewrite <- (le_enc_length 4 (N.of_nat (length text))) at 2.
    rewrite skipn_app, skipn_all, Nat.sub_diag. cbn [skipn app].
    rewrite firstn_app. replace (length text - 4 - length text) with 0 by lia. cbn [firstn]. rewrite app_nil_r.
    assert (TE : text = (fixedA ++ ds ++ fixedB) ++ skipn (length part3 - 4) part3).
    { unfold text. rewrite P3 at 1. rewrite <- !app_assoc. reflexivity. }
    assert (LTE : length text - 4 = length (fixedA ++ ds ++ fixedB)).
    { unfold text. rewrite !app_length. assert (length fixedB = length part3 - 4) by (vm_compute; reflexivity). lia. }
    rewrite LTE. rewrite TE. apply firstn_app_exact'. }
  rewrite SL.
  assert (ASC : all_ascii (fixedA ++ ds ++ fixedB) = true).
  { pose proof (digits_ascii ds FD) as AD. unfold all_ascii in *. rewrite !forallb_app. rewrite AA, AB, AD. reflexivity. }
  rewrite ASC. cbn [negb].
  destruct ds as [|d ds'] eqn:Dds; [contradiction|]. rewrite <- Dds in *.
  assert (Hd : is_digit d = true) by (rewrite Dds in FD; cbn [forallb] in FD; apply andb_true_iff in FD; apply FD).
  assert (TXT : fixedA ++ ds ++ fixedB = fixedA ++ d :: (ds' ++ fixedB)) by (rewrite Dds; reflexivity).
  (* version *)
  assert (PVs : parse_field BSgen.HeaderText.pat_version_start BSgen.HeaderText.pat_version_end 65536 (fixedA ++ ds ++ fixedB)
                = Ok BSgen.Consts.version).
  { apply (parse_field_eval _ _ _ _ (N.of_nat k_vs) (N.of_nat k_ve)).
    - rewrite TXT. apply (find_fixed pat_vs k_vs d _ OKvs Hd).
    - rewrite TXT. apply (find_fixed pat_ve k_ve d _ OKve Hd).
    - apply N.ltb_ge. unfold len. fold pat_vs. lia.
    - replace (N.of_nat k_vs + len BSgen.HeaderText.pat_version_start)%N with (N.of_nat (k_vs + length pat_vs)) by (unfold len, pat_vs; lia).
      rewrite slice_in_left by lia. exact PV. }
  rewrite PVs. cbn [bind].
  (* payload size *)
  assert (PPs : parse_field BSgen.HeaderText.pat_payload_start BSgen.HeaderText.pat_payload_end U64 (fixedA ++ ds ++ fixedB) = Ok p).
  { destruct pat_pe as [|c pe'] eqn:Epe; [discriminate|].
    assert (Hc : is_digit c = false) by (destruct (is_digit c); [discriminate|reflexivity]).
    apply (parse_field_eval _ _ _ _ (N.of_nat k_ps) (N.of_nat (length fixedA + length ds))).
    - rewrite TXT. apply (find_fixed pat_ps k_ps d _ OKps Hd).
    - change BSgen.HeaderText.pat_payload_end with pat_pe. rewrite Epe.
      apply (find_after_digits (c :: pe') fixedA ds fixedB c pe' eq_refl Hc); assumption.
    - apply N.ltb_ge. unfold len. fold pat_ps. lia.
    - replace (N.of_nat k_ps + len BSgen.HeaderText.pat_payload_start)%N with (N.of_nat (length fixedA)) by (unfold len; fold pat_ps; lia).
      rewrite slice_mid. unfold parse_dec. rewrite Dds. rewrite <- Dds. rewrite PD.
      replace (p <? U64)%N with true by (symmetry; apply N.ltb_lt; exact Hp). reflexivity. }
  rewrite PPs. cbn [bind]. rewrite N.eqb_refl. cbn [negb].
  assert (DROP : drop (len text + 4) header = uhdr).
  { rewrite drop_skipn. unfold header. replace (N.to_nat (len text + 4)) with (length (le_enc 4 (len text) ++ text))
      by (rewrite app_length, le_enc_length; unfold len; lia).
    rewrite skipn_app, skipn_all, Nat.sub_diag. reflexivity. }
  replace (len header <? len text + 4)%N with false by (symmetry; apply N.ltb_ge; unfold len; lia).
  destruct popt as [q|]; [|rewrite DROP; reflexivity].
  destruct (p =? q)%N; cbn [negb]; [rewrite DROP; reflexivity|reflexivity].
Qed.

Corollary header_roundtrip p uhdr popt : (p < 2^64)%N -> (popt = None \/ popt = Some p) ->
  check_and_split (params_to_text BSgen.Consts.version p ++ uhdr) popt = Ok (p, uhdr).
Proof. intros Hp [->| ->]; rewrite header_parse by exact Hp; [reflexivity|]. rewrite N.eqb_refl. reflexivity. Qed.
