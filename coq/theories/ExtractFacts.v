(* C06 / C04 / C05: the chunked section scan of index/create.rs (extract_entries with its carry of an
   unfinished section, after the fix) is one pass of meta() over the slots of the range, and on the
   encoding of a well-formed series that pass finds exactly the sections. *)
From Coq Require Import List NArith ZArith Lia Bool Arith ZifyBool ZifyN ZifyNat Sorted.
From Coq Require Import Strings.Byte.
Require Import BS.Bytes BS.Common BS.CommonFacts BS.Api BS.Layout BS.Format BS.FormatFacts BS.Sections.
Require Import BS.FS BS.Meta BS.MetaFacts BS.Header BS.Reader BS.Index.
Require BSgen.Consts.
Import ListNotations.
Close Scope N_scope. Open Scope nat_scope.
Arguments N.add : simpl never. Arguments N.mul : simpl never. Arguments N.sub : simpl never.
Arguments N.ltb : simpl never. Arguments N.leb : simpl never. Arguments N.eqb : simpl never.

Section OnePass.
Variable p : nat.
Notation L := (p + 2).

Definition mheld_slots (st:mst) : list slot :=
  match st with MN => [] | M1 _ a => [a] | M2 _ a b got => a :: b :: got end.
Lemma mheld_length st : length (mheld_slots st) = mheld st.
Proof. destruct st; reflexivity. Qed.

(* well-formed states; idx = index of the first held slot *)
Definition wf_mst (i:nat) (st:mst) : Prop :=
  match st with
  | MN => True
  | M1 idx a => Meta.is_marker a = true /\ idx + 1 = i
  | M2 idx a b got => Meta.is_marker a = true /\ Meta.is_marker b = true /\ length got < Meta.ncont p /\ idx + 2 + length got = i
  end.
Definition rebase (k:nat) (st:mst) : mst :=
  match st with MN => MN | M1 _ a => M1 k a | M2 _ a b got => M2 k a b got end.
Definition shift (k:nat) (st:mst) : mst :=
  match st with MN => MN | M1 idx a => M1 (k + idx) a | M2 idx a b got => M2 (k + idx) a b got end.

(* the accumulator is only prepended to *)
Lemma meta_scan_acc : forall ls i st acc,
  meta_scan p i st acc ls = (rev acc ++ fst (meta_scan p i st [] ls), snd (meta_scan p i st [] ls)).
Proof.
  induction ls as [|x t IH]; intros i st acc; cbn [meta_scan].
  - rewrite frev_rev. cbn [fst snd frev rev_append]. rewrite app_nil_r. reflexivity.
  - destruct st as [|idx a|idx a b got].
    + destruct (Meta.is_marker x); apply IH.
    + destruct (Meta.is_marker x); [|apply IH]. destruct (Meta.ncont p =? 0); [|apply IH].
      rewrite IH. rewrite (IH _ _ [_]). cbn [fst snd rev app]. rewrite <- app_assoc. reflexivity.
    + destruct (length (got ++ [x]) =? Meta.ncont p); [|apply IH].
      rewrite IH. rewrite (IH _ _ [_]). cbn [fst snd rev app]. rewrite <- app_assoc. reflexivity.
Qed.

Lemma meta_scan_app : forall x y i st,
  meta_scan p i st [] (x ++ y)
  = (fst (meta_scan p i st [] x) ++ fst (meta_scan p (i + length x) (snd (meta_scan p i st [] x)) [] y),
     snd (meta_scan p (i + length x) (snd (meta_scan p i st [] x)) [] y)).
Proof.
  induction x as [|a x IH]; intros y i st; cbn [app].
  - cbn [meta_scan frev rev_append length fst snd app]. rewrite Nat.add_0_r. destruct (meta_scan p i st [] y). reflexivity.
  - cbn [meta_scan length]. replace (i + S (length x)) with (S i + length x) by lia.
    destruct st as [|idx s1|idx s1 s2 got].
    + destruct (Meta.is_marker a); apply IH.
    + destruct (Meta.is_marker a); [|apply IH]. destruct (Meta.ncont p =? 0); [|apply IH].
      rewrite (meta_scan_acc (x ++ y)), (meta_scan_acc x). rewrite IH. cbn [fst snd]. rewrite app_assoc. reflexivity.
    + destruct (length (got ++ [a]) =? Meta.ncont p); [|apply IH].
      rewrite (meta_scan_acc (x ++ y)), (meta_scan_acc x). rewrite IH. cbn [fst snd]. rewrite app_assoc. reflexivity.
Qed.

(* renumbering *)
Lemma meta_scan_shift k : forall ls i st,
  meta_scan p (k + i) (shift k st) [] ls
  = (map (fun x => (k + fst x, snd x)) (fst (meta_scan p i st [] ls)), shift k (snd (meta_scan p i st [] ls))).
Proof.
  induction ls as [|x t IH]; intros i st; cbn [meta_scan]; [reflexivity|].
  replace (S (k + i)) with (k + S i) by lia.
  destruct st as [|idx a|idx a b got]; cbn [shift].
  - destruct (Meta.is_marker x); [apply (IH (S i) (M1 i x))|apply (IH (S i) MN)].
  - destruct (Meta.is_marker x); [|apply (IH (S i) MN)]. destruct (Meta.ncont p =? 0); [|apply (IH (S i) (M2 idx a x []))].
    rewrite (meta_scan_acc t (k + S i)), (meta_scan_acc t (S i)). pose proof (IH (S i) MN) as H0. cbn [shift] in H0. rewrite H0. cbn [fst snd rev app map]. reflexivity.
  - destruct (length (got ++ [x]) =? Meta.ncont p); [|apply (IH (S i) (M2 idx a b (got ++ [x])))].
    rewrite (meta_scan_acc t (k + S i)), (meta_scan_acc t (S i)). pose proof (IH (S i) MN) as H0. cbn [shift] in H0. rewrite H0. cbn [fst snd rev app map]. reflexivity.
Qed.

(* re-scanning the held slots reproduces the state and finds nothing *)
Lemma replay_got_m : forall got2 got1 i idx a b, length (got1 ++ got2) < Meta.ncont p ->
  meta_scan p i (M2 idx a b got1) [] got2 = ([], M2 idx a b (got1 ++ got2)).
Proof.
  induction got2 as [|x t IH]; intros got1 i idx a b H; cbn [meta_scan].
  - rewrite app_nil_r. reflexivity.
  - replace (length (got1 ++ [x]) =? Meta.ncont p) with false
      by (symmetry; apply Nat.eqb_neq; rewrite !app_length in *; cbn [length] in *; lia).
    rewrite IH by (rewrite <- app_assoc; exact H). rewrite <- app_assoc. reflexivity.
Qed.
Lemma replay_m i j st : wf_mst j st -> meta_scan p i MN [] (mheld_slots st) = ([], rebase i st).
Proof.
  destruct st as [|idx a|idx a b got]; cbn [mheld_slots wf_mst rebase]; intros W.
  - reflexivity.
  - destruct W as [Ma _]. cbn [meta_scan]. rewrite Ma. reflexivity.
  - destruct W as (Ma & Mb & Lg & _). cbn [meta_scan]. rewrite Ma. cbn [meta_scan]. rewrite Mb.
    replace (Meta.ncont p =? 0) with false by (symmetry; apply Nat.eqb_neq; lia).
    rewrite (replay_got_m got [] (S (S i)) i a b) by exact Lg. reflexivity.
Qed.

(* one step keeps the invariant; the held slots are the last slots scanned *)
Lemma meta_scan_inv : forall ls i st, wf_mst i st ->
  let '(f, st') := meta_scan p i st [] ls in
  wf_mst (i + length ls) st' /\ exists pre, mheld_slots st ++ ls = pre ++ mheld_slots st'.
Proof.
  induction ls as [|x t IH]; intros i st W; cbn [meta_scan frev rev_append length].
  - rewrite Nat.add_0_r. split; [exact W|]. exists []. rewrite app_nil_r. reflexivity.
  - replace (i + S (length t)) with (S i + length t) by lia.
    assert (STEP : forall st1 pre1, wf_mst (S i) st1 -> mheld_slots st ++ [x] = pre1 ++ mheld_slots st1 ->
              let '(f, st') := meta_scan p (S i) st1 [] t in
              wf_mst (S i + length t) st' /\ exists pre, mheld_slots st ++ x :: t = pre ++ mheld_slots st').
    { intros st1 pre1 W1 P1. specialize (IH (S i) st1 W1). destruct (meta_scan p (S i) st1 [] t) as [f st'].
      destruct IH as [W' [pre2 P2]]. split; [exact W'|]. exists (pre1 ++ pre2).
      replace (mheld_slots st ++ x :: t) with ((mheld_slots st ++ [x]) ++ t) by (rewrite <- app_assoc; reflexivity).
      rewrite P1, <- !app_assoc, P2. reflexivity. }
    destruct st as [|idx a|idx a b got]; cbn [wf_mst mheld_slots] in *.
    + destruct (Meta.is_marker x) eqn:M.
      * apply (STEP (M1 i x) []); [cbn [wf_mst]; split; [exact M|lia]|reflexivity].
      * apply (STEP MN [x]); [exact I|reflexivity].
    + destruct W as [Ma Hi]. destruct (Meta.is_marker x) eqn:M.
      * destruct (Meta.ncont p =? 0) eqn:C.
        -- rewrite meta_scan_acc. specialize (STEP MN [a; x] I eq_refl). destruct (meta_scan p (S i) MN [] t) as [f st'].
           cbn [fst snd]. exact STEP.
        -- apply Nat.eqb_neq in C. apply (STEP (M2 idx a x []) []); [|reflexivity]. cbn [wf_mst length]. repeat split; try assumption; lia.
      * apply (STEP MN [a; x]); [exact I|reflexivity].
    + destruct W as (Ma & Mb & Lg & Hi). destruct (length (got ++ [x]) =? Meta.ncont p) eqn:C.
      * rewrite meta_scan_acc. specialize (STEP MN (a :: b :: got ++ [x]) I). cbn [mheld_slots app] in STEP.
        rewrite app_nil_r in STEP. specialize (STEP eq_refl). destruct (meta_scan p (S i) MN [] t) as [f st']. cbn [fst snd]. exact STEP.
      * apply Nat.eqb_neq in C. apply (STEP (M2 idx a b (got ++ [x])) []); [|reflexivity].
        cbn [wf_mst]. rewrite app_length in *. cbn [length] in *. repeat split; try assumption; lia.
Qed.

Lemma mheld_bound i st : wf_mst i st -> mheld st <= Layout.K p.
Proof.
  destruct st as [|idx a|idx a b got]; cbn [wf_mst mheld]; intros W; unfold Layout.K; rewrite <- ncont_eq; try lia.
Qed.

Definition to_entry (x:nat * N) : entry := (snd x, N.of_nat (fst x * L)).

(* the chunked loop = one pass *)
Theorem extract_loop_is_scan : forall (n:nat) (chunkn:nat) (region:list byte) (pos to_read g:nat) st acc,
  chunkn > 0 -> chunkn mod L = 0 -> to_read mod L = 0 -> pos + to_read <= length region ->
  to_read <= n * chunkn ->
  wf_mst g st -> Forall (fun s => length s = L) (mheld_slots st) ->
  extract_loop n p (N.of_nat chunkn) region (N.of_nat pos) (N.of_nat to_read) (N.of_nat (g * L))
               (concat (mheld_slots st)) acc
  = Ok (acc ++ map to_entry (fst (meta_scan p g st [] (chunks L (firstn to_read (skipn pos region)))))).
Proof.
  induction n as [|n IH]; intros chunkn region pos to_read g st acc Hc Hcm Htm Hle Hn W HL.
  - assert (to_read = 0) by lia. subst. cbn [extract_loop firstn]. rewrite chunks_nil. cbn [meta_scan frev rev_append fst map]. rewrite app_nil_r. reflexivity.
  - cbn [extract_loop].
    destruct (N.of_nat to_read =? 0)%N eqn:Z.
    { apply N.eqb_eq in Z. assert (to_read = 0) by lia. subst. cbn [firstn]. rewrite chunks_nil. cbn [meta_scan frev rev_append fst map]. rewrite app_nil_r. reflexivity. }
    apply N.eqb_neq in Z.
    set (rs := Nat.min chunkn to_read).
    assert (RS : N.min (N.of_nat chunkn) (N.of_nat to_read) = N.of_nat rs) by (unfold rs; lia).
    rewrite RS.
    replace (len region <? N.of_nat pos + N.of_nat rs)%N with false by (symmetry; apply N.ltb_ge; unfold len, rs; lia).
    pose proof (mheld_bound g st W) as HB.
    assert (LC : length (concat (mheld_slots st)) = mheld st * L).
    { rewrite (concat_length_uniform L) by exact HL. rewrite mheld_length. reflexivity. }
    assert (MS : metainfo_size p = N.of_nat (Layout.K p * L)).
    { unfold metainfo_size, line_size. rewrite <- K_eq. lia. }
    replace (N.of_nat chunkn + metainfo_size p <? len (concat (mheld_slots st)) + N.of_nat rs)%N
      with false by (symmetry; apply N.ltb_ge; rewrite MS; unfold len; rewrite LC; unfold rs; nia).
    assert (SL : slice (N.of_nat pos) (N.of_nat pos + N.of_nat rs) region = firstn rs (skipn pos region)).
    { unfold slice. rewrite take_firstn, drop_skipn. f_equal; [lia|]. f_equal. lia. }
    rewrite SL.
    assert (RSm : rs mod L = 0).
    { unfold rs. destruct (Nat.min_dec chunkn to_read) as [E|E]; rewrite E; assumption. }
    assert (Lchunk : length (firstn rs (skipn pos region)) = rs).
    { rewrite firstn_length, skipn_length. unfold rs. lia. }
    destruct (aligned_split L (rs / L) (firstn rs (skipn pos region))) as (cls & Ecl & Fcl & Ncl).
    { rewrite Lchunk. pose proof (Nat.div_mod rs L ltac:(lia)). lia. }
    assert (CH : chunks L (concat (mheld_slots st) ++ firstn rs (skipn pos region)) = mheld_slots st ++ cls).
    { rewrite chunks_app by (try lia; exact HL). rewrite Ecl, chunks_concat by (try lia; exact Fcl). reflexivity. }
    rewrite CH.
    (* the scan of this buffer *)
    rewrite meta_scan_app, (replay_m 0 g st W). rewrite mheld_length. cbn [Nat.add fst snd app].
    pose proof (meta_scan_shift (g - mheld st) cls (mheld st) (rebase 0 st)) as SH.
    assert (IDX : shift (g - mheld st) (rebase 0 st) = st).
    { destruct st as [|idx a|idx a b got]; cbn [wf_mst mheld rebase shift] in *; [reflexivity| |].
      - destruct W as [_ Hi]. f_equal. lia.
      - destruct W as (_ & _ & _ & Hi). f_equal. lia. }
    assert (GH : mheld st <= g).
    { destruct st as [|idx a|idx a b got]; cbn [wf_mst mheld] in *; lia. }
    rewrite IDX in SH. replace (g - mheld st + mheld st) with g in SH by lia.
    destruct (meta_scan p (mheld st) (rebase 0 st) [] cls) as [found st1] eqn:E1. cbn [fst snd] in SH.
    cbn [app fst snd].
    replace (N.of_nat (g * L) <? len (concat (mheld_slots st)))%N with false
      by (symmetry; apply N.ltb_ge; unfold len; rewrite LC; nia).
    (* invariant for the rest *)
    pose proof (meta_scan_inv cls g st W) as INV. rewrite SH in INV. destruct INV as [W1 [pre P1]].
    assert (ALL : Forall (fun s => length s = L) (mheld_slots st ++ cls)) by (apply Forall_app; split; assumption).
    rewrite P1 in ALL. apply Forall_app in ALL. destruct ALL as [Fpre HL1].
    assert (HS1 : mheld_slots (shift (g - mheld st) st1) = mheld_slots st1) by (destruct st1; reflexivity).
    assert (HM1 : mheld (shift (g - mheld st) st1) = mheld st1) by (destruct st1; reflexivity).
    rewrite HS1 in P1, HL1.
    set (buf := concat (mheld_slots st) ++ firstn rs (skipn pos region)).
    assert (BUF : buf = concat pre ++ concat (mheld_slots st1)).
    { transitivity (concat (pre ++ mheld_slots st1)); [|apply concat_app]. rewrite <- P1, concat_app. unfold buf. rewrite Ecl at 1. reflexivity. }
    assert (LC1 : length (concat (mheld_slots st1)) = mheld st1 * L).
    { rewrite (concat_length_uniform L) by exact HL1. rewrite mheld_length. reflexivity. }
    unfold line_size.
    replace (len buf <? N.of_nat (mheld st1) * N.of_nat L)%N with false
      by (symmetry; apply N.ltb_ge; unfold len; rewrite BUF, app_length, LC1; lia).
    assert (DROP : drop (len buf - N.of_nat (mheld st1) * N.of_nat L) buf = concat (mheld_slots st1)).
    { rewrite BUF. replace (len (concat pre ++ concat (mheld_slots st1)) - N.of_nat (mheld st1) * N.of_nat L)%N with (len (concat pre))
        by (unfold len; rewrite app_length, LC1; lia).
      apply drop_app_exact. }
    rewrite DROP.
    replace (N.of_nat pos + N.of_nat rs)%N with (N.of_nat (pos + rs)) by lia.
    replace (N.of_nat to_read - N.of_nat rs)%N with (N.of_nat (to_read - rs)) by (unfold rs; lia).
    assert (Lcls : length cls * L = rs).
    { apply (f_equal (@length byte)) in Ecl. rewrite Lchunk, (concat_length_uniform L) in Ecl by exact Fcl. lia. }
    replace (N.of_nat (g * L) + N.of_nat rs)%N with (N.of_nat ((g + length cls) * L)) by nia.
    (* the whole range = this chunk ++ the rest *)
    assert (SPLIT : firstn to_read (skipn pos region)
                    = firstn rs (skipn pos region) ++ firstn (to_read - rs) (skipn (pos + rs) region)).
    { replace to_read with (rs + (to_read - rs)) at 1 by (unfold rs; lia).
      rewrite firstn_plus. rewrite skipn_plus. reflexivity. }
    rewrite SPLIT, chunks_app_aligned by (try lia; rewrite Lchunk; exact RSm).
    assert (CC : chunks L (firstn rs (skipn pos region)) = cls) by (rewrite Ecl; apply chunks_concat; [lia|exact Fcl]).
    rewrite meta_scan_app, CC, SH. cbn [fst snd].
    (* the state handed on is the single-pass state *)
    assert (ST : wf_mst (g + length cls) (shift (g - mheld st) st1)) by exact W1.
    rewrite <- HS1. rewrite (IH chunkn region (pos + rs) (to_read - rs) (g + length cls) (shift (g - mheld st) st1)); try assumption.
    + destruct (meta_scan p (g + length cls) (shift (g - mheld st) st1) [] (chunks L (firstn (to_read - rs) (skipn (pos + rs) region)))) as [f2 st2].
      cbn [fst]. rewrite map_app, <- app_assoc. f_equal. f_equal. f_equal.
      (* entries of this buffer: base + idx * L *)
      rewrite map_map. apply map_ext_in. intros [ix ts] _. unfold to_entry. cbn [fst snd]. f_equal.
      unfold len. rewrite LC. nia.
    + unfold rs. destruct (Nat.min_dec chunkn to_read) as [E|E]; rewrite E.
      * destruct (Nat.le_gt_cases chunkn to_read) as [Hle2|Hgt]; [|lia].
        pose proof (Nat.div_mod to_read L ltac:(lia)). pose proof (Nat.div_mod chunkn L ltac:(lia)).
        assert (X : to_read - chunkn = (to_read / L - chunkn / L) * L) by nia.
        rewrite X. apply Nat.mod_mul. lia.
      * rewrite Nat.sub_diag. apply Nat.mod_0_l. lia.
    + unfold rs. lia.
    + unfold rs. nia.
    + rewrite HS1. exact HL1.
Qed.
End OnePass.

(* ---- the pass over the encoding of a well-formed series finds exactly its sections ---- *)
Section OnSections.
Variable p : nat.
Notation L := (p + 2).

Definition sslots (s:sect) : list slot :=
  Layout.sec_slots p (fst s) ++ map (fun y => enc_line (fst y - fst s) (snd y)) (snd s).
Lemma sslots_concat s : concat (sslots s) = sec_bytes p s.
Proof. unfold sslots, sec_bytes, enc_section, enc_body. rewrite concat_app. reflexivity. Qed.
Lemma sslots_lengths s : Forall (fun y => length (snd y) = p) (snd s) -> Forall (fun x => length x = L) (sslots s).
Proof.
  intros F. unfold sslots. apply Forall_app. split; [apply sec_slots_lengths|].
  rewrite Forall_map. eapply Forall_impl; [|exact F]. intros y Hy. apply enc_line_length. exact Hy.
Qed.
Lemma sslots_count s : length (sslots s) = Layout.K p + length (snd s).
Proof. unfold sslots. rewrite app_length, map_length, sec_slots_count. reflexivity. Qed.

Definition nonmarker (x:slot) : Prop := Meta.is_marker x = false.
Lemma scan_nonmarkers : forall ls i, Forall nonmarker ls -> meta_scan p i MN [] ls = ([], MN).
Proof.
  induction ls as [|x t IH]; intros i F; cbn [meta_scan]; [reflexivity|].
  inversion F as [|? ? Hx Ft]; subst. unfold nonmarker in Hx. rewrite Hx. apply IH. exact Ft.
Qed.
(* whatever the first slot is: followed by a non-marker, nothing is found *)
Lemma scan_after_any x y rest i : Forall nonmarker (y :: rest) -> meta_scan p i MN [] (x :: y :: rest) = ([], MN).
Proof.
  intros F. inversion F as [|? ? Hy Fr]; subst. unfold nonmarker in Hy. cbn [meta_scan].
  destruct (Meta.is_marker x); rewrite Hy; apply scan_nonmarkers; exact Fr.
Qed.

Lemma body_nonmarkers f ls : Forall (fun y => (fst y - f <= MAXD)%N) ls ->
  Forall nonmarker (map (fun y => enc_line (fst y - f) (snd y)) ls).
Proof.
  intros F. rewrite Forall_map. eapply Forall_impl; [|exact F]. intros y Hy. unfold nonmarker.
  rewrite is_marker_eq. change (enc_line (fst y - f) (snd y)) with (Layout.line_slot (fst y - f) (snd y)).
  apply Layout.line_slot_not_marker. exact Hy.
Qed.

Lemma ms_MN_marker x t i acc : Meta.is_marker x = true -> meta_scan p i MN acc (x :: t) = meta_scan p (S i) (M1 i x) acc t.
Proof. intros H. cbn [meta_scan]. rewrite H. reflexivity. Qed.
Lemma ms_M1_marker idx a x t i acc : Meta.is_marker x = true ->
  meta_scan p i (M1 idx a) acc (x :: t)
  = if Meta.ncont p =? 0 then meta_scan p (S i) MN ((idx, meta_read_ts p a x []) :: acc) t else meta_scan p (S i) (M2 idx a x []) acc t.
Proof. intros H. cbn [meta_scan]. rewrite H. reflexivity. Qed.

Lemma scan_header f i : (f < 2^64)%N -> meta_scan p i MN [] (Layout.sec_slots p f) = ([(i, f)], MN).
Proof.
  intros Hf. destruct (Layout.sec_slots_shape p f) as (Ma & Mb & Lg).
  pose proof (sec_slots_lengths p f) as FL. unfold Layout.sec_slots in *.
  inversion FL as [|? ? La FL1]; subst. inversion FL1 as [|? ? Lb Fg]; subst.
  pose proof (Layout.read_ts_sec p f Hf) as RT.
  set (a := Layout.sec_a p f) in *. set (b := Layout.sec_b p f) in *. set (got := Layout.sec_got p f) in *.
  clearbody a b got. rewrite <- is_marker_eq in Ma, Mb. rewrite <- ncont_eq in Lg.
  rewrite (ms_MN_marker a _ i [] Ma), (ms_M1_marker i a b _ (S i) [] Mb).
  destruct got as [|g0 gt].
  - cbn [length] in Lg. replace (Meta.ncont p =? 0) with true by (symmetry; apply Nat.eqb_eq; lia).
    cbn [meta_scan frev rev_append]. rewrite meta_read_is_read_ts by (try assumption; symmetry; exact Lg). rewrite RT. reflexivity.
  - replace (Meta.ncont p =? 0) with false by (symmetry; apply Nat.eqb_neq; cbn [length] in Lg; lia).
    (* collect the continuation slots *)
    assert (COLL : forall rest done j, length (done ++ rest) = Meta.ncont p -> rest <> [] ->
              meta_scan p j (M2 i a b done) [] rest = ([(i, meta_read_ts p a b (done ++ rest))], MN)).
    { induction rest as [|x t IH]; intros done j Hl Hne; [contradiction|]. cbn [meta_scan].
      destruct t as [|y t'].
      - replace (length (done ++ [x]) =? Meta.ncont p) with true by (symmetry; apply Nat.eqb_eq; exact Hl). reflexivity.
      - replace (length (done ++ [x]) =? Meta.ncont p) with false
          by (symmetry; apply Nat.eqb_neq; rewrite !app_length in *; cbn [length] in *; lia).
        rewrite IH; [|rewrite <- app_assoc; exact Hl|discriminate]. rewrite <- app_assoc. reflexivity. }
    rewrite (COLL (g0 :: gt) [] (S (S i))) by (try discriminate; exact Lg). cbn [app].
    rewrite meta_read_is_read_ts by (try assumption; exact Lg). rewrite RT. reflexivity.
Qed.

Lemma scan_section s i : sec_ok p s -> meta_scan p i MN [] (sslots s) = ([(i, fst s)], MN).
Proof.
  destruct s as [f ls]. intros ((pay & r & Els) & F & S). cbn [fst snd] in *. unfold sslots. cbn [fst snd].
  assert (Hf : (f < 2^64)%N).
  { subst ls. inversion F as [|? ? Hx _]; subst. cbn [fst] in Hx. lia. }
  rewrite meta_scan_app, (scan_header f i Hf). cbn [fst snd].
  rewrite scan_nonmarkers; [rewrite app_nil_r; reflexivity|].
  apply body_nonmarkers. eapply Forall_impl; [|exact F]. intros y (_ & H & _). exact H.
Qed.

(* entries with slot indices *)
Fixpoint ients (i:nat) (ss:list sect) : list (nat * N) :=
  match ss with [] => [] | s :: t => (i, fst s) :: ients (i + Layout.K p + length (snd s)) t end.
Lemma ients_ents i ss : map (to_entry p) (ients i ss) = ents p i ss.
Proof.
  revert i; induction ss as [|[f ls] t IH]; intros i; cbn [ients ents map fst snd]; [reflexivity|].
  rewrite IH. reflexivity.
Qed.

Theorem scan_sections : forall ss i, good_secs p ss ->
  meta_scan p i MN [] (concat (map sslots ss)) = (ients i ss, MN).
Proof.
  induction ss as [|s t IH]; intros i G; cbn [map concat ients]; [reflexivity|].
  cbn [good_secs] in G. destruct G as (Ok0 & _ & Gt).
  rewrite meta_scan_app, (scan_section s i Ok0). cbn [fst snd]. rewrite sslots_count.
  rewrite (IH _ Gt). cbn [fst snd app]. rewrite Nat.add_assoc. reflexivity.
Qed.

(* ---- a pass that starts in the middle of the file (the backwards search of last_meta_timestamp) ---- *)
(* no continuation slot looks like a marker line (vacuous for payloads >= 4: there are none) *)
Definition nm_sec (s:sect) : Prop := Forall nonmarker (Layout.sec_got p (fst s)).

Lemma Forall_skipn' {A} (P:A -> Prop) n (l:list A) : Forall P l -> Forall P (skipn n l).
Proof. revert l; induction n as [|n IH]; intros l H; [exact H|]. destruct l; [constructor|]. inversion H; subst. apply IH. assumption. Qed.

Lemma scan_section_tail s a j : sec_ok p s -> nm_sec s -> 0 < a ->
  meta_scan p j MN [] (skipn a (sslots s)) = ([], MN).
Proof.
  destruct s as [f ls]. intros ((pay & r & Els) & F & S) NM Ha. cbn [fst snd] in *. unfold sslots, nm_sec in *. cbn [fst snd] in *.
  assert (BN : Forall nonmarker (map (fun y => enc_line (fst y - f) (snd y)) ls)).
  { apply body_nonmarkers. eapply Forall_impl; [|exact F]. intros y (_ & H & _). exact H. }
  assert (TAIL : Forall nonmarker (Layout.sec_got p f ++ map (fun y => enc_line (fst y - f) (snd y)) ls)).
  { apply Forall_app. split; assumption. }
  unfold Layout.sec_slots. cbn [app].
  destruct a as [|[|a']]; [lia| |].
  - cbn [skipn].
    destruct (Layout.sec_got p f ++ map (fun y => enc_line (fst y - f) (snd y)) ls) as [|y rest] eqn:E.
    + exfalso. subst ls. destruct (Layout.sec_got p f); discriminate.
    + apply scan_after_any. exact TAIL.
  - cbn [skipn]. apply scan_nonmarkers. apply Forall_skipn'. exact TAIL.
Qed.

Lemma ients_lower : forall ss i, Forall (fun x => i <= fst x) (ients i ss).
Proof.
  induction ss as [|s t IH]; intros i; cbn [ients]; constructor; [cbn; lia|].
  eapply Forall_impl; [|apply IH]. intros x H. cbn beta in *. lia.
Qed.
Lemma filter_all {A} (f:A -> bool) l : Forall (fun x => f x = true) l -> filter f l = l.
Proof. induction 1 as [|x l Hx _ IH]; cbn [filter]; [reflexivity|]. rewrite Hx, IH. reflexivity. Qed.

(* scanning from slot a of the slots of good sections (absolute numbering): the sections that start at or after a *)
Theorem scan_from : forall ss i a, good_secs p ss -> Forall nm_sec ss ->
  meta_scan p (i + a) MN [] (skipn a (concat (map sslots ss))) = (filter (fun x => i + a <=? fst x) (ients i ss), MN).
Proof.
  induction ss as [|s t IH]; intros i a G NM; cbn [map concat ients].
  - rewrite skipn_nil. reflexivity.
  - cbn [good_secs] in G. destruct G as (Ok0 & Nx & Gt). inversion NM as [|? ? NM0 NMt]; subst.
    assert (Gall : good_secs p (s :: t)) by (cbn [good_secs]; auto).
    set (m := Layout.K p + length (snd s)).
    assert (Lm : length (sslots s) = m) by apply sslots_count.
    assert (Mpos : 1 <= m) by (unfold m, Layout.K; lia).
    destruct (Nat.eq_dec a 0) as [->|Ha0].
    + cbn [skipn]. rewrite Nat.add_0_r.
      change (sslots s ++ concat (map sslots t)) with (concat (map sslots (s :: t))).
      rewrite (scan_sections (s :: t) i Gall). cbn [ients]. f_equal. symmetry. apply filter_all.
      pose proof (ients_lower (s :: t) i) as LW. cbn [ients] in LW.
      eapply Forall_impl; [|exact LW]. intros x H. apply Nat.leb_le. exact H.
    + cbn [filter fst]. replace (i + a <=? i) with false by (symmetry; apply Nat.leb_gt; lia).
      destruct (Nat.lt_ge_cases a m) as [Lt|Ge].
      * rewrite skipn_app. replace (a - length (sslots s)) with 0 by lia. cbn [skipn].
        rewrite meta_scan_app, (scan_section_tail s a (i + a) Ok0 NM0 ltac:(lia)). cbn [fst snd app].
        rewrite skipn_length, Lm. replace (i + a + (m - a)) with (i + m + 0) by lia.
        pose proof (IH (i + m) 0 Gt NMt) as IH0. cbn [skipn] in IH0. rewrite IH0. cbn [fst snd].
        fold m. replace (i + Layout.K p + length (snd s)) with (i + m) by (unfold m; lia).
        f_equal. apply filter_ext_in. intros x Hx.
        pose proof (ients_lower t (i + m)) as LW. rewrite Forall_forall in LW. specialize (LW x Hx). cbn beta in LW.
        replace (i + m + 0 <=? fst x) with true by (symmetry; apply Nat.leb_le; lia).
        symmetry. apply Nat.leb_le. lia.
      * rewrite skipn_app, skipn_all2 by lia. rewrite app_nil_l, Lm.
        replace (i + a) with (i + m + (a - m)) by lia. rewrite (IH (i + m) (a - m) Gt NMt).
        replace (i + Layout.K p + length (snd s)) with (i + m) by (unfold m; lia). reflexivity.
Qed.

(* entries found after a point come from slots near or after that point *)
Lemma found_idx_lower : forall ls i st, wf_mst p i st ->
  Forall (fun x => i - mheld st <= fst x) (fst (meta_scan p i st [] ls)).
Proof.
  induction ls as [|x t IH]; intros i st W; cbn [meta_scan]; [constructor|].
  destruct st as [|idx a|idx a b got]; cbn [wf_mst mheld] in *.
  - destruct (Meta.is_marker x) eqn:M.
    + eapply Forall_impl; [|apply (IH (S i) (M1 i x)); cbn [wf_mst]; split; [exact M|lia]]. intros y H. cbn [mheld] in H. cbn beta in *. lia.
    + eapply Forall_impl; [|apply (IH (S i) MN I)]. intros y H. cbn [mheld] in H. cbn beta in *. lia.
  - destruct W as [Ma Hi]. destruct (Meta.is_marker x) eqn:M.
    + destruct (Meta.ncont p =? 0) eqn:C.
      * rewrite meta_scan_acc. cbn [fst rev app]. constructor; [cbn [fst]; lia|].
        eapply Forall_impl; [|apply (IH (S i) MN I)]. intros y H. cbn [mheld] in H. cbn beta in *. lia.
      * apply Nat.eqb_neq in C. eapply Forall_impl; [|apply (IH (S i) (M2 idx a x []))].
        -- intros y H. cbn [mheld length] in H. cbn beta in *. lia.
        -- cbn [wf_mst length]. repeat split; try assumption; lia.
    + eapply Forall_impl; [|apply (IH (S i) MN I)]. intros y H. cbn [mheld] in H. cbn beta in *. lia.
  - destruct W as (Ma & Mb & Lg & Hi). destruct (length (got ++ [x]) =? Meta.ncont p) eqn:C.
    + rewrite meta_scan_acc. cbn [fst rev app]. constructor; [cbn [fst]; lia|].
      eapply Forall_impl; [|apply (IH (S i) MN I)]. intros y H. cbn [mheld] in H. cbn beta in *. lia.
    + apply Nat.eqb_neq in C. eapply Forall_impl; [|apply (IH (S i) (M2 idx a b (got ++ [x])))].
      * intros y H. cbn [mheld] in H. rewrite app_length in H. cbn [length] in H. cbn beta in *. lia.
      * cbn [wf_mst]. rewrite app_length in *. cbn [length] in *. repeat split; try assumption; lia.
Qed.

(* the slots of an encoding *)
Lemma encode_slots l : wf_series p l ->
  encode p l = concat (concat (map sslots (secs_of l)))
  /\ Forall (fun x => length x = L) (concat (map sslots (secs_of l))).
Proof.
  intros W. rewrite (encode_sections p l). pose proof (secs_good p l W) as G.
  induction (secs_of l) as [|s t IH]; cbn [map concat]; [split; [reflexivity|constructor]|].
  cbn [good_secs] in G. destruct G as (Ok0 & _ & Gt). destruct (IH Gt) as [E F]. split.
  - rewrite concat_app, sslots_concat, E. reflexivity.
  - apply Forall_app. split; [|exact F]. apply sslots_lengths.
    destruct s as [f ls]. destruct Ok0 as (_ & F0 & _). cbn [snd]. eapply Forall_impl; [|exact F0]. intros y (_ & _ & H & _). exact H.
Qed.

(* index rebuild: extract_entries over the whole data region = the sections (C06, C05) *)
Theorem extract_entries_encode l : wf_series p l ->
  extract_entries_inner p (encode p l) 0 (len (encode p l)) = Ok (sections p (encode p l)).
Proof.
  intros W. destruct (encode_slots l W) as [ES FS].
  set (slots := concat (map sslots (secs_of l))) in *.
  assert (LR : length (encode p l) = length slots * L).
  { rewrite ES. apply (concat_length_uniform L). exact FS. }
  unfold extract_entries_inner.
  replace (len (encode p l) <? 0)%N with false by (symmetry; apply N.ltb_ge; lia).
  rewrite N.sub_0_r.
  set (chunkN := next_multiple_of BSgen.Consts.scan_chunk (line_size p)).
  destruct (next_multiple_of_spec' BSgen.Consts.scan_chunk (line_size p) ltac:(unfold line_size; lia)) as (CM & CGE & _).
  fold chunkN in CM, CGE.
  assert (CPOS : (0 < chunkN)%N) by (assert (0 < BSgen.Consts.scan_chunk)%N by reflexivity; lia).
  pose proof (extract_loop_is_scan p
               (S (N.to_nat (N.min (len (encode p l) / chunkN) (len (encode p l) / chunkN + 1)))) (N.to_nat chunkN)
               (encode p l) 0 (length (encode p l)) 0 MN []) as CL.
  cbn [mheld_slots concat Nat.mul] in CL. rewrite N2Nat.id in CL. change (N.of_nat 0) with 0%N in CL.
  unfold len at 3. rewrite CL; clear CL.
  - cbn [skipn app]. rewrite firstn_all. rewrite ES at 1. rewrite chunks_concat by (try lia; exact FS).
    unfold slots. rewrite (scan_sections _ 0 (secs_good p l W)). cbn [fst].
    rewrite ients_ents. rewrite (sections_encode p l W). rewrite secs_from_sections. reflexivity.
  - lia.
  - unfold line_size in CM. replace L with (N.to_nat (N.of_nat L)) by lia. rewrite <- N2Nat.inj_mod by lia. rewrite CM. reflexivity.
  - rewrite LR. apply Nat.mod_mul. lia.
  - lia.
  - rewrite N.min_l by lia.
    pose proof (N.div_mod (len (encode p l)) chunkN ltac:(lia)). pose proof (N.mod_lt (len (encode p l)) chunkN ltac:(lia)).
    assert (N.of_nat (length (encode p l)) <= N.of_nat (S (N.to_nat (len (encode p l) / chunkN)) * N.to_nat chunkN))%N; [|lia].
    rewrite Nat2N.inj_mul, Nat2N.inj_succ, !N2Nat.id. unfold len in *. nia.
  - exact I.
  - constructor.
Qed.
End OnSections.

(* ---- one window of the backwards search ---- *)
Section Window.
Variable p : nat.
Notation L := (p + 2).

Lemma mheld_lt i st : wf_mst p i st -> mheld st < Layout.K p.
Proof.
  destruct st as [|idx a|idx a b got]; cbn [wf_mst mheld]; intros W; unfold Layout.K; rewrite <- ncont_eq; lia.
Qed.

(* the sections whose start lies in the window and whose header ends inside it are all found, and nothing else *)
Lemma window_found ss a b : good_secs p ss -> Forall (nm_sec p) ss ->
  a <= b -> b <= length (concat (map (sslots p) ss)) ->
  Forall (fun x => fst x + Layout.K p <= b) (filter (fun x => a <=? fst x) (ients p 0 ss)) ->
  fst (meta_scan p a MN [] (firstn (b - a) (skipn a (concat (map (sslots p) ss)))))
  = filter (fun x => a <=? fst x) (ients p 0 ss).
Proof.
  intros G NM Hab Hb HK.
  set (S := concat (map (sslots p) ss)) in *.
  pose proof (scan_from p ss 0 a G NM) as SF. cbn [Nat.add] in SF. fold S in SF.
  rewrite <- (firstn_skipn (b - a) (skipn a S)) in SF. rewrite meta_scan_app in SF.
  set (Wd := firstn (b - a) (skipn a S)) in *.
  assert (LW : length Wd = b - a) by (unfold Wd; rewrite firstn_length, skipn_length; lia).
  destruct (meta_scan p a MN [] Wd) as [f1 st1] eqn:E1. cbn [fst snd] in SF.
  pose proof (meta_scan_inv p Wd a MN I) as INV. rewrite E1 in INV. destruct INV as [W1 _].
  pose proof (found_idx_lower p (skipn (b - a) (skipn a S)) (a + length Wd) st1 W1) as LOW.
  destruct (meta_scan p (a + length Wd) st1 [] (skipn (b - a) (skipn a S))) as [f2 st2]. cbn [fst snd] in *.
  inversion SF as [[EF ES]]. cbn [fst].
  destruct f2 as [|y f2']; [rewrite app_nil_r; reflexivity|].
  exfalso. inversion LOW as [|? ? Hy _]; subst.
  assert (INy : In y (filter (fun x => a <=? fst x) (ients p 0 ss))) by (rewrite <- EF; apply in_or_app; right; left; reflexivity).
  rewrite Forall_forall in HK. specialize (HK y INy). pose proof (mheld_lt a st1) as ML.
  pose proof (mheld_lt (a + length Wd) st1 W1). lia.
Qed.
End Window.
