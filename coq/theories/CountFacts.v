(* C14, the upper bound: the count n_lines_between reports exceeds the number of lines a full read of the range returns by at
   most K slots for every full-timestamp section "at or inside the range" as Layer S counts them (SpecStep.sections_touched:
   the section governing the first selected line and every later section up to the last selected line).

   The count is len sel + K * (sections the selected lines open when encoded after the full timestamp pf the seek settled
   on). Whatever pf is, a greedy sectioning started from pf opens at most one section more than the real one between any two
   real openings (greedy_interleave), so the bound needs nothing about pf but pf <= first selected timestamp. *)
From Coq Require Import List NArith ZArith Lia Bool Arith ZifyBool ZifyN ZifyNat Sorted.
From Coq Require Import Strings.Byte.
Require Import BS.Bytes BS.Common BS.CommonFacts BS.Api BS.Layout BS.Format BS.FormatFacts BS.Spec BS.SpecStep BS.Sections.
Require Import BS.FS BS.FSFacts BS.Meta BS.MetaFacts BS.Header BS.Reader BS.Index BS.Data BS.DataFacts BS.Seek BS.Series.
Require Import BS.SampleFacts BS.SeriesFacts BS.ReadAllFacts BS.TornFacts.
Import ListNotations.
Close Scope N_scope. Open Scope nat_scope.

Section Count.
Variable p : nat.

Definition cnt (full:option N) (m:list line) : nat := length (secs_from p full 0 m).

Lemma cnt_shift : forall m full i j, length (secs_from p full i m) = length (secs_from p full j m).
Proof.
  induction m as [|x t IH]; intros full i j; cbn [secs_from]; [reflexivity|].
  destruct full as [f|]; [destruct (fst x - f <=? MAXD)%N|]; cbn [length]; auto.
Qed.

Definition opens (full:option N) (x:line) : bool :=
  match full with Some f => negb (fst x - f <=? MAXD)%N | None => true end.

Lemma cnt_cons full x t :
  cnt full (x :: t) = if opens full x then S (cnt (Some (fst x)) t) else cnt full t.
Proof.
  unfold cnt, opens. cbn [secs_from]. destruct full as [f|]; [destruct (fst x - f <=? MAXD)%N|]; cbn [negb length].
  - apply cnt_shift.
  - f_equal. apply cnt_shift.
  - f_equal. apply cnt_shift.
Qed.

(* two greedy sectionings of the same increasing lines, started from different full timestamps *)
Lemma greedy_interleave : forall m, StronglySorted N.lt (map fst m) ->
  forall f, Forall (fun y => (f <= fst y)%N) m ->
  (forall g, (match g with Some g' => (g' <= f)%N | None => True end) -> cnt (Some f) m <= cnt g m)
  /\ (forall g', (f <= g')%N -> Forall (fun y => (g' <= fst y)%N) m -> cnt (Some f) m <= cnt (Some g') m + 1).
Proof.
  induction m as [|x t IH]; intros SS f LB.
  { split; intros; unfold cnt; cbn [secs_from length]; lia. }
  cbn [map] in SS. inversion SS as [|? ? St Hall]; subst. inversion LB as [|? ? Hfx LBt]; subst.
  assert (LBx : Forall (fun y => (fst x <= fst y)%N) t).
  { rewrite Forall_map in Hall. eapply Forall_impl; [|exact Hall]. intros y H. cbn beta in H. lia. }
  destruct (IH St f LBt) as [Pf Qf]. destruct (IH St (fst x) LBx) as [Px Qx].
  split.
  - intros g Hg. rewrite !cnt_cons. unfold opens at 1.
    destruct (fst x - f <=? MAXD)%N eqn:Tf; cbn [negb].
    + destruct g as [g'|]; cbn [opens].
      * destruct (fst x - g' <=? MAXD)%N eqn:Tg; cbn [negb].
        -- apply Pf. exact Hg.
        -- pose proof (Qf (fst x) Hfx LBx). lia.
      * pose proof (Qf (fst x) Hfx LBx). lia.
    + destruct g as [g'|]; cbn [opens].
      * replace (fst x - g' <=? MAXD)%N with false by (symmetry; apply N.leb_gt; apply N.leb_gt in Tf; lia). cbn [negb]. lia.
      * lia.
  - intros g' Hfg LBg. inversion LBg as [|? ? Hgx LBgt]; subst. rewrite !cnt_cons. unfold opens.
    destruct (fst x - g' <=? MAXD)%N eqn:Tg; cbn [negb].
    + destruct (fst x - f <=? MAXD)%N eqn:Tf; cbn [negb].
      * apply Qf; assumption.
      * pose proof (Px (Some g') Hgx). lia.
    + replace (fst x - f <=? MAXD)%N with false by (symmetry; apply N.leb_gt; apply N.leb_gt in Tg; lia). cbn [negb]. lia.
Qed.

(* the sections the selected lines open after ANY full timestamp pf <= first line, against the real sectioning (after g) *)
Theorem cnt_bound x t pf g : StronglySorted N.lt (map fst (x :: t)) -> (pf <= fst x)%N ->
  (match g with Some g' => (g' <= fst x)%N | None => True end) ->
  cnt (Some pf) (x :: t) <= cnt g (x :: t) + (if opens g x then 0 else 1).
Proof.
  intros SS Hpf Hg.
  assert (LBx : Forall (fun y => (fst x <= fst y)%N) (x :: t)).
  { cbn [map] in SS. inversion SS as [|? ? St Hall]; subst. constructor; [lia|].
    rewrite Forall_map in Hall. eapply Forall_impl; [|exact Hall]. intros y H. cbn beta in H. lia. }
  assert (LBp : Forall (fun y => (pf <= fst y)%N) (x :: t)).
  { eapply Forall_impl; [|exact LBx]. intros y H. cbn beta in H. lia. }
  destruct (opens g x) eqn:OG.
  - (* the first selected line opens a section of its own *)
    rewrite (cnt_cons g), OG, (cnt_cons (Some pf)).
    assert (SSt : StronglySorted N.lt (map fst t)) by (cbn [map] in SS; inversion SS; assumption).
    destruct (opens (Some pf) x); [lia|].
    destruct (greedy_interleave t SSt pf (Forall_inv_tail LBp)) as [_ Q].
    pose proof (Q (fst x) Hpf (Forall_inv_tail LBx)). lia.
  - destruct g as [g'|]; [|discriminate].
    destruct (greedy_interleave (x :: t) SS pf LBp) as [P Q].
    destruct (N.le_ge_cases g' pf) as [H|H].
    + pose proof (P (Some g') H). lia.
    + assert (LBg : Forall (fun y => (g' <= fst y)%N) (x :: t)).
      { eapply Forall_impl; [|exact LBx]. intros y Hy. cbn beta in Hy. lia. }
      pose proof (Q g' H LBg). lia.
Qed.

(* ---- the entries of secs_from ---- *)
Lemma entries_are_lines : forall m full i e, In e (secs_from p full i m) -> exists y, In y m /\ fst e = fst y.
Proof.
  induction m as [|x t IH]; intros full i e H; cbn [secs_from] in H; [contradiction|].
  destruct full as [f|]; [destruct (fst x - f <=? MAXD)%N|].
  - destruct (IH _ _ _ H) as (y & Hy & E). exists y. split; [right; exact Hy|exact E].
  - destruct H as [<-|H]; [exists x; split; [left; reflexivity|reflexivity]|].
    destruct (IH _ _ _ H) as (y & Hy & E). exists y. split; [right; exact Hy|exact E].
  - destruct H as [<-|H]; [exists x; split; [left; reflexivity|reflexivity]|].
    destruct (IH _ _ _ H) as (y & Hy & E). exists y. split; [right; exact Hy|exact E].
Qed.

(* the full timestamp in force after a list of lines is the starting one or the timestamp of an entry *)
Lemma full_after_entry : forall m full i, full_after p full m = full \/
  exists e, In e (secs_from p full i m) /\ full_after p full m = Some (fst e).
Proof.
  induction m as [|x t IH]; intros full i; cbn [full_after secs_from]; [left; reflexivity|].
  unfold tail_bytes. destruct full as [f|]; [destruct (fst x - f <=? MAXD)%N|]; cbn [snd].
  - destruct (IH (Some f) (S i)) as [H|(e & H1 & H2)]; [left; exact H|right; exists e; split; assumption].
  - right. destruct (IH (Some (fst x)) (i + Layout.K p + 1)) as [H|(e & H1 & H2)].
    + eexists. split; [left; reflexivity|]. rewrite H. reflexivity.
    + exists e. split; [right; exact H1|exact H2].
  - right. destruct (IH (Some (fst x)) (i + Layout.K p + 1)) as [H|(e & H1 & H2)].
    + eexists. split; [left; reflexivity|]. rewrite H. reflexivity.
    + exists e. split; [right; exact H1|exact H2].
Qed.

(* every entry is at most the full timestamp in force at the end *)
Lemma full_after_mono : forall m f fa, StronglySorted N.lt (map fst m) -> Forall (fun y => (f <= fst y)%N) m ->
  full_after p (Some f) m = Some fa -> (f <= fa)%N.
Proof.
  intros m f fa SS LB FA. destruct (full_after_entry m (Some f) 0) as [H|(e & H1 & H2)].
  - rewrite H in FA. inversion FA. lia.
  - rewrite H2 in FA. inversion FA; subst. destruct (entries_are_lines _ _ _ _ H1) as (y & Hy & E).
    rewrite Forall_forall in LB. specialize (LB _ Hy). lia.
Qed.

Lemma entries_le_full_after : forall m full i fa, StronglySorted N.lt (map fst m) ->
  (match full with Some f => Forall (fun y => (f <= fst y)%N) m | None => True end) ->
  full_after p full m = Some fa -> Forall (fun e => (fst e <= fa)%N) (secs_from p full i m).
Proof.
  induction m as [|x t IH]; intros full i fa SS LB FA; cbn [secs_from]; [constructor|].
  cbn [map] in SS. inversion SS as [|? ? St Hall]; subst.
  assert (LBx : Forall (fun y => (fst x <= fst y)%N) t).
  { rewrite Forall_map in Hall. eapply Forall_impl; [|exact Hall]. intros y H. cbn beta in H. lia. }
  cbn [full_after] in FA. unfold tail_bytes in FA.
  destruct full as [f|]; [destruct (fst x - f <=? MAXD)%N|]; cbn [snd] in FA.
  - apply (IH (Some f) _ fa St); [exact (Forall_inv_tail LB)|exact FA].
  - constructor; [cbn [fst]; exact (full_after_mono t (fst x) fa St LBx FA)|].
    apply (IH (Some (fst x)) _ fa St LBx FA).
  - constructor; [cbn [fst]; exact (full_after_mono t (fst x) fa St LBx FA)|].
    apply (IH (Some (fst x)) _ fa St LBx FA).
Qed.

(* ---- a selected range is a contiguous part of the series ---- *)
Lemma sat_lo_up lo a b : (a <= b)%N -> sat_lo lo a = true -> sat_lo lo b = true.
Proof. destruct lo as [t|t|]; cbn [sat_lo]; intros H1 H2; [apply N.leb_le in H2; apply N.leb_le; lia|apply N.ltb_lt in H2; apply N.ltb_lt; lia|reflexivity]. Qed.
Lemma sat_hi_down hi a b : (a <= b)%N -> sat_hi hi b = true -> sat_hi hi a = true.
Proof. destruct hi as [t|t|]; cbn [sat_hi]; intros H1 H2; [apply N.leb_le in H2; apply N.leb_le; lia|apply N.ltb_lt in H2; apply N.ltb_lt; lia|reflexivity]. Qed.

Lemma select_tail lo hi : forall (m:list line), StronglySorted N.lt (map fst m) ->
  Forall (fun y => sat_lo lo (fst y) = true) m -> exists post, m = select lo hi m ++ post.
Proof.
  induction m as [|x t IH]; intros SS UP; [exists []; reflexivity|].
  cbn [map] in SS. inversion SS as [|? ? St Hall]; subst. inversion UP as [|? ? Ux Ut]; subst.
  unfold select. cbn [filter]. rewrite Ux. cbn [andb].
  destruct (sat_hi hi (fst x)) eqn:D.
  - destruct (IH St Ut) as (post & E). exists post. cbn [app]. f_equal. exact E.
  - exists (x :: t). replace (filter _ t) with (@nil line); [reflexivity|].
    symmetry. apply filter_none. rewrite Forall_map in Hall. rewrite Forall_forall in Hall |- *. intros y Hy.
    specialize (Hall y Hy). cbn beta in Hall.
    destruct (sat_hi hi (fst y)) eqn:Dy; [|apply andb_false_r].
    rewrite (sat_hi_down hi (fst x) (fst y) ltac:(lia) Dy) in D. discriminate.
Qed.

Lemma select_contiguous lo hi : forall (l:list line), StronglySorted N.lt (map fst l) ->
  exists pre post, l = pre ++ select lo hi l ++ post.
Proof.
  induction l as [|x t IH]; intros SS; [exists [], []; reflexivity|].
  destruct (sat_lo lo (fst x)) eqn:U.
  - exists []. cbn [app]. apply select_tail; [exact SS|].
    cbn [map] in SS. inversion SS as [|? ? St Hall]; subst. constructor; [exact U|].
    rewrite Forall_map in Hall. eapply Forall_impl; [|exact Hall]. intros y H. cbn beta in H.
    apply (sat_lo_up lo (fst x)); [lia|exact U].
  - cbn [map] in SS. inversion SS as [|? ? St Hall]; subst. destruct (IH St) as (pre & post & E).
    exists (x :: pre), post. unfold select at 1. cbn [filter]. rewrite U. cbn [andb app]. f_equal. exact E.
Qed.

(* ---- Layer S's count of the sections at or inside the range ---- *)
Lemma gov_spec (a:N) : forall (secs:list N) acc,
  let r := fold_left (fun acc t => if (t <=? a)%N then t else acc) secs acc in
  r = acc \/ (In r secs /\ (r <= a)%N).
Proof.
  induction secs as [|t u IH]; intros acc; cbn [fold_left]; [left; reflexivity|].
  destruct (t <=? a)%N eqn:C.
  - destruct (IH t) as [H|[H1 H2]]; [right; split; [left; symmetry; exact H|rewrite H; apply N.leb_le; exact C]|right; split; [right; exact H1|exact H2]].
  - destruct (IH acc) as [H|[H1 H2]]; [left; exact H|right; split; [right; exact H1|exact H2]].
Qed.

Lemma filter_all_len {A} (f:A -> bool) (l:list A) : Forall (fun x => f x = true) l -> length (filter f l) = length l.
Proof. induction l as [|x t IH]; intros F; [reflexivity|]. inversion F as [|? ? Hx Ft]; subst. cbn [filter]. rewrite Hx. cbn [length]. f_equal. apply IH. exact Ft. Qed.
Lemma filter_in_len {A} (f:A -> bool) (l:list A) x : In x l -> f x = true -> length (filter f l) >= 1.
Proof.
  induction l as [|y t IH]; intros IN Hx; [contradiction|]. cbn [filter]. destruct IN as [->|IN].
  - rewrite Hx. cbn [length]. lia.
  - destruct (f y); cbn [length]; [lia|apply IH; assumption].
Qed.

Theorem touched_ge (l pre post:list line) x t : wf_series p l -> l = pre ++ (x :: t) ++ post ->
  let g := full_after p None pre in
  cnt g (x :: t) + (if opens g x then 0 else 1) <= N.to_nat (sections_touched p (encode p l) (x :: t))
  /\ (match g with Some g' => (g' <= fst x)%N | None => True end).
Proof.
  intros W El g. set (sel := x :: t) in *.
  pose proof (proj1 W) as SS. rewrite El, !map_app in SS.
  destruct (sorted_app_inv _ _ SS) as (Spre & Srest & Cross1). destruct (sorted_app_inv _ _ Srest) as (Ssel & Spost & Cross2).
  (* the three runs of index entries *)
  unfold sections_touched. rewrite (sections_encode p l W). rewrite El.
  rewrite (secs_from_app p pre (sel ++ post) None 0). fold g.
  rewrite (secs_from_app p sel post g).
  set (S1 := secs_from p None 0 pre). set (S2 := secs_from p g (0 + slots_from p None pre) sel).
  set (S3 := secs_from p (full_after p g sel) (0 + slots_from p None pre + slots_from p g sel) post).
  change (first_last sel) with (Some (fst x, fst (last sel x))). cbv beta iota zeta.
  set (a := fst x). set (b := fst (last sel x)).
  set (secs := map fst (S1 ++ S2 ++ S3)).
  set (gov := fold_left (fun acc t0 => if (t0 <=? a)%N then t0 else acc) secs 0%N).
  (* selected lines lie in [a, b] *)
  assert (INAB : forall y, In y sel -> (a <= fst y)%N /\ (fst y <= b)%N).
  { intros y Hy. split.
    - unfold sel in Hy. destruct Hy as [<-|Hy]; [unfold a; lia|]. cbn [map] in Ssel. inversion Ssel as [|? ? _ Hall]; subst.
      rewrite Forall_map, Forall_forall in Hall. specialize (Hall y Hy). cbn beta in Hall. unfold a. lia.
    - pose proof (sorted_le_last sel (last sel x) Ssel) as LE. rewrite Forall_forall in LE. apply LE; [|exact Hy].
      unfold sel. cbn [last_opt]. rewrite Layout.last_cons. reflexivity. }
  assert (PRE_LT : forall y, In y pre -> (fst y < a)%N).
  { intros y Hy. rewrite Forall_forall in Cross1. specialize (Cross1 (fst y) (in_map fst _ _ Hy)).
    rewrite Forall_forall in Cross1. apply Cross1. apply in_or_app. left. unfold sel. left. reflexivity. }
  assert (POST_GT : forall y, In y post -> (b < fst y)%N).
  { intros y Hy. rewrite Forall_forall in Cross2. assert (INL : In (last sel x) sel) by (unfold sel; apply last_in_cons).
    specialize (Cross2 (fst (last sel x)) (in_map fst _ _ INL)). rewrite Forall_forall in Cross2. apply Cross2. apply in_map. exact Hy. }
  (* g is a timestamp of pre *)
  assert (GLT : match g with Some g' => (g' < a)%N /\ In g' (map fst S1) /\ Forall (fun e => (fst e <= g')%N) S1 | None => True end).
  { unfold g. destruct (full_after p None pre) as [g'|] eqn:FA; [|exact I].
    destruct (full_after_entry pre None 0) as [H|(e & H1 & H2)]; [rewrite FA in H; discriminate|].
    rewrite FA in H2. inversion H2; subst. destruct (entries_are_lines _ _ _ _ H1) as (y & Hy & E).
    split; [rewrite E; apply PRE_LT; exact Hy|]. split; [apply in_map; exact H1|].
    apply (entries_le_full_after pre None 0 (fst e) Spre I FA). }
  split; [|destruct g as [g'|]; [lia|exact I]].
  (* the governing timestamp *)
  assert (GOVA : (gov <= a)%N).
  { destruct (gov_spec a secs 0%N) as [H|[_ H]]; fold gov in H |- *; [rewrite H; lia|exact H]. }
  assert (S2OK : Forall (fun t0 => ((gov <=? t0)%N && (t0 <=? b)%N) = true) (map fst S2)).
  { rewrite Forall_map, Forall_forall. intros e He. destruct (entries_are_lines _ _ _ _ He) as (y & Hy & E).
    destruct (INAB y Hy) as [H1 H2]. rewrite E. apply andb_true_iff. split; apply N.leb_le; lia. }
  assert (LEN : N.to_nat (len (filter (fun t0 => (gov <=? t0)%N && (t0 <=? b)%N) secs))
                = length (filter (fun t0 => (gov <=? t0)%N && (t0 <=? b)%N) (map fst S1)) + length S2
                  + length (filter (fun t0 => (gov <=? t0)%N && (t0 <=? b)%N) (map fst S3))).
  { unfold len. rewrite Nat2N.id. unfold secs. rewrite !map_app, !filter_app, !app_length.
    rewrite (filter_all_len _ _ S2OK), map_length. lia. }
  rewrite LEN. unfold cnt. rewrite (cnt_shift sel g 0 (0 + slots_from p None pre)). fold S2.
  destruct (opens g x) eqn:OG; [lia|].
  (* the first selected line continues the section of g: that section is counted as well *)
  destruct g as [g'|] eqn:EG; [|discriminate]. destruct GLT as (G1 & G2 & G3).
  assert (GOVG : (gov <= g')%N).
  { destruct (gov_spec a secs 0%N) as [H|[H1 H2]]; [fold gov in H; rewrite H; lia|]. fold gov in H1, H2.
    unfold secs in H1. rewrite !map_app in H1. apply in_app_or in H1. destruct H1 as [H1|H1].
    - apply in_map_iff in H1. destruct H1 as (e & E & He). rewrite Forall_forall in G3. specialize (G3 e He). lia.
    - exfalso. apply in_app_or in H1. destruct H1 as [H1|H1]; apply in_map_iff in H1; destruct H1 as (e & E & He).
      + (* an entry of the selected lines: a line after the first one *)
        unfold S2, sel in He. cbn [secs_from] in He. unfold opens in OG. apply negb_false_iff in OG. rewrite OG in He.
        destruct (entries_are_lines _ _ _ _ He) as (y & Hy & E2).
        cbn [map] in Ssel. inversion Ssel as [|? ? _ Hall]; subst. rewrite Forall_map, Forall_forall in Hall.
        specialize (Hall y Hy). cbn beta in Hall. fold a in Hall. lia.
      + destruct (entries_are_lines _ _ _ _ He) as (y & Hy & E2). specialize (POST_GT y Hy).
        assert (a <= b)%N by (apply (INAB x); unfold sel; left; reflexivity). lia. }
  assert (ONE : length (filter (fun t0 => (gov <=? t0)%N && (t0 <=? b)%N) (map fst S1)) >= 1).
  { apply (filter_in_len _ _ g' G2). apply andb_true_iff. split; apply N.leb_le; [exact GOVG|].
    assert (a <= b)%N by (apply (INAB x); unfold sel; left; reflexivity). lia. }
  lia.
Qed.
End Count.

(* C14: the reported count against Layer S's bound *)
Theorem n_lines_within_bound fs sr p hdr ihdr l : RepH fs sr p hdr ihdr l -> forall lo hi k,
  n_lines_between sr lo hi fs = (fs, Ok k) -> select lo hi l <> [] ->
  (len (select lo hi l) <= k)%N
  /\ (k <= len (select lo hi l) + N.of_nat (Layout.K p) * sections_touched p (encode p l) (select lo hi l))%N.
Proof.
  intros R lo hi k E NE. pose proof (rh_wf _ _ _ _ _ _ R) as W.
  destruct (n_lines_ok_full fs sr p hdr ihdr l R lo hi) as [(k' & E' & H)|[[SE _]|(SE & _)]]; try contradiction.
  rewrite E in E'. inversion E'; subst k'.
  destruct (select_contiguous lo hi l (proj1 W)) as (pre & post & El).
  destruct (select lo hi l) as [|x t] eqn:ES; [contradiction|].
  destruct H as (pf & OKF & LE & EK). split; [exact LE|].
  destruct (touched_ge p l pre post x t W El) as [TG GL].
  assert (SSsel : StronglySorted N.lt (map fst (x :: t))).
  { rewrite <- ES. exact (proj1 (select_wf fs sr p hdr ihdr l R lo hi)). }
  assert (Hpf : (pf <= fst x)%N) by (cbn [ok_from] in OKF; apply OKF).
  pose proof (cnt_bound p x t pf (full_after p None pre) SSsel Hpf GL) as CB. unfold cnt in CB at 1.
  rewrite EK. nia.
Qed.
