From Coq Require Import List NArith Lia Bool Arith.
Import ListNotations.

Section Scan.
Variables slot line : Type.
Variable is_marker : slot -> bool.
Variable c : nat.                       (* continuation slots of a section: K - 2 *)
Variable read_ts : slot -> slot -> list slot -> N.
Variable mk : N -> slot -> line.

(* ---------- streaming automaton: the reference decoder ---------- *)
Inductive st :=
| Normal (full:N)
| One (full:N) (a:slot)
| Sec (full:N) (a b:slot) (got:list slot)
| Bad.

Definition step (s:st) (x:slot) : st * list line :=
  match s with
  | Normal full => if is_marker x then (One full x, []) else (Normal full, [mk full x])
  | One full a =>
      if is_marker x
      then (if Nat.eqb c 0 then (Normal (read_ts a x []), []) else (Sec full a x [], []))
      else (Bad, [])
  | Sec full a b got =>
      let got' := got ++ [x] in
      if Nat.eqb (length got') c then (Normal (read_ts a b got'), []) else (Sec full a b got', [])
  | Bad => (Bad, [])
  end.

Fixpoint run (s:st) (ls:list slot) : st * list line :=
  match ls with
  | [] => (s, [])
  | x :: t => let '(s1, o1) := step s x in let '(s2, o2) := run s1 t in (s2, o1 ++ o2)
  end.

Lemma run_app s x y :
  run s (x ++ y) = let '(s1,o1) := run s x in let '(s2,o2) := run s1 y in (s2, o1 ++ o2).
Proof.
  revert s; induction x as [|a x IH]; intros s; cbn [run app].
  - destruct (run s y); reflexivity.
  - destruct (step s a) as [s1 o1]. rewrite IH.
    destruct (run s1 x) as [s2 o2]. destruct (run s2 y) as [s3 o3].
    rewrite app_assoc. reflexivity.
Qed.

Definition carry (s:st) : list slot :=
  match s with Normal _ => [] | One _ a => [a] | Sec _ a b got => a :: b :: got | Bad => [] end.
Definition full_of (s:st) : N :=
  match s with Normal f | One f _ | Sec f _ _ _ => f | Bad => 0%N end.
(* well-formed intermediate states: got shorter than c, markers are markers *)
Definition wf (s:st) : Prop :=
  match s with
  | Normal _ => True
  | One _ a => is_marker a = true
  | Sec _ a b got => is_marker a = true /\ is_marker b = true /\ length got < c
  | Bad => False
  end.

Lemma step_wf s x s' o : wf s -> step s x = (s', o) -> s' <> Bad -> wf s'.
Proof.
  destruct s as [f|f a|f a b got|]; cbn [step wf]; intros W E NB.
  - destruct (is_marker x) eqn:M; inversion E; subst; cbn; auto.
  - destruct (is_marker x) eqn:M; [|inversion E; subst; congruence].
    destruct (Nat.eqb c 0) eqn:C0; inversion E; subst; cbn; auto.
    apply Nat.eqb_neq in C0. repeat split; auto. lia.
  - destruct W as (Ma & Mb & Lg). rewrite app_length in E. cbn [length] in E.
    destruct (Nat.eqb (length got + 1) c) eqn:C0; inversion E; subst; cbn; auto.
    apply Nat.eqb_neq in C0. rewrite app_length; cbn [length]. repeat split; auto. lia.
  - contradiction.
Qed.

(* re-scanning the carried slots from Normal reproduces the state, silently *)
Lemma sec_replay f a b : forall got2 got1,
  is_marker a = true -> is_marker b = true -> length (got1 ++ got2) < c ->
  run (Sec f a b got1) got2 = (Sec f a b (got1 ++ got2), []).
Proof.
  induction got2 as [|x t IH]; intros got1 Ma Mb L; cbn [run].
  - rewrite app_nil_r. reflexivity.
  - cbn [step].
    assert (L' : length (got1 ++ [x]) < c /\ length (got1 ++ [x]) <> c).
    { rewrite app_length in *. cbn [length] in *. lia. }
    destruct L' as [L1 L2]. apply Nat.eqb_neq in L2. rewrite L2.
    rewrite IH; auto.
    + rewrite <- app_assoc. reflexivity.
    + rewrite <- app_assoc. cbn [app]. exact L.
Qed.

Lemma carry_replay s : wf s -> run (Normal (full_of s)) (carry s) = (s, []).
Proof.
  destruct s as [f|f a|f a b got|]; cbn [wf carry full_of]; intros W.
  - reflexivity.
  - cbn [run step]. rewrite W. reflexivity.
  - destruct W as (Ma & Mb & Lg).
    assert (C0 : Nat.eqb c 0 = false) by (apply Nat.eqb_neq; lia).
    pose proof (sec_replay f a b got [] Ma Mb Lg) as R. cbn [app] in R.
    change (run (Normal f) (a :: b :: got)) with
      (let '(s1, o1) := step (Normal f) a in
       let '(s2, o2) := run s1 (b :: got) in (s2, o1 ++ o2)).
    cbn [step]. rewrite Ma.
    change (run (One f a) (b :: got)) with
      (let '(s1, o1) := step (One f a) b in
       let '(s2, o2) := run s1 got in (s2, o1 ++ o2)).
    cbn [step]. rewrite Mb, C0, R. reflexivity.
  - contradiction.
Qed.

Lemma run_wf : forall ls s s' o, wf s -> run s ls = (s', o) -> s' <> Bad -> wf s'.
Proof.
  induction ls as [|x t IH]; intros s s' o W E NB; cbn [run] in E.
  - inversion E; subst; auto.
  - destruct (step s x) as [s1 o1] eqn:E1. destruct (run s1 t) as [s2 o2] eqn:E2.
    inversion E; subst.
    destruct s1 eqn:Es1; try (eapply IH; [eapply step_wf; eauto; congruence | eauto | auto]; fail).
    (* s1 = Bad: then run stays Bad *)
    exfalso. clear -E2 NB. revert s' o2 E2 NB.
    induction t as [|y t IHt]; intros; cbn [run step] in E2.
    + inversion E2; congruence.
    + destruct (run Bad t) as [s3 o3] eqn:E3. inversion E2; subst. eapply IHt; eauto.
Qed.

(* ---------- chunked processing with carry, as the fixed Rust loop does ---------- *)
(* each chunk is scanned from Normal after prepending the carried slots *)
Fixpoint chunked (full:N) (carried:list slot) (chunks:list (list slot)) : st * list line :=
  match chunks with
  | [] => run (Normal full) carried
  | ch :: rest =>
      let '(s1, o1) := run (Normal full) (carried ++ ch) in
      match s1 with
      | Bad => (Bad, o1)
      | _ => let '(s2, o2) := chunked (full_of s1) (carry s1) rest in (s2, o1 ++ o2)
      end
  end.

Lemma run_bad ls : fst (run Bad ls) = Bad.
Proof. induction ls; cbn [run step]; auto. destruct (run Bad ls); cbn in *; auto. Qed.

Lemma run_bad_snd ls : run Bad ls = (Bad, []).
Proof. induction ls as [|x t IH]; cbn [run step]; auto. rewrite IH. reflexivity. Qed.

Theorem chunked_is_run : forall chunks s,
  wf s -> fst (run s (concat chunks)) <> Bad ->
  chunked (full_of s) (carry s) chunks = run s (concat chunks).
Proof.
  induction chunks as [|ch rest IH]; intros s W NB; cbn [chunked concat] in *.
  - rewrite carry_replay by auto. reflexivity.
  - rewrite run_app, carry_replay by auto. rewrite run_app in NB |- *.
    destruct (run s ch) as [s1 o1] eqn:E1. cbn [app].
    assert (NB1 : s1 <> Bad).
    { intro; subst s1. rewrite run_bad_snd in NB. cbn in NB. congruence. }
    assert (W1 : wf s1) by (eapply run_wf; eauto).
    assert (NB2 : fst (run s1 (concat rest)) <> Bad).
    { destruct (run s1 (concat rest)); cbn in *; auto. }
    specialize (IH s1 W1 NB2).
    destruct s1; try congruence; rewrite IH; reflexivity.
Qed.
End Scan.
