(* Layer I: the library as a transition system over (file system, open handle):
   step : world -> op -> world * out. This is what the correspondence check runs against the
   real library (extracted to OCaml), and what the history theorems quantify over. *)
From Coq Require Import List NArith Bool Arith.
From Coq Require Import Strings.Byte.
Require Import BS.Bytes BS.Common BS.Api BS.FS BS.Meta BS.Header BS.Reader BS.Index BS.Data BS.Seek BS.Series.
Import ListNotations.
Close Scope N_scope. Open Scope nat_scope.

Record world := { w_fs : fsys; w_h : option series }.
Definition init_world : world := {| w_fs := []; w_h := None |}.

(* run a handle operation that may replace the handle *)
Definition with_handle (w:world) (k:series -> M (series * out)) : world * out :=
  match w_h w with
  | None => (w, RErr ENoHandle)
  | Some s =>
      match k s (w_fs w) with
      | (fs', Ok (s', o)) => ({| w_fs := fs'; w_h := Some s' |}, o)
      | (fs', Err e) => ({| w_fs := fs'; w_h := Some s |}, RErr e)
      | (fs', Panic) => ({| w_fs := fs'; w_h := None |}, ROPanic)
      | (fs', OutOfFuel) => ({| w_fs := fs'; w_h := None |}, ROHang)
      end
  end.
Definition reading {A} (m:series -> M A) (mk:A -> out) : series -> M (series * out) :=
  fun s => let* a := m s in ret (s, mk a).

(* error classes of create / open as SCRIPT.md canonicalises them *)
Definition new_err (e:err) : err :=
  match e with EExists => EExists | EHeaderTooLarge => EHeaderTooLarge | _ => EOther end.
Definition open_err (e:err) : err :=
  match e with ENotFound => ENotFound | EMismatch => EMismatch | _ => EOther end.

Definition fs_op (w:world) (k:fsys -> fsys * out) : world * out :=
  match w_h w with
  | Some _ => (w, RErr EHandleOpen)
  | None => let '(fs', o) := k (w_fs w) in ({| w_fs := fs'; w_h := None |}, o)
  end.

Definition step (w:world) (o:op) : world * out :=
  match o with
  | ONew name p hdr caches cb =>
      match series_new name p hdr caches cb (w_fs w) with
      | (fs', Ok s) => ({| w_fs := fs'; w_h := Some s |}, ROpened (N.of_nat (d_p (s_data s))) hdr)
      | (fs', Err e) => ({| w_fs := fs'; w_h := None |}, RErr (new_err e))
      | (fs', Panic) => ({| w_fs := fs'; w_h := None |}, ROPanic)
      | (fs', OutOfFuel) => ({| w_fs := fs'; w_h := None |}, ROHang)
      end
  | OOpen name popt hdr caches cb =>
      match builder_open name popt hdr caches cb (w_fs w) with
      | (fs', Ok (s, h)) => ({| w_fs := fs'; w_h := Some s |}, ROpened (N.of_nat (d_p (s_data s))) h)
      | (fs', Err e) => ({| w_fs := fs'; w_h := None |}, RErr (open_err e))
      | (fs', Panic) => ({| w_fs := fs'; w_h := None |}, ROPanic)
      | (fs', OutOfFuel) => ({| w_fs := fs'; w_h := None |}, ROHang)
      end
  | OClose => match w_h w with
              | None => (w, RErr ENoHandle)
              | Some _ => ({| w_fs := w_fs w; w_h := None |}, RUnit)
              end
  | OPush ts pay => with_handle w (fun s => let* s' := push_line s ts pay in ret (s', RUnit))
  | OReadAll lo hi => with_handle w (reading (fun s => read_all s lo hi) RLines)
  | OReadFirstN n lo hi => with_handle w (reading (fun s => read_first_n s n lo hi) RLines)
  | OReadN n lo hi => with_handle w (reading (fun s => read_n s n lo hi) RLines)
  | ONLines lo hi => with_handle w (reading (fun s => n_lines_between s lo hi) RNum)
  | OLastLine => with_handle w (reading series_last_line RLine)
  | OLen => with_handle w (reading (fun s => lift (data_len_lines (s_data s))) RNum)
  | OIsEmpty => with_handle w (reading (fun s => lift (data_len_lines (s_data s))) (fun n => RBool (n =? 0)%N))
  | ORange => with_handle w (reading (fun s => ret (s_range s)) RRange)
  | OPayloadSize => with_handle w (reading (fun s => ret (N.of_nat (d_p (s_data s)))) RNum)
  | OFsTrunc f n => fs_op w (fun fs => match set_file_len f n fs with (fs', Ok _) => (fs', RUnit) | (fs', _) => (fs', RErr ENoFile) end)
  | OFsRm f => fs_op w (fun fs => if fs_mem fs f then (fs_del fs f, RUnit) else (fs, RErr ENoFile))
  | OFsWrite f b => fs_op w (fun fs => (fs_put fs f b, RUnit))
  | OFsAppend f b => fs_op w (fun fs => match append f b fs with (fs', Ok _) => (fs', RUnit) | (fs', _) => (fs', RErr ENoFile) end)
  | OFsCut f k => fs_op w (fun fs => match fs_get fs f with
                                     | Some c => (fs_put fs f (take (len c - k) c), RUnit)
                                     | None => (fs, RErr ENoFile)
                                     end)
  | OFsPatch f k b => fs_op w (fun fs => match fs_get fs f with
                                         | Some c => (fs_put fs f (patch_from_end c k b), RUnit)
                                         | None => (fs, RErr ENoFile)
                                         end)
  end.

(* new / open while a handle is open first drops it *)
Definition step' (w:world) (o:op) : world * out :=
  match o with
  | ONew _ _ _ _ _ | OOpen _ _ _ _ _ => step {| w_fs := w_fs w; w_h := None |} o
  | _ => step w o
  end.

Fixpoint run (w:world) (ops:list op) : world * list out :=
  match ops with
  | [] => (w, [])
  | o :: t => let '(w1, r) := step' w o in let '(w2, rs) := run w1 t in (w2, r :: rs)
  end.
