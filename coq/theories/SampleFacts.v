(* C10/C08 core: the sampler (read_n) and the cache accumulator compute exactly the bucket means
   of Layer S (Spec.resample / Spec.cache_of), for every bucket size and every timestamp magnitude
   (sums are unbounded N in the model: the Rust sums are u128 after the fix). *)
From Coq Require Import List NArith ZArith Lia Bool Arith ZifyBool ZifyN ZifyNat.
From Coq Require Import Strings.Byte.
Require Import BS.Bytes BS.Common BS.CommonFacts BS.Api BS.Layout BS.Format BS.Spec BS.Reader BS.ReaderFacts.
Import ListNotations.
Close Scope N_scope. Open Scope nat_scope.
Arguments N.add : simpl never. Arguments N.mul : simpl never. Arguments N.sub : simpl never.
Arguments N.div : simpl never. Arguments N.modulo : simpl never.
Arguments N.ltb : simpl never. Arguments N.leb : simpl never. Arguments N.eqb : simpl never.
Ltac Zify.zify_post_hook ::= Z.div_mod_to_equations.

Lemma sum_N_app a b : sum_N (a ++ b) = (sum_N a + sum_N b)%N.
Proof. unfold sum_N. induction a as [|x t IH]; cbn [app fold_right]; [lia|]. rewrite IH. lia. Qed.

Lemma sum_N_snoc a x : sum_N (a ++ [x]) = (sum_N a + x)%N.
Proof. rewrite sum_N_app. unfold sum_N at 2. cbn [fold_right]. lia. Qed.

Lemma combine_map_r {A B C} (f:B -> C) : forall (a:list A) (b:list B),
  combine a (map f b) = map (fun z => (fst z, f (snd z))) (combine a b).
Proof. induction a as [|x a IH]; intros [|y b]; cbn [combine map]; try reflexivity. rewrite IH. reflexivity. Qed.

Lemma rs_add_is_col_step st pay :
  rs_add st (rs_decode pay) = map (fun x => (fst x + rs_dec (snd x))%N) (combine st pay).
Proof. unfold rs_add, rs_decode. rewrite combine_map_r, map_map. reflexivity. Qed.

Lemma col_sums_snoc p g pay :
  col_sums p (g ++ [pay]) = map (fun x => (fst x + rs_dec (snd x))%N) (combine (col_sums p g) pay).
Proof. unfold col_sums. rewrite fold_left_app. reflexivity. Qed.

(* buckets *)
Lemma buckets_fuel_enough B : B > 0 -> forall f1 f2 (l:list line), length l <= f1 -> length l <= f2 ->
  buckets_fuel f1 B l = buckets_fuel f2 B l.
Proof.
  intros HB. induction f1 as [|f1 IH]; intros f2 l H1 H2.
  - destruct l; [|cbn in H1; lia]. destruct f2; [reflexivity|]. cbn [buckets_fuel]. rewrite firstn_nil. cbn [length].
    destruct B; [lia|]. reflexivity.
  - destruct f2 as [|f2].
    + destruct l; [|cbn in H2; lia]. cbn [buckets_fuel]. rewrite firstn_nil. cbn [length]. destruct B; [lia|]. reflexivity.
    + cbn [buckets_fuel]. cbv zeta.
      destruct (length (firstn B l) <? B) eqn:E; [reflexivity|]. f_equal.
      apply Nat.ltb_ge in E. rewrite firstn_length in E. apply IH; rewrite skipn_length; lia.
Qed.
Lemma buckets_cons B (g t:list line) : B > 0 -> length g = B -> buckets B (g ++ t) = g :: buckets B t.
Proof.
  intros HB Hg. unfold buckets. destruct B as [|B']; [lia|].
  rewrite app_length, Hg. cbn [Nat.add buckets_fuel]. cbv zeta.
  rewrite firstn_app, Hg, Nat.sub_diag, <- Hg, firstn_all. cbn [firstn]. rewrite app_nil_r.
  replace (length g <? length g) with false by (symmetry; apply Nat.ltb_ge; lia).
  rewrite skipn_app, Nat.sub_diag, skipn_all. cbn [skipn app]. f_equal.
  rewrite Hg. apply buckets_fuel_enough; lia.
Qed.
Lemma buckets_short B (l:list line) : length l < B -> buckets B l = [].
Proof.
  intros H. unfold buckets. destruct B; [lia|]. destruct (length l) eqn:E; [reflexivity|].
  cbn [buckets_fuel]. cbv zeta. replace (length (firstn (S B) l) <? S B) with true; [reflexivity|].
  symmetry. apply Nat.ltb_lt. rewrite firstn_length. lia.
Qed.

Section Sampler.
Variable p b : nat.
Hypothesis Hb : b > 0.

(* the sampler's state holds the lines `pend` of the bucket in progress *)
Definition sample_inv (s:sampler) (pend:list line) : Prop :=
  length pend < b /\ sm_n s = N.of_nat (length pend) /\ sm_sum s = sum_N (map fst pend)
  /\ sm_state s = col_sums p (map snd pend).

Lemma sample_inv_init out : sample_inv {| sm_sum := 0; sm_n := 0; sm_state := rs_zero p; sm_out := out |} [].
Proof. repeat split; try reflexivity. exact Hb. Qed.

Theorem feed_sample : forall (l:list line) s pend,
  sample_inv s pend -> Forall (fun x => (fst x < U64)%N) l ->
  exists s' pend', feed _ (proc_sample p (N.of_nat b)) s l = PCont s' /\ sample_inv s' pend'
    /\ sm_out s' = rev (map (bucket_mean p) (buckets b (pend ++ l))) ++ sm_out s.
Proof.
  induction l as [|x t IH]; intros s pend INV F.
  - exists s, pend. split; [reflexivity|]. split; [exact INV|].
    rewrite app_nil_r, buckets_short by apply INV. reflexivity.
  - inversion F as [|? ? Hx Ft]; subst. destruct INV as (Lp & Hn & Hs & Hst).
    cbn [feed]. replace (fst x <? U64)%N with true by (symmetry; apply N.ltb_lt; exact Hx).
    unfold proc_sample at 1. rewrite Hn.
    destruct (N.of_nat b <=? N.of_nat (length pend) + 1)%N eqn:C.
    + (* the bucket is complete *)
      apply N.leb_le in C. assert (Lb : length (pend ++ [x]) = b) by (rewrite app_length; cbn [length]; lia).
      destruct (IH {| sm_sum := 0; sm_n := 0; sm_state := rs_zero p;
                      sm_out := ((sm_sum s + fst x) / N.of_nat b, rs_encode (rs_finish (rs_add (sm_state s) (rs_decode (snd x))) (N.of_nat b)))%N :: sm_out s |} [])
        as (s' & pend' & E & INV' & OUT); [apply sample_inv_init|exact Ft|].
      exists s', pend'. split; [exact E|]. split; [exact INV'|].
      rewrite OUT. cbn [sm_out app].
      replace (pend ++ x :: t) with ((pend ++ [x]) ++ t) by (rewrite <- app_assoc; reflexivity).
      rewrite (buckets_cons b _ t Hb Lb). cbn [map rev]. rewrite <- app_assoc. cbn [app]. f_equal. f_equal.
      unfold bucket_mean. rewrite Lb. f_equal.
      * rewrite Hs, map_app. cbn [map]. rewrite sum_N_snoc. reflexivity.
      * unfold rs_encode, rs_finish. rewrite map_map. rewrite map_app. cbn [map].
        rewrite col_sums_snoc, rs_add_is_col_step, Hst. reflexivity.
    + (* the bucket stays open *)
      apply N.leb_gt in C.
      destruct (IH {| sm_sum := sm_sum s + fst x; sm_n := N.of_nat (length pend) + 1;
                      sm_state := rs_add (sm_state s) (rs_decode (snd x)); sm_out := sm_out s |} (pend ++ [x]))
        as (s' & pend' & E & INV' & OUT); [|exact Ft|].
      { repeat split; cbn [sm_n sm_sum sm_state].
        - rewrite app_length. cbn [length]. lia.
        - rewrite app_length. cbn [length]. lia.
        - rewrite Hs, map_app. cbn [map]. rewrite sum_N_snoc. reflexivity.
        - rewrite map_app. cbn [map]. rewrite col_sums_snoc, rs_add_is_col_step, Hst. reflexivity. }
      exists s', pend'. split; [exact E|]. split; [exact INV'|].
      rewrite OUT. cbn [sm_out]. rewrite <- app_assoc. reflexivity.
Qed.

(* C10: what read_resampling collects is Spec.resample of the lines it was fed *)
Corollary feed_sample_resample l : Forall (fun x => (fst x < U64)%N) l ->
  exists s', feed _ (proc_sample p (N.of_nat b)) {| sm_sum := 0; sm_n := 0; sm_state := rs_zero p; sm_out := [] |} l = PCont s'
             /\ rev (sm_out s') = resample p b l.
Proof.
  intros F. destruct (feed_sample l _ [] (sample_inv_init []) F) as (s' & pend' & E & _ & OUT).
  exists s'. split; [exact E|]. rewrite OUT. cbn [sm_out app]. rewrite app_nil_r, rev_involutive. reflexivity.
Qed.
End Sampler.

(* C10: at most 2n samples. m = number of lines in the byte range (section slots included),
   k = number of data lines among them, bucket = max 1 (m / n) *)
Theorem at_most_2n (k m n:N) : (k <= m)%N -> (1 <= n)%N -> (k / N.max 1 (m / n) <= 2 * n)%N.
Proof.
  intros Hk Hn. destruct (N.le_gt_cases 1 (m / n)) as [H|H].
  - rewrite N.max_r by exact H. set (q := (m / n)%N) in *.
    assert (m < (q + 1) * n)%N. { pose proof (N.div_mod m n ltac:(lia)). pose proof (N.mod_lt m n ltac:(lia)). unfold q. nia. }
    assert (H2 : ((q + 1) * n <= q * (2 * n))%N) by nia.
    apply N.div_le_upper_bound; lia.
  - rewrite N.max_l by lia. rewrite N.div_1_r.
    pose proof (N.div_mod m n ltac:(lia)). pose proof (N.mod_lt m n ltac:(lia)).
    remember (m / n)%N as q eqn:Q. remember (m mod n)%N as r eqn:R. clear Q R. nia.
Qed.

Lemma buckets_length B : B > 0 -> forall (l:list line), length (buckets B l) = length l / B.
Proof.
  intros HB l. remember (length l) as n eqn:E. revert l E.
  induction n as [n IH] using lt_wf_ind. intros l E.
  destruct (Nat.lt_ge_cases (length l) B) as [H|H].
  - rewrite buckets_short by exact H. subst n. rewrite Nat.div_small by exact H. reflexivity.
  - rewrite <- (firstn_skipn B l) at 1. rewrite buckets_cons; [|exact HB|rewrite firstn_length; lia].
    cbn [length]. rewrite (IH (length (skipn B l))); [| rewrite skipn_length; lia | reflexivity].
    rewrite skipn_length. subst n.
    replace (length l) with ((length l - B) + 1 * B) at 2 by lia. rewrite Nat.div_add by lia. lia.
Qed.
