(* C09, the aligned case: reopening a series with the same cache levels, when every level holds whole buckets only
   (the number of lines is a multiple of every bucket size), leaves every file untouched and re-establishes the
   invariant RepS for the same lines. Payload sizes >= 4. The unaligned case is the known finding D10. *)
From Coq Require Import List NArith ZArith Lia Bool Arith ZifyBool ZifyN ZifyNat Sorted.
From Coq Require Import Strings.Byte.
Require Import BS.Bytes BS.Common BS.CommonFacts BS.Api BS.Layout BS.Format BS.FormatFacts BS.Spec BS.SpecStep BS.Sections.
Require Import BS.FS BS.FSFacts BS.Meta BS.MetaFacts BS.Header BS.Reader BS.ReaderFacts BS.Index BS.Data BS.DataFacts BS.Seek BS.SeekFacts BS.Series.
Require Import BS.SampleFacts BS.SeriesFacts BS.RangeFacts BS.RangeRead BS.ReadAllFacts BS.ExtractFacts BS.LastMetaFacts BS.HeaderFacts BS.OpenFacts BS.CacheFacts BS.TornFacts BS.TornGenFacts.
Import ListNotations.
Close Scope N_scope. Open Scope nat_scope.
Arguments N.add : simpl never. Arguments N.mul : simpl never. Arguments N.sub : simpl never.
Arguments N.ltb : simpl never. Arguments N.leb : simpl never. Arguments N.eqb : simpl never.
Arguments N.div : simpl never.

Lemma filter_length_le' {A} (f:A -> bool) (l:list A) : length (filter f l) <= length l.
Proof. induction l as [|x t IH]; cbn [filter length]; [lia|]. destruct (f x); cbn [length]; lia. Qed.

Section Aligned.
Variable p B : nat.
Hypothesis Hb : B > 0.

Lemma bucket_mean_ge (g:list line) m : g <> [] -> Forall (fun y => (m <= fst y)%N) g -> (m <= fst (bucket_mean p g))%N.
Proof.
  intros NE F. unfold bucket_mean. cbn [fst].
  assert (Q := sum_N_ge m (map fst g) ltac:(rewrite Forall_map; exact F)). rewrite map_length in Q.
  apply N.div_le_lower_bound; [destruct g; [contradiction|cbn [length]; lia]|lia].
Qed.

Lemma select_app lo hi (a b:list line) : select lo hi (a ++ b) = select lo hi a ++ select lo hi b.
Proof. unfold select. apply filter_app. Qed.

(* after the mean of the last bucket there is less than a bucket left *)
Lemma select_after_mean (d0 g:list line) : StronglySorted N.lt (map fst (d0 ++ g)) -> length g = B ->
  length (select (Excl (fst (bucket_mean p g))) Unb (d0 ++ g)) < B.
Proof.
  intros SS Lg. destruct g as [|x0 g']; [cbn [length] in Lg; lia|].
  rewrite map_app in SS. apply sorted_app_inv in SS. destruct SS as (_ & Sg & Cross).
  set (m := fst (bucket_mean p (x0 :: g'))).
  assert (Hmin : (fst x0 <= m)%N).
  { apply bucket_mean_ge; [discriminate|]. cbn [map] in Sg. inversion Sg as [|? ? _ Hall]; subst.
    constructor; [lia|]. rewrite Forall_map in Hall. eapply Forall_impl; [|exact Hall]. intros y Hy. cbn beta in Hy. lia. }
  rewrite select_app.
  assert (E0 : select (Excl m) Unb d0 = []).
  { unfold select. apply filter_none. apply Forall_forall. intros y Hy. cbn [sat_lo sat_hi]. rewrite andb_true_r. apply N.ltb_ge.
    rewrite Forall_forall in Cross. specialize (Cross (fst y) (in_map fst _ _ Hy)). cbn [map] in Cross. inversion Cross; subst. lia. }
  rewrite E0. cbn [app]. unfold select. cbn [filter sat_lo sat_hi].
  replace (m <? fst x0)%N with false by (symmetry; apply N.ltb_ge; exact Hmin). cbn [andb].
  pose proof (filter_length_le' (fun x : N * list byte => (m <? fst x)%N && true) g'). cbn [length] in Lg. lia.
Qed.

(* the last mean, when the list is whole buckets *)
Lemma cache_last (l:list line) k : length l = S k * B ->
  exists d0 g, l = d0 ++ g /\ length d0 = k * B /\ length g = B
    /\ cache_of p B l = cache_of p B d0 ++ [bucket_mean p g].
Proof.
  intros Hl. exists (firstn (k * B) l), (skipn (k * B) l).
  assert (L1 : length (firstn (k * B) l) = k * B) by (rewrite firstn_length; nia).
  assert (L2 : length (skipn (k * B) l) = B) by (rewrite skipn_length; nia).
  split; [symmetry; apply firstn_skipn|]. split; [exact L1|]. split; [exact L2|].
  unfold cache_of. rewrite <- (firstn_skipn (k * B) l) at 1.
  rewrite (buckets_app B Hb k _ _ L1), (buckets_one B _ Hb L2), map_app. reflexivity.
Qed.

(* RoughPos::new for "everything after ts" when nothing lies after ts: StartAfterData *)
Lemma rough_new_after_last (d:data) first last m : data_range d = Ok (Some (first, last)) -> (last <= m)%N ->
  exists e, rough_new d (Excl m) Unb = Err e.
Proof.
  intros DR Hm. unfold rough_new, checked_start_time. rewrite DR. cbn [bind].
  destruct (m + 1 <? U64)%N; cbn [bind]; [|eauto].
  replace (last <? N.max (m + 1) first)%N with true by (symmetry; apply N.ltb_lt; lia). cbn [bind]. eauto.
Qed.

(* repair::add_missing_data when the cache holds whole buckets of all lines: nothing is added *)
Theorem add_missing_aligned fs (src down:data) cb hdr ihdr (l:list line) k :
  wf_series p l -> length l = k * B ->
  RepD fs src p hdr ihdr (encode p l) (full_after p None l) (option_map fst (last_opt l)) ->
  d_last down = option_map fst (last_opt (cache_of p B l)) ->
  add_missing_data src down (N.of_nat B) cb fs = (fs, Ok down).
Proof.
  intros W Hl RD DL. unfold add_missing_data. rewrite DL.
  assert (RH : RepH fs (as_series src cb l) p hdr ihdr l).
  { constructor; cbn [as_series s_data s_down s_range]; [exact RD|exact W|reflexivity|reflexivity]. }
  destruct k as [|k'].
  - (* no line at all *)
    destruct l; [|cbn [length] in Hl; lia]. unfold cache_of. rewrite (buckets_short B []) by (cbn; lia). cbn [map last_opt option_map].
    unfold rough_new, checked_start_time, data_range.
    rewrite (rd_entries _ _ _ _ _ _ _ _ RD), (sections_encode p [] W). cbn [secs_from bind]. reflexivity.
  - destruct (cache_last l k' Hl) as (d0 & g & El & Ld & Lg & CO).
    rewrite CO, last_opt_snoc. cbn [option_map].
    set (m := fst (bucket_mean p g)).
    assert (NEl : l <> []) by (intros Q; rewrite Q in Hl; cbn [length] in Hl; lia).
    destruct (exists_last NEl) as (l' & y & Ey).
    pose proof (data_range_ok p fs src hdr ihdr l W RD) as DR.
    destruct l as [|x0 t0] eqn:El0; [contradiction|]. rewrite <- El0 in *.
    assert (FL : first_last l = Some (fst x0, fst y)).
    { rewrite first_last_last_opt, El0. rewrite <- El0, Ey, last_opt_snoc. reflexivity. }
    rewrite FL in DR.
    destruct (N.le_gt_cases (fst y) m) as [Le|Gt].
    + destruct (rough_new_after_last src (fst x0) (fst y) m DR Le) as [e RN]. rewrite RN. reflexivity.
    + (* there are lines after the last mean: fewer than a bucket *)
      assert (SELne : select (Excl m) Unb l <> []).
      { rewrite Ey, select_app. unfold select at 2. cbn [filter sat_lo sat_hi].
        replace (m <? fst y)%N with true by (symmetry; apply N.ltb_lt; exact Gt). cbn [andb].
        intros Q. apply app_eq_nil in Q. destruct Q as [_ Q]. discriminate. }
      destruct (seek_ok fs (as_series src cb l) p hdr ihdr l RH cb (Excl m) Unb) as [(ps & SK & GOOD)|(SE & _)]; [|contradiction].
      cbn [as_series s_data] in SK. unfold seek_pos in SK.
      destruct (rough_new src (Excl m) Unb) as [r|e| |] eqn:RN; try (unfold fail, mpanic, mfuel in SK; discriminate).
      assert (RF : mcatch (refine r src) (fun _ => fail EOther) fs = (fs, Ok ps)).
      { unfold mcatch in *. destruct (refine r src fs) as [fs0 [v|e| |]]; try (unfold fail in SK; discriminate); exact SK. }
      erewrite mbind_ok by exact RF.
      destruct ps as [q|]; cbn [seek_good] in GOOD; [|contradiction].
      destruct GOOD as (_ & RW).
      assert (LS : length (select (Excl m) Unb l) < B).
      { rewrite El. apply select_after_mean; [rewrite <- El; apply W|exact Lg]. }
      assert (RNE : fwim_read_resampling (d_file src) (d_p src) cb (N.of_nat B) (p_start q) (p_end q) (p_full q) fs = (fs, Ok [])).
      { rewrite (rd_p _ _ _ _ _ _ _ _ RD). unfold fwim_read_resampling.
        replace (N.of_nat B =? 0)%N with false by (symmetry; apply N.eqb_neq; lia).
        erewrite mbind_ok by (apply (of_read_from_0 _ _ hdr (encode p l)); exact (rd_file _ _ _ _ _ _ _ _ RD)).
        rewrite RW.
        destruct (feed_sample_resample p B Hb (select (Excl m) Unb l)) as (s' & E & RS).
        { apply (select_u64 fs (as_series src cb l) p hdr ihdr l RH). }
        rewrite E. unfold ret. rewrite frev_rev, RS. unfold resample, cache_of. rewrite buckets_short by exact LS. reflexivity. }
      erewrite mbind_ok by (apply mcatch_ok; exact RNE).
      reflexivity.
Qed.
End Aligned.

(* ---- DownSampledData::open on an intact, aligned cache ---- *)
Section OpenLevels.
Variable p : nat.

Definition open_spec (name:fname) (B:N) : cspec := (N.to_nat B, (outer (config_header name B), outer [])).

(* what must be on disk for a level *)
Definition level_on_disk (fs:fsys) (name:fname) (l:list line) (B:N) : Prop :=
  let cl := cache_of p (N.to_nat B) l in
  (1 <= B)%N /\ (exists k, length l = k * N.to_nat B) /\ wf_series p cl /\ Forall (nm_sec p) (secs_of cl)
  /\ (len (config_header name B) <= 65535)%N /\ (len (encode p cl) < 2^64)%N
  /\ fs_get fs (cache_name name B ++ ext_data) = Some (outer (config_header name B) ++ encode p cl)
  /\ fs_get fs (cache_name name B ++ ext_index) = Some (outer [] ++ enc_index (sections p (encode p cl))).

Theorem ds_open_aligned fs name (B:N) src cb hdr ihdr l :
  wf_series p l ->
  RepD fs src p hdr ihdr (encode p l) (full_after p None l) (option_map fst (last_opt l)) ->
  level_on_disk fs name l B ->
  exists ds, ds_open_or_create name B p src cb fs = (fs, Ok ds)
    /\ cache_ok p fs l ds (open_spec name B) /\ cache_files ds = cache_names name B.
Proof.
  intros W RD (HB & (k & Hk) & Wc & NMc & Hh & H64 & GD & GI).
  set (Bn := N.to_nat B) in *. assert (Hb : Bn > 0) by (unfold Bn; lia).
  set (cl := cache_of p Bn l) in *. set (cname := cache_name name B) in *.
  destruct (fwh_open_ok fs (cname ++ ext_data) (config_header name B) (encode p cl) Hh GD) as [FO _].
  assert (TC : cl = [] \/ tail_clean p (encode p cl)).
  { assert (CASE : cl = [] \/ cl <> []) by (destruct cl; [left; reflexivity|right; discriminate]).
    destruct CASE as [E0|NE]; [left; exact E0|right; apply tail_clean_nm; [exact Wc|exact NE|exact NMc]]. }
  assert (LM : last_meta_timestamp p (encode p cl) = Ok (full_after p None cl)).
  { apply last_meta_ok; [exact Wc|exact NMc]. }
  destruct (data_open_ok p fs cname (config_header name B) cb cl Wc Hh H64 GD GI TC LM) as (d & DO & RDc & N1 & N2).
  pose proof (add_missing_aligned p Bn Hb fs src d cb hdr ihdr l k W Hk RD (rd_last _ _ _ _ _ _ _ _ RDc)) as AM.
  unfold Bn in AM. rewrite N2Nat.id in AM.
  assert (DSO : ds_open name B p src cb fs = (fs, Ok {| ds_data := d; ds_B := B; ds_in_bin := 0; ds_sum := 0; ds_state := rs_zero p |})).
  { unfold ds_open. fold cname. erewrite mbind_ok by exact FO. cbv iota beta.
    erewrite mbind_ok by (apply mcatch_ok; exact DO). erewrite mbind_ok by exact AM. reflexivity. }
  eexists. split; [unfold ds_open_or_create; apply mcatch_ok; exact DSO|]. split; [|unfold cache_files, cache_names; cbn [ds_data]; rewrite N1, N2; reflexivity].
  split; [exact Hb|]. cbn [open_spec fst snd]. fold Bn.
  exists k, l, []. split; [rewrite app_nil_r; reflexivity|]. split; [exact Hk|]. split.
  - constructor; cbn [ds_data ds_B ds_in_bin ds_sum ds_state length map].
    + exact RDc. + exact Wc. + unfold Bn. rewrite N2Nat.id. reflexivity. + exact Hb. + reflexivity. + reflexivity.
    + reflexivity. + constructor. + destruct (last_opt (cache_of p Bn l)); [constructor|exact I].
  - (* the last mean is not beyond the last line *)
    destruct k as [|k'].
    + destruct l; [|cbn [length] in Hk; lia]. unfold cache_of. rewrite (buckets_short Bn []) by (cbn; lia). exact I.
    + destruct (cache_last p Bn Hb l k' Hk) as (d0 & g & El & Ld & Lg & CO). fold cl. unfold cl. rewrite CO, last_opt_snoc.
      destruct (last_opt l) as [y|] eqn:LO; [|exact I].
      apply bucket_mean_le; [destruct g; [cbn [length] in Lg; lia|discriminate]|].
      apply Forall_forall. intros z Hz.
      destruct W as [SS _]. pose proof (sorted_le_last l y SS LO) as LE. rewrite Forall_forall in LE. apply LE.
      rewrite El. apply in_or_app. right. exact Hz.
Qed.

Theorem open_caches_aligned fs name src cb hdr ihdr l :
  wf_series p l ->
  RepD fs src p hdr ihdr (encode p l) (full_after p None l) (option_map fst (last_opt l)) ->
  forall Bs, Forall (level_on_disk fs name l) Bs ->
  exists down, open_caches name p src cb Bs fs = (fs, Ok down)
    /\ Forall2 (cache_ok p fs l) down (map (open_spec name) Bs)
    /\ map cache_files down = map (cache_names name) Bs.
Proof.
  intros W RD. induction Bs as [|B t IH]; intros F.
  - exists []. split; [reflexivity|]. split; [constructor|reflexivity].
  - inversion F as [|? ? FB Ft]; subst.
    destruct (ds_open_aligned fs name B src cb hdr ihdr l W RD FB) as (ds & E & CO & NF).
    destruct (IH Ft) as (down & Et & F2 & FM).
    exists (ds :: down). cbn [open_caches]. erewrite mbind_ok by exact E. erewrite mbind_ok by exact Et.
    split; [reflexivity|]. split; [cbn [map]; constructor; assumption|]. cbn [map]. rewrite NF, FM. reflexivity.
Qed.

(* ByteSeries::open_existing_with_resampler with cache levels, everything intact and aligned *)
Theorem series_open_caches fs name uhdr popt cb l (Bs:list N) :
  let header := params_to_text BSgen.Consts.version (N.of_nat p) ++ uhdr in
  wf_series p l -> Forall (nm_sec p) (secs_of l) ->
  (len header <= 65535)%N -> (len (encode p l) < 2^64)%N -> (N.of_nat p < 2^64)%N ->
  fs_get fs (name ++ ext_data) = Some (outer header ++ encode p l) ->
  fs_get fs (name ++ ext_index) = Some (outer [] ++ enc_index (sections p (encode p l))) ->
  (popt = None \/ popt = Some (N.of_nat p)) ->
  Forall (level_on_disk fs name l) Bs ->
  NoDup ([name ++ ext_data; name ++ ext_index] ++ flat_map (cache_names name) Bs) ->
  exists s, series_open name popt Bs cb fs = (fs, Ok (s, uhdr))
    /\ RepS fs s p (outer header) (outer []) l (map (open_spec name) Bs) /\ s_cb s = cb
    /\ all_files s = [name ++ ext_data; name ++ ext_index] ++ flat_map (cache_names name) Bs
    /\ of_name (d_file (s_data s)) = name ++ ext_data /\ of_name (ix_file (d_index (s_data s))) = name ++ ext_index
    /\ map cache_files (s_down s) = map (cache_names name) Bs.
Proof.
  intros header W NMl Hh H64 Hp GD GI Hopt FL ND.
  destruct (fwh_open_ok fs (name ++ ext_data) header (encode p l) Hh GD) as [FO _].
  assert (TC : l = [] \/ tail_clean p (encode p l)).
  { destruct l as [|x t] eqn:El; [left; reflexivity|right]. rewrite <- El in *. apply tail_clean_nm; [exact W|rewrite El; discriminate|exact NMl]. }
  assert (LM : last_meta_timestamp p (encode p l) = Ok (full_after p None l)).
  { apply last_meta_ok; [exact W|exact NMl]. }
  destruct (data_open_ok p fs name header cb l W Hh H64 GD GI TC LM) as (d & DO & RD & N1 & N2).
  destruct (open_caches_aligned fs name d cb _ _ l W RD Bs FL) as (down & OC & F2 & FM).
  unfold series_open. erewrite mbind_ok by exact FO. cbv iota beta.
  unfold lift at 1. erewrite mbind_ok by (unfold header; rewrite (header_roundtrip (N.of_nat p) uhdr popt Hp Hopt); reflexivity). cbv iota beta.
  rewrite Nat2N.id. erewrite mbind_ok by (apply mcatch_ok; exact DO).
  unfold lift at 1. erewrite mbind_ok by (rewrite (data_range_ok p fs d _ _ l W RD); reflexivity).
  erewrite mbind_ok by (apply mcatch_ok; exact OC).
  assert (FM' : flat_map cache_files down = flat_map (cache_names name) Bs) by (rewrite !flat_map_concat_map, FM; reflexivity).
  eexists. split; [reflexivity|]. split; [|split; [reflexivity|split; [|split; [exact N1|split; [exact N2|exact FM]]]]].
  - constructor; cbn [s_data s_down s_range]; [exact RD|exact W|reflexivity|exact F2|].
    unfold all_files. cbn [s_data s_down]. rewrite N1, N2, FM'. exact ND.
  - unfold all_files. cbn [s_data s_down]. rewrite N1, N2, FM'. reflexivity.
Qed.
End OpenLevels.

(* ---- C09: close and reopen with the same cache levels, aligned ---- *)
Section ReopenCaches.
Variable p : nat.

Lemma levels_on_disk fs name l : forall (down:list dsample) (Bs:list N),
  Forall2 (cache_ok p fs l) down (map (open_spec name) Bs) ->
  map cache_files down = map (cache_names name) Bs ->
  Forall (fun B => (1 <= B)%N /\ (exists k, length l = k * N.to_nat B) /\ Forall (nm_sec p) (secs_of (cache_of p (N.to_nat B) l))
                   /\ (len (config_header name B) <= 65535)%N /\ (len (encode p (cache_of p (N.to_nat B) l)) < 2^64)%N) Bs ->
  Forall (level_on_disk p fs name l) Bs.
Proof.
  induction down as [|ds t IH]; intros Bs F2 NM FA; destruct Bs as [|B Bt]; try (inversion F2; fail); [constructor|].
  cbn [map] in F2, NM. inversion F2 as [|? ? ? ? OK F2t]; subst. unfold cache_files at 1, cache_names at 1 in NM. injection NM as E1 E2 NT.
  inversion FA as [|? ? (HB & HK & NMc & Hh & H64) FAt]; subst.
  constructor; [|apply (IH Bt F2t NT FAt)].
  destruct OK as [Hb CO]. cbn [open_spec fst snd] in *.
  pose proof (CacheOf_files p (N.to_nat B) Hb fs ds _ _ l CO) as [[G1 _] [G2 _]].
  rewrite E1 in G1. rewrite E2 in G2.
  destruct (cache_as_series p fs ds (open_spec name B) l CbNone (conj Hb CO)) as (ch & cih & RH).
  unfold level_on_disk. cbn [open_spec fst] in RH.
  split; [exact HB|split; [exact HK|split; [exact (rh_wf _ _ _ _ _ _ RH)|split; [exact NMc|split; [exact Hh|split; [exact H64|split; [exact G1|exact G2]]]]]]].
Qed.

Theorem reopen_caches_aligned_nm fs s uhdr name popt hdropt cb l (Bs:list N) :
  let header := params_to_text BSgen.Consts.version (N.of_nat p) ++ uhdr in
  RepS fs s p (outer header) (outer []) l (map (open_spec name) Bs) ->
  of_name (d_file (s_data s)) = name ++ ext_data -> of_name (ix_file (d_index (s_data s))) = name ++ ext_index ->
  map cache_files (s_down s) = map (cache_names name) Bs ->
  Forall (nm_sec p) (secs_of l) ->
  (len header <= 65535)%N -> (len (encode p l) < 2^64)%N -> (N.of_nat p < 2^64)%N ->
  (popt = None \/ popt = Some (N.of_nat p)) ->
  match hdropt with HdrIs e => e = uhdr | HdrAny => True end ->
  Forall (fun B => (1 <= B)%N /\ (exists k, length l = k * N.to_nat B) /\ Forall (nm_sec p) (secs_of (cache_of p (N.to_nat B) l))
                   /\ (len (config_header name B) <= 65535)%N /\ (len (encode p (cache_of p (N.to_nat B) l)) < 2^64)%N) Bs ->
  exists s', builder_open name popt hdropt Bs cb fs = (fs, Ok (s', uhdr))
    /\ RepS fs s' p (outer header) (outer []) l (map (open_spec name) Bs) /\ s_cb s' = cb
    /\ of_name (d_file (s_data s')) = name ++ ext_data /\ of_name (ix_file (d_index (s_data s'))) = name ++ ext_index
    /\ map cache_files (s_down s') = map (cache_names name) Bs.
Proof.
  intros header R N1 N2 NM NMl Hh H64 Hp Hopt HO FA.
  pose proof (rs_data _ _ _ _ _ _ _ R) as RD. pose proof (rs_wf _ _ _ _ _ _ _ R) as W.
  pose proof (rd_file _ _ _ _ _ _ _ _ RD) as [GD _]. pose proof (rd_ix _ _ _ _ _ _ _ _ RD) as [GI _].
  rewrite N1 in GD. rewrite N2 in GI.
  pose proof (levels_on_disk fs name l _ Bs (rs_caches _ _ _ _ _ _ _ R) NM FA) as LD.
  assert (ND : NoDup ([name ++ ext_data; name ++ ext_index] ++ flat_map (cache_names name) Bs)).
  { pose proof (rs_names _ _ _ _ _ _ _ R) as ND0. unfold all_files in ND0. rewrite N1, N2 in ND0.
    rewrite !flat_map_concat_map in *. rewrite NM in ND0. exact ND0. }
  destruct (series_open_caches p fs name uhdr popt cb l Bs W NMl Hh H64 Hp GD GI Hopt LD ND) as (s' & SO & R' & CB & _ & M1 & M2 & M3).
  exists s'. split; [|repeat (split; [assumption|]); assumption].
  unfold builder_open. erewrite mbind_ok by exact SO. cbv iota beta.
  destruct hdropt as [|e]; [reflexivity|]. subst e. rewrite bytes_eqb_refl. reflexivity.
Qed.

(* payload sizes >= 4: no condition on the timestamps *)
Theorem reopen_caches_aligned (H4 : 4 <= p) fs s uhdr name popt hdropt cb l (Bs:list N) :
  let header := params_to_text BSgen.Consts.version (N.of_nat p) ++ uhdr in
  RepS fs s p (outer header) (outer []) l (map (open_spec name) Bs) ->
  of_name (d_file (s_data s)) = name ++ ext_data -> of_name (ix_file (d_index (s_data s))) = name ++ ext_index ->
  map cache_files (s_down s) = map (cache_names name) Bs ->
  (len header <= 65535)%N -> (len (encode p l) < 2^64)%N -> (N.of_nat p < 2^64)%N ->
  (popt = None \/ popt = Some (N.of_nat p)) ->
  match hdropt with HdrIs e => e = uhdr | HdrAny => True end ->
  Forall (fun B => (1 <= B)%N /\ (exists k, length l = k * N.to_nat B)
                   /\ (len (config_header name B) <= 65535)%N /\ (len (encode p (cache_of p (N.to_nat B) l)) < 2^64)%N) Bs ->
  exists s', builder_open name popt hdropt Bs cb fs = (fs, Ok (s', uhdr))
    /\ RepS fs s' p (outer header) (outer []) l (map (open_spec name) Bs) /\ s_cb s' = cb.
Proof.
  intros header R N1 N2 NM Hh H64 Hp Hopt HO FA.
  assert (G : exists s', builder_open name popt hdropt Bs cb fs = (fs, Ok (s', uhdr))
    /\ RepS fs s' p (outer header) (outer []) l (map (open_spec name) Bs) /\ s_cb s' = cb
    /\ of_name (d_file (s_data s')) = name ++ ext_data /\ of_name (ix_file (d_index (s_data s'))) = name ++ ext_index
    /\ map cache_files (s_down s') = map (cache_names name) Bs);
    [|destruct G as (s' & E & R' & CB & _); exists s'; split; [exact E|split; assumption]].
  apply (reopen_caches_aligned_nm fs s uhdr name popt hdropt cb l Bs R N1 N2 NM); try assumption.
  - apply Forall_forall. intros sct _. apply nm_p4. exact H4.
  - eapply Forall_impl; [|exact FA]. intros B (HB & HK & Hh' & H64'). split; [exact HB|]. split; [exact HK|].
    split; [apply Forall_forall; intros sct _; apply nm_p4; exact H4|]. split; assumption.
Qed.
End ReopenCaches.
