(* C01 / C04 / C05 for every history: a series (no cache levels) that is created and then goes through ANY sequence of
   appends (accepted or refused), reads, close-and-reopen steps and crashes - a crash leaves the data file cut at any byte
   and the index file absent or cut at any byte - each crash followed by an open, is at every moment in the representation
   invariant RepH for the lines Layer S expects: the appended lines, minus what a crash cut off (exactly the lines that were
   not completely written). Every open of the history succeeds, every read returns exactly the selected lines.
   This is the inductive closure of push_line_ok, reopen_all_payloads and torn_open_gen: "repeated crash-repair-append
   cycles" of any length. *)
From Coq Require Import List NArith ZArith Lia Bool Arith ZifyBool ZifyN ZifyNat Sorted.
From Coq Require Import Strings.Byte.
Require Import BS.Bytes BS.Common BS.CommonFacts BS.Api BS.Layout BS.Format BS.FormatFacts BS.Spec BS.SpecStep BS.Sections.
Require Import BS.FS BS.FSFacts BS.Meta BS.MetaFacts BS.Header BS.Reader BS.Index BS.Data BS.DataFacts BS.Seek BS.Series BS.SeriesFacts BS.TotalFacts.
Require Import BS.ExtractFacts BS.LastMetaFacts BS.HeaderFacts BS.OpenFacts BS.TornFacts BS.ReadAllFacts BS.AppendOnlyFacts BS.TornGenFacts BS.CacheFacts BS.CacheOpenFacts BS.LevelFacts BS.PagingFacts.
Require BSgen.Consts.
Import ListNotations.
Close Scope N_scope. Open Scope nat_scope.

Section History.
Variables (p:nat) (name:fname) (uhdr:list byte).
Let header := params_to_text BSgen.Consts.version (N.of_nat p) ++ uhdr.

(* ---- the number of completely written lines in a data region cut at c bytes ---- *)
Definition elen (l:list line) (k:nat) : nat := length (encode p (firstn k l)).
Definition complete (c:nat) (l:list line) : nat :=
  length (filter (fun k => elen l k <=? c) (seq 1 (length l))).

Lemma firstn_add' {A} : forall k m (l:list A), firstn (k + m) l = firstn k l ++ firstn m (skipn k l).
Proof. induction k as [|k IH]; intros m l; [reflexivity|]. destruct l as [|x t]; [cbn; rewrite firstn_nil; reflexivity|]. cbn [Nat.add firstn skipn app]. f_equal. apply IH. Qed.

Lemma elen_mono l k k' : k <= k' -> elen l k <= elen l k'.
Proof.
  intros H. unfold elen.
  assert (E : firstn k' l = firstn k l ++ firstn (k' - k) (skipn k l)).
  { replace k' with (k + (k' - k)) at 1 by lia. apply firstn_add'. }
  rewrite E. destruct (encode_grows p (firstn k l) (firstn (k' - k) (skipn k l))) as [X EX]. rewrite EX, app_length. lia.
Qed.

Lemma filter_none' {A} (f:A -> bool) (l:list A) : Forall (fun x => f x = false) l -> filter f l = [].
Proof. induction l as [|x t IH]; intros F; [reflexivity|]. inversion F as [|? ? Hx Ft]; subst. cbn [filter]. rewrite Hx. apply IH. exact Ft. Qed.
Lemma filter_all' {A} (f:A -> bool) (l:list A) : Forall (fun x => f x = true) l -> filter f l = l.
Proof. induction l as [|x t IH]; intros F; [reflexivity|]. inversion F as [|? ? Hx Ft]; subst. cbn [filter]. rewrite Hx. f_equal. apply IH. exact Ft. Qed.

Lemma complete_unique c l k : k <= length l -> elen l k <= c -> (k < length l -> c < elen l (S k)) -> complete c l = k.
Proof.
  intros Hk LE MX. unfold complete.
  replace (length l) with (k + (length l - k)) by lia. rewrite seq_app, filter_app, app_length.
  rewrite filter_all', seq_length.
  2:{ apply Forall_forall. intros j Hj. apply in_seq in Hj. apply Nat.leb_le. pose proof (elen_mono l j k ltac:(lia)). lia. }
  rewrite filter_none'; [cbn [length]; lia|].
  apply Forall_forall. intros j Hj. apply in_seq in Hj. apply Nat.leb_gt.
  pose proof (elen_mono l (S k) j ltac:(lia)). specialize (MX ltac:(lia)). lia.
Qed.

Hypothesis Hh : (len header <= 65535)%N.
Hypothesis Hp : (N.of_nat p < 2^64)%N.

(* ---- histories ---- *)
Inductive hop :=
| HPush (ts:N) (pay:list byte)
| HRead (lo hi:bound)
| HReopen (popt:option N) (ho:hdropt) (cb:cbmode)
| HCrash (image:fsys) (c:nat) (popt:option N) (ho:hdropt) (cb:cbmode).   (* the disk after the crash, then an open *)

(* the model: the handle is replaced by an open, kept by a refused append *)
Definition hexec (st:fsys * series) (o:hop) : option (fsys * series) :=
  let '(fs, s) := st in
  match o with
  | HPush ts pay => match push_line s ts pay fs with
                    | (fs', Ok s') => Some (fs', s')
                    | (fs', Err _) => Some (fs', s)
                    | _ => None
                    end
  | HRead lo hi => match read_all s lo hi fs with
                   | (fs', Ok _) => Some (fs', s)
                   | (fs', Err _) => Some (fs', s)
                   | _ => None
                   end
  | HReopen popt ho cb => match builder_open name popt ho [] cb fs with
                          | (fs', Ok (s', _)) => Some (fs', s')
                          | _ => None
                          end
  | HCrash image c popt ho cb => match builder_open name popt ho [] cb image with
                                 | (fs', Ok (s', _)) => Some (fs', s')
                                 | _ => None
                                 end
  end.

(* Layer S: the lines the series holds after the step *)
Definition hspec (l:list line) (o:hop) : list line :=
  match o with
  | HPush ts pay => if accepts p l ts pay then l ++ [(ts, pay)] else l
  | HCrash _ c _ _ _ => firstn (complete c l) l
  | _ => l
  end.

Definition open_args_ok (popt:option N) (ho:hdropt) : Prop :=
  (popt = None \/ popt = Some (N.of_nat p)) /\ match ho with HdrIs e => e = uhdr | HdrAny => True end.

(* what a step may be, in the abstract state l: timestamps are u64; an open is asked with matching parameters, the data stays
   below 2^64 bytes and (payload sizes 0..3) meets the marker-word condition of C04; a crash image holds the data file cut
   at c bytes and the index absent or cut anywhere *)
Definition hvalid (l:list line) (o:hop) : Prop :=
  match o with
  | HPush ts _ => (ts < 2^64)%N
  | HRead _ _ => True
  | HReopen popt ho _ => open_args_ok popt ho /\ (len (encode p l) < 2^64)%N /\ Forall (nm_sec p) (secs_of l)
  | HCrash image c popt ho _ =>
      open_args_ok popt ho /\ (len (encode p l) < 2^64)%N /\ Forall (nm_sec p) (secs_of l)
      /\ c <= length (encode p l)
      /\ fs_get image (name ++ ext_data) = Some (outer header ++ firstn c (encode p l))
      /\ index_state image name (sections p (encode p l))
  end.

Fixpoint hvalid_all (l:list line) (ops:list hop) : Prop :=
  match ops with [] => True | o :: t => hvalid l o /\ hvalid_all (hspec l o) t end.

Fixpoint hrun (st:fsys * series) (ops:list hop) : option (fsys * series) :=
  match ops with [] => Some st | o :: t => match hexec st o with Some st' => hrun st' t | None => None end end.

Definition hinv (st:fsys * series) (l:list line) : Prop :=
  RepH (fst st) (snd st) p (outer header) (outer []) l
  /\ of_name (d_file (s_data (snd st))) = name ++ ext_data
  /\ of_name (ix_file (d_index (s_data (snd st)))) = name ++ ext_index.

Theorem hstep_ok st l o : hinv st l -> hvalid l o -> exists st', hexec st o = Some st' /\ hinv st' (hspec l o).
Proof.
  destruct st as [fs s]. intros (R & N1 & N2) V. cbn [fst snd] in *.
  destruct o as [ts pay|lo hi|popt ho cb|image c popt ho cb]; cbn [hvalid hexec hspec] in *.
  - pose proof (push_line_ok fs s p _ _ l ts pay R V) as PO.
    destruct (accepts p l ts pay).
    + destruct PO as (fs' & s' & E & R' & _ & M1 & M2). rewrite E. eexists. split; [reflexivity|].
      split; [exact R'|]. cbn [snd]. rewrite M1, M2. split; assumption.
    + destruct PO as (e & E). rewrite E. eexists. split; [reflexivity|]. split; [exact R|split; assumption].
  - destruct (read_all_ok fs s p _ _ l R lo hi) as [E|[_ E]]; rewrite E; eexists; (split; [reflexivity|]); (split; [exact R|split; assumption]).
  - destruct V as ((Hopt & HO) & H64 & NM).
    destruct (reopen_all_payloads p fs s uhdr name popt ho cb l R N1 N2 Hh H64 Hp Hopt NM HO) as (s' & E & R' & _ & M1 & M2).
    fold header in E. rewrite E. eexists. split; [reflexivity|]. split; [exact R'|split; assumption].
  - destruct V as ((Hopt & HO) & H64 & NM & Hc & GD & IS).
    pose proof (rh_wf _ _ _ _ _ _ R) as W.
    destruct (torn_open_gen_names p image name uhdr popt ho cb l c W NM Hc Hh H64 Hp GD IS Hopt HO)
      as (fs' & s' & k & E & Hk & LE & MX & R' & _ & _ & M1 & M2 & _).
    rewrite E. eexists. split; [reflexivity|].
    rewrite (complete_unique c l k Hk LE MX).
    split; [exact R'|]. cbn [snd]. split; assumption.
Qed.

Theorem history_ok : forall ops st l, hinv st l -> hvalid_all l ops ->
  exists st', hrun st ops = Some st' /\ hinv st' (fold_left hspec ops l).
Proof.
  induction ops as [|o t IH]; intros st l I V; cbn [hrun fold_left hvalid_all] in *; [eauto|].
  destruct V as [Vo Vt]. destruct (hstep_ok st l o I Vo) as (st' & E & I'). rewrite E. apply (IH st' _ I' Vt).
Qed.

(* from creation, and what a read then returns *)
Theorem history_from_create fs cb0 ops :
  fs_mem fs (name ++ ext_data) = false -> fs_mem fs (name ++ ext_index) = false -> hvalid_all [] ops ->
  exists fs0 s0 st', series_new name (N.of_nat p) uhdr [] cb0 fs = (fs0, Ok s0)
    /\ hrun (fs0, s0) ops = Some st' /\ hinv st' (fold_left hspec ops [])
    /\ forall lo hi, let l := fold_left hspec ops [] in
          read_all (snd st') lo hi (fst st') = (fst st', Ok (select lo hi l))
          \/ (select lo hi l = [] /\ read_all (snd st') lo hi (fst st') = (fst st', Err ERange)).
Proof.
  intros M1 M2 V. destruct (series_new_ok fs name p uhdr cb0 M1 M2 Hh) as (fs0 & s0 & E & R & _ & N1 & N2 & _).
  assert (I0 : hinv (fs0, s0) []) by (split; [exact R|split; assumption]).
  destruct (history_ok ops (fs0, s0) [] I0 V) as (st' & HR & I').
  exists fs0, s0, st'. split; [exact E|]. split; [exact HR|]. split; [exact I'|].
  intros lo hi l. destruct I' as (R' & _). apply (read_all_ok _ _ p _ _ _ R' lo hi).
Qed.

(* C06 / C15 / C07 over every history: the bytes of the two files are a function of the lines Layer S expects - the data file
   is the preamble followed by the reference encoding (so every append, also after a recovery, was encoded against the
   right full timestamp), the index file lists exactly the sections of that encoding *)
Theorem history_files fs cb0 ops :
  fs_mem fs (name ++ ext_data) = false -> fs_mem fs (name ++ ext_index) = false -> hvalid_all [] ops ->
  exists fs0 s0 st', series_new name (N.of_nat p) uhdr [] cb0 fs = (fs0, Ok s0)
    /\ hrun (fs0, s0) ops = Some st'
    /\ let l := fold_left hspec ops [] in
       fs_get (fst st') (name ++ ext_data) = Some (outer header ++ encode p l)
       /\ fs_get (fst st') (name ++ ext_index) = Some (outer [] ++ enc_index (sections p (encode p l))).
Proof.
  intros M1 M2 V. destruct (history_from_create fs cb0 ops M1 M2 V) as (fs0 & s0 & st' & E & HR & (R & N1 & N2) & _).
  exists fs0, s0, st'. split; [exact E|]. split; [exact HR|]. cbv zeta.
  pose proof (rh_data _ _ _ _ _ _ R) as RD.
  pose proof (rd_file _ _ _ _ _ _ _ _ RD) as [G1 _]. pose proof (rd_ix _ _ _ _ _ _ _ _ RD) as [G2 _].
  rewrite N1 in G1. rewrite N2 in G2. split; assumption.
Qed.

(* C12 over every history: the accessors report the lines Layer S expects, also after recoveries *)
Theorem history_accessors fs cb0 ops :
  fs_mem fs (name ++ ext_data) = false -> fs_mem fs (name ++ ext_index) = false -> hvalid_all [] ops ->
  exists fs0 s0 st', series_new name (N.of_nat p) uhdr [] cb0 fs = (fs0, Ok s0)
    /\ hrun (fs0, s0) ops = Some st'
    /\ let l := fold_left hspec ops [] in
       data_len_lines (s_data (snd st')) = Ok (len l)
       /\ s_range (snd st') = first_last l
       /\ d_p (s_data (snd st')) = p
       /\ series_last_line (snd st') (fst st') = (fst st', match last_opt l with Some x => Ok x | None => Err ENoData end).
Proof.
  intros M1 M2 V. destruct (history_from_create fs cb0 ops M1 M2 V) as (fs0 & s0 & st' & E & HR & (R & _) & _).
  exists fs0, s0, st'. split; [exact E|]. split; [exact HR|]. cbv zeta.
  split; [exact (len_ok _ _ _ _ _ _ R)|]. split; [exact (range_ok _ _ _ _ _ _ R)|]. split; [exact (payload_size_ok _ _ _ _ _ _ R)|].
  exact (last_line_ok _ _ _ _ _ _ R).
Qed.

(* C01 over every history: the full read returns exactly the lines Layer S expects *)
Theorem history_full_read fs cb0 ops :
  fs_mem fs (name ++ ext_data) = false -> fs_mem fs (name ++ ext_index) = false -> hvalid_all [] ops ->
  exists fs0 s0 st', series_new name (N.of_nat p) uhdr [] cb0 fs = (fs0, Ok s0)
    /\ hrun (fs0, s0) ops = Some st'
    /\ let l := fold_left hspec ops [] in
       read_all (snd st') Unb Unb (fst st') = (fst st', Ok l) \/ (l = [] /\ read_all (snd st') Unb Unb (fst st') = (fst st', Err ERange)).
Proof.
  intros M1 M2 V. destruct (history_from_create fs cb0 ops M1 M2 V) as (fs0 & s0 & st' & E & HR & _ & RD).
  exists fs0, s0, st'. split; [exact E|]. split; [exact HR|]. cbv zeta. specialize (RD Unb Unb). cbv zeta in RD.
  rewrite select_unb in RD. exact RD.
Qed.
End History.

(* the premises are satisfiable: create, two appends, a crash that cuts the data file in the middle of the second line and
   loses the index, a further append, a reopen *)
Example history_example :
  let p := 4 in let name := [x73] in let pay := [x01; x02; x03; x04] in
  let header := params_to_text BSgen.Consts.version (N.of_nat p) ++ [] in
  let l := [(10%N, pay); (20%N, pay)] in
  let image := fs_put [] (name ++ ext_data) (outer header ++ firstn 21 (encode p l)) in
  let ops := [HPush 10%N pay; HPush 20%N pay; HCrash image 21 None HdrAny CbNone; HPush 30%N pay; HReopen None HdrAny CbDeny] in
  hvalid_all p name [] [] ops /\ fold_left (hspec p) ops [] = [(10%N, pay); (30%N, pay)].
Proof.
  cbv zeta. split; [|vm_compute; reflexivity].
  assert (NM : forall m, Forall (nm_sec 4) (secs_of m)) by (intros m; apply Forall_forall; intros sct _; apply nm_p4; lia).
  cbn [hvalid_all hvalid]. unfold open_args_ok.
  repeat match goal with |- _ /\ _ => split end;
    first [ exact I | apply NM | left; reflexivity | apply Nat.leb_le; vm_compute; reflexivity
          | left; vm_compute; reflexivity | vm_compute; reflexivity ].
Qed.


(* ---- histories of a series WITH cache levels (C08 / C09 aligned / C11): appends, resampling reads, and close-and-reopen
   with the same levels whenever the number of lines is a multiple of every bucket size ---- *)
Section HistoryCaches.
Variables (p:nat) (name:fname) (uhdr:list byte) (Bs:list N).
Let header := params_to_text BSgen.Consts.version (N.of_nat p) ++ uhdr.
Let cs := map (open_spec name) Bs.

Hypothesis Hh : (len header <= 65535)%N.
Hypothesis Hp : (N.of_nat p < 2^64)%N.
Hypothesis Hsorted : StronglySorted le (map fst cs).

Inductive cop :=
| CPush (ts:N) (pay:list byte)
| CReadN (n:N) (lo hi:bound)
| CReopen (popt:option N) (ho:hdropt) (cb:cbmode).

Definition cexec (st:fsys * series) (o:cop) : option (fsys * series) :=
  let '(fs, s) := st in
  match o with
  | CPush ts pay => match push_line s ts pay fs with
                    | (fs', Ok s') => Some (fs', s')
                    | (fs', Err _) => Some (fs', s)
                    | _ => None
                    end
  | CReadN n lo hi => match read_n s n lo hi fs with
                      | (fs', Ok _) => Some (fs', s)
                      | (fs', Err _) => Some (fs', s)
                      | _ => None
                      end
  | CReopen popt ho cb => match builder_open name popt ho Bs cb fs with
                          | (fs', Ok (s', _)) => Some (fs', s')
                          | _ => None
                          end
  end.

Definition cspec (l:list line) (o:cop) : list line :=
  match o with CPush ts pay => if accepts p l ts pay then l ++ [(ts, pay)] else l | _ => l end.

Definition cvalid (l:list line) (o:cop) : Prop :=
  match o with
  | CPush ts _ => (ts < 2^64)%N
  | CReadN _ _ _ => True
  | CReopen popt ho _ =>
      open_args_ok p uhdr popt ho /\ (len (encode p l) < 2^64)%N /\ Forall (nm_sec p) (secs_of l)
      /\ Forall (fun B => (1 <= B)%N /\ (exists k, length l = k * N.to_nat B) /\ Forall (nm_sec p) (secs_of (cache_of p (N.to_nat B) l))
                          /\ (len (config_header name B) <= 65535)%N /\ (len (encode p (cache_of p (N.to_nat B) l)) < 2^64)%N) Bs
  end.
Fixpoint cvalid_all (l:list line) (ops:list cop) : Prop :=
  match ops with [] => True | o :: t => cvalid l o /\ cvalid_all (cspec l o) t end.
Fixpoint crun (st:fsys * series) (ops:list cop) : option (fsys * series) :=
  match ops with [] => Some st | o :: t => match cexec st o with Some st' => crun st' t | None => None end end.

Definition cinv (st:fsys * series) (l:list line) : Prop :=
  RepS (fst st) (snd st) p (outer header) (outer []) l cs
  /\ of_name (d_file (s_data (snd st))) = name ++ ext_data
  /\ of_name (ix_file (d_index (s_data (snd st)))) = name ++ ext_index
  /\ map cache_files (s_down (snd st)) = map (cache_names name) Bs.

Theorem cstep_ok st l o : cinv st l -> cvalid l o -> exists st', cexec st o = Some st' /\ cinv st' (cspec l o).
Proof.
  destruct st as [fs s]. intros (R & N1 & N2 & NC) V. cbn [fst snd] in *.
  destruct o as [ts pay|n lo hi|popt ho cb]; cbn [cvalid cexec cspec] in *.
  - destruct (accepts p l ts pay) eqn:A.
    + destruct (push_line_caches fs s p _ _ l cs ts pay R A) as (fs' & s' & E & R' & _ & _ & _ & M1 & M2 & M3).
      rewrite E. eexists. split; [reflexivity|]. split; [exact R'|]. cbn [snd]. rewrite M1, M2, M3. repeat split; assumption.
    + destruct (push_refused_caches fs s p _ _ l cs ts pay R V A) as (e & E). rewrite E. eexists. split; [reflexivity|].
      split; [exact R|repeat split; assumption].
  - pose proof (read_n_returns_levels p fs s _ _ l cs n lo hi R Hsorted) as RT.
    destruct (N.eq_dec n 0) as [->|Hn].
    + unfold read_n. rewrite (sorted_lens_ok p fs l _ _ (rs_caches _ _ _ _ _ _ _ R) Hsorted). cbn.
      eexists. split; [reflexivity|]. split; [exact R|repeat split; assumption].
    + destruct (read_n_levels_total p fs s _ _ l cs n lo hi R Hsorted ltac:(lia)) as (lev & _ & [(b & _ & E & _)|[_ E]]);
        rewrite E; eexists; (split; [reflexivity|]); (split; [exact R|repeat split; assumption]).
  - destruct V as ((Hopt & HO) & H64 & NM & FA).
    destruct (reopen_caches_aligned_nm p fs s uhdr name popt ho cb l Bs R N1 N2 NC NM Hh H64 Hp Hopt HO FA)
      as (s' & E & R' & _ & M1 & M2 & M3).
    fold header in E. rewrite E. eexists. split; [reflexivity|]. split; [exact R'|repeat split; assumption].
Qed.

Theorem history_caches_ok : forall ops st l, cinv st l -> cvalid_all l ops ->
  exists st', crun st ops = Some st' /\ cinv st' (fold_left cspec ops l).
Proof.
  induction ops as [|o t IH]; intros st l I V; cbn [crun fold_left cvalid_all] in *; [eauto|].
  destruct V as [Vo Vt]. destruct (cstep_ok st l o I Vo) as (st' & E & I'). rewrite E. apply (IH st' _ I' Vt).
Qed.

(* from creation with the cache levels configured *)
Lemma new_spec_open_spec B : new_spec name B = open_spec name B.
Proof. reflexivity. Qed.

Lemma chunks2_eq {A B C} (f:A -> list C) (g:B -> list C) : forall l m, length l = length m ->
  (forall x, length (f x) = 2) -> (forall y, length (g y) = 2) -> flat_map f l = flat_map g m -> map f l = map g m.
Proof.
  induction l as [|x l IH]; intros m LE Hf Hg E; destruct m as [|y m]; try discriminate; [reflexivity|].
  cbn [flat_map map] in *. pose proof (Hf x) as Lx. pose proof (Hg y) as Ly.
  destruct (f x) as [|a [|b [|c r]]]; try discriminate. destruct (g y) as [|a' [|b' [|c' r']]]; try discriminate.
  cbn [app] in E. injection E as E1 E2 E3. subst. f_equal. apply IH; [cbn [length] in LE; lia|assumption|assumption|exact E3].
Qed.

Theorem history_caches_from_create fs cb0 ops :
  fs_mem fs (name ++ ext_data) = false -> fs_mem fs (name ++ ext_index) = false ->
  Forall (fun B => (1 <= B)%N /\ (len (config_header name B) <= 65535)%N
                   /\ fs_mem fs (cache_name name B ++ ext_data) = false /\ fs_mem fs (cache_name name B ++ ext_index) = false) Bs ->
  NoDup ([name ++ ext_data; name ++ ext_index] ++ flat_map (cache_names name) Bs) ->
  cvalid_all [] ops ->
  exists fs0 s0 st', series_new name (N.of_nat p) uhdr Bs cb0 fs = (fs0, Ok s0)
    /\ crun (fs0, s0) ops = Some st' /\ cinv st' (fold_left cspec ops []).
Proof.
  intros M1 M2 F ND V.
  destruct (series_new_caches p fs name uhdr Bs cb0 M1 M2 Hh F ND) as (fs0 & s0 & E & R & _ & AF).
  assert (I0 : cinv (fs0, s0) []).
  { unfold cinv. cbn [fst snd].
    assert (EQ : map (new_spec name) Bs = cs) by (unfold cs; apply map_ext; intros B; apply new_spec_open_spec).
    rewrite EQ in R. split; [exact R|].
    unfold all_files in AF. cbn [app] in AF. injection AF as A1 A2 A3.
    split; [exact A1|split; [exact A2|]].
    apply chunks2_eq; [|intros x; reflexivity|intros y; reflexivity|exact A3].
    pose proof (rs_caches _ _ _ _ _ _ _ R) as F2. unfold cs in F2. clear -F2. revert F2. generalize (s_down s0) as dn.
    induction Bs as [|B t IHB]; intros dn F2; inversion F2; subst; [reflexivity|]. cbn [length map]. f_equal. apply IHB. assumption. }
  destruct (history_caches_ok ops (fs0, s0) [] I0 V) as (st' & HR & I').
  exists fs0, s0, st'. split; [exact E|split; assumption].
Qed.
End HistoryCaches.
