(* Common definitions shared by all layers: result type, checked u64 arithmetic,
   list helpers indexed by N, decimal text. No proofs here (see CommonFacts.v). *)
From Coq Require Import List NArith Bool Arith.
From Coq Require Import Strings.Byte.
Require Import BS.Bytes.
Import ListNotations.
Close Scope N_scope.
Open Scope nat_scope.

(* ---- results ---- *)
Inductive err :=
| EWrongLen | ENotAfterLast | ERange | ECorrupt | ENoData
| EExists | ENotFound | EMismatch | EHeaderTooLarge | EOther
| ENoHandle | ENoFile | EHandleOpen.

Inductive res (A:Type) :=
| Ok (a:A)
| Err (e:err)
| Panic            (* the Rust panics here in a build with overflow checks and debug assertions *)
| OutOfFuel.       (* only produced by fuelled loops *)
Arguments Ok {A} a. Arguments Err {A} e. Arguments Panic {A}. Arguments OutOfFuel {A}.

Definition bind {A B} (r:res A) (f:A -> res B) : res B :=
  match r with Ok a => f a | Err e => Err e | Panic => Panic | OutOfFuel => OutOfFuel end.
Notation "'do' x <- r ; k" := (bind r (fun x => k)) (at level 200, x pattern, r at level 100, k at level 200).

Definition is_ok {A} (r:res A) : bool := match r with Ok _ => true | _ => false end.

(* ---- checked u64 arithmetic ---- *)
Definition U64 : N := 18446744073709551616%N.   (* 2^64 *)
Definition u64_add (a b:N) : res N := if (a + b <? U64)%N then Ok (a + b)%N else Panic.
Definition u64_sub (a b:N) : res N := if (b <=? a)%N then Ok (a - b)%N else Panic.
Definition u64_mul (a b:N) : res N := if (a * b <? U64)%N then Ok (a * b)%N else Panic.
Definition next_multiple_of (a m:N) : N :=    (* m > 0 *)
  if (a mod m =? 0)%N then a else (a + (m - a mod m))%N.

(* linear-time reverse (List.rev is quadratic); frev_rev in CommonFacts: frev l = rev l *)
Definition frev {A} (l:list A) : list A := rev_append l [].

(* ---- lists indexed by N ---- *)
Definition len {A} (l:list A) : N := N.of_nat (length l).
(* n is clamped to the length first: N.to_nat of a huge (garbage) number must never be built *)
Definition take {A} (n:N) (l:list A) : list A := firstn (N.to_nat (N.min n (len l))) l.
Definition drop {A} (n:N) (l:list A) : list A := skipn (N.to_nat (N.min n (len l))) l.
Definition slice {A} (a b:N) (l:list A) : list A := take (b - a) (drop a l).   (* l[a..b] *)

(* chunks_exact: whole chunks of k elements, the remainder is dropped (k > 0) *)
Fixpoint chunks_fuel {A} (fuel k:nat) (l:list A) : list (list A) :=
  match fuel with
  | O => []
  | S f => let c := firstn k l in
           if length c <? k then [] else c :: chunks_fuel f k (skipn k l)
  end.
Definition chunks {A} (k:nat) (l:list A) : list (list A) :=
  match k with O => [] | _ => chunks_fuel (length l) k l end.

Fixpoint position {A} (f:A -> bool) (l:list A) : option N :=
  match l with
  | [] => None
  | x :: t => if f x then Some 0%N else option_map N.succ (position f t)
  end.
(* index of the last element satisfying f *)
Fixpoint rposition_from {A} (f:A -> bool) (i:N) (l:list A) (best:option N) : option N :=
  match l with
  | [] => best
  | x :: t => rposition_from f (N.succ i) t (if f x then Some i else best)
  end.
Definition rposition {A} (f:A -> bool) (l:list A) : option N := rposition_from f 0%N l None.

Definition last_opt {A} (l:list A) : option A :=
  match l with [] => None | x :: t => Some (last t x) end.
Definition pairs {A} (l:list A) : list (A * A) :=   (* itertools tuple_windows *)
  match l with [] => [] | _ :: t => combine l t end.

(* ---- byte lists ---- *)
Definition bytes_eqb (a b:list byte) : bool :=
  if list_eq_dec Byte.byte_eq_dec a b then true else false.
Fixpoint is_prefix (pat l:list byte) : bool :=
  match pat, l with
  | [], _ => true
  | a :: p', b :: l' => Byte.eqb a b && is_prefix p' l'
  | _ :: _, [] => false
  end.
(* str::find: offset of the first occurrence *)
Fixpoint find_sub (pat l:list byte) : option N :=
  if is_prefix pat l then Some 0%N
  else match l with [] => None | _ :: t => option_map N.succ (find_sub pat t) end.
Fixpoint count_byte (b:byte) (l:list byte) : N :=
  match l with [] => 0%N | x :: t => ((if Byte.eqb x b then 1 else 0) + count_byte b t)%N end.

(* ---- decimal text ---- *)
Definition digit (d:N) : byte := byte_of_N (48 + d).
Fixpoint dec_fuel (fuel:nat) (n:N) (acc:list byte) : list byte :=
  match fuel with
  | O => acc
  | S f => let acc' := digit (n mod 10) :: acc in
           if (n / 10 =? 0)%N then acc' else dec_fuel f (n / 10) acc'
  end.
Definition dec (n:N) : list byte := dec_fuel (S (N.to_nat (N.log2 n))) n [].
Definition digit_val (b:byte) : option N :=
  let v := Byte.to_N b in if ((48 <=? v) && (v <=? 57))%N then Some (v - 48)%N else None.
(* unsigned integer parse: digits only, non-empty, value below bound *)
Fixpoint parse_dec_acc (l:list byte) (acc:N) : option N :=
  match l with
  | [] => Some acc
  | b :: t => match digit_val b with Some d => parse_dec_acc t (acc * 10 + d)%N | None => None end
  end.
Definition parse_dec (bound:N) (l:list byte) : option N :=
  match l with
  | [] => None
  | _ => match parse_dec_acc l 0%N with Some v => if (v <? bound)%N then Some v else None | None => None end
  end.

(* overwrite bytes in place starting from_end bytes before the end (script op fs_patch) *)
Definition patch_from_end {A} (c:list A) (from_end:N) (b:list A) : list A :=
  if (len c <? from_end)%N then c else
  let start := (len c - from_end)%N in
  let b' := take from_end b in
  take start c ++ b' ++ drop (start + len b') c.
