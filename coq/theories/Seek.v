(* Layer I: src/seek.rs and src/seek/estimate.rs *)
From Coq Require Import List NArith Bool Arith.
From Coq Require Import Strings.Byte.
Require Import BS.Bytes BS.Common BS.Api BS.FS BS.Meta BS.Header BS.Reader BS.Index BS.Data.
Require BSgen.Consts.
Import ListNotations.
Close Scope N_scope. Open Scope nat_scope.


Record rough := {
  start_ts : N; start_area_ : start_area; start_full : N;
  end_ts : N; end_area_ : end_area; end_full : N }.
Record pos := { p_start : N; p_end : N; p_full : N }.

(* checked_start_time / checked_end_time (after the fix: Excluded is ts+1 / ts-1, checked) *)
Definition checked_start_time (d:data) (b:bound) : res N :=
  do r <- data_range d;
  match r with
  | None => Err ERange                                (* EmptyFile *)
  | Some (first, last) =>
      do s <- match b with
              | Incl ts => Ok ts
              | Excl ts => if (ts + 1 <? U64)%N then Ok (ts + 1)%N else Err ERange
              | Unb => Ok first
              end;
      let s := N.max s first in
      if (last <? s)%N then Err ERange else Ok s
  end.
Definition checked_end_time (d:data) (b:bound) : res N :=
  do r <- data_range d;
  match r with
  | None => Err ERange
  | Some (first, last) =>
      do e <- match b with
              | Incl ts => Ok ts
              | Excl ts => if (ts =? 0)%N then Err ERange else Ok (ts - 1)%N
              | Unb => Ok last
              end;
      let e := N.min e last in
      if (e <? first)%N then Err ERange else Ok e
  end.

(* whether the failure of RoughPos::new is seek::Error::EmptyFile (n_lines_between and repair
   treat it specially) *)
Definition is_empty_file (d:data) : bool :=
  match data_range d with Ok None => true | _ => false end.

(* RoughPos::new *)
Definition rough_new (d:data) (lo hi:bound) : res rough :=
  do s <- checked_start_time d lo;
  do e <- checked_end_time d hi;
  if (e <? s)%N then Err ERange else
  let es := ix_entries (d_index d) in
  let p := d_p d in
  do sa <- match lo with
           | Unb => match es with
                    | e0 :: _ => Ok (SFound (line_start p 0), fst e0)
                    | [] => Panic
                    end
           | _ => start_search_bounds es p s
           end;
  do ea <- match hi with
           | Unb => if (d_len d <? line_size p)%N then Panic else
                    match ix_last (d_index d) with
                    | Some l => Ok (EFound (d_len d - line_size p)%N, l)
                    | None => Panic
                    end
           | _ => end_search_bounds es p e
           end;
  Ok {| start_ts := s; start_area_ := fst sa; start_full := snd sa;
        end_ts := e; end_area_ := fst ea; end_full := snd ea |}.

Definition small_ts_of (ts full:N) : res N :=
  if (ts <? full)%N then Panic else
  if (BSgen.Consts.max_small_ts <? ts - full)%N then Panic else Ok (ts - full)%N.

(* find_read_start *)
Definition find_read_start (d:data) (start_time:N) (start stop:N) : M N :=
  let L := line_size (d_p d) in
  if (stop <=? start + L)%N then ret stop else
  let* buf := of_read_at (d_file d) start (stop - start) in
  match position (fun ln => (start_time <=? le_dec (firstn 2 ln))%N) (chunks (d_p d + 2) buf) with
  | Some i => ret (start + i * L)%N
  | None => ret stop
  end.
(* find_read_end *)
Definition find_read_end (d:data) (end_time:N) (start stop:N) : M N :=
  let L := line_size (d_p d) in
  if (stop <? start)%N then mpanic else
  let* buf := of_read_at (d_file d) start (stop - start) in
  match rposition (fun ln => (le_dec (firstn 2 ln) <=? end_time)%N) (chunks (d_p d + 2) buf) with
  | Some i => ret (start + (i + 1) * L)%N
  | None => ret stop
  end.

(* RoughPos::refine *)
Definition refine (r:rough) (d:data) : M (option pos) :=
  let p := d_p d in
  let* start_byte :=
    match start_area_ r with
    | SFound x | SGap x => ret x
    | SClipped => ret (line_start p 0)
    | STillEnd s => let* st := lift (small_ts_of (start_ts r) (start_full r)) in find_read_start d st s (d_len d)
    | SWindow s stop => let* st := lift (small_ts_of (start_ts r) (start_full r)) in find_read_start d st s stop
    end in
  let* end_byte :=
    match end_area_ r with
    | EFound x => ret (x + line_size p)%N
    | EGap x => ret x
    | ETillEnd s => let* et := lift (small_ts_of (end_ts r) (end_full r)) in find_read_end d et s (d_len d)
    | EWindow s stop => let* et := lift (small_ts_of (end_ts r) (end_full r)) in find_read_end d et s stop
    end in
  if (end_byte <=? start_byte)%N then ret None
  else ret (Some {| p_start := start_byte; p_end := end_byte; p_full := start_full r |}).

(* Pos::lines *)
Definition pos_lines (ps:pos) (p:nat) : res N :=
  do b <- u64_sub (p_end ps) (p_start ps); Ok (b / line_size p)%N.

(* ---- estimate.rs (after the fix: saturating subtraction) ---- *)
Definition estimate_lines (r:rough) (p:nat) (data_len:N) : res (N * N) :=     (* (max, min) *)
  let sub a b := (a - b)%N in
  do mm <- match start_area_ r, end_area_ r with
           | (SFound s | SGap s), EFound e => Ok (sub e s, sub e s)
           | (SFound s | SGap s), EGap e => Ok (sub e s, sub e s)
           | (SFound s | SGap s), ETillEnd e => Ok (sub data_len s, sub e s)
           | (SFound s | SGap s), EWindow emin emax => Ok (sub emax s, sub emin s)
           | SClipped, EFound e => Ok (e, e)
           | SClipped, EGap e => Ok (e, e)
           | SClipped, ETillEnd e => Ok (data_len, e)
           | SClipped, EWindow emin emax => Ok (emax, emin)
           | STillEnd s, EFound e => Ok (sub e s, 1%N)
           | STillEnd s, EGap e => Ok (sub (line_start p e) s, 1%N)
           | STillEnd s, ETillEnd _ => Ok (sub data_len s, 1%N)
           | STillEnd _, EWindow _ _ => Panic                     (* unreachable!() *)
           | SWindow smin smax, EFound e => Ok (sub e smin, sub e (line_start p smax))
           | SWindow smin smax, EGap e => Ok (sub e smin, sub e smax)
           | SWindow smin smax, ETillEnd e => Ok (sub data_len smin, sub e (line_start p smax))
           | SWindow smin smax, EWindow emin emax => Ok (sub emax smin, sub emin (line_start p smax))
           end;
  Ok ((fst mm / line_size p)%N, (snd mm / line_size p)%N).
