(* C05, the data file: FileWithInlineMeta::new on a data file that was cut at ANY byte length brings it back to the
   encoding of exactly the lines that were completely written before the cut (payload sizes >= 4).
   Covers repair_incomplete_last_write, repaired_is_only_meta, removed_partial_meta_at_end. *)
From Coq Require Import List NArith ZArith Lia Bool Arith ZifyBool ZifyN ZifyNat Sorted.
From Coq Require Import Strings.Byte.
Require Import BS.Bytes BS.Common BS.CommonFacts BS.Api BS.Layout BS.Format BS.FormatFacts BS.Spec BS.SpecStep BS.Sections.
Require Import BS.FS BS.FSFacts BS.Meta BS.MetaFacts BS.Header BS.Reader BS.Index BS.Data BS.DataFacts BS.Seek BS.Series BS.SeriesFacts BS.TotalFacts BS.ExtractFacts BS.LastMetaFacts BS.OpenFacts.
Require BSgen.Consts.
Import ListNotations.
Close Scope N_scope. Open Scope nat_scope.
Arguments N.add : simpl never. Arguments N.mul : simpl never. Arguments N.sub : simpl never.
Arguments N.ltb : simpl never. Arguments N.leb : simpl never. Arguments N.eqb : simpl never.
Arguments N.div : simpl never. Arguments N.modulo : simpl never.

(* ---- truncating a file ---- *)
Lemma of_set_len_trunc fs o hdr region n : file_is fs o hdr region -> n <= length region ->
  exists fs', of_set_len o (N.of_nat n) fs = (fs', Ok tt) /\ file_is fs' o hdr (firstn n region)
    /\ (forall g, g <> of_name o -> fs_get fs' g = fs_get fs g).
Proof.
  intros [G O] Hn. unfold of_set_len, set_file_len. rewrite G. eexists. split; [reflexivity|]. split; [split|].
  - rewrite fs_get_put_same. f_equal. rewrite O. rewrite take_firstn.
    replace (N.to_nat (N.of_nat n + len hdr)) with (length hdr + n) by (unfold len; lia).
    rewrite firstn_app, firstn_all2 by lia. replace (length hdr + n - length hdr) with n by lia.
    replace (N.to_nat (N.of_nat n + len hdr - len (hdr ++ region))) with 0 by (unfold len; rewrite app_length; lia).
    cbn [repeat]. rewrite app_nil_r. reflexivity.
  - exact O.
  - intros g Hg. apply fs_get_put_other. exact Hg.
Qed.

Section Torn.
Variable p : nat.
Hypothesis H4 : 4 <= p.
Notation L := (p + 2).

Lemma K2 : Layout.K p = 2.
Proof. unfold Layout.K, Layout.ncont. destruct p as [|[|[|[|n]]]]; lia. Qed.
Lemma sec2 f : enc_section p f = Layout.sec_a p f ++ Layout.sec_b p f.
Proof.
  unfold enc_section, Layout.sec_slots, Layout.sec_got, Layout.chunk_pad.
  assert (N0 : Layout.ncont p = 0) by (unfold Layout.ncont; destruct p as [|[|[|[|n]]]]; lia).
  rewrite N0. cbn [Layout.take_slots concat]. rewrite app_nil_r. reflexivity.
Qed.
Lemma sec_a_len f : length (Layout.sec_a p f) = L.
Proof. pose proof (sec_slots_lengths p f) as F. unfold Layout.sec_slots in F. inversion F; assumption. Qed.
Lemma sec_b_len f : length (Layout.sec_b p f) = L.
Proof. pose proof (sec_slots_lengths p f) as F. unfold Layout.sec_slots in F. inversion F as [|? ? _ F']; subst. inversion F'; assumption. Qed.

(* what remains of the encoding when it is cut after m whole slots: the encoding of the first k lines, followed by
   nothing, or by the first or both marker slots of the section the next line would have opened *)
Inductive extra : list byte -> Prop :=
| XNone : extra []
| XOne f : extra (Layout.sec_a p f)
| XTwo f : extra (Layout.sec_a p f ++ Layout.sec_b p f).

Lemma cut_position : forall l, wf_series p l -> forall c, c <= length (encode p l) ->
  exists k X, k <= length l /\ extra X
    /\ firstn (c / L * L) (encode p l) = encode p (firstn k l) ++ X
    /\ (k < length l -> c < length (encode p (firstn (S k) l))).
Proof.
  intros l. induction l as [|x l0 IH] using rev_ind; intros W c Hc.
  - cbn [encode encode_from length] in Hc. assert (c = 0) by lia. subst c. exists 0, []. split; [cbn; lia|]. split; [constructor|].
    split; [rewrite Nat.div_0_l by lia; reflexivity|cbn [length]; lia].
  - assert (W0 : wf_series p l0).
    { destruct W as [S F]. split; [rewrite map_app in S; apply sorted_app_inv in S; apply S|apply Forall_app in F; apply F]. }
    assert (Hp : length (snd x) = p).
    { destruct W as [_ F]. rewrite Forall_forall in F. apply F. apply in_or_app. right. left. reflexivity. }
    pose proof (encode_snoc p l0 x) as EN.
    pose proof (encode_length p l0 (wf_payloads p l0 W0)) as EL0.
    set (s0 := slots_from p None l0) in *.
    set (tb := fst (tail_bytes p (full_after p None l0) x)) in *.
    pose proof (tail_bytes_rule p (full_after p None l0) x Hp) as TR. rewrite K2 in TR.
    destruct (Nat.le_gt_cases c (length (encode p l0))) as [Le|Gt].
    + (* the cut lies inside the encoding of l0 *)
      destruct (IH W0 c Le) as (k & X & Hk & EX & FE & MX).
      exists k, X. split; [rewrite app_length; cbn [length]; lia|]. split; [exact EX|].
      assert (ML : c / L * L <= length (encode p l0)).
      { pose proof (Nat.div_mod c L ltac:(lia)). pose proof (Nat.mod_upper_bound c L ltac:(lia)). lia. }
      split.
      * rewrite EN, firstn_app. replace (c / L * L - length (encode p l0)) with 0 by lia. cbn [firstn]. rewrite app_nil_r.
        rewrite firstn_app. replace (k - length l0) with 0 by lia. cbn [firstn]. rewrite app_nil_r. exact FE.
      * intros _. destruct (Nat.lt_ge_cases k (length l0)) as [Lt|Ge].
        -- rewrite firstn_app. replace (S k - length l0) with 0 by lia. cbn [firstn]. rewrite app_nil_r. apply MX. exact Lt.
        -- assert (k = length l0) by lia. subst k. rewrite firstn_all2 by (rewrite app_length; cbn [length]; lia).
           rewrite EN, app_length. assert (1 <= length tb).
           { destruct (full_after p None l0) as [f|]; [destruct (fst x - f <=? 65534)%N|]; fold tb in TR; lia. }
           lia.
    + (* the cut lies in the bytes of the last line *)
      rewrite EN, app_length in Hc.
      assert (DM := Nat.div_mod c L ltac:(lia)). assert (MU := Nat.mod_upper_bound c L ltac:(lia)).
      assert (TB3 : tb = enc_line (match full_after p None l0 with Some f => if (fst x - f <=? MAXD)%N then fst x - f else 0 | None => 0 end)%N (snd x)
                    \/ exists f, tb = Layout.sec_a p f ++ Layout.sec_b p f ++ enc_line 0 (snd x)).
      { unfold tb, tail_bytes. destruct (full_after p None l0) as [f|]; [destruct (fst x - f <=? MAXD)%N|]; cbn [fst].
        - left. reflexivity.
        - right. exists (fst x). rewrite sec2, <- app_assoc. reflexivity.
        - right. exists (fst x). rewrite sec2, <- app_assoc. reflexivity. }
      assert (ELn : forall d, length (enc_line d (snd x)) = L) by (intros d; apply enc_line_length; exact Hp).
      set (m := c / L) in *.
      assert (Mge : s0 <= m) by nia.
      (* the whole encoding, k = all lines *)
      assert (FULL : c = length (encode p l0) + length tb ->
              exists k X, k <= length (l0 ++ [x]) /\ extra X /\ firstn (m * L) (encode p l0 ++ tb) = encode p (firstn k (l0 ++ [x])) ++ X
                /\ (k < length (l0 ++ [x]) -> c < length (encode p (firstn (S k) (l0 ++ [x]))))).
      { intros E. exists (length (l0 ++ [x])), []. split; [lia|]. split; [constructor|].
        rewrite firstn_all, app_nil_r, EN. split; [|lia].
        assert (m * L = length (encode p l0) + length tb).
        { assert (Q : exists q, length (encode p l0) + length tb = q * L).
          { destruct TB3 as [T|[f T]]; rewrite T; rewrite ?app_length, ?sec_a_len, ?sec_b_len, ?ELn, EL0; [exists (s0 + 1)|exists (s0 + 3)]; lia. }
          destruct Q as [q Q]. rewrite Q. unfold m. rewrite E, Q, Nat.div_mul by lia. reflexivity. }
        rewrite firstn_all2 by (rewrite app_length; lia). reflexivity. }
      (* only l0, with X *)
      assert (PART : forall X, extra X -> firstn (m * L - length (encode p l0)) tb = X -> c < length (encode p l0) + length tb ->
              exists k X, k <= length (l0 ++ [x]) /\ extra X /\ firstn (m * L) (encode p l0 ++ tb) = encode p (firstn k (l0 ++ [x])) ++ X
                /\ (k < length (l0 ++ [x]) -> c < length (encode p (firstn (S k) (l0 ++ [x]))))).
      { intros X EX FX Lt. exists (length l0), X. split; [rewrite app_length; cbn [length]; lia|]. split; [exact EX|]. split.
        - rewrite firstn_app, firstn_all2 by nia. rewrite firstn_app, firstn_all, Nat.sub_diag. cbn [firstn]. rewrite app_nil_r. f_equal. exact FX.
        - intros _. rewrite firstn_all2 by (rewrite app_length; cbn [length]; lia). rewrite EN, app_length. exact Lt. }
      rewrite EN.
      destruct TB3 as [T|[f T]].
      * (* one slot *)
        assert (LT1 : length tb = L) by (rewrite T; apply ELn). rewrite LT1 in Hc.
        destruct (Nat.eq_dec c (length (encode p l0) + L)) as [E|NE]; [apply FULL; lia|].
        apply (PART [] XNone); [|lia].
        assert (Em : m = s0) by (unfold m; symmetry; apply (Nat.div_unique c L s0 (c - s0 * L)); lia).
        replace (m * L - length (encode p l0)) with 0 by (rewrite Em, EL0; lia). reflexivity.
      * assert (LT3 : length tb = 3 * L) by (rewrite T, !app_length, sec_a_len, sec_b_len, ELn; lia). rewrite LT3 in Hc.
        destruct (Nat.eq_dec c (length (encode p l0) + 3 * L)) as [E|NE]; [apply FULL; lia|].
        assert (CASES : m = s0 \/ m = s0 + 1 \/ m = s0 + 2).
        { destruct (Nat.lt_ge_cases c (s0 * L + L)) as [A|A]; [left; unfold m; symmetry; apply (Nat.div_unique c L s0 (c - s0 * L)); lia|].
          destruct (Nat.lt_ge_cases c (s0 * L + 2 * L)) as [B|B]; [right; left; unfold m; symmetry; apply (Nat.div_unique c L (s0 + 1) (c - (s0 + 1) * L)); lia|].
          right; right; unfold m; symmetry; apply (Nat.div_unique c L (s0 + 2) (c - (s0 + 2) * L)); lia. }
        destruct CASES as [E|[E|E]].
        -- apply (PART [] XNone); [|lia]. replace (m * L - length (encode p l0)) with 0 by (rewrite E, EL0; lia). reflexivity.
        -- apply (PART _ (XOne f)); [|lia]. replace (m * L - length (encode p l0)) with (length (Layout.sec_a p f)) by (rewrite sec_a_len, E, EL0; lia).
           rewrite T. apply firstn_app_exact.
        -- apply (PART _ (XTwo f)); [|lia].
           replace (m * L - length (encode p l0)) with (length (Layout.sec_a p f ++ Layout.sec_b p f)) by (rewrite app_length, sec_a_len, sec_b_len, E, EL0; lia).
           rewrite T, app_assoc. apply firstn_app_exact.
Qed.

(* ---- the window removed_partial_meta_at_end looks at ---- *)
Definition fake : list byte := [pre0; pre1] ++ repeat x00 p.
Lemma fake_len : length fake = L.
Proof. unfold fake. rewrite app_length, repeat_length. cbn [length]. lia. Qed.
Lemma fake_marker : Meta.is_marker fake = true.
Proof. reflexivity. Qed.

Lemma window2 (A s1 s2:list byte) : length s1 = L -> length s2 = L ->
  slice (len (A ++ s1 ++ s2) - metainfo_size p) (len (A ++ s1 ++ s2)) (A ++ s1 ++ s2) = s1 ++ s2
  /\ chunks L ((s1 ++ s2) ++ fake) = [s1; s2; fake].
Proof.
  intros L1 L2. assert (MS : metainfo_size p = N.of_nat (2 * L)).
  { unfold metainfo_size, line_size. rewrite K_eq, K2. lia. }
  split.
  - rewrite MS. unfold slice. rewrite drop_skipn, take_firstn.
    replace (N.to_nat (len (A ++ s1 ++ s2) - N.of_nat (2 * L))) with (length A) by (unfold len; rewrite !app_length; lia).
    rewrite skipn_app, skipn_all, Nat.sub_diag. cbn [skipn app].
    replace (N.to_nat (len (A ++ s1 ++ s2) - (len (A ++ s1 ++ s2) - N.of_nat (2 * L)))) with (length (s1 ++ s2))
      by (unfold len; rewrite !app_length; lia).
    apply firstn_all.
  - replace ((s1 ++ s2) ++ fake) with (concat [s1; s2; fake]) by (cbn [concat]; rewrite app_nil_r, app_assoc; reflexivity).
    apply chunks_concat; [lia|]. repeat constructor; try assumption. apply fake_len.
Qed.

Lemma sec_a_marker f : Meta.is_marker (Layout.sec_a p f) = true.
Proof. rewrite is_marker_eq. apply (Layout.sec_slots_shape p f). Qed.
Lemma sec_b_marker f : Meta.is_marker (Layout.sec_b p f) = true.
Proof. rewrite is_marker_eq. apply (Layout.sec_slots_shape p f). Qed.

Lemma wf_firstn k l : wf_series p l -> wf_series p (firstn k l).
Proof.
  intros [SS F]. split; [|apply Forall_firstn; exact F]. rewrite <- firstn_map.
  clear -SS. revert k. induction SS as [|a l1 S1 IHS Hall]; intros k; [rewrite firstn_nil; constructor|].
  destruct k; cbn [firstn]; constructor; [apply IHS|apply Forall_firstn; exact Hall].
Qed.

Lemma encode_prefix_min k l : wf_series p l -> 1 <= k -> k <= length l -> 3 * L <= length (encode p (firstn k l)).
Proof.
  intros W H1 H2. pose proof (wf_firstn k l W) as Wf.
  destruct l as [|x t]; [cbn [length] in H2; lia|]. destruct k as [|k']; [lia|]. cbn [firstn] in *.
  rewrite (encode_length p _ (wf_payloads p _ Wf)). cbn [slots_from]. rewrite K2. lia.
Qed.

(* FileWithInlineMeta::new on a data file cut at any byte length *)
Theorem fwim_new_torn fs o hdr l c : wf_series p l -> c <= length (encode p l) ->
  file_is fs o hdr (firstn c (encode p l)) ->
  exists fs' k, fwim_new o p fs = (fs', Ok tt) /\ k <= length l
    /\ file_is fs' o hdr (encode p (firstn k l))
    /\ length (encode p (firstn k l)) <= c
    /\ (k < length l -> c < length (encode p (firstn (S k) l)))
    /\ (forall g, g <> of_name o -> fs_get fs' g = fs_get fs g).
Proof.
  intros W Hc FI. remember (firstn c (encode p l)) as R eqn:ER.
  assert (LR : length R = c) by (rewrite ER, firstn_length; lia).
  assert (MS : metainfo_size p = N.of_nat (2 * L)).
  { unfold metainfo_size, line_size. rewrite K_eq, K2. lia. }
  unfold fwim_new. erewrite mbind_ok by (apply (of_len_ok _ _ _ _ FI)). unfold len. rewrite LR.
  destruct (N.of_nat c =? 0)%N eqn:Z.
  { apply N.eqb_eq in Z. assert (C0 : c = 0) by lia.
    assert (RN : R = []) by (destruct R; [reflexivity|cbn [length] in LR; lia]).
    exists fs, 0. split; [reflexivity|]. split; [lia|].
    split; [cbn [firstn encode encode_from]; rewrite <- RN; exact FI|]. split; [cbn; lia|]. split; [|intros; reflexivity].
    intros Hk. pose proof (encode_prefix_min 1 l W ltac:(lia) ltac:(lia)). lia. }
  apply N.eqb_neq in Z.
  destruct (cut_position l W c Hc) as (k & X & Hk & EX & FE & MX).
  set (m := c / L) in *. set (E := encode p (firstn k l)) in *.
  assert (DM := Nat.div_mod c L ltac:(lia)). assert (MU := Nat.mod_upper_bound c L ltac:(lia)). fold m in DM.
  assert (ML : m * L <= c) by (rewrite (Nat.mul_comm m L); lia).
  assert (LE : length E + length X = m * L).
  { apply (f_equal (@length byte)) in FE. rewrite firstn_length, app_length in FE. lia. }
  (* step 1: cut to whole slots *)
  assert (S1 : exists fs1, repair_incomplete_last_write o p fs = (fs1, Ok tt) /\ file_is fs1 o hdr (E ++ X)
                 /\ (forall g, g <> of_name o -> fs_get fs1 g = fs_get fs g)).
  { unfold repair_incomplete_last_write. erewrite mbind_ok by (apply (of_len_ok _ _ _ _ FI)). unfold len, line_size. rewrite LR.
    rewrite <- Nat2N.inj_mod. destruct (0 <? N.of_nat (c mod L))%N eqn:C.
    - destruct (of_set_len_trunc fs o hdr R (m * L) FI ltac:(lia)) as (fs1 & E1 & F1 & O1).
      exists fs1. replace (N.of_nat c - N.of_nat (c mod L))%N with (N.of_nat (m * L)) by lia. split; [exact E1|]. split; [|exact O1].
      rewrite ER, firstn_firstn, Nat.min_l in F1 by lia. rewrite FE in F1. exact F1.
    - apply N.ltb_ge in C. exists fs. split; [reflexivity|]. split; [|intros; reflexivity].
      assert (c = m * L) by lia. rewrite <- FE. rewrite <- H. rewrite <- ER. exact FI. }
  destruct S1 as (fs1 & E1 & F1 & O1). erewrite mbind_ok by exact E1.
  assert (LEX : len (E ++ X) = N.of_nat (m * L)) by (unfold len; rewrite app_length; lia).
  (* step 2: at most a section header left *)
  destruct (N.of_nat (m * L) <=? N.of_nat (2 * L))%N eqn:C2.
  { apply N.leb_le in C2. assert (Hm : m <= 2) by nia.
    assert (k = 0).
    { destruct (Nat.eq_dec k 0) as [->|NZ]; [reflexivity|]. pose proof (encode_prefix_min k l W ltac:(lia) Hk). fold E in H. nia. }
    subst k. destruct (of_set_len_trunc fs1 o hdr (E ++ X) 0 F1 ltac:(lia)) as (fs2 & E2 & F2 & O2).
    change (N.of_nat 0) with 0%N in E2.
    assert (OM : repaired_is_only_meta o p fs1 = (fs2, Ok true)).
    { unfold repaired_is_only_meta. erewrite mbind_ok by (apply (of_len_ok _ _ _ _ F1)). rewrite LEX, MS.
      replace (N.of_nat (m * L) <=? N.of_nat (2 * L))%N with true by (symmetry; apply N.leb_le; exact C2).
      erewrite mbind_ok by exact E2. reflexivity. }
    erewrite mbind_ok by exact OM. cbv iota.
    exists fs2, 0. split; [reflexivity|]. split; [lia|]. cbn [firstn] in *. split; [exact F2|]. split; [cbn; lia|].
    split; [exact MX|]. intros g Hg. rewrite O2, O1 by exact Hg. reflexivity. }
  assert (OM : repaired_is_only_meta o p fs1 = (fs1, Ok false)).
  { unfold repaired_is_only_meta. erewrite mbind_ok by (apply (of_len_ok _ _ _ _ F1)). rewrite LEX, MS, C2. reflexivity. }
  erewrite mbind_ok by exact OM. cbv iota.
  apply N.leb_gt in C2. assert (Hm : 3 <= m) by nia.
  (* step 3: a partial section header at the end *)
  assert (KPOS : 1 <= k).
  { destruct (Nat.eq_dec k 0) as [->|NZ]; [|lia]. exfalso. unfold E in LE. cbn [firstn encode encode_from length] in LE.
    inversion EX as [HX|f HX|f HX]; rewrite <- HX in LE; rewrite ?app_length, ?sec_a_len, ?sec_b_len in LE; cbn [length] in LE; nia. }
  assert (Wk : wf_series p (firstn k l)) by (apply wf_firstn; exact W).
  assert (NEk : firstn k l <> []) by (destruct l; [cbn [length] in Hk; lia|destruct k; [lia|discriminate]]).
  destruct (encode_last_slot p (firstn k l) Wk NEk) as (A & d & pay & EA & Am & Hd & Hpay & AK). fold E in EA.
  assert (ND : Meta.is_marker (enc_line d pay) = false).
  { rewrite is_marker_eq. change (enc_line d pay) with (Layout.line_slot d pay). apply Layout.line_slot_not_marker. exact Hd. }
  assert (LD : length (enc_line d pay) = L) by (apply enc_line_length; exact Hpay).
  (* the common start of removed_partial_meta_at_end *)
  assert (RPM : forall fsx b, 
            (match position (fun ab : slot * slot => Meta.is_marker (fst ab) && Meta.is_marker (snd ab))
                     (pairs (chunks L (slice (len (E ++ X) - metainfo_size p) (len (E ++ X)) (E ++ X) ++ [pre0; pre1] ++ repeat x00 p))) with
             | Some i => exec of_set_len o (len (E ++ X) - metainfo_size p + i * line_size p) in ret true
             | None => ret false
             end) fs1 = (fsx, Ok b) ->
            removed_partial_meta_at_end o p fs1 = (fsx, Ok b)).
  { intros fsx b H. unfold removed_partial_meta_at_end. erewrite mbind_ok by (apply (of_len_ok _ _ _ _ F1)).
    replace (len (E ++ X) <? metainfo_size p)%N with false by (symmetry; apply N.ltb_ge; rewrite LEX, MS; lia).
    erewrite mbind_ok by (apply (of_read_at_ok _ _ _ _ _ _ F1); rewrite LEX, MS; lia).
    replace (len (E ++ X) - metainfo_size p + metainfo_size p)%N with (len (E ++ X)) by (rewrite LEX, MS; lia).
    exact H. }
  inversion EX as [HX|f HX|f HX]; subst X.
  - (* a clean end: nothing is removed *)
    pose proof (tail_clean_p4 p (firstn k l) H4 Wk NEk) as TC. fold E in TC.
    assert (RP : removed_partial_meta_at_end o p fs1 = (fs1, Ok false)).
    { apply RPM. rewrite app_nil_r. unfold tail_clean, tail_pairs in TC. rewrite TC. reflexivity. }
    erewrite mbind_ok by exact RP. cbv iota.
    rewrite app_nil_r in *.
    assert (LE3 : 3 * L <= length E) by (cbn [length] in LE; nia).
    assert (RS : removed_start_of_meta_at_end o p fs1 = (fs1, Ok false)).
    { unfold removed_start_of_meta_at_end. erewrite mbind_ok by (apply (of_len_ok _ _ _ _ F1)).
      replace (len E <? metainfo_size p)%N with false by (symmetry; apply N.ltb_ge; rewrite MS; unfold len; lia).
      erewrite mbind_ok; [reflexivity|]. apply (of_read_at_ok _ _ _ _ _ _ F1). rewrite MS. unfold line_size, len. lia. }
    erewrite mbind_ok by exact RS.
    exists fs1, k. split; [reflexivity|]. split; [exact Hk|]. split; [exact F1|]. split; [fold E; cbn [length] in LE; lia|]. split; [exact MX|exact O1].
  - (* the first marker line of a section: removed *)
    rewrite sec_a_len in LE.
    assert (EAX : E ++ Layout.sec_a p f = A ++ enc_line d pay ++ Layout.sec_a p f) by (rewrite EA, <- app_assoc; reflexivity).
    destruct (window2 A (enc_line d pay) (Layout.sec_a p f) LD (sec_a_len f)) as [WS WC].
    destruct (of_set_len_trunc fs1 o hdr (E ++ Layout.sec_a p f) (length E) F1 ltac:(rewrite app_length; lia)) as (fs2 & E2 & F2 & O2).
    assert (RP : removed_partial_meta_at_end o p fs1 = (fs2, Ok true)).
    { apply RPM. assert (LEA : length E = length A + L) by (rewrite EA, app_length, LD; reflexivity).
      rewrite EA, <- app_assoc. rewrite WS. fold fake. rewrite WC. cbn [pairs combine position fst snd].
      rewrite ND, sec_a_marker, fake_marker. cbn [andb option_map].
      replace (len (A ++ enc_line d pay ++ Layout.sec_a p f) - metainfo_size p + N.succ 0 * line_size p)%N with (N.of_nat (length E))
        by (rewrite MS; unfold len, line_size; rewrite !app_length, sec_a_len, LD, LEA; lia).
      erewrite mbind_ok by exact E2. reflexivity. }
    erewrite mbind_ok by exact RP. cbv iota.
    rewrite firstn_app_exact in F2.
    exists fs2, k. split; [reflexivity|]. split; [exact Hk|]. split; [exact F2|]. split; [fold E; lia|]. split; [exact MX|].
    intros g Hg. rewrite O2, O1 by exact Hg. reflexivity.
  - (* both marker lines of a section: removed *)
    rewrite app_length, sec_a_len, sec_b_len in LE.
    destruct (window2 E (Layout.sec_a p f) (Layout.sec_b p f) (sec_a_len f) (sec_b_len f)) as [WS WC].
    destruct (of_set_len_trunc fs1 o hdr (E ++ Layout.sec_a p f ++ Layout.sec_b p f) (length E) F1 ltac:(rewrite app_length; lia)) as (fs2 & E2 & F2 & O2).
    assert (RP : removed_partial_meta_at_end o p fs1 = (fs2, Ok true)).
    { apply RPM. rewrite WS. fold fake. rewrite WC. cbn [pairs combine position fst snd].
      rewrite sec_a_marker, sec_b_marker. cbn [andb option_map].
      replace (len (E ++ Layout.sec_a p f ++ Layout.sec_b p f) - metainfo_size p + 0 * line_size p)%N with (N.of_nat (length E))
        by (rewrite MS; unfold len, line_size; rewrite !app_length, sec_a_len, sec_b_len; lia).
      erewrite mbind_ok by exact E2. reflexivity. }
    erewrite mbind_ok by exact RP. cbv iota.
    rewrite firstn_app_exact in F2.
    exists fs2, k. split; [reflexivity|]. split; [exact Hk|]. split; [exact F2|]. split; [fold E; lia|]. split; [exact MX|].
    intros g Hg. rewrite O2, O1 by exact Hg. reflexivity.
Qed.
End Torn.

(* ---- removing and renaming files ---- *)
Lemma bytes_eqb_true_eq a b : bytes_eqb a b = true -> a = b.
Proof. apply bytes_eqb_eq. Qed.
Lemma fs_raw_del_same : forall fs f, fs_raw (fs_del fs f) f = None.
Proof.
  induction fs as [|[g c] t IH]; intros f; cbn [fs_del fs_raw]; [reflexivity|].
  destruct (bytes_eqb g f) eqn:E; [apply IH|]. cbn [fs_raw]. rewrite E. apply IH.
Qed.
Lemma fs_raw_del_other : forall fs f g, g <> f -> fs_raw (fs_del fs f) g = fs_raw fs g.
Proof.
  induction fs as [|[h c] t IH]; intros f g N; cbn [fs_del fs_raw]; [reflexivity|].
  destruct (bytes_eqb h f) eqn:E.
  - apply bytes_eqb_true_eq in E. subst h. rewrite bytes_eqb_neq by congruence. apply IH. exact N.
  - cbn [fs_raw]. destruct (bytes_eqb h g); [reflexivity|]. apply IH. exact N.
Qed.
Lemma fs_get_del_same fs f : fs_get (fs_del fs f) f = None.
Proof. unfold fs_get. rewrite fs_raw_del_same. reflexivity. Qed.
Lemma fs_get_del_other fs f g : g <> f -> fs_get (fs_del fs f) g = fs_get fs g.
Proof. intros N. unfold fs_get. rewrite fs_raw_del_other by exact N. reflexivity. Qed.
Lemma fs_mem_del_same fs f : fs_mem (fs_del fs f) f = false.
Proof. unfold fs_mem. rewrite fs_raw_del_same. reflexivity. Qed.

Lemma rename_ok fs a b c : a <> b -> fs_get fs a = Some c ->
  exists fs', rename_file a b fs = (fs', Ok tt) /\ fs_get fs' b = Some c /\ fs_get fs' a = None
    /\ (forall g, g <> a -> g <> b -> fs_get fs' g = fs_get fs g).
Proof.
  intros N G. unfold rename_file. rewrite (fs_get_raw _ _ _ G). eexists. split; [reflexivity|]. split; [|split].
  - unfold fs_get. rewrite fs_raw_put_same. cbn [option_map]. rewrite frev_rev, rev_involutive. reflexivity.
  - unfold fs_get. rewrite fs_raw_put_other by exact N. rewrite fs_raw_del_same. reflexivity.
  - intros g N1 N2. unfold fs_get. rewrite fs_raw_put_other by exact N2. rewrite fs_raw_del_other by exact N1. reflexivity.
Qed.

(* ---- Index::create_from_byteseries: the rebuilt index file (C06 at the level of files) ---- *)
Lemma index_update_all_ok : forall (es:list entry) fs ix ihdr done,
  file_is fs (ix_file ix) ihdr (enc_index done) -> ix_entries ix = done ->
  exists fs' ix', index_update_all ix es fs = (fs', Ok ix')
    /\ file_is fs' (ix_file ix') ihdr (enc_index (done ++ es)) /\ ix_entries ix' = done ++ es
    /\ ix_file ix' = ix_file ix
    /\ ix_last ix' = match last_opt es with Some e => Some (fst e) | None => ix_last ix end
    /\ (forall g, g <> of_name (ix_file ix) -> fs_get fs' g = fs_get fs g).
Proof.
  induction es as [|e t IH]; intros fs ix ihdr done FI EE.
  - exists fs, ix. rewrite app_nil_r. split; [reflexivity|]. split; [exact FI|]. split; [exact EE|]. split; [reflexivity|]. split; [reflexivity|intros; reflexivity].
  - cbn [index_update_all]. unfold index_update at 1.
    destruct (of_append_ok fs (ix_file ix) ihdr (enc_index done) (enc_entry (fst e, snd e)) FI) as (fs1 & E1 & F1 & O1).
    erewrite mbind_ok by (erewrite mbind_ok by exact E1; reflexivity).
    set (ix1 := {| ix_file := ix_file ix; ix_entries := ix_entries ix ++ [(fst e, snd e)]; ix_last := Some (fst e) |}).
    assert (F1' : file_is fs1 (ix_file ix1) ihdr (enc_index (done ++ [e]))).
    { cbn [ix1 ix_file]. unfold enc_index in *. rewrite map_app, concat_app. cbn [map concat]. rewrite app_nil_r. exact F1. }
    destruct (IH fs1 ix1 ihdr (done ++ [e]) F1' ltac:(cbn [ix1 ix_entries]; rewrite EE; destruct e; reflexivity)) as (fs2 & ix2 & E2 & F2 & EE2 & IF2 & IL2 & O2).
    exists fs2, ix2. rewrite <- app_assoc in F2, EE2. cbn [app] in F2, EE2. split; [exact E2|]. split; [exact F2|]. split; [exact EE2|].
    split; [rewrite IF2; reflexivity|]. split.
    + rewrite IL2. rewrite last_opt_cons. destruct (last_opt t); reflexivity.
    + intros g Hg. rewrite O2 by (cbn [ix1 ix_file]; exact Hg). apply O1. exact Hg.
Qed.

Lemma names_part_index (name:fname) : name ++ ext_part <> name ++ ext_index.
Proof.
  intros Q. apply app_inv_head in Q. unfold ext_part in Q. rewrite <- (app_nil_r ext_index) in Q at 2.
  apply app_inv_head in Q. discriminate.
Qed.

Theorem create_from_byteseries_ok p fs data hdr name l : wf_series p l ->
  file_is fs data hdr (encode p l) ->
  of_name data <> name ++ ext_part -> of_name data <> name ++ ext_index ->
  exists fs' ix, create_from_byteseries data p name fs = (fs', Ok ix)
    /\ fs_get fs' (name ++ ext_index) = Some (outer [] ++ enc_index (sections p (encode p l)))
    /\ ix_file ix = {| of_name := name ++ ext_index; of_off := len (outer []) |}
    /\ ix_entries ix = sections p (encode p l)
    /\ ix_last ix = option_map fst (last_opt (sections p (encode p l)))
    /\ fs_get fs' (name ++ ext_part) = None
    /\ (forall g, g <> name ++ ext_part -> g <> name ++ ext_index -> fs_get fs' g = fs_get fs g).
Proof.
  intros W FD ND1 ND2. unfold create_from_byteseries.
  set (temp := name ++ ext_part). set (fs0 := fs_del fs temp).
  assert (RM : remove_file temp fs = (fs0, Ok tt)) by reflexivity.
  erewrite mbind_ok by exact RM.
  destruct (fwh_new_ok fs0 temp [] (fs_mem_del_same fs temp) ltac:(cbn; lia)) as (fs1 & E1 & F1 & O1 & _).
  erewrite mbind_ok by exact E1.
  assert (FD1 : file_is fs1 data hdr (encode p l)).
  { eapply file_is_other; [exact FD|]. rewrite O1 by exact ND1. unfold fs0. apply fs_get_del_other. exact ND1. }
  erewrite mbind_ok by (apply (of_read_from_0 _ _ _ _ FD1)).
  unfold lift at 1. erewrite mbind_ok by (rewrite (extract_entries_encode p l W); reflexivity).
  set (es := sections p (encode p l)).
  set (o := {| of_name := temp; of_off := (user_header_starts + len (@nil byte))%N |}) in *.
  set (ix0 := {| ix_file := o; ix_entries := []; ix_last := option_map fst (last_opt es) |}).
  destruct (index_update_all_ok es fs1 ix0 _ [] F1 eq_refl) as (fs2 & ix2 & E2 & F2 & EE2 & IF2 & IL2 & O2).
  erewrite mbind_ok by exact E2. cbn [app] in F2, EE2.
  destruct F2 as [G2 OF2]. rewrite IF2 in G2. cbn [ix0 ix_file o of_name] in G2.
  destruct (rename_ok fs2 temp (name ++ ext_index) _ (names_part_index name) G2) as (fs3 & E3 & G3 & G3' & O3).
  erewrite mbind_ok by exact E3.
  do 2 eexists. split; [reflexivity|]. split; [exact G3|]. split; [|split; [exact EE2|split; [|split; [exact G3'|]]]].
  - rewrite IF2. cbn [ix0 ix_file o of_off]. f_equal; try (unfold outer, user_header_starts, len; rewrite !app_length, le_enc_length; cbn [length]; lia).
  - rewrite IL2. cbn [ix0 ix_last]. destruct (last_opt es); reflexivity.
  - intros g N1 N2. rewrite O3 by assumption. rewrite O2 by (cbn [ix0 ix_file o of_name]; exact N1).
    rewrite O1 by exact N1. unfold fs0. apply fs_get_del_other. exact N1.
Qed.

(* ---- the sections of a prefix of the lines ---- *)
Section Prefix.
Variable p : nat.
Notation L := (p + 2).

Lemma secs_from_app : forall (a b:list line) full i,
  secs_from p full i (a ++ b) = secs_from p full i a ++ secs_from p (full_after p full a) (i + slots_from p full a) b.
Proof.
  induction a as [|x t IH]; intros b full i; cbn [app secs_from full_after slots_from]; [rewrite Nat.add_0_r; reflexivity|].
  unfold tail_bytes. destruct full as [f|]; [destruct (fst x - f <=? MAXD)%N|]; cbn [snd].
  - rewrite IH. f_equal. f_equal. lia.
  - cbn [app]. f_equal. rewrite IH. f_equal. f_equal. lia.
  - cbn [app]. f_equal. rewrite IH. f_equal. f_equal. lia.
Qed.

(* entries of later lines: offsets at or beyond the start slot, timestamps among those lines *)
Lemma secs_from_lower : forall (b:list line) full i,
  Forall (fun e => (N.of_nat (i * L) <= snd e)%N /\ exists y, In y b /\ fst e = fst y) (secs_from p full i b).
Proof.
  induction b as [|x t IH]; intros full i; cbn [secs_from]; [constructor|].
  assert (WK : forall full' j, i <= j -> Forall (fun e => (N.of_nat (i * L) <= snd e)%N /\ exists y, In y (x :: t) /\ fst e = fst y) (secs_from p full' j t)).
  { intros full' j Hj. eapply Forall_impl; [|apply (IH full' j)]. intros e [H1 (y & Hy & E)]. split; [nia|]. exists y. split; [right; exact Hy|exact E]. }
  destruct full as [f|]; [destruct (fst x - f <=? MAXD)%N|].
  - apply WK. lia.
  - constructor; [cbn [fst snd]; split; [lia|exists x; split; [left; reflexivity|reflexivity]]|]. apply WK. lia.
  - constructor; [cbn [fst snd]; split; [lia|exists x; split; [left; reflexivity|reflexivity]]|]. apply WK. lia.
Qed.
End Prefix.

(* ---- check_and_repair on an index file that holds whole entries ---- *)
Lemma check_and_repair_whole fs o (es:list entry) e v t :
  file_is fs o (outer []) (enc_index (es ++ [e])) -> entry_ok e -> (snd e <= v)%N ->
  check_and_repair o (Some v) (Some t) fs = (fs, if (t =? fst e)%N then Ok tt else Err EOther).
Proof.
  intros FI EO Hv. pose proof FI as [G OF]. unfold check_and_repair.
  erewrite mbind_ok by (apply (of_len_ok _ _ _ _ FI)).
  assert (Z : (len (enc_index (es ++ [e])) mod ESZ = 0)%N).
  { unfold len. rewrite enc_index_length. change ESZ with 16%N. rewrite Nat2N.inj_mul. apply N.mod_mul. lia. }
  rewrite Z, N.sub_0_r. erewrite mbind_ok by (apply (of_set_len_same _ _ _ _ FI)).
  erewrite mbind_ok by (apply (file_len_ok _ _ _ G)).
  assert (EE : enc_index (es ++ [e]) = enc_index es ++ enc_entry e).
  { unfold enc_index. rewrite map_app, concat_app. cbn [map concat]. rewrite app_nil_r. reflexivity. }
  assert (LL : (len (outer [] ++ enc_index (es ++ [e])) = len (outer [] ++ enc_index es) + 16)%N).
  { rewrite EE, app_assoc, len_app. f_equal. }
  change ESZ with 16%N.
  replace (len (outer [] ++ enc_index (es ++ [e])) <? 16)%N with false by (symmetry; apply N.ltb_ge; lia).
  assert (RD : read_at (of_name o) (len (outer [] ++ enc_index (es ++ [e])) - 16) 16 fs = (fs, Ok (enc_entry e))).
  { unfold read_at. rewrite G. replace (16 =? 0)%N with false by reflexivity.
    replace (len (outer [] ++ enc_index (es ++ [e])) - 16 + 16 <=? len (outer [] ++ enc_index (es ++ [e])))%N with true by (symmetry; apply N.leb_le; lia).
    f_equal. f_equal. unfold slice. rewrite drop_skipn, take_firstn.
    rewrite LL. replace (N.to_nat (len (outer [] ++ enc_index es) + 16 - 16)) with (length (outer [] ++ enc_index es)) by (unfold len; lia).
    rewrite EE, app_assoc. rewrite skipn_app, skipn_all, Nat.sub_diag. cbn [skipn app].
    replace (N.to_nat (len (outer [] ++ enc_index es) + 16 - 16 + 16 - (len (outer [] ++ enc_index es) + 16 - 16))) with (length (enc_entry e))
      by (rewrite enc_entry_length; lia).
    apply firstn_all. }
  erewrite mbind_ok by exact RD. rewrite (dec_enc_entry e EO). destruct e as [et eo]. cbn [fst snd] in *.
  erewrite mbind_ok by (apply (of_len_ok _ _ _ _ FI)).
  replace (v <? eo)%N with false by (symmetry; apply N.ltb_ge; exact Hv).
  erewrite mbind_ok by reflexivity. destruct (t =? et)%N; reflexivity.
Qed.

(* whatever is in the index file: the open either accepts it, and then only if its entries are those of the data,
   or fails, and the index is rebuilt from the data *)
Definition index_state (fs:fsys) (name:fname) (esL:list entry) : Prop :=
  fs_get fs (name ++ ext_index) = None
  \/ exists ci, fs_get fs (name ++ ext_index) = Some (firstn ci (outer [] ++ enc_index esL)).

Lemma outer_nil_len : length (outer []) = 4.
Proof. reflexivity. Qed.

(* check_and_repair on whole entries, general: the last entry may point beyond the data *)
Lemma check_and_repair_last fs o (es:list entry) e v t :
  file_is fs o (outer []) (enc_index (es ++ [e])) -> entry_ok e ->
  exists fs2, check_and_repair o (Some v) (Some t) fs = (fs2, if (t =? fst e)%N then Ok tt else Err EOther)
    /\ (forall g, g <> of_name o -> fs_get fs2 g = fs_get fs g)
    /\ ((snd e <= v)%N -> fs2 = fs).
Proof.
  intros FI EO. destruct (N.le_gt_cases (snd e) v) as [Le|Gt].
  { exists fs. rewrite (check_and_repair_whole fs o es e v t FI EO Le). split; [reflexivity|]. split; [intros; reflexivity|intros; reflexivity]. }
  pose proof FI as [G OF]. unfold check_and_repair.
  erewrite mbind_ok by (apply (of_len_ok _ _ _ _ FI)).
  assert (Z : (len (enc_index (es ++ [e])) mod ESZ = 0)%N).
  { unfold len. rewrite enc_index_length. change ESZ with 16%N. rewrite Nat2N.inj_mul. apply N.mod_mul. lia. }
  rewrite Z, N.sub_0_r. erewrite mbind_ok by (apply (of_set_len_same _ _ _ _ FI)).
  erewrite mbind_ok by (apply (file_len_ok _ _ _ G)).
  assert (EE : enc_index (es ++ [e]) = enc_index es ++ enc_entry e).
  { unfold enc_index. rewrite map_app, concat_app. cbn [map concat]. rewrite app_nil_r. reflexivity. }
  assert (LL : (len (outer [] ++ enc_index (es ++ [e])) = len (outer [] ++ enc_index es) + 16)%N).
  { rewrite EE, app_assoc, len_app. f_equal. }
  change ESZ with 16%N.
  replace (len (outer [] ++ enc_index (es ++ [e])) <? 16)%N with false by (symmetry; apply N.ltb_ge; lia).
  assert (RD : read_at (of_name o) (len (outer [] ++ enc_index (es ++ [e])) - 16) 16 fs = (fs, Ok (enc_entry e))).
  { unfold read_at. rewrite G. replace (16 =? 0)%N with false by reflexivity.
    replace (len (outer [] ++ enc_index (es ++ [e])) - 16 + 16 <=? len (outer [] ++ enc_index (es ++ [e])))%N with true by (symmetry; apply N.leb_le; lia).
    f_equal. f_equal. unfold slice. rewrite drop_skipn, take_firstn.
    rewrite LL. replace (N.to_nat (len (outer [] ++ enc_index es) + 16 - 16)) with (length (outer [] ++ enc_index es)) by (unfold len; lia).
    rewrite EE, app_assoc. rewrite skipn_app, skipn_all, Nat.sub_diag. cbn [skipn app].
    replace (N.to_nat (len (outer [] ++ enc_index es) + 16 - 16 + 16 - (len (outer [] ++ enc_index es) + 16 - 16))) with (length (enc_entry e))
      by (rewrite enc_entry_length; lia).
    apply firstn_all. }
  erewrite mbind_ok by exact RD. rewrite (dec_enc_entry e EO). destruct e as [et eo]. cbn [fst snd] in *.
  erewrite mbind_ok by (apply (of_len_ok _ _ _ _ FI)).
  replace (v <? eo)%N with true by (symmetry; apply N.ltb_lt; exact Gt).
  assert (L16 : (len (enc_index (es ++ [(et, eo)])) = len (enc_index es) + 16)%N) by (rewrite EE, len_app; f_equal).
  replace (len (enc_index (es ++ [(et, eo)])) <? 16)%N with false by (symmetry; apply N.ltb_ge; lia).
  destruct (of_set_len_trunc fs o (outer []) (enc_index (es ++ [(et, eo)])) (length (enc_index es)) FI ltac:(rewrite EE, app_length; lia)) as (fs2 & E2 & F2 & O2).
  replace (len (enc_index (es ++ [(et, eo)])) - 16)%N with (N.of_nat (length (enc_index es))) by (rewrite L16; unfold len; lia).
  erewrite mbind_ok by exact E2.
  exists fs2. split; [destruct (t =? et)%N; reflexivity|]. split; [exact O2|intros; lia].
Qed.

Lemma enc_index_firstn (es:list entry) n : firstn (n * 16) (enc_index es) = enc_index (firstn n es).
Proof.
  unfold enc_index. rewrite (firstn_concat_uniform 16), firstn_map; [reflexivity|].
  rewrite Forall_map. apply Forall_forall. intros e _. apply enc_entry_length.
Qed.

(* an index file cut inside its four header bytes: FileWithHeader::open_existing fails (after the fix), nothing changes *)
Lemma fwh_open_short fs path (whole:list byte) ci : ci < 4 -> 4 <= length whole -> firstn 4 whole = outer [] ->
  fs_get fs path = Some (firstn ci whole) -> fwh_open path fs = (fs, Err EOther).
Proof.
  intros Small LW HW G.
  assert (EX : exists_file path fs = (fs, Ok true)) by (unfold exists_file, fs_mem; rewrite (fs_get_raw _ _ _ G); reflexivity).
  assert (LF : length (firstn ci whole) = ci) by (rewrite firstn_length; lia).
  unfold fwh_open. erewrite mbind_ok by exact EX. cbn [negb].
  destruct (Nat.lt_ge_cases ci 2) as [Lt2|Ge2].
  - unfold mbind at 1. unfold read_at at 1. rewrite G. replace (2 =? 0)%N with false by reflexivity.
    replace (0 + 2 <=? len (firstn ci whole))%N with false by (symmetry; apply N.leb_gt; unfold len; lia). reflexivity.
  - assert (R1 : read_at path 0 2 fs = (fs, Ok (le_enc 2 0))).
    { unfold read_at. rewrite G. replace (2 =? 0)%N with false by reflexivity.
      replace (0 + 2 <=? len (firstn ci whole))%N with true by (symmetry; apply N.leb_le; unfold len; lia).
      f_equal. f_equal. unfold slice. rewrite drop_skipn, take_firstn. change (N.to_nat 0) with 0. cbn [skipn].
      replace (N.to_nat (0 + 2 - 0)) with 2 by lia. rewrite firstn_firstn, Nat.min_l by lia.
      assert (Q : firstn 2 whole = firstn 2 (firstn 4 whole)) by (rewrite firstn_firstn; reflexivity). rewrite Q, HW. reflexivity. }
    erewrite mbind_ok by exact R1.
    change (le_dec (le_enc 2 0)) with 0%N.
    assert (R2 : read_at path user_header_starts 0 fs = (fs, Ok [])) by (unfold read_at; rewrite G; reflexivity).
    erewrite mbind_ok by exact R2. erewrite mbind_ok by (apply (file_len_ok _ _ _ G)).
    replace (len (firstn ci whole) <? 0 + user_header_starts)%N with true
      by (symmetry; apply N.ltb_lt; unfold len, user_header_starts; rewrite LF; cbn; lia).
    reflexivity.
Qed.

(* Index::open_existing on an index file that is any byte prefix of the index of a longer history *)
Lemma index_open_prefix fs name (esL:list entry) (j:nat) ci v t :
  Forall entry_ok esL -> 1 <= j -> j <= length esL ->
  (forall i e, nth_error esL i = Some e -> i < j -> (snd e <= v)%N /\ (fst e = t -> i = j - 1)) ->
  (forall i e, nth_error esL i = Some e -> j <= i -> (v < snd e)%N /\ fst e <> t) ->
  (forall e, nth_error esL (j - 1) = Some e -> fst e = t) ->
  fs_get fs (name ++ ext_index) = Some (firstn ci (outer [] ++ enc_index esL)) ->
  exists fs1 r, index_open name (Some v) (Some t) fs = (fs1, r)
    /\ (forall g, g <> name ++ ext_index -> fs_get fs1 g = fs_get fs g)
    /\ match r with
       | Ok ix => ix = {| ix_file := {| of_name := name ++ ext_index; of_off := len (outer []) |};
                          ix_entries := firstn j esL; ix_last := Some t |}
                  /\ fs_get fs1 (name ++ ext_index) = Some (outer [] ++ enc_index (firstn j esL))
       | Err _ => True
       | _ => False
       end.
Proof.
  intros FE Hj1 Hj2 Hin Hout Hlast G.
  set (path := name ++ ext_index) in *.
  set (whole := outer [] ++ enc_index esL) in *.
  assert (EX : exists_file path fs = (fs, Ok true)) by (unfold exists_file, fs_mem; rewrite (fs_get_raw _ _ _ G); reflexivity).
  destruct (Nat.lt_ge_cases ci 4) as [Small|Big].
  { assert (FS : fwh_open path fs = (fs, Err EOther)).
    { apply (fwh_open_short fs path whole ci Small); [unfold whole; rewrite app_length, outer_nil_len; lia|reflexivity|exact G]. }
    exists fs, (Err EOther). split; [|split; [intros; reflexivity|exact I]].
    unfold index_open. unfold mbind at 1. fold path. rewrite FS. reflexivity. }
  (* the header is there: the file is outer [] ++ X *)
  set (X := firstn (ci - 4) (enc_index esL)).
  assert (GX : fs_get fs path = Some (outer [] ++ X)).
  { rewrite G. f_equal. unfold whole, X. rewrite firstn_app, outer_nil_len. rewrite firstn_all2 by (rewrite outer_nil_len; lia). reflexivity. }
  destruct (fwh_open_ok fs path [] X ltac:(cbn; lia) GX) as [FO FI].
  unfold index_open. fold path. erewrite mbind_ok by exact FO. cbv iota beta.
  set (o := {| of_name := path; of_off := len (outer []) |}) in *.
  (* whole entries *)
  set (x := length X). set (j' := x / 16).
  assert (Lx : x = Nat.min (ci - 4) (length esL * 16)) by (unfold x, X; rewrite firstn_length, enc_index_length; reflexivity).
  assert (DMx := Nat.div_mod x 16 ltac:(lia)). assert (MUx := Nat.mod_upper_bound x 16 ltac:(lia)). fold j' in DMx.
  assert (Hj' : j' <= length esL) by (unfold j'; apply Nat.div_le_upper_bound; lia).
  assert (XW : firstn (j' * 16) X = enc_index (firstn j' esL)).
  { unfold X. rewrite firstn_firstn, Nat.min_l by lia. apply enc_index_firstn. }
  assert (CRES : exists fs2 r0, check_and_repair o (Some v) (Some t) fs = (fs2, r0)
            /\ (forall g, g <> path -> fs_get fs2 g = fs_get fs g)
            /\ match r0 with
               | Ok _ => file_is fs2 o (outer []) (enc_index (firstn j esL))
               | Err _ => True
               | _ => False
               end).
  { unfold check_and_repair. erewrite mbind_ok by (apply (of_len_ok _ _ _ _ FI)).
    destruct (of_set_len_trunc fs o (outer []) X (j' * 16) FI ltac:(fold x; lia)) as (fs1 & E1 & F1 & O1).
    replace (len X - len X mod ESZ)%N with (N.of_nat (j' * 16)).
    2:{ unfold len. fold x. change ESZ with (N.of_nat 16). rewrite <- Nat2N.inj_mod. lia. }
    erewrite mbind_ok by exact E1. rewrite XW in F1.
    pose proof F1 as [G1 _].
    erewrite mbind_ok by (apply (file_len_ok _ _ _ G1)).
    destruct (Nat.eq_dec j' 0) as [Z0|NZ].
    { (* no whole entry: the seek to -16 fails *)
      exists fs1, (Err EOther). split; [|split; [exact O1|exact I]].
      rewrite Z0. cbn [firstn]. unfold enc_index at 1. cbn [map concat]. rewrite app_nil_r. change ESZ with 16%N.
      replace (len (outer []) <? 16)%N with true by reflexivity. reflexivity. }
    (* the last whole entry *)
    assert (NE : firstn j' esL <> []) by (destruct esL; [cbn [length] in Hj'; lia|destruct j'; [lia|discriminate]]).
    destruct (exists_last NE) as (es0 & e & Ees).
    assert (NTH : nth_error esL (j' - 1) = Some e).
    { assert (L0 : length es0 = j' - 1).
      { apply (f_equal (@length entry)) in Ees. rewrite firstn_length, app_length, Nat.min_l in Ees by lia. cbn [length] in Ees. lia. }
      rewrite <- (firstn_skipn j' esL), Ees, <- app_assoc. rewrite nth_error_app2 by lia. rewrite L0, Nat.sub_diag. reflexivity. }
    assert (EO : entry_ok e).
    { rewrite Forall_forall in FE. apply FE. eapply nth_error_In. exact NTH. }
    rewrite Ees in F1.
    assert (CR := check_and_repair_last fs1 o es0 e v t F1 EO). destruct CR as (fs2 & CR & O2 & SAME).
    unfold check_and_repair in CR. erewrite mbind_ok in CR by (apply (of_len_ok _ _ _ _ F1)).
    assert (Z : (len (enc_index (es0 ++ [e])) mod ESZ = 0)%N).
    { unfold len. rewrite enc_index_length. change ESZ with 16%N. rewrite Nat2N.inj_mul. apply N.mod_mul. lia. }
    rewrite Z, N.sub_0_r in CR. erewrite mbind_ok in CR by (apply (of_set_len_same _ _ _ _ F1)).
    pose proof F1 as [G1' _]. erewrite mbind_ok in CR by (apply (file_len_ok _ _ _ G1')).
    rewrite <- Ees in CR. rewrite CR.
    exists fs2. eexists. split; [reflexivity|]. split; [intros g Hg; rewrite O2, O1 by exact Hg; reflexivity|].
    destruct (t =? fst e)%N eqn:TE; [|exact I].
    apply N.eqb_eq in TE.
    destruct (Nat.lt_ge_cases (j' - 1) j) as [In|Out].
    - destruct (Hin (j' - 1) e NTH In) as [Hv Huniq]. specialize (SAME Hv). subst fs2.
      assert (EJ : j' = j) by (specialize (Huniq (eq_sym TE)); lia). rewrite <- EJ. rewrite <- Ees in F1. exact F1.
    - destruct (Hout (j' - 1) e NTH Out) as [_ Hne]. congruence. }
  destruct CRES as (fs2 & r0 & CR & O2 & RES).
  unfold mbind at 1. rewrite CR.
  destruct r0 as [u|er| |]; try contradiction.
  - erewrite mbind_ok by (apply (of_read_from_0 _ _ _ _ RES)).
    assert (FEj : Forall entry_ok (firstn j esL)) by (apply Forall_firstn; exact FE).
    rewrite (decode_index _ FEj).
    eexists fs2, (Ok _). split; [reflexivity|]. split; [exact O2|]. split; [|apply RES].
    f_equal.
    assert (NEj : firstn j esL <> []) by (destruct esL; [cbn [length] in Hj2; lia|destruct j; [lia|discriminate]]).
    destruct (exists_last NEj) as (es1 & e1 & E1). rewrite E1, last_opt_snoc. cbn [option_map]. f_equal.
    apply Hlast.
    assert (L1 : length es1 = j - 1).
    { apply (f_equal (@length entry)) in E1. rewrite firstn_length, app_length, Nat.min_l in E1 by lia. cbn [length] in E1. lia. }
    rewrite <- (firstn_skipn j esL), E1, <- app_assoc. rewrite nth_error_app2 by lia. rewrite L1, Nat.sub_diag. reflexivity.
  - exists fs2, (Err er). split; [reflexivity|]. split; [exact O2|exact I].
Qed.

(* the same when the data file holds no line: the index is emptied *)
Lemma index_open_prefix_empty fs name (esL:list entry) ci lfull :
  fs_get fs (name ++ ext_index) = Some (firstn ci (outer [] ++ enc_index esL)) ->
  exists fs1 r, index_open name None lfull fs = (fs1, r)
    /\ (forall g, g <> name ++ ext_index -> fs_get fs1 g = fs_get fs g)
    /\ match r with
       | Ok ix => ix = {| ix_file := {| of_name := name ++ ext_index; of_off := len (outer []) |}; ix_entries := []; ix_last := None |}
                  /\ fs_get fs1 (name ++ ext_index) = Some (outer [] ++ enc_index [])
       | Err _ => True
       | _ => False
       end.
Proof.
  intros G. set (path := name ++ ext_index) in *. set (whole := outer [] ++ enc_index esL) in *.
  destruct (Nat.lt_ge_cases ci 4) as [Small|Big].
  { assert (FS : fwh_open path fs = (fs, Err EOther)).
    { apply (fwh_open_short fs path whole ci Small); [unfold whole; rewrite app_length, outer_nil_len; lia|reflexivity|exact G]. }
    exists fs, (Err EOther). split; [|split; [intros; reflexivity|exact I]].
    unfold index_open. unfold mbind at 1. fold path. rewrite FS. reflexivity. }
  set (X := firstn (ci - 4) (enc_index esL)).
  assert (GX : fs_get fs path = Some (outer [] ++ X)).
  { rewrite G. f_equal. unfold whole, X. rewrite firstn_app, outer_nil_len. rewrite firstn_all2 by (rewrite outer_nil_len; lia). reflexivity. }
  destruct (fwh_open_ok fs path [] X ltac:(cbn; lia) GX) as [FO FI].
  unfold index_open. fold path. erewrite mbind_ok by exact FO. cbv iota beta.
  set (o := {| of_name := path; of_off := len (outer []) |}) in *.
  destruct (of_set_len_trunc fs o (outer []) X 0 FI ltac:(lia)) as (fs1 & E1 & F1 & O1). change (N.of_nat 0) with 0%N in E1.
  assert (CR : check_and_repair o None lfull fs = (fs1, Ok tt)).
  { unfold check_and_repair. erewrite mbind_ok by (apply (of_len_ok _ _ _ _ FI)). exact E1. }
  erewrite mbind_ok by exact CR. cbn [firstn] in F1.
  erewrite mbind_ok by (apply (of_read_from_0 _ _ _ _ F1)).
  eexists fs1, (Ok _). split; [reflexivity|]. split; [exact O1|]. split; [reflexivity|]. apply F1.
Qed.

(* ---- Data::open_existing, assembled from its phases ---- *)
Section Assemble.
Variable p : nat.
Notation L := (p + 2).

Lemma data_open_from_parts fs fs1 fs2 name header cb (l':list line) ix :
  let o := {| of_name := name ++ ext_data; of_off := len (outer header) |} in
  let lls := if (len (encode p l') <? line_size p)%N then None else Some (len (encode p l') - line_size p)%N in
  wf_series p l' ->
  fwim_new o p fs = (fs1, Ok tt) -> file_is fs1 o (outer header) (encode p l') ->
  last_meta_timestamp p (encode p l') = Ok (full_after p None l') ->
  mcatch (index_open name lls (full_after p None l')) (fun _ => create_from_byteseries o p name) fs1 = (fs2, Ok ix) ->
  ix = {| ix_file := {| of_name := name ++ ext_index; of_off := len (outer []) |};
          ix_entries := sections p (encode p l'); ix_last := option_map fst (last_opt (sections p (encode p l'))) |} ->
  fs_get fs2 (name ++ ext_index) = Some (outer [] ++ enc_index (sections p (encode p l'))) ->
  file_is fs2 o (outer header) (encode p l') ->
  exists d, data_open name o p cb fs = (fs2, Ok d)
    /\ RepD fs2 d p (outer header) (outer []) (encode p l') (full_after p None l') (option_map fst (last_opt l'))
    /\ of_name (d_file d) = name ++ ext_data /\ of_name (ix_file (d_index d)) = name ++ ext_index.
Proof.
  intros o lls W FW FI1 LM IO EIX GI FI2.
  unfold data_open. erewrite mbind_ok by exact FW.
  erewrite mbind_ok by (apply (of_len_ok _ _ _ _ FI1)).
  erewrite mbind_ok by (apply (of_read_from_0 _ _ _ _ FI1)).
  unfold lift at 1. erewrite mbind_ok by (rewrite LM; reflexivity).
  fold lls. erewrite mbind_ok by exact IO.
  pose proof (sections_encode p l' W) as SECS.
  assert (IXL : ix_last ix = full_after p None l').
  { rewrite EIX. cbn [ix_last]. rewrite SECS, (last_sec_full p l' None 0). destruct (last_opt (secs_from p None 0 l')); reflexivity. }
  pose proof (last_line_of_ok p fs2 o cb ix (outer header) l' FI2 W IXL) as LLO.
  assert (LT : mcatch (let* x := last_line_of ix (len (encode p l')) p o cb in ret (Some (fst x)))
                      (fun e => match e with ENoData => ret None | _ => fail e end) fs2
               = (fs2, Ok (option_map fst (last_opt l')))).
  { destruct (last_opt l') as [x|].
    - apply mcatch_ok. erewrite mbind_ok by exact LLO. reflexivity.
    - eapply mcatch_err_handled; [unfold mbind; rewrite LLO; reflexivity|reflexivity]. }
  erewrite mbind_ok by exact LT.
  eexists. split; [reflexivity|]. split; [|split; [reflexivity|rewrite EIX; reflexivity]].
  constructor; cbn [d_p d_file d_len d_index d_last].
  - reflexivity.
  - exact FI2.
  - reflexivity.
  - rewrite EIX. cbn [ix_file]. split; [exact GI|reflexivity].
  - rewrite EIX. reflexivity.
  - exact IXL.
  - apply legal_encode. exact W.
  - reflexivity.
  - rewrite EIX. cbn [ix_file of_name o]. apply ext_data_index_neq.
Qed.
End Assemble.

(* ---- C05: Data::open_existing on a torn data file with any state of the index (payload sizes >= 4) ---- *)
Section TornOpen.
Variable p : nat.
Hypothesis H4 : 4 <= p.
Notation L := (p + 2).

Lemma secs_from_sorted : forall (l:list line) full i, StronglySorted N.lt (map fst l) ->
  StronglySorted N.lt (map fst (secs_from p full i l)).
Proof.
  induction l as [|x t IH]; intros full i SS; cbn [secs_from]; [constructor|].
  cbn [map] in SS. inversion SS as [|? ? St Hall]; subst.
  assert (TAIL : forall full' j, Forall (N.lt (fst x)) (map fst (secs_from p full' j t))).
  { intros full' j. rewrite Forall_map. eapply Forall_impl; [|apply (secs_from_lower p t full' j)].
    intros e [_ (y & Hy & E)]. cbn beta. rewrite E. rewrite Forall_map in Hall. rewrite Forall_forall in Hall. apply (Hall y Hy). }
  destruct full as [f|]; [destruct (fst x - f <=? MAXD)%N|]; cbn [map fst]; try (apply IH; exact St);
    (constructor; [apply IH; exact St|apply TAIL]).
Qed.

Lemma sorted_nth_unique (xs:list N) : StronglySorted N.lt xs -> forall i j a, nth_error xs i = Some a -> nth_error xs j = Some a -> i = j.
Proof.
  induction 1 as [|x xs SS IH Hall]; intros i j a Hi Hj; [destruct i; discriminate|].
  rewrite Forall_forall in Hall.
  destruct i as [|i'], j as [|j']; cbn [nth_error] in *.
  - reflexivity.
  - inversion Hi; subst a. apply nth_error_In in Hj. specialize (Hall _ Hj). lia.
  - inversion Hj; subst a. apply nth_error_In in Hi. specialize (Hall _ Hi). lia.
  - f_equal. eapply IH; eassumption.
Qed.

Theorem data_open_torn fs name header cb l c :
  let o := {| of_name := name ++ ext_data; of_off := len (outer header) |} in
  wf_series p l -> c <= length (encode p l) -> (len header <= 65535)%N -> (len (encode p l) < 2^64)%N ->
  fs_get fs (name ++ ext_data) = Some (outer header ++ firstn c (encode p l)) ->
  index_state fs name (sections p (encode p l)) ->
  exists fs' d k, data_open name o p cb fs = (fs', Ok d)
    /\ k <= length l /\ length (encode p (firstn k l)) <= c /\ (k < length l -> c < length (encode p (firstn (S k) l)))
    /\ RepD fs' d p (outer header) (outer []) (encode p (firstn k l)) (full_after p None (firstn k l)) (option_map fst (last_opt (firstn k l)))
    /\ of_name (d_file d) = name ++ ext_data /\ of_name (ix_file (d_index d)) = name ++ ext_index
    /\ (forall g, g <> name ++ ext_data -> g <> name ++ ext_index -> g <> name ++ ext_part -> fs_get fs' g = fs_get fs g).
Proof.
  intros o W Hc Hh H64 GD IS.
  assert (FI : file_is fs o (outer header) (firstn c (encode p l))) by (split; [exact GD|reflexivity]).
  destruct (fwim_new_torn p H4 fs o (outer header) l c W Hc FI) as (fs1 & k & FW & Hk & F1 & LE1 & MX1 & O1).
  set (l' := firstn k l) in *.
  assert (W' : wf_series p l') by (apply (wf_firstn p); exact W).
  assert (LM : last_meta_timestamp p (encode p l') = Ok (full_after p None l')).
  { apply last_meta_ok; [exact W'|]. apply Forall_forall. intros sct _. apply nm_p4. exact H4. }
  assert (ND1 : of_name o <> name ++ ext_part).
  { cbn [o of_name]. intros Q. apply app_inv_head in Q. unfold ext_part, ext_index in Q. rewrite <- (app_nil_r ext_data) in Q at 1.
    rewrite <- !app_assoc in Q. apply app_inv_head in Q. discriminate. }
  assert (ND2 : of_name o <> name ++ ext_index) by (cbn [o of_name]; apply ext_data_index_neq).
  (* sections of the prefix and of the whole *)
  pose proof (sections_encode p l W) as SL. pose proof (sections_encode p l' W') as SL'.
  assert (SPLIT : secs_from p None 0 l = secs_from p None 0 l' ++ secs_from p (full_after p None l') (0 + slots_from p None l') (skipn k l)).
  { rewrite <- (firstn_skipn k l) at 1. fold l'. apply secs_from_app. }
  set (es' := secs_from p None 0 l') in *. set (rest := secs_from p (full_after p None l') (0 + slots_from p None l') (skipn k l)) in *.
  pose proof (encode_length p l' (wf_payloads p l' W')) as EL'.
  assert (FB' : Forall (fun e => (fst e < 2^64)%N /\ (snd e + N.of_nat ((Layout.K p + 1) * L) <= N.of_nat ((0 + slots_from p None l') * L))%N) es').
  { apply (secs_from_bounds p l' None 0). destruct W' as [_ F]. eapply Forall_impl; [|exact F]. intros a [H _]. exact H. }
  assert (FBL : Forall entry_ok (secs_from p None 0 l)).
  { pose proof (secs_from_bounds p l None 0 ltac:(destruct W as [_ F]; eapply Forall_impl; [|exact F]; intros a [H _]; exact H)) as Q.
    eapply Forall_impl; [|exact Q]. intros e [A1 A2]. split; [exact A1|].
    pose proof (encode_length p l (wf_payloads p l W)) as EL. unfold len in H64. rewrite EL in H64. lia. }
  (* the index: accepted or rebuilt *)
  assert (IDX : exists fs2 ix, mcatch (index_open name (if (len (encode p l') <? line_size p)%N then None else Some (len (encode p l') - line_size p)%N)
                                            (full_after p None l'))
                                     (fun _ => create_from_byteseries o p name) fs1 = (fs2, Ok ix)
            /\ ix = {| ix_file := {| of_name := name ++ ext_index; of_off := len (outer []) |};
                       ix_entries := es'; ix_last := option_map fst (last_opt es') |}
            /\ fs_get fs2 (name ++ ext_index) = Some (outer [] ++ enc_index es')
            /\ (forall g, g <> name ++ ext_index -> g <> name ++ ext_part -> fs_get fs2 g = fs_get fs1 g)).
  { assert (REBUILD : forall fsx, (forall g, g <> name ++ ext_index -> fs_get fsx g = fs_get fs1 g) ->
              exists fs2 ix, create_from_byteseries o p name fsx = (fs2, Ok ix)
                /\ ix = {| ix_file := {| of_name := name ++ ext_index; of_off := len (outer []) |};
                           ix_entries := es'; ix_last := option_map fst (last_opt es') |}
                /\ fs_get fs2 (name ++ ext_index) = Some (outer [] ++ enc_index es')
                /\ (forall g, g <> name ++ ext_index -> g <> name ++ ext_part -> fs_get fs2 g = fs_get fs1 g)).
    { intros fsx FR. assert (FDx : file_is fsx o (outer header) (encode p l')).
      { eapply file_is_other; [exact F1|]. apply FR. exact ND2. }
      destruct (create_from_byteseries_ok p fsx o (outer header) name l' W' FDx ND1 ND2) as (fs2 & ix & E & GI & IF & IE & IL & _ & OT).
      exists fs2, ix. split; [exact E|]. rewrite SL' in GI, IE, IL. split; [|split; [exact GI|]].
      - destruct ix as [a b c0]. cbn [ix_file ix_entries ix_last] in *. subst. reflexivity.
      - intros g N1 N2. rewrite OT by assumption. apply FR. exact N1. }
    destruct IS as [ABS|[ci PRE]].
    - (* no index file *)
      assert (G1 : fs_get fs1 (name ++ ext_index) = None) by (rewrite O1 by (apply not_eq_sym; exact ND2); exact ABS).
      assert (IO : forall a b, index_open name a b fs1 = (fs1, Err ENotFound)).
      { intros a b. unfold index_open, fwh_open. unfold mbind at 1. unfold mbind at 1. unfold exists_file, fs_mem.
        unfold fs_get in G1. destruct (fs_raw fs1 (name ++ ext_index)); [discriminate|]. reflexivity. }
      destruct (REBUILD fs1 ltac:(intros; reflexivity)) as (fs2 & ix & E & A1 & A2 & A3).
      exists fs2, ix. split; [|repeat split; assumption]. eapply mcatch_err_handled; [apply IO|exact E].
    - rewrite SL in PRE.
      assert (G1 : fs_get fs1 (name ++ ext_index) = Some (firstn ci (outer [] ++ enc_index (secs_from p None 0 l)))).
      { rewrite O1 by (apply not_eq_sym; exact ND2). exact PRE. }
      assert (CASE : l' = [] \/ exists x0 t0, l' = x0 :: t0) by (destruct l' as [|x0 t0]; [left; reflexivity|right; eauto]).
      destruct CASE as [EN|(x0 & t0 & El')].
      + (* no line survived: the index is emptied *)
        assert (ES0 : es' = []) by (unfold es'; rewrite EN; reflexivity).
        rewrite EN.
        replace (len (encode p []) <? line_size p)%N with true by (symmetry; apply N.ltb_lt; unfold line_size, len; cbn [encode encode_from length]; lia).
        destruct (index_open_prefix_empty fs1 name _ ci (full_after p None []) G1) as (fsa & r & IO & OA & RES).
        destruct r as [ix|er| |]; try contradiction.
        * destruct RES as [EI GI]. exists fsa, ix. split; [apply mcatch_ok; exact IO|]. rewrite ES0. split; [exact EI|]. split; [exact GI|].
          intros g N1 N2. apply OA. exact N1.
        * destruct (REBUILD fsa OA) as (fs2 & ix & E & A1 & A2 & A3).
          exists fs2, ix. split; [|repeat split; assumption]. eapply mcatch_err_handled; [exact IO|exact E].
      + 
        assert (NE' : l' <> []) by (rewrite El'; discriminate).
        destruct (full_after_cons_none p x0 t0) as [t FA]. rewrite <- El' in FA.
        pose proof (slots_from_lines p l' None) as SLN.
        assert (JPOS : 1 <= length es') by (unfold es'; rewrite El'; cbn [secs_from length]; lia).
        assert (LEN3 : 3 * L <= length (encode p l')).
        { rewrite EL', SLN. rewrite K2 by exact H4. assert (1 <= length l') by (rewrite El'; cbn [length]; lia). fold es'. nia. }
        replace (len (encode p l') <? line_size p)%N with false by (symmetry; apply N.ltb_ge; unfold len, line_size; lia).
        rewrite FA.
        assert (LASTT : forall e, nth_error (secs_from p None 0 l) (length es' - 1) = Some e -> fst e = t).
        { intros e NT. rewrite SPLIT, nth_error_app1 in NT by lia.
          pose proof (last_sec_full p l' None 0) as LS. rewrite FA in LS. fold es' in LS.
          destruct (exists_last (l:=es')) as (e0 & e1 & Ee); [intros Q; rewrite Q in JPOS; cbn [length] in JPOS; lia|].
          rewrite Ee, last_opt_snoc in LS. rewrite Ee, app_length in NT. cbn [length] in NT.
          rewrite nth_error_app2 in NT by lia. replace (length e0 + 1 - 1 - length e0) with 0 in NT by lia. cbn [nth_error] in NT.
          inversion NT; subst e1. inversion LS. reflexivity. }
        destruct (index_open_prefix fs1 name (secs_from p None 0 l) (length es') ci (len (encode p l') - line_size p)%N t FBL JPOS
                    ltac:(rewrite SPLIT, app_length; lia)) as (fsa & r & IO & OA & RES); try exact G1; try exact LASTT.
        * (* entries of the surviving data *)
          intros i e NT Hi. rewrite SPLIT, nth_error_app1 in NT by exact Hi.
          assert (INe : In e es') by (eapply nth_error_In; exact NT).
          rewrite Forall_forall in FB'. destruct (FB' e INe) as [_ Hb]. rewrite K2 in Hb by exact H4. split.
          -- unfold len, line_size. rewrite EL'. lia.
          -- intros Et. 
             assert (NTL : nth_error es' (length es' - 1) = Some e \/ True) by (right; exact I).
             pose proof (secs_from_sorted l' None 0 (proj1 W')) as SRT. fold es' in SRT.
             destruct (exists_last (l:=es')) as (e0 & e1 & Ee); [intros Q; rewrite Q in JPOS; cbn [length] in JPOS; lia|].
             assert (N1 : nth_error es' (length es' - 1) = Some e1).
             { rewrite Ee, app_length. cbn [length]. rewrite nth_error_app2 by lia. replace (length e0 + 1 - 1 - length e0) with 0 by lia. reflexivity. }
             assert (T1 : fst e1 = t).
             { apply LASTT. rewrite SPLIT, nth_error_app1 by lia. exact N1. }
             apply (sorted_nth_unique (map fst es') SRT i (length es' - 1) t).
             ++ rewrite nth_error_map, NT. cbn [option_map]. f_equal. exact Et.
             ++ rewrite nth_error_map, N1. cbn [option_map]. f_equal. exact T1.
        * (* entries of sections that did not survive *)
          intros i e NT Hi. rewrite SPLIT, nth_error_app2 in NT by exact Hi.
          assert (INe : In e rest) by (eapply nth_error_In; exact NT).
          pose proof (secs_from_lower p (skipn k l) (full_after p None l') (0 + slots_from p None l')) as LOW. fold rest in LOW.
          rewrite Forall_forall in LOW. destruct (LOW e INe) as [Hoff (y & Hy & Ey)]. split.
          -- unfold len, line_size. rewrite EL'. cbn [Nat.add] in Hoff. lia.
          -- (* its timestamp is that of a later line *)
             rewrite Ey. assert (t < fst y)%N; [|lia].
             destruct (last_opt l') as [z|] eqn:LZ; [|rewrite El' in LZ; discriminate].
             pose proof (full_after_le_last p l' None t (wf_ok_from p l' None W' I) FA z LZ) as TZ.
             assert (z_lt : (fst z < fst y)%N).
             { destruct W as [SS _]. rewrite <- (firstn_skipn k l) in SS. fold l' in SS. rewrite map_app in SS.
               apply sorted_app_inv in SS. destruct SS as (_ & _ & FA2). rewrite Forall_forall in FA2.
               assert (INz : In z l').
               { destruct (exists_last NE') as (l0 & z' & Ez). rewrite Ez, last_opt_snoc in LZ. inversion LZ; subst z'. rewrite Ez. apply in_or_app. right. left. reflexivity. }
               specialize (FA2 (fst z) (in_map fst _ _ INz)). rewrite Forall_forall in FA2. apply FA2. apply in_map. exact Hy. }
             lia.
        * destruct r as [ix|er| |]; try contradiction.
          -- destruct RES as [EI GI]. rewrite SPLIT, firstn_app, Nat.sub_diag, firstn_all in EI, GI. cbn [firstn] in EI, GI. rewrite app_nil_r in EI, GI.
             exists fsa, ix. split; [apply mcatch_ok; exact IO|]. split.
             ++ rewrite EI. f_equal. pose proof (last_sec_full p l' None 0) as LS. rewrite FA in LS. fold es' in LS.
                destruct (last_opt es') as [e|]; [inversion LS; reflexivity|discriminate].
             ++ split; [exact GI|]. intros g N1 N2. apply OA. exact N1.
          -- destruct (REBUILD fsa OA) as (fs2 & ix & E & A1 & A2 & A3).
             exists fs2, ix. split; [|repeat split; assumption]. eapply mcatch_err_handled; [exact IO|exact E]. }
  destruct IDX as (fs2 & ix & IO & EIX & GI2 & O2).
  assert (F2 : file_is fs2 o (outer header) (encode p l')).
  { eapply file_is_other; [exact F1|]. apply O2; [exact ND2|exact ND1]. }
  rewrite <- SL' in EIX, GI2.
  destruct (data_open_from_parts p fs fs1 fs2 name header cb l' ix W' FW F1 LM IO EIX GI2 F2) as (d & DO & RD & N1 & N2).
  exists fs2, d, k. split; [exact DO|]. split; [exact Hk|]. split; [exact LE1|]. split; [exact MX1|]. split; [exact RD|].
  split; [exact N1|]. split; [exact N2|].
  intros g A1 A2 A3. rewrite O2 by assumption. apply O1. exact A1.
Qed.
End TornOpen.

(* ---- C05 at the level of the builder: open after a crash ---- *)
Require Import BS.HeaderFacts BS.ReadAllFacts.
Section TornSeries.
Variable p : nat.
Hypothesis H4 : 4 <= p.

Theorem torn_open fs name uhdr popt hdropt cb l c :
  let header := params_to_text BSgen.Consts.version (N.of_nat p) ++ uhdr in
  wf_series p l -> c <= length (encode p l) -> (len header <= 65535)%N -> (len (encode p l) < 2^64)%N -> (N.of_nat p < 2^64)%N ->
  fs_get fs (name ++ ext_data) = Some (outer header ++ firstn c (encode p l)) ->
  index_state fs name (sections p (encode p l)) ->
  (popt = None \/ popt = Some (N.of_nat p)) ->
  match hdropt with HdrIs e => e = uhdr | HdrAny => True end ->
  exists fs' s k, builder_open name popt hdropt [] cb fs = (fs', Ok (s, uhdr))
    /\ k <= length l /\ length (encode p (firstn k l)) <= c /\ (k < length l -> c < length (encode p (firstn (S k) l)))
    /\ RepH fs' s p (outer header) (outer []) (firstn k l) /\ s_cb s = cb
    /\ (forall g, g <> name ++ ext_data -> g <> name ++ ext_index -> g <> name ++ ext_part -> fs_get fs' g = fs_get fs g).
Proof.
  intros header W Hc Hh H64 Hp GD IS Hopt HO.
  destruct (fwh_open_ok fs (name ++ ext_data) header (firstn c (encode p l)) Hh GD) as [FO _].
  destruct (data_open_torn p H4 fs name header cb l c W Hc Hh H64 GD IS) as (fs' & d & k & DO & Hk & LE & MX & RD & N1 & N2 & OT).
  assert (Wk : wf_series p (firstn k l)) by (apply (wf_firstn p); exact W).
  exists fs'. eexists. exists k. split; [|split; [exact Hk|split; [exact LE|split; [exact MX|split; [|split; [|exact OT]]]]]].
  - unfold builder_open, series_open. erewrite mbind_ok.
    2:{ erewrite mbind_ok by exact FO. cbv iota beta.
        unfold lift at 1. erewrite mbind_ok by (unfold header; rewrite (header_roundtrip (N.of_nat p) uhdr popt Hp Hopt); reflexivity). cbv iota beta.
        rewrite Nat2N.id. erewrite mbind_ok by (apply mcatch_ok; exact DO).
        unfold lift at 1. erewrite mbind_ok by (rewrite (data_range_ok p fs' d _ _ (firstn k l) Wk RD); reflexivity).
        erewrite mbind_ok by (apply mcatch_ok; reflexivity). reflexivity. }
    cbv iota beta. destruct hdropt as [|e]; [reflexivity|]. subst e. rewrite bytes_eqb_refl. reflexivity.
  - constructor; cbn [s_data s_down s_range]; [exact RD|exact Wk|reflexivity|reflexivity].
  - reflexivity.
Qed.

(* ... and the repaired series takes further appends and reads them back (C03, C02 from the invariant) *)
Corollary torn_open_then_append fs name uhdr popt hdropt cb l c ts pay :
  let header := params_to_text BSgen.Consts.version (N.of_nat p) ++ uhdr in
  wf_series p l -> c <= length (encode p l) -> (len header <= 65535)%N -> (len (encode p l) < 2^64)%N -> (N.of_nat p < 2^64)%N ->
  fs_get fs (name ++ ext_data) = Some (outer header ++ firstn c (encode p l)) ->
  index_state fs name (sections p (encode p l)) ->
  (popt = None \/ popt = Some (N.of_nat p)) ->
  match hdropt with HdrIs e => e = uhdr | HdrAny => True end ->
  exists fs' s k, builder_open name popt hdropt [] cb fs = (fs', Ok (s, uhdr)) /\ k <= length l
    /\ (accepts p (firstn k l) ts pay = true -> (ts < 2^64)%N ->
        exists fs'' s', push_line s ts pay fs' = (fs'', Ok s')
          /\ forall lo hi, read_all s' lo hi fs'' = (fs'', Ok (select lo hi (firstn k l ++ [(ts, pay)])))
                           \/ (select lo hi (firstn k l ++ [(ts, pay)]) = [] /\ read_all s' lo hi fs'' = (fs'', Err ERange))).
Proof.
  intros header W Hc Hh H64 Hp GD IS Hopt HO.
  destruct (torn_open fs name uhdr popt hdropt cb l c W Hc Hh H64 Hp GD IS Hopt HO) as (fs' & s & k & BO & Hk & _ & _ & R & _ & _).
  exists fs', s, k. split; [exact BO|]. split; [exact Hk|]. intros A Hts.
  pose proof (push_line_ok fs' s p _ _ (firstn k l) ts pay R Hts) as PL. rewrite A in PL.
  destruct PL as (fs'' & s' & E & R' & _). exists fs'', s'. split; [exact E|].
  intros lo hi. apply (read_all_ok fs'' s' p _ _ _ R' lo hi).
Qed.
End TornSeries.
