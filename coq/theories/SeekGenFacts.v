(* Tie 1 for the bounds of a range: gen/SeekGen.v is produced on every run by tools/translate_seek.py from the text of
   `checked_start_time` and `checked_end_time` in /repo/src/seek.rs (the first and the last timestamp a bounded read, a count or
   a resampling read looks for: the value inside the bound, one more / one less for an excluded bound with the edge of u64
   refused, clamped to the range of the series, an error when nothing is left). The theorems below - re-checked against
   whatever the translator produced this time - say that the translated functions are the hand-written model's
   (Seek.checked_start_time / checked_end_time), on which every theorem about bounded reads (C02), first-n reads and paging
   (C13), counts (C14) and resampling reads (C10, C11) rests. A `saturating_add` in place of the checked one, a swapped
   comparison or clamp changes the generated definition and breaks these obligations; a shape the translator does not know is
   rejected by it. *)
From Coq Require Import List NArith Lia.
Require Import BS.Common BS.Api BS.Index BS.Data BS.Seek.
Require BSgen.SeekGen.

Theorem gen_checked_start_is_model d b first last : data_range d = Ok (Some (first, last)) ->
  checked_start_time d b = BSgen.SeekGen.gen_checked_start first last b.
Proof. intros E. unfold checked_start_time, BSgen.SeekGen.gen_checked_start. rewrite E. reflexivity. Qed.

Theorem gen_checked_end_is_model d b first last : data_range d = Ok (Some (first, last)) ->
  checked_end_time d b = BSgen.SeekGen.gen_checked_end first last b.
Proof. intros E. unfold checked_end_time, BSgen.SeekGen.gen_checked_end. rewrite E. reflexivity. Qed.

(* what the translated functions compute, stated without reference to the model: the start is the smallest timestamp the
   bound allows, raised to the first line; the end the largest, lowered to the last line *)
Theorem gen_checked_start_spec first last b v : (first <= last)%N -> (last < U64)%N ->
  BSgen.SeekGen.gen_checked_start first last b = Ok v ->
  (first <= v <= last)%N /\ match b with Incl t => v = N.max t first | Excl t => v = N.max (t + 1) first | Unb => v = first end.
Proof.
  intros FL LU. unfold BSgen.SeekGen.gen_checked_start. destruct b as [t|t|]; cbn [bind].
  - destruct (N.ltb_spec last (N.max t first)); intros Q; inversion Q; subst. split; [split; [apply N.le_max_r|assumption]|reflexivity].
  - destruct (N.ltb_spec (t + 1) U64); cbn [bind]; [|discriminate].
    destruct (N.ltb_spec last (N.max (t + 1) first)); intros Q; inversion Q; subst. split; [split; [apply N.le_max_r|assumption]|reflexivity].
  - rewrite N.max_id. destruct (N.ltb_spec last first); intros Q; inversion Q; subst. split; [split; [apply N.le_refl|assumption]|reflexivity].
Qed.

Theorem gen_checked_end_spec first last b v : (first <= last)%N ->
  BSgen.SeekGen.gen_checked_end first last b = Ok v ->
  (first <= v <= last)%N /\ match b with Incl t => v = N.min t last | Excl t => (1 <= t)%N /\ v = N.min (t - 1) last | Unb => v = last end.
Proof.
  intros FL. unfold BSgen.SeekGen.gen_checked_end. destruct b as [t|t|]; cbn [bind].
  - destruct (N.ltb_spec (N.min t last) first); intros Q; inversion Q; subst. split; [split; [assumption|apply N.le_min_r]|reflexivity].
  - destruct (N.eqb_spec t 0); cbn [bind]; [discriminate|].
    destruct (N.ltb_spec (N.min (t - 1) last) first); intros Q; inversion Q; subst.
    split; [split; [assumption|apply N.le_min_r]|]. split; [lia|reflexivity].
  - rewrite N.min_id. destruct (N.ltb_spec last first); intros Q; inversion Q; subst. split; [split; [assumption|apply N.le_refl]|reflexivity].
Qed.

(* the two comparisons that apply the 65534 rule, as the current source text makes them: index.rs `in_gap` (does a timestamp lie
   beyond the reach of a 16 bit delta behind a full timestamp - the seek's choice between a section and the gap behind it) and
   the test of Data::push_data that decides between a delta and a new full timestamp *)
Theorem gen_in_gap_is_model val gs : in_gap val gs = BSgen.SeekGen.gen_in_gap val gs.
Proof. reflexivity. Qed.

Theorem gen_in_gap_spec val gs b : BSgen.SeekGen.gen_in_gap val gs = Ok b -> (b = true <-> (gs + 65534 < val)%N).
Proof.
  unfold BSgen.SeekGen.gen_in_gap, u64_add. change BSgen.Consts.max_small_ts with 65534%N.
  destruct (N.ltb_spec (gs + 65534) U64); cbn [bind]; [|discriminate].
  intros Q. inversion Q; subst. apply N.ltb_lt.
Qed.

(* the test the model's push_data makes (Data.push_data: `BSgen.Consts.max_small_ts <? diff`) *)
Theorem gen_starts_section_is_model diff : BSgen.SeekGen.gen_starts_section diff = (BSgen.Consts.max_small_ts <? diff)%N.
Proof. reflexivity. Qed.

Theorem gen_starts_section_spec diff : BSgen.SeekGen.gen_starts_section diff = true <-> (65534 < diff)%N.
Proof. unfold BSgen.SeekGen.gen_starts_section. change BSgen.Consts.max_small_ts with 65534%N. apply N.ltb_lt. Qed.
