(* Decidable classes of inputs on which dvdsk/byteseries is known to violate a property
   (known_findings.json). They are evaluated by the judge on its own abstract state (Layer S/F)
   right before an `open` / `new`; a judge failure is reported as KNOWN-FINDING only when the
   governing open/new of the failing operation lies in the listed class - any other failure of
   the same property is still a VIOLATION. The same predicates are the hypotheses `~ Known x`
   of the theorems in props/. *)
From Coq Require Import List NArith Bool Arith.
From Coq Require Import Strings.Byte.
Require Import BS.Bytes BS.Common BS.Api BS.Layout BS.Format BS.Spec BS.SpecStep.
Import ListNotations.
Close Scope N_scope. Open Scope nat_scope.

(* D6 marker_tail: among the last K slots of the (line-aligned) data region, followed by one
   synthetic marker slot, the first adjacent pair of slots that both start FF FF is not the start
   of a section that was being written (continuation slots of a full timestamp imitate markers). *)
Definition first_pair (ls:list slot) : option N :=
  position (fun ab => Layout.is_marker (fst ab) && Layout.is_marker (snd ab)) (pairs ls).
Definition marker_tail (p:nat) (region:list byte) : bool :=
  let L := p + 2 in
  let aligned := firstn (length region / L * L) region in
  let slots := chunks L aligned in
  let n := length slots in
  if n <=? Layout.K p then false else
  let start := n - Layout.K p in
  let window := skipn start slots ++ [[xff; xff] ++ repeat x00 p] in
  let s := scan p aligned in
  let genuine := match f_st s with FOne _ _ | FSec _ _ _ _ => Some (f_sec_start s) | _ => None end in
  match first_pair window with
  | None => false
  | Some i => match genuine with
              | Some g => negb (start + N.to_nat i =? g)
              | None => true
              end
  end.

(* D18 early_full: some full timestamp of the data region is followed by a first line whose 16 bit delta is not 0 (the
   full time was stored earlier than the line it precedes - permitted by the documented layout, never written by the
   library). Several code paths take the first line of a section to carry the section's own timestamp. *)
Definition early_full (p:nat) (region:list byte) : bool :=
  let L := p + 2 in
  existsb (fun e =>
    match firstn 2 (skipn (N.to_nat (snd e) + Layout.K p * L) region) with
    | [b0; b1] => negb (Layout.is_marker [b0; b1]) && negb (le_dec [b0; b1] =? 0)%N
    | _ => false
    end) (sections p region).

Section K.
Variable data_header : nat -> list byte -> list byte.
Variable cache_header : list byte -> N -> list byte.

(* a cache file whose header is intact and whose region holds no complete line (torn right after the header, inside
   its first full timestamp or inside its first bucket line): the library's tail repair empties it and the repair pass
   then resamples the whole source from the start - which is right when no bucket is left open *)
Definition cache_recovers_empty (p:nat) (name:list byte) (B:N) (c:list byte) : bool :=
  let h := enc_outer (cache_header name B) in
  bytes_eqb (firstn (length h) c) h
  && match recover p (drop (len h) c) with Some ([], _) => true | _ => false end.

(* class of an `open name ... caches`: 0 = none of the classes below
   1 = marker_tail (D6) on the data file;
   4 = early_full (D18) on the data file;
   2 = cache_realign (D10/D11): some requested cache exists and is neither the exact cache of the surviving lines nor
       a cache that recovers to empty, or the line count is not a multiple of its bucket size *)
Definition open_class (s:sstate) (name:list byte) (caches:list N) : N :=
  let s0 := close_handle data_header cache_header s in
  let fs := ss_fs s0 in
  match sfs_get fs (name ++ s_ext_data) with
  | None => 0%N
  | Some file =>
      match parse_file file with
      | None => 0%N
      | Some pf =>
          let p := pf_p pf in
          if marker_tail p (pf_region pf)
             || existsb (fun B => match sfs_get fs (s_cache_name name B ++ s_ext_data) with
                                  | Some c => marker_tail p (drop (4 + le_dec (firstn 2 c)) c)
                                  | None => false
                                  end) caches
          then 1%N else
          if early_full p (pf_region pf) then 4%N else
          match recover p (pf_region pf) with
          | None => 0%N
          | Some (l, _) =>
              if existsb (fun B =>
                   match sfs_get fs (s_cache_name name B ++ s_ext_data) with
                   | None => false
                   | Some c => negb ((bytes_eqb c (enc_outer (cache_header name B) ++ cache_region p B l)
                                      || cache_recovers_empty p name B c)
                                     && (length l mod N.to_nat B =? 0))
                   end) caches
              then 2%N else 0%N
          end
      end
  end.

(* class of a `new name ... caches`: 3 = create_residue (D13, cache part): the series itself does
   not exist but a stale cache file of a requested level does *)
Definition new_class (s:sstate) (name:list byte) (caches:list N) : N :=
  let s0 := close_handle data_header cache_header s in
  let fs := ss_fs s0 in
  if negb (sfs_mem fs (name ++ s_ext_data)) && negb (sfs_mem fs (name ++ s_ext_index))
     && existsb (fun B => sfs_mem fs (s_cache_name name B ++ s_ext_data) || sfs_mem fs (s_cache_name name B ++ s_ext_index)) caches
  then 3%N else 0%N.
End K.
