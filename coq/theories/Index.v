(* Layer I: src/series/data/index.rs and src/series/data/index/create.rs *)
From Coq Require Import List NArith Bool Arith.
From Coq Require Import Strings.Byte.
Require Import BS.Bytes BS.Common BS.Api BS.FS BS.Meta BS.Header.
Require BSgen.Consts.
Import ListNotations.
Close Scope N_scope. Open Scope nat_scope.

Notation entry := (N * N)%type (only parsing).        (* (timestamp, meta_start) *)
Record index := { ix_file : ofile; ix_entries : list entry; ix_last : option N }.

Definition ESZ : N := BSgen.Consts.index_entry_size.
Definition line_size (p:nat) : N := N.of_nat (p + 2).
Definition metainfo_size (p:nat) : N := (N.of_nat (lines_per_metainfo p) * line_size p)%N.
(* MetaPos::line_start *)
Definition line_start (p:nat) (meta_start:N) : N := (meta_start + metainfo_size p)%N.

Definition enc_entry (e:entry) : list byte := le_enc 8 (fst e) ++ le_enc 8 (snd e).
Definition dec_entry (b:list byte) : entry := (le_dec (firstn 8 b), le_dec (skipn 8 b)).

(* Index::new *)
Definition index_new (name:fname) : M index :=
  let* f := fwh_new (name ++ ext_index) [] in
  ret {| ix_file := f; ix_entries := []; ix_last := None |}.

(* Index::update *)
Definition index_update (ix:index) (ts meta_start:N) : M index :=
  exec of_append (ix_file ix) (enc_entry (ts, meta_start)) in
  ret {| ix_file := ix_file ix; ix_entries := ix_entries ix ++ [(ts, meta_start)]; ix_last := Some ts |}.

(* Index::clear *)
Definition index_clear (ix:index) : M index :=
  exec of_set_len (ix_file ix) 0 in
  ret {| ix_file := ix_file ix; ix_entries := []; ix_last := None |}.

(* check_and_repair *)
Definition check_and_repair (f:ofile) (last_line_in_data_start:option N) (last_full_ts_in_data:option N) : M unit :=
  let* l := of_len f in
  match last_line_in_data_start with
  | None => of_set_len f 0
  | Some lls =>
      let rest := (l mod ESZ)%N in
      exec of_set_len f (l - rest) in
      (* seek(SeekFrom::End(-16)) on the raw handle, then read_exact *)
      let* total := file_len (of_name f) in
      if (total <? ESZ)%N then fail EOther else
      let* last_entry := read_at (of_name f) (total - ESZ) ESZ in
      let '(last_full_ts, last_line_start) := dec_entry last_entry in
      let* l2 := of_len f in
      exec (if (lls <? last_line_start)%N
                 then (if (l2 <? ESZ)%N then mpanic else of_set_len f (l2 - ESZ))
                 else ret tt) in
      match last_full_ts_in_data with
      | None => mpanic                       (* expect *)
      | Some t => if (t =? last_full_ts)%N then ret tt else fail EOther
      end
  end.

(* Index::open_existing *)
Definition index_open (name:fname) (last_line_in_data_start last_full_ts_in_data:option N) : M index :=
  let* (f, _) := fwh_open (name ++ ext_index) in
  exec check_and_repair f last_line_in_data_start last_full_ts_in_data in
  let* bytes := of_read_from f 0 in
  let entries := map dec_entry (chunks (N.to_nat ESZ) bytes) in
  ret {| ix_file := f; ix_entries := entries; ix_last := option_map fst (last_opt entries) |}.

(* ---- create.rs ---- *)
(* meta(): scan the lines of one buffer; returns the (line index, timestamp) of every complete
   section and the number of lines at the end that belong to an unfinished section.
   State machine form as in Reader: 0 = outside, 1 = first marker seen, 2 = collecting. *)
Inductive mst := MN | M1 (idx:nat) (a:slot) | M2 (idx:nat) (a b:slot) (got:list slot).
Definition mheld (st:mst) : nat := match st with MN => 0 | M1 _ _ => 1 | M2 _ _ _ got => 2 + length got end.
Fixpoint meta_scan (p:nat) (i:nat) (st:mst) (acc:list (nat * N)) (lines:list slot) : list (nat * N) * mst :=
  match lines with
  | [] => (frev acc, st)
  | x :: t =>
      match st with
      | MN => if is_marker x then meta_scan p (S i) (M1 i x) acc t else meta_scan p (S i) MN acc t
      | M1 idx a =>
          if is_marker x
          then (if ncont p =? 0 then meta_scan p (S i) MN ((idx, meta_read_ts p a x []) :: acc) t
                else meta_scan p (S i) (M2 idx a x []) acc t)
          else meta_scan p (S i) MN acc t
      | M2 idx a b got =>
          let got' := got ++ [x] in
          if length got' =? ncont p then meta_scan p (S i) MN ((idx, meta_read_ts p a b got') :: acc) t
          else meta_scan p (S i) (M2 idx a b got') acc t
      end
  end.

(* extract_entries_inner (after the fix: unfinished sections are carried into the next chunk) *)
Fixpoint extract_loop (n:nat) (p:nat) (chunk:N) (region:list byte) (pos to_read previously_read:N)
         (carry:list byte) (acc:list entry) : res (list entry) :=
  match n with
  | O => Ok acc
  | S n' =>
      if (to_read =? 0)%N then Ok acc else
      let read_size := N.min chunk to_read in
      if (len region <? pos + read_size)%N then Err EOther else
      if (chunk + metainfo_size p <? len carry + read_size)%N then Panic else
      let buf := carry ++ slice pos (pos + read_size) region in
      let '(found, st) := meta_scan p 0 MN [] (chunks (p + 2) buf) in
      if (previously_read <? len carry)%N then Panic else
      let base := (previously_read - len carry)%N in
      let acc' := acc ++ map (fun x => (snd x, (base + N.of_nat (fst x) * line_size p)%N)) found in
      let unfinished := (N.of_nat (mheld st) * line_size p)%N in
      if (len buf <? unfinished)%N then Panic else
      extract_loop n' p chunk region (pos + read_size)%N (to_read - read_size)%N (previously_read + read_size)%N
                   (drop (len buf - unfinished) buf) acc'
  end.
Definition extract_entries_inner (p:nat) (region:list byte) (start end_:N) : res (list entry) :=
  if (end_ <? start)%N then Panic else
  let chunk := next_multiple_of BSgen.Consts.scan_chunk (line_size p) in
  extract_loop (S (N.to_nat (N.min ((end_ - start) / chunk) (len region / chunk + 1)))) p chunk region start (end_ - start)%N 0%N [] [].

(* last_meta_timestamp: backwards window search; fuel = bound on the iterations *)
Fixpoint last_meta_loop (fuel:nat) (p:nat) (region:list byte) (data_bytes window overlap start:N) : res (option N) :=
  match fuel with
  | O => OutOfFuel
  | S f =>
      let end_ := N.min (start + window) data_bytes in
      if (start =? end_)%N then Ok None else
      do list <- extract_entries_inner p region start end_;
      match last_opt list with
      | Some e => Ok (Some (fst e))
      | None =>
          if (start =? 0)%N then Panic else            (* assert!(start > 0) *)
          last_meta_loop f p region data_bytes window overlap ((start + overlap) - window)%N   (* saturating_sub *)
      end
  end.
Definition last_meta_fuel (data_bytes:N) : nat := S (S (N.to_nat (data_bytes / 1000))).
Definition last_meta_timestamp (p:nat) (region:list byte) : res (option N) :=
  let data_bytes := len region in
  let overlap := metainfo_size p in
  let window := next_multiple_of (N.max BSgen.Consts.last_meta_window (BSgen.Consts.last_meta_overlap_factor * overlap))
                                 (line_size p) in
  last_meta_loop (last_meta_fuel data_bytes) p region data_bytes window overlap (data_bytes - window)%N.

(* Index::create_from_byteseries *)
Fixpoint index_update_all (ix:index) (es:list entry) : M index :=
  match es with
  | [] => ret ix
  | e :: t => let* ix' := index_update ix (fst e) (snd e) in index_update_all ix' t
  end.
Definition create_from_byteseries (data:ofile) (p:nat) (name:fname) : M index :=
  let temp := name ++ ext_part in
  exec remove_file temp in                       (* the fix: a leftover .part is removed *)
  let* f := fwh_new temp [] in
  let* region := of_read_from data 0 in
  let* entries := lift (extract_entries_inner p region 0 (len region)) in
  let ix0 := {| ix_file := f; ix_entries := []; ix_last := option_map fst (last_opt entries) |} in
  let* ix := index_update_all ix0 entries in
  exec rename_file temp (name ++ ext_index) in
  ret {| ix_file := {| of_name := name ++ ext_index; of_off := of_off (ix_file ix) |};
         ix_entries := ix_entries ix; ix_last := ix_last ix |}.

(* ---- search bounds ---- *)
Inductive start_area :=
| SFound (pos:N) | SClipped | STillEnd (pos:N) | SWindow (start stop:N) | SGap (stops:N).
Inductive end_area :=
| EFound (pos:N) | ETillEnd (pos:N) | EWindow (start stop:N) | EGap (start:N).

(* binary_search_by_key on the timestamps: Ok i / Err (insertion point). Modelled for strictly
   sorted keys as: first index with key >= k. *)
Fixpoint lower_bound (k:N) (l:list entry) (i:nat) : nat :=
  match l with
  | [] => i
  | e :: t => if (fst e <? k)%N then lower_bound k t (S i) else i
  end.
Definition nth_entry (l:list entry) (i:nat) : entry := nth i l (0%N, 0%N).
Definition bsearch (k:N) (l:list entry) : nat * bool :=    (* (index, found) *)
  let i := lower_bound k l 0 in
  (i, (i <? length l) && (fst (nth_entry l i) =? k)%N).

Definition in_gap (val gap_start:N) : res bool :=
  do r <- u64_add gap_start BSgen.Consts.max_small_ts; Ok (r <? val)%N.

Definition start_search_bounds (es:list entry) (p:nat) (start_ts:N) : res (start_area * N) :=
  let '(i, found) := bsearch start_ts es in
  if found then Ok (SFound (line_start p (snd (nth_entry es i))), start_ts) else
  match es with
  | [] => Panic                                      (* self.entries[0] *)
  | e0 :: _ =>
      if i =? 0 then Ok (SClipped, fst e0) else
      if i =? length es then
        let l := nth_entry es (length es - 1) in Ok (STillEnd (line_start p (snd l)), fst l)
      else
        do g <- in_gap start_ts (fst (nth_entry es (i - 1)));
        if g then Ok (SGap (line_start p (snd (nth_entry es i))), fst (nth_entry es i))
        else if (fst (nth_entry es i) <=? start_ts)%N
             then Ok (SGap (line_start p (snd (nth_entry es i))), fst (nth_entry es i))
             else Ok (SWindow (line_start p (snd (nth_entry es (i - 1)))) (snd (nth_entry es i)),
                      fst (nth_entry es (i - 1)))
  end.

Definition end_search_bounds (es:list entry) (p:nat) (end_ts:N) : res (end_area * N) :=
  let '(i, found) := bsearch end_ts es in
  if found then Ok (EFound (line_start p (snd (nth_entry es i))), fst (nth_entry es i)) else
  if i =? 0 then Panic else                          (* assert!(end > 0) *)
  if i =? length es then
    let l := nth_entry es (length es - 1) in Ok (ETillEnd (line_start p (snd l)), fst l)
  else
    do g <- in_gap end_ts (fst (nth_entry es (i - 1)));
    if g then Ok (EGap (snd (nth_entry es i)), fst (nth_entry es (i - 1)))     (* the fix: entries[end] *)
    else Ok (EWindow (line_start p (snd (nth_entry es (i - 1)))) (snd (nth_entry es i)),
             fst (nth_entry es (i - 1))).
