(* Extraction of the executable model (Layer I: World.step') and, later, of the Layer S/F judges.
   Only ExtrOcamlBasic is used: N, positive, nat and byte stay the inductive types. *)
Require Import ExtrOcamlBasic.
Require Import BS.Bytes BS.Common BS.Api BS.FS BS.Reader BS.Seek BS.Series BS.World BS.Format BS.Spec BS.SpecStep BS.Judge.
From Coq Require Import Strings.Byte NArith.
Extraction Language OCaml.
Cd "../build/extract".
Extraction "model.ml" World.step' World.init_world World.run Byte.to_N Byte.of_N BS.Bytes.byte_of_N
  FS.fs_files Judge.judge_class Judge.judge_step Judge.judge_files Judge.judge_init Spec.ss_det Format.decode Format.parse_file Format.encode.
Cd "../../coq".
