(* Series WITH cache levels. Part 1: full, bounded and first-n reads, counts and accessors of a series that has cache levels
   are those of the series without them (they never look at the levels), so everything proved under RepH holds under RepS.
   Part 2: every session on a series created with cache levels - appends (every level follows), all reads, resampling reads
   through the levels, counts, accessors - run on the model is accepted by the judge, the files of every level included. *)
From Coq Require Import List NArith ZArith Lia Bool Arith ZifyBool ZifyN ZifyNat Sorted.
From Coq Require Import Strings.Byte.
Require Import BS.Bytes BS.Common BS.CommonFacts BS.Api BS.Layout BS.Format BS.FormatFacts BS.Spec BS.SpecStep BS.Known BS.Judge BS.Sections.
Require Import BS.FS BS.FSFacts BS.Meta BS.MetaFacts BS.Header BS.Reader BS.ReaderFacts BS.Index BS.Data BS.DataFacts BS.Seek BS.SeekFacts BS.Series BS.World.
Require Import BS.SeriesFacts BS.ReadAllFacts BS.TotalFacts BS.CountFacts BS.OpenFacts BS.SampleFacts BS.CacheFacts BS.CacheOpenFacts BS.LevelFacts BS.JudgeFacts.
Import ListNotations.
Close Scope N_scope. Open Scope nat_scope.

(* ---- part 1 ---- *)
Definition strip (s:series) : series := {| s_data := s_data s; s_down := []; s_cb := s_cb s; s_range := s_range s |}.

Lemma RepS_strip fs s p hdr ihdr l cs : RepS fs s p hdr ihdr l cs -> RepH fs (strip s) p hdr ihdr l.
Proof. intros [RD W RR _ _]. constructor; cbn [strip s_data s_down s_range]; try assumption. reflexivity. Qed.

Section ReadsWithCaches.
Variables (fs:fsys) (s:series) (p:nat) (hdr ihdr:list byte) (l:list line) (cs:list cspec).
Hypothesis R : RepS fs s p hdr ihdr l cs.

Theorem read_all_caches lo hi :
  read_all s lo hi fs = (fs, Ok (select lo hi l)) \/ (select lo hi l = [] /\ read_all s lo hi fs = (fs, Err ERange)).
Proof. exact (read_all_ok fs (strip s) p hdr ihdr l (RepS_strip _ _ _ _ _ _ _ R) lo hi). Qed.

Theorem read_first_n_caches n lo hi : (1 <= n)%N ->
  read_first_n s n lo hi fs = (fs, Ok (firstn (N.to_nat (N.min n (len (select lo hi l)))) (select lo hi l)))
  \/ (select lo hi l = [] /\ read_first_n s n lo hi fs = (fs, Err ERange)).
Proof. exact (read_first_n_ok fs (strip s) p hdr ihdr l (RepS_strip _ _ _ _ _ _ _ R) n lo hi). Qed.

Theorem n_lines_caches lo hi :
  (exists k, n_lines_between s lo hi fs = (fs, Ok k)
     /\ match select lo hi l with
        | [] => k = 0%N
        | _ => exists pf, (len (select lo hi l) <= k)%N
                 /\ k = (len (select lo hi l) + N.of_nat (Layout.K p * length (secs_from p (Some pf) 0 (select lo hi l))))%N
        end)
  \/ (select lo hi l = [] /\ n_lines_between s lo hi fs = (fs, Err ERange))
  \/ (select lo hi l = [] /\ l = [] /\ n_lines_between s lo hi fs = (fs, Ok 0%N)).
Proof. exact (n_lines_ok fs (strip s) p hdr ihdr l (RepS_strip _ _ _ _ _ _ _ R) lo hi). Qed.

Theorem n_lines_within_bound_caches lo hi k : n_lines_between s lo hi fs = (fs, Ok k) -> select lo hi l <> [] ->
  (len (select lo hi l) <= k)%N
  /\ (k <= len (select lo hi l) + N.of_nat (Layout.K p) * sections_touched p (encode p l) (select lo hi l))%N.
Proof. exact (n_lines_within_bound fs (strip s) p hdr ihdr l (RepS_strip _ _ _ _ _ _ _ R) lo hi k). Qed.

Theorem last_line_caches :
  series_last_line s fs = (fs, match last_opt l with Some x => Ok x | None => Err ENoData end).
Proof. exact (last_line_ok fs (strip s) p hdr ihdr l (RepS_strip _ _ _ _ _ _ _ R)). Qed.

Theorem len_caches : data_len_lines (s_data s) = Ok (len l).
Proof. exact (len_ok fs (strip s) p hdr ihdr l (RepS_strip _ _ _ _ _ _ _ R)). Qed.
Theorem range_caches : s_range s = first_last l.
Proof. exact (range_ok fs (strip s) p hdr ihdr l (RepS_strip _ _ _ _ _ _ _ R)). Qed.
Theorem payload_size_caches : d_p (s_data s) = p.
Proof. exact (payload_size_ok fs (strip s) p hdr ihdr l (RepS_strip _ _ _ _ _ _ _ R)). Qed.
End ReadsWithCaches.

(* ---- part 2: sessions on a series with cache levels, accepted by the judge ---- *)
Lemma sfs_get_put_all_notin : forall (files:sfs) fs g, ~ In g (map fst files) -> sfs_get (put_all fs files) g = sfs_get fs g.
Proof.
  induction files as [|[f c] t IH]; intros fs g NI; [reflexivity|].
  unfold put_all in *. cbn [fold_left fst snd map In] in *.
  rewrite IH by (intros Q; apply NI; right; exact Q). apply sfs_get_put_other. intros Q. apply NI. left. symmetry. exact Q.
Qed.
Lemma sfs_get_put_all_in : forall (files:sfs) fs g c, NoDup (map fst files) -> In (g, c) files -> sfs_get (put_all fs files) g = Some c.
Proof.
  induction files as [|[f c0] t IH]; intros fs g c ND IN; [contradiction|].
  cbn [map fst] in ND. inversion ND as [|? ? NI NDt]; subst.
  unfold put_all in *. cbn [fold_left fst snd]. destruct IN as [E|IN].
  - inversion E; subst. fold (put_all (sfs_put fs g c) t). rewrite sfs_get_put_all_notin by exact NI. apply sfs_get_put_same.
  - apply IH; assumption.
Qed.

Lemma pairs_flat_map {A B} (f:A -> list fname) (g:B -> list fname) : (forall a, length (f a) = 2) -> (forall b, length (g b) = 2) ->
  forall la lb, flat_map f la = flat_map g lb -> map f la = map g lb.
Proof.
  intros Hf Hg. induction la as [|a ta IH]; intros lb E; destruct lb as [|b tb]; cbn [flat_map map] in *.
  - reflexivity.
  - pose proof (Hg b) as L. destruct (g b) as [|x [|y r]]; cbn [length] in L; try lia. discriminate.
  - pose proof (Hf a) as L. destruct (f a) as [|x [|y r]]; cbn [length] in L; try lia. discriminate.
  - pose proof (Hf a) as La. pose proof (Hg b) as Lb.
    destruct (f a) as [|x1 [|y1 [|? ?]]] eqn:Ea; cbn [length] in La; try lia.
    destruct (g b) as [|x2 [|y2 [|? ?]]] eqn:Eb; cbn [length] in Lb; try lia.
    cbn [app] in E. inversion E; subst. f_equal. apply IH. assumption.
Qed.

Section SessionCaches.
Variables (name:fname) (p:nat) (hdr:list byte) (Bs:list N).
Let header := params_to_text BSgen.Consts.version (N.of_nat p) ++ hdr.
Let cs := map (open_spec name) Bs.
Let names := [name ++ ext_data; name ++ ext_index] ++ flat_map (cache_names name) Bs.
Hypothesis Hh : (len header <= 65535)%N.
Hypothesis HBs : Forall (fun B => (1 <= B)%N /\ (len (config_header name B) <= 65535)%N) Bs.
Hypothesis ND : NoDup names.
Hypothesis SORT : StronglySorted le (map fst cs).

Definition RelS (w:world) (s:sstate) (l:list line) : Prop :=
  exists sr h, w_h w = Some sr /\ ss_h s = Some h
    /\ RepS (w_fs w) sr p (outer header) (outer []) l cs
    /\ of_name (d_file (s_data sr)) = name ++ ext_data /\ of_name (ix_file (d_index (s_data sr))) = name ++ ext_index
    /\ map cache_files (s_down sr) = map (cache_names name) Bs
    /\ (forall g, ~ In g names -> fs_get (w_fs w) g = None)
    /\ sh_name h = name /\ sh_p h = p /\ sh_hdr h = hdr /\ sh_caches h = Bs /\ sh_dmg h = None
    /\ sh_rlines h = rev l /\ sh_rregion h = rev (encode p l) /\ sh_full h = full_after p None l
    /\ (forall g, ~ In g names -> sfs_get (ss_fs s) g = None) /\ ss_det s = true.

(* the files of every level as the model has them *)
Lemma level_files fs l : forall (down:list dsample) (Bl:list N),
  Forall2 (fun ds c =>
    file_is fs (d_file (ds_data ds)) (fst (snd c)) (encode p (cache_of p (fst c) l))
    /\ file_is fs (ix_file (d_index (ds_data ds))) (snd (snd c)) (enc_index (sections p (encode p (cache_of p (fst c) l)))))
    down (map (open_spec name) Bl) ->
  map cache_files down = map (cache_names name) Bl ->
  Forall (fun B =>
    fs_get fs (cache_name name B ++ ext_data) = Some (outer (config_header name B) ++ encode p (cache_of p (N.to_nat B) l))
    /\ fs_get fs (cache_name name B ++ ext_index) = Some (outer [] ++ enc_index (sections p (encode p (cache_of p (N.to_nat B) l))))) Bl.
Proof.
  induction down as [|ds t IH]; intros Bl CF M3; destruct Bl as [|B Bt]; try discriminate; [constructor|].
  cbn [map] in CF, M3. inversion CF as [|? ? ? ? [[G1 _] [G2 _]] CFt]; subst.
  unfold cache_files at 1, cache_names at 1 in M3. injection M3 as E1 E2 M3t.
  constructor; [|apply IH; assumption]. cbn [open_spec fst snd] in G1, G2. rewrite E1 in G1. rewrite E2 in G2. split; assumption.
Qed.

Definition level_entries (l:list line) (B:N) : sfs :=
  [ (cache_name name B ++ ext_data, outer (config_header name B) ++ encode p (cache_of p (N.to_nat B) l));
    (cache_name name B ++ ext_index, outer [] ++ enc_index (sections p (encode p (cache_of p (N.to_nat B) l)))) ].
Definition series_entries (l:list line) : sfs :=
  (name ++ ext_data, outer header ++ encode p l) :: (name ++ ext_index, outer [] ++ enc_index (sections p (encode p l)))
  :: flat_map (level_entries l) Bs.

Lemma level_entries_keys l : forall Bl, map fst (flat_map (level_entries l) Bl) = flat_map (cache_names name) Bl.
Proof. induction Bl as [|B t IH]; [reflexivity|]. cbn [flat_map]. rewrite map_app, IH. reflexivity. Qed.
Lemma series_entries_keys l : map fst (series_entries l) = names.
Proof. unfold series_entries, names. cbn [map fst app]. f_equal. f_equal. apply level_entries_keys. Qed.

Lemma rels_files w s l : RelS w s l -> forall g, fs_get (w_fs w) g = sfs_get (judge_files s) g.
Proof.
  intros (sr & h & Hw & Hs & R & N1 & N2 & NM & Oth & A1 & A2 & A3 & A4 & A5 & A6 & A7 & A8 & A9 & A10) g.
  pose proof (rd_file _ _ _ _ _ _ _ _ (rs_data _ _ _ _ _ _ _ R)) as [GD _].
  pose proof (rd_ix _ _ _ _ _ _ _ _ (rs_data _ _ _ _ _ _ _ R)) as [GI _].
  rewrite N1 in GD. rewrite N2 in GI.
  pose proof (level_files (w_fs w) l _ Bs (RepS_cache_files _ _ _ _ _ _ _ R) NM) as LF.
  assert (LN : sh_lines h = l) by (unfold sh_lines; rewrite A6, frev_rev, rev_involutive; reflexivity).
  assert (RG : sh_region h = encode p l) by (unfold sh_region; rewrite A7, frev_rev, rev_involutive; reflexivity).
  assert (HF : handle_files j_data_header j_cache_header h = series_entries l).
  { unfold handle_files. rewrite A5, A4, A1, A2, A3, LN, RG. reflexivity. }
  unfold judge_files, expected_files. rewrite Hs, HF.
  assert (MODEL : forall g0 c0, In (g0, c0) (series_entries l) -> fs_get (w_fs w) g0 = Some c0).
  { intros g0 c0 [E|[E|IN]]; [inversion E; subst; exact GD|inversion E; subst; exact GI|].
    apply in_flat_map in IN. destruct IN as (B & HB & INB). rewrite Forall_forall in LF. destruct (LF B HB) as [L1 L2].
    destruct INB as [E|[E|[]]]; inversion E; subst; assumption. }
  destruct (in_dec (list_eq_dec Byte.byte_eq_dec) g names) as [IN|NI].
  - rewrite <- (series_entries_keys l) in IN. apply in_map_iff in IN. destruct IN as ([g0 c0] & Eg & INe). cbn [fst] in Eg. subst g0.
    rewrite (sfs_get_put_all_in _ _ g c0); [apply MODEL; exact INe|rewrite series_entries_keys; exact ND|exact INe].
  - rewrite sfs_get_put_all_notin by (rewrite series_entries_keys; exact NI). rewrite A9 by exact NI. apply Oth. exact NI.
Qed.

Lemma rels_det w s l : RelS w s l -> ss_det s = true.
Proof. intros (sr & h & _ & _ & _ & _ & _ & _ & _ & _ & _ & _ & _ & _ & _ & _ & _ & _ & D). exact D. Qed.

Lemma rels_keep w s l sr : RelS w s l -> w_h w = Some sr -> RelS {| w_fs := w_fs w; w_h := Some sr |} s l.
Proof.
  intros (sr0 & h & Hw & Rest) E. rewrite Hw in E. inversion E; subst sr0.
  exists sr, h. cbn [w_h w_fs]. split; [reflexivity|]. exact Rest.
Qed.

Theorem step_accepted_caches w s l o : RelS w s l -> sess_op o ->
  snd (judge_step s o) (snd (step' w o)) = true /\ RelS (fst (step' w o)) (fst (judge_step s o)) (next_lines p l o).
Proof.
  intros RL SO.
  destruct RL as (sr & h & Hw & Hs & R & N1 & N2 & NM & Oth & A1 & A2 & A3 & A4 & A5 & A6 & A7 & A8 & A9 & A10).
  assert (LN : sh_lines h = l) by (unfold sh_lines; rewrite A6, frev_rev, rev_involutive; reflexivity).
  assert (RG : sh_region h = encode p l) by (unfold sh_region; rewrite A7, frev_rev, rev_involutive; reflexivity).
  assert (KEEP : RelS w s l).
  { exists sr, h. repeat (split; [assumption|]). assumption. }
  assert (JS : forall o', match o' with ONew _ _ _ _ _ | OOpen _ _ _ _ _ | OClose => False | _ => True end ->
               judge_step s o' = spec_step' j_data_header j_cache_header s o').
  { intros o' Ho. unfold judge_step, spec_step. rewrite Hs, A5. reflexivity. }
  assert (AF : all_files sr = names).
  { unfold all_files, names. rewrite N1, N2. rewrite !flat_map_concat_map, NM. reflexivity. }
  destruct SO as [ts pay Hts|lo hi|n lo hi|n lo hi|lo hi| | | | |].
  - (* push *)
    rewrite JS by exact I. cbn [step' step spec_step'].
    unfold spec_push, with_h. rewrite Hs. rewrite A2, A6, accepts_r_rev.
    cbn [next_lines].
    destruct (accepts p l ts pay) eqn:AC.
    + destruct (push_line_caches (w_fs w) sr p _ _ l cs ts pay R AC) as (fs' & sr' & E & R' & Oth' & AF' & _ & M1 & M2 & NM').
      destruct (tail_bytes p (sh_full h) (ts, pay)) as [b f'] eqn:TB.
      unfold with_handle. rewrite Hw. erewrite mbind_ok by exact E. cbn [ret fst snd is_out].
      split; [reflexivity|].
      eexists sr', _. cbn [w_h w_fs ss_h set_h ss_fs ss_det].
      split; [reflexivity|]. split; [reflexivity|]. split; [exact R'|]. split; [rewrite M1; exact N1|]. split; [rewrite M2; exact N2|].
      split; [rewrite NM'; exact NM|].
      split.
      { intros g NI. rewrite Oth' by (rewrite AF; exact NI). apply Oth. exact NI. }
      cbn [sh_name sh_p sh_hdr sh_caches sh_dmg sh_rlines sh_rregion sh_full].
      split; [exact A1|]. split; [reflexivity|]. split; [exact A3|]. split; [exact A4|]. split; [reflexivity|].
      split; [rewrite rev_app_distr; reflexivity|].
      rewrite A8 in TB.
      split.
      { rewrite A7, rev_append_rev, <- rev_app_distr, encode_snoc, TB. reflexivity. }
      split; [rewrite full_after_snoc, TB; reflexivity|]. split; assumption.
    + destruct (push_refused_caches (w_fs w) sr p _ _ l cs ts pay R Hts AC) as (e & E).
      unfold with_handle. rewrite Hw. erewrite mbind_err by exact E. cbn [fst snd is_err].
      split; [reflexivity|]. exact (rels_keep w s l sr KEEP Hw).
  - (* read_all *)
    rewrite JS by exact I. cbn [step' step spec_step']. unfold with_h. rewrite Hs, LN. cbn [fst snd next_lines].
    unfold with_handle, reading. rewrite Hw.
    destruct (read_all_caches (w_fs w) sr p _ _ l cs R lo hi) as [E|[SE E]].
    + erewrite mbind_ok by exact E. cbn [ret fst snd]. split.
      * unfold lines_or_nothing. destruct (select lo hi l) eqn:S0; [reflexivity|]. cbn [is_out]. apply lines_eqb_refl.
      * exact (rels_keep w s l sr KEEP Hw).
    + erewrite mbind_err by exact E. cbn [fst snd]. rewrite SE. split; [reflexivity|]. exact (rels_keep w s l sr KEEP Hw).
  - (* read_first_n *)
    rewrite JS by exact I. cbn [step' step spec_step']. unfold with_h. rewrite Hs, LN. cbn [fst snd next_lines].
    unfold with_handle, reading. rewrite Hw.
    destruct (N.eqb_spec n 0) as [->|Hn].
    + unfold read_first_n. cbn [N.eqb]. unfold mbind, ret. cbn [fst snd]. split; [reflexivity|]. exact (rels_keep w s l sr KEEP Hw).
    + destruct (read_first_n_caches (w_fs w) sr p _ _ l cs R n lo hi ltac:(lia)) as [E|[SE E]].
      * erewrite mbind_ok by exact E. cbn [ret fst snd]. split.
        -- unfold lines_or_nothing. destruct (firstn _ _) eqn:S0; [reflexivity|]. cbn [is_out]. apply lines_eqb_refl.
        -- exact (rels_keep w s l sr KEEP Hw).
      * erewrite mbind_err by exact E. cbn [fst snd]. rewrite SE. rewrite firstn_nil. split; [reflexivity|]. exact (rels_keep w s l sr KEEP Hw).
  - (* read_n through the levels *)
    rewrite JS by exact I. cbn [step' step spec_step']. unfold with_h. rewrite Hs. cbn [fst snd next_lines].
    unfold with_handle, reading. rewrite Hw. unfold read_n_allowed. rewrite LN, A4, A2.
    destruct (N.eqb_spec n 0) as [->|Hn].
    + unfold read_n. rewrite (sorted_lens_ok p (w_fs w) l _ _ (rs_caches _ _ _ _ _ _ _ R) SORT). cbn [N.eqb]. unfold mbind, ret. cbn [fst snd].
      split; [reflexivity|]. exact (rels_keep w s l sr KEEP Hw).
    + replace (n =? 0)%N with false by (symmetry; apply N.eqb_neq; exact Hn).
      assert (LV : l :: map (fun B => cache_of p (N.to_nat B) l) Bs = levels p l cs).
      { unfold levels, cs. rewrite map_map. reflexivity. }
      rewrite LV.
      destruct (read_n_levels_total p (w_fs w) sr _ _ l cs n lo hi R SORT ltac:(lia)) as (lev & INL & [(b & Hb & E & L2)|[SE E]]).
      * erewrite mbind_ok by exact E. cbn [ret fst snd]. split; [|exact (rels_keep w s l sr KEEP Hw)].
        apply existsb_exists. exists lev. split; [exact INL|apply (uniform_means_resample p n _ b Hb L2)].
      * erewrite mbind_err by exact E. cbn [fst snd]. split; [|exact (rels_keep w s l sr KEEP Hw)].
        apply existsb_exists. exists lev. split; [exact INL|rewrite SE; reflexivity].
  - (* n_lines *)
    rewrite JS by exact I. cbn [step' step spec_step']. unfold with_h. rewrite Hs, LN, RG, A2. cbn [fst snd next_lines].
    unfold with_handle, reading. rewrite Hw.
    destruct (n_lines_caches (w_fs w) sr p _ _ l cs R lo hi) as [(k & E & Hk)|[[SE E]|(SE & _ & E)]].
    + erewrite mbind_ok by exact E. cbn [ret fst snd]. split.
      * destruct (select lo hi l) as [|x t] eqn:S0.
        -- subst k. reflexivity.
        -- destruct (n_lines_within_bound_caches (w_fs w) sr p _ _ l cs R lo hi k E) as [B1 B2]; [rewrite S0; discriminate|].
           rewrite S0 in B1, B2. apply andb_true_intro. split; apply N.leb_le; assumption.
      * exact (rels_keep w s l sr KEEP Hw).
    + erewrite mbind_err by exact E. cbn [fst snd]. rewrite SE. split; [reflexivity|]. exact (rels_keep w s l sr KEEP Hw).
    + erewrite mbind_ok by exact E. cbn [ret fst snd]. rewrite SE. split; [reflexivity|]. exact (rels_keep w s l sr KEEP Hw).
  - (* last_line *)
    rewrite JS by exact I. cbn [step' step spec_step']. unfold with_h. rewrite Hs, LN. cbn [fst snd next_lines].
    unfold with_handle, reading. rewrite Hw. pose proof (last_line_caches (w_fs w) sr p _ _ l cs R) as E.
    destruct (last_opt l) as [x|] eqn:LO.
    + erewrite mbind_ok by exact E. cbn [ret fst snd is_out]. rewrite N.eqb_refl, bytes_eqb_refl. split; [reflexivity|]. exact (rels_keep w s l sr KEEP Hw).
    + erewrite mbind_err by exact E. cbn [fst snd is_err]. split; [reflexivity|]. exact (rels_keep w s l sr KEEP Hw).
  - (* len *)
    rewrite JS by exact I. cbn [step' step spec_step']. unfold with_h. rewrite Hs, LN. cbn [fst snd next_lines].
    unfold with_handle, reading, lift. rewrite Hw. rewrite (len_caches _ _ _ _ _ _ _ R). unfold mbind, ret. cbn [fst snd is_out].
    rewrite N.eqb_refl. split; [reflexivity|]. exact (rels_keep w s l sr KEEP Hw).
  - (* is_empty *)
    rewrite JS by exact I. cbn [step' step spec_step']. unfold with_h. rewrite Hs, LN. cbn [fst snd next_lines].
    unfold with_handle, reading, lift. rewrite Hw. rewrite (len_caches _ _ _ _ _ _ _ R). unfold mbind, ret. cbn [fst snd is_out].
    split; [|exact (rels_keep w s l sr KEEP Hw)].
    destruct l as [|x t]; [reflexivity|]. unfold len. cbn [length]. replace (N.of_nat (S (length t)) =? 0)%N with false by (symmetry; apply N.eqb_neq; lia). reflexivity.
  - (* range *)
    rewrite JS by exact I. cbn [step' step spec_step']. unfold with_h. rewrite Hs, LN. cbn [fst snd next_lines].
    unfold with_handle, reading. rewrite Hw. rewrite (range_caches _ _ _ _ _ _ _ R). unfold mbind, ret. cbn [fst snd is_out].
    split; [|exact (rels_keep w s l sr KEEP Hw)].
    destruct (first_last l) as [[a b]|]; [rewrite !N.eqb_refl; reflexivity|reflexivity].
  - (* payload_size *)
    rewrite JS by exact I. cbn [step' step spec_step']. unfold with_h. rewrite Hs, A2. cbn [fst snd next_lines].
    unfold with_handle, reading. rewrite Hw. rewrite (payload_size_caches _ _ _ _ _ _ _ R). unfold mbind, ret. cbn [fst snd is_out].
    rewrite N.eqb_refl. split; [reflexivity|]. exact (rels_keep w s l sr KEEP Hw).
Qed.
End SessionCaches.

(* what series_new touches: nothing outside the files of the series and its levels *)
Lemma series_new_caches_frame p fs name hdr (Bs:list N) cb :
  let header := params_to_text BSgen.Consts.version (N.of_nat p) ++ hdr in
  fs_mem fs (name ++ ext_data) = false -> fs_mem fs (name ++ ext_index) = false -> (len header <= 65535)%N ->
  Forall (fun B => (1 <= B)%N /\ (len (config_header name B) <= 65535)%N
                   /\ fs_mem fs (cache_name name B ++ ext_data) = false /\ fs_mem fs (cache_name name B ++ ext_index) = false) Bs ->
  NoDup ([name ++ ext_data; name ++ ext_index] ++ flat_map (cache_names name) Bs) ->
  forall fs' s, series_new name (N.of_nat p) hdr Bs cb fs = (fs', Ok s) ->
  forall g, ~ In g ([name ++ ext_data; name ++ ext_index] ++ flat_map (cache_names name) Bs) -> fs_get fs' g = fs_get fs g.
Proof.
  intros header M1 M2 Hl F ND fs' s ES g NI. unfold series_new in ES. fold header in ES. rewrite Nat2N.id in ES.
  destruct (data_new_ok fs name p header M1 M2 Hl) as (fs1 & d & E & RD & N1 & N2 & Oth).
  erewrite mbind_ok in ES by exact E.
  apply NoDup_app_inv in ND. destruct ND as (NDs & NDc & DIS).
  assert (F1 : Forall (fun B => (1 <= B)%N /\ (len (config_header name B) <= 65535)%N
                   /\ fs_mem fs1 (cache_name name B ++ ext_data) = false /\ fs_mem fs1 (cache_name name B ++ ext_index) = false) Bs).
  { apply Forall_forall. intros B0 HB0. rewrite Forall_forall in F. destruct (F B0 HB0) as (A1 & A2 & A3 & A4).
    split; [exact A1|]. split; [exact A2|].
    assert (NIn : forall g0, In g0 (cache_names name B0) -> g0 <> name ++ ext_data /\ g0 <> name ++ ext_index).
    { intros g0 Hg. split; intros Q; apply (DIS g0); try (subst g0; cbn [In]; auto); apply in_flat_map; exists B0; split; assumption. }
    split; rewrite CacheFacts.fs_mem_get, Oth; try (rewrite <- CacheFacts.fs_mem_get; assumption); apply NIn; cbn [cache_names In]; auto. }
  assert (EE : ix_entries (d_index d) = []).
  { rewrite (rd_entries _ _ _ _ _ _ _ _ RD). apply sections_nil. }
  destruct (create_caches_ok p name d cb EE Bs fs1 F1 NDc) as (fs2 & down & EC & F2 & FM & OthC).
  erewrite mbind_ok in ES by (apply mcatch_ok; exact EC).
  unfold ret in ES. inversion ES; subst fs'.
  rewrite OthC by (intros Q; apply NI; apply in_or_app; right; exact Q).
  apply Oth; intros Q; apply NI; subst g; cbn [app In]; auto.
Qed.

Section SessionCachesNew.
Variables (name:fname) (p:nat) (hdr:list byte) (Bs:list N).
Let header := params_to_text BSgen.Consts.version (N.of_nat p) ++ hdr.
Let cs := map (open_spec name) Bs.
Let names := [name ++ ext_data; name ++ ext_index] ++ flat_map (cache_names name) Bs.
Hypothesis Hh : (len header <= 65535)%N.
Hypothesis HBs : Forall (fun B => (1 <= B)%N /\ (len (config_header name B) <= 65535)%N) Bs.
Hypothesis ND : NoDup names.
Hypothesis SORT : StronglySorted le (map fst cs).

Theorem new_accepted_caches cb :
  snd (judge_step judge_init (ONew name (N.of_nat p) hdr Bs cb)) (snd (step' init_world (ONew name (N.of_nat p) hdr Bs cb))) = true
  /\ RelS name p hdr Bs (fst (step' init_world (ONew name (N.of_nat p) hdr Bs cb))) (fst (judge_step judge_init (ONew name (N.of_nat p) hdr Bs cb))) [].
Proof.
  assert (F0 : Forall (fun B => (1 <= B)%N /\ (len (config_header name B) <= 65535)%N
                   /\ fs_mem [] (cache_name name B ++ ext_data) = false /\ fs_mem [] (cache_name name B ++ ext_index) = false) Bs).
  { eapply Forall_impl; [|exact HBs]. intros B [H1 H2]. repeat split; assumption. }
  destruct (series_new_caches p [] name hdr Bs cb eq_refl eq_refl Hh F0 ND) as (fs' & sr & E & R & _ & AF).
  pose proof (series_new_caches_frame p [] name hdr Bs cb eq_refl eq_refl Hh F0 ND fs' sr E) as FR.
  cbn [step' step w_fs init_world]. rewrite E.
  unfold judge_step, spec_step, judge_init, spec_init. cbn [ss_h spec_step'].
  unfold spec_new, close_handle, expected_files. cbn [ss_h ss_fs ss_orig ss_det sfs_mem sfs_get].
  assert (NZ : existsb (fun B => (B =? 0)%N) Bs = false).
  { apply not_true_is_false. intros Q. apply existsb_exists in Q. destruct Q as (B & HB & Z). rewrite Forall_forall in HBs.
    destruct (HBs B HB) as [H1 _]. apply N.eqb_eq in Z. lia. }
  rewrite NZ. rewrite Nat2N.id. change (j_data_header p hdr) with header.
  replace (65535 <? len header)%N with false by (symmetry; apply N.ltb_ge; exact Hh).
  assert (NS : any_stale [] name Bs = false).
  { unfold any_stale. cbn [sfs_mem sfs_get orb]. apply not_true_is_false. intros Q. apply existsb_exists in Q. destruct Q as (B & _ & Z). discriminate. }
  rewrite NS. cbn [fst snd is_out].
  rewrite (payload_size_caches _ _ _ _ _ _ _ R), N.eqb_refl, bytes_eqb_refl. split; [reflexivity|].
  unfold all_files in AF. cbn [app] in AF. injection AF as N1 N2 FMq.
  assert (NM : map cache_files (s_down sr) = map (cache_names name) Bs).
  { apply pairs_flat_map; [intros a; reflexivity|intros b; reflexivity|exact FMq]. }
  eexists sr, _. cbn [w_h w_fs ss_h ss_fs ss_det sh_name sh_p sh_hdr sh_caches sh_dmg sh_rlines sh_rregion sh_full].
  split; [reflexivity|]. split; [reflexivity|]. split; [exact R|]. split; [exact N1|]. split; [exact N2|]. split; [exact NM|].
  split; [intros g NI; rewrite (FR g NI); reflexivity|].
  repeat (split; [reflexivity|]). reflexivity.
Qed.

(* every session on a series created with cache levels is accepted by the judge, the files of every level included *)
Lemma ops_accepted_caches : forall ops w s l, RelS name p hdr Bs w s l -> Forall sess_op ops -> accepted w s ops.
Proof.
  induction ops as [|o t IH]; intros w s l RL F; [exact I|].
  inversion F as [|? ? SO Ft]; subst.
  destruct (step_accepted_caches name p hdr Bs Hh SORT w s l o RL SO) as (OK & RL').
  cbn [accepted]. split; [exact OK|]. split; [exact (rels_files name p hdr Bs ND _ _ _ RL')|]. split; [exact (rels_det name p hdr Bs _ _ _ RL')|].
  exact (IH _ _ _ RL' Ft).
Qed.

Theorem session_accepted_caches cb ops : Forall sess_op ops ->
  accepted init_world judge_init (ONew name (N.of_nat p) hdr Bs cb :: ops).
Proof.
  intros F. destruct (new_accepted_caches cb) as [OK RL].
  cbn [accepted]. split; [exact OK|]. split; [exact (rels_files name p hdr Bs ND _ _ _ RL)|]. split; [exact (rels_det name p hdr Bs _ _ _ RL)|].
  exact (ops_accepted_caches ops _ _ [] RL F).
Qed.
End SessionCachesNew.

(* the premises are satisfiable: two levels with bucket sizes 2 and 4 *)
Example session_caches_example :
  let name := [x63] in let Bs := [2%N; 4%N] in
  Forall (fun B => (1 <= B)%N /\ (len (config_header name B) <= 65535)%N) Bs
  /\ NoDup ([name ++ ext_data; name ++ ext_index] ++ flat_map (cache_names name) Bs)
  /\ StronglySorted le (map fst (map (open_spec name) Bs)).
Proof.
  cbv zeta. split; [|split].
  - repeat constructor; try lia; apply N.leb_le; vm_compute; reflexivity.
  - vm_compute. repeat constructor; cbn [In]; intuition discriminate.
  - vm_compute. repeat constructor; lia.
Qed.
