(* Series WITH cache levels. Part 1: full, bounded and first-n reads, counts and accessors of a series that has cache levels
   are those of the series without them (they never look at the levels), so everything proved under RepH holds under RepS.
   Part 2: every session on a series created with cache levels - appends (every level follows), all reads, resampling reads
   through the levels, counts, accessors - run on the model is accepted by the judge, the files of every level included. *)
From Coq Require Import List NArith ZArith Lia Bool Arith ZifyBool ZifyN ZifyNat Sorted.
From Coq Require Import Strings.Byte.
Require Import BS.Bytes BS.Common BS.CommonFacts BS.Api BS.Layout BS.Format BS.FormatFacts BS.Spec BS.SpecStep BS.Known BS.Judge BS.Sections.
Require Import BS.FS BS.FSFacts BS.Meta BS.MetaFacts BS.Header BS.Reader BS.ReaderFacts BS.Index BS.Data BS.DataFacts BS.Seek BS.SeekFacts BS.Series BS.World.
Require Import BS.SeriesFacts BS.ReadAllFacts BS.TotalFacts BS.CountFacts BS.OpenFacts BS.SampleFacts BS.CacheFacts BS.CacheOpenFacts BS.LevelFacts BS.ExtractFacts BS.HeaderFacts BS.ParseFileFacts BS.CreateFailFacts BS.CacheCreateFacts BS.JudgeFacts.
Import ListNotations.
Close Scope N_scope. Open Scope nat_scope.

(* ---- part 1 ---- *)
Definition strip (s:series) : series := {| s_data := s_data s; s_down := []; s_cb := s_cb s; s_range := s_range s |}.

Lemma RepS_strip fs s p hdr ihdr l cs : RepS fs s p hdr ihdr l cs -> RepH fs (strip s) p hdr ihdr l.
Proof. intros [RD W RR _ _]. constructor; cbn [strip s_data s_down s_range]; try assumption. reflexivity. Qed.

Section ReadsWithCaches.
Variables (fs:fsys) (s:series) (p:nat) (hdr ihdr:list byte) (l:list line) (cs:list cspec).
Hypothesis R : RepS fs s p hdr ihdr l cs.

Theorem read_all_caches lo hi :
  read_all s lo hi fs = (fs, Ok (select lo hi l)) \/ (select lo hi l = [] /\ read_all s lo hi fs = (fs, Err ERange)).
Proof. exact (read_all_ok fs (strip s) p hdr ihdr l (RepS_strip _ _ _ _ _ _ _ R) lo hi). Qed.

Theorem read_first_n_caches n lo hi : (1 <= n)%N ->
  read_first_n s n lo hi fs = (fs, Ok (firstn (N.to_nat (N.min n (len (select lo hi l)))) (select lo hi l)))
  \/ (select lo hi l = [] /\ read_first_n s n lo hi fs = (fs, Err ERange)).
Proof. exact (read_first_n_ok fs (strip s) p hdr ihdr l (RepS_strip _ _ _ _ _ _ _ R) n lo hi). Qed.

Theorem n_lines_caches lo hi :
  (exists k, n_lines_between s lo hi fs = (fs, Ok k)
     /\ match select lo hi l with
        | [] => k = 0%N
        | _ => exists pf, (len (select lo hi l) <= k)%N
                 /\ k = (len (select lo hi l) + N.of_nat (Layout.K p * length (secs_from p (Some pf) 0 (select lo hi l))))%N
        end)
  \/ (select lo hi l = [] /\ n_lines_between s lo hi fs = (fs, Err ERange))
  \/ (select lo hi l = [] /\ l = [] /\ n_lines_between s lo hi fs = (fs, Ok 0%N)).
Proof. exact (n_lines_ok fs (strip s) p hdr ihdr l (RepS_strip _ _ _ _ _ _ _ R) lo hi). Qed.

Theorem n_lines_within_bound_caches lo hi k : n_lines_between s lo hi fs = (fs, Ok k) -> select lo hi l <> [] ->
  (len (select lo hi l) <= k)%N
  /\ (k <= len (select lo hi l) + N.of_nat (Layout.K p) * sections_touched p (encode p l) (select lo hi l))%N.
Proof. exact (n_lines_within_bound fs (strip s) p hdr ihdr l (RepS_strip _ _ _ _ _ _ _ R) lo hi k). Qed.

Theorem last_line_caches :
  series_last_line s fs = (fs, match last_opt l with Some x => Ok x | None => Err ENoData end).
Proof. exact (last_line_ok fs (strip s) p hdr ihdr l (RepS_strip _ _ _ _ _ _ _ R)). Qed.

Theorem len_caches : data_len_lines (s_data s) = Ok (len l).
Proof. exact (len_ok fs (strip s) p hdr ihdr l (RepS_strip _ _ _ _ _ _ _ R)). Qed.
Theorem range_caches : s_range s = first_last l.
Proof. exact (range_ok fs (strip s) p hdr ihdr l (RepS_strip _ _ _ _ _ _ _ R)). Qed.
Theorem payload_size_caches : d_p (s_data s) = p.
Proof. exact (payload_size_ok fs (strip s) p hdr ihdr l (RepS_strip _ _ _ _ _ _ _ R)). Qed.
End ReadsWithCaches.

(* ---- part 2: sessions on a series with cache levels, accepted by the judge ---- *)
Lemma sfs_get_put_all_notin : forall (files:sfs) fs g, ~ In g (map fst files) -> sfs_get (put_all fs files) g = sfs_get fs g.
Proof.
  induction files as [|[f c] t IH]; intros fs g NI; [reflexivity|].
  unfold put_all in *. cbn [fold_left fst snd map In] in *.
  rewrite IH by (intros Q; apply NI; right; exact Q). apply sfs_get_put_other. intros Q. apply NI. left. symmetry. exact Q.
Qed.
Lemma sfs_get_put_all_in : forall (files:sfs) fs g c, NoDup (map fst files) -> In (g, c) files -> sfs_get (put_all fs files) g = Some c.
Proof.
  induction files as [|[f c0] t IH]; intros fs g c ND IN; [contradiction|].
  cbn [map fst] in ND. inversion ND as [|? ? NI NDt]; subst.
  unfold put_all in *. cbn [fold_left fst snd]. destruct IN as [E|IN].
  - inversion E; subst. fold (put_all (sfs_put fs g c) t). rewrite sfs_get_put_all_notin by exact NI. apply sfs_get_put_same.
  - apply IH; assumption.
Qed.

Lemma pairs_flat_map {A B} (f:A -> list fname) (g:B -> list fname) : (forall a, length (f a) = 2) -> (forall b, length (g b) = 2) ->
  forall la lb, flat_map f la = flat_map g lb -> map f la = map g lb.
Proof.
  intros Hf Hg. induction la as [|a ta IH]; intros lb E; destruct lb as [|b tb]; cbn [flat_map map] in *.
  - reflexivity.
  - pose proof (Hg b) as L. destruct (g b) as [|x [|y r]]; cbn [length] in L; try lia. discriminate.
  - pose proof (Hf a) as L. destruct (f a) as [|x [|y r]]; cbn [length] in L; try lia. discriminate.
  - pose proof (Hf a) as La. pose proof (Hg b) as Lb.
    destruct (f a) as [|x1 [|y1 [|? ?]]] eqn:Ea; cbn [length] in La; try lia.
    destruct (g b) as [|x2 [|y2 [|? ?]]] eqn:Eb; cbn [length] in Lb; try lia.
    cbn [app] in E. inversion E; subst. f_equal. apply IH. assumption.
Qed.

Section SessionCaches.
Variables (name:fname) (p:nat) (hdr:list byte) (Bs:list N).
Let header := params_to_text BSgen.Consts.version (N.of_nat p) ++ hdr.
Let cs := map (open_spec name) Bs.
Let names := [name ++ ext_data; name ++ ext_index] ++ flat_map (cache_names name) Bs.
Hypothesis Hh : (len header <= 65535)%N.
Hypothesis HBs : Forall (fun B => (1 <= B)%N /\ (len (config_header name B) <= 65535)%N) Bs.
Hypothesis ND : NoDup names.
Hypothesis SORT : StronglySorted le (map fst cs).

Definition RelS (w:world) (s:sstate) (l:list line) : Prop :=
  exists sr h, w_h w = Some sr /\ ss_h s = Some h
    /\ RepS (w_fs w) sr p (outer header) (outer []) l cs
    /\ of_name (d_file (s_data sr)) = name ++ ext_data /\ of_name (ix_file (d_index (s_data sr))) = name ++ ext_index
    /\ map cache_files (s_down sr) = map (cache_names name) Bs
    /\ (forall g, ~ In g names -> fs_get (w_fs w) g = None)
    /\ sh_name h = name /\ sh_p h = p /\ sh_hdr h = hdr /\ sh_caches h = Bs /\ sh_dmg h = None
    /\ sh_rlines h = rev l /\ sh_rregion h = rev (encode p l) /\ sh_full h = full_after p None l
    /\ (forall g, ~ In g names -> sfs_get (ss_fs s) g = None) /\ ss_det s = true.

(* the files of every level as the model has them *)
Lemma level_files fs l : forall (down:list dsample) (Bl:list N),
  Forall2 (fun ds c =>
    file_is fs (d_file (ds_data ds)) (fst (snd c)) (encode p (cache_of p (fst c) l))
    /\ file_is fs (ix_file (d_index (ds_data ds))) (snd (snd c)) (enc_index (sections p (encode p (cache_of p (fst c) l)))))
    down (map (open_spec name) Bl) ->
  map cache_files down = map (cache_names name) Bl ->
  Forall (fun B =>
    fs_get fs (cache_name name B ++ ext_data) = Some (outer (config_header name B) ++ encode p (cache_of p (N.to_nat B) l))
    /\ fs_get fs (cache_name name B ++ ext_index) = Some (outer [] ++ enc_index (sections p (encode p (cache_of p (N.to_nat B) l))))) Bl.
Proof.
  induction down as [|ds t IH]; intros Bl CF M3; destruct Bl as [|B Bt]; try discriminate; [constructor|].
  cbn [map] in CF, M3. inversion CF as [|? ? ? ? [[G1 _] [G2 _]] CFt]; subst.
  unfold cache_files at 1, cache_names at 1 in M3. injection M3 as E1 E2 M3t.
  constructor; [|apply IH; assumption]. cbn [open_spec fst snd] in G1, G2. rewrite E1 in G1. rewrite E2 in G2. split; assumption.
Qed.

Definition level_entries (l:list line) (B:N) : sfs :=
  [ (cache_name name B ++ ext_data, outer (config_header name B) ++ encode p (cache_of p (N.to_nat B) l));
    (cache_name name B ++ ext_index, outer [] ++ enc_index (sections p (encode p (cache_of p (N.to_nat B) l)))) ].
Definition series_entries (l:list line) : sfs :=
  (name ++ ext_data, outer header ++ encode p l) :: (name ++ ext_index, outer [] ++ enc_index (sections p (encode p l)))
  :: flat_map (level_entries l) Bs.

Lemma level_entries_keys l : forall Bl, map fst (flat_map (level_entries l) Bl) = flat_map (cache_names name) Bl.
Proof. induction Bl as [|B t IH]; [reflexivity|]. cbn [flat_map]. rewrite map_app, IH. reflexivity. Qed.
Lemma series_entries_keys l : map fst (series_entries l) = names.
Proof. unfold series_entries, names. cbn [map fst app]. f_equal. f_equal. apply level_entries_keys. Qed.

Lemma rels_files w s l : RelS w s l -> forall g, fs_get (w_fs w) g = sfs_get (judge_files s) g.
Proof.
  intros (sr & h & Hw & Hs & R & N1 & N2 & NM & Oth & A1 & A2 & A3 & A4 & A5 & A6 & A7 & A8 & A9 & A10) g.
  pose proof (rd_file _ _ _ _ _ _ _ _ (rs_data _ _ _ _ _ _ _ R)) as [GD _].
  pose proof (rd_ix _ _ _ _ _ _ _ _ (rs_data _ _ _ _ _ _ _ R)) as [GI _].
  rewrite N1 in GD. rewrite N2 in GI.
  pose proof (level_files (w_fs w) l _ Bs (RepS_cache_files _ _ _ _ _ _ _ R) NM) as LF.
  assert (LN : sh_lines h = l) by (unfold sh_lines; rewrite A6, frev_rev, rev_involutive; reflexivity).
  assert (RG : sh_region h = encode p l) by (unfold sh_region; rewrite A7, frev_rev, rev_involutive; reflexivity).
  assert (HF : handle_files j_data_header j_cache_header h = series_entries l).
  { unfold handle_files. rewrite A5, A4, A1, A2, A3, LN, RG. reflexivity. }
  unfold judge_files, expected_files. rewrite Hs, HF.
  assert (MODEL : forall g0 c0, In (g0, c0) (series_entries l) -> fs_get (w_fs w) g0 = Some c0).
  { intros g0 c0 [E|[E|IN]]; [inversion E; subst; exact GD|inversion E; subst; exact GI|].
    apply in_flat_map in IN. destruct IN as (B & HB & INB). rewrite Forall_forall in LF. destruct (LF B HB) as [L1 L2].
    destruct INB as [E|[E|[]]]; inversion E; subst; assumption. }
  destruct (in_dec (list_eq_dec Byte.byte_eq_dec) g names) as [IN|NI].
  - rewrite <- (series_entries_keys l) in IN. apply in_map_iff in IN. destruct IN as ([g0 c0] & Eg & INe). cbn [fst] in Eg. subst g0.
    rewrite (sfs_get_put_all_in _ _ g c0); [apply MODEL; exact INe|rewrite series_entries_keys; exact ND|exact INe].
  - rewrite sfs_get_put_all_notin by (rewrite series_entries_keys; exact NI). rewrite A9 by exact NI. apply Oth. exact NI.
Qed.

Lemma rels_det w s l : RelS w s l -> ss_det s = true.
Proof. intros (sr & h & _ & _ & _ & _ & _ & _ & _ & _ & _ & _ & _ & _ & _ & _ & _ & _ & D). exact D. Qed.

Lemma rels_keep w s l sr : RelS w s l -> w_h w = Some sr -> RelS {| w_fs := w_fs w; w_h := Some sr |} s l.
Proof.
  intros (sr0 & h & Hw & Rest) E. rewrite Hw in E. inversion E; subst sr0.
  exists sr, h. cbn [w_h w_fs]. split; [reflexivity|]. exact Rest.
Qed.

Theorem step_accepted_caches w s l o : RelS w s l -> sess_op o ->
  snd (judge_step s o) (snd (step' w o)) = true /\ RelS (fst (step' w o)) (fst (judge_step s o)) (next_lines p l o).
Proof.
  intros RL SO.
  destruct RL as (sr & h & Hw & Hs & R & N1 & N2 & NM & Oth & A1 & A2 & A3 & A4 & A5 & A6 & A7 & A8 & A9 & A10).
  assert (LN : sh_lines h = l) by (unfold sh_lines; rewrite A6, frev_rev, rev_involutive; reflexivity).
  assert (RG : sh_region h = encode p l) by (unfold sh_region; rewrite A7, frev_rev, rev_involutive; reflexivity).
  assert (KEEP : RelS w s l).
  { exists sr, h. repeat (split; [assumption|]). assumption. }
  assert (JS : forall o', match o' with ONew _ _ _ _ _ | OOpen _ _ _ _ _ | OClose => False | _ => True end ->
               judge_step s o' = spec_step' j_data_header j_cache_header s o').
  { intros o' Ho. unfold judge_step, spec_step. rewrite Hs, A5. reflexivity. }
  assert (AF : all_files sr = names).
  { unfold all_files, names. rewrite N1, N2. rewrite !flat_map_concat_map, NM. reflexivity. }
  destruct SO as [ts pay Hts|lo hi|n lo hi|n lo hi|lo hi| | | | |].
  - (* push *)
    rewrite JS by exact I. cbn [step' step spec_step'].
    unfold spec_push, with_h. rewrite Hs. rewrite A2, A6, accepts_r_rev.
    cbn [next_lines].
    destruct (accepts p l ts pay) eqn:AC.
    + destruct (push_line_caches (w_fs w) sr p _ _ l cs ts pay R AC) as (fs' & sr' & E & R' & Oth' & AF' & _ & M1 & M2 & NM').
      destruct (tail_bytes p (sh_full h) (ts, pay)) as [b f'] eqn:TB.
      unfold with_handle. rewrite Hw. erewrite mbind_ok by exact E. cbn [ret fst snd is_out].
      split; [reflexivity|].
      eexists sr', _. cbn [w_h w_fs ss_h set_h ss_fs ss_det].
      split; [reflexivity|]. split; [reflexivity|]. split; [exact R'|]. split; [rewrite M1; exact N1|]. split; [rewrite M2; exact N2|].
      split; [rewrite NM'; exact NM|].
      split.
      { intros g NI. rewrite Oth' by (rewrite AF; exact NI). apply Oth. exact NI. }
      cbn [sh_name sh_p sh_hdr sh_caches sh_dmg sh_rlines sh_rregion sh_full].
      split; [exact A1|]. split; [reflexivity|]. split; [exact A3|]. split; [exact A4|]. split; [reflexivity|].
      split; [rewrite rev_app_distr; reflexivity|].
      rewrite A8 in TB.
      split.
      { rewrite A7, rev_append_rev, <- rev_app_distr, encode_snoc, TB. reflexivity. }
      split; [rewrite full_after_snoc, TB; reflexivity|]. split; assumption.
    + destruct (push_refused_caches (w_fs w) sr p _ _ l cs ts pay R Hts AC) as (e & E).
      unfold with_handle. rewrite Hw. erewrite mbind_err by exact E. cbn [fst snd is_err].
      split; [reflexivity|]. exact (rels_keep w s l sr KEEP Hw).
  - (* read_all *)
    rewrite JS by exact I. cbn [step' step spec_step']. unfold with_h. rewrite Hs, LN. cbn [fst snd next_lines].
    unfold with_handle, reading. rewrite Hw.
    destruct (read_all_caches (w_fs w) sr p _ _ l cs R lo hi) as [E|[SE E]].
    + erewrite mbind_ok by exact E. cbn [ret fst snd]. split.
      * unfold lines_or_nothing. destruct (select lo hi l) eqn:S0; [reflexivity|]. cbn [is_out]. apply lines_eqb_refl.
      * exact (rels_keep w s l sr KEEP Hw).
    + erewrite mbind_err by exact E. cbn [fst snd]. rewrite SE. split; [reflexivity|]. exact (rels_keep w s l sr KEEP Hw).
  - (* read_first_n *)
    rewrite JS by exact I. cbn [step' step spec_step']. unfold with_h. rewrite Hs, LN. cbn [fst snd next_lines].
    unfold with_handle, reading. rewrite Hw.
    destruct (N.eqb_spec n 0) as [->|Hn].
    + unfold read_first_n. cbn [N.eqb]. unfold mbind, ret. cbn [fst snd]. split; [reflexivity|]. exact (rels_keep w s l sr KEEP Hw).
    + destruct (read_first_n_caches (w_fs w) sr p _ _ l cs R n lo hi ltac:(lia)) as [E|[SE E]].
      * erewrite mbind_ok by exact E. cbn [ret fst snd]. split.
        -- unfold lines_or_nothing. destruct (firstn _ _) eqn:S0; [reflexivity|]. cbn [is_out]. apply lines_eqb_refl.
        -- exact (rels_keep w s l sr KEEP Hw).
      * erewrite mbind_err by exact E. cbn [fst snd]. rewrite SE. rewrite firstn_nil. split; [reflexivity|]. exact (rels_keep w s l sr KEEP Hw).
  - (* read_n through the levels *)
    rewrite JS by exact I. cbn [step' step spec_step']. unfold with_h. rewrite Hs. cbn [fst snd next_lines].
    unfold with_handle, reading. rewrite Hw. unfold read_n_allowed. rewrite LN, A4, A2.
    destruct (N.eqb_spec n 0) as [->|Hn].
    + unfold read_n. rewrite (sorted_lens_ok p (w_fs w) l _ _ (rs_caches _ _ _ _ _ _ _ R) SORT). cbn [N.eqb]. unfold mbind, ret. cbn [fst snd].
      split; [reflexivity|]. exact (rels_keep w s l sr KEEP Hw).
    + replace (n =? 0)%N with false by (symmetry; apply N.eqb_neq; exact Hn).
      assert (LV : l :: map (fun B => cache_of p (N.to_nat B) l) Bs = levels p l cs).
      { unfold levels, cs. rewrite map_map. reflexivity. }
      rewrite LV.
      destruct (read_n_levels_total p (w_fs w) sr _ _ l cs n lo hi R SORT ltac:(lia)) as (lev & INL & [(b & Hb & E & L2)|[SE E]]).
      * erewrite mbind_ok by exact E. cbn [ret fst snd]. split; [|exact (rels_keep w s l sr KEEP Hw)].
        apply existsb_exists. exists lev. split; [exact INL|apply (uniform_means_resample p n _ b Hb L2)].
      * erewrite mbind_err by exact E. cbn [fst snd]. split; [|exact (rels_keep w s l sr KEEP Hw)].
        apply existsb_exists. exists lev. split; [exact INL|rewrite SE; reflexivity].
  - (* n_lines *)
    rewrite JS by exact I. cbn [step' step spec_step']. unfold with_h. rewrite Hs, LN, RG, A2. cbn [fst snd next_lines].
    unfold with_handle, reading. rewrite Hw.
    destruct (n_lines_caches (w_fs w) sr p _ _ l cs R lo hi) as [(k & E & Hk)|[[SE E]|(SE & _ & E)]].
    + erewrite mbind_ok by exact E. cbn [ret fst snd]. split.
      * destruct (select lo hi l) as [|x t] eqn:S0.
        -- subst k. reflexivity.
        -- destruct (n_lines_within_bound_caches (w_fs w) sr p _ _ l cs R lo hi k E) as [B1 B2]; [rewrite S0; discriminate|].
           rewrite S0 in B1, B2. apply andb_true_intro. split; apply N.leb_le; assumption.
      * exact (rels_keep w s l sr KEEP Hw).
    + erewrite mbind_err by exact E. cbn [fst snd]. rewrite SE. split; [reflexivity|]. exact (rels_keep w s l sr KEEP Hw).
    + erewrite mbind_ok by exact E. cbn [ret fst snd]. rewrite SE. split; [reflexivity|]. exact (rels_keep w s l sr KEEP Hw).
  - (* last_line *)
    rewrite JS by exact I. cbn [step' step spec_step']. unfold with_h. rewrite Hs, LN. cbn [fst snd next_lines].
    unfold with_handle, reading. rewrite Hw. pose proof (last_line_caches (w_fs w) sr p _ _ l cs R) as E.
    destruct (last_opt l) as [x|] eqn:LO.
    + erewrite mbind_ok by exact E. cbn [ret fst snd is_out]. rewrite N.eqb_refl, bytes_eqb_refl. split; [reflexivity|]. exact (rels_keep w s l sr KEEP Hw).
    + erewrite mbind_err by exact E. cbn [fst snd is_err]. split; [reflexivity|]. exact (rels_keep w s l sr KEEP Hw).
  - (* len *)
    rewrite JS by exact I. cbn [step' step spec_step']. unfold with_h. rewrite Hs, LN. cbn [fst snd next_lines].
    unfold with_handle, reading, lift. rewrite Hw. rewrite (len_caches _ _ _ _ _ _ _ R). unfold mbind, ret. cbn [fst snd is_out].
    rewrite N.eqb_refl. split; [reflexivity|]. exact (rels_keep w s l sr KEEP Hw).
  - (* is_empty *)
    rewrite JS by exact I. cbn [step' step spec_step']. unfold with_h. rewrite Hs, LN. cbn [fst snd next_lines].
    unfold with_handle, reading, lift. rewrite Hw. rewrite (len_caches _ _ _ _ _ _ _ R). unfold mbind, ret. cbn [fst snd is_out].
    split; [|exact (rels_keep w s l sr KEEP Hw)].
    destruct l as [|x t]; [reflexivity|]. unfold len. cbn [length]. replace (N.of_nat (S (length t)) =? 0)%N with false by (symmetry; apply N.eqb_neq; lia). reflexivity.
  - (* range *)
    rewrite JS by exact I. cbn [step' step spec_step']. unfold with_h. rewrite Hs, LN. cbn [fst snd next_lines].
    unfold with_handle, reading. rewrite Hw. rewrite (range_caches _ _ _ _ _ _ _ R). unfold mbind, ret. cbn [fst snd is_out].
    split; [|exact (rels_keep w s l sr KEEP Hw)].
    destruct (first_last l) as [[a b]|]; [rewrite !N.eqb_refl; reflexivity|reflexivity].
  - (* payload_size *)
    rewrite JS by exact I. cbn [step' step spec_step']. unfold with_h. rewrite Hs, A2. cbn [fst snd next_lines].
    unfold with_handle, reading. rewrite Hw. rewrite (payload_size_caches _ _ _ _ _ _ _ R). unfold mbind, ret. cbn [fst snd is_out].
    rewrite N.eqb_refl. split; [reflexivity|]. exact (rels_keep w s l sr KEEP Hw).
Qed.
End SessionCaches.

(* what series_new touches: nothing outside the files of the series and its levels *)
Lemma series_new_caches_frame p fs name hdr (Bs:list N) cb :
  let header := params_to_text BSgen.Consts.version (N.of_nat p) ++ hdr in
  fs_mem fs (name ++ ext_data) = false -> fs_mem fs (name ++ ext_index) = false -> (len header <= 65535)%N ->
  Forall (fun B => (1 <= B)%N /\ (len (config_header name B) <= 65535)%N
                   /\ fs_mem fs (cache_name name B ++ ext_data) = false /\ fs_mem fs (cache_name name B ++ ext_index) = false) Bs ->
  NoDup ([name ++ ext_data; name ++ ext_index] ++ flat_map (cache_names name) Bs) ->
  forall fs' s, series_new name (N.of_nat p) hdr Bs cb fs = (fs', Ok s) ->
  forall g, ~ In g ([name ++ ext_data; name ++ ext_index] ++ flat_map (cache_names name) Bs) -> fs_get fs' g = fs_get fs g.
Proof.
  intros header M1 M2 Hl F ND fs' s ES g NI. unfold series_new in ES. fold header in ES. rewrite Nat2N.id in ES.
  destruct (data_new_ok fs name p header M1 M2 Hl) as (fs1 & d & E & RD & N1 & N2 & Oth).
  erewrite mbind_ok in ES by exact E.
  apply NoDup_app_inv in ND. destruct ND as (NDs & NDc & DIS).
  assert (F1 : Forall (fun B => (1 <= B)%N /\ (len (config_header name B) <= 65535)%N
                   /\ fs_mem fs1 (cache_name name B ++ ext_data) = false /\ fs_mem fs1 (cache_name name B ++ ext_index) = false) Bs).
  { apply Forall_forall. intros B0 HB0. rewrite Forall_forall in F. destruct (F B0 HB0) as (A1 & A2 & A3 & A4).
    split; [exact A1|]. split; [exact A2|].
    assert (NIn : forall g0, In g0 (cache_names name B0) -> g0 <> name ++ ext_data /\ g0 <> name ++ ext_index).
    { intros g0 Hg. split; intros Q; apply (DIS g0); try (subst g0; cbn [In]; auto); apply in_flat_map; exists B0; split; assumption. }
    split; rewrite CacheFacts.fs_mem_get, Oth; try (rewrite <- CacheFacts.fs_mem_get; assumption); apply NIn; cbn [cache_names In]; auto. }
  assert (EE : ix_entries (d_index d) = []).
  { rewrite (rd_entries _ _ _ _ _ _ _ _ RD). apply sections_nil. }
  destruct (create_caches_ok p name d cb EE Bs fs1 F1 NDc) as (fs2 & down & EC & F2 & FM & OthC).
  erewrite mbind_ok in ES by (apply mcatch_ok; exact EC).
  unfold ret in ES. inversion ES; subst fs'.
  rewrite OthC by (intros Q; apply NI; apply in_or_app; right; exact Q).
  apply Oth; intros Q; apply NI; subst g; cbn [app In]; auto.
Qed.

Section SessionCachesNew.
Variables (name:fname) (p:nat) (hdr:list byte) (Bs:list N).
Let header := params_to_text BSgen.Consts.version (N.of_nat p) ++ hdr.
Let cs := map (open_spec name) Bs.
Let names := [name ++ ext_data; name ++ ext_index] ++ flat_map (cache_names name) Bs.
Hypothesis Hh : (len header <= 65535)%N.
Hypothesis HBs : Forall (fun B => (1 <= B)%N /\ (len (config_header name B) <= 65535)%N) Bs.
Hypothesis ND : NoDup names.
Hypothesis SORT : StronglySorted le (map fst cs).

Theorem new_accepted_caches cb :
  snd (judge_step judge_init (ONew name (N.of_nat p) hdr Bs cb)) (snd (step' init_world (ONew name (N.of_nat p) hdr Bs cb))) = true
  /\ RelS name p hdr Bs (fst (step' init_world (ONew name (N.of_nat p) hdr Bs cb))) (fst (judge_step judge_init (ONew name (N.of_nat p) hdr Bs cb))) [].
Proof.
  assert (F0 : Forall (fun B => (1 <= B)%N /\ (len (config_header name B) <= 65535)%N
                   /\ fs_mem [] (cache_name name B ++ ext_data) = false /\ fs_mem [] (cache_name name B ++ ext_index) = false) Bs).
  { eapply Forall_impl; [|exact HBs]. intros B [H1 H2]. repeat split; assumption. }
  destruct (series_new_caches p [] name hdr Bs cb eq_refl eq_refl Hh F0 ND) as (fs' & sr & E & R & _ & AF).
  pose proof (series_new_caches_frame p [] name hdr Bs cb eq_refl eq_refl Hh F0 ND fs' sr E) as FR.
  cbn [step' step w_fs init_world]. rewrite E.
  unfold judge_step, spec_step, judge_init, spec_init. cbn [ss_h spec_step'].
  unfold spec_new, close_handle, expected_files. cbn [ss_h ss_fs ss_orig ss_det sfs_mem sfs_get].
  assert (NZ : existsb (fun B => (B =? 0)%N) Bs = false).
  { apply not_true_is_false. intros Q. apply existsb_exists in Q. destruct Q as (B & HB & Z). rewrite Forall_forall in HBs.
    destruct (HBs B HB) as [H1 _]. apply N.eqb_eq in Z. lia. }
  rewrite NZ. rewrite Nat2N.id. change (j_data_header p hdr) with header.
  replace (65535 <? len header)%N with false by (symmetry; apply N.ltb_ge; exact Hh).
  assert (NS : any_stale [] name Bs = false).
  { unfold any_stale. cbn [sfs_mem sfs_get orb]. apply not_true_is_false. intros Q. apply existsb_exists in Q. destruct Q as (B & _ & Z). discriminate. }
  rewrite NS. cbn [fst snd is_out].
  rewrite (payload_size_caches _ _ _ _ _ _ _ R), N.eqb_refl, bytes_eqb_refl. split; [reflexivity|].
  unfold all_files in AF. cbn [app] in AF. injection AF as N1 N2 FMq.
  assert (NM : map cache_files (s_down sr) = map (cache_names name) Bs).
  { apply pairs_flat_map; [intros a; reflexivity|intros b; reflexivity|exact FMq]. }
  eexists sr, _. cbn [w_h w_fs ss_h ss_fs ss_det sh_name sh_p sh_hdr sh_caches sh_dmg sh_rlines sh_rregion sh_full].
  split; [reflexivity|]. split; [reflexivity|]. split; [exact R|]. split; [exact N1|]. split; [exact N2|]. split; [exact NM|].
  split; [intros g NI; rewrite (FR g NI); reflexivity|].
  repeat (split; [reflexivity|]). reflexivity.
Qed.

(* every session on a series created with cache levels is accepted by the judge, the files of every level included *)
Lemma ops_accepted_caches : forall ops w s l, RelS name p hdr Bs w s l -> Forall sess_op ops -> accepted w s ops.
Proof.
  induction ops as [|o t IH]; intros w s l RL F; [exact I|].
  inversion F as [|? ? SO Ft]; subst.
  destruct (step_accepted_caches name p hdr Bs Hh SORT w s l o RL SO) as (OK & RL').
  cbn [accepted]. split; [exact OK|]. split; [exact (rels_files name p hdr Bs ND _ _ _ RL')|]. split; [exact (rels_det name p hdr Bs _ _ _ RL')|].
  exact (IH _ _ _ RL' Ft).
Qed.

Theorem session_accepted_caches cb ops : Forall sess_op ops ->
  accepted init_world judge_init (ONew name (N.of_nat p) hdr Bs cb :: ops).
Proof.
  intros F. destruct (new_accepted_caches cb) as [OK RL].
  cbn [accepted]. split; [exact OK|]. split; [exact (rels_files name p hdr Bs ND _ _ _ RL)|]. split; [exact (rels_det name p hdr Bs _ _ _ RL)|].
  exact (ops_accepted_caches ops _ _ [] RL F).
Qed.
End SessionCachesNew.

(* ---- files removed between two sessions ---- *)
Definition rm_all (fs:fsys) (fl:list fname) : fsys := fold_left (fun fs f => if fs_mem fs f then fs_del fs f else fs) fl fs.
Lemma rm_all_notin : forall fl fs g, ~ In g fl -> fs_get (rm_all fs fl) g = fs_get fs g.
Proof.
  induction fl as [|f t IH]; intros fs g NI; [reflexivity|]. cbn [rm_all fold_left]. fold (rm_all (if fs_mem fs f then fs_del fs f else fs) t).
  rewrite IH by (intros Q; apply NI; right; exact Q).
  destruct (fs_mem fs f); [|reflexivity]. apply fs_get_del_other. intros ->. apply NI. left. reflexivity.
Qed.
Lemma rm_all_none : forall fl fs g, fs_get fs g = None -> fs_get (rm_all fs fl) g = None.
Proof.
  induction fl as [|f t IH]; intros fs g G; [exact G|]. cbn [rm_all fold_left]. fold (rm_all (if fs_mem fs f then fs_del fs f else fs) t).
  apply IH. destruct (fs_mem fs f); [|exact G].
  destruct (list_eq_dec Byte.byte_eq_dec g f) as [->|N]; [apply fs_get_del_same|rewrite fs_get_del_other by exact N; exact G].
Qed.
Lemma rm_all_in : forall fl fs g, In g fl -> fs_get (rm_all fs fl) g = None.
Proof.
  induction fl as [|f t IH]; intros fs g IN; [destruct IN|]. cbn [rm_all fold_left]. fold (rm_all (if fs_mem fs f then fs_del fs f else fs) t).
  destruct (list_eq_dec Byte.byte_eq_dec g f) as [->|N].
  - apply rm_all_none. destruct (fs_mem fs f) eqn:M; [apply fs_get_del_same|].
    rewrite CacheFacts.fs_mem_get in M. destruct (fs_get fs f); [discriminate|reflexivity].
  - destruct IN as [E|IN]; [congruence|]. apply IH. exact IN.
Qed.

Lemma rms_accepted : forall fl w s rest, closed_agree w s -> ss_det s = true ->
  (forall w' s', closed_agree w' s' -> ss_det s' = true -> w_fs w' = rm_all (w_fs w) fl -> accepted w' s' rest) ->
  accepted w s (map OFsRm fl ++ rest).
Proof.
  induction fl as [|f t IH]; intros w s rest CA D K; [apply K; [exact CA|exact D|reflexivity]|].
  destruct (rm_accepted w s f CA) as (OK & CA' & D' & FS').
  cbn [map app accepted]. split; [exact OK|]. split.
  - destruct CA' as (_ & Hs' & AG'). intros g. unfold judge_files, expected_files. rewrite Hs'. apply AG'.
  - split; [rewrite D'; exact D|]. apply IH; [exact CA'|rewrite D'; exact D|].
    intros w' s' CA2 D2 E2. apply K; [exact CA2|exact D2|]. rewrite E2, FS'. reflexivity.
Qed.

(* distinct elements of a list whose images are pairwise disjoint (NoDup of the flat_map) have disjoint images *)
Lemma nodup_flat_map_disjoint {A} (f:A -> list fname) : forall (l:list A), NoDup (flat_map f l) ->
  forall a b g, In a l -> In b l -> a <> b -> In g (f a) -> In g (f b) -> False.
Proof.
  induction l as [|x t IH]; intros ND a b g Ia Ib NE Ga Gb; [destruct Ia|].
  cbn [flat_map] in ND. apply NoDup_app_inv in ND. destruct ND as (_ & NDt & DIS).
  destruct Ia as [->|Ia]; destruct Ib as [->|Ib].
  - congruence.
  - apply (DIS g Ga). apply in_flat_map. exists b. split; assumption.
  - apply (DIS g Gb). apply in_flat_map. exists a. split; assumption.
  - apply (IH NDt a b g Ia Ib NE Ga Gb).
Qed.

(* ---- histories of a series with cache levels: sessions with clean close-and-reopen steps (same levels) at line counts
        that are multiples of every bucket size (outside them: known finding D10) - C09 at the level of the judge ---- *)
Section HistoryCaches.
Variables (name:fname) (p:nat) (hdr:list byte) (Bs:list N).
Let header := params_to_text BSgen.Consts.version (N.of_nat p) ++ hdr.
Let cs := map (open_spec name) Bs.
Let names := [name ++ ext_data; name ++ ext_index] ++ flat_map (cache_names name) Bs.
Hypothesis Hh : (len header <= 65535)%N.
Hypothesis Hp : (N.of_nat p < 2^64)%N.
Hypothesis HBs : Forall (fun B => (1 <= B)%N /\ (len (config_header name B) <= 65535)%N) Bs.
Hypothesis ND : NoDup names.
Hypothesis SORT : StronglySorted le (map fst cs).

(* both sides closed; the files of the series and of every level lie on disk as the last handle left them *)
Definition RelSC (w:world) (s:sstate) (l:list line) : Prop :=
  w_h w = None /\ ss_h s = None
  /\ (exists sr, RepS (w_fs w) sr p (outer header) (outer []) l cs
               /\ of_name (d_file (s_data sr)) = name ++ ext_data /\ of_name (ix_file (d_index (s_data sr))) = name ++ ext_index
               /\ map cache_files (s_down sr) = map (cache_names name) Bs)
  /\ (forall g, ~ In g names -> fs_get (w_fs w) g = None)
  /\ (forall g, fs_get (w_fs w) g = sfs_get (ss_fs s) g)
  /\ ss_det s = true.

Lemma relsc_files w s l : RelSC w s l -> forall g, fs_get (w_fs w) g = sfs_get (judge_files s) g.
Proof. intros (_ & Hs & _ & _ & F & _) g. unfold judge_files, expected_files. rewrite Hs. apply F. Qed.
Lemma relsc_det w s l : RelSC w s l -> ss_det s = true.
Proof. intros (_ & _ & _ & _ & _ & D). exact D. Qed.

Theorem close_accepted_caches w s l : RelS name p hdr Bs w s l ->
  snd (judge_step s OClose) (snd (step' w OClose)) = true /\ RelSC (fst (step' w OClose)) (fst (judge_step s OClose)) l.
Proof.
  intros RL. pose proof (rels_files name p hdr Bs ND w s l RL) as FILES.
  destruct RL as (sr & h & Hw & Hs & R & N1 & N2 & NM & Oth & A1 & A2 & A3 & A4 & A5 & A6 & A7 & A8 & A9 & A10).
  unfold judge_step, spec_step. rewrite Hs, A5. cbn [spec_step' step' step]. rewrite Hs, Hw. cbn [fst snd is_out].
  split; [reflexivity|].
  unfold RelSC, close_handle. cbn [w_h w_fs ss_h ss_fs ss_det].
  split; [reflexivity|]. split; [reflexivity|]. split; [exists sr; repeat (split; [assumption|]); assumption|].
  split; [exact Oth|]. split; [exact FILES|exact A10].
Qed.

(* where C09 is proved: the marker-word condition on the series and on every level (vacuous for payload sizes >= 4; outside it
   known finding D6), and a number of lines that is a multiple of every bucket size (outside it known finding D10) *)
Definition reopen_valid_caches (l:list line) (popt:option N) (hdropt:hdropt) : Prop :=
  Forall (nm_sec p) (secs_of l) /\ (len (encode p l) < 2^64)%N
  /\ (popt = None \/ popt = Some (N.of_nat p)) /\ match hdropt with HdrIs e => e = hdr | HdrAny => True end
  /\ Forall (fun B => (exists k, length l = k * N.to_nat B) /\ Forall (nm_sec p) (secs_of (cache_of p (N.to_nat B) l))
                      /\ (len (encode p (cache_of p (N.to_nat B) l)) < 2^64)%N) Bs.

Theorem open_accepted_caches w s l popt hdropt cb : RelSC w s l -> reopen_valid_caches l popt hdropt ->
  snd (judge_step s (OOpen name popt hdropt Bs cb)) (snd (step' w (OOpen name popt hdropt Bs cb))) = true
  /\ RelS name p hdr Bs (fst (step' w (OOpen name popt hdropt Bs cb))) (fst (judge_step s (OOpen name popt hdropt Bs cb))) l.
Proof.
  intros (Hw & Hs & (sr & R & N1 & N2 & NMc) & Oth & F & DET) (NM & H64 & Hopt & HO & FA).
  assert (FA' : Forall (fun B => (1 <= B)%N /\ (exists k, length l = k * N.to_nat B) /\ Forall (nm_sec p) (secs_of (cache_of p (N.to_nat B) l))
                   /\ (len (config_header name B) <= 65535)%N /\ (len (encode p (cache_of p (N.to_nat B) l)) < 2^64)%N) Bs).
  { apply Forall_forall. intros B HB. rewrite Forall_forall in FA, HBs. destruct (FA B HB) as (K1 & K2 & K3). destruct (HBs B HB) as (K4 & K5).
    repeat split; assumption. }
  destruct (reopen_caches_aligned_nm p (w_fs w) sr hdr name popt hdropt cb l Bs R N1 N2 NMc NM Hh H64 Hp Hopt HO FA')
    as (s' & E & R' & CB & M1 & M2 & M3).
  pose proof (rs_wf _ _ _ _ _ _ _ R) as W.
  pose proof (rd_file _ _ _ _ _ _ _ _ (rs_data _ _ _ _ _ _ _ R)) as [GD _]. rewrite N1 in GD.
  assert (SD : sfs_get (ss_fs s) (name ++ ext_data) = Some (outer header ++ encode p l)) by (rewrite <- F; exact GD).
  cbn [step' step w_fs]. fold header in E. rewrite E. cbn [fst snd].
  unfold judge_step, spec_step. rewrite Hs. cbn [spec_step'].
  unfold spec_open. rewrite (close_handle_closed _ _ s Hs).
  assert (NZ : existsb (fun B => (B =? 0)%N) Bs = false).
  { apply not_true_is_false. intros Q. apply existsb_exists in Q. destruct Q as (B & HB & Z). rewrite Forall_forall in HBs.
    destruct (HBs B HB) as [H1 _]. apply N.eqb_eq in Z. lia. }
  rewrite NZ.
  change (name ++ s_ext_data) with (name ++ ext_data). rewrite SD.
  pose proof (parse_file_ok (N.of_nat p) hdr (encode p l) Hp Hh) as PF. cbv zeta in PF. fold header in PF.
  rewrite PF. cbn [pf_p pf_user pf_region]. rewrite Nat2N.id.
  assert (PO : match popt with Some q => negb (q =? N.of_nat p)%N | None => false end = false).
  { destruct Hopt as [->| ->]; [reflexivity|]. rewrite N.eqb_refl. reflexivity. }
  rewrite PO. rewrite (recover_encode p l W). rewrite (wf_lines_of_wf p l W). cbn [negb].
  assert (TK : take (N.of_nat (length (encode p l))) (encode p l) = encode p l).
  { unfold take, len. rewrite N.min_id, Nat2N.id. apply firstn_all. }
  rewrite TK.
  assert (OUT : forall e, e = hdr -> is_out (ROpened (N.of_nat (d_p (s_data s'))) hdr) (ROpened (N.of_nat p) e) = true).
  { intros e ->. cbn [is_out]. rewrite (payload_size_caches _ _ _ _ _ _ _ R'), N.eqb_refl, bytes_eqb_refl. reflexivity. }
  assert (PART : ~ In (name ++ s_ext_part) names -> True) by (intros _; exact I).
  assert (REL : forall cbx, RelS name p hdr Bs {| w_fs := w_fs w; w_h := Some s' |}
            {| ss_fs := sfs_del (ss_fs s) (name ++ s_ext_part);
               ss_h := Some {| sh_name := name; sh_p := p; sh_hdr := hdr; sh_caches := Bs; sh_cb := cbx;
                               sh_rlines := frev l; sh_rregion := frev (encode p l); sh_full := last_full p (encode p l); sh_dmg := None |};
               ss_orig := sfs_del (ss_orig s) (name ++ ext_data); ss_det := ss_det s |} l).
  { intros cbx. eexists s', _. cbn [w_h w_fs ss_h ss_fs ss_det sh_name sh_p sh_hdr sh_caches sh_dmg sh_rlines sh_rregion sh_full].
    split; [reflexivity|]. split; [reflexivity|]. split; [exact R'|]. split; [exact M1|]. split; [exact M2|]. split; [exact M3|].
    split; [exact Oth|].
    repeat (split; [reflexivity|]).
    split; [apply frev_rev|]. split; [apply frev_rev|]. split; [apply (last_full_encode p l W)|].
    split; [|exact DET].
    intros g NI. destruct (list_eq_dec Byte.byte_eq_dec g (name ++ s_ext_part)) as [->|G3]; [apply sfs_get_del_same|].
    rewrite sfs_get_del_other by exact G3. rewrite <- F. apply Oth; assumption. }
  destruct hdropt as [|e].
  - cbn [fst snd]. split; [apply OUT; reflexivity|apply REL].
  - cbn in HO. subst e. rewrite bytes_eqb_refl. cbn [fst snd]. split; [apply OUT; reflexivity|apply REL].
Qed.

(* ---- levels whose files were lost between two sessions (both files of each level in `lost` removed): the open re-creates
        them from the source; the levels that stayed must be at a whole number of buckets ---- *)
Lemma levels_on_disk_or fs l (lost:list N) : forall (down:list dsample) (Bl:list N),
  Forall2 (cache_ok p fs l) down (map (open_spec name) Bl) ->
  map cache_files down = map (cache_names name) Bl ->
  Forall (fun B => (1 <= B)%N /\ (len (config_header name B) <= 65535)%N) Bl ->
  Forall (fun B => In B lost \/ ((exists k, length l = k * N.to_nat B) /\ Forall (nm_sec p) (secs_of (cache_of p (N.to_nat B) l))
                                 /\ (len (encode p (cache_of p (N.to_nat B) l)) < 2^64)%N)) Bl ->
  Forall (fun B => In B lost \/ level_on_disk p fs name l B) Bl.
Proof.
  induction down as [|ds t IH]; intros Bl F2 NM FB FA; destruct Bl as [|B Bt]; try (inversion F2; fail); [constructor|].
  cbn [map] in F2, NM. inversion F2 as [|? ? ? ? OK F2t]; subst. unfold cache_files at 1, cache_names at 1 in NM. injection NM as E1 E2 NT.
  inversion FB as [|? ? (HB & HL) FBt]; subst. inversion FA as [|? ? ALT FAt]; subst.
  constructor; [|apply (IH Bt F2t NT FBt FAt)].
  destruct ALT as [IL|(HK & NMc & H64c)]; [left; exact IL|right].
  destruct OK as [Hb CO]. cbn [open_spec fst snd] in *.
  pose proof (CacheOf_files p (N.to_nat B) Hb fs ds _ _ l CO) as [[G1 _] [G2 _]].
  rewrite E1 in G1. rewrite E2 in G2.
  destruct (cache_as_series p fs ds (open_spec name B) l CbNone (conj Hb CO)) as (ch & cih & RH).
  unfold level_on_disk. cbn [open_spec fst] in RH.
  split; [exact HB|split; [exact HK|split; [exact (rh_wf _ _ _ _ _ _ RH)|split; [exact NMc|split; [exact HL|split; [exact H64c|split; [exact G1|exact G2]]]]]]].
Qed.

Definition lost_files (lost:list N) : list fname := flat_map (cache_names name) lost.

Definition reopen_valid_lost (l:list line) (lost:list N) (popt:option N) (hdropt:hdropt) : Prop :=
  incl lost Bs /\ Forall (nm_sec p) (secs_of l) /\ (len (encode p l) < 2^64)%N
  /\ (popt = None \/ popt = Some (N.of_nat p)) /\ match hdropt with HdrIs e => e = hdr | HdrAny => True end
  /\ Forall (fun B => In B lost \/ ((exists k, length l = k * N.to_nat B) /\ Forall (nm_sec p) (secs_of (cache_of p (N.to_nat B) l))
                                    /\ (len (encode p (cache_of p (N.to_nat B) l)) < 2^64)%N)) Bs.

Theorem lost_open_accepted w s l lost popt hdropt cb rest : RelSC w s l -> reopen_valid_lost l lost popt hdropt ->
  (forall w' s', RelS name p hdr Bs w' s' l -> accepted w' s' rest) ->
  accepted w s (map OFsRm (lost_files lost) ++ OOpen name popt hdropt Bs cb :: rest).
Proof.
  intros (Hw & Hs & (sr & R & N1 & N2 & NMc) & Oth & F & DET) (INC & NM & H64 & Hopt & HO & FA) K.
  apply rms_accepted; [split; [exact Hw|split; [exact Hs|exact F]]|exact DET|].
  intros w' s' (Hw' & Hs' & F') DET' EFS.
  pose proof (rs_wf _ _ _ _ _ _ _ R) as W.
  pose proof (rd_file _ _ _ _ _ _ _ _ (rs_data _ _ _ _ _ _ _ R)) as [GD _]. rewrite N1 in GD.
  pose proof (rd_ix _ _ _ _ _ _ _ _ (rs_data _ _ _ _ _ _ _ R)) as [GI _]. rewrite N2 in GI.
  pose proof ND as ND0. unfold names in ND0. apply (NoDup_app_inv [name ++ ext_data; name ++ ext_index]) in ND0. destruct ND0 as (_ & NDc & DIS).
  assert (LF_in : forall g, In g (lost_files lost) -> In g (flat_map (cache_names name) Bs)).
  { intros g Hg. unfold lost_files in Hg. apply in_flat_map in Hg. destruct Hg as (B & HB & Hg). apply in_flat_map. exists B. split; [apply INC; exact HB|exact Hg]. }
  assert (KEEP : forall g, ~ In g (lost_files lost) -> fs_get (w_fs w') g = fs_get (w_fs w) g).
  { intros g NI. rewrite EFS. apply rm_all_notin. exact NI. }
  assert (GD' : fs_get (w_fs w') (name ++ ext_data) = Some (outer header ++ encode p l)).
  { rewrite KEEP; [exact GD|]. intros Q. apply (DIS (name ++ ext_data)); [cbn [In]; auto|apply LF_in; exact Q]. }
  assert (GI' : fs_get (w_fs w') (name ++ ext_index) = Some (outer [] ++ enc_index (sections p (encode p l)))).
  { rewrite KEEP; [exact GI|]. intros Q. apply (DIS (name ++ ext_index)); [cbn [In]; auto|apply LF_in; exact Q]. }
  pose proof (levels_on_disk_or (w_fs w) l lost _ Bs (rs_caches _ _ _ _ _ _ _ R) NMc HBs FA) as LD.
  assert (FL : Forall (fun B => level_on_disk p (w_fs w') name l B \/ level_missing (w_fs w') name B) Bs).
  { apply Forall_forall. intros B HB. rewrite Forall_forall in LD, HBs. destruct (HBs B HB) as (HB1 & HB2).
    destruct (in_dec N.eq_dec B lost) as [IL|NL].
    - right. unfold level_missing. split; [exact HB1|]. split; [exact HB2|].
      split; rewrite CacheFacts.fs_mem_get, EFS, rm_all_in; try reflexivity; unfold lost_files; apply in_flat_map; exists B; (split; [exact IL|cbn [cache_names In]; auto]).
    - left. destruct (LD B HB) as [IL|OD]; [contradiction|].
      apply (level_on_disk_frame p (w_fs w) (w_fs w')); [exact OD|].
      intros g Hg. apply KEEP. intros Q. unfold lost_files in Q. apply in_flat_map in Q. destruct Q as (B' & HB' & Hg').
      apply (nodup_flat_map_disjoint (cache_names name) Bs NDc B B' g HB (INC _ HB')); [intros ->; contradiction|exact Hg|exact Hg']. }
  destruct (builder_open_mixed p (w_fs w') name hdr popt hdropt cb l Bs W NM Hh H64 Hp GD' GI' Hopt HO FL ND)
    as (fs2 & s2 & E & R2 & CB & M1 & M2 & M3 & FR & _).
  assert (SD : sfs_get (ss_fs s') (name ++ ext_data) = Some (outer header ++ encode p l)) by (rewrite <- F'; exact GD').
  assert (OTH' : forall g, ~ In g names -> fs_get (w_fs w') g = None).
  { intros g NI. rewrite EFS. apply rm_all_none. apply Oth. exact NI. }
  assert (STEP : step' w' (OOpen name popt hdropt Bs cb) = ({| w_fs := fs2; w_h := Some s2 |}, ROpened (N.of_nat (d_p (s_data s2))) hdr)).
  { cbn [step' step w_fs]. fold header in E. rewrite E. reflexivity. }
  assert (NZ : existsb (fun B => (B =? 0)%N) Bs = false).
  { apply not_true_is_false. intros Q. apply existsb_exists in Q. destruct Q as (B & HB & Z). rewrite Forall_forall in HBs.
    destruct (HBs B HB) as [H1 _]. apply N.eqb_eq in Z. lia. }
  assert (PO : match popt with Some q => negb (q =? N.of_nat p)%N | None => false end = false).
  { destruct Hopt as [->| ->]; [reflexivity|]. rewrite N.eqb_refl. reflexivity. }
  assert (TK : take (N.of_nat (length (encode p l))) (encode p l) = encode p l).
  { unfold take, len. rewrite N.min_id, Nat2N.id. apply firstn_all. }
  pose proof (parse_file_ok (N.of_nat p) hdr (encode p l) Hp Hh) as PF. cbv zeta in PF. fold header in PF.
  assert (REL : forall cbx, RelS name p hdr Bs {| w_fs := fs2; w_h := Some s2 |}
            {| ss_fs := sfs_del (ss_fs s') (name ++ s_ext_part);
               ss_h := Some {| sh_name := name; sh_p := p; sh_hdr := hdr; sh_caches := Bs; sh_cb := cbx;
                               sh_rlines := frev l; sh_rregion := frev (encode p l); sh_full := last_full p (encode p l); sh_dmg := None |};
               ss_orig := sfs_del (ss_orig s') (name ++ ext_data); ss_det := ss_det s' |} l).
  { intros cbx. eexists s2, _. cbn [w_h w_fs ss_h ss_fs ss_det sh_name sh_p sh_hdr sh_caches sh_dmg sh_rlines sh_rregion sh_full].
    split; [reflexivity|]. split; [reflexivity|]. split; [exact R2|]. split; [exact M1|]. split; [exact M2|]. split; [exact M3|].
    split.
    { intros g NI. rewrite FR; [apply OTH'; exact NI|]. right. intros Q. apply NI. unfold names. apply in_or_app. right. exact Q. }
    repeat (split; [reflexivity|]).
    split; [apply frev_rev|]. split; [apply frev_rev|]. split; [apply (last_full_encode p l W)|].
    split; [|exact DET'].
    intros g NI. destruct (list_eq_dec Byte.byte_eq_dec g (name ++ s_ext_part)) as [->|G3]; [apply sfs_get_del_same|].
    rewrite sfs_get_del_other by exact G3. rewrite <- F'. apply OTH'; assumption. }
  assert (JS : exists cbx, judge_step s' (OOpen name popt hdropt Bs cb) =
     ({| ss_fs := sfs_del (ss_fs s') (name ++ s_ext_part);
         ss_h := Some {| sh_name := name; sh_p := p; sh_hdr := hdr; sh_caches := Bs; sh_cb := cbx;
                         sh_rlines := frev l; sh_rregion := frev (encode p l); sh_full := last_full p (encode p l); sh_dmg := None |};
         ss_orig := sfs_del (ss_orig s') (name ++ ext_data); ss_det := ss_det s' |},
      fun o => is_out o (ROpened (N.of_nat p) hdr))).
  { unfold judge_step, spec_step. rewrite Hs'. cbn [spec_step']. unfold spec_open. rewrite (close_handle_closed _ _ s' Hs'). rewrite NZ.
    change (name ++ s_ext_data) with (name ++ ext_data). rewrite SD, PF. cbn [pf_p pf_user pf_region]. rewrite Nat2N.id, PO.
    rewrite (recover_encode p l W), (wf_lines_of_wf p l W). cbn [negb]. rewrite TK.
    destruct hdropt as [|e]; [eexists; reflexivity|]. cbn in HO. subst e. rewrite bytes_eqb_refl. eexists; reflexivity. }
  destruct JS as (cbx & JS).
  pose proof (REL cbx) as RL2.
  cbn [accepted]. rewrite STEP, JS. cbn [fst snd].
  split; [cbn [is_out]; rewrite (payload_size_caches _ _ _ _ _ _ _ R2), N.eqb_refl, bytes_eqb_refl; reflexivity|].
  split; [exact (rels_files name p hdr Bs ND _ _ _ RL2)|]. split; [exact (rels_det name p hdr Bs _ _ _ RL2)|].
  apply (K _ _ RL2).
Qed.

Inductive chstep := CHOp (o:op) | CHReopen (popt:option N) (hdropt:hdropt) (cb:cbmode)
  | CHLost (lost:list N) (popt:option N) (hdropt:hdropt) (cb:cbmode).      (* close, both files of every level in `lost` removed, open *)
Fixpoint cflatten (hs:list chstep) : list op :=
  match hs with
  | [] => []
  | CHOp o :: t => o :: cflatten t
  | CHReopen a b c :: t => OClose :: OOpen name a b Bs c :: cflatten t
  | CHLost lost a b c :: t => OClose :: map OFsRm (lost_files lost) ++ OOpen name a b Bs c :: cflatten t
  end.
Fixpoint chvalid (l:list line) (hs:list chstep) : Prop :=
  match hs with
  | [] => True
  | CHOp o :: t => sess_op o /\ chvalid (next_lines p l o) t
  | CHReopen a b _ :: t => reopen_valid_caches l a b /\ chvalid l t
  | CHLost lost a b _ :: t => reopen_valid_lost l lost a b /\ chvalid l t
  end.

Lemma chist_accepted : forall hs w s l, RelS name p hdr Bs w s l -> chvalid l hs -> accepted w s (cflatten hs).
Proof.
  induction hs as [|[o|a b c|lost a b c] t IH]; intros w s l RL V; [exact I| | |].
  - destruct V as [SO Vt]. destruct (step_accepted_caches name p hdr Bs Hh SORT w s l o RL SO) as (OK & RL').
    cbn [cflatten accepted]. split; [exact OK|]. split; [exact (rels_files name p hdr Bs ND _ _ _ RL')|].
    split; [exact (rels_det name p hdr Bs _ _ _ RL')|]. exact (IH _ _ _ RL' Vt).
  - destruct V as [RO Vt]. destruct (close_accepted_caches w s l RL) as (OK1 & RC).
    destruct (open_accepted_caches _ _ l a b c RC RO) as (OK2 & RL2).
    cbn [cflatten accepted]. split; [exact OK1|]. split; [exact (relsc_files _ _ _ RC)|]. split; [exact (relsc_det _ _ _ RC)|].
    split; [exact OK2|]. split; [exact (rels_files name p hdr Bs ND _ _ _ RL2)|]. split; [exact (rels_det name p hdr Bs _ _ _ RL2)|].
    exact (IH _ _ _ RL2 Vt).
  - destruct V as [RO Vt]. destruct (close_accepted_caches w s l RL) as (OK1 & RC).
    cbn [cflatten accepted]. split; [exact OK1|]. split; [exact (relsc_files _ _ _ RC)|]. split; [exact (relsc_det _ _ _ RC)|].
    apply (lost_open_accepted _ _ l lost a b c (cflatten t) RC RO). intros w' s' RL'. exact (IH _ _ _ RL' Vt).
Qed.

(* every history of a series created with cache levels - appends accepted or refused, reads, resampling reads, accessors, and
   clean close-and-reopen steps with the same levels at aligned line counts, and reopen steps before which the files of any
   of the levels were lost (those levels are re-created from the source at any line count; the levels that stayed must be
   aligned) - is accepted by the judge at every step, and the model's files, those of every level included, are byte for byte
   the judge's expected files *)
Theorem history_accepted_caches cb hs : chvalid [] hs ->
  accepted init_world judge_init (ONew name (N.of_nat p) hdr Bs cb :: cflatten hs).
Proof.
  intros V. destruct (new_accepted_caches name p hdr Bs Hh HBs ND cb) as [OK RL].
  cbn [accepted]. split; [exact OK|]. split; [exact (rels_files name p hdr Bs ND _ _ _ RL)|]. split; [exact (rels_det name p hdr Bs _ _ _ RL)|].
  exact (chist_accepted hs _ _ [] RL V).
Qed.
End HistoryCaches.

(* the premises are satisfiable: two levels with bucket sizes 2 and 4 *)
Example session_caches_example :
  let name := [x63] in let Bs := [2%N; 4%N] in
  Forall (fun B => (1 <= B)%N /\ (len (config_header name B) <= 65535)%N) Bs
  /\ NoDup ([name ++ ext_data; name ++ ext_index] ++ flat_map (cache_names name) Bs)
  /\ StronglySorted le (map fst (map (open_spec name) Bs)).
Proof.
  cbv zeta. split; [|split].
  - repeat constructor; try lia; apply N.leb_le; vm_compute; reflexivity.
  - vm_compute. repeat constructor; cbn [In]; intuition discriminate.
  - vm_compute. repeat constructor; lia.
Qed.

(* the premises of history_accepted_caches are satisfiable: payload size 4, levels 2 and 4, four appends, a clean reopen at an
   aligned count, a resampling read, a refused and four accepted appends, a second reopen that demands payload size and header *)
Example history_caches_example :
  let pay := [x01; x02; x03; x04] in
  chvalid 4 [] [2%N; 4%N] []
    [CHOp (OPush 10 pay); CHOp (OPush 20 pay); CHOp (OPush 70000 pay); CHOp (OPush 70010 pay); CHReopen None HdrAny CbNone;
     CHOp (OReadN 2 Unb Unb); CHOp (OPush 5 pay); CHOp (OPush 70011 pay); CHOp (OPush 70012 pay); CHOp (OReadAll (Incl 11) Unb);
     CHOp (OPush 140000 pay); CHOp (OPush 140001 pay); CHReopen (Some 4%N) (HdrIs []) CbDeny; CHOp OLen; CHOp (OReadN 1 Unb (Incl 70011));
     CHOp (OPush 140002 pay); CHOp (OPush 140003 pay); CHLost [4%N] None HdrAny CbNone; CHOp (OReadN 2 Unb Unb); CHOp (OPush 140004 pay);
     CHLost [2%N; 4%N] None HdrAny CbNone; CHOp (OPush 140005 pay); CHOp (OReadN 3 Unb Unb)].
Proof.
  cbv zeta.
  assert (NM : forall m, Forall (nm_sec 4) (secs_of m)) by (intros m; apply Forall_forall; intros sct _; apply nm_p4; lia).
  cbn [chvalid].
  (* the lines after each step, evaluated innermost first (unfolding next_lines symbolically triples the term at every append) *)
  repeat match goal with
         | |- context [next_lines 4 ?l ?o] =>
             lazymatch l with context [next_lines _ _ _] => fail | _ => idtac end;
             let v := eval vm_compute in (next_lines 4 l o) in
             replace (next_lines 4 l o) with v by (vm_compute; reflexivity)
         end.
  unfold reopen_valid_caches, reopen_valid_lost.
  repeat match goal with
         | |- _ /\ _ => split
         | |- sess_op _ => constructor
         | |- Forall (nm_sec 4) _ => apply NM
         | |- Forall _ (_ :: _) => constructor
         | |- Forall _ [] => constructor
         | |- True => exact I
         | |- incl _ _ => intros x Hx; cbn [In] in *; tauto
         | |- In _ _ \/ _ => first [left; cbn [In]; auto; fail | right]
         | |- _ = _ \/ _ = _ => first [left; reflexivity | right; reflexivity]
         | |- (_ < _)%N => apply N.ltb_lt; vm_compute; reflexivity
         | |- exists k, length _ = k * _ => first [exists 1; vm_compute; reflexivity | exists 2; vm_compute; reflexivity | exists 3; vm_compute; reflexivity
                                                  | exists 4; vm_compute; reflexivity | exists 5; vm_compute; reflexivity | exists 6; vm_compute; reflexivity]
         | |- _ = _ => reflexivity
         end.
Qed.
