From Coq Require Import List NArith ZArith Lia Bool Arith ZifyBool ZifyN ZifyNat Sorted.
Import ListNotations.
Close Scope N_scope. Open Scope nat_scope.
Arguments N.add : simpl never. Arguments N.sub : simpl never.
Arguments N.ltb : simpl never. Arguments N.leb : simpl never.

Section G.
Variable payload : Type.
Definition line := (N * payload)%type.
Definition MAXD : N := 65534%N.

(* ---- the writer's rule, as a left-to-right fold: state = last full timestamp ---- *)
Inductive item := Sec (t:N) | Ln (d:N) (pay:payload).

Definition emit (full:option N) (x:line) : list item * option N :=
  match full with
  | Some f => if (fst x - f <=? MAXD)%N then ([Ln (fst x - f) (snd x)], Some f)
              else ([Sec (fst x); Ln 0 (snd x)], Some (fst x))
  | None => ([Sec (fst x); Ln 0 (snd x)], Some (fst x))
  end.

Fixpoint enc (full:option N) (l:list line) : list item :=
  match l with
  | [] => []
  | x :: t => let '(o, f') := emit full x in o ++ enc f' t
  end.
Fixpoint full_after (full:option N) (l:list line) : option N :=
  match l with [] => full | x :: t => full_after (snd (emit full x)) t end.

(* append law: the encoding of l ++ [x] is the encoding of l plus what `emit` says (C15/C16 core) *)
Lemma enc_app full l1 l2 : enc full (l1 ++ l2) = enc full l1 ++ enc (full_after full l1) l2.
Proof.
  revert full; induction l1 as [|x t IH]; intros full; cbn [app enc full_after]; [reflexivity|].
  destruct (emit full x) as [o f'] eqn:E. cbn [snd]. rewrite IH, app_assoc. reflexivity.
Qed.
Corollary enc_snoc full l x :
  enc full (l ++ [x]) = enc full l ++ fst (emit (full_after full l) x).
Proof. rewrite enc_app. cbn [enc]. destruct (emit _ x); cbn [fst]. rewrite app_nil_r. reflexivity. Qed.

(* ---- the reader's view of items ---- *)
Fixpoint dec (full:option N) (its:list item) : option (list line) :=
  match its with
  | [] => Some []
  | Sec t :: r => dec (Some t) r
  | Ln d pay :: r =>
      match full with
      | None => None
      | Some f => option_map (cons ((f + d)%N, pay)) (dec full r)
      end
  end.

Definition sorted_from (full:option N) (l:list line) : Prop :=
  StronglySorted N.lt (map fst l) /\
  match full, l with Some f, x :: _ => (f <= fst x)%N | _, _ => True end.

Lemma full_le_next f x t : StronglySorted N.lt (map fst (x :: t)) -> (f <= fst x)%N ->
  forall f', snd (emit (Some f) x) = Some f' -> match t with y :: _ => (f' <= fst y)%N | [] => True end.
Proof.
  intros S Hf f' E. destruct t as [|y t]; [exact I|].
  cbn [map] in S. inversion S as [|? ? S' F]; subst. inversion F as [|? ? Hxy _]; subst.
  unfold emit in E. destruct (fst x - f <=? MAXD)%N; cbn [snd] in E; inversion E; subst; lia.
Qed.

Theorem dec_enc : forall l full, sorted_from full l -> dec full (enc full l) = Some l.
Proof.
  induction l as [|x t IH]; intros full [S Hf]; cbn [enc]; [reflexivity|].
  assert (St : StronglySorted N.lt (map fst t)) by (cbn [map] in S; inversion S; assumption).
  destruct full as [f|]; cbn [emit].
  - destruct (fst x - f <=? MAXD)%N eqn:C.
    + cbn [app dec]. rewrite IH.
      * cbn [option_map]. replace (f + (fst x - f))%N with (fst x) by lia. destruct x; reflexivity.
      * split; [exact St|]. destruct t as [|y t]; [exact I|].
        cbn [map] in S. inversion S as [|? ? _ F]; subst. inversion F; subst. lia.
    + cbn [app dec]. rewrite IH.
      * cbn [option_map]. rewrite N.add_0_r. destruct x; reflexivity.
      * split; [exact St|]. destruct t as [|y t]; [exact I|].
        cbn [map] in S. inversion S as [|? ? _ F]; subst. inversion F; subst. lia.
  - cbn [app dec]. rewrite IH.
    + cbn [option_map]. rewrite N.add_0_r. destruct x; reflexivity.
    + split; [exact St|]. destruct t as [|y t]; [exact I|].
      cbn [map] in S. inversion S as [|? ? _ F]; subst. inversion F; subst. lia.
Qed.

(* every emitted delta fits 16 bits without being the marker *)
Definition delta_ok (i:item) : Prop := match i with Ln d _ => (d <= MAXD)%N | Sec _ => True end.
Theorem enc_deltas : forall l full, Forall delta_ok (enc full l).
Proof.
  induction l as [|x t IH]; intros full; cbn [enc]; [constructor|].
  destruct full as [f|]; cbn [emit].
  - destruct (fst x - f <=? MAXD)%N eqn:C; cbn [app].
    + constructor; [cbn; lia | apply IH].
    + constructor; [exact I|]. constructor; [cbn; unfold MAXD; lia | apply IH].
  - cbn [app]. constructor; [exact I|]. constructor; [cbn; unfold MAXD; lia | apply IH].
Qed.

(* canonical: a section is emitted only when forced *)
Theorem emit_canonical full x :
  (exists t, In (Sec t) (fst (emit full x))) <->
  match full with None => True | Some f => (fst x - f > MAXD)%N end.
Proof.
  destruct full as [f|]; cbn [emit].
  - destruct (fst x - f <=? MAXD)%N eqn:C; cbn [fst]; split.
    + intros [t [H|[]]]; discriminate.
    + intro; lia.
    + intro; lia.
    + intro; eexists; left; reflexivity.
  - cbn [fst]. split; [auto|]. intro; eexists; left; reflexivity.
Qed.
End G.
