(* Layer S: the abstract transition system. For every operation: the set of allowed results
   (a boolean predicate on `out`) and the next abstract state, from which the expected bytes of
   every file follow (`expected_files`). Uses Layer F only. The texts of the two file headers
   are parameters (instantiated in Judge.v). *)
From Coq Require Import List NArith Bool Arith.
From Coq Require Import Strings.Byte.
Require Import BS.Bytes BS.Common BS.Api BS.Layout BS.Format BS.Spec.
Import ListNotations.
Close Scope N_scope. Open Scope nat_scope.

Section SpecStep.
Variable data_header : nat -> list byte -> list byte.   (* payload size, user header -> header of the data file *)
Variable cache_header : list byte -> N -> list byte.    (* source name, bucket size -> header of a cache file *)

Definition s_ext_data : list byte := [".";"b";"y";"t";"e";"s";"e";"r";"i";"e";"s"]%byte.
Definition s_ext_index : list byte := s_ext_data ++ ["_";"i";"n";"d";"e";"x"]%byte.
Definition s_ext_part : list byte := s_ext_index ++ [".";"p";"a";"r";"t"]%byte.
Definition s_cache_name (name:list byte) (B:N) : list byte := name ++ ["_";"N";"o";"n";"e";"_"]%byte ++ dec B.

Definition cache_region (p:nat) (B:N) (l:list line) : list byte := encode p (cache_of p (N.to_nat B) l).

(* the files of an open (or just closed) series as the properties determine them:
   C15/C07 data file, C06 index, C08/C09 caches *)
Definition handle_files (h:shandle) : sfs :=
  let p := sh_p h in
  match sh_dmg h with Some _ => [] | None =>     (* C18 says nothing about the files; they are expected to stay as they are *)
  (sh_name h ++ s_ext_data, enc_outer (data_header p (sh_hdr h)) ++ sh_region h)
  :: (sh_name h ++ s_ext_index, index_file p (sh_region h))
  :: flat_map (fun B =>
        let r := cache_region p B (sh_lines h) in
        [ (s_cache_name (sh_name h) B ++ s_ext_data, enc_outer (cache_header (sh_name h) B) ++ r);
          (s_cache_name (sh_name h) B ++ s_ext_index, index_file p r) ]) (sh_caches h)
  end.
Definition put_all (fs:sfs) (files:sfs) : sfs := fold_left (fun acc kv => sfs_put acc (fst kv) (snd kv)) files fs.
Definition expected_files (s:sstate) : sfs :=
  match ss_h s with Some h => put_all (ss_fs s) (handle_files h) | None => ss_fs s end.

Definition is_err (o:out) : bool := match o with RErr _ => true | _ => false end.
Definition is_out (o:out) (expected:out) : bool :=
  match o, expected with
  | RUnit, RUnit => true
  | ROpened p h, ROpened p' h' => (p =? p')%N && bytes_eqb h h'
  | RLines a, RLines b => lines_eqb a b
  | RNum a, RNum b => (a =? b)%N
  | RLine a, RLine b => (fst a =? fst b)%N && bytes_eqb (snd a) (snd b)
  | RBool a, RBool b => Bool.eqb a b
  | RRange None, RRange None => true
  | RRange (Some (a, b)), RRange (Some (c, d)) => (a =? c)%N && (b =? d)%N
  | _, _ => false
  end.
(* an empty answer: no line, or an error (C02: "an empty result or a range error") *)
Definition is_nothing (o:out) : bool := match o with RLines [] => true | RErr _ => true | _ => false end.
Definition lines_or_nothing (sel:list line) (o:out) : bool :=
  match sel with [] => is_nothing o | _ => is_out o (RLines sel) end.

Definition wf_lines (p:nat) (l:list line) : bool :=
  strictly_inc l && forallb (fun x => (length (snd x) =? p) && (fst x <? U64)%N) l.

(* the state after an operation whose effect the properties do not determine *)
Definition undetermined (s:sstate) : sstate := {| ss_fs := ss_fs s; ss_h := None; ss_orig := ss_orig s; ss_det := false |}.
Definition anything (_:out) : bool := true.

Definition first_last (l:list line) : option (N * N) :=
  match l with [] => None | x :: _ => Some (fst x, fst (last l x)) end.

(* C14: sections at or inside the selected range *)
Definition sections_touched (p:nat) (region:list byte) (sel:list line) : N :=
  match first_last sel with
  | None => 0%N
  | Some (a, b) =>
      let secs := map fst (sections p region) in
      let governing := fold_left (fun acc t => if (t <=? a)%N then t else acc) secs 0%N in
      len (filter (fun t => (governing <=? t)%N && (t <=? b)%N) secs)
  end.

Definition close_handle (s:sstate) : sstate :=
  {| ss_fs := expected_files s; ss_h := None; ss_orig := ss_orig s; ss_det := ss_det s |}.

Definition any_stale (fs:sfs) (name:list byte) (caches:list N) : bool :=
  sfs_mem fs (name ++ s_ext_index)
  || existsb (fun B => sfs_mem fs (s_cache_name name B ++ s_ext_data) || sfs_mem fs (s_cache_name name B ++ s_ext_index)) caches.

Definition spec_new (s:sstate) (name:list byte) (p:N) (hdr:list byte) (caches:list N) (cb:cbmode) : sstate * (out -> bool) :=
  let s0 := close_handle s in
  let fs := ss_fs s0 in
  let pn := N.to_nat p in
  if existsb (fun B => (B =? 0)%N) caches then (undetermined s0, anything) else     (* bucket sizes >= 1 only *)
  if sfs_mem fs (name ++ s_ext_data) then (s0, is_err) else                          (* C17: exists -> error, untouched *)
  if (65535 <? len (data_header pn hdr))%N then (s0, is_err) else                    (* C17: failing create leaves nothing *)
  if any_stale fs name caches then (s0, is_err) else
  let h := {| sh_name := name; sh_p := pn; sh_hdr := hdr; sh_caches := caches; sh_cb := cb;
              sh_rlines := []; sh_rregion := []; sh_full := None; sh_dmg := None |} in
  ({| ss_fs := fs; ss_h := Some h; ss_orig := sfs_del (ss_orig s0) (name ++ s_ext_data); ss_det := ss_det s0 |}, fun o => is_out o (ROpened p hdr)).

(* C18: the data file has lone marker lines. Determined only when: the file is a line-by-line overwritten
   copy of a legal file that is remembered, same length, the index is the one of that legal file, no caches,
   the damage is not at the very end (a complete section follows the last lone marker, so that the tail of
   the file is as the index says), and every line the skipping decoder certifies was genuinely appended. *)
Definition open_damaged (s0:sstate) (name:list byte) (pf:parsed) (hdr:hdropt) (caches:list N) (cb:cbmode) : sstate * (out -> bool) :=
  let fs := ss_fs s0 in
  let p := pf_p pf in
  let sc := lenient p (pf_region pf) in
  match sfs_get (ss_orig s0) (name ++ s_ext_data), caches, l_st sc with
  | Some ofile, [], LN (Some full) false =>
      match parse_file ofile with
      | Some opf =>
          match decode (pf_p opf) (pf_region opf), sfs_get fs (name ++ s_ext_index) with
          | Some lo, Some idx =>
              if (pf_p opf =? p) && bytes_eqb (pf_user opf) (pf_user pf) && (length (pf_region opf) =? length (pf_region pf))
                 && negb (l_bad sc) && (1 <=? l_lone sc) && wf_lines p lo
                 && bytes_eqb idx (index_file p (pf_region opf))
                 && is_subseq (frev (l_sure sc)) lo
                 && negb (sfs_mem fs (name ++ s_ext_part))
                 && match hdr with HdrIs e => bytes_eqb e (pf_user pf) | HdrAny => true end
              then
                let h := {| sh_name := name; sh_p := p; sh_hdr := pf_user pf; sh_caches := []; sh_cb := cb;
                            sh_rlines := frev lo; sh_rregion := frev (pf_region pf); sh_full := Some full;
                            sh_dmg := Some (frev (l_sure sc)) |} in
                ({| ss_fs := fs; ss_h := Some h; ss_orig := ss_orig s0; ss_det := ss_det s0 |},
                 fun o => is_out o (ROpened (N.of_nat p) (pf_user pf)))
              else (undetermined s0, anything)
          | _, _ => (undetermined s0, anything)
          end
      | None => (undetermined s0, anything)
      end
  | _, _, _ => (undetermined s0, anything)
  end.

Definition both_unb (lo hi:bound) : bool := match lo, hi with Unb, Unb => true | _, _ => false end.
Definition is_corrupt_err (o:out) : bool := match o with RErr ECorrupt => true | _ => false end.
(* C18, a read of a damaged series. Without consent a read over everything stops with the corruption error;
   with consent it returns only genuine lines (a subsequence of what was appended), and all those of the
   intact sections. Never a panic, never a made-up line. For reads between bounds the property does not say
   whether the read meets the damage: only "genuine lines or an error" is demanded there. *)
Definition damaged_read (h:shandle) (sure:list line) (lo hi:bound) (limit:option N) (o:out) : bool :=
  let orig := sh_lines h in
  let fits out := match limit with Some n => (len out <=? n)%N | None => true end in
  match sh_cb h with
  | CbAllow =>
      match o with
      | RLines out => is_subseq out orig && fits out
                      && (if both_unb lo hi
                          then match limit with
                               | None => is_subseq sure out
                               | Some n => (N.min n (len sure) <=? len out)%N
                               end
                          else true)
      | RErr _ => negb (both_unb lo hi)
      | _ => false
      end
  | _ =>
      match o with
      | RErr e => if both_unb lo hi then is_corrupt_err o else true
      | RLines out => match limit with
                      | Some n => is_prefix out (select lo hi orig) && fits out && negb (both_unb lo hi && (len out <? N.min n (len orig))%N)
                      | None => negb (both_unb lo hi) && is_subseq out orig
                      end
      | _ => false
      end
  end.
Definition no_panic (o:out) : bool := match o with ROPanic => false | ROHang => false | _ => true end.

Definition spec_open (s:sstate) (name:list byte) (popt:option N) (hdr:hdropt) (caches:list N) (cb:cbmode) : sstate * (out -> bool) :=
  let s0 := close_handle s in
  let fs := ss_fs s0 in
  if existsb (fun B => (B =? 0)%N) caches then (undetermined s0, anything) else
  match sfs_get fs (name ++ s_ext_data) with
  | None => (s0, is_err)                                   (* C17: missing -> error, creates nothing *)
  | Some file =>
      match parse_file file with
      | None => (undetermined s0, anything)                (* not a v1 file *)
      | Some pf =>
          let p := pf_p pf in
          if match popt with Some q => negb (q =? N.of_nat p)%N | None => false end
          then (s0, is_err)                                 (* C17: other payload size demanded *)
          else
          match recover p (pf_region pf) with
          | None => open_damaged s0 name pf hdr caches cb    (* damage that is not a torn tail: C18 *)
          | Some (l, good) =>
              if negb (wf_lines p l) then (undetermined s0, anything) else
              let h := {| sh_name := name; sh_p := p; sh_hdr := pf_user pf; sh_caches := caches; sh_cb := cb;
                          sh_rlines := frev l; sh_rregion := frev (take good (pf_region pf));
                          sh_full := last_full p (take good (pf_region pf)); sh_dmg := None |} in
              let s1 := {| ss_fs := sfs_del fs (name ++ s_ext_part); ss_h := Some h;
                           ss_orig := sfs_del (ss_orig s0) (name ++ s_ext_data); ss_det := ss_det s0 |} in
              match hdr with
              | HdrIs expected =>
                  if bytes_eqb expected (pf_user pf) then (s1, fun o => is_out o (ROpened (N.of_nat p) expected))
                  else (* C17: other header demanded: an error. Repairs may or may not have run before
                          the comparison; the properties only fix the files when nothing had to change *)
                       ({| ss_fs := fs; ss_h := None; ss_orig := ss_orig s0; ss_det := ss_det s0 && sfs_same fs (expected_files s1) |}, is_err)
              | HdrAny => (s1, fun o => is_out o (ROpened (N.of_nat p) (pf_user pf)))
              end
          end
      end
  end.

Definition read_n_allowed (h:shandle) (n:N) (lo hi:bound) (o:out) : bool :=
  let p := sh_p h in
  let levels := sh_lines h :: map (fun B => cache_of p (N.to_nat B) (sh_lines h)) (sh_caches h) in
  if (n =? 0)%N then is_nothing o else
  match o with
  | RLines outl => existsb (fun lev => uniform_means p n (select lo hi lev) outl) levels
  | RErr _ => existsb (fun lev => match select lo hi lev with [] => true | _ => false end) levels
  | _ => false
  end.

Definition is_no_handle (o:out) : bool := match o with RErr ENoHandle => true | _ => false end.
Definition with_h (s:sstate) (k:shandle -> sstate * (out -> bool)) : sstate * (out -> bool) :=
  match ss_h s with
  | None => (s, is_no_handle)
  | Some h => k h
  end.
Definition set_h (s:sstate) (h:shandle) : sstate := {| ss_fs := ss_fs s; ss_h := Some h; ss_orig := ss_orig s; ss_det := ss_det s |}.

Definition spec_push (s:sstate) (ts:N) (pay:list byte) : sstate * (out -> bool) :=
  with_h s (fun h =>
    if accepts_r (sh_p h) (sh_rlines h) ts pay then
      let '(b, f') := tail_bytes (sh_p h) (sh_full h) (ts, pay) in
      (set_h s {| sh_name := sh_name h; sh_p := sh_p h; sh_hdr := sh_hdr h; sh_caches := sh_caches h; sh_cb := sh_cb h;
                  sh_rlines := (ts, pay) :: sh_rlines h; sh_rregion := rev_append b (sh_rregion h); sh_full := f'; sh_dmg := None |},
       fun o => is_out o RUnit)
    else (s, is_err)).                                   (* C03: refused, nothing changes *)

(* file-system faults between sessions. keep = Some f: single lines of f are overwritten (fs_patch): what f
   held before the first such overwrite is remembered (C18); any other change of a file forgets it *)
Definition spec_fs (s:sstate) (f:list byte) (patch:bool) (k:sfs -> sfs * (out -> bool)) : sstate * (out -> bool) :=
  match ss_h s with
  | Some _ => (s, fun o => match o with RErr EHandleOpen => true | _ => false end)
  | None => let '(fs', chk) := k (ss_fs s) in
            let orig := if patch
                        then match sfs_get (ss_orig s) f, sfs_get (ss_fs s) f with
                             | None, Some c => sfs_put (ss_orig s) f c
                             | _, _ => ss_orig s
                             end
                        else sfs_del (ss_orig s) f in
            ({| ss_fs := fs'; ss_h := None; ss_orig := orig; ss_det := ss_det s |}, chk)
  end.
Definition no_file (o:out) : bool := match o with RErr ENoFile => true | _ => false end.

(* operations on a series with lone marker lines: reads are judged (C18); for the rest only
   "no panic" is demanded; appends end the determined part of the history *)
Definition spec_step_damaged (s:sstate) (h:shandle) (sure:list line) (o:op) : sstate * (out -> bool) :=
  match o with
  | OReadAll lo hi => (s, damaged_read h sure lo hi None)
  | OReadFirstN n lo hi => (s, if (n =? 0)%N then is_nothing else damaged_read h sure lo hi (Some n))
  | OPayloadSize => (s, fun o => is_out o (RNum (N.of_nat (sh_p h))))
  | OReadN _ _ _ | ONLines _ _ | OLastLine | OLen | OIsEmpty | ORange => (s, no_panic)
  | _ => (undetermined s, anything)
  end.

Definition spec_step' (s:sstate) (o:op) : sstate * (out -> bool) :=
  match o with
  | ONew name p hdr caches cb => spec_new s name p hdr caches cb
  | OOpen name popt hdr caches cb => spec_open s name popt hdr caches cb
  | OClose => match ss_h s with
              | None => (s, is_no_handle)
              | Some _ => (close_handle s, fun o => is_out o RUnit)
              end
  | OPush ts pay => spec_push s ts pay
  | OReadAll lo hi => with_h s (fun h => (s, lines_or_nothing (select lo hi (sh_lines h))))
  | OReadFirstN n lo hi =>
      with_h s (fun h => (s, if (n =? 0)%N then is_nothing
                             else let sel := select lo hi (sh_lines h) in
                                  lines_or_nothing (firstn (N.to_nat (N.min n (len sel))) sel)))
  | OReadN n lo hi => with_h s (fun h => (s, read_n_allowed h n lo hi))
  | ONLines lo hi =>
      with_h s (fun h =>
        let sel := select lo hi (sh_lines h) in
        (s, fun o => match sel with
                     | [] => match o with RNum 0%N => true | RErr _ => true | _ => false end
                     | _ => match o with
                            | RNum k => (len sel <=? k)%N
                                        && (k <=? len sel + N.of_nat (Layout.K (sh_p h)) * sections_touched (sh_p h) (sh_region h) sel)%N
                            | _ => false
                            end
                     end))
  | OLastLine => with_h s (fun h => (s, match last_opt (sh_lines h) with
                                        | None => is_err
                                        | Some x => fun o => is_out o (RLine x)
                                        end))
  | OLen => with_h s (fun h => (s, fun o => is_out o (RNum (len (sh_lines h)))))
  | OIsEmpty => with_h s (fun h => (s, fun o => is_out o (RBool (match sh_lines h with [] => true | _ => false end))))
  | ORange => with_h s (fun h => (s, fun o => is_out o (RRange (first_last (sh_lines h)))))
  | OPayloadSize => with_h s (fun h => (s, fun o => is_out o (RNum (N.of_nat (sh_p h)))))
  | OFsTrunc f n => spec_fs s f false (fun fs => match sfs_get fs f with
                                         | Some c => (sfs_put fs f (take n c ++ repeat x00 (N.to_nat n - length c)), fun o => is_out o RUnit)
                                         | None => (fs, no_file)
                                         end)
  | OFsRm f => spec_fs s f false (fun fs => if sfs_mem fs f then (sfs_del fs f, fun o => is_out o RUnit) else (fs, no_file))
  | OFsWrite f b => spec_fs s f false (fun fs => (sfs_put fs f b, fun o => is_out o RUnit))
  | OFsAppend f b => spec_fs s f false (fun fs => match sfs_get fs f with
                                          | Some c => (sfs_put fs f (c ++ b), fun o => is_out o RUnit)
                                          | None => (fs, no_file)
                                          end)
  | OFsCut f k => spec_fs s f false (fun fs => match sfs_get fs f with
                                       | Some c => (sfs_put fs f (take (len c - k) c), fun o => is_out o RUnit)
                                       | None => (fs, no_file)
                                       end)
  | OFsPatch f k b => spec_fs s f true (fun fs => match sfs_get fs f with
                                           | Some c => (sfs_put fs f (patch_from_end c k b), fun o => is_out o RUnit)
                                           | None => (fs, no_file)
                                           end)
  end.
Definition spec_step (s:sstate) (o:op) : sstate * (out -> bool) :=
  match ss_h s with
  | Some h => match sh_dmg h, o with
              | Some sure, (ONew _ _ _ _ _ | OOpen _ _ _ _ _ | OClose) => spec_step' s o
              | Some sure, _ => spec_step_damaged s h sure o
              | None, _ => spec_step' s o
              end
  | None => spec_step' s o
  end.
End SpecStep.

Definition spec_init : sstate := {| ss_fs := []; ss_h := None; ss_orig := []; ss_det := true |}.
