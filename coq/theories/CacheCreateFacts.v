(* C08 / C09: DownSampledData::create over pre-existing data. When a series that already holds lines is opened with a cache
   level whose files do not exist, open_or_create falls through to create, which resamples the whole source in one pass of
   the chunked reader (the closure writes into the new cache). Result: the cache of exactly the lines of the source - the
   means of all complete buckets in the cache files, the open bucket in the accumulator - for every list of lines, every
   bucket size and every payload size, i.e. the state one uninterrupted session would have produced (session_caches). *)
From Coq Require Import List NArith ZArith Lia Bool Arith ZifyBool ZifyN ZifyNat Sorted.
From Coq Require Import Strings.Byte.
Require Import BS.Bytes BS.Common BS.CommonFacts BS.Api BS.Layout BS.Format BS.FormatFacts BS.Spec BS.SpecStep BS.Sections.
Require Import BS.FS BS.FSFacts BS.Meta BS.MetaFacts BS.Header BS.Reader BS.ReaderFacts BS.Index BS.Data BS.DataFacts BS.Seek BS.SeekFacts BS.Series.
Require Import BS.SampleFacts BS.SeriesFacts BS.RangeFacts BS.RangeRead BS.ReadAllFacts BS.ExtractFacts BS.LastMetaFacts BS.HeaderFacts BS.OpenFacts BS.CacheFacts BS.TornFacts BS.TornGenFacts BS.CacheOpenFacts.
Import ListNotations.
Close Scope N_scope. Open Scope nat_scope.
Arguments N.add : simpl never. Arguments N.mul : simpl never. Arguments N.sub : simpl never.
Arguments N.ltb : simpl never. Arguments N.leb : simpl never. Arguments N.eqb : simpl never.
Arguments N.div : simpl never.

Section Create.
Variable p B : nat.
Hypothesis Hb : B > 0.

(* the closure of create, fed the lines t after the lines done: one cache_step per line *)
Lemma feed_proc_create chdr cihdr dn ixn : forall (t done:list line) prev ds fs,
  CacheOf p B fs ds chdr cihdr done -> wf_series p (done ++ t) ->
  prev = match last_opt done with Some y => fst y | None => 0%N end ->
  of_name (d_file (ds_data ds)) = dn -> of_name (ix_file (d_index (ds_data ds))) = ixn ->
  exists prev' ds' fs', feed _ proc_create (prev, ds, fs) t = PCont (prev', ds', fs')
    /\ CacheOf p B fs' ds' chdr cihdr (done ++ t)
    /\ (forall g, g <> dn -> g <> ixn -> fs_get fs' g = fs_get fs g)
    /\ of_name (d_file (ds_data ds')) = dn /\ of_name (ix_file (d_index (ds_data ds'))) = ixn.
Proof.
  induction t as [|x t IH]; intros done prev ds fs CO W Hprev N1 N2.
  - exists prev, ds, fs. rewrite app_nil_r. cbn [feed]. split; [reflexivity|]. split; [exact CO|]. split; [intros; reflexivity|split; assumption].
  - assert (Wx : wf_series p (done ++ [x])).
    { destruct W as [SS F]. replace (done ++ x :: t) with ((done ++ [x]) ++ t) in SS, F by (rewrite <- app_assoc; reflexivity).
      rewrite map_app in SS. apply sorted_app_inv in SS. apply Forall_app in F. split; [apply SS|apply F]. }
    assert (Hx : (fst x < 2^64)%N).
    { destruct Wx as [_ F]. rewrite Forall_forall in F. apply (F x). apply in_or_app. right. left. reflexivity. }
    destruct x as [ts pay]. cbn [fst snd] in *.
    destruct (cache_step p B Hb fs ds chdr cihdr done ts pay CO Wx) as (fs1 & ds1 & E & CO1 & Oth & M1 & M2).
    cbn [feed fst snd]. replace (ts <? U64)%N with true by (symmetry; apply N.ltb_lt; unfold U64; exact Hx).
    unfold proc_create.
    assert (OK : ((prev <? ts) || (prev =? 0))%N = true).
    { subst prev. destruct (last_opt done) as [y|] eqn:LO; [|rewrite N.eqb_refl; apply orb_true_r].
      destruct (exists_last (l:=done)) as (d' & y' & E'); [intros Q; rewrite Q in LO; discriminate|].
      rewrite E', last_opt_snoc in LO. inversion LO; subst y'.
      pose proof (sorted_snoc_all done (ts, pay) (proj1 Wx)) as FA. rewrite Forall_forall in FA.
      assert (IN : In y done) by (rewrite E'; apply in_or_app; right; left; reflexivity).
      specialize (FA y IN). cbn [fst] in FA. replace (fst y <? ts)%N with true by (symmetry; apply N.ltb_lt; exact FA). reflexivity. }
    rewrite OK. cbn [negb]. rewrite E.
    destruct (IH (done ++ [(ts, pay)]) ts ds1 fs1 CO1) as (prev' & ds' & fs' & FE & CO' & Oth' & K1 & K2).
    + rewrite <- app_assoc. exact W.
    + rewrite last_opt_snoc. reflexivity.
    + rewrite M1. exact N1.
    + rewrite M2. exact N2.
    + exists prev', ds', fs'. split; [exact FE|]. split; [rewrite <- app_assoc in CO'; exact CO'|].
      split; [|split; assumption].
      intros g G1 G2. rewrite Oth' by assumption. apply Oth; [rewrite N1|rewrite N2]; assumption.
Qed.
End Create.

Section CreateLevel.
Variable p : nat.

(* DownSampledData::create on free names over a source that holds any list of lines *)
Theorem ds_create_ok fs name (B:N) src cb hdr ihdr l :
  wf_series p l -> (1 <= B)%N ->
  RepD fs src p hdr ihdr (encode p l) (full_after p None l) (option_map fst (last_opt l)) ->
  fs_mem fs (cache_name name B ++ ext_data) = false -> fs_mem fs (cache_name name B ++ ext_index) = false ->
  (len (config_header name B) <= 65535)%N ->
  ~ In (of_name (d_file src)) (cache_names name B) -> ~ In (of_name (ix_file (d_index src))) (cache_names name B) ->
  exists fs' ds, ds_create name B p src cb fs = (fs', Ok ds)
    /\ cache_ok p fs' l ds (new_spec name B)
    /\ cache_files ds = cache_names name B
    /\ (forall g, ~ In g (cache_names name B) -> fs_get fs' g = fs_get fs g).
Proof.
  intros W HB RD M1 M2 Hl NS1 NS2.
  destruct l as [|x t] eqn:El.
  { (* an empty source: nothing to resample *)
    apply ds_create_empty; try assumption.
    rewrite (rd_entries _ _ _ _ _ _ _ _ RD), (sections_encode p [] W). reflexivity. }
  rewrite <- El in *.
  set (Bn := N.to_nat B). assert (Hb : Bn > 0) by (unfold Bn; lia).
  unfold ds_create, ds_new.
  destruct (data_new_ok fs (cache_name name B) p (config_header name B) M1 M2 Hl) as (fs0 & d & E & RDc & N1 & N2 & Oth).
  erewrite mbind_ok by (erewrite mbind_ok by exact E; reflexivity).
  assert (EE : ix_entries (d_index src) = (fst x, 0%N) :: secs_from p (Some (fst x)) (Layout.K p + 1) t).
  { rewrite (rd_entries _ _ _ _ _ _ _ _ RD), (sections_encode p l W), El. cbn [secs_from]. reflexivity. }
  rewrite EE.
  (* the source is untouched by the creation of the empty cache *)
  assert (RD0 : RepD fs0 src p hdr ihdr (encode p l) (full_after p None l) (option_map fst (last_opt l))).
  { apply (RepD_frame fs fs0); [exact RD| |]; apply Oth; intros Q; [apply NS1|apply NS1|apply NS2|apply NS2]; rewrite Q; cbn [cache_names In]; auto. }
  erewrite mbind_ok by (apply (of_read_from_0 _ _ hdr (encode p l)); exact (rd_file _ _ _ _ _ _ _ _ RD0)).
  destruct (full_after_cons_none p x t) as [f' FA].
  assert (RD1 : RepD fs0 src p hdr ihdr (encode p (x :: t)) (Some f') (Some (fst (last t x)))).
  { rewrite El, FA in RD0. exact RD0. }
  assert (W1 : wf_series p (x :: t)) by (rewrite <- El; exact W).
  unfold line_start. rewrite N.add_0_l. rewrite (rd_len _ _ _ _ _ _ _ _ RD0), El. cbn [fst].
  rewrite (rwp_full fs0 src p hdr ihdr x t f' RD1 W1).
  set (ds0 := {| ds_data := d; ds_B := B; ds_in_bin := 0; ds_sum := 0; ds_state := rs_zero p |}).
  assert (CO0 : CacheOf p Bn fs0 ds0 (fst (snd (new_spec name B))) (snd (snd (new_spec name B))) []).
  { cbn [new_spec fst snd].
    assert (CE : cache_of p Bn [] = []) by (unfold cache_of; rewrite buckets_short by (cbn; lia); reflexivity).
    exists 0, [], []. split; [reflexivity|]. split; [reflexivity|]. rewrite CE. split; [|exact I].
    constructor; cbn [ds0 ds_data ds_B ds_in_bin ds_sum ds_state length map].
    + exact RDc.
    + split; constructor.
    + unfold Bn. rewrite N2Nat.id. reflexivity.
    + lia.
    + reflexivity.
    + reflexivity.
    + reflexivity.
    + constructor.
    + exact I. }
  destruct (feed_proc_create p Bn Hb _ _ (cache_name name B ++ ext_data) (cache_name name B ++ ext_index) (x :: t) [] 0%N ds0 fs0 CO0)
    as (prev' & ds' & fs' & FE & CO' & Oth' & K1 & K2); [exact W1|reflexivity|exact N1|exact N2|].
  rewrite FE. exists fs', ds'. split; [reflexivity|]. split; [|split].
  - split; [cbn [new_spec fst]; exact Hb|]. exact CO'.
  - unfold cache_files, cache_names. rewrite K1, K2. reflexivity.
  - intros g NI. rewrite Oth'; [apply Oth| |]; intros Q; apply NI; subst g; cbn [cache_names In]; auto.
Qed.

(* the outer header of a cache as open sees it and as create writes it are the same bytes *)
Lemma new_spec_open_spec name B : new_spec name B = open_spec name B.
Proof. reflexivity. Qed.
End CreateLevel.

(* ---- DownSampledData::open_or_create when the level's files are missing, and a mix of present and missing levels ---- *)
Section OpenOrCreate.
Variable p : nat.

Lemma fwh_open_missing fs path : fs_mem fs path = false -> fwh_open path fs = (fs, Err ENotFound).
Proof.
  intros M. unfold fwh_open. erewrite mbind_ok by (unfold exists_file; reflexivity). rewrite M. reflexivity.
Qed.

Lemma ds_open_or_create_missing fs name B src cb : fs_mem fs (cache_name name B ++ ext_data) = false ->
  ds_open_or_create name B p src cb fs = ds_create name B p src cb fs.
Proof.
  intros M. unfold ds_open_or_create, mcatch, ds_open. unfold mbind at 1. rewrite (fwh_open_missing fs _ M). reflexivity.
Qed.

Definition level_missing (fs:fsys) (name:fname) (B:N) : Prop :=
  (1 <= B)%N /\ (len (config_header name B) <= 65535)%N
  /\ fs_mem fs (cache_name name B ++ ext_data) = false /\ fs_mem fs (cache_name name B ++ ext_index) = false.

Lemma level_on_disk_frame fs fs' name l B : level_on_disk p fs name l B ->
  (forall g, In g (cache_names name B) -> fs_get fs' g = fs_get fs g) -> level_on_disk p fs' name l B.
Proof.
  intros (A1 & A2 & A3 & A4 & A5 & A6 & G1 & G2) Fr. unfold level_on_disk.
  rewrite !Fr by (cbn [cache_names In]; auto). repeat (split; [assumption|]). assumption.
Qed.
Lemma level_missing_frame fs fs' name B : level_missing fs name B ->
  (forall g, In g (cache_names name B) -> fs_get fs' g = fs_get fs g) -> level_missing fs' name B.
Proof.
  intros (A1 & A2 & M1 & M2) Fr. unfold level_missing. rewrite !fs_mem_get in *.
  rewrite !Fr by (cbn [cache_names In]; auto). repeat (split; [assumption|]). assumption.
Qed.
Lemma on_disk_mem fs name l B g : level_on_disk p fs name l B -> In g (cache_names name B) -> fs_mem fs g = true.
Proof.
  intros (_ & _ & _ & _ & _ & _ & G1 & G2) [Q|[Q|[]]]; subst g; rewrite fs_mem_get; [rewrite G1|rewrite G2]; reflexivity.
Qed.

(* open_caches over any mix of intact aligned levels and missing levels: every level ends up the cache of the lines of the
   source; files that existed are untouched (the present levels stay byte-identical), only the missing levels' files appear *)
Theorem open_caches_mixed name src cb hdr ihdr l :
  wf_series p l ->
  forall (Bs:list N) fs,
  RepD fs src p hdr ihdr (encode p l) (full_after p None l) (option_map fst (last_opt l)) ->
  Forall (fun B => level_on_disk p fs name l B \/ level_missing fs name B) Bs ->
  NoDup (flat_map (cache_names name) Bs) ->
  ~ In (of_name (d_file src)) (flat_map (cache_names name) Bs) ->
  ~ In (of_name (ix_file (d_index src))) (flat_map (cache_names name) Bs) ->
  exists fs' down, open_caches name p src cb Bs fs = (fs', Ok down)
    /\ Forall2 (cache_ok p fs' l) down (map (open_spec name) Bs)
    /\ map cache_files down = map (cache_names name) Bs
    /\ (forall g, fs_mem fs g = true \/ ~ In g (flat_map (cache_names name) Bs) -> fs_get fs' g = fs_get fs g).
Proof.
  intros W. induction Bs as [|B t IH]; intros fs RD F ND NS1 NS2.
  - exists fs, []. split; [reflexivity|]. split; [constructor|]. split; [reflexivity|intros; reflexivity].
  - inversion F as [|? ? FB Ft]; subst.
    cbn [flat_map] in ND, NS1, NS2. apply NoDup_app_inv in ND. destruct ND as (ND1 & NDt & DIS).
    assert (STEP : exists fs1 ds, ds_open_or_create name B p src cb fs = (fs1, Ok ds)
              /\ cache_ok p fs1 l ds (open_spec name B) /\ cache_files ds = cache_names name B
              /\ (forall g, fs_mem fs g = true \/ ~ In g (cache_names name B) -> fs_get fs1 g = fs_get fs g)).
    { destruct FB as [OD|(HB & Hl & M1 & M2)].
      - destruct (ds_open_aligned p fs name B src cb hdr ihdr l W RD OD) as (ds & E & CO & NF).
        exists fs, ds. split; [exact E|]. split; [exact CO|]. split; [exact NF|intros; reflexivity].
      - rewrite (ds_open_or_create_missing fs name B src cb M1).
        destruct (ds_create_ok p fs name B src cb hdr ihdr l W HB RD M1 M2 Hl) as (fs1 & ds & E & CO & NF & Oth).
        + intros Q. apply NS1. apply in_or_app. left. exact Q.
        + intros Q. apply NS2. apply in_or_app. left. exact Q.
        + exists fs1, ds. split; [exact E|]. split; [rewrite <- new_spec_open_spec; exact CO|]. split; [exact NF|].
          intros g [Mg|NI]; [|apply Oth; exact NI]. apply Oth. intros [Q|[Q|[]]]; subst g; congruence. }
    destruct STEP as (fs1 & ds & E & CO & NF & Oth).
    assert (SAME : forall B0, In B0 t -> forall g, In g (cache_names name B0) -> fs_get fs1 g = fs_get fs g).
    { intros B0 HB0 g Hg. apply Oth. right. intros Q. apply (DIS g Q). apply in_flat_map. exists B0. split; assumption. }
    assert (RD1 : RepD fs1 src p hdr ihdr (encode p l) (full_after p None l) (option_map fst (last_opt l))).
    { apply (RepD_frame fs fs1); [exact RD| |]; apply Oth; right; intros Q; [apply NS1|apply NS2]; apply in_or_app; left; exact Q. }
    assert (Ft1 : Forall (fun B0 => level_on_disk p fs1 name l B0 \/ level_missing fs1 name B0) t).
    { apply Forall_forall. intros B0 HB0. rewrite Forall_forall in Ft. destruct (Ft B0 HB0) as [OD|MS].
      - left. apply (level_on_disk_frame fs fs1); [exact OD|apply SAME; exact HB0].
      - right. apply (level_missing_frame fs fs1); [exact MS|apply SAME; exact HB0]. }
    destruct (IH fs1 RD1 Ft1 NDt) as (fs2 & down & Et & F2 & FM & Otht).
    { intros Q. apply NS1. apply in_or_app. right. exact Q. }
    { intros Q. apply NS2. apply in_or_app. right. exact Q. }
    cbn [open_caches]. erewrite mbind_ok by exact E. erewrite mbind_ok by exact Et.
    exists fs2, (ds :: down). split; [reflexivity|]. split; [|split].
    + cbn [map]. constructor; [|exact F2]. destruct CO as [Hb CO]. split; [exact Hb|].
      apply (CacheOf_frame p _ fs1 fs2); [exact CO|]. intros g Hg. apply Otht. right. intros Q. rewrite NF in Hg. apply (DIS g Hg Q).
    + cbn [map]. rewrite NF, FM. reflexivity.
    + intros g Hg.
      assert (G1 : fs_get fs1 g = fs_get fs g).
      { apply Oth. destruct Hg as [Mg|NI]; [left; exact Mg|right; intros Q; apply NI; cbn [flat_map]; apply in_or_app; left; exact Q]. }
      rewrite <- G1. apply Otht. destruct Hg as [Mg|NI].
      * left. rewrite fs_mem_get, G1, <- fs_mem_get. exact Mg.
      * right. intros Q. apply NI. cbn [flat_map]. apply in_or_app. right. exact Q.
Qed.

(* ByteSeries::open_existing_with_resampler on an intact series, cache levels present (aligned) or missing in any mix *)
Theorem series_open_mixed fs name uhdr popt cb l (Bs:list N) :
  let header := params_to_text BSgen.Consts.version (N.of_nat p) ++ uhdr in
  wf_series p l -> Forall (nm_sec p) (secs_of l) ->
  (len header <= 65535)%N -> (len (encode p l) < 2^64)%N -> (N.of_nat p < 2^64)%N ->
  fs_get fs (name ++ ext_data) = Some (outer header ++ encode p l) ->
  fs_get fs (name ++ ext_index) = Some (outer [] ++ enc_index (sections p (encode p l))) ->
  (popt = None \/ popt = Some (N.of_nat p)) ->
  Forall (fun B => level_on_disk p fs name l B \/ level_missing fs name B) Bs ->
  NoDup ([name ++ ext_data; name ++ ext_index] ++ flat_map (cache_names name) Bs) ->
  exists fs' s, series_open name popt Bs cb fs = (fs', Ok (s, uhdr))
    /\ RepS fs' s p (outer header) (outer []) l (map (open_spec name) Bs) /\ s_cb s = cb
    /\ all_files s = [name ++ ext_data; name ++ ext_index] ++ flat_map (cache_names name) Bs
    /\ of_name (d_file (s_data s)) = name ++ ext_data /\ of_name (ix_file (d_index (s_data s))) = name ++ ext_index
    /\ map cache_files (s_down s) = map (cache_names name) Bs
    /\ (forall g, fs_mem fs g = true \/ ~ In g (flat_map (cache_names name) Bs) -> fs_get fs' g = fs_get fs g).
Proof.
  intros header W NMl Hh H64 Hp GD GI Hopt FL ND.
  destruct (fwh_open_ok fs (name ++ ext_data) header (encode p l) Hh GD) as [FO _].
  assert (TC : l = [] \/ tail_clean p (encode p l)).
  { destruct l as [|x t] eqn:El; [left; reflexivity|right]. rewrite <- El in *. apply tail_clean_nm; [exact W|rewrite El; discriminate|exact NMl]. }
  assert (LM : last_meta_timestamp p (encode p l) = Ok (full_after p None l)).
  { apply last_meta_ok; [exact W|exact NMl]. }
  destruct (data_open_ok p fs name header cb l W Hh H64 GD GI TC LM) as (d & DO & RD & N1 & N2).
  change ([name ++ ext_data; name ++ ext_index] ++ flat_map (cache_names name) Bs)
    with ((name ++ ext_data) :: (name ++ ext_index) :: flat_map (cache_names name) Bs) in ND.
  inversion ND as [|? ? NI1 ND']; subst. inversion ND' as [|? ? NI2 ND'']; subst.
  destruct (open_caches_mixed name d cb _ _ l W Bs fs RD FL ND'') as (fs' & down & OC & F2 & FM & Oth).
  { rewrite N1. intros Q. apply NI1. right. exact Q. }
  { rewrite N2. exact NI2. }
  unfold series_open. erewrite mbind_ok by exact FO. cbv iota beta.
  unfold lift at 1. erewrite mbind_ok by (unfold header; rewrite (header_roundtrip (N.of_nat p) uhdr popt Hp Hopt); reflexivity). cbv iota beta.
  rewrite Nat2N.id. erewrite mbind_ok by (apply mcatch_ok; exact DO).
  unfold lift at 1. erewrite mbind_ok by (rewrite (data_range_ok p fs d _ _ l W RD); reflexivity).
  erewrite mbind_ok by (apply mcatch_ok; exact OC).
  assert (FM' : flat_map cache_files down = flat_map (cache_names name) Bs) by (rewrite !flat_map_concat_map, FM; reflexivity).
  assert (RD' : RepD fs' d p (outer header) (outer []) (encode p l) (full_after p None l) (option_map fst (last_opt l))).
  { apply (RepD_frame fs fs'); [exact RD| |]; apply Oth; right; [rewrite N1; intros Q; apply NI1; right; exact Q|rewrite N2; exact NI2]. }
  exists fs'. eexists. split; [reflexivity|]. split; [|split; [reflexivity|split; [|split; [exact N1|split; [exact N2|split; [exact FM|exact Oth]]]]]].
  - constructor; cbn [s_data s_down s_range]; [exact RD'|exact W|reflexivity|exact F2|].
    unfold all_files. cbn [s_data s_down]. rewrite N1, N2, FM'. exact ND.
  - unfold all_files. cbn [s_data s_down]. rewrite N1, N2, FM'. reflexivity.
Qed.
End OpenOrCreate.

(* ---- the builder's open on an intact series: cache levels present (aligned) or missing in any mix ---- *)
Section BuilderOpen.
Variable p : nat.

Theorem builder_open_mixed fs name uhdr popt hdropt cb l (Bs:list N) :
  let header := params_to_text BSgen.Consts.version (N.of_nat p) ++ uhdr in
  wf_series p l -> Forall (nm_sec p) (secs_of l) ->
  (len header <= 65535)%N -> (len (encode p l) < 2^64)%N -> (N.of_nat p < 2^64)%N ->
  fs_get fs (name ++ ext_data) = Some (outer header ++ encode p l) ->
  fs_get fs (name ++ ext_index) = Some (outer [] ++ enc_index (sections p (encode p l))) ->
  (popt = None \/ popt = Some (N.of_nat p)) ->
  match hdropt with HdrIs e => e = uhdr | HdrAny => True end ->
  Forall (fun B => level_on_disk p fs name l B \/ level_missing fs name B) Bs ->
  NoDup ([name ++ ext_data; name ++ ext_index] ++ flat_map (cache_names name) Bs) ->
  exists fs' s, builder_open name popt hdropt Bs cb fs = (fs', Ok (s, uhdr))
    /\ RepS fs' s p (outer header) (outer []) l (map (open_spec name) Bs) /\ s_cb s = cb
    /\ of_name (d_file (s_data s)) = name ++ ext_data /\ of_name (ix_file (d_index (s_data s))) = name ++ ext_index
    /\ map cache_files (s_down s) = map (cache_names name) Bs
    /\ (forall g, fs_mem fs g = true \/ ~ In g (flat_map (cache_names name) Bs) -> fs_get fs' g = fs_get fs g)
    /\ Forall2 (fun ds B =>
         fs_get fs' (cache_name name B ++ ext_data) = Some (outer (config_header name B) ++ encode p (cache_of p (N.to_nat B) l))
         /\ fs_get fs' (cache_name name B ++ ext_index)
            = Some (outer [] ++ enc_index (sections p (encode p (cache_of p (N.to_nat B) l))))) (s_down s) Bs.
Proof.
  intros header W NMl Hh H64 Hp GD GI Hopt HO FL ND.
  destruct (series_open_mixed p fs name uhdr popt cb l Bs W NMl Hh H64 Hp GD GI Hopt FL ND) as (fs' & s & SO & R & CB & _ & M1 & M2 & M3 & Oth).
  exists fs', s. split; [|split; [exact R|split; [exact CB|split; [exact M1|split; [exact M2|split; [exact M3|split; [exact Oth|]]]]]]].
  - unfold builder_open. erewrite mbind_ok by exact SO. cbv iota beta.
    destruct hdropt as [|e]; [reflexivity|]. subst e. rewrite bytes_eqb_refl. reflexivity.
  - pose proof (RepS_cache_files _ _ _ _ _ _ _ R) as CF. clear -CF M3.
    revert Bs CF M3. induction (s_down s) as [|ds t IH]; intros Bs CF M3; destruct Bs as [|B Bt]; try discriminate; [constructor|].
    cbn [map] in CF, M3. inversion CF as [|? ? ? ? [[G1 _] [G2 _]] CFt]; subst.
    unfold cache_files at 1, cache_names at 1 in M3. injection M3 as E1 E2 M3t.
    constructor; [|apply IH; assumption]. cbn [open_spec fst snd] in G1, G2. rewrite E1 in G1. rewrite E2 in G2. split; assumption.
Qed.

(* the case C08 names: a series without caches that already holds lines is opened with cache levels for the first time *)
Theorem open_creates_caches fs s0 name uhdr popt hdropt cb l (Bs:list N) :
  let header := params_to_text BSgen.Consts.version (N.of_nat p) ++ uhdr in
  RepH fs s0 p (outer header) (outer []) l ->
  of_name (d_file (s_data s0)) = name ++ ext_data -> of_name (ix_file (d_index (s_data s0))) = name ++ ext_index ->
  Forall (nm_sec p) (secs_of l) ->
  (len header <= 65535)%N -> (len (encode p l) < 2^64)%N -> (N.of_nat p < 2^64)%N ->
  (popt = None \/ popt = Some (N.of_nat p)) ->
  match hdropt with HdrIs e => e = uhdr | HdrAny => True end ->
  Forall (level_missing fs name) Bs ->
  NoDup ([name ++ ext_data; name ++ ext_index] ++ flat_map (cache_names name) Bs) ->
  exists fs' s, builder_open name popt hdropt Bs cb fs = (fs', Ok (s, uhdr))
    /\ RepS fs' s p (outer header) (outer []) l (map (open_spec name) Bs) /\ s_cb s = cb
    /\ (forall g, ~ In g (flat_map (cache_names name) Bs) -> fs_get fs' g = fs_get fs g)
    /\ Forall2 (fun ds B =>
         fs_get fs' (cache_name name B ++ ext_data) = Some (outer (config_header name B) ++ encode p (cache_of p (N.to_nat B) l))
         /\ fs_get fs' (cache_name name B ++ ext_index)
            = Some (outer [] ++ enc_index (sections p (encode p (cache_of p (N.to_nat B) l))))) (s_down s) Bs.
Proof.
  intros header R N1 N2 NMl Hh H64 Hp Hopt HO FM ND.
  pose proof (rh_data _ _ _ _ _ _ R) as RD. pose proof (rh_wf _ _ _ _ _ _ R) as W.
  pose proof (rd_file _ _ _ _ _ _ _ _ RD) as [GD _]. pose proof (rd_ix _ _ _ _ _ _ _ _ RD) as [GI _].
  rewrite N1 in GD. rewrite N2 in GI.
  destruct (builder_open_mixed fs name uhdr popt hdropt cb l Bs W NMl Hh H64 Hp GD GI Hopt HO) as (fs' & s & E & R' & CB & _ & _ & _ & Oth & FF).
  - eapply Forall_impl; [|exact FM]. intros B HB. right. exact HB.
  - exact ND.
  - exists fs', s. split; [exact E|]. split; [exact R'|]. split; [exact CB|]. split; [|exact FF].
    intros g NI. apply Oth. right. exact NI.
Qed.
End BuilderOpen.

(* the premises are satisfiable: a series of three lines on disk, opened with a bucket-size-2 cache that does not exist yet *)
Example open_creates_example :
  let p := 4 in let name := [x73] in let pay := [x01; x02; x03; x04] in
  let header := params_to_text BSgen.Consts.version (N.of_nat p) ++ [] in
  let l := [(10%N, pay); (20%N, pay); (70000%N, pay)] in
  let fs := fs_put (fs_put [] (name ++ ext_data) (outer header ++ encode p l))
                   (name ++ ext_index) (outer [] ++ enc_index (sections p (encode p l))) in
  wf_series p l /\ Forall (nm_sec p) (secs_of l) /\ (len header <= 65535)%N /\ (len (encode p l) < 2^64)%N
  /\ fs_get fs (name ++ ext_data) = Some (outer header ++ encode p l)
  /\ fs_get fs (name ++ ext_index) = Some (outer [] ++ enc_index (sections p (encode p l)))
  /\ Forall (fun B => level_on_disk p fs name l B \/ level_missing fs name B) [2%N]
  /\ NoDup ([name ++ ext_data; name ++ ext_index] ++ flat_map (cache_names name) [2%N])
  /\ cache_of p 2 l = [(15%N, pay)].
Proof.
  cbv zeta. split; [|split; [|split; [|split; [|split; [|split; [|split; [|split]]]]]]].
  - split; [vm_compute; repeat constructor|repeat constructor; vm_compute; reflexivity].
  - apply Forall_forall. intros sct _. apply nm_p4. lia.
  - apply N.leb_le. vm_compute. reflexivity.
  - apply N.ltb_lt. vm_compute. reflexivity.
  - vm_compute. reflexivity.
  - vm_compute. reflexivity.
  - constructor; [|constructor]. right. unfold level_missing. split; [lia|]. split; [apply N.leb_le; vm_compute; reflexivity|].
    split; vm_compute; reflexivity.
  - vm_compute. repeat constructor; cbn [In]; intuition discriminate.
  - vm_compute. reflexivity.
Qed.
