(* Layer I: the file system as a finite map from file names to contents, and the monad
   every modelled library function runs in (state = file system, result = res). *)
From Coq Require Import List NArith Bool Arith.
From Coq Require Import Strings.Byte.
Require Import BS.Bytes BS.Common BS.Api.
Import ListNotations.
Close Scope N_scope. Open Scope nat_scope.

(* file contents are stored reversed (last byte first): the library appends far more often than
   it reads, and an append then costs the length of what is appended. Every accessor below
   presents the content in file order. *)
Definition fsys := list (fname * list byte).

Fixpoint fs_raw (fs:fsys) (f:fname) : option (list byte) :=
  match fs with
  | [] => None
  | (g, c) :: t => if bytes_eqb g f then Some c else fs_raw t f
  end.
Definition fs_get (fs:fsys) (f:fname) : option (list byte) := option_map (@frev byte) (fs_raw fs f).
Fixpoint fs_del (fs:fsys) (f:fname) : fsys :=
  match fs with
  | [] => []
  | (g, c) :: t => if bytes_eqb g f then fs_del t f else (g, c) :: fs_del t f
  end.
Fixpoint fs_put_raw (fs:fsys) (f:fname) (c:list byte) : fsys :=
  match fs with
  | [] => [(f, c)]
  | (g, d) :: t => if bytes_eqb g f then (g, c) :: t else (g, d) :: fs_put_raw t f c
  end.
Definition fs_put (fs:fsys) (f:fname) (c:list byte) : fsys := fs_put_raw fs f (frev c).
(* the files with their contents in file order *)
Definition fs_files (fs:fsys) : list (fname * list byte) := map (fun kv => (fst kv, frev (snd kv))) fs.
Definition fs_mem (fs:fsys) (f:fname) : bool := match fs_raw fs f with Some _ => true | None => false end.

(* ---- the monad ---- *)
Definition M (A:Type) := fsys -> fsys * res A.
Definition ret {A} (a:A) : M A := fun fs => (fs, Ok a).
Definition fail {A} (e:err) : M A := fun fs => (fs, Err e).
Definition mpanic {A} : M A := fun fs => (fs, Panic).
Definition mfuel {A} : M A := fun fs => (fs, OutOfFuel).
Definition lift {A} (r:res A) : M A := fun fs => (fs, r).
Definition mbind {A B} (m:M A) (f:A -> M B) : M B :=
  fun fs => match m fs with
            | (fs', Ok a) => f a fs'
            | (fs', Err e) => (fs', Err e)
            | (fs', Panic) => (fs', Panic)
            | (fs', OutOfFuel) => (fs', OutOfFuel)
            end.
Notation "'let*' x := m 'in' k" := (mbind m (fun x => k)) (at level 200, x pattern, m at level 100, k at level 200).
Notation "'exec' m 'in' k" := (mbind m (fun _ => k)) (at level 200, m at level 100, k at level 200).
(* run m; on a result that is not Ok hand the result to h (used for Rust `match ... { Err(e) => ... }`) *)
Definition mcatch {A} (m:M A) (h:err -> M A) : M A :=
  fun fs => match m fs with
            | (fs', Err e) => h e fs'
            | other => other
            end.

(* ---- primitive file operations (std::fs / std::io as used by the library) ---- *)
Definition get_fs : M fsys := fun fs => (fs, Ok fs).
(* metadata().len() *)
Definition file_len (f:fname) : M N :=
  fun fs => match fs_raw fs f with Some c => (fs, Ok (len c)) | None => (fs, Err EOther) end.
(* seek(Start(pos)) + read_exact(n bytes) *)
Definition read_at (f:fname) (pos n:N) : M (list byte) :=
  fun fs => match fs_get fs f with
            | Some c => if (n =? 0)%N then (fs, Ok [])           (* seeking past the end is fine, reading nothing too *)
                        else if (pos + n <=? len c)%N then (fs, Ok (slice pos (pos + n) c)) else (fs, Err EOther)
            | None => (fs, Err EOther)
            end.
(* read_to_end from pos *)
Definition read_from (f:fname) (pos:N) : M (list byte) :=
  fun fs => match fs_get fs f with Some c => (fs, Ok (drop pos c)) | None => (fs, Err EOther) end.
(* write_all on a file opened in append mode *)
Definition append (f:fname) (b:list byte) : M unit :=
  fun fs => match fs_raw fs f with Some c => (fs_put_raw fs f (rev_append b c), Ok tt) | None => (fs, Err EOther) end.
(* File::set_len: truncate, or extend with zeros *)
Definition set_file_len (f:fname) (n:N) : M unit :=
  fun fs => match fs_get fs f with
            | Some c => (fs_put fs f (take n c ++ repeat x00 (N.to_nat (n - len c))), Ok tt)
            | None => (fs, Err EOther)
            end.
(* OpenOptions::create_new(true) *)
Definition create_new (f:fname) : M unit :=
  fun fs => if fs_mem fs f then (fs, Err EExists) else (fs_put fs f [], Ok tt).
Definition exists_file (f:fname) : M bool := fun fs => (fs, Ok (fs_mem fs f)).
Definition remove_file (f:fname) : M unit := fun fs => (fs_del fs f, Ok tt).
(* std::fs::rename: replaces an existing target *)
Definition rename_file (a b:fname) : M unit :=
  fun fs => match fs_raw fs a with
            | Some c => (fs_put_raw (fs_del fs a) b c, Ok tt)
            | None => (fs, Err EOther)
            end.
