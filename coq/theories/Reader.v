(* Layer I: src/series/data/inline_meta/with_processor.rs (read_with_processor, ts_from) and the
   three processors of src/series/data/inline_meta.rs (read, read_first_n, read_resampling/Sampler).

   The inner `loop` over the lines of one buffer is written as a one-line-at-a-time state
   machine (RN: at a line boundary outside a section, RS: the same while
   skipping_over_corrupted_data is set, R1: first marker line seen, R2: both marker lines seen,
   collecting continuation lines). The flag only matters at a line boundary: it is cleared when both
   marker lines have been seen, and a buffer that starts with carried lines starts with a marker line. `break n` of the Rust loop is the state
   the machine is in when the lines of the buffer run out: needed_overlap = bytes of the
   lines held by the state. *)
From Coq Require Import List NArith Bool Arith.
From Coq Require Import Strings.Byte.
Require Import BS.Bytes BS.Common BS.Api BS.Meta.
Require BSgen.Consts.
Import ListNotations.
Close Scope N_scope. Open Scope nat_scope.


(* what a processor closure answers for one line *)
Inductive pres (St:Type) := PCont (s:St) | PStop (s:St) | PPanic.
Arguments PCont {St} s. Arguments PStop {St} s. Arguments PPanic {St}.

Inductive rst := RN | RS | R1 (a:slot) | R2 (a b:slot) (got:list slot).
Definition held (st:rst) : nat := match st with RN => 0 | RS => 0 | R1 _ => 1 | R2 _ _ got => 2 + length got end.

(* outcome of scanning lines *)
Inductive lres (St:Type) :=
| LCont (full:N) (st:rst) (acc:St)
| LStop (acc:St)          (* the processor asked to stop: Err(Error::Processor) *)
| LCorrupt (acc:St)       (* Err(Error::CorruptMetaSection) *)
| LPanic.
Arguments LCont {St} full st acc. Arguments LStop {St} acc. Arguments LCorrupt {St} acc. Arguments LPanic {St}.

Section RWP.
Variable St : Type.
Variable proc : St -> N -> list byte -> pres St.
Variable p : nat.
Variable cb : cbmode.
Let L := p + 2.

(* ts_from: full_ts + u16 (checked u64 addition) *)
Definition ts_from (line:slot) (full:N) : res N := u64_add full (le_dec (firstn 2 line)).

Definition line_step (full:N) (st:rst) (acc:St) (x:slot) : lres St :=
  match st with
  | RN =>
      if is_marker x then LCont full (R1 x) acc
      else match ts_from x full with
           | Ok ts => match proc acc ts (skipn 2 x) with
                      | PCont a => LCont full RN a
                      | PStop a => LStop a
                      | PPanic => LPanic
                      end
           | _ => LPanic
           end
  | RS => if is_marker x then LCont full (R1 x) acc else LCont full RS acc   (* dropped until the next section *)
  | R1 a =>
      if is_marker x
      then (if ncont p =? 0 then LCont (meta_read_ts p a x []) RN acc else LCont full (R2 a x []) acc)
      else match cb with
           | CbAllow => LCont full RS acc       (* callback consents: both lines are dropped, skipping starts *)
           | _ => LCorrupt acc
           end
  | R2 a b got =>
      let got' := got ++ [x] in
      if length got' =? ncont p then LCont (meta_read_ts p a b got') RN acc
      else LCont full (R2 a b got') acc
  end.

Fixpoint scan_lines (full:N) (st:rst) (acc:St) (lines:list slot) : lres St :=
  match lines with
  | [] => LCont full st acc
  | x :: t => match line_step full st acc x with
              | LCont f' st' acc' => scan_lines f' st' acc' t
              | other => other
              end
  end.

(* result of read_with_processor *)
Inductive rres := RDone (acc:St) | RStopped (acc:St) | RCorrupt (acc:St) | RIo (acc:St) | RPanic.

(* the `while to_read > 0` loop. region = the file content after the header; n bounds the number
   of iterations (one per chunk). carry = the bytes moved to the front of the buffer. *)
Fixpoint chunk_loop (n:nat) (chunk:N) (region:list byte) (pos to_read:N) (full:N) (st0:rst) (carry:list byte) (acc:St) : rres :=
  match n with
  | O => RDone acc
  | S n' =>
      if (to_read =? 0)%N then RDone acc else
      let read_size := N.min chunk to_read in
      if (len region <? pos + read_size)%N then RIo acc else             (* read_exact fails *)
      if (chunk + BSgen.Consts.read_overlap_lines * N.of_nat L <? len carry + read_size)%N then RPanic else
      let buf := carry ++ slice pos (pos + read_size) region in
      match scan_lines full st0 acc (chunks L buf) with
      | LCont full' st' acc' =>
          let needed := (N.of_nat (held st' * L))%N in
          if (len buf <? needed)%N then RPanic else
          chunk_loop n' chunk region (pos + read_size)%N (to_read - read_size)%N full'
            (match st' with RS => RS | _ => RN end) (drop (len buf - needed) buf) acc'
      | LStop a => RStopped a
      | LCorrupt a => RCorrupt a
      | LPanic => RPanic
      end
  end.

(* read_with_processor(seek = Pos{start, end, first_full_ts}) *)
Definition read_with_processor (region:list byte) (start end_ full:N) (acc:St) : rres :=
  if (end_ <? start)%N then RPanic else                (* seek.end - seek.start.raw_offset() *)
  let to_read := (end_ - start)%N in
  let chunk := next_multiple_of BSgen.Consts.read_chunk (N.of_nat L) in
  chunk_loop (S (N.to_nat (N.min (to_read / chunk) (len region / chunk + 1)))) chunk region start to_read full RN [] acc.
End RWP.
Arguments RDone {St} acc. Arguments RStopped {St} acc. Arguments RCorrupt {St} acc. Arguments RIo {St} acc. Arguments RPanic {St}.

(* ---- the processors ---- *)

(* FileWithInlineMeta::read: collects, asserts ts > last || ts == 0. state = (last, reversed output) *)
Definition proc_read (s:N * list line) (ts:N) (pay:list byte) : pres (N * list line) :=
  let '(last, out) := s in
  if ((last <? ts) || (ts =? 0))%N then PCont (ts, (ts, pay) :: out) else PPanic.

(* read_first_n: state = (n_read, reversed output) *)
Definition proc_first_n (n:N) (s:N * list line) (ts:N) (pay:list byte) : pres (N * list line) :=
  let '(k, out) := s in
  let k' := (k + 1)%N in
  if (n <=? k')%N then PStop (k', (ts, pay) :: out) else PCont (k', (ts, pay) :: out).

(* the BytesResampler used by the harness: item = one number per payload byte *)
Definition rs_decode (pay:list byte) : list N := map rs_dec pay.
Definition rs_add (st item:list N) : list N := map (fun x => (fst x + snd x)%N) (combine st item).
Definition rs_finish (st:list N) (collected:N) : list N := map (fun s => (s / collected)%N) st.
Definition rs_encode (item:list N) : list byte := map byte_of_N item.
Definition rs_zero (p:nat) : list N := repeat 0%N p.

(* Sampler (read_resampling): timestamp_sum is 128 bit wide after the fix *)
Record sampler := { sm_sum : N; sm_n : N; sm_state : list N; sm_out : list line }.
Definition proc_sample (p:nat) (bucket:N) (s:sampler) (ts:N) (pay:list byte) : pres sampler :=
  let sum := (sm_sum s + ts)%N in
  let st := rs_add (sm_state s) (rs_decode pay) in
  let k := (sm_n s + 1)%N in
  if (bucket <=? k)%N then
    PCont {| sm_sum := 0; sm_n := 0; sm_state := rs_zero p;
             sm_out := ((sum / bucket)%N, rs_encode (rs_finish st bucket)) :: sm_out s |}
  else PCont {| sm_sum := sum; sm_n := k; sm_state := st; sm_out := sm_out s |}.
