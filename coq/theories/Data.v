(* Layer I: src/series/data/inline_meta.rs (FileWithInlineMeta::new and its repair steps,
   read / read_first_n / read_resampling) and src/series/data.rs (Data). *)
From Coq Require Import List NArith Bool Arith.
From Coq Require Import Strings.Byte.
Require Import BS.Bytes BS.Common BS.Api BS.FS BS.Meta BS.Header BS.Reader BS.Index.
Require BSgen.Consts.
Import ListNotations.
Close Scope N_scope. Open Scope nat_scope.

(* ---- repair on open (inline_meta.rs) ---- *)
(* repair_incomplete_last_write *)
Definition repair_incomplete_last_write (f:ofile) (p:nat) : M unit :=
  let* l := of_len f in
  let rest := (l mod line_size p)%N in
  if (0 <? rest)%N then of_set_len f (l - rest) else ret tt.

(* repaired_is_only_meta *)
Definition repaired_is_only_meta (f:ofile) (p:nat) : M bool :=
  let* l := of_len f in
  if (l <=? metainfo_size p)%N then (exec of_set_len f 0 in ret true) else ret false.

(* removed_partial_meta_at_end *)
Definition removed_partial_meta_at_end (f:ofile) (p:nat) : M bool :=
  let* l := of_len f in
  if (l <? metainfo_size p)%N then mpanic else
  let check_start := (l - metainfo_size p)%N in
  let* to_check := of_read_at f check_start (metainfo_size p) in
  let ext := to_check ++ [pre0; pre1] ++ repeat x00 p in
  match position (fun ab => is_marker (fst ab) && is_marker (snd ab)) (pairs (chunks (p + 2) ext)) with
  | Some i => exec of_set_len f (check_start + i * line_size p) in ret true
  | None => ret false
  end.

(* removed_start_of_meta_at_end: as coded the iterator is exhausted by `last()`, so
   `take(2).all(..)` is vacuously true and nothing is ever removed; the seek and the read remain *)
Definition removed_start_of_meta_at_end (f:ofile) (p:nat) : M bool :=
  let* l := of_len f in
  if (l <? metainfo_size p)%N then mpanic else
  exec of_read_at f (l - metainfo_size p) (2 * line_size p) in
  ret false.

(* FileWithInlineMeta::new *)
Definition fwim_new (f:ofile) (p:nat) : M unit :=
  let* l := of_len f in
  if (l =? 0)%N then ret tt else
  exec repair_incomplete_last_write f p in
  let* only := repaired_is_only_meta f p in
  if only then ret tt else
  let* removed := removed_partial_meta_at_end f p in
  if removed then ret tt else
  exec removed_start_of_meta_at_end f p in
  ret tt.

(* ---- Data ---- *)
Record data := {
  d_file : ofile; d_p : nat; d_index : index;
  d_len : N;                   (* data_len *)
  d_last : option N            (* last_time *)
}.
Definition set_index (d:data) (ix:index) : data :=
  {| d_file := d_file d; d_p := d_p d; d_index := ix; d_len := d_len d; d_last := d_last d |}.

(* reading through FileWithInlineMeta::read *)
Inductive rd_out := RdOk (l:list line) | RdErr (e:err) | RdPanic.
Definition fwim_read (f:ofile) (p:nat) (cb:cbmode) (start end_ full:N) : M (list line) :=
  let* region := of_read_from f 0 in
  match read_with_processor _ proc_read p cb region start end_ full (0%N, []) with
  | RDone (_, out) => ret (frev out)
  | RStopped _ => mpanic                                    (* "impossible" *)
  | RCorrupt _ => fail ECorrupt
  | RIo _ => fail EOther
  | RPanic => mpanic
  end.
Definition fwim_read_first_n (f:ofile) (p:nat) (cb:cbmode) (n:N) (start end_ full:N) : M (list line) :=
  let* region := of_read_from f 0 in
  match read_with_processor _ (proc_first_n n) p cb region start end_ full (0%N, []) with
  | RDone (_, out) | RStopped (_, out) => ret (frev out)
  | RCorrupt _ => fail ECorrupt
  | RIo _ => fail EOther
  | RPanic => mpanic
  end.
Definition fwim_read_resampling (f:ofile) (p:nat) (cb:cbmode) (bucket:N) (start end_ full:N) : M (list line) :=
  if (bucket =? 0)%N then mpanic else                       (* Sampler::new assert *)
  let* region := of_read_from f 0 in
  let s0 := {| sm_sum := 0; sm_n := 0; sm_state := rs_zero p; sm_out := [] |} in
  match read_with_processor _ (proc_sample p bucket) p cb region start end_ full s0 with
  | RDone s => ret (frev (sm_out s))
  | RStopped _ => mpanic
  | RCorrupt _ => fail ECorrupt
  | RIo _ => fail EOther
  | RPanic => mpanic
  end.

(* free fn last_line *)
Definition last_line_of (ix:index) (data_len:N) (p:nat) (f:ofile) (cb:cbmode) : M line :=
  match ix_last ix with
  | None => fail ENoData
  | Some full =>
      if (data_len <? line_size p)%N then mpanic else
      let* ls := fwim_read f p cb (data_len - line_size p) data_len full in
      match last_opt ls with Some x => ret x | None => fail ENoData end
  end.

(* Data::new (after the fix: the data file is removed again when the index cannot be created) *)
Definition data_new (name:fname) (p:nat) (header:list byte) : M data :=
  let path := name ++ ext_data in
  let* f := fwh_new path header in
  let* dl := of_len f in
  exec fwim_new f p in
  let* ix := mcatch (index_new name) (fun e => exec remove_file path in fail e) in
  ret {| d_file := f; d_p := p; d_index := ix; d_len := dl; d_last := None |}.

(* Data::open_existing *)
Definition data_open (name:fname) (f:ofile) (p:nat) (cb:cbmode) : M data :=
  exec fwim_new f p in
  let* dl := of_len f in
  let last_line_starts := if (dl <? line_size p)%N then None else Some (dl - line_size p)%N in
  let* region := of_read_from f 0 in
  let* last_full := lift (last_meta_timestamp p region) in
  let* ix := mcatch (index_open name last_line_starts last_full)
                    (fun _ => create_from_byteseries f p name) in
  let* lt := mcatch (let* x := last_line_of ix dl p f cb in ret (Some (fst x)))
                    (fun e => match e with ENoData => ret None | _ => fail e end) in
  ret {| d_file := f; d_p := p; d_index := ix; d_len := dl; d_last := lt |}.

(* Data::push_data *)
Definition push_data (d:data) (ts:N) (line:list byte) : M data :=
  let p := d_p d in
  let small : res (option N) :=
    match ix_last (d_index d) with
    | None => Ok None
    | Some last => if (ts <? last)%N then Err EOther        (* OutOfOrder *)
                   else let diff := (ts - last)%N in
                        if (BSgen.Consts.max_small_ts <? diff)%N then Ok None else Ok (Some diff)
    end in
  let* sm := lift small in
  let* (d1, small_ts) :=
    match sm with
    | Some s => ret (d, s)
    | None =>
        let* ix := index_update (d_index d) ts (d_len d) in
        let written := meta_write p (le_enc 8 ts) in
        exec of_append (d_file d) written in
        ret ({| d_file := d_file d; d_p := p; d_index := ix; d_len := (d_len d + len written)%N; d_last := d_last d |}, 0%N)
    end in
  if (len line <? N.of_nat p)%N then mpanic else            (* &line[..payload_size] *)
  exec of_append (d_file d1) (le_enc 2 small_ts ++ firstn p line) in
  ret {| d_file := d_file d1; d_p := p; d_index := d_index d1; d_len := (d_len d1 + line_size p)%N; d_last := Some ts |}.

(* Data::range *)
Definition data_range (d:data) : res (option (N * N)) :=
  match ix_entries (d_index d) with
  | [] => Ok None
  | e :: _ => match d_last d with Some l => Ok (Some (fst e, l)) | None => Panic end
  end.
(* Data::len *)
Definition data_len_lines (d:data) : res N :=
  let lines := (d_len d / line_size (d_p d))%N in
  let meta_lines := (len (ix_entries (d_index d)) * N.of_nat (lines_per_metainfo (d_p d)))%N in
  u64_sub lines meta_lines.
(* Data::clear *)
Definition data_clear (d:data) : M data :=
  exec of_set_len (d_file d) 0 in
  let* ix := index_clear (d_index d) in
  ret {| d_file := d_file d; d_p := d_p d; d_index := ix; d_len := 0; d_last := d_last d |}.
