(* The vocabulary of the public API shared by the specification (Layer S) and the model
   (Layer I): operations, their arguments and their observable results. No behaviour here. *)
From Coq Require Import List NArith Bool.
From Coq Require Import Strings.Byte.
Require Import BS.Common.
Import ListNotations.

Notation fname := (list byte) (only parsing).
Notation line := (N * list byte)%type (only parsing).          (* timestamp, payload *)

Inductive bound := Incl (t:N) | Excl (t:N) | Unb.
Inductive cbmode := CbNone | CbDeny | CbAllow.
Inductive hdropt := HdrAny | HdrIs (h:list byte).

Inductive op :=
| ONew (name:fname) (p:N) (hdr:list byte) (caches:list N) (cb:cbmode)
| OOpen (name:fname) (p:option N) (hdr:hdropt) (caches:list N) (cb:cbmode)
| OClose
| OPush (ts:N) (pay:list byte)
| OReadAll (lo hi:bound)
| OReadFirstN (n:N) (lo hi:bound)
| OReadN (n:N) (lo hi:bound)
| ONLines (lo hi:bound)
| OLastLine | OLen | OIsEmpty | ORange | OPayloadSize
| OFsTrunc (f:fname) (n:N) | OFsRm (f:fname) | OFsWrite (f:fname) (b:list byte) | OFsAppend (f:fname) (b:list byte)
| OFsPatch (f:fname) (from_end:N) (b:list byte)
| OFsCut (f:fname) (n:N).

Inductive out :=
| RUnit
| ROpened (p:N) (hdr:list byte)
| RLines (l:list line)
| RNum (n:N)
| RLine (x:line)
| RBool (b:bool)
| RRange (r:option (N * N))
| RErr (e:err)
| ROPanic
| ROHang.                      (* OutOfFuel: the modelled loop does not terminate within its bound *)
