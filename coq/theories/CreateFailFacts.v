(* C17, "a create that fails for any other reason leaves no new files behind", with cache levels (after the repair of D13b):
   when the files of some requested cache level already exist (a stale cache data file, or only a stale cache index file)
   while the series itself does not, ByteSeries::new_with_resamplers fails and removes again everything it had made - the
   series' data and index file and both files of every level created before the failing one. The resulting directory is,
   file for file, the one before the call; the stale files themselves are not touched. *)
From Coq Require Import List NArith ZArith Lia Bool Arith ZifyBool ZifyN ZifyNat Sorted.
From Coq Require Import Strings.Byte.
Require Import BS.Bytes BS.Common BS.CommonFacts BS.Api BS.Layout BS.Format BS.FormatFacts BS.Spec BS.SpecStep BS.Sections.
Require Import BS.FS BS.FSFacts BS.Meta BS.MetaFacts BS.Header BS.Reader BS.ReaderFacts BS.Index BS.Data BS.DataFacts BS.Seek BS.SeekFacts BS.Series.
Require Import BS.SeriesFacts BS.CacheFacts.
Import ListNotations.
Close Scope N_scope. Open Scope nat_scope.

Definition same_files (a b:fsys) : Prop := forall g, fs_get a g = fs_get b g.

Lemma same_mem a b f : same_files a b -> fs_mem a f = fs_mem b f.
Proof. intros S. rewrite !CacheFacts.fs_mem_get, (S f). reflexivity. Qed.

Lemma mem_same_on (a b:fsys) f : fs_get a f = fs_get b f -> fs_mem a f = fs_mem b f.
Proof. intros G. rewrite !CacheFacts.fs_mem_get, G. reflexivity. Qed.

Lemma fs_get_del_same fs f : fs_get (fs_del fs f) f = None.
Proof. unfold fs_get. rewrite fs_raw_del_same. reflexivity. Qed.
Lemma fs_get_del_other fs f g : g <> f -> fs_get (fs_del fs f) g = fs_get fs g.
Proof. intros N. unfold fs_get. rewrite fs_raw_del_other by exact N. reflexivity. Qed.

(* Data::new when the data file exists: AlreadyExists, nothing touched *)
Lemma data_new_exists fs name p header : fs_mem fs (name ++ ext_data) = true -> (len header <= 65535)%N ->
  data_new name p header fs = (fs, Err EExists).
Proof.
  intros M Hl. unfold data_new, fwh_new.
  replace (65535 <? len header)%N with false by (symmetry; apply N.ltb_ge; exact Hl).
  unfold mbind, create_new. rewrite M. reflexivity.
Qed.

(* Data::new when only the index file exists: the data file is made and removed again *)
Lemma data_new_stale_index fs name p header :
  fs_mem fs (name ++ ext_data) = false -> fs_mem fs (name ++ ext_index) = true -> (len header <= 65535)%N ->
  exists fs', data_new name p header fs = (fs', Err EExists) /\ same_files fs' fs.
Proof.
  intros M1 M2 Hl.
  destruct (fwh_new_ok fs (name ++ ext_data) _ M1 Hl) as (fs1 & E1 & F1 & O1 & OM1).
  assert (FW : fwim_new {| of_name := name ++ ext_data; of_off := (user_header_starts + len header)%N |} p fs1 = (fs1, Ok tt)).
  { unfold fwim_new. erewrite mbind_ok by (apply (of_len_ok _ _ _ _ F1)). reflexivity. }
  assert (M2' : fs_mem fs1 (name ++ ext_index) = true).
  { rewrite OM1; [exact M2|]. apply not_eq_sym. apply ext_data_index_neq. }
  exists (fs_del fs1 (name ++ ext_data)). split.
  - unfold data_new.
    erewrite mbind_ok by exact E1. erewrite mbind_ok by (apply (of_len_ok _ _ _ _ F1)).
    erewrite mbind_ok by exact FW. apply mbind_err.
    assert (IX : index_new name fs1 = (fs1, Err EExists)).
    { unfold index_new, fwh_new. change (65535 <? len (@nil byte))%N with false. cbn iota.
      apply mbind_err. apply mbind_err. unfold create_new. rewrite M2'. reflexivity. }
    unfold mcatch. rewrite IX. unfold mbind, remove_file, fail. reflexivity.
  - intros g. destruct (list_eq_dec Byte.byte_eq_dec g (name ++ ext_data)) as [->|N].
    + rewrite fs_get_del_same. symmetry. apply SeriesFacts.fs_mem_get. exact M1.
    + rewrite fs_get_del_other by exact N. apply O1. exact N.
Qed.

Section Fail.
Variable p : nat.

Definition level_free (fs:fsys) (name:fname) (B:N) : Prop :=
  (1 <= B)%N /\ (len (config_header name B) <= 65535)%N
  /\ fs_mem fs (cache_name name B ++ ext_data) = false /\ fs_mem fs (cache_name name B ++ ext_index) = false.
Definition level_stale (fs:fsys) (name:fname) (B:N) : Prop :=
  (len (config_header name B) <= 65535)%N
  /\ (fs_mem fs (cache_name name B ++ ext_data) = true
      \/ (fs_mem fs (cache_name name B ++ ext_data) = false /\ fs_mem fs (cache_name name B ++ ext_index) = true)).

(* DownSampledData::create on a level whose files are stale *)
Lemma ds_create_stale fs name B source cb : level_stale fs name B ->
  exists fs', ds_create name B p source cb fs = (fs', Err EExists) /\ same_files fs' fs.
Proof.
  intros (Hl & [M|[M1 M2]]).
  - exists fs. split; [|intros g; reflexivity]. unfold ds_create, ds_new.
    apply mbind_err. apply mbind_err. apply data_new_exists; assumption.
  - destruct (data_new_stale_index fs (cache_name name B) p (config_header name B) M1 M2 Hl) as (fs' & E & S).
    exists fs'. split; [|exact S]. unfold ds_create, ds_new. apply mbind_err. apply mbind_err. exact E.
Qed.

Lemma level_free_same a b name B : same_files a b -> level_free b name B -> level_free a name B.
Proof. intros S (A1 & A2 & M1 & M2). unfold level_free. rewrite !(same_mem a b _ S). repeat (split; [assumption|]). assumption. Qed.
Lemma level_stale_same a b name B : same_files a b -> level_stale b name B -> level_stale a name B.
Proof. intros S (A1 & M). unfold level_stale. rewrite !(same_mem a b _ S). split; assumption. Qed.

(* the loop over the levels: the first stale level makes it fail, and what the earlier levels had made is gone again *)
Theorem create_caches_stale name source cb (B:N) (Bs2:list N) : ix_entries (d_index source) = [] ->
  forall (Bs1:list N) fs,
  Forall (level_free fs name) Bs1 -> level_stale fs name B ->
  NoDup (flat_map (cache_names name) (Bs1 ++ [B])) ->
  exists fs', create_caches name p source cb (Bs1 ++ B :: Bs2) fs = (fs', Err EExists) /\ same_files fs' fs.
Proof.
  intros EE. induction Bs1 as [|B0 t IH]; intros fs F ST ND.
  - cbn [app create_caches]. destruct (ds_create_stale fs name B source cb ST) as (fs' & E & S).
    exists fs'. split; [apply mbind_err; exact E|exact S].
  - inversion F as [|? ? (HB & Hl & M1 & M2) Ft]; subst.
    cbn [app flat_map] in ND. apply NoDup_app_inv in ND. destruct ND as (ND1 & NDt & DIS).
    destruct (ds_create_empty p fs name B0 source cb EE HB M1 M2 Hl) as (fs1 & ds & E & _ & _ & Oth).
    assert (OTH : forall B', In B' (t ++ [B]) -> forall g, In g (cache_names name B') -> fs_get fs1 g = fs_get fs g).
    { intros B' HB' g Hg. apply Oth. intros Q. apply (DIS g Q). apply in_flat_map. exists B'. split; assumption. }
    assert (Ft1 : Forall (level_free fs1 name) t).
    { apply Forall_forall. intros B' HB'. rewrite Forall_forall in Ft. destruct (Ft B' HB') as (A1 & A2 & A3 & A4).
      assert (HI : In B' (t ++ [B])) by (apply in_or_app; left; exact HB').
      pose proof (OTH B' HI (cache_name name B' ++ ext_data) ltac:(cbn [cache_names In]; auto)) as G1.
      pose proof (OTH B' HI (cache_name name B' ++ ext_index) ltac:(cbn [cache_names In]; auto)) as G2.
      unfold level_free. rewrite (mem_same_on _ _ _ G1), (mem_same_on _ _ _ G2). repeat (split; [assumption|]). assumption. }
    assert (ST1 : level_stale fs1 name B).
    { destruct ST as (A1 & A2).
      assert (HI : In B (t ++ [B])) by (apply in_or_app; right; left; reflexivity).
      pose proof (OTH B HI (cache_name name B ++ ext_data) ltac:(cbn [cache_names In]; auto)) as G1.
      pose proof (OTH B HI (cache_name name B ++ ext_index) ltac:(cbn [cache_names In]; auto)) as G2.
      unfold level_stale. rewrite (mem_same_on _ _ _ G1), (mem_same_on _ _ _ G2). split; assumption. }
    destruct (IH fs1 Ft1 ST1 NDt) as (fs2 & E2 & S2).
    cbn [app create_caches]. erewrite mbind_ok by exact E.
    exists (fs_del (fs_del fs2 (cache_name name B0 ++ ext_data)) (cache_name name B0 ++ ext_index)). split.
    + apply mbind_err. unfold mcatch. rewrite E2. unfold remove_pair, mbind, remove_file, fail. reflexivity.
    + intros g.
      destruct (list_eq_dec Byte.byte_eq_dec g (cache_name name B0 ++ ext_index)) as [->|N2].
      { rewrite fs_get_del_same. symmetry. apply SeriesFacts.fs_mem_get. exact M2. }
      rewrite fs_get_del_other by exact N2.
      destruct (list_eq_dec Byte.byte_eq_dec g (cache_name name B0 ++ ext_data)) as [->|N1].
      { rewrite fs_get_del_same. symmetry. apply SeriesFacts.fs_mem_get. exact M1. }
      rewrite fs_get_del_other by exact N1. rewrite (S2 g). apply Oth.
      intros [Q|[Q|[]]]; congruence.
Qed.

(* ByteSeries::new_with_resamplers: a stale file of some cache level -> an error, and no residue *)
Theorem new_stale_cache fs name hdr cb (Bs1 Bs2:list N) (B:N) :
  let header := params_to_text BSgen.Consts.version (N.of_nat p) ++ hdr in
  fs_mem fs (name ++ ext_data) = false -> fs_mem fs (name ++ ext_index) = false -> (len header <= 65535)%N ->
  Forall (level_free fs name) Bs1 -> level_stale fs name B ->
  NoDup ([name ++ ext_data; name ++ ext_index] ++ flat_map (cache_names name) (Bs1 ++ [B])) ->
  exists fs', series_new name (N.of_nat p) hdr (Bs1 ++ B :: Bs2) cb fs = (fs', Err EExists) /\ same_files fs' fs.
Proof.
  intros header M1 M2 Hl F ST ND. unfold series_new. fold header. rewrite Nat2N.id.
  destruct (data_new_ok fs name p header M1 M2 Hl) as (fs1 & d & E & RD & N1 & N2 & Oth).
  erewrite mbind_ok by exact E.
  change ([name ++ ext_data; name ++ ext_index] ++ flat_map (cache_names name) (Bs1 ++ [B]))
    with ((name ++ ext_data) :: (name ++ ext_index) :: flat_map (cache_names name) (Bs1 ++ [B])) in ND.
  inversion ND as [|? ? NI1 ND']; subst. inversion ND' as [|? ? NI2 NDc]; subst.
  assert (OTH : forall B', In B' (Bs1 ++ [B]) -> forall g, In g (cache_names name B') -> fs_get fs1 g = fs_get fs g).
  { intros B' HB' g Hg. apply Oth; intros Q; subst g.
    - apply NI1. right. apply in_flat_map. exists B'. split; assumption.
    - apply NI2. apply in_flat_map. exists B'. split; assumption. }
  assert (F1 : Forall (level_free fs1 name) Bs1).
  { apply Forall_forall. intros B' HB'. rewrite Forall_forall in F. destruct (F B' HB') as (A1 & A2 & A3 & A4).
    assert (HI : In B' (Bs1 ++ [B])) by (apply in_or_app; left; exact HB').
    pose proof (OTH B' HI (cache_name name B' ++ ext_data) ltac:(cbn [cache_names In]; auto)) as G1.
    pose proof (OTH B' HI (cache_name name B' ++ ext_index) ltac:(cbn [cache_names In]; auto)) as G2.
    unfold level_free. rewrite (mem_same_on _ _ _ G1), (mem_same_on _ _ _ G2). repeat (split; [assumption|]). assumption. }
  assert (ST1 : level_stale fs1 name B).
  { destruct ST as (A1 & A2).
    assert (HI : In B (Bs1 ++ [B])) by (apply in_or_app; right; left; reflexivity).
    pose proof (OTH B HI (cache_name name B ++ ext_data) ltac:(cbn [cache_names In]; auto)) as G1.
    pose proof (OTH B HI (cache_name name B ++ ext_index) ltac:(cbn [cache_names In]; auto)) as G2.
    unfold level_stale. rewrite (mem_same_on _ _ _ G1), (mem_same_on _ _ _ G2). split; assumption. }
  assert (EE : ix_entries (d_index d) = []).
  { rewrite (rd_entries _ _ _ _ _ _ _ _ RD). apply sections_nil. }
  destruct (create_caches_stale name d cb B Bs2 EE Bs1 fs1 F1 ST1 NDc) as (fs2 & E2 & S2).
  exists (fs_del (fs_del fs2 (name ++ ext_data)) (name ++ ext_index)). split.
  - apply mbind_err. unfold mcatch. rewrite E2. unfold remove_pair, mbind, remove_file, fail. reflexivity.
  - intros g.
    destruct (list_eq_dec Byte.byte_eq_dec g (name ++ ext_index)) as [->|G2].
    { rewrite fs_get_del_same. symmetry. apply SeriesFacts.fs_mem_get. exact M2. }
    rewrite fs_get_del_other by exact G2.
    destruct (list_eq_dec Byte.byte_eq_dec g (name ++ ext_data)) as [->|G1].
    { rewrite fs_get_del_same. symmetry. apply SeriesFacts.fs_mem_get. exact M1. }
    rewrite fs_get_del_other by exact G1. rewrite (S2 g). apply Oth; assumption.
Qed.
End Fail.
