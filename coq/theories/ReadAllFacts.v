(* C02 for the model: ByteSeries::read_all with any pair of bounds returns exactly the stored lines
   that satisfy both bounds (Spec.select), or an empty answer / range error when there is none. *)
From Coq Require Import List NArith ZArith Lia Bool Arith ZifyBool ZifyN ZifyNat Sorted.
From Coq Require Import Strings.Byte.
Require Import BS.Bytes BS.Common BS.CommonFacts BS.Api BS.Layout BS.Format BS.FormatFacts BS.Sections.
Require Import BS.FS BS.FSFacts BS.Meta BS.MetaFacts BS.Header BS.Reader BS.ReaderFacts BS.Index BS.Data BS.DataFacts.
Require Import BS.Seek BS.SeekFacts BS.RangeFacts BS.RangeRead BS.Series BS.SeriesFacts BS.Spec BS.SpecStep BS.SampleFacts.
Import ListNotations.
Close Scope N_scope. Open Scope nat_scope.
Arguments N.add : simpl never. Arguments N.mul : simpl never. Arguments N.sub : simpl never.
Arguments N.ltb : simpl never. Arguments N.leb : simpl never. Arguments N.eqb : simpl never.
Arguments N.max : simpl never. Arguments N.min : simpl never.

(* ---- every timestamp from the first full timestamp on belongs to some section ---- *)
Lemma locate_exists p : forall ss k, good_secs p ss -> ss <> [] -> (fst (hd (0%N, []) ss) <= k)%N ->
  exists pre f ls post, located ss pre f ls post k.
Proof.
  induction ss as [|[f ls] t IH]; intros k G NE Hk; [congruence|]. cbn [hd fst] in Hk.
  destruct t as [|[f2 l2] t'].
  - exists [], f, ls, []. repeat split; auto.
  - destruct (N.lt_ge_cases k f2) as [H|H].
    + exists [], f, ls, ((f2, l2) :: t'). repeat split; auto.
    + cbn [good_secs] in G. destruct G as (_ & _ & G).
      destruct (IH k G ltac:(discriminate) H) as (pre & f0 & ls0 & post & (E & A & B)).
      exists ((f, ls) :: pre), f0, ls0, post. split; [cbn [app]; rewrite E; reflexivity|split; assumption].
Qed.

(* ---- filtering a sorted list by a closed range ---- *)
Lemma filter_range_sorted s e : forall (l:list line), StronglySorted N.lt (map fst l) -> (s <= e)%N ->
  filter (fun x => (s <=? fst x)%N && (fst x <=? e)%N) l = firstn (count_le e l - count_lt s l) (skipn (count_lt s l) l).
Proof.
  induction l as [|y t IH]; intros S Hse; [reflexivity|]. cbn [map] in S. inversion S as [|? ? St Hall]; subst.
  cbn [filter count_lt count_le]. rewrite Forall_map in Hall.
  destruct (fst y <? s)%N eqn:C1.
  - apply N.ltb_lt in C1. replace (s <=? fst y)%N with false by (symmetry; apply N.leb_gt; exact C1).
    replace (fst y <=? e)%N with true by (symmetry; apply N.leb_le; lia). cbn [andb skipn].
    rewrite IH by assumption. reflexivity.
  - apply N.ltb_ge in C1. replace (s <=? fst y)%N with true by (symmetry; apply N.leb_le; exact C1). cbn [skipn andb].
    assert (Z : count_lt s t = 0).
    { destruct t as [|z t']; [reflexivity|]. cbn [count_lt]. inversion Hall; subst.
      replace (fst z <? s)%N with false by (symmetry; apply N.ltb_ge; cbn beta in *; lia). reflexivity. }
    destruct (fst y <=? e)%N eqn:C2.
    + rewrite Nat.sub_0_r. cbn [firstn]. f_equal. rewrite IH by assumption. rewrite Z, Nat.sub_0_r. reflexivity.
    + apply N.leb_gt in C2. cbn [Nat.sub firstn].
      clear -Hall C2. induction t as [|z t IHt]; [reflexivity|]. inversion Hall; subst. cbn [filter].
      replace (fst z <=? e)%N with false by (symmetry; apply N.leb_gt; cbn beta in *; lia). rewrite andb_false_r. apply IHt. assumption.
Qed.

Lemma filter_ext_in {A} (f g:A -> bool) (l:list A) : Forall (fun x => f x = g x) l -> filter f l = filter g l.
Proof. induction 1 as [|x t Hx _ IH]; [reflexivity|]. cbn [filter]. rewrite Hx, IH. reflexivity. Qed.
Lemma filter_none {A} (f:A -> bool) (l:list A) : Forall (fun x => f x = false) l -> filter f l = [].
Proof. induction 1 as [|x t Hx _ IH]; [reflexivity|]. cbn [filter]. rewrite Hx. exact IH. Qed.

Lemma filter_wf p (f:(N * list byte) -> bool) : forall (l:list line), wf_series p l -> wf_series p (filter f l).
Proof.
  intros l [S F]. split.
  - clear F. induction l as [|y t IH]; [constructor|]. cbn [map] in S. inversion S as [|? ? St Hall]; subst.
    cbn [filter]. destruct (f y); [|apply IH; exact St].
    cbn [map]. constructor; [apply IH; exact St|]. rewrite Forall_map in *.
    clear -Hall. induction t as [|z t IHt]; [constructor|]. inversion Hall; subst. cbn [filter].
    destruct (f z); [constructor; auto|auto].
  - clear S. induction F as [|y t Hy _ IH]; [constructor|]. cbn [filter].
    destruct (f y); [constructor; assumption|assumption].
Qed.

Lemma refine_parts' fs d p (r:rough) (sb eb:nat) : d_p d = p ->
  start_comp d p r fs = (fs, Ok (N.of_nat sb)) -> end_comp d p r fs = (fs, Ok (N.of_nat eb)) ->
  refine r d fs = (fs, Ok (if eb <=? sb then None
                           else Some {| p_start := N.of_nat sb; p_end := N.of_nat eb; p_full := start_full r |})).
Proof.
  intros Hp HS HE. unfold refine. rewrite Hp. unfold start_comp in HS. unfold end_comp in HE.
  erewrite mbind_ok by exact HS. erewrite mbind_ok by exact HE.
  replace (N.of_nat eb <=? N.of_nat sb)%N with (eb <=? sb).
  2:{ destruct (eb <=? sb) eqn:C; symmetry; [apply N.leb_le; apply Nat.leb_le in C; lia|apply N.leb_gt; apply Nat.leb_gt in C; lia]. }
  destruct (eb <=? sb); reflexivity.
Qed.

Section ReadAll.
Variables (fs:fsys) (sr:series) (p:nat) (hdr ihdr:list byte) (l:list line).
Hypothesis R : RepH fs sr p hdr ihdr l.

(* what the two bounds mean as inclusive timestamps, when they mean anything *)
Definition lo_ts (lo:bound) (first:N) : option N :=
  match lo with Incl t => Some t | Excl t => if (t + 1 <? U64)%N then Some (t + 1)%N else None | Unb => Some first end.
Definition hi_ts (hi:bound) (last:N) : option N :=
  match hi with Incl t => Some t | Excl t => if (t =? 0)%N then None else Some (t - 1)%N | Unb => Some last end.

Lemma all_lines_in_range x t : l = x :: t -> wf_series p l ->
  Forall (fun y => (fst x <= fst y)%N /\ (fst y <= fst (last t x))%N /\ (fst y < U64)%N) l.
Proof.
  intros E [S F]. pose proof (sorted_le_last l (last t x) S ltac:(rewrite E; reflexivity)) as LE.
  rewrite E in *. cbn [map] in S. inversion S as [|? ? _ Hall]; subst. rewrite Forall_map in Hall.
  rewrite Forall_forall in *. intros y Hy. specialize (LE y Hy). specialize (F y Hy).
  split; [|split; [exact LE|apply F]].
  destruct Hy as [<-|Hy]; [lia|]. specialize (Hall y Hy). cbn beta in Hall. lia.
Qed.

(* what a successful seek guarantees: nothing selected, or a byte range whose scan (by any processor,
   under any chunking) hands the processor exactly the selected lines *)
Definition seek_good (cb0:cbmode) (ps:option pos) (sel:list line) : Prop :=
  match ps with
  | None => sel = []
  | Some q => (exists sp ep, p_start q = N.of_nat sp /\ p_end q = N.of_nat ep /\ sp < ep
                             /\ ep - sp = slots_from p (Some (p_full q)) sel * (p + 2) /\ ok_from p (Some (p_full q)) sel)
              /\ forall (St:Type) (proc:St -> N -> list byte -> pres St) (acc:St),
                   read_with_processor St proc p cb0 (encode p l) (p_start q) (p_end q) (p_full q) acc
                   = match feed St proc acc sel with PCont a0 => RDone a0 | PStop a0 => RStopped a0 | PPanic => RPanic end
  end.

Theorem seek_ok cb0 lo hi :
  (exists ps, seek_pos (s_data sr) lo hi fs = (fs, Ok ps) /\ seek_good cb0 ps (select lo hi l))
  \/ (select lo hi l = [] /\ seek_pos (s_data sr) lo hi fs = (fs, Err ERange)).
Proof.
  destruct R as [RD W RR RDn].
  destruct l as [|x t] eqn:El.
  { (* empty series: EmptyFile *)
    right. split; [reflexivity|]. unfold seek_pos, rough_new, checked_start_time, data_range.
    rewrite (rd_entries _ _ _ _ _ _ _ _ RD). rewrite (sections_encode p [] W). reflexivity. }
  rewrite <- El in *.
  set (ts0 := fst x). set (lastts := fst (last t x)).
  destruct (full_after_cons_none p x t) as [f' FA]. rewrite El in RD. rewrite FA in RD.
  change (option_map fst (last_opt (x :: t))) with (Some lastts) in RD. rewrite <- El in RD.
  pose proof (all_lines_in_range x t El W) as INR. fold ts0 lastts in INR.
  destruct (main_facts p l W) as (G & EB & ER & HB).
  set (ss := secs_of l) in *.
  assert (SS0 : exists ls0 t0, ss = (ts0, ls0) :: t0).
  { unfold ss. rewrite El, secs_of_cons. eauto. }
  destruct SS0 as (ls0 & t0 & ESS).
  assert (DR : data_range (s_data sr) = Ok (Some (ts0, lastts))).
  { unfold data_range. rewrite (rd_entries _ _ _ _ _ _ _ _ RD), (sections_encode p l W), (secs_from_sections p l 0).
    fold ss. rewrite ESS. cbn [ents fst]. rewrite (rd_last _ _ _ _ _ _ _ _ RD). reflexivity. }
  assert (FL : (ts0 <= lastts)%N).
  { rewrite Forall_forall in INR. specialize (INR x ltac:(rewrite El; left; reflexivity)). lia. }
  (* the bounds as timestamps *)
  unfold seek_pos, rough_new, checked_start_time, checked_end_time. rewrite DR. cbn [bind].
  destruct (lo_ts lo ts0) as [s0|] eqn:LO.
  2:{ (* Excluded(u64::MAX): nothing can follow *)
      right. destruct lo as [tl|tl|]; cbn [lo_ts] in LO; try discriminate.
      destruct (tl + 1 <? U64)%N eqn:C; [discriminate|]. cbn [bind]. split; [|reflexivity].
      unfold select. apply filter_none. eapply Forall_impl; [|exact INR]. intros y (_ & _ & H). cbn [sat_lo].
      apply N.ltb_ge in C. replace (tl <? fst y)%N with false by (symmetry; apply N.ltb_ge; lia). reflexivity. }
  assert (LOE : (match lo with
                 | Incl ts => Ok ts
                 | Excl ts => if (ts + 1 <? U64)%N then Ok (ts + 1)%N else Err ERange
                 | Unb => Ok ts0 end) = Ok s0).
  { destruct lo as [tl|tl|]; cbn [lo_ts] in LO; try (inversion LO; reflexivity).
    destruct (tl + 1 <? U64)%N; inversion LO. reflexivity. }
  rewrite LOE. cbn [bind].
  assert (SLO : forall y:(N * list byte), (ts0 <= fst y)%N -> sat_lo lo (fst y) = (N.max s0 ts0 <=? fst y)%N).
  { intros y Hy. destruct lo as [tl|tl|]; cbn [lo_ts sat_lo] in *.
    - inversion LO; subst. apply eq_true_iff_eq. rewrite !N.leb_le. lia.
    - destruct (tl + 1 <? U64)%N; inversion LO; subst. apply eq_true_iff_eq. rewrite N.ltb_lt, N.leb_le. lia.
    - inversion LO; subst. symmetry. apply N.leb_le. lia. }
  set (s := N.max s0 ts0) in *.
  destruct (lastts <? s)%N eqn:CS.
  { (* StartAfterData *)
    right. cbn [bind]. split; [|reflexivity]. apply N.ltb_lt in CS.
    unfold select. apply filter_none. eapply Forall_impl; [|exact INR]. intros y (H1 & H2 & _). cbn beta.
    rewrite (SLO y H1). replace (s <=? fst y)%N with false by (symmetry; apply N.leb_gt; lia). reflexivity. }
  apply N.ltb_ge in CS. cbn [bind].
  destruct (hi_ts hi lastts) as [e0|] eqn:HI.
  2:{ right. destruct hi as [th|th|]; cbn [hi_ts] in HI; try discriminate.
      destruct (th =? 0)%N eqn:C; [|discriminate]. cbn [bind]. split; [|reflexivity].
      apply N.eqb_eq in C. subst th. unfold select. apply filter_none. eapply Forall_impl; [|exact INR]. intros y _. cbn [sat_hi].
      replace (fst y <? 0)%N with false by (symmetry; apply N.ltb_ge; lia). apply andb_false_r. }
  assert (HIE : (match hi with
                 | Incl ts => Ok ts
                 | Excl ts => if (ts =? 0)%N then Err ERange else Ok (ts - 1)%N
                 | Unb => Ok lastts end) = Ok e0).
  { destruct hi as [th|th|]; cbn [hi_ts] in HI; try (inversion HI; reflexivity).
    destruct (th =? 0)%N; inversion HI. reflexivity. }
  rewrite HIE. cbn [bind].
  assert (SHI : forall y:(N * list byte), (fst y <= lastts)%N -> sat_hi hi (fst y) = (fst y <=? N.min e0 lastts)%N).
  { intros y Hy. destruct hi as [th|th|]; cbn [hi_ts sat_hi] in *.
    - inversion HI; subst. apply eq_true_iff_eq. rewrite !N.leb_le. lia.
    - destruct (th =? 0)%N eqn:C; inversion HI; subst. apply N.eqb_neq in C. apply eq_true_iff_eq. rewrite N.ltb_lt, N.leb_le. lia.
    - inversion HI; subst. symmetry. apply N.leb_le. lia. }
  set (e := N.min e0 lastts) in *.
  destruct (e <? ts0)%N eqn:CE.
  { right. cbn [bind]. split; [|reflexivity]. apply N.ltb_lt in CE.
    unfold select. apply filter_none. eapply Forall_impl; [|exact INR]. intros y (H1 & H2 & _). cbn beta.
    rewrite (SHI y H2). replace (fst y <=? e)%N with false by (symmetry; apply N.leb_gt; lia). apply andb_false_r. }
  apply N.ltb_ge in CE. cbn [bind].
  destruct (e <? s)%N eqn:CSE.
  { right. split; [|reflexivity]. apply N.ltb_lt in CSE.
    unfold select. apply filter_none. eapply Forall_impl; [|exact INR]. intros y (H1 & H2 & _). cbn beta.
    rewrite (SLO y H1), (SHI y H2).
    destruct (s <=? fst y)%N eqn:A; [|reflexivity]. apply N.leb_le in A.
    replace (fst y <=? e)%N with false by (symmetry; apply N.leb_gt; lia). reflexivity. }
  apply N.ltb_ge in CSE.
  (* the selection *)
  assert (SEL : select lo hi l = firstn (count_le e l - count_lt s l) (skipn (count_lt s l) l)).
  { unfold select. rewrite <- (filter_range_sorted s e l (proj1 W) CSE). apply filter_ext_in.
    eapply Forall_impl; [|exact INR]. intros y (H1 & H2 & _). cbn beta. rewrite (SLO y H1), (SHI y H2). reflexivity. }
  (* the sections of the two bounds *)
  destruct (locate_exists p ss s G ltac:(rewrite ESS; discriminate) ltac:(rewrite ESS; cbn [hd fst]; unfold s; lia))
    as (pre_s & f_s & ls_s & post_s & Ls).
  destruct (locate_exists p ss e G ltac:(rewrite ESS; discriminate) ltac:(rewrite ESS; cbn [hd fst]; lia))
    as (pre_e & f_e & ls_e & post_e & Le).
  (* the last line belongs to the last section, within its reach *)
  assert (REACH : forall pre f ls post k, located ss pre f ls post k -> (k <= lastts)%N -> post = [] -> (k - f <= MAXD)%N).
  { intros pre f ls post k (E & Hf & _) Hk ->.
    assert (Gk : good_secs p (pre ++ [(f, ls)])) by (rewrite <- E; exact G).
    destruct (sec_facts (s_data sr) p pre f ls [] (rd_p _ _ _ _ _ _ _ _ RD) Gk) as ((pay & r & Els) & F & _).
    assert (INL : In (last t x) ls).
    { assert (LL : l = bodies pre ++ ls) by (rewrite <- EB, E, bodies_app; unfold bodies at 2; cbn [map concat snd]; rewrite app_nil_r; reflexivity).
      assert (LA : last l x = last t x) by (rewrite El; apply Layout.last_cons).
      rewrite <- LA, LL. rewrite Els. rewrite last_app_cons. apply last_in_cons. }
    rewrite Forall_forall in F. destruct (F _ INL) as (_ & H & _). fold lastts in H. unfold MAXD in *. lia. }
  pose proof (REACH _ _ _ _ _ Ls CS) as Hs_reach. pose proof (REACH _ _ _ _ _ Le ltac:(unfold e; lia)) as He_reach.
  (* the rough position is the one of refine_spec: compute the two search areas *)
  destruct Ls as (Es & Hfs & Hns). destruct Le as (Ee & Hfe & Hne).
  assert (Gs : good_secs p (pre_s ++ (f_s, ls_s) :: post_s)) by (rewrite <- Es; exact G).
  assert (Ge : good_secs p (pre_e ++ (f_e, ls_e) :: post_e)) by (rewrite <- Ee; exact G).
  assert (PB : forall pre f ls post, ss = pre ++ (f, ls) :: post -> forall f2 l2 post', post = (f2, l2) :: post' -> (f2 < 2 ^ 64)%N).
  { intros pre f ls post E f2 l2 post' EP. rewrite E, EP in HB. apply Forall_app in HB. destruct HB as [_ H].
    inversion H as [|? ? _ H2]; subst. inversion H2; subst. assumption. }
  pose proof (start_area_spec p pre_s f_s ls_s post_s Gs s Hfs Hns (PB _ _ _ _ Es)) as SA.
  pose proof (end_area_spec p pre_e f_e ls_e post_e Ge e Hfe Hne (PB _ _ _ _ Ee)) as EA.
  rewrite <- Es in SA. rewrite <- Ee in EA.
  assert (ENT : ix_entries (d_index (s_data sr)) = ents p 0 ss).
  { rewrite (rd_entries _ _ _ _ _ _ _ _ RD), (sections_encode p l W). apply secs_from_sections. }
  rewrite ENT, (rd_p _ _ _ _ _ _ _ _ RD).
  (* apply the core theorem to the record rough_new builds *)
  assert (CORE : forall r,
            refine r (s_data sr) fs = (fs, Ok (if end_pos p pre_e ls_e e <=? start_pos p pre_s f_s ls_s post_s s then None
                           else Some {| p_start := N.of_nat (start_pos p pre_s f_s ls_s post_s s);
                                        p_end := N.of_nat (end_pos p pre_e ls_e e);
                                        p_full := start_full_of f_s post_s s |})) ->
            exists ps, mcatch (refine r (s_data sr)) (fun _ => fail ERange) fs = (fs, Ok ps) /\ seek_good cb0 ps (select lo hi l)).
  { intros r HR.
    destruct (range_read_core fs (s_data sr) p hdr ihdr l f' lastts cb0 RD W pre_s f_s ls_s post_s s pre_e f_e ls_e post_e e
                (conj Es (conj Hfs Hns)) (conj Ee (conj Hfe Hne)) CSE Hs_reach He_reach r HR) as (ps & E1 & E2).
    exists ps. split; [apply mcatch_ok; exact E1|]. rewrite SEL. exact E2. }
  left.
  pose proof (rd_p _ _ _ _ _ _ _ _ RD) as Rp.
  assert (Rf : file_is fs (d_file (s_data sr)) hdr (concat (map (sec_bytes p) ss))) by (rewrite <- ER; exact (rd_file _ _ _ _ _ _ _ _ RD)).
  assert (Rl : d_len (s_data sr) = len (concat (map (sec_bytes p) ss))) by (rewrite <- ER; exact (rd_len _ _ _ _ _ _ _ _ RD)).
  set (sp := start_pos p pre_s f_s ls_s post_s s) in *. set (ep := end_pos p pre_e ls_e e) in *.
  (* the start half *)
  assert (SAF : exists A_s, (match lo with
                            | Unb => match ents p 0 ss with [] => Panic | e1 :: _ => Ok (SFound (line_start p 0), fst e1) end
                            | _ => start_search_bounds (ents p 0 ss) p s
                            end) = Ok (A_s, start_full_of f_s post_s s)
                 /\ forall r, start_ts r = s -> start_area_ r = A_s -> start_full r = start_full_of f_s post_s s ->
                              start_comp (s_data sr) p r fs = (fs, Ok (N.of_nat sp))).
  { assert (BOUNDED : start_search_bounds (ents p 0 ss) p s = Ok (fst (start_area_of p pre_s f_s ls_s post_s s), start_full_of f_s post_s s)).
    { rewrite SA. unfold start_area_of, start_full_of. destruct (f_s =? s)%N; [reflexivity|].
      destruct post_s as [|[f2 l2] post']; [reflexivity|]. destruct (f_s + MAXD <? s)%N; reflexivity. }
    assert (SPEC : forall r, start_ts r = s -> start_area_ r = fst (start_area_of p pre_s f_s ls_s post_s s) ->
                     start_full r = start_full_of f_s post_s s -> start_comp (s_data sr) p r fs = (fs, Ok (N.of_nat sp))).
    { intros r E1 E2 E3. exact (start_byte_spec fs (s_data sr) p hdr ss Rp Rf Rl G pre_s f_s ls_s post_s s pre_e f_e ls_e post_e e
                                 (conj Es (conj Hfs Hns)) (conj Ee (conj Hfe Hne)) Hs_reach He_reach r E1 E2 E3). }
    destruct lo as [tl|tl|]; try (eexists; split; [exact BOUNDED|exact SPEC]).
    (* unbounded start: s is the first timestamp, its section is the first one *)
    assert (S0 : s = ts0) by (cbn [lo_ts] in LO; inversion LO; subst; unfold s; lia).
    assert (PRE : pre_s = [] /\ f_s = ts0).
    { destruct pre_s as [|s1 pre'].
      - rewrite ESS in Es. cbn [app] in Es. inversion Es. split; reflexivity.
      - exfalso. pose proof (good_before p _ _ _ Gs) as GBf. inversion GBf as [|? ? H1 _]; subst.
        rewrite ESS in Es. cbn [app] in Es. inversion Es; subst. cbn [fst] in H1. lia. }
    destruct PRE as [-> ->]. rewrite ESS. cbn [ents fst].
    exists (SFound (line_start p 0)). split.
    - unfold start_full_of. rewrite S0, N.eqb_refl. reflexivity.
    - intros r E1 E2 E3. apply SPEC; [exact E1| |exact E3]. rewrite E2. unfold start_area_of. rewrite S0, N.eqb_refl. cbn [fst].
      f_equal. unfold line_start, metainfo_size, line_size. rewrite K_eq. cbn [slots_of]. lia. }
  (* the end half *)
  assert (EAF : exists A_e F_e, (match hi with
                                | Unb => if (d_len (s_data sr) <? line_size p)%N then Panic
                                         else match ix_last (d_index (s_data sr)) with
                                              | Some l0 => Ok (EFound (d_len (s_data sr) - line_size p)%N, l0)
                                              | None => Panic
                                              end
                                | _ => end_search_bounds (ents p 0 ss) p e
                                end) = Ok (A_e, F_e)
                 /\ forall r, end_ts r = e -> end_area_ r = A_e -> end_full r = F_e ->
                              end_comp (s_data sr) p r fs = (fs, Ok (N.of_nat ep))).
  { assert (BOUNDED : end_search_bounds (ents p 0 ss) p e = Ok (fst (end_area_of p pre_e f_e ls_e post_e e), f_e)).
    { rewrite EA. unfold end_area_of. destruct (f_e =? e)%N; [reflexivity|].
      destruct post_e as [|[f2 l2] post']; [reflexivity|]. destruct (f_e + MAXD <? e)%N; reflexivity. }
    assert (SPEC : forall r, end_ts r = e -> end_area_ r = fst (end_area_of p pre_e f_e ls_e post_e e) ->
                     end_full r = f_e -> end_comp (s_data sr) p r fs = (fs, Ok (N.of_nat ep))).
    { intros r E1 E2 E3. exact (end_byte_spec fs (s_data sr) p hdr ss Rp Rf Rl G pre_s f_s ls_s post_s s pre_e f_e ls_e post_e e
                                 (conj Es (conj Hfs Hns)) (conj Ee (conj Hfe Hne)) Hs_reach He_reach r E1 E2 E3). }
    destruct hi as [th|th|]; try (eexists; eexists; split; [exact BOUNDED|exact SPEC]).
    (* unbounded end: e is the last timestamp; it lies in the last section, after all its lines *)
    assert (E0 : e = lastts) by (cbn [hi_ts] in HI; inversion HI; subst; unfold e; lia).
    destruct (sec_facts (s_data sr) p pre_e f_e ls_e post_e Rp Ge) as ((pay_e & r_e & Els_e) & F_e & S_e & _ & _).
    assert (INB : forall y, In y ls_e -> In y l).
    { intros y Hy. rewrite <- EB, Ee, bodies_app. apply in_or_app. right. unfold bodies. cbn [map concat snd]. apply in_or_app. left. exact Hy. }
    assert (POSTE : post_e = []).
    { destruct post_e as [|[f2 l2] post']; [reflexivity|exfalso].
      assert (O2 : sec_ok p (f2, l2)). { apply good_app_inv in Ge. destruct Ge as [_ G2]. cbn [good_secs] in G2. apply G2. }
      destruct O2 as ((pay2 & r2 & El2) & _).
      assert (IN2 : In (f2, pay2) l).
      { rewrite <- EB, Ee, bodies_app. apply in_or_app. right. unfold bodies. cbn [map concat snd]. apply in_or_app. right.
        apply in_or_app. left. rewrite El2. left. reflexivity. }
      rewrite Forall_forall in INR. destruct (INR _ IN2) as (_ & H & _). cbn [fst] in H. lia. }
    assert (CALL : count_le e ls_e = length ls_e).
    { apply count_le_all'. rewrite Forall_forall. intros y Hy. rewrite Forall_forall in INR. destruct (INR _ (INB y Hy)) as (_ & H & _). lia. }
    assert (DL : d_len (s_data sr) = N.of_nat ((slots_of p pre_e + Layout.K p + length ls_e) * (p + 2))).
    { rewrite Rl. unfold len. rewrite region_length by (apply good_pay_ok; exact G).
      rewrite Ee, POSTE, (slots_of_app' p). cbn [slots_of snd]. f_equal. lia. }
    assert (LN : length ls_e >= 1) by (rewrite Els_e; cbn [length]; lia).
    replace (d_len (s_data sr) <? line_size p)%N with false by (symmetry; apply N.ltb_ge; rewrite DL; unfold line_size; nia).
    rewrite (rd_ix_last _ _ _ _ _ _ _ _ RD).
    eexists; eexists. split; [reflexivity|].
    intros r E1 E2 E3. unfold end_comp. rewrite E2. unfold ret. f_equal. f_equal.
    unfold ep, end_pos. rewrite CALL, DL. unfold line_size. nia. }
  destruct SAF as (A_s & SAE & SAC). destruct EAF as (A_e & F_e & EAE & EAC).
  rewrite SAE. cbn [bind]. rewrite EAE. cbn [bind fst snd].
  apply CORE.
  set (r := {| start_ts := s; start_area_ := A_s; start_full := start_full_of f_s post_s s;
               end_ts := e; end_area_ := A_e; end_full := F_e |}).
  exact (refine_parts' fs (s_data sr) p r sp ep Rp (SAC r eq_refl eq_refl eq_refl) (EAC r eq_refl eq_refl eq_refl)).
Qed.

(* the combination of search areas that estimate_lines marks unreachable!() is never produced by RoughPos::new *)
Definition area_ok (r:rough) : Prop :=
  match start_area_ r, end_area_ r with STillEnd _, EWindow _ _ => False | _, _ => True end.

Lemma rough_new_areas lo hi :
  match rough_new (s_data sr) lo hi with Ok r => area_ok r | Err _ => True | Panic => False | OutOfFuel => False end.
Proof.
  destruct R as [RD W RR RDn].
  destruct l as [|x t] eqn:El.
  { unfold rough_new, checked_start_time, data_range.
    rewrite (rd_entries _ _ _ _ _ _ _ _ RD). rewrite (sections_encode p [] W). exact I. }
  rewrite <- El in *.
  set (ts0 := fst x). set (lastts := fst (last t x)).
  destruct (full_after_cons_none p x t) as [f' FA]. rewrite El in RD. rewrite FA in RD.
  change (option_map fst (last_opt (x :: t))) with (Some lastts) in RD. rewrite <- El in RD.
  pose proof (all_lines_in_range x t El W) as INR. fold ts0 lastts in INR.
  destruct (main_facts p l W) as (G & EB & ER & HB).
  set (ss := secs_of l) in *.
  assert (SS0 : exists ls0 t0, ss = (ts0, ls0) :: t0).
  { unfold ss. rewrite El, secs_of_cons. eauto. }
  destruct SS0 as (ls0 & t0 & ESS).
  assert (DR : data_range (s_data sr) = Ok (Some (ts0, lastts))).
  { unfold data_range. rewrite (rd_entries _ _ _ _ _ _ _ _ RD), (sections_encode p l W), (secs_from_sections p l 0).
    fold ss. rewrite ESS. cbn [ents fst]. rewrite (rd_last _ _ _ _ _ _ _ _ RD). reflexivity. }
  assert (FL : (ts0 <= lastts)%N).
  { rewrite Forall_forall in INR. specialize (INR x ltac:(rewrite El; left; reflexivity)). lia. }
  unfold rough_new, checked_start_time, checked_end_time. rewrite DR. cbn [bind].
  destruct (lo_ts lo ts0) as [s0|] eqn:LO.
  2:{ destruct lo as [tl|tl|]; cbn [lo_ts] in LO; try discriminate.
      destruct (tl + 1 <? U64)%N eqn:C; [discriminate|]. cbn [bind]. exact I. }
  assert (LOE : (match lo with
                 | Incl ts => Ok ts
                 | Excl ts => if (ts + 1 <? U64)%N then Ok (ts + 1)%N else Err ERange
                 | Unb => Ok ts0 end) = Ok s0).
  { destruct lo as [tl|tl|]; cbn [lo_ts] in LO; try (inversion LO; reflexivity).
    destruct (tl + 1 <? U64)%N; inversion LO. reflexivity. }
  rewrite LOE. cbn [bind].
  set (s := N.max s0 ts0) in *.
  destruct (lastts <? s)%N eqn:CS. { cbn [bind]. exact I. }
  apply N.ltb_ge in CS. cbn [bind].
  destruct (hi_ts hi lastts) as [e0|] eqn:HI.
  2:{ destruct hi as [th|th|]; cbn [hi_ts] in HI; try discriminate.
      destruct (th =? 0)%N eqn:C; [|discriminate]. cbn [bind]. exact I. }
  assert (HIE : (match hi with
                 | Incl ts => Ok ts
                 | Excl ts => if (ts =? 0)%N then Err ERange else Ok (ts - 1)%N
                 | Unb => Ok lastts end) = Ok e0).
  { destruct hi as [th|th|]; cbn [hi_ts] in HI; try (inversion HI; reflexivity).
    destruct (th =? 0)%N; inversion HI. reflexivity. }
  rewrite HIE. cbn [bind].
  set (e := N.min e0 lastts) in *.
  destruct (e <? ts0)%N eqn:CE. { cbn [bind]. exact I. }
  apply N.ltb_ge in CE. cbn [bind].
  destruct (e <? s)%N eqn:CSE. { exact I. }
  apply N.ltb_ge in CSE.
  destruct (locate_exists p ss s G ltac:(rewrite ESS; discriminate) ltac:(rewrite ESS; cbn [hd fst]; unfold s; lia))
    as (pre_s & f_s & ls_s & post_s & Ls).
  destruct (locate_exists p ss e G ltac:(rewrite ESS; discriminate) ltac:(rewrite ESS; cbn [hd fst]; lia))
    as (pre_e & f_e & ls_e & post_e & Le).
  destruct Ls as (Es & Hfs & Hns). destruct Le as (Ee & Hfe & Hne).
  assert (Gs : good_secs p (pre_s ++ (f_s, ls_s) :: post_s)) by (rewrite <- Es; exact G).
  assert (Ge : good_secs p (pre_e ++ (f_e, ls_e) :: post_e)) by (rewrite <- Ee; exact G).
  assert (PB : forall pre f ls post, ss = pre ++ (f, ls) :: post -> forall f2 l2 post', post = (f2, l2) :: post' -> (f2 < 2 ^ 64)%N).
  { intros pre f ls post E f2 l2 post' EP. rewrite E, EP in HB. apply Forall_app in HB. destruct HB as [_ H].
    inversion H as [|? ? _ H2]; subst. inversion H2; subst. assumption. }
  pose proof (start_area_spec p pre_s f_s ls_s post_s Gs s Hfs Hns (PB _ _ _ _ Es)) as SA.
  pose proof (end_area_spec p pre_e f_e ls_e post_e Ge e Hfe Hne (PB _ _ _ _ Ee)) as EA.
  rewrite <- Es in SA. rewrite <- Ee in EA.
  assert (ENT : ix_entries (d_index (s_data sr)) = ents p 0 ss).
  { rewrite (rd_entries _ _ _ _ _ _ _ _ RD), (sections_encode p l W). apply secs_from_sections. }
  rewrite ENT, (rd_p _ _ _ _ _ _ _ _ RD).
  (* the end half never panics *)
  assert (EOK : exists ea, (match hi with
                  | Unb => if (d_len (s_data sr) <? line_size p)%N then Panic else
                           match ix_last (d_index (s_data sr)) with
                           | Some l0 => Ok (EFound (d_len (s_data sr) - line_size p)%N, l0)
                           | None => Panic
                           end
                  | _ => end_search_bounds (ents p 0 ss) p e
                  end) = Ok ea
                /\ (forall a b, fst ea = EWindow a b -> exists f2 l2 post', post_e = (f2, l2) :: post')).
  { assert (BOUNDED : exists ea, end_search_bounds (ents p 0 ss) p e = Ok ea
                /\ (forall a b, fst ea = EWindow a b -> exists f2 l2 post', post_e = (f2, l2) :: post')).
    { rewrite EA. eexists. split; [reflexivity|]. intros a b H.
      destruct (f_e =? e)%N; [discriminate|]. destruct post_e as [|[f2 l2] post']; [discriminate|]. eauto. }
    destruct hi as [th|th|]; try exact BOUNDED.
    assert (DL : (line_size p <= d_len (s_data sr))%N).
    { rewrite (rd_len _ _ _ _ _ _ _ _ RD). unfold len. rewrite (encode_length p l (wf_payloads p l W)).
      rewrite El. cbn [slots_from]. unfold line_size. nia. }
    replace (d_len (s_data sr) <? line_size p)%N with false by (symmetry; apply N.ltb_ge; exact DL).
    rewrite (rd_ix_last _ _ _ _ _ _ _ _ RD). eexists. split; [reflexivity|]. intros a b H. discriminate H. }
  destruct EOK as (ea & EOK & EW).
  (* the start half *)
  assert (SOK : exists sa, (match lo with
                  | Unb => match ents p 0 ss with [] => Panic | e1 :: _ => Ok (SFound (line_start p 0), fst e1) end
                  | _ => start_search_bounds (ents p 0 ss) p s
                  end) = Ok sa
                /\ (forall a, fst sa = STillEnd a -> post_s = [] /\ (f_s < s)%N)).
  { assert (BOUNDED : exists sa, start_search_bounds (ents p 0 ss) p s = Ok sa
                /\ (forall a, fst sa = STillEnd a -> post_s = [] /\ (f_s < s)%N)).
    { rewrite SA. eexists. split; [reflexivity|]. intros a H.
      destruct (f_s =? s)%N eqn:C; [discriminate|]. apply N.eqb_neq in C.
      destruct post_s as [|[f2 l2] post']; [split; [reflexivity|lia]|]. destruct (f_s + MAXD <? s)%N; discriminate. }
    destruct lo as [tl|tl|]; try exact BOUNDED.
    rewrite ESS. cbn [ents]. eexists. split; [reflexivity|]. intros a H. discriminate H. }
  destruct SOK as (sa & SOK & SW).
  rewrite SOK. cbn [bind]. rewrite EOK. cbn [bind].
  unfold area_ok. cbn [start_area_ end_area_].
  destruct (fst sa) as [a1| |a1|a1 a2|a1] eqn:FS; try (destruct (fst ea); exact I).
  destruct (fst ea) as [b1|b1|b1 b2|b1] eqn:FE; try exact I.
  destruct (SW a1 eq_refl) as [PS Hlt]. destruct (EW b1 b2 eq_refl) as (f2 & l2 & post' & PE).
  subst post_s post_e.
  assert (IN : In (f2, l2) (pre_s ++ [(f_s, ls_s)])).
  { rewrite <- Es, Ee. apply in_or_app. right. right. left. reflexivity. }
  pose proof (good_before p _ _ _ Gs) as GB. rewrite Forall_forall in GB.
  apply in_app_or in IN. destruct IN as [IN|[IN|[]]].
  - specialize (GB _ IN). cbn [fst] in GB. lia.
  - inversion IN; subst. lia.
Qed.

(* ---- the reading operations of ByteSeries, for every pair of bounds ---- *)
Lemma select_wf lo hi : wf_series p (select lo hi l).
Proof. unfold select. apply filter_wf. exact (rh_wf _ _ _ _ _ _ R). Qed.

Lemma select_u64 lo hi : Forall (fun x : N * list byte => (fst x < U64)%N) (select lo hi l).
Proof. destruct (select_wf lo hi) as [_ F]. eapply Forall_impl; [|exact F]. intros a [H _]. exact H. Qed.

(* C02 *)
Theorem read_all_ok lo hi :
  read_all sr lo hi fs = (fs, Ok (select lo hi l))
  \/ (select lo hi l = [] /\ read_all sr lo hi fs = (fs, Err ERange)).
Proof.
  destruct (seek_ok (s_cb sr) lo hi) as [(ps & SK & GOOD)|(SE & SK)].
  - left. unfold read_all. erewrite mbind_ok by exact SK. destruct ps as [q|]; cbn [seek_good] in GOOD.
    + destruct GOOD as ((sp & ep & _ & _ & _ & _ & OKF) & RW). unfold fwim_read.
      destruct R as [RD _ _ _]. rewrite (rd_p _ _ _ _ _ _ _ _ RD).
      erewrite mbind_ok by (apply (of_read_from_0 _ _ hdr (encode p l)); exact (rd_file _ _ _ _ _ _ _ _ RD)).
      rewrite RW. destruct (select_wf lo hi) as [S _].
      rewrite feed_read'; [|exact S|apply select_u64|].
      * unfold ret. rewrite app_nil_r, frev_rev, rev_involutive. reflexivity.
      * destruct (select lo hi l) as [|x t]; [exact I|]. destruct (N.eq_dec (fst x) 0) as [E|E]; [right; exact E|left; lia].
    + rewrite GOOD. reflexivity.
  - right. split; [exact SE|]. unfold read_all. apply mbind_err. exact SK.
Qed.

(* C13: the first n lines of a range are a prefix of the full read of that range *)
Lemma feed_first_n n : forall (sel:list line) k out, (k < n)%N -> Forall (fun x : N * list byte => (fst x < U64)%N) sel ->
  feed _ (proc_first_n n) (k, out) sel
  = if (k + len sel <? n)%N then PCont ((k + len sel)%N, rev sel ++ out)
    else PStop (n, rev (firstn (N.to_nat (n - k)) sel) ++ out).
Proof.
  induction sel as [|x t IH]; intros k out Hk F.
  - cbn [feed]. unfold len. cbn [length]. replace (k + N.of_nat 0 <? n)%N with true by (symmetry; apply N.ltb_lt; lia).
    f_equal. f_equal. lia.
  - inversion F as [|? ? Hx Ft]; subst. cbn [feed]. replace (fst x <? U64)%N with true by (symmetry; apply N.ltb_lt; exact Hx).
    unfold proc_first_n at 1. destruct (n <=? k + 1)%N eqn:C.
    + apply N.leb_le in C. assert (n = k + 1)%N by lia. subst n.
      replace (k + len (x :: t) <? k + 1)%N with false by (symmetry; apply N.ltb_ge; unfold len; cbn [length]; lia).
      replace (N.to_nat (k + 1 - k)) with 1 by lia. cbn [firstn rev app]. destruct x; reflexivity.
    + apply N.leb_gt in C. rewrite IH by (try lia; exact Ft).
      replace (k + 1 + len t)%N with (k + len (x :: t))%N by (unfold len; cbn [length]; lia).
      destruct (k + len (x :: t) <? n)%N.
      * f_equal. cbn [rev]. rewrite <- app_assoc. destruct x; reflexivity.
      * f_equal. f_equal. replace (N.to_nat (n - k)) with (S (N.to_nat (n - (k + 1)))) by lia. cbn [firstn rev].
        rewrite <- app_assoc. destruct x; reflexivity.
Qed.

Theorem read_first_n_ok n lo hi : (1 <= n)%N ->
  read_first_n sr n lo hi fs = (fs, Ok (firstn (N.to_nat (N.min n (len (select lo hi l)))) (select lo hi l)))
  \/ (select lo hi l = [] /\ read_first_n sr n lo hi fs = (fs, Err ERange)).
Proof.
  intros Hn. unfold read_first_n. replace (n =? 0)%N with false by (symmetry; apply N.eqb_neq; lia).
  destruct (seek_ok (s_cb sr) lo hi) as [(ps & SK & GOOD)|(SE & SK)].
  - left. erewrite mbind_ok by exact SK. destruct ps as [q|]; cbn [seek_good] in GOOD.
    + destruct GOOD as (_ & RW). unfold fwim_read_first_n.
      destruct R as [RD _ _ _]. rewrite (rd_p _ _ _ _ _ _ _ _ RD).
      erewrite mbind_ok by (apply (of_read_from_0 _ _ hdr (encode p l)); exact (rd_file _ _ _ _ _ _ _ _ RD)).
      rewrite RW. rewrite (feed_first_n n (select lo hi l) 0 []) by (try lia; apply select_u64).
      rewrite N.add_0_l, N.sub_0_r.
      destruct (len (select lo hi l) <? n)%N eqn:C; unfold ret; rewrite app_nil_r, frev_rev, rev_involutive.
      * apply N.ltb_lt in C. rewrite N.min_r by lia. unfold len. rewrite Nat2N.id, firstn_all. reflexivity.
      * apply N.ltb_ge in C. rewrite N.min_l by lia. reflexivity.
    + rewrite GOOD. rewrite firstn_nil. reflexivity.
  - right. split; [exact SE|]. apply mbind_err. exact SK.
Qed.

(* C14: the reported line count of a range *)
Theorem n_lines_ok_full lo hi :
  (exists k, n_lines_between sr lo hi fs = (fs, Ok k)
             /\ match select lo hi l with
                | [] => k = 0%N
                | _ => exists pf, ok_from p (Some pf) (select lo hi l) /\ (len (select lo hi l) <= k)%N
                                  /\ k = (len (select lo hi l) + N.of_nat (Layout.K p * length (secs_from p (Some pf) 0 (select lo hi l))))%N
                end)
  \/ (select lo hi l = [] /\ n_lines_between sr lo hi fs = (fs, Err ERange))
  \/ (select lo hi l = [] /\ l = [] /\ n_lines_between sr lo hi fs = (fs, Ok 0%N)).
Proof.
  pose proof (seek_ok (s_cb sr) lo hi) as SKO. unfold seek_pos in SKO. unfold n_lines_between.
  destruct (rough_new (s_data sr) lo hi) as [r|er| |] eqn:RN.
  - destruct SKO as [(ps & SK & GOOD)|(SE & SK)].
    + left. erewrite mbind_ok by exact SK. destruct ps as [q|]; cbn [seek_good] in GOOD.
      * destruct GOOD as ((sp & ep & E1 & E2 & LT & LEN & OKF) & _).
        destruct R as [RD _ _ _]. rewrite (rd_p _ _ _ _ _ _ _ _ RD). unfold pos_lines, u64_sub. rewrite E1, E2.
        replace (N.of_nat sp <=? N.of_nat ep)%N with true by (symmetry; apply N.leb_le; lia). cbn [bind].
        eexists. split; [reflexivity|].
        replace (N.of_nat ep - N.of_nat sp)%N with (N.of_nat (slots_from p (Some (p_full q)) (select lo hi l)) * N.of_nat (p + 2))%N by nia.
        unfold line_size. rewrite N.div_mul by lia. rewrite slots_from_lines.
        destruct (select lo hi l) as [|x t] eqn:ES.
        -- cbn [slots_from] in LEN. lia.
        -- exists (p_full q). unfold len. split; [exact OKF|split; lia].
      * eexists. split; [reflexivity|]. rewrite GOOD. reflexivity.
    + right. left. split; [exact SE|]. apply mbind_err. exact SK.
  - destruct SKO as [(ps & SK & _)|(SE & SK)]; [discriminate|].
    destruct (is_empty_file (s_data sr)) eqn:EF.
    + right. right. split; [exact SE|]. split; [|reflexivity].
      unfold is_empty_file, data_range in EF. destruct R as [RD W _ _].
      rewrite (rd_entries _ _ _ _ _ _ _ _ RD), (sections_encode p l W) in EF.
      destruct l as [|x t]; [reflexivity|]. cbn [secs_from] in EF. destruct (d_last (s_data sr)); discriminate.
    + right. left. split; [exact SE|reflexivity].
  - destruct SKO as [(ps & SK & _)|(_ & SK)]; discriminate.
  - destruct SKO as [(ps & SK & _)|(_ & SK)]; discriminate.
Qed.

Theorem n_lines_ok lo hi :
  (exists k, n_lines_between sr lo hi fs = (fs, Ok k)
             /\ match select lo hi l with
                | [] => k = 0%N
                | _ => exists pf, (len (select lo hi l) <= k)%N
                                  /\ k = (len (select lo hi l) + N.of_nat (Layout.K p * length (secs_from p (Some pf) 0 (select lo hi l))))%N
                end)
  \/ (select lo hi l = [] /\ n_lines_between sr lo hi fs = (fs, Err ERange))
  \/ (select lo hi l = [] /\ l = [] /\ n_lines_between sr lo hi fs = (fs, Ok 0%N)).
Proof.
  destruct (n_lines_ok_full lo hi) as [(k & E & H)|H]; [left|right; exact H].
  exists k. split; [exact E|]. destruct (select lo hi l); [exact H|]. destruct H as (pf & _ & H). exists pf. exact H.
Qed.


(* C10 for every range (no caches): uniform bucket means of exactly the selected lines, bucket size
   b = max 1 (m / n) with m the slots of the byte range, at most 2n samples *)
Theorem read_n_ok n lo hi : s_down sr = [] -> (1 <= n)%N ->
  (exists b, b >= 1 /\ read_n sr n lo hi fs = (fs, Ok (resample p b (select lo hi l)))
             /\ (len (resample p b (select lo hi l)) <= 2 * n)%N)
  \/ (select lo hi l = [] /\ read_n sr n lo hi fs = (fs, Err ERange)).
Proof.
  intros RDn Hn. unfold read_n. rewrite RDn. cbn [sorted_lens].
  replace (n =? 0)%N with false by (symmetry; apply N.eqb_neq; lia). cbn [pick_level].
  erewrite mbind_ok by reflexivity.
  destruct (seek_ok (s_cb sr) lo hi) as [(ps & SK & GOOD)|(SE & SK)].
  - left. erewrite mbind_ok by exact SK. destruct ps as [q|]; cbn [seek_good] in GOOD.
    + destruct GOOD as ((sp & ep & E1 & E2 & LT & LEN & OKF) & RW).
      destruct R as [RD _ _ _]. rewrite (rd_p _ _ _ _ _ _ _ _ RD). unfold pos_lines, u64_sub. rewrite E1, E2.
      replace (N.of_nat sp <=? N.of_nat ep)%N with true by (symmetry; apply N.leb_le; lia). cbn [bind].
      erewrite mbind_ok by reflexivity.
      replace (N.of_nat ep - N.of_nat sp)%N with (N.of_nat (slots_from p (Some (p_full q)) (select lo hi l)) * N.of_nat (p + 2))%N by nia.
      unfold line_size. rewrite N.div_mul by lia.
      set (m := N.of_nat (slots_from p (Some (p_full q)) (select lo hi l))). set (bN := N.max 1 (m / n)).
      exists (N.to_nat bN). split; [unfold bN; lia|].
      assert (RNE : fwim_read_resampling (d_file (s_data sr)) p (s_cb sr) bN (N.of_nat sp) (N.of_nat ep) (p_full q) fs
                    = (fs, Ok (resample p (N.to_nat bN) (select lo hi l)))).
      { unfold fwim_read_resampling. replace (bN =? 0)%N with false by (symmetry; apply N.eqb_neq; unfold bN; lia).
        erewrite mbind_ok by (apply (of_read_from_0 _ _ hdr (encode p l)); exact (rd_file _ _ _ _ _ _ _ _ RD)).
        rewrite <- E1, <- E2, RW.
        destruct (feed_sample_resample p (N.to_nat bN) ltac:(unfold bN; lia) (select lo hi l) (select_u64 lo hi)) as (s' & E & RS).
        rewrite N2Nat.id in E. rewrite E. unfold ret. rewrite frev_rev, RS. reflexivity. }
      split; [exact RNE|].
      unfold resample, cache_of, len. rewrite map_length, buckets_length by (unfold bN; lia).
      assert (KM : (N.of_nat (length (select lo hi l)) <= m)%N) by (unfold m; rewrite slots_from_lines; lia).
      pose proof (at_most_2n (N.of_nat (length (select lo hi l))) m n KM Hn) as A. fold bN in A.
      rewrite <- (N2Nat.id bN) in A. rewrite <- Nat2N.inj_div in A. exact A.
    + exists 1. split; [lia|]. rewrite GOOD. split; [reflexivity|]. cbn. lia.
  - right. split; [exact SE|]. apply mbind_err. exact SK.
Qed.
End ReadAll.
