(* Layer F's reader of the file header (Format.parse_file: what the judge and an independent reader use to find the payload
   size, the user header and the data region of a data file) on the header the library writes: for every payload size below
   2^64, every user header and every content behind the header it returns exactly those three. The texts are the ones
   regenerated from the source (gen/HeaderText.v); the documented anchor phrases of Layer F are the patterns the library's own
   parser looks for. *)
From Coq Require Import List NArith ZArith Lia Bool Arith ZifyBool ZifyN ZifyNat.
From Coq Require Import Strings.Byte.
Require Import BS.Bytes BS.Common BS.CommonFacts BS.Api BS.Layout BS.Format BS.FormatFacts BS.FS BS.FSFacts BS.Meta BS.MetaFacts BS.Header BS.HeaderFacts BS.OpenFacts.
Require BSgen.Consts BSgen.HeaderText.
Import ListNotations.
Close Scope N_scope. Open Scope nat_scope.

Lemma anchors_are_patterns :
  anchor_version_start = pat_vs /\ anchor_version_end = pat_ve /\ anchor_size_start = pat_ps /\ anchor_size_end = pat_pe.
Proof. repeat split; reflexivity. Qed.

Lemma drop_app_exact {A} (a b:list A) : drop (len a) (a ++ b) = b.
Proof.
  rewrite drop_skipn. replace (N.to_nat (len a)) with (length a) by (unfold len; lia).
  rewrite skipn_app, skipn_all, Nat.sub_diag. reflexivity.
Qed.
Lemma slice_prefix_exact {A} (a b c:list A) : slice (len a) (len a + len b) (a ++ b ++ c) = b.
Proof.
  unfold len. replace (N.of_nat (length a) + N.of_nat (length b))%N with (N.of_nat (length a + length b)) by lia.
  apply slice_mid.
Qed.

Theorem parse_file_ok (p:N) (uhdr region:list byte) : (p < 2^64)%N ->
  let header := params_to_text BSgen.Consts.version p ++ uhdr in
  (len header <= 65535)%N ->
  parse_file (outer header ++ region)
  = Some {| pf_p := N.to_nat p; pf_user := uhdr; pf_region := region; pf_header_len := (4 + len header)%N |}.
Proof.
  intros Hp header Hh.
  destruct fixed_checks as (OKvs & OKve & OKps & Fpe & Ppe & Cpe & Eps & Ord1 & Ord2 & PV & AA & AB & P3 & L3 & LA).
  destruct (preamble_text_shape p) as (ds & Eds & NE & FD & PD & LN & TX).
  assert (HD : header = (le_enc 4 (len (fixedA ++ ds ++ part3)) ++ (fixedA ++ ds ++ part3)) ++ uhdr).
  { unfold header, params_to_text. rewrite TX. reflexivity. }
  set (text := fixedA ++ ds ++ part3) in *.
  assert (LT : (len text < 256 ^ N.of_nat 4)%N).
  { assert (len header = 4 + len text + len uhdr)%N by (rewrite HD; unfold len; rewrite !app_length, le_enc_length; lia).
    change (256 ^ N.of_nat 4)%N with 4294967296%N. lia. }
  assert (LHN : (len header = 4 + len text + len uhdr)%N) by (rewrite HD; unfold len; rewrite !app_length, le_enc_length; lia).
  unfold outer. set (file := (le_enc 2 (len header) ++ BSgen.Consts.line_ends ++ header) ++ region).
  assert (LF : (len file = 4 + len header + len region)%N).
  { unfold file, len. rewrite !app_length, le_enc_length. change (length BSgen.Consts.line_ends) with 2. lia. }
  unfold parse_file.
  replace (len file <? 4)%N with false by (symmetry; apply N.ltb_ge; lia).
  assert (F2 : firstn 2 file = le_enc 2 (len header)).
  { unfold file. rewrite <- !app_assoc. rewrite <- (le_enc_length 2 (len header)) at 1. apply firstn_app_exact'. }
  rewrite F2, (le_dec_enc 2 (len header)) by (change (256 ^ N.of_nat 2)%N with 65536%N; lia).
  replace (len file <? 4 + len header)%N with false by (symmetry; apply N.ltb_ge; lia).
  assert (SH : slice 4 (4 + len header) file = header).
  { unfold file. rewrite <- !app_assoc.
    change (le_enc 2 (len header) ++ BSgen.Consts.line_ends ++ header ++ region)
      with ((le_enc 2 (len header) ++ BSgen.Consts.line_ends) ++ header ++ region) at 1.
    rewrite app_assoc.
    replace 4%N with (len (le_enc 2 (len header) ++ BSgen.Consts.line_ends)) at 1 2
      by (unfold len; rewrite app_length, le_enc_length; reflexivity).
    rewrite <- app_assoc. apply slice_prefix_exact. }
  assert (DR : drop (4 + len header) file = region).
  { unfold file.
    replace (4 + len header)%N with (len (le_enc 2 (len header) ++ BSgen.Consts.line_ends ++ header))
      by (unfold len; rewrite !app_length, le_enc_length; change (length BSgen.Consts.line_ends) with 2; lia).
    apply drop_app_exact. }
  rewrite SH, DR.
  replace (len header <? 4)%N with false by (symmetry; apply N.ltb_ge; lia).
  assert (F4 : firstn 4 header = le_enc 4 (len text)).
  { rewrite HD. rewrite <- app_assoc. rewrite <- (le_enc_length 4 (len text)) at 1. apply firstn_app_exact'. }
  rewrite F4, (le_dec_enc 4 _ LT).
  replace (len header <? 4 + len text)%N with false by (symmetry; apply N.ltb_ge; lia).
  assert (ST : slice 4 (4 + len text) header = text).
  { rewrite HD. rewrite <- app_assoc.
    replace 4%N with (len (le_enc 4 (len text))) at 1 2 by (unfold len; rewrite le_enc_length; reflexivity).
    apply slice_prefix_exact. }
  assert (DU : drop (4 + len text) header = uhdr).
  { rewrite HD. replace (4 + len text)%N with (len (le_enc 4 (len text) ++ text)) by (unfold len; rewrite app_length, le_enc_length; lia).
    apply drop_app_exact. }
  rewrite ST, DU.
  destruct anchors_are_patterns as (Avs & Ave & Aps & Ape). rewrite Avs, Ave, Aps, Ape.
  assert (HDS : exists d ds', ds = d :: ds' /\ is_digit d = true).
  { destruct ds as [|d0 t0]; [contradiction|]. cbn [forallb] in FD. apply andb_true_iff in FD. exists d0, t0. split; [reflexivity|apply FD]. }
  destruct HDS as (d & ds' & Dds & Hd).
  assert (TXT : text = fixedA ++ d :: (ds' ++ part3)) by (unfold text; rewrite Dds; reflexivity).
  (* version *)
  assert (BV : between pat_vs pat_ve text = Some (slice (N.of_nat (k_vs + length pat_vs)) (N.of_nat k_ve) fixedA)).
  { assert (FVs : find_sub pat_vs text = Some (N.of_nat k_vs)) by (rewrite TXT; apply (find_fixed pat_vs k_vs d _ OKvs Hd)).
    assert (FVe : find_sub pat_ve text = Some (N.of_nat k_ve)) by (rewrite TXT; apply (find_fixed pat_ve k_ve d _ OKve Hd)).
    unfold between. rewrite FVs, FVe.
    replace (N.of_nat k_vs + len pat_vs <=? N.of_nat k_ve)%N with true by (symmetry; apply N.leb_le; unfold len; lia).
    replace (N.of_nat k_vs + len pat_vs)%N with (N.of_nat (k_vs + length pat_vs)) by (unfold len; lia).
    unfold text. rewrite slice_in_left by lia. reflexivity. }
  rewrite BV, PV.
  (* payload size *)
  assert (PP3 : is_prefix pat_pe part3 = true).
  { rewrite P3. apply is_prefix_app. exact Ppe. }
  assert (BP : between pat_ps pat_pe text = Some ds).
  { assert (FPs : find_sub pat_ps text = Some (N.of_nat k_ps)) by (rewrite TXT; apply (find_fixed pat_ps k_ps d _ OKps Hd)).
    assert (FPe : find_sub pat_pe text = Some (N.of_nat (length fixedA + length ds))).
    { destruct pat_pe as [|c pe'] eqn:Epe; [discriminate|].
      assert (Hc : is_digit c = false) by (destruct (is_digit c); [discriminate|reflexivity]).
      unfold text. apply (find_after_digits (c :: pe') fixedA ds part3 c pe' eq_refl Hc Fpe NE FD PP3). }
    unfold between. rewrite FPs, FPe.
    replace (N.of_nat k_ps + len pat_ps)%N with (N.of_nat (length fixedA)) by (unfold len; lia).
    replace (N.of_nat (length fixedA) <=? N.of_nat (length fixedA + length ds))%N with true by (symmetry; apply N.leb_le; lia).
    unfold text. rewrite slice_mid. reflexivity. }
  rewrite BP.
  assert (PDS : parse_dec U64 ds = Some p).
  { unfold parse_dec. rewrite Dds at 1. cbv iota beta. rewrite PD.
    replace (p <? U64)%N with true by (symmetry; apply N.ltb_lt; exact Hp). reflexivity. }
  rewrite PDS.
  change BSgen.Consts.version with 1%N. reflexivity.
Qed.
