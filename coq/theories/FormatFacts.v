(* Layer F theorems: the reference decoder inverts the reference encoder (C01/C07 codec core),
   the append law (C15/C16 core), section list of an encoding (C06 core), sizes (C12/C15). *)
From Coq Require Import List NArith ZArith Lia Bool Arith ZifyBool ZifyN ZifyNat Sorted.
From Coq Require Import Strings.Byte.
Require Import BS.Bytes BS.Common BS.CommonFacts BS.Api BS.Scan BS.Layout BS.Format.
Import ListNotations.
Close Scope N_scope. Open Scope nat_scope.
Arguments N.add : simpl never. Arguments N.mul : simpl never. Arguments N.sub : simpl never.
Arguments N.div : simpl never. Arguments N.modulo : simpl never.
Arguments N.ltb : simpl never. Arguments N.leb : simpl never. Arguments N.eqb : simpl never.
Ltac Zify.zify_post_hook ::= Z.div_mod_to_equations.

Section F.
Variable p : nat.
Notation L := (p + 2).

(* ---- slot sizes ---- *)
Lemma q_le_p : Layout.q p <= p. Proof. unfold Layout.q. lia. Qed.
Lemma sec_a_length t : length (Layout.sec_a p t) = L.
Proof.
  unfold Layout.sec_a, Layout.zeros. rewrite !app_length, firstn_length, repeat_length, le_enc_length.
  pose proof q_le_p. unfold Layout.q in *. cbn [length]. lia.
Qed.
Lemma sec_b_length t : length (Layout.sec_b p t) = L.
Proof.
  unfold Layout.sec_b, Layout.zeros. rewrite !app_length, firstn_length, skipn_length, repeat_length, le_enc_length.
  pose proof q_le_p. unfold Layout.q in *. cbn [length]. lia.
Qed.
Lemma take_slots_lengths : forall n x, n * L <= length x -> Forall (fun s => length s = L) (Layout.take_slots p n x).
Proof.
  induction n as [|n IH]; intros x H; cbn [Layout.take_slots]; constructor.
  - unfold Layout.L. rewrite firstn_length. lia.
  - apply IH. unfold Layout.L. rewrite skipn_length. lia.
Qed.
Lemma sec_got_lengths t : Forall (fun s => length s = L) (Layout.sec_got p t).
Proof.
  unfold Layout.sec_got, Layout.chunk_pad. apply take_slots_lengths.
  rewrite app_length. unfold Layout.zeros, Layout.L. rewrite repeat_length. lia.
Qed.
Lemma sec_slots_lengths t : Forall (fun s => length s = L) (Layout.sec_slots p t).
Proof. unfold Layout.sec_slots. constructor; [apply sec_a_length|]. constructor; [apply sec_b_length|]. apply sec_got_lengths. Qed.
Lemma sec_slots_count t : length (Layout.sec_slots p t) = Layout.K p.
Proof. unfold Layout.sec_slots, Layout.K. cbn [length]. destruct (Layout.sec_slots_shape p t) as (_ & _ & H). rewrite H. reflexivity. Qed.
Lemma enc_section_length t : length (enc_section p t) = Layout.K p * L.
Proof. unfold enc_section. rewrite (concat_length_uniform L) by apply sec_slots_lengths. rewrite sec_slots_count. reflexivity. Qed.
Lemma enc_line_length d pay : length pay = p -> length (enc_line d pay) = L.
Proof. intros H. unfold enc_line. rewrite app_length, le_enc_length. lia. Qed.

(* ---- one step / one section of the decoder ---- *)
Definition mk (st:fstate) (i:nat) (ls:list line) (secs:list (N*N)) (g ss:nat) : fscan :=
  {| f_st := st; f_idx := i; f_lines := ls; f_secs := secs; f_good := g; f_sec_start := ss |}.

Lemma fstep_line f i ls secs g ss d pay : (d <= 65534)%N ->
  fstep p (mk (FNormal f) i ls secs g ss) (enc_line d pay) = mk (FNormal f) (S i) (((f + d)%N, pay) :: ls) secs (S i) ss.
Proof.
  intros Hd. unfold fstep, mk. cbn [f_st f_idx f_lines f_secs f_good f_sec_start].
  change (enc_line d pay) with (Layout.line_slot d pay).
  rewrite Layout.line_slot_not_marker by exact Hd.
  pose proof (Layout.mk_line_slot f d pay ltac:(lia)) as M. unfold Layout.mk in M.
  assert (M1 : (f + le_dec (firstn 2 (Layout.line_slot d pay)))%N = (f + d)%N) by (inversion M; reflexivity).
  assert (M2 : skipn 2 (Layout.line_slot d pay) = pay) by (inversion M; reflexivity).
  rewrite M1, M2. reflexivity.
Qed.

(* clean states: where a section may start *)
Definition clean (st:fstate) : Prop := match st with FStart | FNormal _ => True | _ => False end.

Lemma fstep_FSec full a b got i ls secs g ss x :
  fstep p (mk (FSec full a b got) i ls secs g ss) x
  = if length (got ++ [x]) =? Layout.ncont p
    then mk (FNormal (Layout.read_ts p a b (got ++ [x]))) (S i) ls ((Layout.read_ts p a b (got ++ [x]), N.of_nat (ss * L)) :: secs) g ss
    else mk (FSec full a b (got ++ [x])) (S i) ls secs g ss.
Proof. unfold fstep, mk. cbn [f_st f_idx f_lines f_secs f_good f_sec_start]. destruct (length (got ++ [x]) =? Layout.ncont p); reflexivity. Qed.

Lemma fstep_FOne full a i ls secs g ss x : Layout.is_marker x = true ->
  fstep p (mk (FOne full a) i ls secs g ss) x
  = if Layout.ncont p =? 0
    then mk (FNormal (Layout.read_ts p a x [])) (S i) ls ((Layout.read_ts p a x [], N.of_nat (ss * L)) :: secs) g ss
    else mk (FSec full a x []) (S i) ls secs g ss.
Proof. intros M. unfold fstep, mk. cbn [f_st f_idx f_lines f_secs f_good f_sec_start]. rewrite M. destruct (Layout.ncont p =? 0); reflexivity. Qed.

Lemma fstep_clean st i ls secs g ss x : clean st -> Layout.is_marker x = true ->
  exists full, fstep p (mk st i ls secs g ss) x = mk (FOne full x) (S i) ls secs g i.
Proof.
  intros C M. destruct st; try contradiction; unfold fstep, mk; cbn [f_st f_idx f_lines f_secs f_good f_sec_start];
    rewrite M; eexists; reflexivity.
Qed.

Lemma fold_got : forall (got2 got1:list slot) full a b i ls secs g ss,
  length (got1 ++ got2) = Layout.ncont p -> got2 <> [] ->
  fold_left (fstep p) got2 (mk (FSec full a b got1) i ls secs g ss)
  = mk (FNormal (Layout.read_ts p a b (got1 ++ got2))) (i + length got2) ls
       ((Layout.read_ts p a b (got1 ++ got2), N.of_nat (ss * L)) :: secs) g ss.
Proof.
  induction got2 as [|x got2 IH]; intros got1 full a b i ls secs g ss Hlen Hne; [congruence|].
  cbn [fold_left]. rewrite fstep_FSec.
  destruct got2 as [|y got2'].
  - replace (length (got1 ++ [x]) =? Layout.ncont p) with true by (symmetry; apply Nat.eqb_eq; exact Hlen).
    cbn [fold_left length]. f_equal. lia.
  - replace (length (got1 ++ [x]) =? Layout.ncont p) with false
      by (symmetry; apply Nat.eqb_neq; rewrite !app_length in *; cbn [length] in *; lia).
    rewrite (IH (got1 ++ [x])); [|rewrite <- app_assoc; exact Hlen|discriminate].
    rewrite <- app_assoc. cbn [app length]. f_equal. lia.
Qed.

Lemma fold_section st i ls secs g ss t : clean st -> (t < 2^64)%N ->
  fold_left (fstep p) (Layout.sec_slots p t) (mk st i ls secs g ss)
  = mk (FNormal t) (i + Layout.K p) ls ((t, N.of_nat (i * L)) :: secs) g i.
Proof.
  intros Hc Ht. destruct (Layout.sec_slots_shape p t) as (Ma & Mb & Lg).
  pose proof (Layout.read_ts_sec p t Ht) as RT.
  unfold Layout.sec_slots. set (a := Layout.sec_a p t) in *. set (b := Layout.sec_b p t) in *.
  set (got := Layout.sec_got p t) in *. clearbody a b got.
  cbn [fold_left].
  destruct (fstep_clean st i ls secs g ss a Hc Ma) as [full S1]. rewrite S1.
  rewrite fstep_FOne by exact Mb.
  unfold Layout.K. destruct (Layout.ncont p =? 0) eqn:C0.
  - apply Nat.eqb_eq in C0. rewrite C0 in Lg. destruct got; [|discriminate]. cbn [fold_left].
    rewrite RT. f_equal. rewrite C0. lia.
  - apply Nat.eqb_neq in C0.
    rewrite (fold_got got []); [|cbn [app]; exact Lg|destruct got; cbn in *; [lia|discriminate]].
    cbn [app]. rewrite RT, Lg. f_equal. lia.
Qed.

(* ---- scanning an encoding ---- *)
(* lines acceptable after full timestamp `full`: strictly increasing, not before full, below 2^64,
   payloads of p bytes *)
Fixpoint ok_from (full:option N) (l:list line) : Prop :=
  match l with
  | [] => True
  | x :: t => length (snd x) = p /\ (fst x < 2^64)%N
              /\ match full with Some f => (f <= fst x)%N | None => True end
              /\ match t with y :: _ => (fst x < fst y)%N | [] => True end
              /\ ok_from (snd (tail_bytes p full x)) t
  end.

Fixpoint full_after (full:option N) (l:list line) : option N :=
  match l with [] => full | x :: t => full_after (snd (tail_bytes p full x)) t end.
(* (timestamp, byte offset) of the sections encode_from emits, the first slot being slot i *)
Fixpoint secs_from (full:option N) (i:nat) (l:list line) : list (N * N) :=
  match l with
  | [] => []
  | x :: t =>
      match full with
      | Some f => if (fst x - f <=? MAXD)%N then secs_from full (S i) t
                  else (fst x, N.of_nat (i * L)) :: secs_from (Some (fst x)) (i + Layout.K p + 1) t
      | None => (fst x, N.of_nat (i * L)) :: secs_from (Some (fst x)) (i + Layout.K p + 1) t
      end
  end.
Fixpoint slots_from (full:option N) (l:list line) : nat :=
  match l with
  | [] => 0
  | x :: t =>
      match full with
      | Some f => if (fst x - f <=? MAXD)%N then 1 + slots_from full t else Layout.K p + 1 + slots_from (Some (fst x)) t
      | None => Layout.K p + 1 + slots_from (Some (fst x)) t
      end
  end.

Definition st_of (full:option N) : fstate := match full with Some f => FNormal f | None => FStart end.

Lemma tail_bytes_slots full x : length (snd x) = p ->
  exists ls, fst (tail_bytes p full x) = concat ls /\ Forall (fun s => length s = L) ls
             /\ ls = (match full with
                      | Some f => if (fst x - f <=? MAXD)%N then [enc_line (fst x - f) (snd x)]
                                  else Layout.sec_slots p (fst x) ++ [enc_line 0 (snd x)]
                      | None => Layout.sec_slots p (fst x) ++ [enc_line 0 (snd x)]
                      end).
Proof.
  intros Hp. unfold tail_bytes.
  assert (SL : forall d, Forall (fun s => length s = L) (Layout.sec_slots p (fst x) ++ [enc_line d (snd x)])).
  { intros d. apply Forall_app. split; [apply sec_slots_lengths|]. constructor; [apply enc_line_length; exact Hp|constructor]. }
  destruct full as [f|].
  - destruct (fst x - f <=? MAXD)%N; cbn [fst].
    + eexists. split; [|split; [|reflexivity]]. { cbn [concat]. rewrite app_nil_r. reflexivity. }
      constructor; [apply enc_line_length; exact Hp|constructor].
    + eexists. split; [|split; [|reflexivity]]. { unfold enc_section. rewrite concat_app. cbn [concat]. rewrite app_nil_r. reflexivity. }
      apply SL.
  - cbn [fst]. eexists. split; [|split; [|reflexivity]]. { unfold enc_section. rewrite concat_app. cbn [concat]. rewrite app_nil_r. reflexivity. }
    apply SL.
Qed.

Lemma encode_from_slots : forall l full, Forall (fun x => length (snd x) = p) l ->
  exists ls, encode_from p full l = concat ls /\ Forall (fun s => length s = L) ls /\ length ls = slots_from full l.
Proof.
  induction l as [|x t IH]; intros full H; cbn [encode_from slots_from].
  - exists []. repeat split. constructor.
  - inversion H as [|? ? Hx Ht]; subst.
    destruct (tail_bytes_slots full x Hx) as (ls1 & E1 & F1 & S1).
    destruct (tail_bytes p full x) as [b f'] eqn:TB. cbn [fst] in E1.
    destruct (IH f' Ht) as (ls2 & E2 & F2 & N2).
    exists (ls1 ++ ls2). split; [|split].
    + rewrite concat_app, E1, E2. reflexivity.
    + apply Forall_app; split; assumption.
    + rewrite app_length, N2, S1. unfold tail_bytes in TB.
      destruct full as [f|]; [destruct (fst x - f <=? MAXD)%N|]; inversion TB; subst; cbn [length];
        rewrite ?app_length, ?sec_slots_count; cbn [length]; lia.
Qed.

Theorem scan_encode_from : forall l full i ls secs g ss,
  ok_from full l ->
  fold_left (fstep p) (chunks L (encode_from p full l)) (mk (st_of full) i ls secs g ss)
  = mk (st_of (full_after full l)) (i + slots_from full l) (rev l ++ ls) (rev (secs_from full i l) ++ secs)
       (match l with [] => g | _ => i + slots_from full l end)
       (match rev (secs_from full i l) with [] => ss | s :: _ => N.to_nat (snd s) / L end).
Proof.
  induction l as [|x t IH]; intros full i ls secs g ss OK.
  - cbn [encode_from full_after slots_from secs_from rev app]. rewrite chunks_nil. cbn [fold_left]. f_equal. lia.
  - cbn [ok_from] in OK. destruct OK as (Hp & Ht & Hf & Hn & OK').
    assert (FA : Forall (fun y => length (snd y) = p) t).
    { clear -OK'. revert OK'. generalize (snd (tail_bytes p full x)). induction t as [|y t IHt]; intros o H; constructor.
      - apply H. - cbn [ok_from] in H. eapply IHt. apply H. }
    cbn [encode_from]. destruct (tail_bytes_slots full x Hp) as (ls1 & E1 & F1 & S1).
    destruct (tail_bytes p full x) as [b f'] eqn:TB. cbn [fst snd] in *.
    destruct (encode_from_slots t f' FA) as (ls2 & E2 & F2 & N2).
    rewrite E1, chunks_app by (try lia; assumption). rewrite fold_left_app.
    cbn [full_after slots_from secs_from]. rewrite TB. cbn [snd].
    unfold tail_bytes in TB.
    assert (CASE : (exists f, full = Some f /\ (fst x - f <=? MAXD)%N = true /\ f' = Some f /\ ls1 = [enc_line (fst x - f) (snd x)])
                   \/ (f' = Some (fst x) /\ ls1 = Layout.sec_slots p (fst x) ++ [enc_line 0 (snd x)]
                       /\ match full with Some f => (fst x - f <=? MAXD)%N = false | None => True end)).
    { destruct full as [f|]; [destruct (fst x - f <=? MAXD)%N eqn:C|]; inversion TB; subst.
      - left. exists f. auto. - right. auto. - right. auto. }
    destruct CASE as [(f & -> & C & -> & ->)|(-> & -> & C)].
    + (* plain line *)
      rewrite C. cbn [fold_left st_of].
      rewrite fstep_line by (unfold MAXD in C; lia).
      replace (f + (fst x - f))%N with (fst x) by lia.
      specialize (IH (Some f) (S i) ((fst x, snd x) :: ls) secs (S i) ss OK').
      change (st_of (Some f)) with (FNormal f) in IH. etransitivity; [exact IH|]. cbn [rev]. rewrite <- !app_assoc. cbn [app].
      destruct x as [tx px]. cbn [fst snd]. unfold mk. f_equal; try lia.
      destruct t; cbn [slots_from]; lia.
    + (* section then line *)
      rewrite fold_left_app. rewrite fold_section by (try exact Ht; destruct full; exact I).
      cbn [fold_left]. rewrite fstep_line by (unfold MAXD; lia).
      rewrite N.add_0_r.
      specialize (IH (Some (fst x)) (S (i + Layout.K p)) ((fst x, snd x) :: ls) ((fst x, N.of_nat (i * L)) :: secs) (S (i + Layout.K p)) i OK').
      change (st_of (Some (fst x))) with (FNormal (fst x)) in IH. etransitivity; [exact IH|].
      replace (S (i + Layout.K p)) with (i + Layout.K p + 1) by lia.
      assert (SECS : (match full with
                      | Some f => if (fst x - f <=? MAXD)%N then secs_from full (S i) t
                                  else (fst x, N.of_nat (i * L)) :: secs_from (Some (fst x)) (i + Layout.K p + 1) t
                      | None => (fst x, N.of_nat (i * L)) :: secs_from (Some (fst x)) (i + Layout.K p + 1) t
                      end) = (fst x, N.of_nat (i * L)) :: secs_from (Some (fst x)) (i + Layout.K p + 1) t).
      { destruct full; [rewrite C|]; reflexivity. }
      assert (SL : (match full with
                    | Some f => if (fst x - f <=? MAXD)%N then 1 + slots_from full t else Layout.K p + 1 + slots_from (Some (fst x)) t
                    | None => Layout.K p + 1 + slots_from (Some (fst x)) t
                    end) = Layout.K p + 1 + slots_from (Some (fst x)) t).
      { destruct full; [rewrite C|]; reflexivity. }
      rewrite SECS, SL. cbn [rev]. rewrite <- !app_assoc. cbn [app].
      destruct x as [tx px]. cbn [fst snd]. unfold mk. f_equal; try lia.
      * destruct t; cbn [slots_from]; lia.
      * destruct (rev (secs_from (Some tx) (i + Layout.K p + 1) t)) eqn:R; cbn [app snd].
        -- rewrite Nat2N.id. rewrite Nat.div_mul by lia. reflexivity.
        -- reflexivity.
Qed.

(* ---- well-formed series ---- *)
Definition wf_series (l:list line) : Prop :=
  StronglySorted N.lt (map fst l) /\ Forall (fun x => (fst x < 2^64)%N /\ length (snd x) = p) l.

Lemma full_after_some : forall l f, exists f', full_after (Some f) l = Some f'.
Proof.
  induction l as [|x t IH]; intros f; cbn [full_after]; [eauto|].
  unfold tail_bytes. destruct (fst x - f <=? MAXD)%N; cbn [snd]; apply IH.
Qed.
Lemma full_after_cons_none x t : exists f', full_after None (x :: t) = Some f'.
Proof. cbn [full_after tail_bytes snd]. apply full_after_some. Qed.

Lemma wf_ok_from : forall l full, wf_series l ->
  (match full, l with Some f, x :: _ => (f <= fst x)%N | _, _ => True end) -> ok_from full l.
Proof.
  induction l as [|x t IH]; intros full [S F] Hf; cbn [ok_from]; [exact I|].
  inversion F as [|? ? [Hx Hp] Ft]; subst. cbn [map] in S. inversion S as [|? ? St Hall]; subst.
  split; [exact Hp|]. split; [exact Hx|]. split; [destruct full; [exact Hf|exact I]|].
  split.
  - destruct t as [|y t']; [exact I|]. cbn [map] in Hall. inversion Hall; subst. assumption.
  - apply IH; [split; assumption|].
    destruct t as [|y t']; [destruct (snd (tail_bytes p full x)); exact I|].
    cbn [map] in Hall. inversion Hall as [|? ? Hxy _]; subst.
    unfold tail_bytes. destruct full as [f|]; [destruct (fst x - f <=? MAXD)%N|]; cbn [snd]; lia.
Qed.

Lemma encode_length l : Forall (fun x => length (snd x) = p) l ->
  length (encode p l) = slots_from None l * L.
Proof.
  intros H. destruct (encode_from_slots l None H) as (ls & E & F & N). unfold encode. rewrite E.
  rewrite (concat_length_uniform L) by exact F. rewrite N. reflexivity.
Qed.

Lemma wf_payloads l : wf_series l -> Forall (fun x => length (snd x) = p) l.
Proof. intros [_ F]. eapply Forall_impl; [|exact F]. intros a [_ H]. exact H. Qed.

Theorem scan_encode l : wf_series l ->
  scan p (encode p l)
  = mk (st_of (full_after None l)) (slots_from None l) (rev l) (rev (secs_from None 0 l))
       (match l with [] => 0 | _ => slots_from None l end)
       (match rev (secs_from None 0 l) with [] => 0 | s :: _ => N.to_nat (snd s) / L end).
Proof.
  intros W. unfold scan, encode.
  pose proof (scan_encode_from l None 0 [] [] 0 0 (wf_ok_from l None W I)) as H.
  change fscan0 with (mk (st_of None) 0 [] [] 0 0). rewrite H. rewrite !app_nil_r. reflexivity.
Qed.

Theorem decode_encode l : wf_series l -> decode p (encode p l) = Some l.
Proof.
  intros W. unfold decode. rewrite (scan_encode l W). cbn [f_st f_idx f_good f_lines mk].
  destruct l as [|x t].
  - reflexivity.
  - destruct (full_after_cons_none x t) as [f' E]. rewrite E. cbn [st_of].
    rewrite (encode_length _ (wf_payloads _ W)).
    rewrite Nat.mod_mul by lia. rewrite !Nat.eqb_refl. cbn [andb]. rewrite frev_rev, rev_involutive. reflexivity.
Qed.

Theorem recover_encode l : wf_series l -> recover p (encode p l) = Some (l, N.of_nat (length (encode p l))).
Proof.
  intros W. unfold recover. rewrite (scan_encode l W). cbn [f_st f_idx f_good f_lines mk].
  rewrite (encode_length _ (wf_payloads _ W)). rewrite frev_rev, rev_involutive.
  destruct l as [|x t].
  - reflexivity.
  - destruct (full_after_cons_none x t) as [f' E]. rewrite E. reflexivity.
Qed.

Theorem sections_encode l : wf_series l -> sections p (encode p l) = secs_from None 0 l.
Proof. intros W. unfold sections. rewrite (scan_encode l W). cbn [f_secs mk]. rewrite frev_rev. apply rev_involutive. Qed.

Theorem last_full_encode l : wf_series l -> last_full p (encode p l) = full_after None l.
Proof.
  intros W. unfold last_full. rewrite (scan_encode l W). cbn [f_st mk].
  destruct (full_after None l); reflexivity.
Qed.

(* C15/C16 core: appending a line appends bytes, and exactly those the 65534 rule prescribes *)
Lemma encode_from_app : forall l1 l2 full,
  encode_from p full (l1 ++ l2) = encode_from p full l1 ++ encode_from p (full_after full l1) l2.
Proof.
  induction l1 as [|x t IH]; intros l2 full; cbn [app encode_from full_after]; [reflexivity|].
  destruct (tail_bytes p full x) as [b f'] eqn:E. cbn [snd]. rewrite IH, app_assoc. reflexivity.
Qed.
Theorem encode_snoc l x : encode p (l ++ [x]) = encode p l ++ fst (tail_bytes p (full_after None l) x).
Proof.
  unfold encode. rewrite encode_from_app. cbn [encode_from].
  destruct (tail_bytes p (full_after None l) x). cbn [fst]. rewrite app_nil_r. reflexivity.
Qed.
Theorem full_after_snoc l x full : full_after full (l ++ [x]) = snd (tail_bytes p (full_after full l) x).
Proof. revert full. induction l as [|y t IH]; intros full; cbn [app full_after]; [reflexivity|apply IH]. Qed.

(* the 65534 rule, as a characterisation: a section is emitted exactly for the first line and when
   the distance to the last full timestamp exceeds 65534; every other line costs p+2 bytes *)
Theorem tail_bytes_rule full x : length (snd x) = p ->
  match full with
  | Some f => if (fst x - f <=? 65534)%N
              then length (fst (tail_bytes p full x)) = L
              else length (fst (tail_bytes p full x)) = (Layout.K p + 1) * L
  | None => length (fst (tail_bytes p full x)) = (Layout.K p + 1) * L
  end.
Proof.
  intros Hp. unfold tail_bytes, MAXD.
  destruct full as [f|]; [destruct (fst x - f <=? 65534)%N|]; cbn [fst];
    rewrite ?app_length, ?enc_section_length, ?(enc_line_length _ _ Hp); lia.
Qed.

(* the last full timestamp of an encoding is not after its last line *)
Lemma full_after_le_last : forall l full f', ok_from full l -> full_after full l = Some f' ->
  forall x, last_opt l = Some x -> (f' <= fst x)%N.
Proof.
  induction l as [|y t IH]; intros full f' OK FA x LO; [discriminate|].
  cbn [ok_from] in OK. destruct OK as (_ & _ & Hf & Hn & OK'). cbn [full_after] in FA.
  destruct t as [|z t'].
  - cbn [full_after] in FA. cbn [last_opt last] in LO. inversion LO; subst x.
    unfold tail_bytes in FA. destruct full as [f|]; [destruct (fst y - f <=? MAXD)%N|]; cbn [snd] in FA; inversion FA; subst; lia.
  - eapply IH; [exact OK'|exact FA|]. cbn [last_opt] in *. rewrite Layout.last_cons in LO. exact LO.
Qed.

(* ---- appending one line to any legal region (not only canonical ones) ---- *)
Lemma fscan_eta (s:fscan) : s = mk (f_st s) (f_idx s) (f_lines s) (f_secs s) (f_good s) (f_sec_start s).
Proof. destruct s; reflexivity. Qed.

Lemma scan_app_aligned a b : length a mod L = 0 ->
  scan p (a ++ b) = fold_left (fstep p) (chunks L b) (scan p a).
Proof. intros H. unfold scan. rewrite chunks_app_aligned by (try lia; exact H). apply fold_left_app. Qed.

Lemma fstep_idx s x : f_idx (fstep p s x) = S (f_idx s).
Proof.
  unfold fstep. destruct (f_st s); try reflexivity;
    repeat match goal with |- context [if ?c then _ else _] => destruct c end; reflexivity.
Qed.
Lemma fold_idx : forall ls s, f_idx (fold_left (fstep p) ls s) = f_idx s + length ls.
Proof. induction ls as [|x t IH]; intros s; cbn [fold_left length]; [lia|]. rewrite IH, fstep_idx. lia. Qed.
Lemma scan_idx region : f_idx (scan p region) = length (chunks L region).
Proof. unfold scan. rewrite fold_idx. reflexivity. Qed.

(* legal: line-aligned and the decoder ends outside a section, right after a data line (or empty) *)
Definition legal (region:list byte) (full:option N) : Prop :=
  length region mod L = 0 /\ f_st (scan p region) = st_of full /\ f_good (scan p region) = f_idx (scan p region).

Lemma legal_nil : legal [] None.
Proof. unfold legal, scan. rewrite chunks_nil. cbn. repeat split; apply Nat.mod_0_l; lia. Qed.

Definition line_ok (full:option N) (x:line) : Prop :=
  length (snd x) = p /\ (fst x < 2^64)%N /\ match full with Some f => (f <= fst x)%N | None => True end.

Theorem scan_push region full x : legal region full -> line_ok full x ->
  let tb := tail_bytes p full x in
  let s := scan p region in
  scan p (region ++ fst tb)
  = mk (st_of (snd tb)) (f_idx s + slots_from full [x]) (x :: f_lines s)
       (rev (secs_from full (f_idx s) [x]) ++ f_secs s) (f_idx s + slots_from full [x])
       (match rev (secs_from full (f_idx s) [x]) with [] => f_sec_start s | e :: _ => N.to_nat (snd e) / L end).
Proof.
  intros (Al & St & Gd) (Hp & Ht & Hf). cbn zeta.
  rewrite scan_app_aligned by exact Al.
  rewrite (fscan_eta (scan p region)), St.
  assert (E : fst (tail_bytes p full x) = encode_from p full [x]).
  { cbn [encode_from]. destruct (tail_bytes p full x). cbn [fst]. rewrite app_nil_r. reflexivity. }
  rewrite E.
  assert (OK : ok_from full [x]). { cbn [ok_from]. repeat split; try assumption. }
  pose proof (scan_encode_from [x] full (f_idx (scan p region)) (f_lines (scan p region)) (f_secs (scan p region))
                (f_good (scan p region)) (f_sec_start (scan p region)) OK) as H.
  etransitivity; [exact H|]. cbn [full_after rev app f_idx f_lines f_secs f_sec_start mk]. reflexivity.
Qed.

Corollary legal_push region full x : legal region full -> line_ok full x ->
  legal (region ++ fst (tail_bytes p full x)) (snd (tail_bytes p full x)).
Proof.
  intros Lg Ok. pose proof (scan_push region full x Lg Ok) as H. cbn zeta in H.
  destruct Lg as (Al & St & Gd). destruct Ok as (Hp & Ht & Hf).
  unfold legal. rewrite H. cbn [f_st f_good f_idx mk]. split; [|split; reflexivity].
  rewrite app_length. destruct (tail_bytes_slots full x Hp) as (ls & E & F & _). rewrite E.
  rewrite (concat_length_uniform L) by exact F.
  rewrite Nat.add_mod by lia. rewrite Al, Nat.mod_mul by lia. cbn [Nat.add]. apply Nat.mod_0_l. lia.
Qed.

Corollary decode_push region full x l : legal region full -> line_ok full x -> decode p region = Some l ->
  decode p (region ++ fst (tail_bytes p full x)) = Some (l ++ [x]).
Proof.
  intros Lg Ok D. pose proof (legal_push region full x Lg Ok) as (Al' & St' & Gd').
  pose proof (scan_push region full x Lg Ok) as H. cbn zeta in H.
  unfold decode in *. rewrite H in *. cbn [f_st f_good f_idx f_lines mk] in *.
  assert (SN : exists f', snd (tail_bytes p full x) = Some f').
  { unfold tail_bytes. destruct full as [f|]; [destruct (fst x - f <=? MAXD)%N|]; cbn [snd]; eauto. }
  destruct SN as [f' SN]. rewrite SN. cbn [st_of].
  rewrite Al', Nat.eqb_refl. cbn [andb].
  assert (L0 : frev (f_lines (scan p region)) = l).
  { destruct Lg as (Al & St & Gd). rewrite St in D. destruct full as [f|]; cbn [st_of] in D.
    - rewrite Al, Gd, !Nat.eqb_refl in D. cbn [andb] in D. inversion D. reflexivity.
    - destruct region; [inversion D; unfold scan; rewrite chunks_nil; reflexivity|discriminate]. }
  rewrite Nat.eqb_refl. rewrite frev_rev in L0. rewrite frev_rev. cbn [rev]. rewrite L0. reflexivity.
Qed.

Corollary sections_push region full x : legal region full -> line_ok full x ->
  sections p (region ++ fst (tail_bytes p full x))
  = sections p region ++ secs_from full (length region / L) [x].
Proof.
  intros Lg Ok. pose proof (scan_push region full x Lg Ok) as H. cbn zeta in H.
  unfold sections. rewrite H. cbn [f_secs mk]. rewrite !frev_rev, rev_app_distr, rev_involutive.
  destruct Lg as (Al & _ & _). rewrite scan_idx, chunks_length_aligned by (try lia; exact Al). reflexivity.
Qed.

Corollary last_full_push region full x : legal region full -> line_ok full x ->
  last_full p (region ++ fst (tail_bytes p full x)) = snd (tail_bytes p full x).
Proof.
  intros Lg Ok. pose proof (scan_push region full x Lg Ok) as H. cbn zeta in H.
  unfold last_full. rewrite H. cbn [f_st mk]. destruct (snd (tail_bytes p full x)); reflexivity.
Qed.
Lemma legal_last_full region full : legal region full -> last_full p region = full.
Proof. intros (_ & St & _). unfold last_full. rewrite St. destruct full; reflexivity. Qed.
End F.
