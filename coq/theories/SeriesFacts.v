(* Layer I refines Layer S for a series without caches: appends (C03, C15, C16, C06),
   accessors (C12). *)
From Coq Require Import List NArith ZArith Lia Bool Arith ZifyBool ZifyN ZifyNat Sorted.
From Coq Require Import Strings.Byte.
Require Import BS.Bytes BS.Common BS.CommonFacts BS.Api BS.Layout BS.Format BS.FormatFacts.
Require Import BS.FS BS.FSFacts BS.Meta BS.MetaFacts BS.Header BS.Reader BS.Index BS.Data BS.DataFacts BS.Seek BS.Series.
Require Import BS.Spec BS.SpecStep.
Import ListNotations.
Close Scope N_scope. Open Scope nat_scope.
Arguments N.add : simpl never. Arguments N.mul : simpl never. Arguments N.sub : simpl never.
Arguments N.div : simpl never. Arguments N.modulo : simpl never.
Arguments N.ltb : simpl never. Arguments N.leb : simpl never. Arguments N.eqb : simpl never.
Ltac Zify.zify_post_hook ::= Z.div_mod_to_equations.

(* an open series without caches whose content is the list of lines l *)
Record RepH (fs:fsys) (s:series) (p:nat) (hdr ihdr:list byte) (l:list line) : Prop := {
  rh_data : RepD fs (s_data s) p hdr ihdr (encode p l) (full_after p None l) (option_map fst (last_opt l));
  rh_wf : wf_series p l;
  rh_range : s_range s = first_last l;
  rh_down : s_down s = []
}.

Lemma mcatch_ok {A} (m:M A) h fs fs' a : m fs = (fs', Ok a) -> mcatch m h fs = (fs', Ok a).
Proof. intros H. unfold mcatch. rewrite H. reflexivity. Qed.

Lemma first_last_last_opt l : first_last l = match l with [] => None | x :: _ => option_map (fun y => (fst x, fst y)) (last_opt l) end.
Proof. destruct l as [|x t]; [reflexivity|]. cbn [first_last last_opt option_map]. rewrite Layout.last_cons. reflexivity. Qed.

Lemma sorted_le_last : forall (l:list line) y, StronglySorted N.lt (map fst l) -> last_opt l = Some y ->
  Forall (fun a => (fst a <= fst y)%N) l.
Proof.
  induction l as [|a t IH]; intros y S LO; [constructor|].
  cbn [map] in S. inversion S as [|? ? St Hall]; subst.
  destruct t as [|b t'].
  - cbn [last_opt last] in LO. inversion LO; subst. constructor; [lia|constructor].
  - cbn [last_opt] in LO. rewrite Layout.last_cons in LO.
    assert (IHt := IH y St LO).
    constructor; [|exact IHt].
    inversion IHt as [|? ? Hb _]; subst. cbn [map] in Hall. inversion Hall; subst. lia.
Qed.
Lemma sorted_snoc : forall (l:list N) x, StronglySorted N.lt l -> Forall (fun a => (a < x)%N) l -> StronglySorted N.lt (l ++ [x]).
Proof.
  induction l as [|a t IH]; intros x S F; cbn [app]; [repeat constructor|].
  inversion S as [|? ? St Hall]; subst. inversion F as [|? ? Ha Ft]; subst.
  constructor; [apply IH; assumption|]. apply Forall_app. split; [exact Hall|]. constructor; [exact Ha|constructor].
Qed.
Lemma wf_series_snoc p l x : wf_series p l -> (fst x < 2^64)%N -> length (snd x) = p ->
  (match last_opt l with Some y => (fst y < fst x)%N | None => True end) -> wf_series p (l ++ [x]).
Proof.
  intros [S F] Hx Hp Hl. split.
  - rewrite map_app. cbn [map]. apply sorted_snoc; [exact S|].
    destruct (last_opt l) as [y|] eqn:LO.
    + pose proof (sorted_le_last l y S LO) as LE. rewrite Forall_map.
      eapply Forall_impl; [|exact LE]. intros a Ha. cbn beta in Ha. lia.
    + destruct l; [constructor|discriminate].
  - apply Forall_app. split; [exact F|]. constructor; [split; assumption|constructor].
Qed.

Theorem push_line_ok fs s p hdr ihdr l ts pay :
  RepH fs s p hdr ihdr l -> (ts < 2^64)%N ->
  if accepts p l ts pay
  then exists fs' s', push_line s ts pay fs = (fs', Ok s')
         /\ RepH fs' s' p hdr ihdr (l ++ [(ts, pay)])
         /\ (forall g, g <> of_name (d_file (s_data s)) -> g <> of_name (ix_file (d_index (s_data s))) -> fs_get fs' g = fs_get fs g)
         /\ of_name (d_file (s_data s')) = of_name (d_file (s_data s))
         /\ of_name (ix_file (d_index (s_data s'))) = of_name (ix_file (d_index (s_data s)))
  else exists e, push_line s ts pay fs = (fs, Err e).
Proof.
  intros [RD W RR RDn] Hts. unfold accepts, push_line.
  rewrite (rd_p _ _ _ _ _ _ _ _ RD). unfold len.
  destruct (length pay =? p) eqn:LP.
  2:{ cbn [andb]. replace (N.of_nat (length pay) =? N.of_nat p)%N with false by (symmetry; apply N.eqb_neq; apply Nat.eqb_neq in LP; lia).
      cbn [negb]. eexists. reflexivity. }
  apply Nat.eqb_eq in LP.
  replace (N.of_nat (length pay) =? N.of_nat p)%N with true by (symmetry; apply N.eqb_eq; lia).
  replace (ts <? U64)%N with true by (symmetry; apply N.ltb_lt; unfold U64; cbn in Hts |- *; lia).
  cbn [negb andb]. rewrite RR, first_last_last_opt.
  destruct l as [|x0 t].
  - (* empty series *)
    cbn [last_opt].
    assert (LO : line_ok p None (ts, pay)) by (repeat split; assumption).
    destruct (push_data_ok fs (s_data s) p hdr ihdr _ _ _ ts pay RD LO) as (fs' & d' & E & RD' & Oth & N1 & N2).
    erewrite mbind_ok by (apply mcatch_ok; exact E). rewrite RDn. cbn [process_all].
    erewrite mbind_ok by reflexivity.
    do 2 eexists. split; [reflexivity|]. split; [|split; [exact Oth|split; assumption]].
    constructor; cbn [s_data s_range s_down].
    + cbn zeta in RD'. rewrite <- encode_snoc, <- full_after_snoc in RD'. rewrite last_opt_snoc. exact RD'.
    + apply wf_series_snoc; try assumption. exact I.
    + reflexivity.
    + reflexivity.
  - set (l := x0 :: t) in *.
    pose (y := last t x0). assert (LOy : last_opt l = Some y) by reflexivity.
    rewrite LOy. cbn [option_map].
    destruct (fst y <? ts)%N eqn:LT.
    + apply N.ltb_lt in LT.
      replace (ts <=? fst y)%N with false by (symmetry; apply N.leb_gt; exact LT).
      assert (FA : exists f', full_after p None l = Some f') by (apply full_after_cons_none).
      destruct FA as [f' FA].
      assert (LE : (f' <= fst y)%N).
      { eapply full_after_le_last; [apply (wf_ok_from p l None W I)|exact FA|exact LOy]. }
      assert (LO : line_ok p (full_after p None l) (ts, pay)).
      { rewrite FA. repeat split; try assumption. cbn [fst]. lia. }
      destruct (push_data_ok fs (s_data s) p hdr ihdr _ _ _ ts pay RD LO) as (fs' & d' & E & RD' & Oth & N1 & N2).
      erewrite mbind_ok by (apply mcatch_ok; exact E). rewrite RDn. cbn [process_all].
      erewrite mbind_ok by reflexivity.
      do 2 eexists. split; [reflexivity|]. split; [|split; [exact Oth|split; assumption]].
      constructor; cbn [s_data s_range s_down].
      * cbn zeta in RD'. rewrite <- encode_snoc, <- full_after_snoc in RD'. rewrite last_opt_snoc. exact RD'.
      * apply wf_series_snoc; try assumption; try (rewrite LOy; exact LT).
      * rewrite first_last_last_opt, last_opt_snoc. reflexivity.
      * reflexivity.
    + apply N.ltb_ge in LT.
      replace (ts <=? fst y)%N with true by (symmetry; apply N.leb_le; exact LT).
      eexists. reflexivity.
Qed.

(* C12: the accessors *)
Lemma slots_from_lines p : forall l full, slots_from p full l = length l + Layout.K p * length (secs_from p full 0 l).
Proof.
  assert (G : forall l full i j, length (secs_from p full i l) = length (secs_from p full j l)).
  { induction l as [|x t IH]; intros full i j; cbn [secs_from]; [reflexivity|].
    destruct full as [f|]; [destruct (fst x - f <=? MAXD)%N|]; cbn [length]; auto. }
  induction l as [|x t IH]; intros full; cbn [slots_from secs_from length]; [lia|].
  destruct full as [f|]; [destruct (fst x - f <=? MAXD)%N|]; cbn [length];
    rewrite IH; try rewrite (G t _ (S 0) 0); try rewrite (G t _ (0 + Layout.K p + 1) 0); lia.
Qed.

Theorem len_ok fs s p hdr ihdr l : RepH fs s p hdr ihdr l -> data_len_lines (s_data s) = Ok (len l).
Proof.
  intros [RD W _ _]. unfold data_len_lines.
  rewrite (rd_p _ _ _ _ _ _ _ _ RD), (rd_len _ _ _ _ _ _ _ _ RD), (rd_entries _ _ _ _ _ _ _ _ RD).
  rewrite (sections_encode p l W), K_eq.
  unfold len, line_size. rewrite (encode_length p l (wf_payloads p l W)), slots_from_lines.
  unfold u64_sub.
  assert (E : (N.of_nat ((length l + Layout.K p * length (secs_from p None 0 l)) * (p + 2)) / N.of_nat (p + 2)
               = N.of_nat (length l + Layout.K p * length (secs_from p None 0 l)))%N).
  { rewrite Nat2N.inj_mul. apply N.div_mul. lia. }
  rewrite E. unfold entry in *.
  match goal with |- context [(?a * ?b <=? ?c)%N] =>
    replace (a * b <=? c)%N with true by (symmetry; apply N.leb_le; nia) end.
  f_equal. nia.
Qed.

Theorem range_ok fs s p hdr ihdr l : RepH fs s p hdr ihdr l -> s_range s = first_last l.
Proof. intros R. exact (rh_range _ _ _ _ _ _ R). Qed.

Theorem payload_size_ok fs s p hdr ihdr l : RepH fs s p hdr ihdr l -> d_p (s_data s) = p.
Proof. intros [RD _ _ _]. exact (rd_p _ _ _ _ _ _ _ _ RD). Qed.

(* C16 for the model: an accepted append only adds bytes at the end of the data and index files
   and touches no other file; a refused one changes nothing *)
Corollary push_line_appends fs s p hdr ihdr l ts pay fs' s' :
  RepH fs s p hdr ihdr l -> (ts < 2^64)%N -> push_line s ts pay fs = (fs', Ok s') ->
  exists dtail itail,
    fs_get fs' (of_name (d_file (s_data s))) = option_map (fun c => c ++ dtail) (fs_get fs (of_name (d_file (s_data s))))
    /\ fs_get fs' (of_name (ix_file (d_index (s_data s)))) = option_map (fun c => c ++ itail) (fs_get fs (of_name (ix_file (d_index (s_data s)))))
    /\ (forall g, g <> of_name (d_file (s_data s)) -> g <> of_name (ix_file (d_index (s_data s))) -> fs_get fs' g = fs_get fs g).
Proof.
  intros R Hts E. pose proof (push_line_ok fs s p hdr ihdr l ts pay R Hts) as H.
  destruct (accepts p l ts pay).
  - destruct H as (fs2 & s2 & E2 & R2 & Oth & N1 & N2). rewrite E in E2. inversion E2; subst fs2 s2.
    destruct R as [RD W _ _]. destruct R2 as [RD2 W2 _ _].
    destruct (rd_file _ _ _ _ _ _ _ _ RD) as [G1 _]. destruct (rd_file _ _ _ _ _ _ _ _ RD2) as [G2 _].
    destruct (rd_ix _ _ _ _ _ _ _ _ RD) as [I1 _]. destruct (rd_ix _ _ _ _ _ _ _ _ RD2) as [I2 _].
    rewrite N1 in G2. rewrite N2 in I2.
    exists (fst (tail_bytes p (full_after p None l) (ts, pay))),
           (enc_index (secs_from p (full_after p None l) (length (encode p l) / (p + 2)) [(ts, pay)])).
    split; [|split; [|exact Oth]].
    + rewrite G2, G1. cbn [option_map]. rewrite encode_snoc, app_assoc. reflexivity.
    + rewrite I2, I1. cbn [option_map]. rewrite encode_snoc.
      assert (LO : line_ok p (full_after p None l) (ts, pay)).
      { pose proof (rd_legal _ _ _ _ _ _ _ _ RD2) as Lg2. clear -W W2 Hts.
        destruct W2 as [S2 F2]. apply Forall_app in F2. destruct F2 as [_ F2]. apply Forall_inv in F2. destruct F2 as [_ Hp]. cbn [snd] in Hp.
        repeat split; try assumption.
        destruct (full_after p None l) as [f'|] eqn:FA; [|exact I].
        destruct (last_opt l) as [y|] eqn:LO.
        - pose proof (full_after_le_last p l None f' (wf_ok_from p l None W I) FA y LO) as LE.
          rewrite map_app in S2. cbn [map fst] in *.
          pose proof (sorted_le_last l y (proj1 W) LO) as _.
          assert (LT : (fst y < ts)%N).
          { clear -S2 LO. revert y LO S2. induction l as [|a t IH]; intros y LO S2; [discriminate|].
            cbn [map app] in S2. inversion S2 as [|? ? St Hall]; subst.
            destruct t as [|b t'].
            - cbn [last_opt last] in LO. inversion LO; subst. cbn [map app] in Hall. inversion Hall; subst. assumption.
            - cbn [last_opt] in LO. rewrite Layout.last_cons in LO. apply IH; [exact LO|exact St]. }
          lia.
        - destruct l; [discriminate FA|discriminate]. }
      rewrite (sections_push p _ _ _ (rd_legal _ _ _ _ _ _ _ _ RD) LO), enc_index_app, app_assoc. reflexivity.
  - destruct H as [e H]. rewrite E in H. discriminate.
Qed.
