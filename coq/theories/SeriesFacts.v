(* Layer I refines Layer S for a series without caches: appends (C03, C15, C16, C06),
   accessors (C12). *)
From Coq Require Import List NArith ZArith Lia Bool Arith ZifyBool ZifyN ZifyNat Sorted.
From Coq Require Import Strings.Byte.
Require Import BS.Bytes BS.Common BS.CommonFacts BS.Api BS.Layout BS.Format BS.FormatFacts.
Require Import BS.FS BS.FSFacts BS.Meta BS.MetaFacts BS.Header BS.Reader BS.ReaderFacts BS.Index BS.Data BS.DataFacts BS.Seek BS.Series.
Require Import BS.Spec BS.SpecStep BS.SampleFacts.
Import ListNotations.
Close Scope N_scope. Open Scope nat_scope.
Arguments N.add : simpl never. Arguments N.mul : simpl never. Arguments N.sub : simpl never.
Arguments N.div : simpl never. Arguments N.modulo : simpl never.
Arguments N.ltb : simpl never. Arguments N.leb : simpl never. Arguments N.eqb : simpl never.
Ltac Zify.zify_post_hook ::= Z.div_mod_to_equations.

(* an open series without caches whose content is the list of lines l *)
Record RepH (fs:fsys) (s:series) (p:nat) (hdr ihdr:list byte) (l:list line) : Prop := {
  rh_data : RepD fs (s_data s) p hdr ihdr (encode p l) (full_after p None l) (option_map fst (last_opt l));
  rh_wf : wf_series p l;
  rh_range : s_range s = first_last l;
  rh_down : s_down s = []
}.

Lemma mcatch_ok {A} (m:M A) h fs fs' a : m fs = (fs', Ok a) -> mcatch m h fs = (fs', Ok a).
Proof. intros H. unfold mcatch. rewrite H. reflexivity. Qed.

Lemma first_last_last_opt l : first_last l = match l with [] => None | x :: _ => option_map (fun y => (fst x, fst y)) (last_opt l) end.
Proof. destruct l as [|x t]; [reflexivity|]. cbn [first_last last_opt option_map]. rewrite Layout.last_cons. reflexivity. Qed.

Lemma sorted_le_last : forall (l:list line) y, StronglySorted N.lt (map fst l) -> last_opt l = Some y ->
  Forall (fun a => (fst a <= fst y)%N) l.
Proof.
  induction l as [|a t IH]; intros y S LO; [constructor|].
  cbn [map] in S. inversion S as [|? ? St Hall]; subst.
  destruct t as [|b t'].
  - cbn [last_opt last] in LO. inversion LO; subst. constructor; [lia|constructor].
  - cbn [last_opt] in LO. rewrite Layout.last_cons in LO.
    assert (IHt := IH y St LO).
    constructor; [|exact IHt].
    inversion IHt as [|? ? Hb _]; subst. cbn [map] in Hall. inversion Hall; subst. lia.
Qed.
Lemma sorted_snoc : forall (l:list N) x, StronglySorted N.lt l -> Forall (fun a => (a < x)%N) l -> StronglySorted N.lt (l ++ [x]).
Proof.
  induction l as [|a t IH]; intros x S F; cbn [app]; [repeat constructor|].
  inversion S as [|? ? St Hall]; subst. inversion F as [|? ? Ha Ft]; subst.
  constructor; [apply IH; assumption|]. apply Forall_app. split; [exact Hall|]. constructor; [exact Ha|constructor].
Qed.
Lemma wf_series_snoc p l x : wf_series p l -> (fst x < 2^64)%N -> length (snd x) = p ->
  (match last_opt l with Some y => (fst y < fst x)%N | None => True end) -> wf_series p (l ++ [x]).
Proof.
  intros [S F] Hx Hp Hl. split.
  - rewrite map_app. cbn [map]. apply sorted_snoc; [exact S|].
    destruct (last_opt l) as [y|] eqn:LO.
    + pose proof (sorted_le_last l y S LO) as LE. rewrite Forall_map.
      eapply Forall_impl; [|exact LE]. intros a Ha. cbn beta in Ha. lia.
    + destruct l; [constructor|discriminate].
  - apply Forall_app. split; [exact F|]. constructor; [split; assumption|constructor].
Qed.

Theorem push_line_ok fs s p hdr ihdr l ts pay :
  RepH fs s p hdr ihdr l -> (ts < 2^64)%N ->
  if accepts p l ts pay
  then exists fs' s', push_line s ts pay fs = (fs', Ok s')
         /\ RepH fs' s' p hdr ihdr (l ++ [(ts, pay)])
         /\ (forall g, g <> of_name (d_file (s_data s)) -> g <> of_name (ix_file (d_index (s_data s))) -> fs_get fs' g = fs_get fs g)
         /\ of_name (d_file (s_data s')) = of_name (d_file (s_data s))
         /\ of_name (ix_file (d_index (s_data s'))) = of_name (ix_file (d_index (s_data s)))
  else exists e, push_line s ts pay fs = (fs, Err e).
Proof.
  intros [RD W RR RDn] Hts. unfold accepts, push_line.
  rewrite (rd_p _ _ _ _ _ _ _ _ RD). unfold len.
  destruct (length pay =? p) eqn:LP.
  2:{ cbn [andb]. replace (N.of_nat (length pay) =? N.of_nat p)%N with false by (symmetry; apply N.eqb_neq; apply Nat.eqb_neq in LP; lia).
      cbn [negb]. eexists. reflexivity. }
  apply Nat.eqb_eq in LP.
  replace (N.of_nat (length pay) =? N.of_nat p)%N with true by (symmetry; apply N.eqb_eq; lia).
  replace (ts <? U64)%N with true by (symmetry; apply N.ltb_lt; unfold U64; cbn in Hts |- *; lia).
  cbn [negb andb]. rewrite RR, first_last_last_opt.
  destruct l as [|x0 t].
  - (* empty series *)
    cbn [last_opt].
    assert (LO : line_ok p None (ts, pay)) by (repeat split; assumption).
    destruct (push_data_ok fs (s_data s) p hdr ihdr _ _ _ ts pay RD LO) as (fs' & d' & E & RD' & Oth & N1 & N2).
    erewrite mbind_ok by (apply mcatch_ok; exact E). rewrite RDn. cbn [process_all].
    erewrite mbind_ok by reflexivity.
    do 2 eexists. split; [reflexivity|]. split; [|split; [exact Oth|split; assumption]].
    constructor; cbn [s_data s_range s_down].
    + cbn zeta in RD'. rewrite <- encode_snoc, <- full_after_snoc in RD'. rewrite last_opt_snoc. exact RD'.
    + apply wf_series_snoc; try assumption. exact I.
    + reflexivity.
    + reflexivity.
  - set (l := x0 :: t) in *.
    pose (y := last t x0). assert (LOy : last_opt l = Some y) by reflexivity.
    rewrite LOy. cbn [option_map].
    destruct (fst y <? ts)%N eqn:LT.
    + apply N.ltb_lt in LT.
      replace (ts <=? fst y)%N with false by (symmetry; apply N.leb_gt; exact LT).
      assert (FA : exists f', full_after p None l = Some f') by (apply full_after_cons_none).
      destruct FA as [f' FA].
      assert (LE : (f' <= fst y)%N).
      { eapply full_after_le_last; [apply (wf_ok_from p l None W I)|exact FA|exact LOy]. }
      assert (LO : line_ok p (full_after p None l) (ts, pay)).
      { rewrite FA. repeat split; try assumption. cbn [fst]. lia. }
      destruct (push_data_ok fs (s_data s) p hdr ihdr _ _ _ ts pay RD LO) as (fs' & d' & E & RD' & Oth & N1 & N2).
      erewrite mbind_ok by (apply mcatch_ok; exact E). rewrite RDn. cbn [process_all].
      erewrite mbind_ok by reflexivity.
      do 2 eexists. split; [reflexivity|]. split; [|split; [exact Oth|split; assumption]].
      constructor; cbn [s_data s_range s_down].
      * cbn zeta in RD'. rewrite <- encode_snoc, <- full_after_snoc in RD'. rewrite last_opt_snoc. exact RD'.
      * apply wf_series_snoc; try assumption; try (rewrite LOy; exact LT).
      * rewrite first_last_last_opt, last_opt_snoc. reflexivity.
      * reflexivity.
    + apply N.ltb_ge in LT.
      replace (ts <=? fst y)%N with true by (symmetry; apply N.leb_le; exact LT).
      eexists. reflexivity.
Qed.

(* C12: the accessors *)
Lemma slots_from_lines p : forall l full, slots_from p full l = length l + Layout.K p * length (secs_from p full 0 l).
Proof.
  assert (G : forall l full i j, length (secs_from p full i l) = length (secs_from p full j l)).
  { induction l as [|x t IH]; intros full i j; cbn [secs_from]; [reflexivity|].
    destruct full as [f|]; [destruct (fst x - f <=? MAXD)%N|]; cbn [length]; auto. }
  induction l as [|x t IH]; intros full; cbn [slots_from secs_from length]; [lia|].
  destruct full as [f|]; [destruct (fst x - f <=? MAXD)%N|]; cbn [length];
    rewrite IH; try rewrite (G t _ (S 0) 0); try rewrite (G t _ (0 + Layout.K p + 1) 0); lia.
Qed.

Theorem len_ok fs s p hdr ihdr l : RepH fs s p hdr ihdr l -> data_len_lines (s_data s) = Ok (len l).
Proof.
  intros [RD W _ _]. unfold data_len_lines.
  rewrite (rd_p _ _ _ _ _ _ _ _ RD), (rd_len _ _ _ _ _ _ _ _ RD), (rd_entries _ _ _ _ _ _ _ _ RD).
  rewrite (sections_encode p l W), K_eq.
  unfold len, line_size. rewrite (encode_length p l (wf_payloads p l W)), slots_from_lines.
  unfold u64_sub.
  assert (E : (N.of_nat ((length l + Layout.K p * length (secs_from p None 0 l)) * (p + 2)) / N.of_nat (p + 2)
               = N.of_nat (length l + Layout.K p * length (secs_from p None 0 l)))%N).
  { rewrite Nat2N.inj_mul. apply N.div_mul. lia. }
  rewrite E.
  match goal with |- context [(?a * ?b <=? ?c)%N] =>
    replace (a * b <=? c)%N with true by (symmetry; apply N.leb_le; nia) end.
  f_equal. nia.
Qed.

Theorem range_ok fs s p hdr ihdr l : RepH fs s p hdr ihdr l -> s_range s = first_last l.
Proof. intros R. exact (rh_range _ _ _ _ _ _ R). Qed.

Theorem payload_size_ok fs s p hdr ihdr l : RepH fs s p hdr ihdr l -> d_p (s_data s) = p.
Proof. intros [RD _ _ _]. exact (rd_p _ _ _ _ _ _ _ _ RD). Qed.

(* C16 for the model: an accepted append only adds bytes at the end of the data and index files
   and touches no other file; a refused one changes nothing *)
Corollary push_line_appends fs s p hdr ihdr l ts pay fs' s' :
  RepH fs s p hdr ihdr l -> (ts < 2^64)%N -> push_line s ts pay fs = (fs', Ok s') ->
  exists dtail itail,
    fs_get fs' (of_name (d_file (s_data s))) = option_map (fun c => c ++ dtail) (fs_get fs (of_name (d_file (s_data s))))
    /\ fs_get fs' (of_name (ix_file (d_index (s_data s)))) = option_map (fun c => c ++ itail) (fs_get fs (of_name (ix_file (d_index (s_data s)))))
    /\ (forall g, g <> of_name (d_file (s_data s)) -> g <> of_name (ix_file (d_index (s_data s))) -> fs_get fs' g = fs_get fs g).
Proof.
  intros R Hts E. pose proof (push_line_ok fs s p hdr ihdr l ts pay R Hts) as H.
  destruct (accepts p l ts pay).
  - destruct H as (fs2 & s2 & E2 & R2 & Oth & N1 & N2). rewrite E in E2. inversion E2; subst fs2 s2.
    destruct R as [RD W _ _]. destruct R2 as [RD2 W2 _ _].
    destruct (rd_file _ _ _ _ _ _ _ _ RD) as [G1 _]. destruct (rd_file _ _ _ _ _ _ _ _ RD2) as [G2 _].
    destruct (rd_ix _ _ _ _ _ _ _ _ RD) as [I1 _]. destruct (rd_ix _ _ _ _ _ _ _ _ RD2) as [I2 _].
    rewrite N1 in G2. rewrite N2 in I2.
    exists (fst (tail_bytes p (full_after p None l) (ts, pay))),
           (enc_index (secs_from p (full_after p None l) (length (encode p l) / (p + 2)) [(ts, pay)])).
    split; [|split; [|exact Oth]].
    + rewrite G2, G1. cbn [option_map]. rewrite encode_snoc, app_assoc. reflexivity.
    + rewrite I2, I1. cbn [option_map]. rewrite encode_snoc.
      assert (LO : line_ok p (full_after p None l) (ts, pay)).
      { pose proof (rd_legal _ _ _ _ _ _ _ _ RD2) as Lg2. clear -W W2 Hts.
        destruct W2 as [S2 F2]. apply Forall_app in F2. destruct F2 as [_ F2]. apply Forall_inv in F2. destruct F2 as [_ Hp]. cbn [snd] in Hp.
        repeat split; try assumption.
        destruct (full_after p None l) as [f'|] eqn:FA; [|exact I].
        destruct (last_opt l) as [y|] eqn:LO.
        - pose proof (full_after_le_last p l None f' (wf_ok_from p l None W I) FA y LO) as LE.
          rewrite map_app in S2. cbn [map fst] in *.
          pose proof (sorted_le_last l y (proj1 W) LO) as _.
          assert (LT : (fst y < ts)%N).
          { clear -S2 LO. revert y LO S2. induction l as [|a t IH]; intros y LO S2; [discriminate|].
            cbn [map app] in S2. inversion S2 as [|? ? St Hall]; subst.
            destruct t as [|b t'].
            - cbn [last_opt last] in LO. inversion LO; subst. cbn [map app] in Hall. inversion Hall; subst. assumption.
            - cbn [last_opt] in LO. rewrite Layout.last_cons in LO. apply IH; [exact LO|exact St]. }
          lia.
        - destruct l; [discriminate FA|discriminate]. }
      rewrite (sections_push p _ _ _ (rd_legal _ _ _ _ _ _ _ _ RD) LO), enc_index_app, app_assoc. reflexivity.
  - destruct H as [e H]. rewrite E in H. discriminate.
Qed.

(* ---- C01 for the model: a full read returns exactly the accepted lines ---- *)
Lemma next_multiple_of_spec a m : (0 < m)%N ->
  let r := next_multiple_of a m in (r mod m = 0)%N /\ (a <= r)%N /\ (r < a + m)%N.
Proof.
  intros Hm. unfold next_multiple_of. destruct (a mod m =? 0)%N eqn:E.
  - apply N.eqb_eq in E. cbn zeta. repeat split; try lia; try exact E.
  - apply N.eqb_neq in E. cbn zeta. pose proof (N.mod_lt a m ltac:(lia)).
    pose proof (N.div_mod a m ltac:(lia)).
    repeat split; try lia.
    replace (a + (m - a mod m))%N with ((a / m + 1) * m)%N by nia. apply N.mod_mul. lia.
Qed.

Lemma feed_read : forall (l:list line) last out,
  StronglySorted N.lt (map fst l) -> Forall (fun x => (fst x < U64)%N) l ->
  (match l with x :: _ => (last < fst x)%N \/ fst x = 0%N | [] => True end) ->
  feed _ proc_read (last, out) l = PCont (match last_opt l with Some y => fst y | None => last end, rev l ++ out).
Proof.
  induction l as [|x t IH]; intros last out S F H; cbn [feed]; [reflexivity|].
  inversion F as [|? ? Hx Ft]; subst. cbn [map] in S. inversion S as [|? ? St Hall]; subst.
  replace (fst x <? U64)%N with true by (symmetry; apply N.ltb_lt; exact Hx).
  unfold proc_read at 1.
  replace ((last <? fst x) || (fst x =? 0))%N with true
    by (symmetry; apply orb_true_iff; destruct H as [H|H]; [left; apply N.ltb_lt; exact H|right; apply N.eqb_eq; exact H]).
  rewrite IH; try assumption.
  - f_equal. destruct x as [tx px]. cbn [fst snd]. f_equal.
    + destruct t as [|y t']; [reflexivity|]. cbn [last_opt]. rewrite Layout.last_cons. reflexivity.
    + cbn [rev]. rewrite <- app_assoc. reflexivity.
  - destruct t as [|y t']; [exact I|]. left. cbn [map] in Hall. inversion Hall; subst. assumption.
Qed.

Lemma encode_cons p x t : encode p (x :: t) = enc_section p (fst x) ++ enc_line 0 (snd x) ++ encode_from p (Some (fst x)) t.
Proof. unfold encode. cbn [encode_from tail_bytes]. rewrite <- app_assoc. reflexivity. Qed.

Lemma chunks_region_cons p x t : wf_series p (x :: t) ->
  chunks (p + 2) (encode p (x :: t))
  = Layout.sec_slots p (fst x) ++ chunks (p + 2) (enc_line 0 (snd x) ++ encode_from p (Some (fst x)) t).
Proof.
  intros W. rewrite encode_cons. unfold enc_section. apply chunks_app; [lia|apply sec_slots_lengths].
Qed.

Section FullRead.
Variables (fs:fsys) (d:data) (p:nat) (hdr ihdr:list byte) (x:line) (t:list line) (f':N).
Let l := x :: t.
Let region := encode p l.
Let y := last t x.
Hypothesis RD : RepD fs d p hdr ihdr region (Some f') (Some (fst y)).
Hypothesis W : wf_series p l.

Lemma fr_sizes : length region = (Layout.K p + 1 + slots_from p (Some (fst x)) t) * (p + 2)
                 /\ metainfo_size p = N.of_nat (Layout.K p * (p + 2)) /\ (fst x <= fst y)%N.
Proof.
  split; [|split].
  - unfold region. rewrite (encode_length p l (wf_payloads p l W)). reflexivity.
  - unfold metainfo_size, line_size. rewrite K_eq. lia.
  - pose proof (sorted_le_last l y (proj1 W) eq_refl) as F. inversion F; subst. assumption.
Qed.

Lemma rough_new_unb :
  rough_new d Unb Unb
  = Ok {| start_ts := fst x; start_area_ := SFound (metainfo_size p); start_full := fst x;
          end_ts := fst y; end_area_ := EFound (len region - line_size p)%N; end_full := f' |}.
Proof.
  destruct fr_sizes as (RL & KL & LE).
  destruct RD as [Rp Rf Rl Rix Re Rlast Rlegal Rdl Rn].
  pose proof (sections_encode p _ W) as SE. fold region in SE. unfold l in SE. cbn [secs_from] in SE.
  unfold rough_new, checked_start_time, checked_end_time, data_range.
  rewrite Re, SE, Rdl. cbn [bind fst snd].
  rewrite N.max_id, N.min_id.
  replace (fst y <? fst x)%N with false by (symmetry; apply N.ltb_ge; exact LE).
  cbn [bind]. rewrite Rp, Rl, Rlast.
  replace (len region <? line_size p)%N with false
    by (symmetry; apply N.ltb_ge; unfold len, line_size; rewrite RL; nia).
  cbn [bind fst snd]. unfold line_start. rewrite N.add_0_l.
  replace (fst y <? fst x)%N with false by (symmetry; apply N.ltb_ge; exact LE). reflexivity.
Qed.

Lemma refine_unb r : r = {| start_ts := fst x; start_area_ := SFound (metainfo_size p); start_full := fst x;
          end_ts := fst y; end_area_ := EFound (len region - line_size p)%N; end_full := f' |} ->
  refine r d fs = (fs, Ok (Some {| p_start := metainfo_size p; p_end := len region; p_full := fst x |})).
Proof.
  intros ->. destruct fr_sizes as (RL & KL & LE).
  unfold refine. cbn [start_area_ end_area_ start_full].
  erewrite mbind_ok by reflexivity. erewrite mbind_ok by reflexivity.
  rewrite (rd_p _ _ _ _ _ _ _ _ RD).
  replace (len region - line_size p + line_size p)%N with (len region) by (unfold len, line_size; rewrite RL; nia).
  replace (len region <=? metainfo_size p)%N with false
    by (symmetry; apply N.leb_gt; rewrite KL; unfold len; rewrite RL; nia).
  reflexivity.
Qed.

Lemma rwp_full (St:Type) (proc:St -> N -> list byte -> pres St) cb0 (acc:St) :
  read_with_processor St proc p cb0 region (metainfo_size p) (len region) (fst x) acc
  = match feed St proc acc l with PCont a => RDone a | PStop a => RStopped a | PPanic => RPanic end.
Proof.
  destruct fr_sizes as (RL & KL & LE).
  pose proof (wf_payloads p _ W) as WP.
  destruct RD as [Rp Rf Rl Rix Re Rlast Rlegal Rdl Rn].
  unfold read_with_processor.
  replace (len region <? metainfo_size p)%N with false
    by (symmetry; apply N.ltb_ge; rewrite KL; unfold len; rewrite RL; nia).
  set (chunkN := next_multiple_of BSgen.Consts.read_chunk (N.of_nat (p + 2))).
  destruct (next_multiple_of_spec BSgen.Consts.read_chunk (N.of_nat (p + 2)) ltac:(lia)) as (CM & CGE & _).
  fold chunkN in CM, CGE.
  assert (CPOS : (0 < chunkN)%N) by (assert (0 < BSgen.Consts.read_chunk)%N by reflexivity; lia).
  set (to_read := (len region - metainfo_size p)%N).
  assert (TR : to_read = N.of_nat (length region - Layout.K p * (p + 2))).
  { unfold to_read, len. rewrite KL. lia. }
  pose proof (chunk_loop_is_scan St proc p cb0
               (S (N.to_nat (N.min (to_read / chunkN) (len region / chunkN + 1)))) (N.to_nat chunkN)
               region (Layout.K p * (p + 2)) (length region - Layout.K p * (p + 2)) (fst x) RN acc) as CL.
  cbn [held_slots concat base] in CL. rewrite N2Nat.id, <- TR, <- KL in CL.
  rewrite CL; clear CL.
  2:{ lia. }
  2:{ replace (p + 2) with (N.to_nat (N.of_nat (p + 2))) by lia. rewrite <- N2Nat.inj_mod by lia.
      rewrite CM. reflexivity. }
  2:{ rewrite RL. replace ((Layout.K p + 1 + slots_from p (Some (fst x)) t) * (p + 2) - Layout.K p * (p + 2))
        with ((1 + slots_from p (Some (fst x)) t) * (p + 2)) by nia. apply Nat.mod_mul. lia. }
  2:{ lia. }
  2:{ assert (Hd : (to_read / chunkN <= len region / chunkN)%N) by (apply N.div_le_mono; unfold to_read; lia).
      rewrite N.min_l by lia.
      pose proof (N.div_mod to_read chunkN ltac:(lia)). pose proof (N.mod_lt to_read chunkN ltac:(lia)).
      assert (N.of_nat (length region - Layout.K p * (p + 2)) <= N.of_nat (S (N.to_nat (to_read / chunkN)) * N.to_nat chunkN))%N; [|lia].
      rewrite <- TR. rewrite Nat2N.inj_mul, Nat2N.inj_succ, !N2Nat.id. nia. }
  2:{ reflexivity. }
  2:{ exact I. }
  2:{ constructor. }
  (* what was scanned: everything after the first section *)
  assert (SK : firstn (length region - Layout.K p * (p + 2)) (skipn (Layout.K p * (p + 2)) region)
               = enc_line 0 (snd x) ++ encode_from p (Some (fst x)) t).
  { unfold region, l. rewrite encode_cons.
    rewrite <- (enc_section_length p (fst x)). rewrite skipn_app, Nat.sub_diag, skipn_all. cbn [skipn app].
    apply firstn_all2. rewrite !app_length. lia. }
  rewrite SK.
  pose proof (scan_encode p _ W) as SC. unfold scan in SC.
  unfold l in SC. rewrite (chunks_region_cons p x t W), fold_left_app in SC.
  change fscan0 with (mk FStart 0 [] [] 0 0) in SC.
  rewrite (fold_section p FStart 0 [] [] 0 0 (fst x) I) in SC
    by (destruct W as [_ F]; inversion F as [|? ? [H _] _]; exact H).
  assert (FL : Forall (fun s0 => length s0 = p + 2) (chunks (p + 2) (enc_line 0 (snd x) ++ encode_from p (Some (fst x)) t))).
  { pose proof (Forall_inv WP) as Hpx. pose proof (Forall_inv_tail WP) as WPt. cbn beta in Hpx.
    destruct (encode_from_slots p t (Some (fst x)) WPt) as (ls & E & F & _).
    rewrite E.
    replace (enc_line 0 (snd x) ++ concat ls) with (concat (enc_line 0 (snd x) :: ls)) by reflexivity.
    assert (FF : Forall (fun s0 => length s0 = p + 2) (enc_line 0 (snd x) :: ls)).
    { constructor; [apply enc_line_length; exact Hpx|exact F]. }
    rewrite chunks_concat by (try lia; exact FF). exact FF. }
  destruct (full_after_cons_none p x t) as [f2 FA].
  destruct (sim_lines St proc p cb0 _ (fst x) RN (FNormal (fst x)) acc (0 + Layout.K p) []
              [(fst x, N.of_nat (0 * (p + 2)))] 0 0 (MS_N p (fst x)) FL) as (newl & f3 & st3 & A & B & C).
  { rewrite SC. cbn [f_st mk]. rewrite FA. discriminate. }
  rewrite SC in A. cbn [f_lines mk] in A. rewrite app_nil_r in A.
  apply (f_equal (@rev line)) in A. rewrite !rev_involutive in A. subst newl.
  rewrite C. unfold l. destruct (feed St proc acc (x :: t)); reflexivity.
Qed.

Lemma fwim_read_full cb0 :
  fwim_read (d_file d) p cb0 (metainfo_size p) (len region) (fst x) fs = (fs, Ok l).
Proof.
  unfold fwim_read. erewrite mbind_ok by (apply (of_read_from_0 _ _ hdr region); apply (rd_file _ _ _ _ _ _ _ _ RD)).
  rewrite rwp_full. rewrite feed_read.
  - unfold ret. rewrite app_nil_r, frev_rev, rev_involutive. reflexivity.
  - exact (proj1 W).
  - destruct W as [_ F]. eapply Forall_impl; [|exact F]. intros a [H _]. exact H.
  - destruct (N.eq_dec (fst x) 0) as [E|E]; [right; exact E|left; lia].
Qed.

(* C10: a resampling read of the whole series returns the uniform bucket means of its lines *)
Lemma fwim_read_resampling_full cb0 b : b > 0 ->
  fwim_read_resampling (d_file d) p cb0 (N.of_nat b) (metainfo_size p) (len region) (fst x) fs = (fs, Ok (resample p b l)).
Proof.
  intros Hb. unfold fwim_read_resampling.
  replace (N.of_nat b =? 0)%N with false by (symmetry; apply N.eqb_neq; lia).
  erewrite mbind_ok by (apply (of_read_from_0 _ _ hdr region); apply (rd_file _ _ _ _ _ _ _ _ RD)).
  rewrite rwp_full.
  destruct (feed_sample_resample p b Hb l) as (s' & E & R).
  { destruct W as [_ F]. eapply Forall_impl; [|exact F]. intros a [H _]. exact H. }
  rewrite E. unfold ret. rewrite frev_rev, R. reflexivity.
Qed.
End FullRead.

Theorem read_all_full_ok fs s p hdr ihdr l :
  RepH fs s p hdr ihdr l -> l <> [] -> read_all s Unb Unb fs = (fs, Ok l).
Proof.
  intros [RD W RR RDn] Hne. destruct l as [|x t]; [congruence|].
  destruct (full_after_cons_none p x t) as [f' FA]. rewrite FA in RD.
  change (option_map fst (last_opt (x :: t))) with (Some (fst (last t x))) in RD.
  unfold read_all, seek_pos.
  rewrite (rough_new_unb fs (s_data s) p hdr ihdr x t f' RD W).
  erewrite mbind_ok by (apply mcatch_ok; apply (refine_unb fs (s_data s) p hdr ihdr x t f' RD W); reflexivity).
  rewrite (rd_p _ _ _ _ _ _ _ _ RD).
  cbn [p_start p_end p_full]. apply (fwim_read_full fs (s_data s) p hdr ihdr x t f' RD W).
Qed.

(* ---- create: ByteSeries::new_with_resamplers without caches establishes the invariant ---- *)
Lemma fs_mem_get fs f : fs_mem fs f = false -> fs_get fs f = None.
Proof. unfold fs_mem, fs_get. destruct (fs_raw fs f); [discriminate|reflexivity]. Qed.
Lemma fs_mem_put_other fs f g c : g <> f -> fs_mem (fs_put fs f c) g = fs_mem fs g.
Proof. intros N. unfold fs_mem, fs_put. rewrite fs_raw_put_other by exact N. reflexivity. Qed.

Lemma fwh_new_ok fs path header : fs_mem fs path = false -> (len header <= 65535)%N ->
  exists fs', fwh_new path header fs
              = (fs', Ok {| of_name := path; of_off := (user_header_starts + len header)%N |})
    /\ file_is fs' {| of_name := path; of_off := (user_header_starts + len header)%N |}
               (le_enc 2 (len header) ++ BSgen.Consts.line_ends ++ header) []
    /\ (forall g, g <> path -> fs_get fs' g = fs_get fs g)
    /\ (forall g, g <> path -> fs_mem fs' g = fs_mem fs g).
Proof.
  intros NM Hl. unfold fwh_new.
  replace (65535 <? len header)%N with false by (symmetry; apply N.ltb_ge; exact Hl).
  assert (C : create_new path fs = (fs_put fs path [], Ok tt)) by (unfold create_new; rewrite NM; reflexivity).
  erewrite mbind_ok by exact C.
  destruct (append_ok (fs_put fs path []) path [] (le_enc 2 (len header) ++ BSgen.Consts.line_ends ++ header)
              (fs_get_put_same fs path [])) as (fs2 & E & G & O).
  erewrite mbind_ok by exact E. eexists. split; [reflexivity|]. split; [|split].
  - split; cbn [of_name of_off].
    + rewrite G. cbn [app]. rewrite app_nil_r. reflexivity.
    + unfold user_header_starts, len. rewrite !app_length, le_enc_length. lia.
  - intros g N. rewrite (O g N). apply fs_get_put_other. exact N.
  - intros g N. unfold fs_mem. pose proof (O g N) as Og. unfold fs_get in Og.
    rewrite (fs_get_put_other fs path g [] N) in Og || idtac.
    unfold fs_get in *. unfold fs_put in Og. rewrite fs_raw_put_other in Og by exact N.
    destruct (fs_raw fs2 g), (fs_raw fs g); cbn [option_map] in Og; try discriminate; reflexivity.
Qed.

Lemma app_inj_tail_neq (name a b:list byte) : a <> b -> name ++ a <> name ++ b.
Proof. intros N E. apply app_inv_head in E. contradiction. Qed.
Lemma ext_data_index_neq name : name ++ ext_data <> name ++ ext_index.
Proof. apply app_inj_tail_neq. unfold ext_index. intro E. apply (f_equal (@length byte)) in E. rewrite app_length in E. cbn in E. lia. Qed.

Lemma sections_nil p : sections p [] = [].
Proof. unfold sections, scan. rewrite chunks_nil. reflexivity. Qed.

Theorem data_new_ok fs name p header :
  fs_mem fs (name ++ ext_data) = false -> fs_mem fs (name ++ ext_index) = false -> (len header <= 65535)%N ->
  exists fs' d,
    data_new name p header fs = (fs', Ok d)
    /\ RepD fs' d p (le_enc 2 (len header) ++ BSgen.Consts.line_ends ++ header)
            (le_enc 2 0 ++ BSgen.Consts.line_ends) [] None None
    /\ of_name (d_file d) = name ++ ext_data /\ of_name (ix_file (d_index d)) = name ++ ext_index
    /\ (forall g, g <> name ++ ext_data -> g <> name ++ ext_index -> fs_get fs' g = fs_get fs g).
Proof.
  intros M1 M2 Hl. unfold data_new.
  destruct (fwh_new_ok fs (name ++ ext_data) header M1 Hl) as (fs1 & E1 & F1 & O1 & OM1).
  erewrite mbind_ok by exact E1.
  erewrite mbind_ok by (apply (of_len_ok _ _ _ _ F1)).
  assert (FW : fwim_new {| of_name := name ++ ext_data; of_off := (user_header_starts + len header)%N |} p fs1 = (fs1, Ok tt)).
  { unfold fwim_new. erewrite mbind_ok by (apply (of_len_ok _ _ _ _ F1)). reflexivity. }
  erewrite mbind_ok by exact FW.
  assert (M2' : fs_mem fs1 (name ++ ext_index) = false).
  { rewrite OM1; [exact M2|]. apply not_eq_sym. apply ext_data_index_neq. }
  destruct (fwh_new_ok fs1 (name ++ ext_index) [] M2' ltac:(cbn; lia)) as (fs2 & E2 & F2 & O2 & _).
  erewrite mbind_ok.
  2:{ apply mcatch_ok. unfold index_new. erewrite mbind_ok by exact E2. reflexivity. }
  do 2 eexists. split; [reflexivity|]. split; [|split; [reflexivity|split; [reflexivity|]]].
  - constructor; cbn [d_p d_file d_len d_index d_last ix_file ix_entries ix_last of_name].
    + reflexivity.
    + eapply file_is_other; [exact F1|]. cbn [of_name]. apply O2. apply ext_data_index_neq.
    + reflexivity.
    + rewrite sections_nil. cbn [enc_index map concat]. rewrite app_nil_r in F2. exact F2.
    + rewrite sections_nil. reflexivity.
    + reflexivity.
    + apply legal_nil.
    + reflexivity.
    + apply ext_data_index_neq.
  - intros g N1 N2. rewrite (O2 g N2). apply O1. exact N1.
Qed.

Theorem series_new_ok fs name p hdr cb0 :
  fs_mem fs (name ++ ext_data) = false -> fs_mem fs (name ++ ext_index) = false ->
  (len (params_to_text BSgen.Consts.version (N.of_nat p) ++ hdr) <= 65535)%N ->
  let header := params_to_text BSgen.Consts.version (N.of_nat p) ++ hdr in
  exists fs' s,
    series_new name (N.of_nat p) hdr [] cb0 fs = (fs', Ok s)
    /\ RepH fs' s p (le_enc 2 (len header) ++ BSgen.Consts.line_ends ++ header) (le_enc 2 0 ++ BSgen.Consts.line_ends) []
    /\ s_cb s = cb0
    /\ of_name (d_file (s_data s)) = name ++ ext_data /\ of_name (ix_file (d_index (s_data s))) = name ++ ext_index
    /\ (forall g, g <> name ++ ext_data -> g <> name ++ ext_index -> fs_get fs' g = fs_get fs g).
Proof.
  intros M1 M2 Hl header. unfold series_new. rewrite Nat2N.id.
  destruct (data_new_ok fs name p header M1 M2 Hl) as (fs' & d & E & RD & N1 & N2 & O).
  erewrite mbind_ok by exact E. cbn [create_caches]. erewrite mbind_ok by reflexivity.
  do 2 eexists. split; [reflexivity|]. split; [|split; [reflexivity|split; [exact N1|split; [exact N2|exact O]]]].
  constructor; cbn [s_data s_range s_down].
  - exact RD.
  - split; constructor.
  - reflexivity.
  - reflexivity.
Qed.

(* C10 for the model (whole range, no caches): uniform bucket means of exactly the lines a full read
   returns, bucket size b = max 1 (m / n) >= 1 where m counts the slots of the byte range, at most
   2n samples, no overflow for any timestamp magnitude *)
Theorem read_n_full_ok fs s p hdr ihdr l n :
  RepH fs s p hdr ihdr l -> l <> [] -> (1 <= n)%N ->
  exists b, b >= 1 /\ read_n s n Unb Unb fs = (fs, Ok (resample p b l))
            /\ (len (resample p b l) <= 2 * n)%N.
Proof.
  intros [RD W RR RDn] Hne Hn. destruct l as [|x t]; [congruence|].
  destruct (full_after_cons_none p x t) as [f' FA]. rewrite FA in RD.
  change (option_map fst (last_opt (x :: t))) with (Some (fst (last t x))) in RD.
  destruct (fr_sizes p x t W) as (RL & KL & LE).
  set (region := encode p (x :: t)) in *.
  set (m := ((len region - metainfo_size p) / line_size p)%N).
  set (bN := N.max 1 (m / n)).
  exists (N.to_nat bN). split; [unfold bN; lia|].
  assert (RN : read_n s n Unb Unb fs = (fs, Ok (resample p (N.to_nat bN) (x :: t)))).
  { unfold read_n. rewrite RDn. cbn [sorted_lens].
    replace (n =? 0)%N with false by (symmetry; apply N.eqb_neq; lia).
    cbn [pick_level]. erewrite mbind_ok by reflexivity.
    unfold seek_pos. rewrite (rough_new_unb fs (s_data s) p hdr ihdr x t f' RD W).
    erewrite mbind_ok by (apply mcatch_ok; apply (refine_unb fs (s_data s) p hdr ihdr x t f' RD W); reflexivity).
    rewrite (rd_p _ _ _ _ _ _ _ _ RD). unfold pos_lines. cbn [p_start p_end p_full].
    unfold u64_sub. fold region.
    replace (metainfo_size p <=? len region)%N with true
      by (symmetry; apply N.leb_le; rewrite KL; unfold len; rewrite RL; nia).
    cbn [bind]. erewrite mbind_ok by reflexivity. fold m. fold bN.
    rewrite <- (N2Nat.id bN) at 1.
    apply (fwim_read_resampling_full fs (s_data s) p hdr ihdr x t f' RD W). unfold bN. lia. }
  split; [exact RN|].
  unfold resample, cache_of, len. rewrite map_length, buckets_length by (unfold bN; lia).
  (* |l| / b <= 2n *)
  assert (KM : (N.of_nat (length (x :: t)) <= m)%N).
  { unfold m, len, line_size. rewrite KL, RL.
    replace (N.of_nat ((Layout.K p + 1 + slots_from p (Some (fst x)) t) * (p + 2)) - N.of_nat (Layout.K p * (p + 2)))%N
      with (N.of_nat (1 + slots_from p (Some (fst x)) t) * N.of_nat (p + 2))%N by nia.
    rewrite N.div_mul by lia. pose proof (slots_from_lines p t (Some (fst x))). cbn [length]. lia. }
  pose proof (at_most_2n (N.of_nat (length (x :: t))) m n KM Hn) as A. fold bN in A.
  rewrite <- (N2Nat.id bN) in A. rewrite <- Nat2N.inj_div in A. exact A.
Qed.

(* ---- C17: failing creates and opens leave the file system alone ---- *)
Theorem new_over_existing fs name p hdr caches cb0 :
  fs_mem fs (name ++ ext_data) = true ->
  (len (params_to_text BSgen.Consts.version p ++ hdr) <= 65535)%N ->
  series_new name p hdr caches cb0 fs = (fs, Err EExists).
Proof.
  intros M Hl. unfold series_new, data_new, fwh_new.
  replace (65535 <? len (params_to_text BSgen.Consts.version p ++ hdr))%N with false by (symmetry; apply N.ltb_ge; exact Hl).
  unfold mbind, create_new. rewrite M. reflexivity.
Qed.

Theorem new_header_too_large fs name p hdr caches cb0 :
  (65535 < len (params_to_text BSgen.Consts.version p ++ hdr))%N ->
  series_new name p hdr caches cb0 fs = (fs, Err EHeaderTooLarge).
Proof.
  intros Hl. unfold series_new, data_new, fwh_new.
  replace (65535 <? len (params_to_text BSgen.Consts.version p ++ hdr))%N with true by (symmetry; apply N.ltb_lt; exact Hl).
  reflexivity.
Qed.

Theorem open_missing fs name popt caches cb0 :
  fs_mem fs (name ++ ext_data) = false ->
  series_open name popt caches cb0 fs = (fs, Err ENotFound).
Proof.
  intros M. unfold series_open, fwh_open, mbind, exists_file. rewrite M. reflexivity.
Qed.
Corollary builder_open_missing fs name popt hdr caches cb0 :
  fs_mem fs (name ++ ext_data) = false ->
  builder_open name popt hdr caches cb0 fs = (fs, Err ENotFound).
Proof. intros M. unfold builder_open, mbind. rewrite (open_missing fs name popt caches cb0 M). reflexivity. Qed.

Lemma fs_raw_del_same fs f : fs_raw (fs_del fs f) f = None.
Proof. induction fs as [|[g c] t IH]; cbn [fs_del fs_raw]; [reflexivity|]. destruct (bytes_eqb g f) eqn:E; [exact IH|]. cbn [fs_raw]. rewrite E. exact IH. Qed.
Lemma fs_raw_del_other fs f g : g <> f -> fs_raw (fs_del fs f) g = fs_raw fs g.
Proof.
  intros N. induction fs as [|[h c] t IH]; cbn [fs_del fs_raw]; [reflexivity|].
  destruct (bytes_eqb h f) eqn:E.
  - apply bytes_eqb_eq in E. subst h. rewrite (bytes_eqb_neq f g) by congruence. exact IH.
  - cbn [fs_raw]. destruct (bytes_eqb h g); [reflexivity|exact IH].
Qed.

Lemma mbind_err {A B} (m:M A) (f:A -> M B) fs fs' e : m fs = (fs', Err e) -> mbind m f fs = (fs', Err e).
Proof. intros H. unfold mbind. rewrite H. reflexivity. Qed.

(* a stale index file: the create fails and the data file it had made is removed again *)
Theorem new_stale_index fs name p hdr cb0 :
  fs_mem fs (name ++ ext_data) = false -> fs_mem fs (name ++ ext_index) = true ->
  (len (params_to_text BSgen.Consts.version p ++ hdr) <= 65535)%N ->
  exists fs', series_new name p hdr [] cb0 fs = (fs', Err EExists) /\ forall g, fs_get fs' g = fs_get fs g.
Proof.
  intros M1 M2 Hl.
  destruct (fwh_new_ok fs (name ++ ext_data) _ M1 Hl) as (fs1 & E1 & F1 & O1 & OM1).
  assert (FW : fwim_new {| of_name := name ++ ext_data; of_off := (user_header_starts + len (params_to_text BSgen.Consts.version p ++ hdr))%N |} (N.to_nat p) fs1 = (fs1, Ok tt)).
  { unfold fwim_new. erewrite mbind_ok by (apply (of_len_ok _ _ _ _ F1)). reflexivity. }
  assert (M2' : fs_mem fs1 (name ++ ext_index) = true).
  { rewrite OM1; [exact M2|]. apply not_eq_sym. apply ext_data_index_neq. }
  exists (fs_del fs1 (name ++ ext_data)). split.
  - unfold series_new. apply mbind_err. unfold data_new.
    erewrite mbind_ok by exact E1. erewrite mbind_ok by (apply (of_len_ok _ _ _ _ F1)).
    erewrite mbind_ok by exact FW. apply mbind_err.
    assert (IX : index_new name fs1 = (fs1, Err EExists)).
    { unfold index_new, fwh_new. change (65535 <? len (@nil byte))%N with false. cbn iota.
      apply mbind_err. apply mbind_err. unfold create_new. rewrite M2'. reflexivity. }
    unfold mcatch. rewrite IX. unfold mbind, remove_file, fail. reflexivity.
  - intros g. unfold fs_get. destruct (list_eq_dec Byte.byte_eq_dec g (name ++ ext_data)) as [->|N].
    + rewrite fs_raw_del_same. apply fs_mem_get in M1. unfold fs_get in M1. destruct (fs_raw fs (name ++ ext_data)); [discriminate|reflexivity].
    + rewrite fs_raw_del_other by exact N. specialize (O1 g N). unfold fs_get in O1.
      destruct (fs_raw fs1 g), (fs_raw fs g); cbn [option_map] in *; congruence.
Qed.

(* ---- C11/C19: the line estimate never panics except in the arm the Rust marks unreachable ---- *)
Theorem estimate_lines_total r p dl :
  (match start_area_ r, end_area_ r with STillEnd _, EWindow _ _ => False | _, _ => True end) ->
  exists mx mn, estimate_lines r p dl = Ok (mx, mn).
Proof.
  intros H. unfold estimate_lines. destruct (start_area_ r), (end_area_ r); try contradiction; cbn [bind]; eauto.
Qed.
